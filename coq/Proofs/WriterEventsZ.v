(* C02 second half / C01 on the model, for connections WITH negotiated permessage-deflate.

   compress/flate is not modelled: every operation that drives the compressor carries the chunks
   flate.Writer handed to the truncWriter as an ORACLE (Model/Writer.v).  What can be said of the
   wire is therefore: the Spec events carried by the frames are the output of the abstract writer
   (Spec/WriterSpec.v) where the payload of every message sent compressed is replaced by the
   oracle stream emitted for THAT message -- the [wc] chunks of its Writes followed by the [cc]
   chunks of its Close (or the [ic] chunks of the implicit close by the next NextWriter /
   WriteMessage) -- minus the final 00 00 ff ff that the truncWriter cuts off.  Types, order,
   RSV1 flags (exactly the messages begun while write compression was enabled, data messages
   only) and uncompressed payloads are those of the abstract writer.

   The "oracle-annotated abstract writer" [zstep] below IS [astep] with one ghost field: the
   oracle stream of the open message ([zstep_erase]: erasing the ghost field gives [astep] on the
   same program, unconditionally).

   Main results (all closed under the global context), for EVERY write program without
   WritePreparedMessage and for EVERY configuration (no hypothesis on [w_negotiated c]):
   - [wire_events_compressed]       map sent_of_event (events_of fs) = map zwire (z_out Z), with
                                    zerase Z = the abstract run A, every compressed entry's stream
                                    ending in 00 00 ff ff ([zstr_ok]), and the boundary clause
   - [wire_events_compressed_rel]   the same as Forall2 [zrel] against a_out A = map fst (z_out Z)
   - [wire_wellformed_and_events_compressed]  combined with WriterWireP (wf_wire with RSV1)
   - [abstract_flags_exact_compressed]        a_dead / a_open / a_comp against werr / cur / wcomp
   - [wire_events_uncompressed_instance]      WriterEventsP's equation re-derived as the instance
                                              w_negotiated c = false
   - [zstep_erase], [zrun_arun], [zrun_messages_only]: what the annotated writer is
   - [events_instance_compressed], [flate_good_needed], [rf_good_needed]: an instance with the
     stored-block deflater of Spec/Inflate.v as compressor; both oracle hypotheses are necessary.

   Hypotheses beyond those of WriterEventsP (14 < w_bufsize c < 2^62, keys of length 4, op_small,
   no_prepared), needed only when compression is negotiated:
   - [flate_good c s0 ops] (WWFlate): whenever a Close / implicit close drives the compressor of
     a current compressed writer, the chunks it emits end with 00 00 ff ff;
   - [rf_good c s0 ops]: no ReadFrom while a compressed writer is current (the model does not
     drive the compressor through ReadFrom: it reports an error and leaves the writer open).

   Structure (mirrors WriterEventsP.v, generalised): live primitives with the RSV1 bit, the copy
   loops, truncWriter / flate wrapper on a live connection, the annotated abstract writer, the
   ghost invariant [GZ], one step, programs. *)
Require Import WS.Base.Bytes WS.gen.Consts WS.Spec.Frame WS.Spec.WriterSpec WS.Proofs.FrameP WS.Model.Writer WS.Cases.WriterCase.
From RecordUpdate Require Import RecordSet.
Import RecordSetNotations.
Require Import WS.Proofs.WWBase WS.Proofs.WWInv WS.Proofs.WWStep WS.Proofs.WWFlate WS.Proofs.WWDead WS.Proofs.WriterWireP.
Require WS.Proofs.WriterStateP.
Require Import WS.Proofs.PrepBase.
Require Import WS.Proofs.WriterEventsP.
Ltac Zify.zify_post_hook ::= Z.div_mod_to_equations.

(* ------------------------------------------------------------------------------------------ *)
(* live primitives                                                                            *)
(* ------------------------------------------------------------------------------------------ *)
Record Pz (s:wst) : Prop := {
  z_fa : fail_at s = None;
  z_keys : Forall len4 (keys s);
  z_ended : Forall (fun x : nat * werror => ntr (snd x)) (ended s)
}.

Lemma aux_core s s' : WriterStateP.core s' = WriterStateP.core s -> aux s' = aux s.
Proof. unfold WriterStateP.core, aux. intros H. congruence. Qed.

Lemma Pz_core s s' : Pz s -> WriterStateP.core s' = WriterStateP.core s -> fail_at s' = None ->
  Forall len4 (keys s') -> Pz s'.
Proof.
  intros [A B C] HC HF HK. constructor; try assumption.
  rewrite (WriterStateP.core_ended _ _ HC). exact C.
Qed.

Lemma Pz_end c e m s : Pz s -> m_err m = None -> ntr e -> Pz (end_message c e m s).
Proof.
  intros [A B C] HM HN.
  destruct (end_message_eff c e m s HM) as (E1&E2&E3&E4&E5&E6&E7).
  destruct (end_message_more c e m s HM) as (F1&F2&F3).
  constructor.
  - rewrite E4. exact A.
  - rewrite E6. exact B.
  - rewrite F3. constructor; [exact HN|exact C].
Qed.

Definition rsvb (b:bool) : N := if b then 4 else 0.

Lemma flush_liveZ c final extra m s e s' :
  Pz s -> werr s = None -> m_err m = None ->
  (w_server c = false -> extra = []) ->
  flush_frame c final extra m s = (e, s') ->
  Pz s' /\ aux s' = aux s /\
  if is_control_ty (m_ftype m) && (negb final || (125 <? blen (m_buf m ++ extra))) then
     e = Some WInvalidControl /\ wire s' = wire s /\ werr s' = None /\ cur s' = None
  else exists mk, role_key c mk /\
     e = None /\ wire s' = wire s ++ encode_frame (mkf final (m_ftype m) (rsvb (m_compress m)) mk (m_buf m ++ extra)) /\
     werr s' = (if m_ftype m =? 8 then Some WCloseSent else None) /\
     if final then cur s' = None else
       cur_flate s' = cur_flate s /\
       exists m', cur s' = Some m' /\ m_id m' = m_id m /\ m_buf m' = [] /\ m_ftype m' = 0 /\
                  m_err m' = None /\ m_compress m' = false.
Proof.
  intros HP HE Merr Hex H.
  unfold flush_frame in H. cbv zeta in H.
  set (m1 := m <| m_compress := false |>) in *.
  set (s1 := s <| cur := Some m1 |>) in *.
  assert (Merr1 : m_err m1 = None) by exact Merr.
  rewrite <- blen_app in H.
  set (pl := m_buf m ++ extra) in *.
  change c_maxControlFramePayloadSize with 125 in H.
  destruct (is_control_ty (m_ftype m) && (negb final || (125 <? blen pl))) eqn:EC.
  { inversion H; subst e s'. clear H.
    destruct (end_message_eff c WInvalidControl m s Merr) as (E1&E2&E3&E4&E5&E6&E7).
    split; [apply Pz_end; [exact HP|exact Merr|exact I]|]. split; [apply aux_end_message|].
    split; [reflexivity|]. split; [exact E7|]. split; [rewrite E5; exact HE|exact E1]. }
  rewrite b0_arith in H. fold (rsvb (m_compress m)) in H.
  assert (S1 : wire s1 = wire s /\ werr s1 = werr s /\ keys s1 = keys s /\ fail_at s1 = fail_at s /\ aux s1 = aux s /\
               cur_flate s1 = cur_flate s)
    by (repeat split; reflexivity).
  destruct S1 as (S1w & S1e & S1k & S1f & S1a & S1c).
  assert (P1 : Pz s1) by (destruct HP; constructor; assumption).
  assert (Common : forall masked (mk:bytes->bytes) buf1 e0 s2,
    conn_write (m_ftype m1) (deadline s1) masked mk buf1 s1 = (e0, s2) ->
    (forall key, (if masked then len4 key else key = []) ->
       role_key c (if masked then Some key else None) /\
       mk key ++ buf1 = encode_frame (mkf final (m_ftype m) (rsvb (m_compress m)) (if masked then Some key else None) pl)) ->
    match e0 with
    | Some e0 => (Some e0, end_message c e0 m1 s2)
    | None => if final then (None, end_message c WWriteClosed m1 s2)
              else (None, s2 <| cur := Some (m1 <| m_buf := [] |> <| m_ftype := c_continuationFrame |>) |>)
    end = (e, s') ->
    Pz s' /\ aux s' = aux s /\
    exists mk, role_key c mk /\
     e = None /\ wire s' = wire s ++ encode_frame (mkf final (m_ftype m) (rsvb (m_compress m)) mk pl) /\
     werr s' = (if m_ftype m =? 8 then Some WCloseSent else None) /\
     if final then cur s' = None else
       cur_flate s' = cur_flate s /\
       exists m', cur s' = Some m' /\ m_id m' = m_id m /\ m_buf m' = [] /\ m_ftype m' = 0 /\
                  m_err m' = None /\ m_compress m' = false).
  { intros masked mk buf1 e0 s2 HCW Henc Hres.
    apply conn_write_live in HCW; [|rewrite S1e; exact HE|rewrite S1f; apply HP|rewrite S1k; apply HP].
    destruct HCW as (key & Hkey & -> & HW & HK2 & HF2 & HC2 & HE2).
    destruct (Henc key Hkey) as [Hrole Hfr]. rewrite Hfr, S1w in HW.
    assert (P2 : Pz s2) by (apply (Pz_core s1 s2 P1 HC2 HF2 HK2)).
    assert (A2 : aux s2 = aux s) by (rewrite (aux_core _ _ HC2); exact S1a).
    change (m_ftype m1) with (m_ftype m) in HE2. change c_CloseMessage with 8 in HE2.
    destruct final.
    - inversion Hres; subst e s'. clear Hres.
      destruct (end_message_eff c WWriteClosed m1 s2 Merr1) as (E1&E2&E3&E4&E5&E6&E7).
      split; [apply Pz_end; [exact P2|exact Merr1|exact I]|]. split; [rewrite aux_end_message; exact A2|].
      eexists. split; [exact Hrole|]. split; [reflexivity|]. split; [rewrite E7; exact HW|].
      split; [rewrite E5; exact HE2|exact E1].
    - inversion Hres; subst e s'. clear Hres.
      set (m2 := m1 <| m_buf := [] |> <| m_ftype := c_continuationFrame |>).
      set (s3 := s2 <| cur := Some m2 |>).
      split; [destruct P2; constructor; assumption|]. split; [exact A2|].
      eexists. split; [exact Hrole|]. split; [reflexivity|]. split; [exact HW|]. split; [exact HE2|].
      split; [change (cur_flate s2 = cur_flate s); rewrite (WriterStateP.core_cur_flate _ _ HC2); exact S1c|].
      exists m2. repeat split; try reflexivity; assumption. }
  destruct (w_server c) eqn:ES.
  - match type of H with context [conn_write ?a ?b ?c0 ?d ?e0 ?f] =>
      destruct (conn_write a b c0 d e0 f) as [e0' s2] eqn:HCW end.
    eapply (Common false _ extra e0' s2 HCW); [|exact H].
    intros key Hkey. split; [unfold role_key; rewrite ES; reflexivity|].
    rewrite <- (frame_header_enc final _ (m_ftype m) None pl _ eq_refl).
    cbn [mbit wpay]. subst pl. rewrite <- app_assoc. reflexivity.
  - pose proof (Hex eq_refl) as X. subst extra.
    match type of H with context [conn_write ?a ?b ?c0 ?d ?e0 ?f] =>
      destruct (conn_write a b c0 d e0 f) as [e0' s2] eqn:HCW end.
    eapply (Common true _ [] e0' s2 HCW); [|exact H].
    intros key Hkey. split; [unfold role_key; rewrite ES; exists key; auto|].
    rewrite <- (frame_header_enc final _ (m_ftype m) (Some key) pl _ eq_refl).
    cbn [mbit wpay]. subst pl. rewrite !app_nil_r. reflexivity.
Qed.

Definition mk_sent (t:N) (cf:bool) (d:bytes) : sent := {| s_ty := t; s_comp := cf; s_data := d; s_complete := true |}.

Definition mwz (c:wcfg) (m:mwr) : Prop := m_err m = None /\ blen (m_buf m) <= cap c.

(* the open message as the message writer sees it (type [t], RSV1 flag [cf], bytes accepted so far
   [acc]: the plaintext of an uncompressed message, what the truncWriter let through of a
   compressed one) against the decoder's accumulator [ae] and the writer's buffer *)
Definition ZOpen (t:N) (cf:bool) (acc:bytes) (ae:eacc) (m:mwr) : Prop :=
  (ae = None /\ m_ftype m = t /\ acc = m_buf m /\ m_compress m = cf) \/
  (is_control_ty t = false /\ m_ftype m = 0 /\ m_compress m = false /\
   exists d0, ae = Some (t, cf, d0) /\ acc = d0 ++ m_buf m).

Lemma rsvb_eqb cf : (rsvb cf =? 4) = cf.
Proof. destruct cf; reflexivity. Qed.
Lemma rsvb_lt cf : rsvb cf < 8.
Proof. destruct cf; cbn; lia. Qed.

Lemma ZOpen_ftype t cf acc ae m : vty t -> ZOpen t cf acc ae m ->
  (m_ftype m = t \/ (m_ftype m = 0 /\ is_control_ty t = false)) /\ m_ftype m < 16 /\
  (is_control_ty t = false -> is_control_ty (m_ftype m) = false /\ is_control (m_ftype m) = false /\ (m_ftype m =? 8) = false).
Proof.
  intros V [(A & B & C & D)|(A & B & _)].
  - split; [left; exact B|]. rewrite B. split; [unfold vty in V; lia|].
    intros X. destruct (vty_data t V X) as [-> | ->]; repeat split; reflexivity.
  - split; [right; auto|]. rewrite B. split; [lia|]. intros _. repeat split; reflexivity.
Qed.

Lemma flush_openZ c extra m s e s' t cf acc ae :
  capok c -> Pz s -> werr s = None -> mwz c m -> vty t -> is_control_ty t = false -> ZOpen t cf acc ae m ->
  (w_server c = false -> extra = []) -> small extra ->
  flush_frame c false extra m s = (e, s') ->
  e = None /\ Pz s' /\ werr s' = None /\ aux s' = aux s /\ cur_flate s' = cur_flate s /\
  exists f m', wf_frame f /\ wire s' = wire s ++ encode_frame f /\
     events_from ae [f] = ([], Some (t, cf, acc ++ extra)) /\
     cur s' = Some m' /\ m_id m' = m_id m /\ mwz c m' /\ m_buf m' = [] /\ m_ftype m' = 0 /\ m_compress m' = false.
Proof.
  intros HCap HP HE (M1 & M3) V HD HO Hex HS H.
  destruct (ZOpen_ftype t cf acc ae m V HO) as (_ & FT & FD). destruct (FD HD) as (F1 & F2 & F3).
  destruct (flush_liveZ c false extra m s e s' HP HE M1 Hex H) as (P' & A' & R).
  rewrite F1 in R. cbn [andb] in R. rewrite F3 in R.
  destruct R as (mk & HR & -> & HW & HE' & CF' & m' & C1 & C2 & C3 & C4 & C5 & C6).
  split; [reflexivity|]. split; [exact P'|]. split; [exact HE'|]. split; [exact A'|]. split; [exact CF'|].
  exists (mkf false (m_ftype m) (rsvb (m_compress m)) mk (m_buf m ++ extra)), m'.
  split.
  { apply wf_mkf; [apply rsvb_lt|exact FT| |apply (role_key_ok c); exact HR].
    rewrite blen_app. unfold capok, small in *. lia. }
  split; [exact HW|]. split.
  { rewrite events_from_more by (cbn [mkf opcode fin]; auto). cbn [events_from].
    destruct HO as [(-> & B & -> & D)|(_ & B & D & d0 & -> & ->)].
    - cbn [acc_step mkf opcode rsv payload]. rewrite B, D, rsvb_eqb. reflexivity.
    - cbn [acc_step mkf opcode rsv payload]. rewrite app_assoc. reflexivity. }
  split; [exact C1|]. split; [exact C2|]. split; [|auto].
  split; [exact C5|]. rewrite C3. cbn. lia.
Qed.

Lemma flush_final_openZ c extra m s e s' t cf acc ae :
  capok c -> Pz s -> werr s = None -> mwz c m -> vty t -> (cf = true -> is_control_ty t = false) ->
  ZOpen t cf acc ae m ->
  (w_server c = false -> extra = []) -> small extra ->
  flush_frame c true extra m s = (e, s') ->
  Pz s' /\ aux s' = aux s /\ cur s' = None /\
  if is_control_ty t && (125 <? blen (acc ++ extra)) then
    e = Some WInvalidControl /\ wire s' = wire s /\ werr s' = None /\ ae = None
  else e = None /\ werr s' = (if t =? 8 then Some WCloseSent else None) /\
    exists f ev, wf_frame f /\ wire s' = wire s ++ encode_frame f /\
      events_from ae [f] = ([ev], None) /\ sent_of_event ev = mk_sent t cf (acc ++ extra).
Proof.
  intros HCap HP HE (M1 & M3) V HCF HO Hex HS H.
  destruct (ZOpen_ftype t cf acc ae m V HO) as (_ & FT & FD).
  destruct (flush_liveZ c true extra m s e s' HP HE M1 Hex H) as (P' & A' & R).
  cbn [negb orb] in R.
  assert (HL : blen (m_buf m ++ extra) < 2^63).
  { rewrite blen_app. unfold capok, small in *. lia. }
  destruct HO as [(-> & B & -> & D)|(A & B & D & d0 & -> & ->)].
  - rewrite B in R.
    destruct (is_control_ty t && (125 <? blen (m_buf m ++ extra))) eqn:EC.
    + destruct R as (-> & R2 & R3 & R4). auto 10.
    + destruct R as (mk & HR & -> & HW & HE' & HC').
      split; [exact P'|]. split; [exact A'|]. split; [exact HC'|]. split; [reflexivity|]. split; [exact HE'|].
      exists (mkf true t (rsvb (m_compress m)) mk (m_buf m ++ extra)).
      destruct (is_control_ty t) eqn:ET.
      * destruct (vty_ctl t V ET) as [IC _].
        destruct cf; [specialize (HCF eq_refl); discriminate|].
        exists (ECtl t (m_buf m ++ extra)).
        split; [apply wf_mkf; [apply rsvb_lt|unfold vty in V; lia|exact HL|apply (role_key_ok c); exact HR]|].
        split; [exact HW|]. split; [|reflexivity].
        rewrite events_from_ctl by exact IC. reflexivity.
      * assert (Et : is_control t = false) by (destruct (vty_data t V ET) as [-> | ->]; reflexivity).
        exists (EMsg t cf (m_buf m ++ extra)).
        split; [apply wf_mkf; [apply rsvb_lt|unfold vty in V; lia|exact HL|apply (role_key_ok c); exact HR]|].
        split; [exact HW|]. split; [|reflexivity].
        rewrite events_from_final by (cbn [mkf opcode fin]; auto).
        cbn [acc_step emsg_of mkf opcode rsv payload events_from fst snd]. rewrite D, rsvb_eqb. reflexivity.
  - rewrite B in R. cbn [is_control_ty N.eqb andb orb c_CloseMessage c_PingMessage c_PongMessage] in R.
    rewrite A. cbn [andb].
    destruct R as (mk & HR & -> & HW & HE' & HC').
    split; [exact P'|]. split; [exact A'|]. split; [exact HC'|]. split; [reflexivity|].
    split. { destruct (vty_data t V A) as [-> | ->]; exact HE'. }
    exists (mkf true 0 (rsvb (m_compress m)) mk (m_buf m ++ extra)), (EMsg t cf ((d0 ++ m_buf m) ++ extra)).
    split; [apply wf_mkf; [apply rsvb_lt|lia|exact HL|apply (role_key_ok c); exact HR]|].
    split; [exact HW|]. split; [|reflexivity].
    rewrite events_from_final by reflexivity.
    cbn [acc_step emsg_of mkf payload events_from fst snd]. rewrite app_assoc. reflexivity.
Qed.

(* ------------------------------------------------------------------------------------------ *)
(* Write / WriteString / ReadFrom of the message writer on a live connection                  *)
(* ------------------------------------------------------------------------------------------ *)
Definition wr_postZ (c:wcfg) (s:wst) (m:mwr) (t:N) (cf:bool) (acc:bytes) (ae:eacc) (p:bytes)
                   (e:option werror) (s':wst) : Prop :=
  Pz s' /\ werr s' = None /\ aux s' = aux s /\
  ((e = None /\ cur_flate s' = cur_flate s /\
    exists fs' ae' m', cur s' = Some m' /\ m_id m' = m_id m /\ mwz c m' /\
       wire s' = wire s ++ encode_frames fs' /\ Forall wf_frame fs' /\
       events_from ae fs' = ([], ae') /\ ZOpen t cf (acc ++ p) ae' m')
   \/ (is_control_ty t = true /\ e = Some WInvalidControl /\ cur s' = None /\ wire s' = wire s /\ ae = None)).

Lemma ZOpen_append t cf acc ae m d :
  ZOpen t cf acc ae m -> ZOpen t cf (acc ++ d) ae (m <| m_buf := m_buf m ++ d |>).
Proof.
  intros [(A & B & C & D)|(A & B & D & d0 & C & E)].
  - left. subst acc. auto.
  - right. split; [exact A|]. split; [exact B|]. split; [exact D|]. exists d0. split; [exact C|]. subst acc. wsimpl.
    rewrite app_assoc. reflexivity.
Qed.

Lemma wr_post_flush_thenZ c s s1 s' m m1 t cf acc ae f extra p e :
  wire s1 = wire s ++ encode_frame f -> wf_frame f -> aux s1 = aux s -> cur_flate s1 = cur_flate s ->
  events_from ae [f] = ([], Some (t, cf, acc ++ extra)) -> m_id m1 = m_id m ->
  wr_postZ c s1 m1 t cf (acc ++ extra) (Some (t, cf, acc ++ extra)) p e s' ->
  is_control_ty t = false ->
  wr_postZ c s m t cf acc ae (extra ++ p) e s'.
Proof.
  intros HW Hwf HA HCF HEv HId (P' & E' & A' & R) HD.
  split; [exact P'|]. split; [exact E'|]. split; [congruence|].
  destruct R as [(-> & CF' & fs' & ae' & m' & C1 & C2 & C3 & C4 & C5 & C6 & C7)|(X & _)]; [|congruence].
  left. split; [reflexivity|]. split; [congruence|]. exists (f :: fs'), ae', m'.
  split; [exact C1|]. split; [congruence|]. split; [exact C3|].
  split. { rewrite C4, HW, encode_frames_cons, app_assoc. reflexivity. }
  split; [constructor; assumption|]. split.
  { change (f :: fs') with ([f] ++ fs'). rewrite events_from_app, HEv. cbn [fst snd]. rewrite C6. reflexivity. }
  rewrite app_assoc. exact C7.
Qed.

Lemma wr_postZ_done c s m t cf acc ae : Pz s -> werr s = None -> cur s = Some m -> mwz c m ->
  ZOpen t cf acc ae m -> wr_postZ c s m t cf acc ae [] None s.
Proof.
  intros HP HE HC HM HO. split; [exact HP|]. split; [exact HE|]. split; [reflexivity|].
  left. split; [reflexivity|]. split; [reflexivity|]. exists [], ae, m. rewrite ?app_nil_r. cbn [encode_frames flat_map].
  rewrite ?app_nil_r. auto 10.
Qed.

Lemma copy_loop_liveZ c : capok c -> 0 < cap c -> forall fuel p s m t cf acc ae e s',
  Pz s -> werr s = None -> cur s = Some m -> mwz c m -> vty t -> ZOpen t cf acc ae m ->
  2 * blen p + (if cap c - blen (m_buf m) =? 0 then 1 else 0) <= N.of_nat fuel ->
  copy_loop fuel c p s = (e, s') ->
  wr_postZ c s m t cf acc ae p e s'.
Proof.
  intros HCap HPos. induction fuel as [|fuel IH]; intros p s m t cf acc ae e s' HP HE HC HM V HO HF H.
  - destruct p as [|x p']; cbn [copy_loop] in H.
    + inversion H; subst e s'. apply wr_postZ_done; assumption.
    + exfalso. unfold blen in HF. cbn [length] in HF. lia.
  - destruct p as [|x p']; cbn [copy_loop] in H.
    { inversion H; subst e s'. apply wr_postZ_done; assumption. }
    assert (Hpp : 0 < blen (x :: p')) by (unfold blen; cbn [length]; lia).
    set (pp := x :: p') in *. clearbody pp.
    rewrite HC in H.
    destruct (cap c - blen (m_buf m) =? 0) eqn:ER.
    + destruct (flush_frame c false [] m s) as [e1 s1] eqn:EF.
      assert (Hs : small []) by (unfold small; cbn; lia).
      destruct (is_control_ty t) eqn:ET.
      * (* a control writer cannot flush a non-final frame *)
        destruct HO as [(-> & B & -> & D)|(A & _)]; [|congruence].
        destruct HM as (M1 & M3).
        destruct (flush_liveZ c false [] m s e1 s1 HP HE M1 (fun _ => eq_refl) EF) as (P' & A' & R).
        rewrite B, ET in R. cbn [negb orb andb] in R. destruct R as (-> & R2 & R3 & R4).
        inversion H; subst e s'. split; [exact P'|]. split; [exact R3|]. split; [exact A'|].
        right. auto 10.
      * destruct (flush_openZ c [] m s e1 s1 t cf acc ae HCap HP HE HM V ET HO (fun _ => eq_refl) Hs EF)
          as (-> & P1 & E1 & A1 & CF1 & f & m1 & Fwf & FW & FEv & FC & FId & FM & FB & FT & FCm).
        change pp with ([] ++ pp).
        apply (wr_post_flush_thenZ c s s1 s' m m1 t cf acc ae f [] pp e FW Fwf A1 CF1 FEv FId); [|exact ET].
        apply (IH pp s1 m1 t cf (acc ++ []) _ e s' P1 E1 FC FM V); [| |exact H].
        -- right. split; [exact ET|]. split; [exact FT|]. split; [exact FCm|]. exists (acc ++ []). split; [reflexivity|]. rewrite FB, !app_nil_r. reflexivity.
        -- rewrite FB. change (blen []) with 0. replace (cap c - 0 =? 0) with false by lia. lia.
    + set (n := N.min (cap c - blen (m_buf m)) (blen pp)) in *.
      set (m2 := m <| m_buf := m_buf m ++ takeN n pp |>) in *.
      set (s2 := s <| cur := Some m2 |>) in *.
      assert (HB : blen (m_buf m2) = blen (m_buf m) + n).
      { unfold m2. wsimpl. rewrite blen_app, blen_takeN. subst n. lia. }
      assert (P2 : Pz s2) by (destruct HP; constructor; assumption).
      assert (M2 : mwz c m2).
      { destruct HM as (M1 & M3). split; [exact M1|]. rewrite HB. subst n. lia. }
      assert (R2 : wr_postZ c s2 m2 t cf (acc ++ takeN n pp) ae (dropN n pp) e s').
      { apply (IH (dropN n pp) s2 m2 t cf _ ae e s' P2 HE eq_refl M2 V); [apply ZOpen_append; exact HO| |exact H].
        rewrite blen_dropN, HB. subst n. destruct (cap c - (blen (m_buf m) + N.min (cap c - blen (m_buf m)) (blen pp)) =? 0); lia. }
      destruct R2 as (P' & E' & A' & R). split; [exact P'|]. split; [exact E'|]. split; [exact A'|].
      destruct R as [(-> & CF' & fs' & ae' & m' & C1 & C2 & C3 & C4 & C5 & C6 & C7)|(X1 & X2 & X3 & X4 & X5)].
      * left. split; [reflexivity|]. split; [exact CF'|]. exists fs', ae', m'. rewrite <- app_assoc, takeN_app_dropN in C7. auto 10.
      * right. auto 10.
Qed.

(* bytes that went into the buffer first *)
Lemma wr_postZ_append c s s2 m m2 t cf acc ae d p e s' :
  aux s2 = aux s -> cur_flate s2 = cur_flate s -> wire s2 = wire s -> m_id m2 = m_id m ->
  wr_postZ c s2 m2 t cf (acc ++ d) ae p e s' -> wr_postZ c s m t cf acc ae (d ++ p) e s'.
Proof.
  intros HA HCF HW HI (P' & E' & A' & R). split; [exact P'|]. split; [exact E'|]. split; [congruence|].
  destruct R as [(-> & CF' & fs' & ae' & m' & C1 & C2 & C3 & C4 & C5 & C6 & C7)|(X1 & X2 & X3 & X4 & X5)].
  - left. split; [reflexivity|]. split; [congruence|]. exists fs', ae', m'. rewrite <- app_assoc in C7.
    split; [exact C1|]. split; [congruence|]. split; [exact C3|]. split; [congruence|]. auto.
  - right. split; [exact X1|]. split; [exact X2|]. split; [exact X3|]. split; [congruence|exact X5].
Qed.

Lemma read_from_liveZ c : capok c -> 0 < cap c -> forall fuel chunks s m t cf acc ae e s',
  Pz s -> werr s = None -> cur s = Some m -> mwz c m -> vty t -> ZOpen t cf acc ae m ->
  2 * blen (concat chunks) + 2 * N.of_nat (length chunks) + (if cap c - blen (m_buf m) =? 0 then 1 else 0) + 1 <= N.of_nat fuel ->
  read_from fuel c chunks s = (e, s') ->
  wr_postZ c s m t cf acc ae (concat chunks) e s'.
Proof.
  intros HCap HPos. induction fuel as [|fuel IH]; intros chunks s m t cf acc ae e s' HP HE HC HM V HO HF H.
  - exfalso. lia.
  - cbn [read_from] in H. rewrite HC in H.
    destruct (cap c - blen (m_buf m) =? 0) eqn:ER.
    + (* the buffer is full: one byte of lookahead *)
      destruct chunks as [|[|b ch'] rest].
      { inversion H; subst e s'. cbn [concat]. apply wr_postZ_done; assumption. }
      { destruct rest as [|r1 rest1].
        - inversion H; subst e s'. cbn [concat app]. apply wr_postZ_done; assumption.
        - cbn [concat app]. apply (IH (r1 :: rest1) s m t cf acc ae e s' HP HE HC HM V HO); [|exact H].
          cbn [concat length app] in HF |- *. rewrite ER. rewrite ?app_nil_l in HF. lia. }
      destruct (flush_frame c false [] m s) as [e1 s1] eqn:EF.
      assert (Hs : small []) by (unfold small; cbn; lia).
      destruct (is_control_ty t) eqn:ET.
      * destruct HO as [(-> & B & -> & D)|(A & _)]; [|congruence].
        destruct HM as (M1 & M3).
        destruct (flush_liveZ c false [] m s e1 s1 HP HE M1 (fun _ => eq_refl) EF) as (P' & A' & R).
        rewrite B, ET in R. cbn [negb orb andb] in R. destruct R as (-> & R2 & R3 & R4).
        inversion H; subst e s'. split; [exact P'|]. split; [exact R3|]. split; [exact A'|].
        right. auto 10.
      * destruct (flush_openZ c [] m s e1 s1 t cf acc ae HCap HP HE HM V ET HO (fun _ => eq_refl) Hs EF)
          as (-> & P1 & E1 & A1 & CF1 & f & m1 & Fwf & FW & FEv & FC & FId & FM & FB & FT & FCm).
        unfold put_byte in H. rewrite FC in H.
        set (m2 := m1 <| m_buf := m_buf m1 ++ [b] |>) in *.
        set (s2 := s1 <| cur := Some m2 |>) in *.
        assert (HB : blen (m_buf m2) = 1) by (unfold m2; wsimpl; rewrite FB; reflexivity).
        assert (P2 : Pz s2) by (destruct P1; constructor; assumption).
        assert (M2 : mwz c m2).
        { destruct FM as (M1 & M3). split; [exact M1|]. rewrite HB. lia. }
        assert (O1 : ZOpen t cf (acc ++ []) (Some (t, cf, acc ++ [])) m1).
        { right. split; [exact ET|]. split; [exact FT|]. split; [exact FCm|]. exists (acc ++ []).
          split; [reflexivity|]. rewrite FB, !app_nil_r. reflexivity. }
        assert (O2 : ZOpen t cf ((acc ++ []) ++ [b]) (Some (t, cf, acc ++ [])) m2) by (apply ZOpen_append; exact O1).
        change (concat ((b :: ch') :: rest)) with ([] ++ ([b] ++ (ch' ++ concat rest))).
        apply (wr_post_flush_thenZ c s s1 s' m m1 t cf acc ae f [] _ e FW Fwf A1 CF1 FEv FId); [|exact ET].
        apply (wr_postZ_append c s1 s2 m1 m2 t cf (acc ++ []) _ [b] _ e s'); try reflexivity.
        assert (Hcase : (ch' = [] /\ rest = [] /\ e = None /\ s' = s2) \/
                        read_from fuel c (match ch' with [] => rest | _ => ch' :: rest end) s2 = (e, s')).
        { destruct ch' as [|b1 ch1]; [destruct rest as [|r1 rest1]|];
            [left; inversion H; auto|right; exact H|right; exact H]. }
        clear H. destruct Hcase as [(-> & -> & -> & ->)|H].
        { cbn [concat app]. apply wr_postZ_done; try assumption. reflexivity. }
        set (chunks' := match ch' with [] => rest | _ => ch' :: rest end) in *.
        assert (HCC : concat chunks' = ch' ++ concat rest) by (subst chunks'; destruct ch'; reflexivity).
        rewrite <- HCC.
        apply (IH chunks' s2 m2 t cf _ _ e s' P2 E1 eq_refl M2 V O2); [|exact H].
        rewrite HCC, blen_app, HB. cbn [concat length] in HF. rewrite blen_app in HF.
        assert (HL : N.of_nat (length chunks') <= N.of_nat (length rest) + 1).
        { subst chunks'. destruct ch'; cbn [length]; lia. }
        assert (HB1 : blen (b :: ch') = 1 + blen ch') by (unfold blen; cbn [length]; lia).
        destruct (cap c - 1 =? 0); lia.
    + destruct chunks as [|ch rest].
      { inversion H; subst e s'. cbn [concat]. apply wr_postZ_done; assumption. }
      set (n := N.min (cap c - blen (m_buf m)) (blen ch)) in *.
      set (m2 := m <| m_buf := m_buf m ++ takeN n ch |>) in *.
      set (s2 := s <| cur := Some m2 |>) in *.
      assert (HB : blen (m_buf m2) = blen (m_buf m) + n).
      { unfold m2. wsimpl. rewrite blen_app, blen_takeN. subst n. lia. }
      assert (P2 : Pz s2) by (destruct HP; constructor; assumption).
      assert (M2 : mwz c m2).
      { destruct HM as (M1 & M3). split; [exact M1|]. rewrite HB. subst n. lia. }
      assert (Hcase : (dropN n ch = [] /\ rest = [] /\ e = None /\ s' = s2) \/
                      read_from fuel c (match dropN n ch with [] => rest | _ => dropN n ch :: rest end) s2 = (e, s')).
      { destruct (dropN n ch) as [|r0 rem]; [destruct rest as [|r1 rest1]|];
          [left; inversion H; auto|right; exact H|right; exact H]. }
      clear H. destruct Hcase as [(D1 & D2 & -> & ->)|H].
      { split; [exact P2|]. split; [exact HE|]. split; [reflexivity|].
        left. split; [reflexivity|]. split; [reflexivity|]. exists [], ae, m2.
        assert (Hch : takeN n ch = ch) by (rewrite <- (takeN_app_dropN n ch) at 2; rewrite D1, app_nil_r; reflexivity).
        subst rest. cbn [concat]. rewrite app_nil_r. cbn [encode_frames flat_map]. rewrite app_nil_r.
        split; [reflexivity|]. split; [reflexivity|]. split; [exact M2|]. split; [reflexivity|].
        split; [constructor|]. split; [reflexivity|].
        rewrite <- Hch at 1. apply ZOpen_append. exact HO. }
      set (chunks' := match dropN n ch with [] => rest | _ => dropN n ch :: rest end) in *.
      assert (HCC : concat chunks' = dropN n ch ++ concat rest) by apply concat_chunks_step.
      assert (R2 : wr_postZ c s2 m2 t cf (acc ++ takeN n ch) ae (concat chunks') e s').
      { apply (IH chunks' s2 m2 t cf _ ae e s' P2 HE eq_refl M2 V); [apply ZOpen_append; exact HO| |exact H].
        rewrite HCC, blen_app, blen_dropN, HB. cbn [concat length] in HF. rewrite blen_app in HF.
        assert (HL : N.of_nat (length chunks') <= N.of_nat (length rest) + (if blen ch - n =? 0 then 0 else 1)).
        { subst chunks'. pose proof (blen_dropN n ch) as X. destruct (dropN n ch) eqn:ED.
          - lia.
          - unfold blen in X at 1. cbn [length] in X |- *. destruct (blen ch - n =? 0) eqn:EZ; lia. }
        subst n.
        destruct (cap c - (blen (m_buf m) + N.min (cap c - blen (m_buf m)) (blen ch)) =? 0) eqn:E1;
          destruct (blen ch - N.min (cap c - blen (m_buf m)) (blen ch) =? 0) eqn:E2; lia. }
      destruct R2 as (P' & E' & A' & R). split; [exact P'|]. split; [exact E'|]. split; [exact A'|].
      destruct R as [(-> & CF' & fs' & ae' & m' & C1 & C2 & C3 & C4 & C5 & C6 & C7)|(X1 & X2 & X3 & X4 & X5)].
      * left. split; [reflexivity|]. split; [exact CF'|]. exists fs', ae', m'.
        rewrite HCC, <- app_assoc, (app_assoc (takeN n ch)), takeN_app_dropN in C7. cbn [concat]. auto 10.
      * right. auto 10.
Qed.

Lemma wr_post_refusedZ c s m t cf acc p e s' :
  Pz s -> werr s = None -> mwz c m -> m_ftype m = t -> is_control_ty t = true ->
  (w_server c = false -> p = []) ->
  flush_frame c false p m s = (e, s') -> wr_postZ c s m t cf acc None p e s'.
Proof.
  intros HP HE (M1 & M3) B ET Hex EF.
  destruct (flush_liveZ c false p m s e s' HP HE M1 Hex EF) as (P' & A' & R).
  rewrite B, ET in R. cbn [negb orb andb] in R. destruct R as (-> & R2 & R3 & R4).
  split; [exact P'|]. split; [exact R3|]. split; [exact A'|]. right. auto 10.
Qed.

Lemma mw_write_liveZ c p s m t cf acc ae e s' : capok c -> 0 < cap c -> small p ->
  Pz s -> werr s = None -> cur s = Some m -> mwz c m -> vty t -> ZOpen t cf acc ae m ->
  mw_write c p s = (e, s') -> wr_postZ c s m t cf acc ae p e s'.
Proof.
  intros HCap HPos HS HP HE HC HM V HO H. unfold mw_write in H. rewrite HC in H.
  destruct ((2 * w_bufsize c <? blen p) && w_server c) eqn:ED.
  - apply andb_true_iff in ED. destruct ED as [_ ES].
    assert (Hex : w_server c = false -> p = []) by (rewrite ES; discriminate).
    destruct (is_control_ty t) eqn:ET.
    + destruct HO as [(-> & B & -> & D)|(A & _)]; [|congruence].
      apply (wr_post_refusedZ c s m t cf (m_buf m) p e s' HP HE HM B ET Hex H).
    + destruct (flush_openZ c p m s e s' t cf acc ae HCap HP HE HM V ET HO Hex HS H)
        as (-> & P1 & E1 & A1 & CF1 & f & m1 & Fwf & FW & FEv & FC & FId & FM & FB & FT & FCm).
      split; [exact P1|]. split; [exact E1|]. split; [exact A1|]. left. split; [reflexivity|]. split; [exact CF1|].
      exists [f], (Some (t, cf, acc ++ p)), m1.
      split; [exact FC|]. split; [exact FId|]. split; [exact FM|].
      split. { rewrite FW. cbn [encode_frames flat_map]. rewrite app_nil_r. reflexivity. }
      split; [constructor; [exact Fwf|constructor]|]. split; [exact FEv|].
      right. split; [exact ET|]. split; [exact FT|]. split; [exact FCm|]. exists (acc ++ p). rewrite FB, app_nil_r. auto.
  - apply (copy_loop_liveZ c HCap HPos (loop_fuel c p) p s m t cf acc ae e s' HP HE HC HM V HO); [|exact H].
    unfold loop_fuel, blen. destruct (cap c - N.of_nat (length (m_buf m)) =? 0); lia.
Qed.

Lemma mw_write_string_liveZ c p s m t cf acc ae e s' : capok c -> 0 < cap c ->
  Pz s -> werr s = None -> cur s = Some m -> mwz c m -> vty t -> ZOpen t cf acc ae m ->
  mw_write_string c p s = (e, s') -> wr_postZ c s m t cf acc ae p e s'.
Proof.
  intros HCap HPos HP HE HC HM V HO H. unfold mw_write_string in H. rewrite HC in H.
  apply (copy_loop_liveZ c HCap HPos (loop_fuel c p) p s m t cf acc ae e s' HP HE HC HM V HO); [|exact H].
  unfold loop_fuel, blen. destruct (cap c - N.of_nat (length (m_buf m)) =? 0); lia.
Qed.

(* ------------------------------------------------------------------------------------------ *)
(* a data-type writer never fails on a live connection; truncWriter and the flate wrapper      *)
(* ------------------------------------------------------------------------------------------ *)
Definition zadvx (c:wcfg) (t:N) (cf:bool) (s:wst) (m:mwr) (ae:eacc) (s':wst) (acc':bytes)
                 (fs':list frame) (ae':eacc) (m':mwr) : Prop :=
  Pz s' /\ werr s' = None /\ aux s' = aux s /\ cur_flate s' = cur_flate s /\
  cur s' = Some m' /\ m_id m' = m_id m /\ mwz c m' /\
  wire s' = wire s ++ encode_frames fs' /\ Forall wf_frame fs' /\
  events_from ae fs' = ([], ae') /\ ZOpen t cf acc' ae' m'.

Definition zadv (c:wcfg) (t:N) (cf:bool) (s:wst) (m:mwr) (ae:eacc) (s':wst) (acc':bytes) : Prop :=
  exists fs' ae' m', zadvx c t cf s m ae s' acc' fs' ae' m'.

Lemma wr_postZ_data c s m t cf acc ae p e s' : is_control_ty t = false ->
  wr_postZ c s m t cf acc ae p e s' -> e = None /\ zadv c t cf s m ae s' (acc ++ p).
Proof.
  intros HD (P' & E' & A' & [(-> & CF' & fs' & ae' & m' & R)|(X & _)]); [|congruence].
  split; [reflexivity|]. exists fs', ae', m'. unfold zadvx. tauto.
Qed.

Lemma zadv_refl c t cf s m ae acc : Pz s -> werr s = None -> cur s = Some m -> mwz c m -> ZOpen t cf acc ae m ->
  zadv c t cf s m ae s acc.
Proof.
  intros HP HE HC HM HO. exists [], ae, m. unfold zadvx. cbn [encode_frames flat_map]. rewrite app_nil_r. auto 12.
Qed.

Lemma zadvx_trans c t cf s m ae s1 acc1 fs1 ae1 m1 s2 acc2 fs2 ae2 m2 :
  zadvx c t cf s m ae s1 acc1 fs1 ae1 m1 -> zadvx c t cf s1 m1 ae1 s2 acc2 fs2 ae2 m2 ->
  zadvx c t cf s m ae s2 acc2 (fs1 ++ fs2) ae2 m2.
Proof.
  intros (P1 & E1 & A1 & CF1 & C1 & I1 & M1 & W1 & F1 & Ev1 & O1)
         (P2 & E2 & A2 & CF2 & C2 & I2 & M2 & W2 & F2 & Ev2 & O2).
  split; [exact P2|]. split; [exact E2|]. split; [congruence|]. split; [congruence|].
  split; [exact C2|]. split; [congruence|]. split; [exact M2|].
  split; [rewrite W2, W1, encode_frames_app, app_assoc; reflexivity|].
  split; [apply Forall_app; auto|]. split; [|exact O2].
  apply (events_from_seq ae fs1 fs2 [] ae1 [] ae2 Ev1 Ev2).
Qed.

(* messageWriter.Write after some progress *)
Lemma zadv_mw_write c p t cf s m ae s1 acc1 : capok c -> 0 < cap c -> small p ->
  is_control_ty t = false -> vty t -> zadv c t cf s m ae s1 acc1 ->
  exists s2, mw_write c p s1 = (None, s2) /\ zadv c t cf s m ae s2 (acc1 ++ p).
Proof.
  intros HCap HPos HS HD V (fs1 & ae1 & m1 & Q1).
  pose proof Q1 as (P1 & E1 & A1 & CF1 & C1 & I1 & M1 & W1 & F1 & Ev1 & O1).
  destruct (mw_write c p s1) as [e s2] eqn:E.
  pose proof (mw_write_liveZ c p s1 m1 t cf acc1 ae1 e s2 HCap HPos HS P1 E1 C1 M1 V O1 E) as R.
  destruct (wr_postZ_data c s1 m1 t cf acc1 ae1 p e s2 HD R) as [-> (fs2 & ae2 & m2 & Q2)].
  exists s2. split; [reflexivity|]. exists (fs1 ++ fs2), ae2, m2.
  apply (zadvx_trans c t cf s m ae s1 acc1 fs1 ae1 m1 s2 _ fs2 ae2 m2 Q1 Q2).
Qed.

(* truncWriter.Write: forwards [fw], keeps the last (at most four) bytes back *)
Lemma trunc_write_liveZ c p f t cf s m ae s1 acc1 : capok c -> 0 < cap c -> small p ->
  is_control_ty t = false -> vty t -> zadv c t cf s m ae s1 acc1 -> blen (f_tw f) <= 4 ->
  exists tw' fw s2, trunc_write c p f s1 = (None, f <| f_tw := tw' |>, s2) /\
    zadv c t cf s m ae s2 (acc1 ++ fw) /\
    f_tw f ++ p = fw ++ tw' /\ blen tw' <= 4 /\ (blen tw' = 4 \/ fw = []).
Proof.
  intros HCap HPos HS HD V Q0 HB. unfold trunc_write. cbv zeta.
  set (n0 := N.min (4 - blen (f_tw f)) (blen p)).
  set (tw := f_tw f ++ takeN n0 p).
  remember (dropN n0 p) as p1 eqn:EP1.
  assert (Hp : p = takeN n0 p ++ p1) by (subst p1; symmetry; apply takeN_app_dropN).
  assert (Lp1 : blen p1 = blen p - n0) by (subst p1; apply blen_dropN).
  assert (Ltw : blen tw = blen (f_tw f) + n0).
  { subst tw. rewrite blen_app, blen_takeN. subst n0. lia. }
  destruct p1 as [|x p1'].
  { exists tw, [], s1. split; [reflexivity|]. rewrite !app_nil_r. split; [exact Q0|].
    split; [rewrite Hp at 1; rewrite app_nil_r; reflexivity|]. change (blen []) with 0 in Lp1. split; [lia|auto]. }
  set (pp := x :: p1') in *.
  assert (Hpp : 0 < blen pp) by (unfold pp, blen; cbn [length]; lia).
  clearbody pp.
  set (k := N.min (blen pp) 4).
  assert (S1 : small (takeN k tw)) by (unfold small; rewrite blen_takeN; subst k; lia).
  destruct (zadv_mw_write c (takeN k tw) t cf s m ae s1 acc1 HCap HPos S1 HD V Q0) as (s2 & E1 & Q1).
  rewrite E1.
  set (keep := blen pp - k).
  assert (S2 : small (takeN keep pp)).
  { unfold small in *. rewrite blen_takeN. lia. }
  destruct (zadv_mw_write c (takeN keep pp) t cf s m ae s2 _ HCap HPos S2 HD V Q1) as (s3 & E2 & Q2).
  rewrite E2.
  exists (dropN k tw ++ dropN keep pp), (takeN k tw ++ takeN keep pp), s3.
  split; [reflexivity|]. split; [rewrite app_assoc; exact Q2|].
  assert (Ltw4 : blen tw = 4) by lia.
  assert (Lnew : blen (dropN k tw ++ dropN keep pp) = 4).
  { rewrite blen_app, !blen_dropN. subst keep k. lia. }
  split; [|split; [lia|left; exact Lnew]].
  rewrite Hp at 1. rewrite app_assoc. fold tw.
  destruct (N.eq_dec k 4) as [M4|M4].
  - assert (Dd : dropN k tw = []) by (apply dropN_all; lia).
    rewrite Dd. cbn [List.app].
    assert (T : takeN k tw = tw).
    { rewrite <- (takeN_app_dropN k tw) at 2. rewrite Dd, app_nil_r. reflexivity. }
    rewrite T, <- app_assoc, takeN_app_dropN. reflexivity.
  - assert (K : keep = 0) by (subst keep k; lia). rewrite K, takeN_zero, app_nil_r.
    change (dropN 0 pp) with pp. rewrite app_assoc, takeN_app_dropN. reflexivity.
Qed.

Lemma flate_emit_liveZ c t cf s m ae : capok c -> 0 < cap c -> is_control_ty t = false -> vty t ->
  forall chunks f s1 acc1, Forall small chunks -> zadv c t cf s m ae s1 acc1 -> blen (f_tw f) <= 4 -> f_err f = None ->
  exists tw' fw s2, flate_emit c chunks f s1 = (f <| f_tw := tw' |>, s2) /\
    zadv c t cf s m ae s2 (acc1 ++ fw) /\
    f_tw f ++ concat chunks = fw ++ tw' /\ blen tw' <= 4 /\ (blen tw' = 4 \/ fw = []).
Proof.
  intros HCap HPos HD V. induction chunks as [|ch rest IH]; intros f s1 acc1 HS Q0 HB HE.
  - exists (f_tw f), [], s1. cbn [flate_emit concat]. rewrite !app_nil_r.
    split; [destruct f; reflexivity|]. split; [exact Q0|]. auto.
  - inversion HS as [|? ? HS1 HS2]; subst. cbn [flate_emit]. rewrite HE.
    destruct (trunc_write_liveZ c ch f t cf s m ae s1 acc1 HCap HPos HS1 HD V Q0 HB) as (tw1 & fw1 & s2 & E1 & Q1 & R1 & B1 & C1).
    rewrite E1.
    assert (B1' : blen (f_tw (f <| f_tw := tw1 |>)) <= 4) by exact B1.
    assert (HE' : f_err (f <| f_tw := tw1 |>) = None) by exact HE.
    destruct (IH (f <| f_tw := tw1 |>) s2 (acc1 ++ fw1) HS2 Q1 B1' HE') as (tw2 & fw2 & s3 & E2 & Q2 & R2 & B2 & C2).
    rewrite E2. exists tw2, (fw1 ++ fw2), s3.
    split; [destruct f; reflexivity|]. split; [rewrite app_assoc; exact Q2|].
    change (f_tw (f <| f_tw := tw1 |>)) with tw1 in R2. split.
    { cbn [concat]. rewrite app_assoc, R1, <- app_assoc. rewrite R2, app_assoc. reflexivity. }
    split; [exact B2|].
    destruct C2 as [C2|C2]; [left; exact C2|]. subst fw2. rewrite app_nil_r.
    cbn [List.app] in R2.
    destruct C1 as [C1|C1]; [|right; exact C1].
    left. assert (X : blen tw2 = blen tw1 + blen (concat rest)) by (rewrite <- R2; apply blen_app). lia.
Qed.

(* ------------------------------------------------------------------------------------------ *)
(* the oracle-annotated abstract writer                                                       *)
(* ------------------------------------------------------------------------------------------ *)
(* [astep] with one ghost field: next to the plaintext accepted so far, the open message carries
   the oracle stream emitted for it so far (the [wc] chunks of its successful Writes); every
   output message is paired with the complete oracle stream of that message (completed by the
   [cc] chunks of its Close, or the [ic] chunks of the implicit close).  The stream component is
   meaningful for messages sent compressed only. *)
Record zst := { z_open : option (N * bool * bytes * bytes); z_comp : bool;
                z_out : list (sent * bytes); z_dead : bool }.

Definition zdead (s:zst) : zst := {| z_open := z_open s; z_comp := z_comp s; z_out := z_out s; z_dead := true |}.

Definition zstep (ng:bool) (s:zst) (o:wop) (res:N) : zst :=
  let ok := res =? 0 in
  let s := if (res =? 6) || (res =? 7) then zdead s else s in
  let closes (ty:N) (s:zst) : zst := if ok && (ty =? 8) then zdead s else s in
  let flush (ic:list bytes) (s:zst) : zst :=
    match z_open s with
    | Some (t, c, d, str) =>
        if z_dead s then {| z_open := None; z_comp := z_comp s; z_out := z_out s; z_dead := true |}
        else if (8 <=? t) && (125 <? blen d) then {| z_open := None; z_comp := z_comp s; z_out := z_out s; z_dead := z_dead s |}
        else {| z_open := None; z_comp := z_comp s;
                z_out := z_out s ++ [(mk_sent t c d, str ++ concat ic)];
                z_dead := (t =? 8) |}
    | None => s
    end in
  let wr (d:bytes) (wc:list bytes) (s:zst) : zst :=
    match z_open s with
    | Some (t, c, acc, str) =>
        if ok then {| z_open := Some (t, c, acc ++ d, str ++ concat wc); z_comp := z_comp s; z_out := z_out s; z_dead := z_dead s |}
        else {| z_open := None; z_comp := z_comp s; z_out := z_out s; z_dead := z_dead s |}
    | None => s
    end in
  match o with
  | WMessage ty d ic wc cc =>
      let s := flush ic s in
      if ok then closes ty {| z_open := None; z_comp := z_comp s;
                    z_out := z_out s ++ [(mk_sent ty (ng && z_comp s && is_data ty) d, concat wc ++ concat cc)];
                    z_dead := z_dead s |}
      else s
  | WNext ty ic =>
      let s := flush ic s in
      if ok then {| z_open := Some (ty, ng && z_comp s && is_data ty, [], []); z_comp := z_comp s; z_out := z_out s; z_dead := z_dead s |} else s
  | WWrite d wc | WWriteString d wc => wr d wc s
  | WReadFrom ch => wr (concat ch) [] s
  | WClose cc =>
      match z_open s with
      | Some (t, c, acc, str) =>
          if ok then closes t {| z_open := None; z_comp := z_comp s;
                         z_out := z_out s ++ [(mk_sent t c acc, str ++ concat cc)]; z_dead := z_dead s |}
          else {| z_open := None; z_comp := z_comp s; z_out := z_out s; z_dead := z_dead s |}
      | None => s
      end
  | WControl ty d _ =>
      if ok then closes ty {| z_open := z_open s; z_comp := z_comp s;
                    z_out := z_out s ++ [(mk_sent ty false d, [])]; z_dead := z_dead s |}
      else s
  | WEnableCompression b => {| z_open := z_open s; z_comp := b; z_out := z_out s; z_dead := z_dead s |}
  | _ => s
  end.

Fixpoint zrun (ng:bool) (s:zst) (ops:list (wop * N)) : zst :=
  match ops with [] => s | (o, res) :: r => zrun ng (zstep ng s o res) r end.

Definition zst0 : zst := {| z_open := None; z_comp := true; z_out := []; z_dead := false |}.

(* erasing the ghost field *)
Definition zerase (z:zst) : ast :=
  {| a_open := match z_open z with Some (t, c, d, _) => Some (t, c, d) | None => None end;
     a_comp := z_comp z; a_out := map fst (z_out z); a_dead := z_dead z |}.

Lemma zstep_erase ng z o r : zerase (zstep ng z o r) = astep ng (zerase z) (wop_aop o) r.
Proof.
  destruct z as [[[[[t c] d] str]|] zc out dd]; unfold zstep, astep, zerase, zdead, mk_sent;
    destruct ((r =? 6) || (r =? 7)); destruct (r =? 0); destruct o; destruct dd;
    cbn [z_open z_comp z_out z_dead a_open a_comp a_out a_dead wop_aop andb map fst];
    repeat match goal with |- context [if ?b then _ else _] => destruct b end;
    cbn [z_open z_comp z_out z_dead a_open a_comp a_out a_dead wop_aop andb map fst];
    rewrite ?map_app; reflexivity.
Qed.

Lemma zrun_erase ng l : forall z,
  zerase (zrun ng z l) = arun ng (zerase z) (map (fun x : wop * N => (wop_aop (fst x), snd x)) l).
Proof.
  induction l as [|[o r] l IH]; intros z; cbn [zrun arun map fst snd]; [reflexivity|].
  rewrite IH, zstep_erase. reflexivity.
Qed.

(* the annotated writer, by projections (results that are not transport errors) *)
Definition zflush_out (z:zst) (ic:list bytes) : list (sent * bytes) :=
  match z_open z with
  | Some (t, c, d, str) => if adrop t d then [] else [(mk_sent t c d, str ++ concat ic)]
  | None => []
  end.
Definition zflush_closes (z:zst) : bool :=
  match z_open z with Some (t, _, d, _) => negb (adrop t d) && (t =? 8) | None => false end.
Definition zopen_out (z:zst) (cc:list bytes) : list (sent * bytes) :=
  match z_open z with
  | Some (t, c, d, str) => [(mk_sent t c d, str ++ concat cc)]
  | None => []
  end.

Lemma zstep_msg ng z ty d ic wc cc r : z_dead z = false -> ntrN r ->
  let z' := zstep ng z (WMessage ty d ic wc cc) r in
  z_open z' = None /\ z_comp z' = z_comp z /\
  z_out z' = (z_out z ++ zflush_out z ic) ++
             (if r =? 0 then [(mk_sent ty (ng && z_comp z && is_data ty) d, concat wc ++ concat cc)] else []) /\
  z_dead z' = zflush_closes z || ((r =? 0) && (ty =? 8)).
Proof.
  destruct z as [zo zc out dd]. unfold ntrN, zflush_out, zflush_closes, adrop. cbn [z_open z_comp z_out z_dead].
  intros -> HR. unfold zstep, zdead. rewrite HR. cbn [z_open z_comp z_out z_dead andb].
  destruct zo as [[[[t cf] d0] str]|]; cbn [z_open z_comp z_out z_dead andb].
  - destruct ((8 <=? t) && (125 <? blen d0)); cbn [negb z_open z_comp z_out z_dead andb orb];
      destruct (r =? 0); cbn [andb orb]; destruct (t =? 8); cbn [andb orb]; try destruct (ty =? 8);
      cbn [z_open z_comp z_out z_dead andb orb]; rewrite ?app_nil_r; auto.
  - destruct (r =? 0); cbn [andb orb]; [destruct (ty =? 8)|]; cbn [z_open z_comp z_out z_dead];
      rewrite ?app_nil_r; auto.
Qed.

Lemma zstep_next ng z ty ic r : z_dead z = false -> ntrN r ->
  let z' := zstep ng z (WNext ty ic) r in
  z_open z' = (if r =? 0 then Some (ty, ng && z_comp z && is_data ty, [], []) else None) /\
  z_comp z' = z_comp z /\
  z_out z' = z_out z ++ zflush_out z ic /\
  z_dead z' = zflush_closes z.
Proof.
  destruct z as [zo zc out dd]. unfold ntrN, zflush_out, zflush_closes, adrop. cbn [z_open z_comp z_out z_dead].
  intros -> HR. unfold zstep, zdead. rewrite HR. cbn [z_open z_comp z_out z_dead andb].
  destruct zo as [[[[t cf] d0] str]|]; cbn [z_open z_comp z_out z_dead andb].
  - destruct ((8 <=? t) && (125 <? blen d0)); cbn [negb z_open z_comp z_out z_dead andb];
      destruct (r =? 0); cbn [z_open z_comp z_out z_dead]; rewrite ?app_nil_r; auto.
  - destruct (r =? 0); cbn [z_open z_comp z_out z_dead]; rewrite ?app_nil_r; auto.
Qed.

Definition is_write_op (o:wop) (d:bytes) (wc:list bytes) : Prop :=
  match o with
  | WWrite d' wc' | WWriteString d' wc' => d' = d /\ wc' = wc
  | WReadFrom ch => d = concat ch /\ wc = []
  | _ => False
  end.

Lemma zstep_write ng z o d wc r : is_write_op o d wc -> ntrN r ->
  let z' := zstep ng z o r in
  z_out z' = z_out z /\ z_dead z' = z_dead z /\ z_comp z' = z_comp z /\
  z_open z' = match z_open z with
              | Some (t, c, acc, str) => if r =? 0 then Some (t, c, acc ++ d, str ++ concat wc) else None
              | None => None
              end.
Proof.
  destruct z as [zo zc out dd]. unfold ntrN. intros HO HR. unfold zstep, zdead. rewrite HR.
  destruct o; cbn [is_write_op] in HO; try contradiction; destruct HO as [-> ->];
  cbn [z_open z_comp z_out z_dead]; destruct zo as [[[[t cf] d0] str]|]; [destruct (r =? 0)| |destruct (r =? 0)| |destruct (r =? 0)|];
    cbn [z_open z_comp z_out z_dead]; auto.
Qed.

Lemma zstep_close ng z cc r : ntrN r ->
  let z' := zstep ng z (WClose cc) r in
  z_open z' = None /\ z_comp z' = z_comp z /\
  z_out z' = z_out z ++ (if r =? 0 then zopen_out z cc else []) /\
  z_dead z' = z_dead z || ((r =? 0) && match z_open z with Some (t, _, _, _) => t =? 8 | None => false end).
Proof.
  destruct z as [zo zc out dd]. unfold ntrN, zopen_out. intros HR. unfold zstep, zdead. rewrite HR.
  cbn [z_open z_comp z_out z_dead]. destruct zo as [[[[t cf] d0] str]|]; cbn [z_open z_comp z_out z_dead].
  - destruct (r =? 0); cbn [andb z_open z_comp z_out z_dead]; [destruct (t =? 8)|];
      cbn [z_open z_comp z_out z_dead]; rewrite ?app_nil_r, ?orb_true_r, ?orb_false_r; auto.
  - destruct (r =? 0); cbn [andb]; rewrite ?app_nil_r, ?orb_false_r; auto.
Qed.

Lemma zstep_control ng z ty d dl r : ntrN r ->
  let z' := zstep ng z (WControl ty d dl) r in
  z_open z' = z_open z /\ z_comp z' = z_comp z /\
  z_out z' = z_out z ++ (if r =? 0 then [(mk_sent ty false d, [])] else []) /\
  z_dead z' = z_dead z || ((r =? 0) && (ty =? 8)).
Proof.
  destruct z as [zo zc out dd]. unfold ntrN. intros HR. unfold zstep, zdead. rewrite HR.
  cbn [z_open z_comp z_out z_dead].
  destruct (r =? 0); cbn [andb z_open z_comp z_out z_dead]; [destruct (ty =? 8)|];
    cbn [z_open z_comp z_out z_dead]; rewrite ?app_nil_r, ?orb_true_r, ?orb_false_r; auto.
Qed.

Lemma zstep_quiet ng z o r : ntrN r ->
  match o with WSetDeadline _ | WEnableCompression _ | WSetLevel _ => True | _ => False end ->
  let z' := zstep ng z o r in
  z_open z' = z_open z /\ z_out z' = z_out z /\ z_dead z' = z_dead z /\
  z_comp z' = match o with WEnableCompression b => b | _ => z_comp z end.
Proof.
  destruct z as [zo zc out dd]. unfold ntrN. intros HR HO. unfold zstep, zdead. rewrite HR.
  destruct o; try contradiction; cbn [z_open z_comp z_out z_dead]; auto.
Qed.

Lemma zstep_deadmode ng z o r : z_dead z = true ->
  match o with WMessage _ _ _ _ _ | WNext _ _ | WClose _ | WControl _ _ _ => (r =? 0) = false | _ => True end ->
  let z' := zstep ng z o r in z_dead z' = true /\ z_out z' = z_out z.
Proof.
  destruct z as [zo zc out dd]. cbn [z_dead]. intros -> HO. unfold zstep, zdead.
  destruct ((r =? 6) || (r =? 7)); cbn [z_open z_comp z_out z_dead];
    destruct o; try rewrite HO; cbn [andb z_open z_comp z_out z_dead];
    destruct zo as [[[[t cf] d0] str]|]; cbn [andb z_open z_comp z_out z_dead]; auto;
    destruct (r =? 0); cbn [andb z_open z_comp z_out z_dead]; auto.
Qed.

(* ------------------------------------------------------------------------------------------ *)
(* flateWriteWrapper.Close / Write on a live connection                                       *)
(* ------------------------------------------------------------------------------------------ *)
Definition auxz (s:wst) := (Writer.app s, app_flate s, wcomp s).
Lemma aux_auxz s s' : aux s' = aux s -> auxz s' = auxz s.
Proof. unfold aux, auxz. intros H. congruence. Qed.

Definition fl_closed (s:wst) : Prop := forall f, fl s = Some f -> f_open f = false.

Lemma Pz_same s s' : Pz s -> fail_at s' = fail_at s -> keys s' = keys s -> ended s' = ended s -> Pz s'.
Proof. intros [A B C] H1 H2 H3. constructor; congruence. Qed.

Lemma flate_close_liveZ c cc f s m t zacc ae e s' :
  capok c -> 0 < cap c -> Forall small cc -> tail_ok cc ->
  is_control_ty t = false -> vty t ->
  Pz s -> werr s = None -> cur s = Some m -> mwz c m -> ZOpen t true zacc ae m ->
  f_id f = m_id m -> f_open f = true -> f_err f = None -> blen (f_tw f) <= 4 ->
  flate_close c cc f s = (e, s') ->
  e = None /\ Pz s' /\ werr s' = None /\ auxz s' = auxz s /\ cur s' = None /\ fl_closed s' /\
  exists z fr ev, z ++ flate_tail = (zacc ++ f_tw f) ++ concat cc /\
    Forall wf_frame fr /\ wire s' = wire s ++ encode_frames fr /\
    events_from ae fr = ([ev], None) /\ sent_of_event ev = mk_sent t true z.
Proof.
  intros HCap HPos HS (pre & HT) HD V HP HE HC HM HO FI FO FE FB H.
  unfold flate_close in H. rewrite FO in H. cbn [negb] in H.
  destruct (flate_emit_liveZ c t true s m ae HCap HPos HD V cc f s zacc HS (zadv_refl c t true s m ae zacc HP HE HC HM HO) FB FE)
    as (tw' & fw & s2 & E & Q & R & B & C).
  rewrite E in H. cbv zeta in H.
  assert (T : tw' = flate_tail).
  { apply (tw_rel_tail (f_tw f) pre tw'); [|exact B]. exists fw. rewrite <- HT. auto. }
  set (f2 := f <| f_tw := tw' |> <| f_open := false |>) in *.
  set (s3 := s2 <| fl := Some f2 |>) in *.
  change (f_tw f2) with tw' in H. change (f_id f2) with (f_id f) in H.
  change (f_err (f <| f_tw := tw' |>)) with (f_err f) in H. rewrite FE in H.
  rewrite T in H. unfold flate_tail in H. rewrite beq_refl in H. cbn [negb] in H.
  destruct Q as (fs2 & ae2 & m2 & P2 & E2 & A2 & CF2 & C2 & I2 & M2 & W2 & F2 & Ev2 & O2).
  assert (C3 : cur s3 = Some m2) by exact C2.
  unfold is_cur in H. rewrite C3, I2, FI, Nat.eqb_refl in H.
  unfold mw_close in H. rewrite C3 in H.
  destruct (flush_frame c true [] m2 s3) as [e3 s4] eqn:EF.
  inversion H; subst e s'. clear H.
  assert (P3 : Pz s3) by (apply (Pz_same s2 s3 P2); reflexivity).
  assert (Hs0 : small []) by (unfold small; cbn; lia).
  destruct (flush_final_openZ c [] m2 s3 e3 s4 t true (zacc ++ fw) ae2 HCap P3 E2 M2 V (fun _ => HD) O2
              (fun _ => eq_refl) Hs0 EF) as (P4 & A4 & C4 & R4).
  rewrite HD in R4. cbn [andb] in R4. rewrite app_nil_r in R4.
  destruct R4 as (-> & E4 & f4 & ev & Fwf & FW & FEv & FS).
  split; [reflexivity|]. split; [exact P4|].
  split. { rewrite E4. destruct (vty_data t V HD) as [-> | ->]; reflexivity. }
  split. { rewrite (aux_auxz _ _ A4). change (auxz s3) with (auxz s2). apply aux_auxz. exact A2. }
  split; [exact C4|].
  split. { intros f0 Hf0. rewrite (aux_fl _ _ A4) in Hf0. change (fl s3) with (Some f2) in Hf0. inversion Hf0. reflexivity. }
  exists (zacc ++ fw), (fs2 ++ [f4]), ev.
  split. { rewrite <- !app_assoc. f_equal. rewrite R, T. reflexivity. }
  split; [apply Forall_app; split; [exact F2|constructor; [exact Fwf|constructor]]|].
  split. { rewrite FW. change (wire s3) with (wire s2). rewrite W2, encode_frames_app, <- app_assoc.
           cbn [encode_frames flat_map]. rewrite app_nil_r. reflexivity. }
  split; [|exact FS].
  apply (events_from_seq ae fs2 [f4] [] ae2 [ev] None Ev2 FEv).
Qed.

Lemma flate_write_liveZ c wc f s m t zacc ae :
  capok c -> 0 < cap c -> Forall small wc -> is_control_ty t = false -> vty t ->
  Pz s -> werr s = None -> cur s = Some m -> mwz c m -> ZOpen t true zacc ae m ->
  f_open f = true -> f_err f = None -> blen (f_tw f) <= 4 -> (blen (f_tw f) = 4 \/ zacc = []) ->
  exists s' tw' fw fs' ae' m',
    flate_write c wc f s = (None, s') /\ Pz s' /\ werr s' = None /\ auxz s' = auxz s /\
    cur_flate s' = cur_flate s /\ fl s' = Some (f <| f_tw := tw' |>) /\
    cur s' = Some m' /\ m_id m' = m_id m /\ mwz c m' /\
    wire s' = wire s ++ encode_frames fs' /\ Forall wf_frame fs' /\ events_from ae fs' = ([], ae') /\
    ZOpen t true (zacc ++ fw) ae' m' /\
    (zacc ++ f_tw f) ++ concat wc = (zacc ++ fw) ++ tw' /\ blen tw' <= 4 /\
    (blen tw' = 4 \/ zacc ++ fw = []).
Proof.
  intros HCap HPos HS HD V HP HE HC HM HO FO FE FB FC.
  unfold flate_write. rewrite FO. cbn [negb].
  destruct (flate_emit_liveZ c t true s m ae HCap HPos HD V wc f s zacc HS (zadv_refl c t true s m ae zacc HP HE HC HM HO) FB FE)
    as (tw' & fw & s2 & E & Q & R & B & C).
  rewrite E. change (f_err (f <| f_tw := tw' |>)) with (f_err f). rewrite FE.
  destruct Q as (fs2 & ae2 & m2 & P2 & E2 & A2 & CF2 & C2 & I2 & M2 & W2 & F2 & Ev2 & O2).
  exists (s2 <| fl := Some (f <| f_tw := tw' |>) |>), tw', fw, fs2, ae2, m2.
  split; [reflexivity|]. split; [apply (Pz_same s2 _ P2); reflexivity|]. split; [exact E2|].
  split; [change (auxz s2 = auxz s); apply aux_auxz; exact A2|]. split; [exact CF2|]. split; [reflexivity|].
  split; [exact C2|]. split; [exact I2|]. split; [exact M2|]. split; [exact W2|]. split; [exact F2|].
  split; [exact Ev2|]. split; [exact O2|].
  split; [rewrite <- !app_assoc; f_equal; exact R|]. split; [exact B|].
  destruct C as [C|C]; [left; exact C|]. subst fw. rewrite app_nil_r in *. cbn [List.app] in R.
  destruct FC as [FC|FC]; [|right; exact FC]. left.
  assert (X : blen tw' = blen (f_tw f) + blen (concat wc)) by (rewrite <- R; apply blen_app). lia.
Qed.

(* ------------------------------------------------------------------------------------------ *)
(* the ghost invariant: model state / frames on the wire / annotated abstract writer          *)
(* ------------------------------------------------------------------------------------------ *)
(* what a compressed message carries on the wire: its oracle stream without the last 4 bytes *)
Definition cut4 (l:bytes) : bytes := firstn (length l - 4) l.

Lemma cut4_tail z : cut4 (z ++ flate_tail) = z.
Proof.
  unfold cut4. rewrite app_length. cbn [flate_tail length].
  replace (length z + 4 - 4)%nat with (length z + 0)%nat by lia.
  rewrite firstn_app_2. cbn [firstn]. apply app_nil_r.
Qed.

Definition zwire (x:sent * bytes) : sent :=
  if s_comp (fst x) then mk_sent (s_ty (fst x)) true (cut4 (snd x)) else fst x.
Definition zstr_ok (x:sent * bytes) : Prop := s_comp (fst x) = true -> exists z, snd x = z ++ flate_tail.

Definition LiveZ (c:wcfg) (s:wst) (ae:eacc) (z:zst) : Prop :=
  match cur s with
  | Some m => mwz c m /\ Writer.app s = Some (m_id m) /\ app_flate s = cur_flate s /\
      exists t cf acc str, z_open z = Some (t, cf, acc, str) /\ vty t /\ cur_flate s = cf /\
        if cf then w_negotiated c = true /\ is_control_ty t = false /\
                   exists f zacc, fl s = Some f /\ f_id f = m_id m /\ f_open f = true /\ f_err f = None /\
                      blen (f_tw f) <= 4 /\ str = zacc ++ f_tw f /\ (blen (f_tw f) = 4 \/ zacc = []) /\
                      ZOpen t true zacc ae m
        else fl_closed s /\ ZOpen t false acc ae m
  | None => ae = None /\ z_open z = None /\ fl_closed s
  end.

Definition ModeZ (c:wcfg) (s:wst) (ae:eacc) (z:zst) : Prop :=
  match werr s with
  | Some _ => z_dead z = true
  | None => z_dead z = false /\ Pz s /\ z_comp z = wcomp s /\ LiveZ c s ae z
  end.

Record GZ (c:wcfg) (s:wst) (fs:list frame) (z:zst) : Prop := {
  gz_wire : wire s = encode_frames fs;
  gz_wf : Forall wf_frame fs;
  gz_out : sents_of fs = map zwire (z_out z);
  gz_str : Forall zstr_ok (z_out z);
  gz_mode : ModeZ c s (acc_of fs) z
}.

Lemma GZ_ext c s fs z s' z' fr evs ae' new :
  GZ c s fs z -> wire s' = wire s ++ encode_frames fr -> Forall wf_frame fr ->
  events_from (acc_of fs) fr = (evs, ae') ->
  z_out z' = z_out z ++ new -> map sent_of_event evs = map zwire new -> Forall zstr_ok new ->
  ModeZ c s' ae' z' ->
  GZ c s' (fs ++ fr) z'.
Proof.
  intros [G1 G2 G3 G4 G5] HW Hwf HEv HO HN HS HM. destruct (out_of_app fs fr evs ae' HEv) as [O1 O2].
  constructor.
  - rewrite HW, G1, encode_frames_app. reflexivity.
  - apply Forall_app. auto.
  - rewrite O1, G3, HO, map_app, HN. reflexivity.
  - rewrite HO. apply Forall_app. auto.
  - rewrite O2. exact HM.
Qed.

Lemma GZ_same c s fs z s' z' :
  GZ c s fs z -> wire s' = wire s -> z_out z' = z_out z -> ModeZ c s' (acc_of fs) z' -> GZ c s' fs z'.
Proof.
  intros [G1 G2 G3 G4 G5] HW HO HM. constructor; try assumption; congruence.
Qed.

Lemma ModeZ_live c s ae z : werr s = None -> ModeZ c s ae z ->
  z_dead z = false /\ Pz s /\ z_comp z = wcomp s /\ LiveZ c s ae z.
Proof. unfold ModeZ. intros ->. auto. Qed.

Lemma ModeZ_intro_close c s ae z (b:bool) :
  werr s = (if b then Some WCloseSent else None) -> z_dead z = b -> Pz s -> z_comp z = wcomp s ->
  LiveZ c s ae z -> ModeZ c s ae z.
Proof. unfold ModeZ. intros -> HD HP HC HL. destruct b; auto. Qed.

Lemma ModeZ_intro_live c s ae z : werr s = None -> z_dead z = false -> Pz s -> z_comp z = wcomp s ->
  LiveZ c s ae z -> ModeZ c s ae z.
Proof. unfold ModeZ. intros ->. auto. Qed.

Lemma LiveZ_closed c s z : cur s = None -> z_open z = None -> fl_closed s -> LiveZ c s None z.
Proof. unfold LiveZ. intros -> -> H. auto. Qed.

Lemma LiveZ_same c s s' ae z z' : cur s' = cur s -> Writer.app s' = Writer.app s -> app_flate s' = app_flate s ->
  cur_flate s' = cur_flate s -> fl s' = fl s -> z_open z' = z_open z ->
  LiveZ c s ae z -> LiveZ c s' ae z'.
Proof. intros HC HA HAF HCF HF HO. unfold LiveZ, fl_closed. rewrite HC, HA, HAF, HCF, HF, HO. auto. Qed.

Lemma is_data_ty_eq t : is_data_ty t = is_data t.
Proof. reflexivity. Qed.

Lemma vty_adrop_data t d : vty t -> is_control_ty t = false -> adrop t d = false /\ (t =? 8) = false.
Proof. intros V HD. destruct (vty_data t V HD) as [-> | ->]; split; reflexivity. Qed.

Lemma zwire_plain t d str : zwire (mk_sent t false d, str) = mk_sent t false d.
Proof. reflexivity. Qed.
Lemma zwire_comp t d z : zwire (mk_sent t true d, z ++ flate_tail) = mk_sent t true z.
Proof. unfold zwire. cbn [fst snd s_comp s_ty mk_sent]. rewrite cut4_tail. reflexivity. Qed.
Lemma zstr_ok_plain t d str : zstr_ok (mk_sent t false d, str).
Proof. intros X. discriminate X. Qed.

(* ------------------------------------------------------------------------------------------ *)
(* implicit close, beginMessage, NextWriter                                                   *)
(* ------------------------------------------------------------------------------------------ *)
Lemma close_current_liveZ c ic s ae z : capok c -> 0 < cap c -> Forall small ic -> tail_at s ic ->
  Pz s -> werr s = None -> LiveZ c s ae z ->
  let s1 := close_current c ic s in
  Pz s1 /\ werr s1 = (if zflush_closes z then Some WCloseSent else None) /\ cur s1 = None /\
  fl_closed s1 /\ wcomp s1 = wcomp s /\
  exists fr evs, Forall wf_frame fr /\ wire s1 = wire s ++ encode_frames fr /\
    events_from ae fr = (evs, None) /\ map sent_of_event evs = map zwire (zflush_out z ic) /\
    Forall zstr_ok (zflush_out z ic).
Proof.
  intros HCap HPos HS HT HP HE HL. unfold close_current. unfold LiveZ in HL. destruct (cur s) as [m|] eqn:HC.
  - destruct HL as (M & A & AF & t & cf & acc & str & HO & V & CF & R).
    rewrite CF. unfold zflush_out, zflush_closes. rewrite HO. cbv zeta.
    assert (Hs : small []) by (unfold small; cbn; lia).
    destruct cf.
    + destruct R as (NG & HD & f & zacc & F1 & F2 & F3 & F4 & F5 & F6 & F7 & O).
      rewrite F1. destruct (flate_close c ic f s) as [e1 s1] eqn:EF. cbn [snd].
      assert (TO : tail_ok ic) by (apply HT; split; [exact CF|rewrite HC; discriminate]).
      destruct (flate_close_liveZ c ic f s m t zacc ae e1 s1 HCap HPos HS TO HD V HP HE HC M O F2 F3 F4 F5 EF)
        as (-> & P1 & E1 & A1 & C1 & FC1 & z0 & fr & ev & Hz & Fwf & FW & FEv & FS).
      destruct (vty_adrop_data t acc V HD) as [AD T8]. rewrite AD, T8. cbn [negb andb].
      split; [apply (Pz_same s1 _ P1); reflexivity|]. split; [exact E1|]. split; [reflexivity|].
      split; [exact FC1|]. split; [unfold auxz in A1; change (wcomp s1 = wcomp s); congruence|].
      exists fr, [ev]. split; [exact Fwf|]. split; [exact FW|]. split; [exact FEv|].
      rewrite F6, <- Hz. cbn [map]. rewrite zwire_comp, FS. split; [reflexivity|].
      constructor; [|constructor]. intros _. exists z0. reflexivity.
    + destruct R as (FC & O). unfold mw_close. rewrite HC.
      destruct (flush_frame c true [] m s) as [e1 s1] eqn:EF. cbn [snd].
      destruct (flush_final_openZ c [] m s e1 s1 t false acc ae HCap HP HE M V (fun X => False_ind _ (Bool.diff_false_true X)) O (fun _ => eq_refl) Hs EF)
        as (P1 & A1 & C1 & R).
      rewrite app_nil_r, (vty_ctl_leb t V) in R. unfold adrop.
      split; [apply (Pz_same s1 _ P1); reflexivity|].
      assert (FC1 : fl_closed (s1 <| cur := None |> <| cur_flate := false |>)).
      { intros f0 Hf0. change (fl s1 = Some f0) in Hf0. rewrite (aux_fl _ _ A1) in Hf0. apply (FC f0 Hf0). }
      assert (WC1 : wcomp (s1 <| cur := None |> <| cur_flate := false |>) = wcomp s) by (apply (aux_wcomp _ _ A1)).
      destruct ((8 <=? t) && (125 <? blen acc)); cbn [negb andb].
      * destruct R as (-> & RW & RE & ->).
        split; [exact RE|]. split; [reflexivity|]. split; [exact FC1|]. split; [exact WC1|].
        exists [], []. split; [constructor|].
        split. { change (wire s1 = wire s ++ encode_frames []). rewrite RW. cbn [encode_frames flat_map]. rewrite app_nil_r. reflexivity. }
        split; [reflexivity|]. split; [reflexivity|constructor].
      * destruct R as (-> & E1 & f & ev & Fwf & FW & FEv & FS).
        split; [exact E1|]. split; [reflexivity|]. split; [exact FC1|]. split; [exact WC1|].
        exists [f], [ev]. split; [constructor; [exact Fwf|constructor]|].
        split. { change (wire s1 = wire s ++ encode_frames [f]). rewrite FW. cbn [encode_frames flat_map]. rewrite app_nil_r. reflexivity. }
        split; [exact FEv|]. cbn [map]. rewrite FS, zwire_plain. split; [reflexivity|].
        constructor; [apply zstr_ok_plain|constructor].
  - destruct HL as (-> & HO & FC). unfold zflush_out, zflush_closes. rewrite HO.
    cbv zeta. split; [exact HP|]. split; [exact HE|]. split; [exact HC|]. split; [exact FC|]. split; [reflexivity|].
    exists [], []. split; [constructor|]. split; [cbn [encode_frames flat_map]; rewrite app_nil_r; reflexivity|].
    split; [reflexivity|]. split; [reflexivity|constructor].
Qed.

Definition flushedZ (s s':wst) (ae:eacc) (z:zst) (ic:list bytes) : Prop :=
  exists fr evs, Forall wf_frame fr /\ wire s' = wire s ++ encode_frames fr /\
    events_from ae fr = (evs, None) /\ map sent_of_event evs = map zwire (zflush_out z ic) /\
    Forall zstr_ok (zflush_out z ic).

Lemma begin_message_liveZ c ty ic s ae z e s' : capok c -> 0 < cap c -> Forall small ic -> tail_at s ic ->
  Pz s -> werr s = None -> LiveZ c s ae z ->
  begin_message c ty ic s = (e, s') ->
  Pz s' /\ werr s' = (if zflush_closes z then Some WCloseSent else None) /\ cur s' = None /\
  fl_closed s' /\ wcomp s' = wcomp s /\ flushedZ s s' ae z ic /\
  (e = Some WBadOpCode \/ (zflush_closes z = true /\ e = Some WCloseSent) \/
   (zflush_closes z = false /\ e = None /\ vty ty)).
Proof.
  intros HCap HPos HS HT HP HE HL H. unfold begin_message in H.
  destruct (close_current_liveZ c ic s ae z HCap HPos HS HT HP HE HL) as (P1 & E1 & C1 & FC1 & WC1 & FR).
  fold (flushedZ s (close_current c ic s) ae z ic) in FR.
  set (s1 := close_current c ic s) in *. clearbody s1.
  destruct (negb (is_control_ty ty) && negb (is_data_ty ty)) eqn:ET.
  { inversion H; subst e s'. auto 10. }
  rewrite E1 in H. destruct (zflush_closes z) eqn:EC.
  { inversion H; subst e s'. auto 10. }
  set (s2 := if held s1 then s1 else log TGet (s1 <| held := true |>)) in H.
  assert (X : Pz s2 /\ werr s2 = None /\ cur s2 = None /\ wire s2 = wire s1 /\ fl s2 = fl s1 /\ wcomp s2 = wcomp s1).
  { subst s2. destruct (held s1); [auto 10|].
    split; [destruct P1; constructor; assumption|]. split; [exact E1|]. split; [exact C1|].
    rewrite wire_log. cbn [pay]. rewrite app_nil_r. auto. }
  clearbody s2. inversion H; subst e s'. clear H.
  destruct X as (X1 & X2 & X3 & X4 & X5 & X6). split; [exact X1|]. split; [exact X2|]. split; [exact X3|].
  split; [unfold fl_closed; rewrite X5; exact FC1|]. split; [congruence|].
  split; [unfold flushedZ; rewrite X4; exact FR|]. right. right. split; [reflexivity|]. split; [reflexivity|apply valid_vty; exact ET].
Qed.

Lemma data_ty_not_control ty : is_data_ty ty = true -> is_control_ty ty = false.
Proof.
  unfold is_data_ty, is_control_ty, c_TextMessage, c_BinaryMessage, c_CloseMessage, c_PingMessage, c_PongMessage.
  intros H. destruct (ty =? 1) eqn:E1; [apply N.eqb_eq in E1; subst; reflexivity|].
  destruct (ty =? 2) eqn:E2; [apply N.eqb_eq in E2; subst; reflexivity|]. discriminate H.
Qed.

Lemma next_writer_liveZ c ty ic s ae z e s' : capok c -> 0 < cap c -> Forall small ic -> tail_at s ic ->
  Pz s -> werr s = None -> LiveZ c s ae z ->
  next_writer c ty ic s = (e, s') ->
  Pz s' /\ werr s' = (if zflush_closes z then Some WCloseSent else None) /\ wcomp s' = wcomp s /\
  flushedZ s s' ae z ic /\
  (((exists e0, e = Some e0 /\ ntr e0) /\ cur s' = None /\ fl_closed s') \/
   (zflush_closes z = false /\ e = None /\ vty ty /\
    forall z', z_open z' = Some (ty, w_negotiated c && wcomp s && is_data ty, [], []) -> LiveZ c s' None z')).
Proof.
  intros HCap HPos HS HT HP HE HL H. unfold next_writer in H.
  destruct (begin_message c ty ic s) as [e1 s1] eqn:EB.
  destruct (begin_message_liveZ c ty ic s ae z e1 s1 HCap HPos HS HT HP HE HL EB)
    as (P1 & E1 & C1 & FC1 & WC1 & FR & [->|[(EC & ->)|(EC & -> & V)]]).
  { inversion H; subst e s'. split; [exact P1|]. split; [exact E1|]. split; [exact WC1|]. split; [exact FR|]. left.
    split; [|auto]. eexists. split; [reflexivity|exact I]. }
  { inversion H; subst e s'. split; [exact P1|]. split; [exact E1|]. split; [exact WC1|]. split; [exact FR|]. left.
    split; [|auto]. eexists. split; [reflexivity|exact I]. }
  rewrite EC in E1 |- *.
  unfold new_mw in H. cbv beta iota zeta in H.
  change (wcomp (s1 <| nextid := S (nextid s1) |>)) with (wcomp s1) in H. rewrite WC1 in H.
  change (is_data ty) with (is_data_ty ty).
  destruct (w_negotiated c && wcomp s && is_data_ty ty) eqn:EN.
  - match type of H with (None, ?x) = _ => set (s2 := x) in H end.
    assert (X : Pz s2 /\ werr s2 = None /\ wire s2 = wire s1 /\ wcomp s2 = wcomp s1) by
      (subst s2; split; [destruct P1; constructor; assumption|split; [exact E1|split; reflexivity]]).
    apply andb_true_iff in EN. destruct EN as [EN ED]. apply andb_true_iff in EN. destruct EN as [EN _].
    assert (Y : forall z', z_open z' = Some (ty, true, [], []) -> LiveZ c s2 None z').
    { intros z' HZ. unfold LiveZ. subst s2. wsimpl.
      split; [split; [reflexivity|cbn; lia]|]. split; [reflexivity|]. split; [reflexivity|].
      exists ty, true, [], []. split; [exact HZ|]. split; [exact V|]. split; [reflexivity|].
      split; [exact EN|]. split; [apply data_ty_not_control; exact ED|].
      eexists. exists []. split; [reflexivity|]. wsimpl. split; [reflexivity|]. split; [reflexivity|].
      split; [reflexivity|]. split; [cbn; lia|]. split; [reflexivity|]. split; [right; reflexivity|].
      left. auto. }
    clearbody s2. inversion H; subst e s'. clear H. destruct X as (X1 & X2 & X3 & X4).
    split; [exact X1|]. split; [exact X2|]. split; [congruence|]. split; [unfold flushedZ; rewrite X3; exact FR|].
    right. split; [reflexivity|]. split; [reflexivity|]. split; [exact V|]. exact Y.
  - match type of H with (None, ?x) = _ => set (s2 := x) in H end.
    assert (X : Pz s2 /\ werr s2 = None /\ wire s2 = wire s1 /\ wcomp s2 = wcomp s1) by
      (subst s2; split; [destruct P1; constructor; assumption|split; [exact E1|split; reflexivity]]).
    assert (Y : forall z', z_open z' = Some (ty, false, [], []) -> LiveZ c s2 None z').
    { intros z' HZ. unfold LiveZ. subst s2. wsimpl.
      split; [split; [reflexivity|cbn; lia]|]. split; [reflexivity|]. split; [reflexivity|].
      exists ty, false, [], []. split; [exact HZ|]. split; [exact V|]. split; [reflexivity|].
      split; [exact FC1|]. left. auto. }
    clearbody s2. inversion H; subst e s'. clear H. destruct X as (X1 & X2 & X3 & X4).
    split; [exact X1|]. split; [exact X2|]. split; [congruence|]. split; [unfold flushedZ; rewrite X3; exact FR|].
    right. split; [reflexivity|]. split; [reflexivity|]. split; [exact V|]. exact Y.
Qed.

(* ------------------------------------------------------------------------------------------ *)
(* calls on a handle whose writer is gone                                                     *)
(* ------------------------------------------------------------------------------------------ *)
Lemma ended_err_ntrZ id s : Pz s -> ntr (ended_err id s).
Proof.
  intros HP. unfold ended_err. destruct (find _ (ended s)) as [[i e]|] eqn:EF; [|exact I].
  apply find_some in EF. destruct EF as [HIn _]. pose proof (z_ended s HP) as X.
  rewrite Forall_forall in X. apply (X _ HIn).
Qed.

Lemma app_write_nocurZ c sv p wc s : Pz s -> cur s = None -> fl_closed s ->
  exists e, app_write c sv p wc s = (Some e, s) /\ ntr e.
Proof.
  intros HP HC FC. unfold app_write. destruct (Writer.app s) as [id|]; [|exists WWriteClosed; split; [reflexivity|exact I]].
  destruct (app_flate s).
  - destruct (fl s) as [f|] eqn:EF; [|exists WWriteClosed; split; [reflexivity|exact I]].
    destruct (Nat.eqb (f_id f) id); [|exists WWriteClosed; split; [reflexivity|exact I]].
    unfold flate_write. rewrite (FC f EF). cbn [negb]. exists WWriteClosed; split; [reflexivity|exact I].
  - rewrite (is_cur_none id s HC). eexists. split; [reflexivity|]. apply ended_err_ntrZ. exact HP.
Qed.

Lemma app_read_from_nocurZ c ch s : Pz s -> cur s = None ->
  exists e, app_read_from c ch s = (Some e, s) /\ ntr e.
Proof.
  intros HP HC. unfold app_read_from. destruct (Writer.app s) as [id|]; [|exists WWriteClosed; split; [reflexivity|exact I]].
  destruct (app_flate s); [exists WInternal; split; [reflexivity|exact I]|].
  rewrite (is_cur_none id s HC). eexists. split; [reflexivity|]. apply ended_err_ntrZ. exact HP.
Qed.

Lemma app_close_nocurZ c cc s : Pz s -> cur s = None -> fl_closed s ->
  exists e, app_close c cc s = (Some e, s) /\ ntr e.
Proof.
  intros HP HC FC. unfold app_close. destruct (Writer.app s) as [id|]; [|exists WWriteClosed; split; [reflexivity|exact I]].
  destruct (app_flate s).
  - destruct (fl s) as [f|] eqn:EF; [|exists WWriteClosed; split; [reflexivity|exact I]].
    destruct (Nat.eqb (f_id f) id); [|exists WWriteClosed; split; [reflexivity|exact I]].
    unfold flate_close. rewrite (FC f EF). cbn [negb]. exists WWriteClosed; split; [reflexivity|exact I].
  - rewrite (is_cur_none id s HC). eexists. split; [reflexivity|]. apply ended_err_ntrZ. exact HP.
Qed.

(* ------------------------------------------------------------------------------------------ *)
(* WriteControl                                                                               *)
(* ------------------------------------------------------------------------------------------ *)
Lemma write_control_liveZ c ty d dl s e s' :
  Pz s -> werr s = None -> write_control c ty d dl s = (e, s') ->
  (e <> None /\ rntr e /\ s' = s) \/
  (e = None /\ is_control_ty ty = true /\ blen d <= 125 /\ Pz s' /\
   WriterStateP.core s' = WriterStateP.core s /\
   werr s' = (if ty =? 8 then Some WCloseSent else None) /\
   exists mk, role_key c mk /\ wire s' = wire s ++ encode_frame (mkf true ty 0 mk d)).
Proof.
  intros HP HE H.
  pose proof (WriterStateP.write_control_spec c ty d dl s e s' H) as
    [(_ & -> & ->)|[(_ & _ & -> & ->)|[(_ & _ & _ & -> & ->)|(HT & HL & HD & HC & HPost)]]];
    try (left; split; [discriminate|split; [exact I|reflexivity]]).
  right. unfold write_control in H. rewrite HT in H. cbn [negb] in H.
  change c_maxControlFramePayloadSize with 125 in H.
  replace (125 <? blen d) with false in H by lia. replace (dl =? 1) with false in H by lia.
  rewrite HE in H.
  destruct (t_setdl dl s) as [e1 s1] eqn:E1. apply t_setdl_eff in E1. destruct E1 as [D1 D2].
  destruct D1 as (A1&A2&A3&A4&A5&A6&A7). rewrite app_nil_r in A7.
  destruct e1 as [e1|]; [exfalso; apply D2; [discriminate|apply HP]|].
  destruct (keyed_write (negb (w_server c)) (fun key => control_frame (w_server c) ty key d) s1) as [e2 s2] eqn:E2.
  apply keyed_write_eff in E2; [|rewrite A6; apply HP].
  destruct E2 as (HK2 & key & W & Hkey & (C1&C2&C3&C4&C5) & HW2 & N2 & F2).
  destruct e2 as [e2|]; [exfalso; destruct F2 as [F2a _]; [discriminate|]; apply F2a; rewrite A4; apply HP|].
  specialize (N2 eq_refl). subst W.
  set (s3 := if ty =? c_CloseMessage then write_fatal WCloseSent s2 else s2) in H.
  assert (HS : wire s3 = wire s2 /\ fail_at s3 = fail_at s2 /\ Forall len4 (keys s3)).
  { subst s3. destruct (ty =? c_CloseMessage).
    - destruct (write_fatal_eff WCloseSent s2) as (B1&B2&B3&B4&B5&B6&B7). rewrite B5. auto.
    - auto. }
  clearbody s3. inversion H; subst e s'. clear H.
  destruct HS as (S1 & S2 & S3).
  split; [reflexivity|]. split; [exact HT|]. split; [exact HL|].
  split. { apply (Pz_core s s3 HP HC); [rewrite S2, C4, A4; apply HP|exact S3]. }
  split; [exact HC|]. split.
  { destruct HPost as [(e0 & X & _)|(_ & g & _ & _ & Y & _)]; [congruence|exact Y]. }
  exists (if w_server c then None else Some key). split.
  { unfold role_key. destruct (w_server c); [reflexivity|]. exists key. auto. }
  rewrite S1, C5, A7. rewrite (control_frame_enc _ _ _ _ HL). reflexivity.
Qed.

(* ------------------------------------------------------------------------------------------ *)
(* one program step preserves the ghost invariant                                             *)
(* ------------------------------------------------------------------------------------------ *)
Lemma LiveZ_core c s s' ae z z' : WriterStateP.core s' = WriterStateP.core s -> z_open z' = z_open z ->
  LiveZ c s ae z -> LiveZ c s' ae z'.
Proof.
  intros HC HO. apply LiveZ_same; try exact HO.
  - apply (WriterStateP.core_cur _ _ HC).
  - apply (WriterStateP.core_app _ _ HC).
  - apply (WriterStateP.core_app_flate _ _ HC).
  - apply (WriterStateP.core_cur_flate _ _ HC).
  - apply (WriterStateP.core_fl _ _ HC).
Qed.

Lemma quiet_stepZ c s fs z s' o r : GZ c s fs z -> werr s = None ->
  wire s' = wire s -> werr s' = werr s -> cur s' = cur s -> Writer.app s' = Writer.app s ->
  app_flate s' = app_flate s -> cur_flate s' = cur_flate s -> fl s' = fl s -> (Pz s -> Pz s') ->
  ntrN r -> match o with WSetDeadline _ | WEnableCompression _ | WSetLevel _ => True | _ => False end ->
  wcomp s' = match o with WEnableCompression b => b | _ => wcomp s end ->
  GZ c s' fs (zstep (w_negotiated c) z o r).
Proof.
  intros G HE HW HE' HC HA HAF HCF HF HP HR HO HWC.
  destruct (zstep_quiet (w_negotiated c) z o r HR HO) as (Q1 & Q2 & Q3 & Q4).
  destruct (ModeZ_live c s _ z HE (gz_mode _ _ _ _ G)) as (D & P & ZC & L).
  apply (GZ_same c s fs z s' _ G HW Q2).
  apply ModeZ_intro_live; [congruence|congruence|auto| |].
  - rewrite Q4, HWC. destruct o; try exact ZC; reflexivity.
  - apply (LiveZ_same c s s' _ z _ HC HA HAF HCF HF Q1 L).
Qed.

Lemma control_stepZ c s fs z ty d dl e s' : GZ c s fs z -> werr s = None ->
  write_control c ty d dl s = (e, s') ->
  exists fs', GZ c s' fs' (zstep (w_negotiated c) z (WControl ty d dl) (e_werr e)).
Proof.
  intros G HE H.
  destruct (ModeZ_live c s _ z HE (gz_mode _ _ _ _ G)) as (D & P & ZC & L).
  destruct (write_control_liveZ c ty d dl s e s' P HE H) as [(Hne & Hn & ->)|(-> & HT & HL & P' & HC & HE' & mk & HR & HW)].
  - destruct (zstep_control (w_negotiated c) z ty d dl (e_werr e) (e_werr_ntr e Hn)) as (Q1 & Q0 & Q2 & Q3).
    rewrite e_werr_zero in Q2, Q3. destruct e as [e|]; [|contradiction].
    cbn [andb] in Q3. rewrite app_nil_r in Q2. rewrite orb_false_r in Q3.
    exists fs. apply (GZ_same c s fs z s _ G eq_refl Q2).
    apply ModeZ_intro_live; [exact HE|congruence|exact P|congruence|].
    apply (LiveZ_same c s s _ z _ eq_refl eq_refl eq_refl eq_refl eq_refl Q1 L).
  - destruct (zstep_control (w_negotiated c) z ty d dl (e_werr None) (e_werr_ntr None I)) as (Q1 & Q0 & Q2 & Q3).
    cbn [e_werr N.eqb andb] in Q0, Q1, Q2, Q3. rewrite D in Q3. cbn [orb] in Q3.
    set (f := mkf true ty 0 mk d) in *.
    assert (IC : is_control ty = true).
    { unfold is_control_ty, is_control, c_CloseMessage, c_PingMessage, c_PongMessage in *.
      destruct (ty =? 8) eqn:E1; [lia|]. destruct (ty =? 9) eqn:E2; [lia|]. destruct (ty =? 10) eqn:E3; [lia|discriminate]. }
    assert (Fwf : wf_frame f).
    { apply wf_mkf; [lia|unfold is_control in IC;
        unfold is_control_ty, c_CloseMessage, c_PingMessage, c_PongMessage in HT;
        destruct (ty =? 8) eqn:E1; [lia|]; destruct (ty =? 9) eqn:E2; [lia|]; destruct (ty =? 10) eqn:E3; [lia|discriminate]
        |lia|apply (role_key_ok c); exact HR]. }
    exists (fs ++ [f]).
    apply (GZ_ext c s fs z s' _ [f] [ECtl ty d] (acc_of fs) [(mk_sent ty false d, [])] G).
    + rewrite HW. cbn [encode_frames flat_map]. rewrite app_nil_r. reflexivity.
    + constructor; [exact Fwf|constructor].
    + rewrite events_from_ctl by exact IC. reflexivity.
    + exact Q2.
    + reflexivity.
    + constructor; [apply zstr_ok_plain|constructor].
    + apply (ModeZ_intro_close c s' _ _ (ty =? 8) HE' Q3 P').
      * rewrite Q0, ZC. symmetry. apply (WriterStateP.core_wcomp _ _ HC).
      * apply (LiveZ_core c s s' _ z _ HC Q1 L).
Qed.

Lemma nocur_write_GZ c s fs z o d wc e0 : is_write_op o d wc -> GZ c s fs z -> werr s = None ->
  cur s = None -> ntr e0 -> exists fs', GZ c s fs' (zstep (w_negotiated c) z o (e_werr (Some e0))).
Proof.
  intros HO G HE HC Hn.
  destruct (ModeZ_live c s _ z HE (gz_mode _ _ _ _ G)) as (D & P & ZC & L).
  destruct (zstep_write (w_negotiated c) z o d wc (e_werr (Some e0)) HO (e_werr_ntr (Some e0) Hn)) as (Q1 & Q2 & Q0 & Q3).
  exists fs. apply (GZ_same c s fs z s _ G eq_refl Q1).
  apply ModeZ_intro_live; [exact HE|rewrite Q2; exact D|exact P|rewrite Q0; exact ZC|].
  apply (LiveZ_same c s s _ z _ eq_refl eq_refl eq_refl eq_refl eq_refl); [|exact L].
  unfold LiveZ in L. rewrite HC in L. destruct L as (_ & L2 & _). rewrite Q3, L2. reflexivity.
Qed.

Lemma plain_write_GZ c s fs z o d wc e s' m t acc str :
  is_write_op o d wc -> GZ c s fs z -> werr s = None -> cur s = Some m ->
  Writer.app s = Some (m_id m) -> app_flate s = cur_flate s -> cur_flate s = false ->
  z_open z = Some (t, false, acc, str) -> vty t -> fl_closed s ->
  wr_postZ c s m t false acc (acc_of fs) d e s' ->
  rntr e /\ exists fs', GZ c s' fs' (zstep (w_negotiated c) z o (e_werr e)).
Proof.
  intros HOp G HE HC A AF CF HO V FC (P' & E' & A' & R).
  destruct (ModeZ_live c s _ z HE (gz_mode _ _ _ _ G)) as (D & P & ZC & L).
  assert (FC' : fl_closed s') by (unfold fl_closed; rewrite (aux_fl _ _ A'); exact FC).
  destruct R as [(-> & CF' & fr & ae' & m' & C1 & C2 & C3 & C4 & C5 & C6 & C7)|(ET & -> & C1 & C2 & C3)].
  - destruct (zstep_write (w_negotiated c) z o d wc (e_werr None) HOp (e_werr_ntr None I)) as (Q1 & Q2 & Q0 & Q3).
    rewrite HO, e_werr_zero in Q3. split; [exact I|].
    exists (fs ++ fr). apply (GZ_ext c s fs z s' _ fr [] ae' [] G C4 C5 C6).
    + rewrite app_nil_r. exact Q1.
    + reflexivity.
    + constructor.
    + apply ModeZ_intro_live; [exact E'|rewrite Q2; exact D|exact P'|rewrite Q0, ZC; symmetry; apply (aux_wcomp _ _ A')|].
      unfold LiveZ. rewrite C1.
      split; [exact C3|]. split; [rewrite (aux_app _ _ A'), A, C2; reflexivity|].
      split; [rewrite (aux_app_flate _ _ A'), AF, CF'; reflexivity|].
      exists t, false, (acc ++ d), (str ++ concat wc). split; [exact Q3|]. split; [exact V|].
      split; [congruence|]. split; [exact FC'|exact C7].
  - destruct (zstep_write (w_negotiated c) z o d wc (e_werr (Some WInvalidControl)) HOp (e_werr_ntr (Some WInvalidControl) I)) as (Q1 & Q2 & Q0 & Q3).
    rewrite HO, e_werr_zero in Q3. split; [exact I|].
    exists fs. apply (GZ_same c s fs z s' _ G C2 Q1).
    apply ModeZ_intro_live; [exact E'|rewrite Q2; exact D|exact P'|rewrite Q0, ZC; symmetry; apply (aux_wcomp _ _ A')|].
    rewrite C3. apply LiveZ_closed; assumption.
Qed.

Lemma app_write_stepZ c s fs z sv d wc e s' : capok c -> 0 < cap c -> small d -> Forall small wc ->
  GZ c s fs z -> werr s = None -> app_write c sv d wc s = (e, s') ->
  rntr e /\ exists fs', GZ c s' fs' (zstep (w_negotiated c) z (if sv then WWriteString d wc else WWrite d wc) (e_werr e)).
Proof.
  intros HCap HPos HS HSs G HE H.
  assert (HOp : is_write_op (if sv then WWriteString d wc else WWrite d wc) d wc) by (destruct sv; split; reflexivity).
  destruct (ModeZ_live c s _ z HE (gz_mode _ _ _ _ G)) as (D & P & ZC & L).
  destruct (cur s) as [m|] eqn:HC.
  - pose proof L as L0. unfold LiveZ in L. rewrite HC in L.
    destruct L as (M & A & AF & t & cf & acc & str & HO & V & CF & R).
    unfold app_write in H. rewrite A, AF, CF in H. destruct cf.
    + destruct R as (NG & HD & f & zacc & F1 & F2 & F3 & F4 & F5 & F6 & F7 & O).
      rewrite F1, F2, Nat.eqb_refl in H.
      destruct (flate_write_liveZ c wc f s m t zacc (acc_of fs) HCap HPos HSs HD V P HE HC M O F3 F4 F5 F7)
        as (s1 & tw' & fw & fr & ae' & m' & E1 & P1 & E1' & A1 & CF1 & FL1 & C1 & I1 & M1 & W1 & Fwf & Ev1 & O1 & R1 & B1 & K1).
      rewrite E1 in H. inversion H; subst e s'. clear H.
      destruct (zstep_write (w_negotiated c) z _ d wc (e_werr None) HOp (e_werr_ntr None I)) as (Q1 & Q2 & Q0 & Q3).
      rewrite HO, e_werr_zero in Q3. split; [exact I|].
      exists (fs ++ fr). apply (GZ_ext c s fs z s1 _ fr [] ae' [] G W1 Fwf Ev1).
      * rewrite app_nil_r. exact Q1.
      * reflexivity.
      * constructor.
      * unfold auxz in A1.
        apply ModeZ_intro_live; [exact E1'|rewrite Q2; exact D|exact P1|rewrite Q0, ZC; congruence|].
        unfold LiveZ. rewrite C1. split; [exact M1|]. split; [rewrite I1; congruence|]. split; [congruence|].
        exists t, true, (acc ++ d), (str ++ concat wc). split; [exact Q3|]. split; [exact V|]. split; [congruence|].
        split; [exact NG|]. split; [exact HD|].
        exists (f <| f_tw := tw' |>), (zacc ++ fw). split; [exact FL1|]. split; [rewrite I1; exact F2|].
        split; [exact F3|]. split; [exact F4|]. split; [exact B1|].
        split; [rewrite F6; exact R1|]. split; [exact K1|exact O1].
    + destruct R as (FC & O). rewrite (is_cur_self s m HC) in H.
      apply (plain_write_GZ c s fs z _ d wc e s' m t acc str HOp G HE HC A AF CF HO V FC).
      destruct sv.
      * apply (mw_write_string_liveZ c d s m t false acc _ e s' HCap HPos P HE HC M V O H).
      * apply (mw_write_liveZ c d s m t false acc _ e s' HCap HPos HS P HE HC M V O H).
  - unfold LiveZ in L. rewrite HC in L. destruct L as (_ & _ & FC).
    destruct (app_write_nocurZ c sv d wc s P HC FC) as (e0 & X & Hn). rewrite X in H. inversion H; subst e s'.
    split; [exact Hn|]. apply (nocur_write_GZ c s fs z _ d wc e0 HOp G HE HC Hn).
Qed.

Lemma app_read_from_stepZ c s fs z ch e s' : capok c -> 0 < cap c ->
  ~ flate_cur s ->
  GZ c s fs z -> werr s = None -> app_read_from c ch s = (e, s') ->
  rntr e /\ exists fs', GZ c s' fs' (zstep (w_negotiated c) z (WReadFrom ch) (e_werr e)).
Proof.
  intros HCap HPos HNF G HE H.
  assert (HOp : is_write_op (WReadFrom ch) (concat ch) []) by (split; reflexivity).
  destruct (ModeZ_live c s _ z HE (gz_mode _ _ _ _ G)) as (D & P & ZC & L).
  destruct (cur s) as [m|] eqn:HC.
  - unfold LiveZ in L. rewrite HC in L.
    destruct L as (M & A & AF & t & cf & acc & str & HO & V & CF & R).
    destruct cf; [exfalso; apply HNF; split; [exact CF|rewrite HC; discriminate]|].
    destruct R as (FC & O).
    unfold app_read_from in H. rewrite A, AF, CF, (is_cur_self s m HC) in H.
    apply (plain_write_GZ c s fs z _ (concat ch) [] e s' m t acc str HOp G HE HC A AF CF HO V FC).
    eapply (read_from_liveZ c HCap HPos _ ch s m t false acc _ e s' P HE HC M V O); [|exact H].
    unfold blen, bytes. match goal with |- context [if ?b then _ else _] => destruct b end; lia.
  - destruct (app_read_from_nocurZ c ch s P HC) as (e0 & X & Hn). rewrite X in H. inversion H; subst e s'.
    split; [exact Hn|]. apply (nocur_write_GZ c s fs z _ (concat ch) [] e0 HOp G HE HC Hn).
Qed.

Lemma close_stepZ c cc s fs z e s' : capok c -> 0 < cap c -> Forall small cc -> tail_at s cc ->
  GZ c s fs z -> werr s = None -> app_close c cc s = (e, s') ->
  rntr e /\ exists fs', GZ c s' fs' (zstep (w_negotiated c) z (WClose cc) (e_werr e)).
Proof.
  intros HCap HPos HS HT G HE H.
  destruct (ModeZ_live c s _ z HE (gz_mode _ _ _ _ G)) as (D & P & ZC & L).
  destruct (cur s) as [m|] eqn:HC.
  - unfold LiveZ in L. rewrite HC in L.
    destruct L as (M & A & AF & t & cf & acc & str & HO & V & CF & R).
    unfold app_close in H. rewrite A, AF, CF in H. destruct cf.
    + destruct R as (NG & HD & f & zacc & F1 & F2 & F3 & F4 & F5 & F6 & F7 & O).
      rewrite F1, F2, Nat.eqb_refl in H.
      assert (TO : tail_ok cc) by (apply HT; split; [exact CF|rewrite HC; discriminate]).
      destruct (flate_close_liveZ c cc f s m t zacc (acc_of fs) e s' HCap HPos HS TO HD V P HE HC M O F2 F3 F4 F5 H)
        as (-> & P1 & E1 & A1 & C1 & FC1 & z0 & fr & ev & Hz & Fwf & FW & FEv & FS).
      destruct (zstep_close (w_negotiated c) z cc (e_werr None) (e_werr_ntr None I)) as (Q1 & Q0 & Q2 & Q3).
      rewrite e_werr_zero in Q2, Q3. cbn [andb] in Q3. rewrite D, HO in Q3. cbn [orb] in Q3.
      unfold zopen_out in Q2. rewrite HO in Q2.
      destruct (vty_adrop_data t acc V HD) as [_ T8]. rewrite T8 in Q3. split; [exact I|].
      exists (fs ++ fr). apply (GZ_ext c s fs z s' _ fr [ev] None _ G FW Fwf FEv Q2).
      * cbn [map]. rewrite F6, <- Hz, zwire_comp, FS. reflexivity.
      * constructor; [|constructor]. intros _. exists z0. cbn [snd]. rewrite F6, <- Hz. reflexivity.
      * unfold auxz in A1.
        apply ModeZ_intro_live; [exact E1|exact Q3|exact P1|rewrite Q0, ZC; congruence|].
        apply LiveZ_closed; assumption.
    + destruct R as (FC & O). rewrite (is_cur_self s m HC) in H.
      unfold mw_close in H. rewrite HC in H.
      assert (Hs0 : small []) by (unfold small; cbn; lia).
      destruct (flush_final_openZ c [] m s e s' t false acc (acc_of fs) HCap P HE M V (fun X => False_ind _ (Bool.diff_false_true X)) O (fun _ => eq_refl) Hs0 H)
        as (P' & A' & C' & R).
      rewrite app_nil_r in R.
      assert (FC' : fl_closed s') by (unfold fl_closed; rewrite (aux_fl _ _ A'); exact FC).
      destruct (is_control_ty t && (125 <? blen acc)).
      * destruct R as (-> & RW & RE & RA).
        destruct (zstep_close (w_negotiated c) z cc (e_werr (Some WInvalidControl)) (e_werr_ntr (Some WInvalidControl) I)) as (Q1 & Q0 & Q2 & Q3).
        rewrite e_werr_zero in Q2, Q3. cbn [andb] in Q3. rewrite app_nil_r in Q2. rewrite orb_false_r in Q3.
        split; [exact I|]. exists fs. apply (GZ_same c s fs z s' _ G RW Q2).
        apply ModeZ_intro_live; [exact RE|rewrite Q3; exact D|exact P'|rewrite Q0, ZC; symmetry; apply (aux_wcomp _ _ A')|].
        rewrite RA. apply LiveZ_closed; assumption.
      * destruct R as (-> & RE & f & ev & Rwf & RW & REv & RS).
        destruct (zstep_close (w_negotiated c) z cc (e_werr None) (e_werr_ntr None I)) as (Q1 & Q0 & Q2 & Q3).
        rewrite e_werr_zero in Q2, Q3. cbn [andb] in Q3. rewrite D, HO in Q3. cbn [orb] in Q3.
        unfold zopen_out in Q2. rewrite HO in Q2. split; [exact I|].
        exists (fs ++ [f]). apply (GZ_ext c s fs z s' _ [f] [ev] None [(mk_sent t false acc, str ++ concat cc)] G).
        -- rewrite RW. cbn [encode_frames flat_map]. rewrite app_nil_r. reflexivity.
        -- constructor; [exact Rwf|constructor].
        -- exact REv.
        -- exact Q2.
        -- cbn [map]. rewrite RS, zwire_plain. reflexivity.
        -- constructor; [apply zstr_ok_plain|constructor].
        -- apply (ModeZ_intro_close c s' _ _ (t =? 8) RE Q3 P').
           ++ rewrite Q0, ZC. symmetry. apply (aux_wcomp _ _ A').
           ++ apply LiveZ_closed; assumption.
  - unfold LiveZ in L. rewrite HC in L. destruct L as (L1 & L2 & FC).
    destruct (app_close_nocurZ c cc s P HC FC) as (e0 & X & Hn). rewrite X in H. inversion H; subst e s'. clear H.
    destruct (zstep_close (w_negotiated c) z cc (e_werr (Some e0)) (e_werr_ntr (Some e0) Hn)) as (Q1 & Q0 & Q2 & Q3).
    rewrite e_werr_some in Q2, Q3. cbn [andb] in Q3. rewrite app_nil_r in Q2. rewrite orb_false_r in Q3.
    split; [exact Hn|]. exists fs. apply (GZ_same c s fs z s _ G eq_refl Q2).
    apply ModeZ_intro_live; [exact HE|rewrite Q3; exact D|exact P|rewrite Q0; exact ZC|].
    unfold LiveZ. rewrite HC. auto.
Qed.

Lemma next_stepZ c ty ic s fs z e s' : capok c -> 0 < cap c -> Forall small ic -> tail_at s ic ->
  GZ c s fs z -> werr s = None ->
  next_writer c ty ic s = (e, s') ->
  exists fs', GZ c s' fs' (zstep (w_negotiated c) z (WNext ty ic) (e_werr e)).
Proof.
  intros HCap HPos HS HT G HE H.
  destruct (ModeZ_live c s _ z HE (gz_mode _ _ _ _ G)) as (D & P & ZC & L).
  destruct (next_writer_liveZ c ty ic s (acc_of fs) z e s' HCap HPos HS HT P HE L H)
    as (P1 & E1 & WC1 & (fr & evs & Fwf & FW & FEv & FS & FO) & R).
  assert (Hn : rntr e) by (destruct R as [((e0 & -> & Hn0) & _)|(_ & -> & _)]; [exact Hn0|exact I]).
  destruct (zstep_next (w_negotiated c) z ty ic (e_werr e) D (e_werr_ntr e Hn)) as (Q1 & Q0 & Q2 & Q3).
  exists (fs ++ fr). apply (GZ_ext c s fs z s' _ fr evs None _ G FW Fwf FEv Q2 FS FO).
  apply (ModeZ_intro_close c s' _ _ (zflush_closes z) E1 Q3 P1); [rewrite Q0, ZC; symmetry; exact WC1|].
  destruct R as [((e0 & -> & Hn0) & C1 & FC1)|(_ & -> & V & Y)].
  - apply LiveZ_closed; [exact C1| |exact FC1]. rewrite Q1, e_werr_some. reflexivity.
  - apply Y. rewrite Q1, ZC. reflexivity.
Qed.

(* ------------------------------------------------------------------------------------------ *)
(* WriteMessage: the server fast path; the general path = NextWriter, Write, Close            *)
(* ------------------------------------------------------------------------------------------ *)
Lemma message_fast_stepZ c ty d ic wc cc s fs z e s' : capok c -> 0 < cap c -> small d -> Forall small ic ->
  tail_at s ic ->
  w_server c && (negb (w_negotiated c) || negb (wcomp s)) = true ->
  GZ c s fs z -> werr s = None ->
  write_message c ty d ic wc cc s = (e, s') ->
  exists fs', GZ c s' fs' (zstep (w_negotiated c) z (WMessage ty d ic wc cc) (e_werr e)).
Proof.
  intros HCap HPos HS HSi HT HF G HE H.
  destruct (ModeZ_live c s _ z HE (gz_mode _ _ _ _ G)) as (D & P & ZC & L).
  unfold write_message in H. rewrite HF in H.
  apply andb_true_iff in HF. destruct HF as [ES HNC].
  assert (CF0 : w_negotiated c && z_comp z && is_data ty = false).
  { rewrite ZC. destruct (w_negotiated c), (wcomp s); cbn in HNC |- *; try reflexivity; discriminate. }
  destruct (begin_message c ty ic s) as [e1 s1] eqn:EB.
  destruct (begin_message_liveZ c ty ic s (acc_of fs) z e1 s1 HCap HPos HSi HT P HE L EB)
    as (P1 & E1 & C1 & FC1 & WC1 & (fr & evs & Fwf & FW & FEv & FS & FO) & Hcase).
  assert (Fail : forall e0, ntr e0 -> e1 = Some e0 ->
            exists fs', GZ c s1 fs' (zstep (w_negotiated c) z (WMessage ty d ic wc cc) (e_werr (Some e0)))).
  { intros e0 Hn ->.
    destruct (zstep_msg (w_negotiated c) z ty d ic wc cc (e_werr (Some e0)) D (e_werr_ntr (Some e0) Hn)) as (Q1 & Q0 & Q2 & Q3).
    rewrite e_werr_some in Q2, Q3. cbn [andb] in Q3. rewrite app_nil_r in Q2. rewrite orb_false_r in Q3.
    exists (fs ++ fr). apply (GZ_ext c s fs z s1 _ fr evs None _ G FW Fwf FEv Q2 FS FO).
    apply (ModeZ_intro_close c s1 _ _ (zflush_closes z) E1 Q3 P1); [rewrite Q0, ZC; symmetry; exact WC1|].
    apply LiveZ_closed; assumption. }
  destruct Hcase as [->|[(EC & ->)|(EC & -> & V)]].
  { inversion H; subst e s'. apply (Fail WBadOpCode I eq_refl). }
  { inversion H; subst e s'. apply (Fail WCloseSent I eq_refl). }
  clear Fail. rewrite EC in E1.
  unfold new_mw in H. cbv beta iota zeta in H.
  set (n := N.min (cap c) (blen d)) in *.
  set (m := {| m_id := nextid s1; m_buf := []; m_ftype := ty; m_compress := false; m_err := None |}
             <| m_buf := takeN n d |>) in *.
  set (s2 := s1 <| nextid := S (nextid s1) |> <| cur := None |>) in *.
  assert (P2 : Pz s2) by (destruct P1; constructor; assumption).
  assert (M : mwz c m).
  { split; [reflexivity|]. change (m_buf m) with (takeN n d). rewrite blen_takeN. subst n. lia. }
  assert (O : ZOpen ty false (takeN n d) None m) by (left; auto).
  assert (Sx : small (dropN n d)) by (unfold small in *; rewrite blen_dropN; lia).
  assert (Hex : w_server c = false -> dropN n d = []) by (rewrite ES; discriminate).
  destruct (flush_final_openZ c (dropN n d) m s2 e s' ty false (takeN n d) None HCap P2 E1 M V
              (fun X => False_ind _ (Bool.diff_false_true X)) O Hex Sx H) as (P' & A' & C' & R).
  rewrite takeN_app_dropN in R.
  assert (FC' : fl_closed s') by (unfold fl_closed; rewrite (aux_fl _ _ A'); exact FC1).
  assert (WC' : wcomp s' = wcomp s) by (rewrite (aux_wcomp _ _ A'); exact WC1).
  destruct (is_control_ty ty && (125 <? blen d)).
  + destruct R as (-> & RW & RE & _).
    destruct (zstep_msg (w_negotiated c) z ty d ic wc cc (e_werr (Some WInvalidControl)) D (e_werr_ntr (Some WInvalidControl) I)) as (Q1 & Q0 & Q2 & Q3).
    rewrite e_werr_some in Q2, Q3. cbn [andb] in Q3. rewrite app_nil_r in Q2. rewrite orb_false_r, EC in Q3.
    exists (fs ++ fr). apply (GZ_ext c s fs z s' _ fr evs None (zflush_out z ic) G); [rewrite RW; exact FW|exact Fwf|exact FEv|exact Q2|exact FS|exact FO|].
    apply ModeZ_intro_live; [exact RE|exact Q3|exact P'|rewrite Q0, ZC; symmetry; exact WC'|].
    apply LiveZ_closed; assumption.
  + destruct R as (-> & RE & f & ev & Rwf & RW & REv & RS).
    destruct (zstep_msg (w_negotiated c) z ty d ic wc cc (e_werr None) D (e_werr_ntr None I)) as (Q1 & Q0 & Q2 & Q3).
    rewrite e_werr_zero in Q2, Q3. cbn [andb] in Q3. rewrite EC, CF0 in *. cbn [orb] in Q3.
    rewrite <- app_assoc in Q2.
    exists (fs ++ (fr ++ [f])). apply (GZ_ext c s fs z s' _ (fr ++ [f]) (evs ++ [ev]) None (zflush_out z ic ++ [(mk_sent ty false d, concat wc ++ concat cc)]) G).
    * rewrite RW. change (wire s2) with (wire s1). rewrite FW, encode_frames_app, <- app_assoc.
      cbn [encode_frames flat_map]. rewrite app_nil_r. reflexivity.
    * apply Forall_app; split; [exact Fwf|constructor; [exact Rwf|constructor]].
    * apply (events_from_seq _ fr [f] evs None [ev] None FEv REv).
    * exact Q2.
    * rewrite !map_app, FS. cbn [map]. rewrite RS, zwire_plain. reflexivity.
    * apply Forall_app; split; [exact FO|constructor; [apply zstr_ok_plain|constructor]].
    * apply (ModeZ_intro_close c s' _ _ (ty =? 8) RE Q3 P'); [rewrite Q0, ZC; symmetry; exact WC'|].
      apply LiveZ_closed; assumption.
Qed.

Lemma zstep_msg_next ng z ty d ic wc cc r : (r =? 0) = false ->
  zstep ng z (WMessage ty d ic wc cc) r = zstep ng z (WNext ty ic) r.
Proof. intros H. unfold zstep. rewrite H. reflexivity. Qed.

Lemma zstep_msg_write ng z ty d ic wc cc r : (r =? 0) = false -> ntrN r ->
  zstep ng z (WMessage ty d ic wc cc) r = zstep ng (zstep ng z (WNext ty ic) 0) (WWrite d wc) r.
Proof.
  intros H HR. unfold ntrN in HR. unfold zstep, zdead. rewrite H, HR. cbn [N.eqb orb].
  destruct z as [[[[[t c] d0] str]|] zc out dd]; cbn [z_open z_comp z_out z_dead];
    repeat match goal with |- context [if ?b then _ else _] => destruct b end;
    cbn [z_open z_comp z_out z_dead]; reflexivity.
Qed.

Lemma zstep_msg_close ng z ty d ic wc cc r : ntrN r ->
  zstep ng z (WMessage ty d ic wc cc) r =
  zstep ng (zstep ng (zstep ng z (WNext ty ic) 0) (WWrite d wc) 0) (WClose cc) r.
Proof.
  intros HR. unfold ntrN in HR. unfold zstep, zdead. rewrite HR. cbn [N.eqb orb].
  destruct z as [[[[[t c] d0] str]|] zc out dd]; cbn [z_open z_comp z_out z_dead];
    repeat match goal with |- context [if ?b then _ else _] => destruct b end;
    cbn [z_open z_comp z_out z_dead andb List.app]; reflexivity.
Qed.

Lemma message_slow_stepZ c ty d ic wc cc s fs z e s' : capok c -> 0 < cap c ->
  small d -> Forall small ic -> Forall small wc -> Forall small cc ->
  tail_at s ic -> (w_negotiated c && wcomp s && is_data_ty ty = true -> tail_ok cc) ->
  w_server c && (negb (w_negotiated c) || negb (wcomp s)) = false ->
  GZ c s fs z -> werr s = None ->
  write_message c ty d ic wc cc s = (e, s') ->
  exists fs', GZ c s' fs' (zstep (w_negotiated c) z (WMessage ty d ic wc cc) (e_werr e)).
Proof.
  intros HCap HPos HS HSi HSw HSc HTi HTc HF G HE H.
  destruct (ModeZ_live c s _ z HE (gz_mode _ _ _ _ G)) as (D & P & ZC & L).
  unfold write_message in H. rewrite HF in H.
  destruct (next_writer c ty ic s) as [e1 s1] eqn:EN.
  destruct (next_stepZ c ty ic s fs z e1 s1 HCap HPos HSi HTi G HE EN) as (fs1 & G1).
  destruct (next_writer_liveZ c ty ic s (acc_of fs) z e1 s1 HCap HPos HSi HTi P HE L EN) as (P1 & E1 & WC1 & _ & R).
  destruct e1 as [e1|].
  { inversion H; subst e s'. rewrite zstep_msg_next by apply e_werr_some. exists fs1. exact G1. }
  destruct R as [((e0 & X & _) & _)|(EC & _ & V & _)]; [discriminate X|].
  rewrite EC in E1. cbn [e_werr] in G1.
  set (z1 := zstep (w_negotiated c) z (WNext ty ic) 0) in *.
  destruct (zstep_next (w_negotiated c) z ty ic 0 D eq_refl) as (N1 & N0 & N2 & N3). fold z1 in N1, N0, N2, N3.
  cbn [N.eqb] in N1.
  destruct (app_write c false d wc s1) as [e2 s2] eqn:EW.
  destruct (app_write_stepZ c s1 fs1 z1 false d wc e2 s2 HCap HPos HS HSw G1 E1 EW) as (Hn2 & fs2 & G2).
  cbv iota in G2.
  destruct e2 as [e2|].
  { inversion H; subst e s'. rewrite zstep_msg_write; [exists fs2; exact G2|apply e_werr_some|apply (e_werr_ntr (Some e2) Hn2)]. }
  cbn [e_werr] in G2.
  set (z2 := zstep (w_negotiated c) z1 (WWrite d wc) 0) in *.
  destruct (zstep_write (w_negotiated c) z1 (WWrite d wc) d wc 0 (conj eq_refl eq_refl) eq_refl) as (W1 & W2 & W0 & W3).
  fold z2 in W1, W2, W0, W3. rewrite N1 in W3. cbn [N.eqb] in W3.
  assert (E2 : werr s2 = None).
  { pose proof (gz_mode _ _ _ _ G2) as X. unfold ModeZ in X. destruct (werr s2); [|reflexivity].
    rewrite W2, N3, EC in X. discriminate X. }
  assert (HT2 : tail_at s2 cc).
  { intros [X Y]. apply HTc.
    destruct (ModeZ_live c s2 _ z2 E2 (gz_mode _ _ _ _ G2)) as (_ & _ & _ & L2).
    unfold LiveZ in L2. destruct (cur s2) as [m2|]; [|contradiction Y; reflexivity].
    destruct L2 as (_ & _ & _ & t & cf & acc & str & HO & _ & CF & _).
    rewrite W3 in HO. assert (Hcf : w_negotiated c && z_comp z && is_data ty = cf) by congruence.
    rewrite <- ZC. change (is_data_ty ty) with (is_data ty). rewrite Hcf, <- CF. exact X. }
  destruct (close_stepZ c cc s2 fs2 z2 e s' HCap HPos HSc HT2 G2 E2 H) as (Hn3 & fs3 & G3).
  rewrite (zstep_msg_close (w_negotiated c) z ty d ic wc cc (e_werr e) (e_werr_ntr e Hn3)).
  exists fs3. exact G3.
Qed.

(* ReadFrom on a compressed writer is not part of the model (io.Copy would fall back to Write
   calls): excluded while a compressed writer is current *)
Definition op_rf_ok_at (s:wst) (o:wop) : Prop :=
  match o with WReadFrom _ => ~ flate_cur s | _ => True end.

Lemma wstep_GZ c s fs z o :
  capok c -> 0 < cap c -> op_small o -> op_not_prepared o ->
  (werr s = None -> op_flate_ok_at c s o) -> (werr s = None -> op_rf_ok_at s o) ->
  GZ c s fs z ->
  exists fs', GZ c (snd (wstep c s o)) fs' (zstep (w_negotiated c) z o (e_werr_N (fst (wstep c s o)))).
Proof.
  intros HCap HPos HS HNP HFO HRF G. unfold e_werr_N.
  destruct (werr s) as [x|] eqn:HE.
  - (* a close frame went out: nothing more is written, every sending call fails *)
    assert (Dd : dead s) by (unfold dead; congruence).
    destruct (wstep_dead c s o Dd) as [F1 F2].
    pose proof (WriterStateP.after_error_calls_fail c s o x HE) as AF.
    assert (AD : z_dead z = true).
    { pose proof (gz_mode _ _ _ _ G) as X. unfold ModeZ in X. rewrite HE in X. exact X. }
    destruct (zstep_deadmode (w_negotiated c) z o (e_werr (fst (wstep c s o))) AD) as [Q1 Q2].
    { destruct o; try exact I; rewrite e_werr_zero;
        (destruct (fst (wstep c s _)); [reflexivity|contradiction]). }
    exists fs. apply (GZ_same c s fs z _ _ G F2 Q2). unfold ModeZ. rewrite F1, HE. exact Q1.
  - specialize (HFO eq_refl). specialize (HRF eq_refl).
    destruct (ModeZ_live c s _ z HE (gz_mode _ _ _ _ G)) as (D & P & ZC & L).
    destruct o as [ty d ic wc cc|ty ic|d wc|d wc|ch|cc|ty d dl|dl|b|l|ty fr];
      cbn [wstep op_small op_not_prepared op_flate_ok_at op_rf_ok_at] in *.
    + destruct (write_message c ty d ic wc cc s) as [e s'] eqn:E. cbn [fst snd].
      destruct HS as (S1 & S2 & S3 & S4). destruct HFO as [T1 T2].
      destruct (w_server c && (negb (w_negotiated c) || negb (wcomp s))) eqn:EF.
      * apply (message_fast_stepZ c ty d ic wc cc s fs z e s' HCap HPos S1 S2 T1 EF G HE E).
      * apply (message_slow_stepZ c ty d ic wc cc s fs z e s' HCap HPos S1 S2 S3 S4 T1 T2 EF G HE E).
    + destruct (next_writer c ty ic s) as [e s'] eqn:E. cbn [fst snd].
      apply (next_stepZ c ty ic s fs z e s' HCap HPos HS HFO G HE E).
    + destruct (app_write c false d wc s) as [e s'] eqn:E. cbn [fst snd]. destruct HS as [S1 S2].
      apply (app_write_stepZ c s fs z false d wc e s' HCap HPos S1 S2 G HE E).
    + destruct (app_write c true d wc s) as [e s'] eqn:E. cbn [fst snd]. destruct HS as [S1 S2].
      apply (app_write_stepZ c s fs z true d wc e s' HCap HPos S1 S2 G HE E).
    + destruct (app_read_from c ch s) as [e s'] eqn:E. cbn [fst snd].
      apply (app_read_from_stepZ c s fs z ch e s' HCap HPos HRF G HE E).
    + destruct (app_close c cc s) as [e s'] eqn:E. cbn [fst snd].
      apply (close_stepZ c cc s fs z e s' HCap HPos HS HFO G HE E).
    + destruct (write_control c ty d dl s) as [e s'] eqn:E. cbn [fst snd].
      apply (control_stepZ c s fs z ty d dl e s' G HE E).
    + cbn [fst snd]. exists fs. apply (quiet_stepZ c s fs z _ (WSetDeadline dl) _ G HE); try reflexivity; try exact I.
      intros X; destruct X; constructor; assumption.
    + cbn [fst snd]. exists fs. apply (quiet_stepZ c s fs z _ (WEnableCompression b) _ G HE); try reflexivity; try exact I.
      intros X; destruct X; constructor; assumption.
    + exists fs. destruct (valid_level l); cbn [fst snd].
      * apply (quiet_stepZ c s fs z _ (WSetLevel l) _ G HE); try reflexivity; try exact I.
        intros X; destruct X; constructor; assumption.
      * apply (quiet_stepZ c s fs z _ (WSetLevel l) _ G HE); try reflexivity; try exact I. auto.
    + contradiction.
Qed.

(* ------------------------------------------------------------------------------------------ *)
(* programs                                                                                   *)
(* ------------------------------------------------------------------------------------------ *)
Fixpoint rf_good (c:wcfg) (s:wst) (ops:list wop) : Prop :=
  match ops with
  | [] => True
  | o :: r => op_rf_ok_at s o /\ rf_good c (snd (wstep c s o)) r
  end.

(* the program with the results the calls actually returned *)
Definition zprog (c:wcfg) (s:wst) (ops:list wop) : list (wop * N) :=
  combine ops (map e_werr_N (fst (wrun c s ops))).

Lemma GZ_not_flate c s fs z : w_negotiated c = false -> GZ c s fs z -> werr s = None -> ~ flate_cur s.
Proof.
  intros HN G HE [X Y]. destruct (ModeZ_live c s _ z HE (gz_mode _ _ _ _ G)) as (_ & _ & _ & L).
  unfold LiveZ in L. destruct (cur s) as [m|]; [|apply Y; reflexivity].
  destruct L as (_ & _ & _ & t & cf & acc & str & _ & _ & CF & R). rewrite X in CF. subst cf.
  destruct R as (NG & _). congruence.
Qed.

Lemma wrun_GZ c ops : capok c -> 0 < cap c -> forall s fs z,
  Forall op_small ops -> Forall op_not_prepared ops ->
  (w_negotiated c = false \/ (flate_good c s ops /\ rf_good c s ops)) -> GZ c s fs z ->
  exists fs', GZ c (snd (wrun c s ops)) fs' (zrun (w_negotiated c) z (zprog c s ops)).
Proof.
  intros HCap HPos. induction ops as [|o r IH]; intros s fs z HS HP HG G.
  - exists fs. exact G.
  - inversion HS as [|? ? S1 S2]; subst. inversion HP as [|? ? P1 P2]; subst.
    unfold zprog in *. cbn [wrun] in *.
    assert (HF : werr s = None -> op_flate_ok_at c s o).
    { intros HE. destruct HG as [HN|[HG _]]; [|apply HG].
      pose proof (GZ_not_flate c s fs z HN G HE) as NF.
      assert (T : forall cc, tail_at s cc) by (intros cc X; contradiction).
      destruct o; cbn; auto. split; [apply T|]. rewrite HN. cbn. intros X; discriminate X. }
    assert (HR : werr s = None -> op_rf_ok_at s o).
    { intros HE. destruct HG as [HN|[_ HG]]; [|apply HG].
      destruct o; cbn; auto. apply (GZ_not_flate c s fs z HN G HE). }
    assert (HG' : w_negotiated c = false \/ (flate_good c (snd (wstep c s o)) r /\ rf_good c (snd (wstep c s o)) r)).
    { destruct HG as [HN|[HG1 HG2]]; [left; exact HN|right; split; [apply HG1|apply HG2]]. }
    pose proof (wstep_GZ c s fs z o HCap HPos S1 P1 HF HR G) as ST.
    destruct (wstep c s o) as [e s1] eqn:E1. cbn [fst snd] in ST, HG'.
    specialize (IH s1).
    destruct (wrun c s1 r) as [es s2] eqn:E2. cbn [fst snd map combine zrun] in *.
    destruct ST as (fs1 & G1).
    apply (IH fs1 _ S2 P2 HG' G1).
Qed.

Lemma init_GZ c ks : Forall len4 ks -> GZ c (init_wst c ks None) [] zst0.
Proof.
  intros HK. constructor.
  - reflexivity.
  - constructor.
  - reflexivity.
  - constructor.
  - unfold ModeZ. cbn [init_wst werr]. split; [reflexivity|]. split.
    + constructor; try reflexivity; [exact HK|constructor].
    + split; [reflexivity|]. unfold LiveZ. cbn [init_wst cur]. split; [reflexivity|]. split; [reflexivity|].
      intros f X. discriminate X.
Qed.

Lemma map_combine_fst {A B C} (g:A -> C) (l:list A) : forall (r:list B),
  map (fun x : A * B => (g (fst x), snd x)) (combine l r) = combine (map g l) r.
Proof.
  induction l as [|a l IH]; intros [|b r]; cbn [combine map fst snd]; try reflexivity. rewrite IH. reflexivity.
Qed.

(* the annotated abstract writer run on the program with its results, and its erasure *)
Lemma zrun_arun ng ops res :
  zerase (zrun ng zst0 (combine ops res)) = arun ng ast0 (combine (map wop_aop ops) res).
Proof. rewrite zrun_erase, map_combine_fst. reflexivity. Qed.

(* what each output message looks like on the wire *)
Definition zrel (xs:sent * bytes) (y:sent) : Prop :=
  s_ty y = s_ty (fst xs) /\ s_comp y = s_comp (fst xs) /\ s_complete y = true /\
  (s_comp (fst xs) = false -> s_data y = s_data (fst xs)) /\
  (s_comp (fst xs) = true -> s_data y ++ flate_tail = snd xs).

Lemma zwire_zrel l : Forall zstr_ok l -> Forall (fun x : sent * bytes => s_complete (fst x) = true) l ->
  Forall2 zrel l (map zwire l).
Proof.
  induction l as [|[x str] l IH]; intros H1 H2; cbn [map]; [constructor|].
  inversion H1 as [|? ? A1 A2]; subst. inversion H2 as [|? ? B1 B2]; subst.
  constructor; [|apply IH; assumption].
  unfold zrel, zwire, zstr_ok in *. cbn [fst snd] in *. destruct (s_comp x) eqn:EC.
  - destruct (A1 eq_refl) as (z0 & ->). rewrite cut4_tail. cbn [mk_sent s_ty s_comp s_data s_complete].
    repeat split; auto. intros X; discriminate X.
  - rewrite EC. repeat split; auto. intros X; discriminate X.
Qed.

Lemma zstep_complete ng z o r : Forall (fun x : sent * bytes => s_complete (fst x) = true) (z_out z) ->
  Forall (fun x : sent * bytes => s_complete (fst x) = true) (z_out (zstep ng z o r)).
Proof.
  intros H. destruct z as [[[[[t c] d] str]|] zc out dd]; unfold zstep, zdead, mk_sent;
    destruct ((r =? 6) || (r =? 7)); destruct (r =? 0); destruct o; destruct dd;
    cbn [z_open z_comp z_out z_dead andb] in *;
    repeat match goal with |- context [if ?b then _ else _] => destruct b end;
    cbn [z_open z_comp z_out z_dead andb]; try exact H;
    repeat (apply Forall_app; split; [|constructor; [reflexivity|constructor]]); exact H.
Qed.

Lemma zrun_complete ng l : forall z, Forall (fun x : sent * bytes => s_complete (fst x) = true) (z_out z) ->
  Forall (fun x : sent * bytes => s_complete (fst x) = true) (z_out (zrun ng z l)).
Proof.
  induction l as [|[o r] l IH]; intros z H; cbn [zrun]; [exact H|]. apply IH. apply zstep_complete. exact H.
Qed.

(* C02 second half with compression: the events carried by the frames on the wire are the
   output of the annotated abstract writer seen through [zwire]: a message sent uncompressed
   appears as it is, a message sent compressed (RSV1) carries its oracle stream minus the final
   00 00 ff ff.  [map fst (z_out Z)] is the output of the abstract writer of Spec/WriterSpec.v
   (types, order, compressed flags, plaintexts).  Last clause: no close sent and nothing left open
   => the wire ends at a message boundary.  No hypothesis on [w_negotiated c]. *)
Theorem wire_events_compressed :
  forall c ks ops fs,
    14 < w_bufsize c -> w_bufsize c < 2^62 ->
    Forall (fun k => length k = 4%nat) ks -> Forall op_small ops -> no_prepared ops ->
    (w_negotiated c = false \/
     (flate_good c (init_wst c ks None) ops /\ rf_good c (init_wst c ks None) ops)) ->
    let r := wrun c (init_wst c ks None) ops in
    let res := map e_werr_N (fst r) in
    let A := arun (w_negotiated c) ast0 (combine (map wop_aop ops) res) in
    let Z := zrun (w_negotiated c) zst0 (combine ops res) in
    Forall wf_frame fs -> wire_of (evs (snd r)) = encode_frames fs ->
    zerase Z = A /\
    map sent_of_event (events_of fs) = map zwire (z_out Z) /\
    Forall zstr_ok (z_out Z) /\
    (a_dead A = false -> a_open A = None -> snd (events_from None fs) = None).
Proof.
  intros c ks ops fs HB1 HB2 HK HS HP HG r res A Z Hwf HW.
  destruct (wrun_GZ c ops (capok_of c HB2) (cap_pos c HB1) _ [] zst0 HS HP HG (init_GZ c ks HK)) as (fs0 & [G1 G2 G3 G4 G5]).
  unfold zprog in *. fold r res Z in G1, G3, G4, G5. unfold wire in G1. rewrite HW in G1.
  rewrite (encode_frames_inj fs fs0 Hwf G2 G1).
  assert (EA : zerase Z = A) by apply zrun_arun.
  split; [exact EA|]. split; [exact G3|]. split; [exact G4|].
  intros HD HO. rewrite <- EA in HD, HO. cbn [zerase a_dead a_open] in HD, HO.
  unfold ModeZ in G5. destruct (werr (snd r)).
  - congruence.
  - destruct G5 as (_ & _ & _ & L). unfold LiveZ in L. destruct (Writer.cur (snd r)).
    + destruct L as (_ & _ & _ & t & cf & acc & str & X & _). rewrite X in HO. discriminate HO.
    + apply L.
Qed.

(* the same, relationally, against the abstract writer's own output *)
Corollary wire_events_compressed_rel :
  forall c ks ops fs,
    14 < w_bufsize c -> w_bufsize c < 2^62 ->
    Forall (fun k => length k = 4%nat) ks -> Forall op_small ops -> no_prepared ops ->
    (w_negotiated c = false \/
     (flate_good c (init_wst c ks None) ops /\ rf_good c (init_wst c ks None) ops)) ->
    let r := wrun c (init_wst c ks None) ops in
    let res := map e_werr_N (fst r) in
    let A := arun (w_negotiated c) ast0 (combine (map wop_aop ops) res) in
    let Z := zrun (w_negotiated c) zst0 (combine ops res) in
    Forall wf_frame fs -> wire_of (evs (snd r)) = encode_frames fs ->
    map fst (z_out Z) = a_out A /\
    Forall2 zrel (z_out Z) (map sent_of_event (events_of fs)).
Proof.
  intros c ks ops fs HB1 HB2 HK HS HP HG r res A Z Hwf HW.
  destruct (wire_events_compressed c ks ops fs HB1 HB2 HK HS HP HG Hwf HW) as (EA & EV & ST & _).
  fold r res A Z in EA, EV, ST. split; [rewrite <- EA; reflexivity|].
  rewrite EV. apply zwire_zrel; [exact ST|]. apply zrun_complete. constructor.
Qed.

(* together with the first half of C02 (well-formed framing, RSV1 only where allowed) *)
Corollary wire_wellformed_and_events_compressed :
  forall c ks ops,
    14 < w_bufsize c -> w_bufsize c < 2^62 ->
    Forall (fun k => length k = 4%nat) ks -> Forall op_small ops -> no_prepared ops ->
    (w_negotiated c = false \/
     (flate_good c (init_wst c ks None) ops /\ rf_good c (init_wst c ks None) ops)) ->
    let r := wrun c (init_wst c ks None) ops in
    let res := map e_werr_N (fst r) in
    let A := arun (w_negotiated c) ast0 (combine (map wop_aop ops) res) in
    let Z := zrun (w_negotiated c) zst0 (combine ops res) in
    exists fs, wire_of (evs (snd r)) = encode_frames fs /\ Forall wf_frame fs /\
      wf_wire (negb (w_server c)) (w_negotiated c) (map (fun f => (f, true)) fs) = true /\
      zerase Z = A /\
      map sent_of_event (events_of fs) = map zwire (z_out Z) /\
      Forall zstr_ok (z_out Z) /\
      (a_dead A = false -> a_open A = None -> snd (events_from None fs) = None).
Proof.
  intros c ks ops HB1 HB2 HK HS HP HG r res A Z.
  assert (HG' : w_negotiated c = false \/ flate_good c (init_wst c ks None) ops) by (destruct HG as [X|[X _]]; auto).
  destruct (wire_wellformed_negotiated c ks ops HB2 HK HS HP HG') as (fs & A0 & B0 & C0).
  exists fs. split; [exact A0|]. split; [exact B0|]. split; [exact C0|].
  apply (wire_events_compressed c ks ops fs HB1 HB2 HK HS HP HG B0 A0).
Qed.

(* the model's connection state against the abstract writer's flags *)
Theorem abstract_flags_exact_compressed :
  forall c ks ops,
    14 < w_bufsize c -> w_bufsize c < 2^62 ->
    Forall (fun k => length k = 4%nat) ks -> Forall op_small ops -> no_prepared ops ->
    (w_negotiated c = false \/
     (flate_good c (init_wst c ks None) ops /\ rf_good c (init_wst c ks None) ops)) ->
    let r := wrun c (init_wst c ks None) ops in
    let A := arun (w_negotiated c) ast0 (combine (map wop_aop ops) (map e_werr_N (fst r))) in
    (a_dead A = true <-> werr (snd r) <> None) /\
    (a_dead A = false -> (a_open A = None <-> cur (snd r) = None)) /\
    (a_dead A = false -> a_comp A = wcomp (snd r)).
Proof.
  intros c ks ops HB1 HB2 HK HS HP HG r A.
  destruct (wrun_GZ c ops (capok_of c HB2) (cap_pos c HB1) _ [] zst0 HS HP HG (init_GZ c ks HK)) as (fs0 & [G1 G2 G3 G4 G5]).
  unfold zprog in G5. fold r in G5.
  pose proof (zrun_arun (w_negotiated c) ops (map e_werr_N (fst r))) as EA. fold A in EA.
  set (Z := zrun (w_negotiated c) zst0 (combine ops (map e_werr_N (fst r)))) in *.
  rewrite <- EA. cbn [zerase a_dead a_open a_comp]. unfold ModeZ in G5.
  destruct (werr (snd r)) as [x|].
  - split; [split; [discriminate|intros _; exact G5]|]. split; congruence.
  - destruct G5 as (D & _ & ZC & L). split; [split; [congruence|intros X; contradiction X; reflexivity]|].
    split; [|intros _; exact ZC].
    intros _. unfold LiveZ in L. destruct (cur (snd r)) as [m|].
    + destruct L as (_ & _ & _ & t & cf & acc & str & X & _). rewrite X. split; discriminate.
    + destruct L as (_ & X & _). rewrite X. split; reflexivity.
Qed.

(* ------------------------------------------------------------------------------------------ *)
(* without negotiated compression nothing is compressed: WriterEventsP's equation is the      *)
(* instance [w_negotiated c = false] of the theorem above                                     *)
(* ------------------------------------------------------------------------------------------ *)
Definition zplain (z:zst) : Prop :=
  Forall (fun x : sent * bytes => s_comp (fst x) = false) (z_out z) /\
  match z_open z with Some (_, c, _, _) => c = false | None => True end.

Lemma zstep_plain z o r : zplain z -> zplain (zstep false z o r).
Proof.
  intros [H1 H2]. destruct z as [[[[[t c] d] str]|] zc out dd]; cbn [z_open z_out] in H1, H2; try subst c;
    unfold zplain, zstep, zdead, mk_sent;
    destruct ((r =? 6) || (r =? 7)); destruct (r =? 0); destruct o; destruct dd;
    cbn [z_open z_comp z_out z_dead andb];
    repeat match goal with |- context [if ?b then _ else _] => destruct b end;
    cbn [z_open z_comp z_out z_dead andb]; (split; [|auto]); try exact H1;
    repeat (apply Forall_app; split; [|constructor; [reflexivity|constructor]]); exact H1.
Qed.

Lemma zrun_plain l : forall z, zplain z -> zplain (zrun false z l).
Proof. induction l as [|[o r] l IH]; intros z H; cbn [zrun]; [exact H|]. apply IH. apply zstep_plain. exact H. Qed.

Lemma zwire_plain_all l : Forall (fun x : sent * bytes => s_comp (fst x) = false) l -> map zwire l = map fst l.
Proof.
  induction 1 as [|x l Hx _ IH]; [reflexivity|]. cbn [map]. rewrite IH. unfold zwire. rewrite Hx. reflexivity.
Qed.

Corollary wire_events_uncompressed_instance :
  forall c ks ops fs,
    14 < w_bufsize c -> w_bufsize c < 2^62 -> w_negotiated c = false ->
    Forall (fun k => length k = 4%nat) ks -> Forall op_small ops -> no_prepared ops ->
    let r := wrun c (init_wst c ks None) ops in
    let prog := combine (map wop_aop ops) (map e_werr_N (fst r)) in
    Forall wf_frame fs -> wire_of (evs (snd r)) = encode_frames fs ->
    map sent_of_event (events_of fs) = a_out (arun false ast0 prog).
Proof.
  intros c ks ops fs HB1 HB2 HN HK HS HP r prog Hwf HW.
  destruct (wire_events_compressed c ks ops fs HB1 HB2 HK HS HP (or_introl HN) Hwf HW) as (EA & EV & _).
  fold r in EA, EV. rewrite HN in EA, EV. fold prog in EA. rewrite EV, <- EA. cbn [zerase a_out].
  apply zwire_plain_all. apply zrun_plain. split; [constructor|exact I].
Qed.

(* ------------------------------------------------------------------------------------------ *)
(* reading the annotated writer: programs made of successful WriteMessage calls only           *)
(* ------------------------------------------------------------------------------------------ *)
Definition msg_entry (ng:bool) (o:wop) : list (sent * bytes) :=
  match o with
  | WMessage ty d _ wc cc => [(mk_sent ty (ng && is_data ty) d, concat wc ++ concat cc)]
  | _ => []
  end.

(* one output message per call; the stream recorded for it is what the compressor emitted
   during its Write followed by what it emitted during its Close *)
Lemma zrun_messages_only ng ops : Forall (fun o => match o with WMessage _ _ _ _ _ => True | _ => False end) ops ->
  forall z, z_open z = None -> z_comp z = true ->
  z_out (zrun ng z (combine ops (repeat 0 (length ops)))) = z_out z ++ flat_map (msg_entry ng) ops.
Proof.
  induction 1 as [|o ops Ho _ IH]; intros z HO HC; cbn [length repeat combine zrun flat_map].
  - rewrite app_nil_r. reflexivity.
  - destruct o as [ty d ic wc cc| | | | | | | | | |]; try contradiction.
    destruct z as [zo zc out dd]. cbn [z_open z_comp] in HO, HC. subst zo zc.
    rewrite IH.
    + unfold zstep, zdead. cbn [N.eqb orb z_open z_comp z_out z_dead andb msg_entry].
      rewrite andb_true_r. destruct (ty =? 8); cbn [z_out]; rewrite <- app_assoc; reflexivity.
    + unfold zstep, zdead. cbn [N.eqb orb z_open z_comp z_out z_dead andb]. destruct (ty =? 8); reflexivity.
    + unfold zstep, zdead. cbn [N.eqb orb z_open z_comp z_out z_dead andb]. destruct (ty =? 8); reflexivity.
Qed.

(* ------------------------------------------------------------------------------------------ *)
(* an instance; the side conditions on the oracle are necessary                               *)
(* ------------------------------------------------------------------------------------------ *)
Require WS.Spec.Inflate.

Definition zex_cfg (sv:bool) (n:N) : wcfg := {| w_server := sv; w_bufsize := n; w_pooled := false; w_negotiated := true |}.
(* the stored-block deflater of Spec/Inflate.v as the compressor: what it emits before the sync
   marker ([zblocks]) during Write, the marker 00 00 00 ff ff during Close *)
Definition zblocks (d:bytes) : bytes := firstn (length (Inflate.deflate0 d) - 5) (Inflate.deflate0 d).
Definition zex_hello : bytes := [104;101;108;108;111].
Definition zex_ops : list wop :=
  [WNext 1 []; WWrite zex_hello [firstn 2 (zblocks zex_hello); skipn 2 (zblocks zex_hello)];
   WControl 9 [9] 0; WClose [Inflate.sync_marker];
   WEnableCompression false; WMessage 2 [7;7;7;7] [] [] [];
   WEnableCompression true; WMessage 1 [104;105] [] [zblocks [104;105]] [Inflate.sync_marker]].

Ltac flate_good_tac :=
  repeat match goal with
  | |- _ /\ _ => split
  | |- True => exact I
  | |- tail_at _ _ => let X := fresh in intros [X _]; vm_compute in X; discriminate X
  | |- tail_at _ _ => intros _; eexists; vm_compute; reflexivity
  | |- _ -> tail_ok _ => intros _; eexists; vm_compute; reflexivity
  | |- _ -> tail_ok _ => let X := fresh in intros X; vm_compute in X; discriminate X
  end.

Lemma zex_good : flate_good (zex_cfg false 17) (init_wst (zex_cfg false 17) (repeat [1;2;3;4] 20) None) zex_ops /\
                 rf_good (zex_cfg false 17) (init_wst (zex_cfg false 17) (repeat [1;2;3;4] 20) None) zex_ops.
Proof.
  split.
  - unfold zex_ops. cbn [flate_good op_flate_ok_at]. flate_good_tac.
    + exists [0]. reflexivity.
    + exists [0]. reflexivity.
  - unfold zex_ops. cbn [rf_good op_rf_ok_at]. tauto.
Qed.

(* a client, 3 bytes of buffer: a compressed text message written through NextWriter (fragmented,
   a ping in between), an uncompressed binary message (compression switched off), a compressed
   WriteMessage: on the wire RSV1 exactly on the first frames of the two compressed messages,
   whose payloads are the stored-block streams without the final 00 00 ff ff *)
Example events_instance_compressed :
  let c := zex_cfg false 17 in
  let ks := repeat [1;2;3;4] 20 in
  let r := wrun c (init_wst c ks None) zex_ops in
  let A := arun true ast0 (combine (map wop_aop zex_ops) (map e_werr_N (fst r))) in
  exists fs, wire_of (evs (snd r)) = encode_frames fs /\
    map (fun f => (opcode f, rsv f)) fs = [(1,4); (9,0); (0,0); (0,0); (0,0); (2,0); (0,0); (1,4); (0,0); (0,0)] /\
    a_out A = [the_sent 9 [9]; mk_sent 1 true zex_hello; mk_sent 2 false [7;7;7;7]; mk_sent 1 true [104;105]] /\
    map sent_of_event (events_of fs) =
      [the_sent 9 [9]; mk_sent 1 true (Inflate.trunc4 (Inflate.deflate0 zex_hello));
       mk_sent 2 false [7;7;7;7]; mk_sent 1 true (Inflate.trunc4 (Inflate.deflate0 [104;105]))].
Proof.
  cbv zeta.
  destruct (wire_wellformed_and_events_compressed (zex_cfg false 17) (repeat [1;2;3;4] 20) zex_ops)
    as (fs & A0 & B0 & C0 & EA & EV & ST & BD).
  - vm_compute. reflexivity.
  - vm_compute. reflexivity.
  - repeat constructor.
  - repeat constructor; unfold small; vm_compute; reflexivity.
  - repeat constructor.
  - right. exact zex_good.
  - exists fs. split; [exact A0|]. split.
    + apply (f_equal parse_frames) in A0. rewrite (parse_frames_encode fs B0) in A0.
      vm_compute in A0. inversion A0 as [X]. clear - X.
      repeat (destruct fs as [|? fs]; [discriminate X|]; cbn [map] in X; injection X as <- X).
      destruct fs; [reflexivity|discriminate X].
    + split; [vm_compute; reflexivity|]. rewrite EV. vm_compute. reflexivity.
Qed.

(* (1) a compressor whose Close-time output does not end with 00 00 ff ff: Close reports an error
   (so the abstract writer counts the message as not sent), the frames already flushed stay on
   the wire and the next message is glued to them: [flate_good] is necessary *)
Example flate_good_needed :
  let c := zex_cfg false 17 in
  let ks := repeat [1;2;3;4] 20 in
  let ops := [WNext 1 []; WWrite [1] [[1;2;3;4;5;6;7;8;9;10]]; WClose [[1;2;3;4]];
              WEnableCompression false; WMessage 2 [5] [] [] []] in
  let r := wrun c (init_wst c ks None) ops in
  let res := map e_werr_N (fst r) in
  let fs := map fst (fst (parse_frames (wire_of (evs (snd r))))) in
  res = [0; 0; 10; 0; 0] /\
  wire_of (evs (snd r)) = encode_frames fs /\
  z_out (zrun true zst0 (combine ops res)) = [(mk_sent 2 false [5], [])] /\
  map sent_of_event (events_of fs) = [mk_sent 1 true [1;2;3;4;5;6;7;8;9;5]].
Proof. cbv zeta. repeat split; vm_compute; reflexivity. Qed.

(* (2) ReadFrom on a compressed writer: the model (like the harness) does not drive the
   compressor through ReadFrom and reports an error without touching the writer, which the
   abstract writer reads as "message abandoned"; the later Close still sends the message:
   [rf_good] is necessary *)
Example rf_good_needed :
  let c := zex_cfg false 17 in
  let ks := repeat [1;2;3;4] 20 in
  let ops := [WNext 1 []; WReadFrom [[1]]; WClose [[1;0;0;255;255]]] in
  let r := wrun c (init_wst c ks None) ops in
  let res := map e_werr_N (fst r) in
  let fs := map fst (fst (parse_frames (wire_of (evs (snd r))))) in
  res = [0; 8; 0] /\
  wire_of (evs (snd r)) = encode_frames fs /\
  flate_good c (init_wst c ks None) ops /\
  z_out (zrun true zst0 (combine ops res)) = [] /\
  map sent_of_event (events_of fs) = [mk_sent 1 true [1]].
Proof.
  cbv zeta. split; [vm_compute; reflexivity|]. split; [vm_compute; reflexivity|].
  split; [|split; vm_compute; reflexivity].
  cbn [flate_good op_flate_ok_at]. flate_good_tac. exists [1]. reflexivity.
Qed.

Print Assumptions wire_events_compressed.
Print Assumptions wire_events_compressed_rel.
Print Assumptions wire_wellformed_and_events_compressed.
Print Assumptions abstract_flags_exact_compressed.
Print Assumptions zstep_erase.
Print Assumptions zrun_messages_only.
Print Assumptions wire_events_uncompressed_instance.
Print Assumptions events_instance_compressed.
Print Assumptions flate_good_needed.
Print Assumptions rf_good_needed.
