(* Non-vacuity and sanity checks by computation for CtlZ.v: a stream for a server that
   negotiated permessage-deflate -- a compressed text message ("Hello", stored block) in three
   fragments with a ping, an empty pong and a ping carrying RSV1 between the fragments; an
   uncompressed binary message; a compressed message; a trailing ping; then a close frame that
   itself carries RSV1 -- read with recording handlers and with default handlers.  The model's
   run (with the Spec inflate) agrees with what the theorems predict. *)
Require Import WS.Base.Bytes WS.gen.Consts WS.Spec.Frame WS.Spec.Conformance WS.Model.Bufio
  WS.Model.Reader WS.Proofs.BufioP WS.Proofs.FrameP.
Require Import WS.Proofs.ReaderP1 WS.Proofs.ReaderP2 WS.Proofs.ReaderP3 WS.Proofs.ReaderP WS.Proofs.ReaderBasicP WS.Proofs.CtlP.
Require Import WS.Proofs.ReaderZ1 WS.Proofs.ReaderZ2 WS.Proofs.ReaderZ3 WS.Proofs.ReaderFlateP WS.Proofs.CtlZ.
Require WS.Spec.Inflate.

Module CtlZExamples.
Definition k1 := [1;2;3;4]. Definition k2 := [9;8;7;6].
Definition hello : bytes := [72;101;108;108;111].
Definition zhello : bytes := Inflate.trunc4 (Inflate.deflate0 hello).
Definition zbye : bytes := Inflate.trunc4 (Inflate.deflate0 [98;121;101]).
Definition fsz : list frame :=
 [ mkf true 9 0 (Some k1) [104;105];
   mkf false 1 4 (Some k2) (firstn 4 zhello);          (* RSV1: compressed text message *)
   mkf true 10 0 (Some k1) [];
   mkf false 0 0 (Some k1) [];
   mkf true 9 4 (Some k2) [1;2;3];                     (* RSV1 on a control frame: tolerated *)
   mkf true 0 0 (Some k2) (skipn 4 zhello);
   mkf true 2 0 (Some k1) (repeat 7 200);              (* uncompressed, 16-bit length *)
   mkf true 1 4 (Some k1) zbye;
   mkf true 9 0 (Some k1) [5] ].
Definition cfgd : rcfg :=
  {| server := true; negotiated := true; custom_handlers := false; handler_fail := []; caps := [3;7] |}.
Definition cfgc (hf:list nat) : rcfg :=
  {| server := true; negotiated := true; custom_handlers := true; handler_fail := hf; caps := [3;7] |}.
Definition closez := mkf true 8 4 (Some k2) (be_enc 2 1000 ++ [111;107]).     (* close with RSV1 *)
Definition mkb (stream:bytes) : bufio :=
  mk_bufio 125 [] {| chunks := [firstn 5 stream; firstn 30 (skipn 5 stream); skipn 35 stream];
                     fault := EOther; glued := true |}.
Definition run c stream n := run_ops Inflate.inflate c (init_rst (mkb stream)) (repeat OReadMessage n).

Example fsz_conformant : conformant_framesZ (cfgc []) fsz.
Proof.
  split; [|split].
  - repeat (apply Forall_cons; [vm_compute; repeat split; reflexivity|]). apply Forall_nil.
  - vm_compute. reflexivity.
  - vm_compute. reflexivity.
Qed.

(* not acceptable without compression: the statements of CtlP.v say nothing about this stream *)
Example fsz_not_conformant_plain : seq_ok true false fsz = false.
Proof. vm_compute. reflexivity. Qed.

Example closez_valid : valid_closeZ cfgd closez.
Proof.
  split; [vm_compute; repeat split; reflexivity|]. split; [|split; [reflexivity|vm_compute; reflexivity]].
  unfold ctl_okZ. split; [right; split; reflexivity|]. split; [reflexivity|]. split; [left; reflexivity|].
  split; [reflexivity|]. vm_compute. discriminate.
Qed.

Example fsz_msgs :
  data_msgs (events_of fsz) = [(1, true, zhello); (2, false, repeat 7 200); (1, true, zbye)].
Proof. vm_compute. reflexivity. Qed.

(* recording handlers: the log is [stamps 0 (body fsz)]; the pong and the second ping arrive
   between fragments of the compressed message and carry its call index 0 *)
Example custom_run :
  let r := run (cfgc []) (encode_frames fsz ++ [1;2;3]) 3 in
  fst r = map (out_ofZ Inflate.inflate) (data_msgs (events_of fsz)) /\
  fst r = [RMsg 1 hello None; RMsg 2 (repeat 7 200) None; RMsg 1 [98;121;101] None] /\
  hlog (snd r) = stamps 0 (body fsz) /\
  hlog (snd r) = [HPing 0 [104;105]; HPong 0 []; HPing 0 [1;2;3]] /\
  wlog (snd r) = [].
Proof. vm_compute. repeat split; reflexivity. Qed.

(* recording handlers, stream ending in a close frame (with RSV1) *)
Example custom_close_run :
  let r := run (cfgc []) (encode_frames fsz ++ encode_frame closez ++ [1;2;3]) 4 in
  hlog (snd r) = stamps 0 fsz ++ [HClose 3 1000 [111;107]] /\
  hlog (snd r) = [HPing 0 [104;105]; HPong 0 []; HPing 0 [1;2;3]; HPing 3 [5]; HClose 3 1000 [111;107]] /\
  wlog (snd r) = [] /\ pending (br (snd r)) = [1;2;3] /\
  rerror (snd r) = Some (RClose 1000 [111;107]).
Proof. vm_compute. repeat split; reflexivity. Qed.

(* default handlers: pongs, then the echo with the same code; later reads fail the same way *)
Example default_close_run :
  let r := run cfgd (encode_frames fsz ++ encode_frame closez ++ [1;2;3]) 5 in
  fst r = map (out_ofZ Inflate.inflate) (data_msgs (events_of fsz)) ++
          [RMsg 0 [] (Some (RClose 1000 [111;107])); RMsg 0 [] (Some (RClose 1000 [111;107]))] /\
  wlog (snd r) = [WPong [104;105]; WPong [1;2;3]; WPong [5]; WCloseEcho [3;232]] /\
  hlog (snd r) = [] /\ pending (br (snd r)) = [1;2;3].
Proof. vm_compute. repeat split; reflexivity. Qed.

(* the third handler invocation (the RSV1 ping between two fragments of the compressed message)
   fails: the ReadMessage in progress returns the error and NO data (the raw bytes of a compressed
   message are never handed out), and so does every later call *)
Example failing_handler_run :
  let r := run (cfgc [2%nat]) (encode_frames fsz ++ [1;2;3]) 3 in
  fst r = [RMsg 1 [] (Some (RHandler 2)); RMsg 0 [] (Some (RHandler 2));
           RMsg 0 [] (Some (RHandler 2))] /\
  hlog (snd r) = [HPing 0 [104;105]; HPong 0 []; HPing 0 [1;2;3]] /\
  rerror (snd r) = Some (RHandler 2).
Proof. vm_compute. repeat split; reflexivity. Qed.

(* the theorems instantiated on the sample (no computation of the run) *)
Example custom_close_by_theorem :
  exists s',
    run (cfgc []) (encode_frames fsz ++ encode_frame closez ++ [1;2;3]) 4
    = (map (out_ofZ Inflate.inflate) (data_msgs (events_of fsz)) ++ [RMsg 0 [] (Some (RClose 1000 [111;107]))], s') /\
    hlog s' = stamps 0 fsz ++ [HClose 3 1000 [111;107]] /\ wlog s' = [].
Proof.
  assert (H : exists s',
    run_ops Inflate.inflate (cfgc []) (init_rst (mkb (encode_frames fsz ++ encode_frame closez ++ [1;2;3])))
      (repeat OReadMessage (S (length (data_msgs (events_of fsz))))) =
      (map (out_ofZ Inflate.inflate) (data_msgs (events_of fsz)) ++
         [RMsg 0 [] (Some (RClose (close_code (payload closez)) (close_text (payload closez))))], s') /\
    rerror s' = Some (RClose (close_code (payload closez)) (close_text (payload closez))) /\
    hlog s' = stamps 0 fsz ++ [HClose (length (data_msgs (events_of fsz)))
                                 (close_code (payload closez)) (close_text (payload closez))] /\
    hcount s' = length (hlog s') /\ wlog s' = [] /\ closesent s' = false /\ outoffuel s' = false /\
    pending (br s') = [1;2;3] /\
    (forall ops, exists rs s'', run_ops Inflate.inflate (cfgc []) s' ops = (rs, s'') /\
       Forall is_failure rs /\ br s'' = br s' /\ hlog s'' = hlog s' /\ wlog s'' = wlog s' /\
       rerror s'' = Some (RClose (close_code (payload closez)) (close_text (payload closez))))).
  { apply (handler_log_with_closeZ Inflate.inflate (cfgc []) _ fsz closez [1;2;3]);
      [reflexivity|reflexivity| |change (bsize (mkb _)) with 125%nat; apply le_n|exact fsz_conformant
      |exact closez_valid|vm_compute; reflexivity].
    apply binv_mk; [unfold Nat.lt; repeat constructor|cbn [length]; apply Nat.le_0_l|].
    unfold wf_script. cbn [chunks]. repeat (apply Forall_cons; [vm_compute; discriminate|]). apply Forall_nil. }
  destruct H as (s' & Hrun & _ & Hh & _ & Hw & _).
  exists s'. split; [exact Hrun|]. split; [exact Hh|exact Hw].
Qed.
End CtlZExamples.

Print Assumptions CtlZExamples.fsz_conformant.
Print Assumptions CtlZExamples.closez_valid.
Print Assumptions CtlZExamples.custom_run.
Print Assumptions CtlZExamples.custom_close_run.
Print Assumptions CtlZExamples.default_close_run.
Print Assumptions CtlZExamples.failing_handler_run.
Print Assumptions CtlZExamples.custom_close_by_theorem.
