(* Property C12: Upgrader.Upgrade (Model/Server.v) against the opening-handshake Spec. *)
Require Import WS.Base.Bytes WS.gen.Consts WS.Spec.Base64 WS.Spec.Sha1 WS.Model.Fold WS.Model.Util
               WS.Spec.Handshake WS.Proofs.FoldP WS.Model.Server.
Require Import WS.Proofs.TokenP.
Ltac Zify.zify_post_hook ::= Z.div_mod_to_equations.

(* readable literals *)
Module Lits.
  Import Coq.Strings.String.
  Local Open Scope string_scope.
  Definition line_status : bytes := Base64.str "HTTP/1.1 101 Switching Protocols".
  Definition line_upgrade : bytes := Base64.str "Upgrade: websocket".
  Definition line_connection : bytes := Base64.str "Connection: Upgrade".
  Definition accept_prefix : bytes := Base64.str "Sec-WebSocket-Accept: ".
  Definition protocol_prefix : bytes := Base64.str "Sec-WebSocket-Protocol: ".
  Definition extensions_prefix : bytes := Base64.str "Sec-WebSocket-Extensions: ".
  Definition line_extensions : bytes :=
    Base64.str "Sec-WebSocket-Extensions: permessage-deflate; server_no_context_takeover; client_no_context_takeover".
  Definition lit_GET : bytes := Base64.str "GET".
  Definition lit_upgrade : bytes := Base64.str "upgrade".
  Definition lit_websocket : bytes := Base64.str "websocket".
  Definition lit_13 : bytes := Base64.str "13".
  Definition lit_pmd : bytes := Base64.str "permessage-deflate".
  Definition lit_k_protocol : bytes := Base64.str "Sec-Websocket-Protocol".
  Definition lit_k_extensions : bytes := Base64.str "Sec-Websocket-Extensions".
End Lits.
Import Lits.

Lemma lits_ok :
  str_get = lit_GET /\ str_upgrade = lit_upgrade /\ str_websocket = lit_websocket /\ str_13 = lit_13
  /\ permessage_deflate = lit_pmd /\ k_protocol = lit_k_protocol /\ k_extensions = lit_k_extensions
  /\ resp_protocol = protocol_prefix.
Proof. repeat split; reflexivity. Qed.

(* ------------------------------------------------------------------------------------ *)
(* 7. key and digest                                                                      *)
(* ------------------------------------------------------------------------------------ *)
Lemma keyGUID_is_guid : c_keyGUID = guid.
Proof. reflexivity. Qed.

Theorem challenge_key_is_valid_key k : is_valid_challenge_key k = valid_key k.
Proof. reflexivity. Qed.

Theorem accept_key_is_digest k : compute_accept_key k = accept_digest k.
Proof. unfold compute_accept_key, accept_digest. rewrite keyGUID_is_guid. reflexivity. Qed.

(* what a valid key is: non-empty, decodes (Go StdEncoding) to exactly 16 bytes *)
Theorem valid_key_spec k :
  valid_key k = true <-> k <> [] /\ exists d, b64_decode k = Some d /\ length d = 16%nat /\ bytes_ok d.
Proof.
  unfold valid_key. destruct k as [|b k'].
  - split; [discriminate|]. intros [H _]. congruence.
  - destruct (b64_decode (b :: k')) as [d|] eqn:E.
    + rewrite Nat.eqb_eq. split.
      * intros H. split; [discriminate|]. exists d. repeat split; auto.
        eapply b64_decode_ok_bytes. exact E.
      * intros [_ (d' & H1 & H2 & _)]. inversion H1; subst. exact H2.
    + split; [discriminate|]. intros [_ (d' & H1 & _)]. discriminate.
Qed.

(* base64 output: alphabet characters and '=' only *)
Lemma b64_chr_alpha i : exists j, b64_idx (b64_chr i) = Some j.
Proof.
  unfold b64_chr.
  destruct (i <? 26) eqn:E1;
    [|destruct (i <? 52) eqn:E2;
      [|destruct (i <? 62) eqn:E3;
        [|destruct (i =? 62) eqn:E4]]];
  unfold b64_idx;
  repeat match goal with
         | |- context[if ?b then _ else _] => destruct b eqn:?
         end; try (exfalso; lia); eexists; reflexivity.
Qed.

Definition b64_char (c:N) : Prop := (exists j, b64_idx c = Some j) \/ c = 61.

Ltac b64c := first [left; apply b64_chr_alpha | right; reflexivity].
Lemma b64_encode_chars d : Forall b64_char (b64_encode d).
Proof.
  induction d as [|a|a b|a b c l IH] using list_ind3.
  - constructor.
  - cbn [b64_encode]. repeat (apply Forall_cons; [b64c|]). apply Forall_nil.
  - cbn [b64_encode]. repeat (apply Forall_cons; [b64c|]). apply Forall_nil.
  - rewrite b64_encode_cons3. do 4 (apply Forall_cons; [b64c|]). exact IH.
Qed.

(* ------------------------------------------------------------------------------------ *)
(* 6. when does Upgrade succeed                                                           *)
(* ------------------------------------------------------------------------------------ *)
Definition no_ext_header (rh:option rheader) : bool :=
  negb (match rh with Some h => hhas k_extensions h | None => false end).

Definition rh_list (rh:option rheader) : rheader := match rh with Some h => h | None => [] end.

Definition want_compress (u:upgrader) (q:request) : bool :=
  u_compression u && existsb (fun e => beq (ext_name e) permessage_deflate) (parse_extensions (q_extensions q)).

(* everything Upgrade checks before it hijacks *)
Definition handshake_ok (url:bytes -> option bytes) (u:upgrader) (q:request) (rh:option rheader) : bool :=
  token_list_contains_value (q_connection q) str_upgrade
  && token_list_contains_value (q_upgrade q) str_websocket
  && beq (q_method q) str_get
  && token_list_contains_value (q_version q) str_13
  && no_ext_header rh
  && origin_ok url u q
  && is_valid_challenge_key (first_line (q_key q)).

(* complete description of the outcome *)
Theorem upgrade_cases url u q rh hj wr :
  (handshake_ok url u q rh = true /\
   upgrade url u q rh hj wr =
     let resp := response (first_line (q_key q)) (select_subprotocol u q rh) (want_compress u q) (rh_list rh) in
     if hj then (if wr then Upgraded resp (want_compress u q) (select_subprotocol u q rh) else WriteFailed resp)
     else HijackFailed)
  \/
  (handshake_ok url u q rh = false /\ exists st uh, upgrade url u q rh hj wr = Rejected st uh).
Proof.
  unfold handshake_ok, upgrade, no_ext_header.
  destruct (token_list_contains_value (q_connection q) str_upgrade); cbn [negb andb]; [|right; eauto].
  destruct (token_list_contains_value (q_upgrade q) str_websocket); cbn [negb andb]; [|right; eauto].
  destruct (beq (q_method q) str_get); cbn [negb andb]; [|right; eauto].
  destruct (token_list_contains_value (q_version q) str_13); cbn [negb andb]; [|right; eauto].
  destruct (match rh with Some h => hhas k_extensions h | None => false end); cbn [negb andb]; [right; eauto|].
  destruct (origin_ok url u q); cbn [negb andb]; [|right; eauto].
  destruct (is_valid_challenge_key (first_line (q_key q))); cbn [negb andb]; [|right; eauto].
  left. split; [reflexivity|]. unfold want_compress, rh_list. destruct hj, wr; reflexivity.
Qed.

Theorem upgrade_iff url u q rh hj wr :
  (exists resp c sub, upgrade url u q rh hj wr = Upgraded resp c sub) <->
  token_list_contains_value (q_connection q) str_upgrade = true
  /\ token_list_contains_value (q_upgrade q) str_websocket = true
  /\ q_method q = str_get
  /\ token_list_contains_value (q_version q) str_13 = true
  /\ no_ext_header rh = true
  /\ origin_ok url u q = true
  /\ is_valid_challenge_key (first_line (q_key q)) = true
  /\ hj = true /\ wr = true.
Proof.
  destruct (upgrade_cases url u q rh hj wr) as [[Hok Hup]|[Hok (st & uh & Hup)]]; rewrite Hup.
  - unfold handshake_ok in Hok. repeat (apply andb_true_iff in Hok as [Hok ?]).
    assert (Hm : q_method q = str_get) by (apply beq_eq; assumption).
    cbv zeta. split.
    + intros (resp & c & sub & Hx). destruct hj; [|discriminate]. destruct wr; [|discriminate].
      repeat split; assumption.
    + intros (_ & _ & _ & _ & _ & _ & _ & -> & ->). eauto.
  - split; [intros (resp & c & sub & H); discriminate|].
    intros (H1 & H2 & H3 & H4 & H5 & H6 & H7 & _). exfalso.
    unfold handshake_ok in Hok. rewrite H1, H2, H4, H5, H6, H7 in Hok.
    apply beq_eq in H3. rewrite H3 in Hok. discriminate.
Qed.

(* what exactly is written and returned on success *)
Theorem upgrade_result url u q rh hj wr resp c sub :
  upgrade url u q rh hj wr = Upgraded resp c sub ->
  sub = select_subprotocol u q rh /\ c = want_compress u q /\
  resp = response (first_line (q_key q)) sub c (rh_list rh).
Proof.
  destruct (upgrade_cases url u q rh hj wr) as [[Hok Hup]|[Hok (st & uh & Hup)]]; rewrite Hup;
    [|discriminate].
  cbv zeta. destruct hj; [|discriminate]. destruct wr; [|discriminate].
  intros H; inversion H; subst. auto.
Qed.

(* Spec level: soundness for ALL requests (malformed lists included) *)
Theorem upgrade_sound url u q rh hj wr resp c sub :
  upgrade url u q rh hj wr = Upgraded resp c sub ->
  q_method q = lit_GET
  /\ has_token (q_connection q) lit_upgrade = true
  /\ has_token (q_upgrade q) lit_websocket = true
  /\ has_token (q_version q) lit_13 = true
  /\ valid_key (first_line (q_key q)) = true
  /\ origin_ok url u q = true.
Proof.
  intros H. assert (H' : exists resp c sub, upgrade url u q rh hj wr = Upgraded resp c sub) by eauto.
  apply upgrade_iff in H' as (H1 & H2 & H3 & H4 & H5 & H6 & H7 & _).
  repeat split; auto; apply scanner_sound; assumption.
Qed.

(* Spec level: completeness for requests whose list headers are inside the 1#token grammar *)
Theorem upgrade_complete url u q rh :
  forallb line_wf (q_connection q) = true ->
  forallb line_wf (q_upgrade q) = true ->
  forallb line_wf (q_version q) = true ->
  q_method q = lit_GET ->
  has_token (q_connection q) lit_upgrade = true ->
  has_token (q_upgrade q) lit_websocket = true ->
  has_token (q_version q) lit_13 = true ->
  valid_key (first_line (q_key q)) = true ->
  origin_ok url u q = true ->
  no_ext_header rh = true ->
  exists resp c sub, upgrade url u q rh true true = Upgraded resp c sub.
Proof.
  intros W1 W2 W3 Hm H1 H2 H3 Hk Ho He. apply upgrade_iff.
  repeat split; auto; apply scanner_complete; assumption.
Qed.

(* the Spec-level equivalence, in one statement *)
Corollary upgrade_spec_iff url u q rh :
  forallb line_wf (q_connection q) = true ->
  forallb line_wf (q_upgrade q) = true ->
  forallb line_wf (q_version q) = true ->
  ((exists resp c sub, upgrade url u q rh true true = Upgraded resp c sub) <->
   q_method q = lit_GET
   /\ has_token (q_connection q) lit_upgrade = true
   /\ has_token (q_upgrade q) lit_websocket = true
   /\ has_token (q_version q) lit_13 = true
   /\ valid_key (first_line (q_key q)) = true
   /\ origin_ok url u q = true
   /\ no_ext_header rh = true).
Proof.
  intros W1 W2 W3. split.
  - intros (resp & c & sub & H). pose proof (upgrade_sound _ _ _ _ _ _ _ _ _ H) as (A & B & C & D & E & F).
    assert (H' : exists resp c sub, upgrade url u q rh true true = Upgraded resp c sub) by eauto.
    apply upgrade_iff in H'. repeat split; tauto.
  - intros (A & B & C & D & E & F & G). apply upgrade_complete; assumption.
Qed.

(* ------------------------------------------------------------------------------------ *)
(* 8. failures                                                                            *)
(* ------------------------------------------------------------------------------------ *)
Definition hijacked (o:outcome) : bool :=
  match o with Upgraded _ _ _ | WriteFailed _ => true | _ => false end.

Theorem rejected_status url u q rh hj wr st uh :
  upgrade url u q rh hj wr = Rejected st uh -> In st [400; 403; 405; 426; 500].
Proof.
  unfold upgrade.
  repeat match goal with
         | |- context[if ?b then _ else _] => destruct b
         end; intros H; inversion H; subst; cbn [In]; auto 10.
Qed.

(* no reply other than Rejected when a check fails: the connection is not hijacked *)
Theorem invalid_is_rejected url u q rh hj wr :
  handshake_ok url u q rh = false ->
  hijacked (upgrade url u q rh hj wr) = false /\
  exists st uh, upgrade url u q rh hj wr = Rejected st uh /\ In st [400; 403; 405; 426; 500].
Proof.
  intros H. destruct (upgrade_cases url u q rh hj wr) as [[Hok Hup]|[Hok (st & uh & Hup)]]; [congruence|].
  rewrite Hup. split; [reflexivity|]. exists st, uh. split; [reflexivity|].
  eapply rejected_status. exact Hup.
Qed.

Theorem hijacked_only_if_valid url u q rh hj wr :
  hijacked (upgrade url u q rh hj wr) = true -> handshake_ok url u q rh = true /\ hj = true.
Proof.
  intros H. destruct (upgrade_cases url u q rh hj wr) as [[Hok Hup]|[Hok (st & uh & Hup)]];
    rewrite Hup in H; [|discriminate].
  split; [exact Hok|]. cbv zeta in H. destruct hj; [reflexivity|discriminate].
Qed.

Theorem rejected_not_hijacked url u q rh hj wr st uh :
  upgrade url u q rh hj wr = Rejected st uh ->
  (forall resp c sub, upgrade url u q rh hj wr <> Upgraded resp c sub) /\
  (forall resp, upgrade url u q rh hj wr <> WriteFailed resp).
Proof. intros ->. split; intros; discriminate. Qed.

Theorem status_403_iff url u q rh hj wr uh :
  upgrade url u q rh hj wr = Rejected 403 uh <->
  token_list_contains_value (q_connection q) str_upgrade = true
  /\ token_list_contains_value (q_upgrade q) str_websocket = true
  /\ q_method q = str_get
  /\ token_list_contains_value (q_version q) str_13 = true
  /\ no_ext_header rh = true
  /\ origin_ok url u q = false
  /\ uh = false.
Proof.
  rewrite <- (beq_eq (q_method q) str_get). unfold upgrade, no_ext_header.
  destruct (token_list_contains_value (q_connection q) str_upgrade); cbn [negb];
    [|split; [discriminate|intros (? & _); discriminate]].
  destruct (token_list_contains_value (q_upgrade q) str_websocket); cbn [negb];
    [|split; [discriminate|intros (_ & ? & _); discriminate]].
  destruct (beq (q_method q) str_get); cbn [negb];
    [|split; [discriminate|intros (_ & _ & ? & _); discriminate]].
  destruct (token_list_contains_value (q_version q) str_13); cbn [negb];
    [|split; [discriminate|intros (_ & _ & _ & ? & _); discriminate]].
  destruct (match rh with Some h => hhas k_extensions h | None => false end); cbn [negb];
    [split; [discriminate|intros (_ & _ & _ & _ & ? & _); discriminate]|].
  destruct (origin_ok url u q); cbn [negb].
  - split; [|intros (_ & _ & _ & _ & _ & ? & _); discriminate].
    destruct (is_valid_challenge_key (first_line (q_key q))); cbn [negb]; [|discriminate].
    destruct hj; cbn [negb]; [|discriminate]. destruct wr; discriminate.
  - split; [intros H; inversion H; auto 10|]. intros (_ & _ & _ & _ & _ & _ & ->). reflexivity.
Qed.

Theorem status_426_iff url u q rh hj wr uh :
  upgrade url u q rh hj wr = Rejected 426 uh <->
  token_list_contains_value (q_connection q) str_upgrade = true
  /\ token_list_contains_value (q_upgrade q) str_websocket = false
  /\ uh = true.
Proof.
  unfold upgrade.
  destruct (token_list_contains_value (q_connection q) str_upgrade); cbn [negb];
    [|split; [discriminate|intros (? & _); discriminate]].
  destruct (token_list_contains_value (q_upgrade q) str_websocket); cbn [negb].
  - split; [|intros (_ & ? & _); discriminate].
    repeat match goal with
           | |- context[if ?b then _ else _] => destruct b
           end; discriminate.
  - split; [intros H; inversion H; auto|]. intros (_ & _ & ->). reflexivity.
Qed.

Corollary status_426_has_upgrade_header url u q rh hj wr uh :
  upgrade url u q rh hj wr = Rejected 426 uh -> uh = true.
Proof. intros H. apply status_426_iff in H. tauto. Qed.

(* the Upgrade header is set on no other error reply *)
Theorem upgrade_header_only_426 url u q rh hj wr st :
  upgrade url u q rh hj wr = Rejected st true -> st = 426.
Proof.
  unfold upgrade.
  repeat match goal with
         | |- context[if ?b then _ else _] => destruct b
         end; intros H; inversion H; reflexivity.
Qed.

(* ------------------------------------------------------------------------------------ *)
(* 9. the 101 response, line by line                                                      *)
(* ------------------------------------------------------------------------------------ *)
Lemma split_crlf_cons cur b r :
  split_crlf cur (b :: r) =
  if (b =? 13) && starts_with 10 r then rev' cur :: split_crlf [] (tl r) else split_crlf (b :: cur) r.
Proof.
  destruct (N.eqb_spec b 13) as [->|Hb]; cbn [andb].
  - destruct r as [|c r']; [reflexivity|]. cbn [starts_with tl].
    destruct (N.eqb_spec c 10) as [->|Hc]; [reflexivity|].
    destruct c as [|p]; [reflexivity|].
    repeat (destruct p as [p|p|]; try reflexivity; try congruence).
  - destruct b as [|p]; [reflexivity|].
    repeat (destruct p as [p|p|]; try reflexivity; try congruence).
Qed.

Lemma has_ctl_app a b : has_ctl (a ++ b) = has_ctl a || has_ctl b.
Proof. unfold has_ctl. apply existsb_app. Qed.

Lemma has_ctl_cons b l : has_ctl (b :: l) = ((b =? 13) || (b =? 10)) || has_ctl l.
Proof. reflexivity. Qed.

(* a line free of CR and LF followed by CRLF is cut off as one line *)
Lemma split_crlf_line l : forall cur rest, has_ctl l = false ->
  split_crlf cur (l ++ 13 :: 10 :: rest) = (rev cur ++ l) :: split_crlf [] rest.
Proof.
  induction l as [|b l IH]; intros cur rest H; cbn [app].
  - rewrite split_crlf_cons. cbn [N.eqb Pos.eqb starts_with andb tl]. rewrite rev'_rev, app_nil_r.
    reflexivity.
  - rewrite has_ctl_cons in H. apply orb_false_iff in H as [Hb Hl]. apply orb_false_iff in Hb as [Hb _].
    rewrite split_crlf_cons, Hb. cbn [andb]. rewrite (IH _ _ Hl). cbn [rev]. rewrite <- app_assoc.
    reflexivity.
Qed.

Definition with_crlf (ls:list bytes) : bytes := flat_map (fun l => l ++ crlf) ls.

Lemma split_crlf_lines ls rest : Forall (fun l => has_ctl l = false) ls ->
  split_crlf [] (with_crlf ls ++ rest) = ls ++ split_crlf [] rest.
Proof.
  induction 1 as [|l ls Hl Hls IH]; [reflexivity|].
  unfold with_crlf in *. cbn [flat_map]. unfold crlf at 1. rewrite <- !app_assoc. cbn [app].
  rewrite split_crlf_line by exact Hl. cbn [rev app]. rewrite IH. reflexivity.
Qed.

(* the header lines contributed by the application's responseHeader *)
Definition app_lines (rh:rheader) : list bytes :=
  flat_map (fun p => if beq (fst p) k_protocol then []
                     else map (fun v => fst p ++ [58;32] ++ scrub v) (snd p)) rh.

Definition count_values (rh:rheader) : nat :=
  list_sum (map (fun p => if beq (fst p) k_protocol then 0%nat else length (snd p)) rh).

Lemma app_lines_length rh : length (app_lines rh) = count_values rh.
Proof.
  unfold app_lines, count_values. induction rh as [|p rh IH]; [reflexivity|].
  cbn [flat_map map list_sum]. rewrite app_length. unfold bytes in *. rewrite IH.
  destruct (beq (fst p) k_protocol); [reflexivity|]. rewrite map_length. reflexivity.
Qed.

Lemma header_lines_eq rh : header_lines rh = with_crlf (app_lines rh).
Proof.
  unfold header_lines, with_crlf, app_lines. induction rh as [|p rh IH]; [reflexivity|].
  cbn [flat_map]. rewrite flat_map_app, IH. f_equal.
  destruct (beq (fst p) k_protocol); [reflexivity|].
  induction (snd p) as [|v vs IHv]; [reflexivity|].
  cbn [flat_map map]. rewrite IHv. rewrite <- !app_assoc. reflexivity.
Qed.

Definition resp_lines (key sub:bytes) (compress:bool) (rh:rheader) : list bytes :=
  [line_status; line_upgrade; line_connection; accept_prefix ++ accept_digest key]
  ++ (match sub with [] => [] | _ => [protocol_prefix ++ scrub sub] end)
  ++ (if compress then [line_extensions] else [])
  ++ app_lines rh.

Lemma resp_prefix_eq :
  resp_prefix = line_status ++ crlf ++ line_upgrade ++ crlf ++ line_connection ++ crlf ++ accept_prefix.
Proof. reflexivity. Qed.
Lemma resp_extensions_eq : resp_extensions = line_extensions ++ crlf.
Proof. reflexivity. Qed.

Lemma response_eq key sub compress rh :
  response key sub compress rh = with_crlf (resp_lines key sub compress rh) ++ crlf.
Proof.
  unfold response, resp_lines. rewrite header_lines_eq, resp_prefix_eq, resp_extensions_eq, accept_key_is_digest.
  unfold with_crlf. rewrite !flat_map_app. cbn [flat_map]. rewrite !app_nil_r.
  change resp_protocol with protocol_prefix.
  rewrite <- !app_assoc. do 7 f_equal.
  destruct sub as [|b sub']; destruct compress; cbn [flat_map app]; rewrite <- ?app_assoc; reflexivity.
Qed.

Lemma has_ctl_scrub v : has_ctl (scrub v) = false.
Proof.
  induction v as [|b v IH]; [reflexivity|]. cbn [scrub map]. rewrite has_ctl_cons. fold (scrub v).
  rewrite IH. destruct (b <=? 31) eqn:E; lia.
Qed.

Lemma has_ctl_b64 d : has_ctl (b64_encode d) = false.
Proof.
  pose proof (b64_encode_no_crlf d) as H. induction H as [|c l Hc Hl IH]; [reflexivity|].
  rewrite has_ctl_cons, IH. unfold not_crlf, is_crlf in Hc. lia.
Qed.

Lemma app_lines_no_ctl rh : Forall (fun p => has_ctl (fst p) = false) rh ->
  Forall (fun l => has_ctl l = false) (app_lines rh).
Proof.
  induction 1 as [|p rh Hp Hrh IH]; [constructor|].
  unfold app_lines in *. cbn [flat_map]. apply Forall_app. split; [|exact IH].
  destruct (beq (fst p) k_protocol); [constructor|].
  apply Forall_forall. intros l Hl. apply in_map_iff in Hl as (v & <- & _).
  rewrite !has_ctl_app, Hp, has_ctl_scrub. reflexivity.
Qed.

Lemma resp_lines_no_ctl key sub compress rh : Forall (fun p => has_ctl (fst p) = false) rh ->
  Forall (fun l => has_ctl l = false) (resp_lines key sub compress rh).
Proof.
  intros H. unfold resp_lines. repeat (apply Forall_app; split).
  - repeat constructor. rewrite has_ctl_app. unfold accept_digest. rewrite has_ctl_b64. reflexivity.
  - destruct sub; repeat constructor. rewrite has_ctl_app, has_ctl_scrub. reflexivity.
  - destruct compress; repeat constructor.
  - apply app_lines_no_ctl. exact H.
Qed.

(* THE response theorem: the bytes written split at CRLF into exactly these lines, for every
   key, subprotocol and header VALUE whatsoever; only header NAMES must be free of CR/LF *)
Theorem response_lines key sub compress rh :
  Forall (fun p => has_ctl (fst p) = false) rh ->
  split_crlf [] (response key sub compress rh) = resp_lines key sub compress rh ++ [[]; []].
Proof.
  intros H. rewrite response_eq, split_crlf_lines by (apply resp_lines_no_ctl; exact H). reflexivity.
Qed.

(* 9(a): no line contains CR or LF -- no injection through values or the subprotocol *)
Theorem response_no_injection key sub compress rh :
  Forall (fun p => has_ctl (fst p) = false) rh ->
  Forall (fun l => has_ctl l = false) (split_crlf [] (response key sub compress rh)).
Proof.
  intros H. rewrite response_lines by exact H. apply Forall_app. split.
  - apply resp_lines_no_ctl. exact H.
  - repeat constructor.
Qed.

(* 9(b): the number of lines *)
Theorem response_line_count key sub compress rh :
  Forall (fun p => has_ctl (fst p) = false) rh ->
  length (split_crlf [] (response key sub compress rh)) =
  (4 + (if is_nil sub then 0 else 1) + (if compress then 1 else 0) + count_values rh + 2)%nat.
Proof.
  intros H. rewrite response_lines by exact H. unfold resp_lines.
  rewrite !app_length, app_lines_length. cbn [length].
  destruct sub; destruct compress; cbn [length is_nil]; lia.
Qed.

(* 9(c): the first four lines *)
Theorem response_first_lines key sub compress rh :
  Forall (fun p => has_ctl (fst p) = false) rh ->
  firstn 4 (split_crlf [] (response key sub compress rh)) =
  [line_status; line_upgrade; line_connection; accept_prefix ++ accept_digest key].
Proof. intros H. rewrite response_lines by exact H. reflexivity. Qed.

(* the hypothesis on names is needed: a name with CRLF does inject *)
Example name_injection :
  let rh : rheader := [([88; 13; 10; 89], [[]])] in    (* name "X\r\nY" *)
  length (split_crlf [] (response [] [] false rh)) = 8%nat.
Proof. vm_compute. reflexivity. Qed.

(* ------------------------------------------------------------------------------------ *)
(* 10. subprotocol                                                                        *)
(* ------------------------------------------------------------------------------------ *)
Lemma find_first {A} (f:A -> bool) l x : find f l = Some x ->
  exists l1 l2, l = l1 ++ x :: l2 /\ f x = true /\ forall y, In y l1 -> f y = false.
Proof.
  induction l as [|a l IH]; cbn [find]; [discriminate|].
  destruct (f a) eqn:E.
  - intros H; inversion H; subst. exists [], l. repeat split; auto. intros y [].
  - intros H. destruct (IH H) as (l1 & l2 & E1 & E2 & E3). exists (a :: l1), l2. subst l.
    repeat split; auto. intros y [<-|Hy]; auto.
Qed.

Lemma existsb_beq_In x l : existsb (beq x) l = true <-> In x l.
Proof.
  rewrite existsb_exists. split.
  - intros (y & Hy & E). apply beq_eq in E. subst. exact Hy.
  - intros H. exists x. split; [exact H|apply beq_refl].
Qed.

Theorem subprotocol_negotiated u q rh server p :
  u_subprotocols u = Some server -> select_subprotocol u q rh = p -> p <> [] ->
  In p server /\
  exists before after, subprotocols (first_line (q_protocol q)) = before ++ p :: after
                       /\ forall x, In x before -> ~ In x server.
Proof.
  unfold select_subprotocol. intros -> H Hne.
  destruct (find _ _) as [p'|] eqn:E; [|congruence]. subst p'.
  apply find_first in E as (l1 & l2 & E1 & E2 & E3).
  split; [apply existsb_beq_In; exact E2|]. exists l1, l2. split; [exact E1|].
  intros x Hx Hin. apply existsb_beq_In in Hin. rewrite (E3 x Hx) in Hin. discriminate.
Qed.

Corollary subprotocol_offered_and_supported u q rh server p :
  u_subprotocols u = Some server -> select_subprotocol u q rh = p -> p <> [] ->
  In p server /\ In p (subprotocols (first_line (q_protocol q))).
Proof.
  intros H1 H2 H3. destruct (subprotocol_negotiated u q rh server p H1 H2 H3) as (A & l1 & l2 & E & _).
  split; [exact A|]. rewrite E. apply in_or_app. right. left. reflexivity.
Qed.

(* no common protocol: none is announced *)
Theorem subprotocol_none u q rh server :
  u_subprotocols u = Some server ->
  (forall x, In x (subprotocols (first_line (q_protocol q))) -> ~ In x server) ->
  select_subprotocol u q rh = [].
Proof.
  unfold select_subprotocol. intros -> H. destruct (find _ _) as [p|] eqn:E; [|reflexivity].
  apply find_first in E as (l1 & l2 & E1 & E2 & _). exfalso. apply (H p).
  - rewrite E1. apply in_or_app. right. left. reflexivity.
  - apply existsb_beq_In. exact E2.
Qed.

(* Upgrader.Subprotocols == nil: the application's own response header value *)
Theorem subprotocol_from_app u q rh :
  u_subprotocols u = None ->
  select_subprotocol u q rh = match rh with Some h => hget k_protocol h | None => [] end.
Proof. unfold select_subprotocol. intros ->. reflexivity. Qed.

(* ------------------------------------------------------------------------------------ *)
(* 11. compression                                                                        *)
(* ------------------------------------------------------------------------------------ *)
Theorem compression_only_if_enabled_and_offered url u q rh hj wr resp c sub :
  upgrade url u q rh hj wr = Upgraded resp c sub -> c = true ->
  u_compression u = true /\
  exists e, In e (parse_extensions (q_extensions q)) /\ ext_name e = permessage_deflate.
Proof.
  intros H Hc. apply upgrade_result in H as (_ & Hc' & _). rewrite Hc in Hc'. unfold want_compress in Hc'.
  symmetry in Hc'. apply andb_true_iff in Hc' as [H1 H2]. split; [exact H1|].
  apply existsb_exists in H2 as (e & He & Hb). exists e. split; [exact He|apply beq_eq; exact Hb].
Qed.

Theorem compression_iff url u q rh hj wr resp c sub :
  upgrade url u q rh hj wr = Upgraded resp c sub ->
  (c = true <-> u_compression u = true /\
                exists e, In e (parse_extensions (q_extensions q)) /\ ext_name e = permessage_deflate).
Proof.
  intros H. split; [eapply compression_only_if_enabled_and_offered; exact H|].
  intros (H1 & e & He & Hn). apply upgrade_result in H as (_ & -> & _). unfold want_compress.
  rewrite H1. cbn [andb]. apply existsb_exists. exists e. split; [exact He|apply beq_eq; exact Hn].
Qed.

(* the lines of a successful reply; the extension line sits at a fixed position iff c *)
Theorem upgraded_lines url u q rh hj wr resp c sub :
  upgrade url u q rh hj wr = Upgraded resp c sub ->
  Forall (fun p => has_ctl (fst p) = false) (rh_list rh) ->
  split_crlf [] resp =
    [line_status; line_upgrade; line_connection; accept_prefix ++ accept_digest (first_line (q_key q))]
    ++ (match sub with [] => [] | _ => [protocol_prefix ++ scrub sub] end)
    ++ (if c then [line_extensions] else [])
    ++ app_lines (rh_list rh) ++ [[]; []].
Proof.
  intros H Hn. apply upgrade_result in H as (_ & _ & ->). rewrite response_lines by exact Hn.
  unfold resp_lines. rewrite <- !app_assoc. reflexivity.
Qed.

(* without application headers: the extension line is present iff compression was negotiated *)
Corollary extension_line_iff url u q hj wr resp c sub :
  upgrade url u q None hj wr = Upgraded resp c sub ->
  (In line_extensions (split_crlf [] resp) <-> c = true).
Proof.
  intros H. rewrite (upgraded_lines _ _ _ _ _ _ _ _ _ H) by constructor. cbn [rh_list app_lines flat_map].
  split.
  - intros Hin. destruct c; [reflexivity|]. exfalso.
    assert (Hne1 : forall x, accept_prefix ++ x <> line_extensions).
    { intros x Hx. apply (f_equal (firstn 15)) in Hx. vm_compute in Hx. discriminate. }
    assert (Hne2 : forall x, protocol_prefix ++ x <> line_extensions).
    { intros x Hx. apply (f_equal (firstn 15)) in Hx. vm_compute in Hx. discriminate. }
    cbn [app] in Hin.
    destruct Hin as [Hin|[Hin|[Hin|[Hin|Hin]]]];
      [vm_compute in Hin; discriminate | vm_compute in Hin; discriminate
       | vm_compute in Hin; discriminate | eapply Hne1; exact Hin | ].
    destruct sub; cbn [app In] in Hin.
    + destruct Hin as [Hin|[Hin|[]]]; vm_compute in Hin; discriminate.
    + destruct Hin as [Hin|[Hin|[Hin|[]]]]; [eapply Hne2; exact Hin | | ]; vm_compute in Hin; discriminate.
  - intros ->. apply in_or_app. right. apply in_or_app. right. left. reflexivity.
Qed.

Print Assumptions challenge_key_is_valid_key.
Print Assumptions accept_key_is_digest.
Print Assumptions upgrade_cases.
Print Assumptions upgrade_iff.
Print Assumptions upgrade_sound.
Print Assumptions upgrade_complete.
Print Assumptions rejected_status.
Print Assumptions invalid_is_rejected.
Print Assumptions status_403_iff.
Print Assumptions status_426_iff.
Print Assumptions response_lines.
Print Assumptions response_no_injection.
Print Assumptions response_line_count.
Print Assumptions response_first_lines.
Print Assumptions subprotocol_negotiated.
Print Assumptions compression_iff.
Print Assumptions upgraded_lines.
Print Assumptions extension_line_iff.
