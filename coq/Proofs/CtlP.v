(* C08 "control frames: handlers see each frame once; ping answered, close echoed".

   Contents
   0-2  vocabulary; advanceFrame on ANY acceptable control frame, both handler modes
        (advance_ctl_gen and the ctl_finish lemmas)
   3    item 1: advance_ctl_custom (ping/pong, recording handlers)
   4    item 2: advance_close_default / advance_close_custom / advance_close_bad
   5    frame lemmas: who may touch hlog / hcount / opidx / errcount / outoffuel
        (logstep; default_handlers_never_log)
   6    prefix_then_fail: conformant prefix, then a frame at which advanceFrame fails
   7    item 3: read_messages_with_close (default handlers)
   8    item 5: handler_error_is_returned_and_permanent
   9    the P3 induction again, for both handler modes and message lists that need not be
        closed (ra_gen, next_loop_gen, read_message_gen)
   10   item 4: handler_log_in_wire_order (recording handlers, stamps)
   11   handler_log_with_close (recording handlers, stream ending in a close frame)
   12   sanity checks by computation *)
Require Import WS.Base.Bytes WS.gen.Consts WS.Spec.Utf8 WS.Spec.Frame WS.Spec.Conformance WS.Model.Bufio
  WS.Model.Reader WS.Proofs.BufioP WS.Proofs.FrameP WS.Proofs.SweepP WS.Proofs.ReaderBasicP.
From RecordUpdate Require Import RecordSet.
Import RecordSetNotations.
Require Import WS.Proofs.ReaderP1 WS.Proofs.ReaderP2 WS.Proofs.ReaderP3 WS.Proofs.ReaderP.
Ltac Zify.zify_post_hook ::= Z.div_mod_to_equations.

(* ------------------------------------------------------------------------------------------ *)
(* 0. Vocabulary                                                                              *)
(* ------------------------------------------------------------------------------------------ *)

(* a control frame the reader must accept at header level (RFC 6455 5.5): opcode 8/9/10, FIN,
   payload <= 125, RSV 0, masked iff the reader is a server *)
Definition ctl_ok (srv:bool) (f:frame) : Prop :=
  rsv f = 0 /\ is_some (mkey f) = srv /\ (opcode f = 8 \/ opcode f = 9 \/ opcode f = 10) /\
  fin f = true /\ plen f <= 125.

(* ... which is exactly: a control frame without a header-level violation in the Spec *)
Lemma ctl_ok_spec srv open f : opcode f < 16 ->
  (is_control (opcode f) = true /\ violates_hdr srv false open f (plen f) = false) <-> ctl_ok srv f.
Proof.
  intros Ho. unfold ctl_ok, violates_hdr, is_control, is_data_op, is_some. split.
  - intros (Hc & Hv).
    destruct (mkey f), srv, open, (fin f); cbn [xorb negb andb orb] in Hv;
      repeat split; try reflexivity; try lia.
  - intros (Hr & Hm & Hop & Hf & Hl). rewrite Hr, Hf.
    destruct (mkey f), srv, open; try discriminate Hm; cbn [xorb negb andb orb]; split; lia.
Qed.

Lemma frame_acc_ctl_ok srv open f :
  frame_acc srv open f = true -> is_control (opcode f) = true -> ctl_ok srv f.
Proof.
  intros Hacc Hctl. destruct (frame_acc_facts _ _ _ Hacc) as (Hr & Hm & Hcases).
  unfold is_control in Hctl. unfold ctl_ok.
  destruct Hcases as [(Ho & Hf & Hl)|[(Ho & _)|(Ho & _)]]; [|lia|lia].
  repeat split; try assumption. lia.
Qed.

Definition close_code (p:bytes) : N := if 2 <=? blen p then be_dec (firstn 2 p) else 1005.
Definition close_text (p:bytes) : bytes := if 2 <=? blen p then skipn 2 p else [].

(* the event a recording handler logs for control frame [f] during API call number [idx] *)
Definition hev_of (idx:nat) (f:frame) : hev :=
  if opcode f =? 9 then HPing idx (payload f)
  else if opcode f =? 10 then HPong idx (payload f)
  else HClose idx (close_code (payload f)) (close_text (payload f)).

Definition hfails (c:rcfg) (i:nat) : bool := existsb (Nat.eqb i) (handler_fail c).

Lemma hfails_In c i : hfails c i = true <-> In i (handler_fail c).
Proof.
  unfold hfails. rewrite existsb_exists. split.
  - intros (x & Hx & E). apply Nat.eqb_eq in E. subst x. exact Hx.
  - intros H. exists i. split; [exact H|apply Nat.eqb_refl].
Qed.

Lemma hfails_nil c i : handler_fail c = [] -> hfails c i = false.
Proof. intros H. unfold hfails. rewrite H. reflexivity. Qed.

(* fields that the header / payload steps of advanceFrame never touch on a control frame *)
Definition same_app (s s1:rst) : Prop :=
  rfin s1 = rfin s /\ rlen s1 = rlen s /\ rlimit s1 = rlimit s /\ rerror s1 = rerror s /\
  errcount s1 = errcount s /\ cur s1 = cur s /\ nextid s1 = nextid s /\ opidx s1 = opidx s /\
  hcount s1 = hcount s /\ hlog s1 = hlog s /\ wlog s1 = wlog s /\ closesent s1 = closesent s /\
  outoffuel s1 = outoffuel s.

(* the close codes: the generated table agrees with the Spec for EVERY number, not only 16-bit *)
Lemma close_code_all c : is_valid_received_close_code c = close_code_ok c.
Proof.
  destruct (N.ltb_spec c 65536) as [H|H]; [apply close_code_table_correct; exact H|].
  unfold is_valid_received_close_code, close_code_ok, c_validReceivedCloseCodes.
  cbn [existsb fst snd]. lia.
Qed.

(* ------------------------------------------------------------------------------------------ *)
(* 1. advanceFrame step 7 as a function of the unmasked payload                               *)
(* ------------------------------------------------------------------------------------------ *)
Definition ctl_finish (c:rcfg) (op:N) (pl:bytes) (s:rst) : adv * rst :=
  if op =? c_PongMessage then
    if custom_handlers c then
      let s := s <| hlog := hlog s ++ [HPong (opidx s) pl] |> in
      let '(r, s) := handler_result c s in
      match r with Some e => (AErr e, s) | None => (AFrame op, s) end
    else (AFrame op, s)
  else if op =? c_PingMessage then
    if custom_handlers c then
      let s := s <| hlog := hlog s ++ [HPing (opidx s) pl] |> in
      let '(r, s) := handler_result c s in
      match r with Some e => (AErr e, s) | None => (AFrame op, s) end
    else (AFrame op, send (WPong pl) s)
  else
    let has_body := 2 <=? blen pl in
    let code := if has_body then be_dec (firstn 2 pl) else c_CloseNoStatusReceived in
    let text := if has_body then skipn 2 pl else [] in
    if has_body && negb (is_valid_received_close_code code) then protocol_error s
    else if has_body && negb (utf8_valid text) then protocol_error s
    else if custom_handlers c then
      let s := s <| hlog := hlog s ++ [HClose (opidx s) code text] |> in
      let '(r, s) := handler_result c s in
      match r with Some e => (AErr e, s) | None => (AErr (RClose code text), s) end
    else (AErr (RClose code text), send (WCloseEcho (format_close code)) s).

Transparent aas2 aas5.

Lemma aas5_ctl_gen c op len s wp rest :
  op = 8 \/ op = 9 \/ op = 10 ->
  binv (br s) -> (125 <= bsize (br s))%nat -> len <= 125 -> blen wp = len ->
  pending (br s) = wp ++ rest ->
  exists b', pending b' = rest /\ binv b' /\ bsize b' = bsize (br s) /\
    fault (src b') = fault (src (br s)) /\
    aas5 c op len s =
      ctl_finish c op (if server c then maskl (rkey s) 0 wp else wp) (s <| br := b' |> <| rem := 0 |>).
Proof.
  intros Hop Hinv Hbs Hlen Hwp Hp. unfold aas5. cbv zeta.
  unfold c_TextMessage, c_BinaryMessage, c_continuationFrame.
  replace ((op =? 0) || ((op =? 1) || (op =? 2))) with false by lia. cbv iota.
  assert (Hrd : exists b', (if 0 <? len then rd (N.to_nat len) s else ([], None, s))
                           = (wp, None, s <| br := b' |>) /\
            pending b' = rest /\ binv b' /\ bsize b' = bsize (br s) /\
            fault (src b') = fault (src (br s))).
  { destruct (N.ltb_spec 0 len) as [Hpos|Hz].
    - apply rd_app; [exact Hinv|lia|exact Hp|unfold blen in Hwp; lia].
    - exists (br s). rewrite set_br_id.
      assert (wp = []) by (destruct wp; [reflexivity|unfold blen in Hwp; cbn [length] in Hwp; lia]).
      subst wp. cbn [app] in Hp. auto. }
  destruct Hrd as (b' & Hrd & Hp' & Hinv' & Hbs' & Hfl').
  exists b'. split; [exact Hp'|]. split; [exact Hinv'|]. split; [exact Hbs'|]. split; [exact Hfl'|].
  rewrite Hrd. cbv beta iota.
  replace (rkey (s <| br := b' |> <| rem := 0 |>)) with (rkey s) by reflexivity.
  reflexivity.
Qed.

Lemma hdr_reject_ctl c fs f : wf_frame f -> ctl_ok (server c) f ->
  hdr_reject c fs (hdr_b0 f) (hdr_b1 f) = false.
Proof.
  intros Hwf (Hr & Hm & Ho & Hf & Hl).
  destruct (bit_rsv f Hwf Hr) as (R1 & R2 & R3).
  unfold hdr_reject. cbv zeta.
  rewrite R1, R2, R3, (bit_fin f Hwf), bit_mask, (hdr_b0_opcode f Hwf), hdr_b1_len7, Hm.
  rewrite eqb_reflx. cbn [andb orb negb].
  unfold c_CloseMessage, c_PingMessage, c_PongMessage, c_TextMessage, c_BinaryMessage,
    c_continuationFrame, c_maxControlFramePayloadSize.
  replace ((opcode f =? 8) || (opcode f =? 9) || (opcode f =? 10)) with true by lia.
  destruct (len7_small f) as [Hl7 _]; [lia|]. rewrite Hl7, Hf.
  replace (125 <? plen f) with false by lia. reflexivity.
Qed.

Lemma aas2_ctl c f s : wf_frame f -> ctl_ok (server c) f ->
  aas2 c (hdr_b0 f) (hdr_b1 f) s = aas3 c (opcode f) (is_some (mkey f)) (len7 f) (hdr_state f s).
Proof.
  intros Hwf Hok. pose proof Hok as (Hr & _).
  destruct (bit_rsv f Hwf Hr) as (R1 & _ & _).
  unfold aas2. cbv zeta.
  rewrite R1, (bit_fin f Hwf), bit_mask, (hdr_b0_opcode f Hwf), hdr_b1_len7.
  cbn [andb].
  replace (rfin (s <| rem := len7 f |> <| rdecomp := false |>)) with (rfin s) by reflexivity.
  rewrite (hdr_reject_ctl c (rfin s) f Hwf Hok).
  reflexivity.
Qed.

Opaque aas2 aas5.

(* advanceFrame on any acceptable control frame: header, length, key and payload are consumed
   and step 7 runs on the unmasked payload; nothing else changes *)
Lemma advance_ctl_gen c s f rest :
  binv (br s) -> (125 <= bsize (br s))%nat -> wf_frame f -> ctl_ok (server c) f ->
  pending (br s) = encode_frame f ++ rest ->
  exists s1, advance_after_skip c s = ctl_finish c (opcode f) (payload f) s1 /\
    binv (br s1) /\ bsize (br s1) = bsize (br s) /\ fault (src (br s1)) = fault (src (br s)) /\
    rem s1 = 0 /\ pending (br s1) = rest /\ same_app s s1.
Proof.
  intros Hinv Hbs Hwf Hok Hp.
  pose proof Hok as (Hr & Hm & Hop & Hfin & Hl125).
  pose proof Hwf as (_ & _ & Hpl & Hkey).
  rewrite encode_frame_split in Hp.
  rewrite aas_unfold.
  destruct (rd_app 2 s _ _ Hinv ltac:(lia) Hp eq_refl) as (b1 & Hrd & Hp1 & Hinv1 & Hbs1 & Hfl1).
  rewrite Hrd. cbv iota. cbn [nth].
  rewrite aas2_ctl; [|exact Hwf|exact Hok].
  set (s1 := hdr_state f (s <| br := b1 |>)).
  assert (Es1 : br s1 = b1 /\ same_app s s1).
  { subst s1. unfold hdr_state, same_app. cbv zeta.
    destruct Hop as [Ho|[Ho|Ho]]; rewrite Ho;
      [change ((8 =? 1) || (8 =? 2)) with false; change (8 =? 0) with false
      |change ((9 =? 1) || (9 =? 2)) with false; change (9 =? 0) with false
      |change ((10 =? 1) || (10 =? 2)) with false; change (10 =? 0) with false];
      cbv iota; rsimpl; auto 20. }
  destruct Es1 as (E1 & Esame).
  destruct (aas3_ok c (opcode f) (is_some (mkey f)) f s1 (key_bytes f ++ (wire_payload f ++ rest)))
    as (b2 & H3 & Hp2 & Hinv2 & Hbs2 & Hfl2);
    [rewrite E1; exact Hinv1|rewrite E1; lia|exact Hpl|rewrite E1; exact Hp1|].
  rewrite H3. rewrite E1 in Hbs2, Hfl2.
  assert (Hwl : blen (wire_payload f) = plen f) by apply wire_payload_blen.
  assert (Hop' : opcode f = 8 \/ opcode f = 9 \/ opcode f = 10) by exact Hop.
  destruct (mkey f) as [key|] eqn:Ek.
  - (* masked: the reader is a server *)
    cbn [is_some] in *. unfold key_bytes in Hp2. rewrite Ek in Hp2.
    destruct (aas4_masked c (opcode f) (plen f) (s1 <| br := b2 |>) key (wire_payload f ++ rest))
      as (b3 & H4 & Hp3 & Hinv3 & Hbs3 & Hfl3);
      [exact Hinv2|change (125 <= bsize b2)%nat; lia|exact Hkey|exact Hp2|].
    rewrite H4. change (bsize (br (s1 <| br := b2 |>))) with (bsize b2) in Hbs3.
    change (fault (src (br (s1 <| br := b2 |>)))) with (fault (src b2)) in Hfl3.
    set (s3 := s1 <| br := b2 |> <| rem := plen f |> <| mpos := 0 |> <| br := b3 |> <| rkey := key |>).
    destruct (aas5_ctl_gen c (opcode f) (plen f) s3 (wire_payload f) rest Hop')
      as (b4 & Hp4 & Hinv4 & Hbs4 & Hfl4 & H5);
      [subst s3; rsimpl; exact Hinv3|subst s3; rsimpl; lia
      |exact Hl125|exact Hwl|subst s3; rsimpl; exact Hp3|].
    rewrite H5.
    replace (bsize (br s3)) with (bsize b3) in Hbs4 by reflexivity.
    replace (fault (src (br s3))) with (fault (src b3)) in Hfl4 by reflexivity.
    replace (rkey s3) with key by reflexivity.
    rewrite <- Hm. rewrite (unmask_wire f key Ek).
    eexists. split; [reflexivity|]. rsimpl.
    split; [exact Hinv4|]. split; [congruence|]. split; [congruence|].
    split; [reflexivity|]. split; [exact Hp4|].
    destruct Esame as (A1 & A2 & A3 & A4 & A5 & A6 & A7 & A8 & A9 & A10 & A11 & A12 & A13).
    unfold same_app. subst s3. rsimpl. auto 20.
  - (* unmasked: the reader is a client *)
    cbn [is_some] in *. unfold key_bytes in Hp2. rewrite Ek in Hp2. cbn [app] in Hp2.
    rewrite aas4_unmasked.
    set (s3 := s1 <| br := b2 |> <| rem := plen f |>).
    destruct (aas5_ctl_gen c (opcode f) (plen f) s3 (wire_payload f) rest Hop')
      as (b4 & Hp4 & Hinv4 & Hbs4 & Hfl4 & H5);
      [subst s3; rsimpl; exact Hinv2|subst s3; rsimpl; lia
      |exact Hl125|exact Hwl|subst s3; rsimpl; exact Hp2|].
    rewrite H5.
    replace (bsize (br s3)) with (bsize b2) in Hbs4 by reflexivity.
    replace (fault (src (br s3))) with (fault (src b2)) in Hfl4 by reflexivity.
    rewrite <- Hm. rewrite (wire_payload_unmasked f Ek).
    eexists. split; [reflexivity|]. rsimpl.
    split; [exact Hinv4|]. split; [congruence|]. split; [congruence|].
    split; [reflexivity|]. split; [exact Hp4|].
    destruct Esame as (A1 & A2 & A3 & A4 & A5 & A6 & A7 & A8 & A9 & A10 & A11 & A12 & A13).
    unfold same_app. subst s3. rsimpl. auto 20.
Qed.

(* ------------------------------------------------------------------------------------------ *)
(* 2. Step 7 case by case                                                                     *)
(* ------------------------------------------------------------------------------------------ *)
Lemma handler_result_eq c s :
  handler_result c s =
  ((if hfails c (hcount s) then Some (RHandler (N.of_nat (hcount s))) else None),
   s <| hcount := S (hcount s) |>).
Proof. unfold handler_result, hfails. destruct (existsb (Nat.eqb (hcount s)) (handler_fail c)); reflexivity. Qed.

Lemma ctl_finish_pingpong_custom c op pl s : custom_handlers c = true -> op = 9 \/ op = 10 ->
  ctl_finish c op pl s =
  ((if hfails c (hcount s) then AErr (RHandler (N.of_nat (hcount s))) else AFrame op),
   s <| hlog := hlog s ++ [if op =? 9 then HPing (opidx s) pl else HPong (opidx s) pl] |>
     <| hcount := S (hcount s) |>).
Proof.
  intros Hc Hop. unfold ctl_finish. rewrite Hc, !handler_result_eq. rsimpl.
  unfold c_PongMessage, c_PingMessage.
  destruct Hop as [-> | ->].
  - change (9 =? 10) with false. change (9 =? 9) with true. cbv iota.
    destruct (hfails c (hcount s)); reflexivity.
  - change (10 =? 10) with true. change (10 =? 9) with false. cbv iota.
    destruct (hfails c (hcount s)); reflexivity.
Qed.

Lemma ctl_finish_pingpong_default c op pl s : custom_handlers c = false -> op = 9 \/ op = 10 ->
  ctl_finish c op pl s = (AFrame op, if op =? 9 then send (WPong pl) s else s).
Proof.
  intros Hc Hop. unfold ctl_finish. rewrite Hc. unfold c_PongMessage, c_PingMessage.
  destruct Hop as [-> | ->]; reflexivity.
Qed.

Lemma ctl_finish_close c pl s :
  ctl_finish c 8 pl s =
  if close_body_bad pl then protocol_error s
  else if custom_handlers c then
    (AErr (if hfails c (hcount s) then RHandler (N.of_nat (hcount s))
           else RClose (close_code pl) (close_text pl)),
     s <| hlog := hlog s ++ [HClose (opidx s) (close_code pl) (close_text pl)] |>
       <| hcount := S (hcount s) |>)
  else (AErr (RClose (close_code pl) (close_text pl)),
        send (WCloseEcho (format_close (close_code pl))) s).
Proof.
  unfold ctl_finish, close_body_bad, close_code, close_text.
  change (8 =? c_PongMessage) with false. change (8 =? c_PingMessage) with false. cbv iota zeta.
  change c_CloseNoStatusReceived with 1005.
  rewrite handler_result_eq. rsimpl.
  destruct (2 <=? blen pl); cbn [andb orb].
  - rewrite close_code_all.
    destruct (close_code_ok (be_dec (firstn 2 pl))); cbn [negb orb]; [|reflexivity].
    destruct (utf8_valid (skipn 2 pl)); cbn [negb]; [|reflexivity].
    destruct (custom_handlers c); [|reflexivity]. destruct (hfails c (hcount s)); reflexivity.
  - destruct (custom_handlers c); [|reflexivity]. destruct (hfails c (hcount s)); reflexivity.
Qed.

(* the three shapes of a close body *)
Lemma close_short p : blen p <= 1 ->
  close_code p = 1005 /\ close_text p = [] /\ close_body_bad p = false.
Proof.
  intros H. unfold close_code, close_text, close_body_bad.
  replace (2 <=? blen p) with false by lia. auto.
Qed.

Lemma close_long p : 2 <= blen p ->
  close_code p = be_dec (firstn 2 p) /\ close_text p = skipn 2 p /\
  close_body_bad p = negb (close_code_ok (close_code p)) || negb (utf8_valid (close_text p)).
Proof.
  intros H. unfold close_code, close_text, close_body_bad.
  replace (2 <=? blen p) with true by lia. auto.
Qed.

(* a close body written as code ++ reason *)
Lemma close_body_enc code text : code < 65536 ->
  close_code (be_enc 2 code ++ text) = code /\ close_text (be_enc 2 code ++ text) = text.
Proof.
  intros H. unfold close_code, close_text.
  assert (Hl : length (be_enc 2 code) = 2%nat) by apply be_enc_length.
  replace (2 <=? blen (be_enc 2 code ++ text)) with true
    by (unfold blen; rewrite app_length, Hl; lia).
  rewrite firstn_app_exact, skipn_app_exact by exact Hl.
  split; [|reflexivity]. apply be_roundtrip. change (256 ^ N.of_nat 2) with 65536. exact H.
Qed.

Lemma format_close_spec code : format_close code = if code =? 1005 then [] else be_enc 2 code.
Proof. reflexivity. Qed.

(* ------------------------------------------------------------------------------------------ *)
(* 3. C08 item 1: ping / pong with recording handlers                                         *)
(* ------------------------------------------------------------------------------------------ *)
Lemma rinv_of_same k s s1 : rinv k s -> binv (br s1) -> bsize (br s1) = bsize (br s) ->
  fault (src (br s1)) = fault (src (br s)) -> same_app s s1 -> rinv k s1.
Proof.
  intros Hr Hb Hs Hf (A1 & A2 & A3 & A4 & A5 & A6 & A7 & A8 & A9 & A10 & A11 & A12 & A13).
  apply (rinv_upd k s); auto.
Qed.

Theorem advance_ctl_custom k c s f rest :
  rinv k s -> custom_handlers c = true -> wf_frame f -> ctl_ok (server c) f ->
  opcode f = 9 \/ opcode f = 10 ->
  pending (br s) = encode_frame f ++ rest ->
  exists s', advance_after_skip c s =
      ((if hfails c (hcount s) then AErr (RHandler (N.of_nat (hcount s))) else AFrame (opcode f)), s') /\
    rinv k s' /\ rem s' = 0 /\ rfin s' = rfin s /\ rlen s' = rlen s /\ pending (br s') = rest /\
    hlog s' = hlog s ++ [hev_of (opidx s) f] /\ hcount s' = S (hcount s) /\
    wlog s' = wlog s /\ opidx s' = opidx s.
Proof.
  intros Hrinv Hc Hwf Hok Hop Hp.
  pose proof Hrinv as (Hinv & Hbs & _).
  destruct (advance_ctl_gen c s f rest Hinv Hbs Hwf Hok Hp)
    as (s1 & Hadv & Hinv1 & Hbs1 & Hfl1 & Hrem1 & Hp1 & Hsame).
  pose proof (rinv_of_same k s s1 Hrinv Hinv1 Hbs1 Hfl1 Hsame) as Hrinv1.
  destruct Hsame as (A1 & A2 & A3 & A4 & A5 & A6 & A7 & A8 & A9 & A10 & A11 & A12 & A13).
  rewrite Hadv, (ctl_finish_pingpong_custom c (opcode f) (payload f) s1 Hc Hop).
  rewrite A9. eexists. split; [reflexivity|]. rsimpl.
  split; [apply (rinv_same k s1); [exact Hrinv1|reflexivity ..]|].
  rewrite ?A8, ?A10, ?A9, ?A11, ?A1, ?A2.
  assert (Hev : (if opcode f =? 9 then HPing (opidx s) (payload f) else HPong (opidx s) (payload f))
                = hev_of (opidx s) f).
  { unfold hev_of. destruct Hop as [-> | ->]; reflexivity. }
  rewrite Hev. auto 12.
Qed.

(* the same, phrased exactly like ReaderP2.advance_ctl *)
Corollary advance_ctl_custom_acc k c s f rest :
  rinv k s -> custom_handlers c = true -> wf_frame f ->
  frame_acc (server c) (negb (rfin s)) f = true -> is_control (opcode f) = true ->
  pending (br s) = encode_frame f ++ rest ->
  exists s', advance_after_skip c s =
      ((if hfails c (hcount s) then AErr (RHandler (N.of_nat (hcount s))) else AFrame (opcode f)), s') /\
    rinv k s' /\ rem s' = 0 /\ rfin s' = rfin s /\ rlen s' = rlen s /\ pending (br s') = rest /\
    hlog s' = hlog s ++ [hev_of (opidx s) f] /\ hcount s' = S (hcount s) /\
    wlog s' = wlog s /\ opidx s' = opidx s.
Proof.
  intros Hrinv Hc Hwf Hacc Hctl Hp.
  apply advance_ctl_custom; try assumption.
  - exact (frame_acc_ctl_ok _ _ _ Hacc Hctl).
  - destruct (acc_cases _ _ _ Hacc) as [(_ & Hop & _)|(Hx & _)]; [exact Hop|congruence].
Qed.

(* ------------------------------------------------------------------------------------------ *)
(* 4. C08 item 2: close frames                                                                *)
(* ------------------------------------------------------------------------------------------ *)
Section Close.
Variables (k:errk) (c:rcfg) (s:rst) (f:frame) (rest:bytes).
Hypothesis Hrinv : rinv k s.
Hypothesis Hwf : wf_frame f.
Hypothesis Hok : ctl_ok (server c) f.
Hypothesis Hop : opcode f = 8.
Hypothesis Hrem : rem s = 0.
Hypothesis Hp : pending (br s) = encode_frame f ++ rest.

Let code := close_code (payload f).
Let text := close_text (payload f).

(* valid close (no body, one stray byte, or a good code with a UTF-8 reason), default handler:
   echo the code, fail with CloseError{code, text}; the handler log is untouched *)
Theorem advance_close_default :
  custom_handlers c = false -> close_body_bad (payload f) = false ->
  exists s', advance_frame c s = (AErr (RClose code text), s') /\
    wlog s' = wlog s ++ [WCloseEcho (format_close code)] /\ closesent s' = true /\
    hlog s' = hlog s /\ hcount s' = hcount s /\ pending (br s') = rest /\
    binv (br s') /\ rerror s' = None /\ errcount s' = 0%nat /\ outoffuel s' = false /\
    opidx s' = opidx s.
Proof.
  intros Hc Hgood. pose proof Hrinv as (Hinv & Hbs & Hfl & Herr & Hoof & Hcs & Hrl & Hec).
  destruct (advance_ctl_gen c s f rest Hinv Hbs Hwf Hok Hp)
    as (s1 & Hadv & Hinv1 & Hbs1 & Hfl1 & Hrem1 & Hp1 & Hsame).
  destruct Hsame as (A1 & A2 & A3 & A4 & A5 & A6 & A7 & A8 & A9 & A10 & A11 & A12 & A13).
  rewrite advance_frame_rem0 by exact Hrem.
  rewrite Hadv, Hop, ctl_finish_close, Hgood, Hc. fold code text.
  unfold send. rewrite A12, Hcs.
  eexists. split; [reflexivity|]. rsimpl.
  rewrite A11, A10, A9, A4, A5, A13, A8. auto 12.
Qed.

(* valid close, recording handler: the handler sees code and reason exactly once; nothing is
   written by the reader itself *)
Theorem advance_close_custom :
  custom_handlers c = true -> close_body_bad (payload f) = false ->
  exists s', advance_frame c s =
      (AErr (if hfails c (hcount s) then RHandler (N.of_nat (hcount s)) else RClose code text), s') /\
    hlog s' = hlog s ++ [HClose (opidx s) code text] /\ hcount s' = S (hcount s) /\
    wlog s' = wlog s /\ closesent s' = false /\ pending (br s') = rest /\
    binv (br s') /\ rerror s' = None /\ errcount s' = 0%nat /\ outoffuel s' = false /\
    opidx s' = opidx s.
Proof.
  intros Hc Hgood. pose proof Hrinv as (Hinv & Hbs & Hfl & Herr & Hoof & Hcs & Hrl & Hec).
  destruct (advance_ctl_gen c s f rest Hinv Hbs Hwf Hok Hp)
    as (s1 & Hadv & Hinv1 & Hbs1 & Hfl1 & Hrem1 & Hp1 & Hsame).
  destruct Hsame as (A1 & A2 & A3 & A4 & A5 & A6 & A7 & A8 & A9 & A10 & A11 & A12 & A13).
  rewrite advance_frame_rem0 by exact Hrem.
  rewrite Hadv, Hop, ctl_finish_close, Hgood, Hc. fold code text. rewrite A9.
  eexists. split; [reflexivity|]. rsimpl.
  rewrite A11, A10, A4, A5, A13, A8, A12. auto 12.
Qed.

(* bad close body (code not allowed on the wire, or reason not UTF-8), either handler mode:
   protocol error, 1002 close sent, the handler is NOT called *)
Theorem advance_close_bad :
  close_body_bad (payload f) = true ->
  exists s', advance_frame c s = (AErr RProto, s') /\
    wlog s' = wlog s ++ [WCloseProto] /\ closesent s' = true /\
    hlog s' = hlog s /\ hcount s' = hcount s /\ pending (br s') = rest /\
    binv (br s') /\ rerror s' = None /\ errcount s' = 0%nat /\ outoffuel s' = false /\
    opidx s' = opidx s.
Proof.
  intros Hbad. pose proof Hrinv as (Hinv & Hbs & Hfl & Herr & Hoof & Hcs & Hrl & Hec).
  destruct (advance_ctl_gen c s f rest Hinv Hbs Hwf Hok Hp)
    as (s1 & Hadv & Hinv1 & Hbs1 & Hfl1 & Hrem1 & Hp1 & Hsame).
  destruct Hsame as (A1 & A2 & A3 & A4 & A5 & A6 & A7 & A8 & A9 & A10 & A11 & A12 & A13).
  rewrite advance_frame_rem0 by exact Hrem.
  rewrite Hadv, Hop, ctl_finish_close, Hbad.
  unfold protocol_error, send. rewrite A12, Hcs.
  eexists. split; [reflexivity|]. rsimpl.
  rewrite A11, A10, A9, A4, A5, A13, A8. auto 12.
Qed.
End Close.

(* the three cases of the property text, spelled out *)
Corollary close_no_body_is_1005 p : blen p <= 1 -> close_code p = 1005 /\ close_text p = [] /\
  format_close (close_code p) = [].
Proof. intros H. destruct (close_short p H) as (H1 & H2 & _). rewrite H1. auto. Qed.

Corollary close_echo_same_code p : 2 <= blen p -> close_code p <> 1005 ->
  format_close (close_code p) = be_enc 2 (be_dec (firstn 2 p)).
Proof.
  intros H Hne. destruct (close_long p H) as (H1 & _). rewrite format_close_spec.
  replace (close_code p =? 1005) with false by lia. rewrite H1. reflexivity.
Qed.

(* ------------------------------------------------------------------------------------------ *)
(* 5. Who may touch the handler log: a frame lemma for the whole read path                    *)
(* ------------------------------------------------------------------------------------------ *)
(* [logs_eq s s']: handler log, invocation counter and API-call index are the same *)
Definition logs_eq (s s':rst) : Prop :=
  hlog s' = hlog s /\ hcount s' = hcount s /\ opidx s' = opidx s /\ errcount s' = errcount s.
(* the same without the error counter (NextReader bumps it) *)
Definition logs3 (s s':rst) : Prop :=
  hlog s' = hlog s /\ hcount s' = hcount s /\ opidx s' = opidx s.
Lemma logs_eq_3 s s' : logs_eq s s' -> logs3 s s'.
Proof. intros (A & B & C & D). repeat split; assumption. Qed.
Lemma logs3_trans a b c : logs3 a b -> logs3 b c -> logs3 a c.
Proof. unfold logs3. intuition congruence. Qed.

Lemma logs_eq_refl s : logs_eq s s.
Proof. repeat split. Qed.
Lemma logs_eq_trans a b c : logs_eq a b -> logs_eq b c -> logs_eq a c.
Proof. unfold logs_eq. intuition congruence. Qed.

(* one advanceFrame: either the logs are untouched, or exactly one handler was invoked -- only
   with recording handlers, and then the result is a ping, a pong or an error *)
Definition logstep (c:rcfg) (s:rst) (r:adv * rst) : Prop :=
  (opidx (snd r) = opidx s /\ errcount (snd r) = errcount s) /\
  ((hlog (snd r) = hlog s /\ hcount (snd r) = hcount s) \/
   (custom_handlers c = true /\ hcount (snd r) = S (hcount s) /\
    (exists ev, hlog (snd r) = hlog s ++ [ev]) /\
    match fst r with AFrame op => op = 9 \/ op = 10 | AErr _ => True end)).

Lemma logstep_same c s1 s r : logs_eq s s1 -> logstep c s1 r -> logstep c s r.
Proof. intros (H1 & H2 & H3 & H4) (A & B). unfold logstep. rewrite <- H1, <- H2, <- H3, <- H4. auto. Qed.

Lemma logstep_quiet c s a s' : logs_eq s s' -> logstep c s (a, s').
Proof. intros (H1 & H2 & H3 & H4). unfold logstep. cbn [fst snd]. auto. Qed.

Lemma rd_eq n s : snd (rd n s) = s <| br := br (snd (rd n s)) |>.
Proof. unfold rd. destruct (br_peek_discard n (br s)) as [[p e] b]. reflexivity. Qed.

Lemma rd_logs n s p e s' : rd n s = (p, e, s') -> logs_eq s s'.
Proof. intros H. pose proof (rd_eq n s) as E. rewrite H in E. cbn [snd] in E. rewrite E. repeat split. Qed.

Lemma send_logs w s : logs_eq s (send w s).
Proof. unfold send. destruct (closesent s); repeat split. Qed.

Lemma ctl_finish_logstep c op pl s : logstep c s (ctl_finish c op pl s).
Proof.
  unfold ctl_finish. rewrite !handler_result_eq.
  destruct (op =? c_PongMessage) eqn:E10; [|destruct (op =? c_PingMessage) eqn:E9].
  - apply N.eqb_eq in E10. unfold c_PongMessage in E10.
    destruct (custom_handlers c) eqn:Ec; [|apply logstep_quiet, logs_eq_refl].
    rsimpl. split; [destruct (hfails c (hcount s)); split; reflexivity|]. right.
    destruct (hfails c (hcount s)); cbn [fst snd]; rsimpl; eauto 8.
  - apply N.eqb_eq in E9. unfold c_PingMessage in E9.
    destruct (custom_handlers c) eqn:Ec; [|apply logstep_quiet, send_logs].
    rsimpl. split; [destruct (hfails c (hcount s)); split; reflexivity|]. right.
    destruct (hfails c (hcount s)); cbn [fst snd]; rsimpl; eauto 8.
  - cbv zeta. unfold protocol_error.
    destruct (_ && negb (is_valid_received_close_code _)); [apply logstep_quiet, send_logs|].
    destruct (_ && negb (utf8_valid _)); [apply logstep_quiet, send_logs|].
    destruct (custom_handlers c) eqn:Ec; [|apply logstep_quiet, send_logs].
    rsimpl. split; [destruct (hfails c (hcount s)); split; reflexivity|]. right.
    destruct (hfails c (hcount s)); cbn [fst snd]; rsimpl; eauto 8.
Qed.

Transparent aas2 aas3 aas4 aas5.

Lemma aas5_logstep c op len s : logstep c s (aas5 c op len s).
Proof.
  unfold aas5. cbv zeta.
  destruct ((op =? c_continuationFrame) || ((op =? c_TextMessage) || (op =? c_BinaryMessage))).
  - destruct (2^63 <=? rlen s + len).
    { unfold send. change (closesent (s <| rlen := rlen s + len |>)) with (closesent s).
      destruct (closesent s) eqn:Ecs; apply logstep_quiet; rsimpl; rewrite ?Ecs; repeat split; reflexivity. }
    destruct ((0 <? rlimit (s <| rlen := rlen s + len |>)) && (rlimit (s <| rlen := rlen s + len |>) <? rlen s + len)).
    + apply logstep_quiet. apply (logs_eq_trans _ (s <| rlen := rlen s + len |>)); [repeat split|apply send_logs].
    + apply logstep_quiet; repeat split.
  - destruct (if 0 <? len then rd (N.to_nat len) s else ([], None, s)) as [[pl e] s1] eqn:E.
    assert (H1 : logs_eq s s1).
    { destruct (0 <? len); [exact (rd_logs _ _ _ _ _ E)|inversion E; apply logs_eq_refl]. }
    destruct e as [e|]; [apply logstep_quiet; destruct H1 as (A & B & C & D); repeat split; assumption|].
    apply (logstep_same c (s1 <| rem := 0 |>)); [destruct H1 as (A & B & C & D); repeat split; assumption|].
    exact (ctl_finish_logstep c op _ (s1 <| rem := 0 |>)).
Qed.

Lemma aas4_logstep c op mask len s : logstep c s (aas4 c op mask len s).
Proof.
  unfold aas4. cbv zeta. destruct mask.
  - destruct (rd 4 (s <| rem := len |> <| mpos := 0 |>)) as [[p e] s1] eqn:E.
    pose proof (rd_logs _ _ _ _ _ E) as (A & B & C & D). rsimpl_in A. rsimpl_in B. rsimpl_in C. rsimpl_in D.
    destruct e as [e|]; [apply logstep_quiet; repeat split; assumption|].
    apply (logstep_same c (s1 <| rkey := p |>)); [repeat split; assumption|apply aas5_logstep].
  - apply (logstep_same c (s <| rem := len |>)); [repeat split|apply aas5_logstep].
Qed.

Lemma aas3_logstep c op mask len7 s : logstep c s (aas3 c op mask len7 s).
Proof.
  unfold aas3. destruct (len7 =? 126); [|destruct (len7 =? 127)].
  - destruct (rd 2 s) as [[p e] s1] eqn:E. pose proof (rd_logs _ _ _ _ _ E) as H.
    destruct e as [e|]; [apply logstep_quiet; exact H|].
    apply (logstep_same c s1); [exact H|apply aas4_logstep].
  - destruct (rd 8 s) as [[p e] s1] eqn:E. pose proof (rd_logs _ _ _ _ _ E) as H.
    destruct e as [e|]; [apply logstep_quiet; exact H|].
    destruct (2^63 <=? be_dec p).
    { unfold send. destruct (closesent s1) eqn:Ecs; apply logstep_quiet; [exact H|].
      destruct H as (H1 & H2 & H3 & H4). unfold logs_eq. rsimpl. repeat split; assumption. }
    apply (logstep_same c s1); [exact H|apply aas4_logstep].
  - apply aas4_logstep.
Qed.

Lemma aas2_logstep c b0 b1 s : logstep c s (aas2 c b0 b1 s).
Proof.
  unfold aas2. cbv zeta.
  set (s0 := s <| rem := N.land b1 127 |> <| rdecomp := bit b0 c_rsv1Bit && negotiated c |>).
  set (s1 := if (N.land b0 15 =? c_TextMessage) || (N.land b0 15 =? c_BinaryMessage)
             then s0 <| rfin := bit b0 c_finalBit |> <| rlen := 0 |>
             else if N.land b0 15 =? c_continuationFrame then s0 <| rfin := bit b0 c_finalBit |> else s0).
  assert (H : logs_eq s s1).
  { subst s1 s0. destruct ((N.land b0 15 =? c_TextMessage) || (N.land b0 15 =? c_BinaryMessage));
      [repeat split|]. destruct (N.land b0 15 =? c_continuationFrame); repeat split. }
  destruct (hdr_reject c (rfin s0) b0 b1).
  - unfold protocol_error. apply logstep_quiet. apply (logs_eq_trans _ s1); [exact H|apply send_logs].
  - apply (logstep_same c s1); [exact H|apply aas3_logstep].
Qed.

Opaque aas2 aas3 aas4 aas5.

Lemma aas_logstep c s : logstep c s (advance_after_skip c s).
Proof.
  rewrite aas_unfold. destruct (rd 2 s) as [[p e] s1] eqn:E. pose proof (rd_logs _ _ _ _ _ E) as H.
  destruct e as [e|]; [apply logstep_quiet; exact H|].
  apply (logstep_same c s1); [exact H|apply aas2_logstep].
Qed.

Lemma advance_frame_logstep c s : logstep c s (advance_frame c s).
Proof.
  unfold advance_frame. destruct (0 <? rem s); [|apply aas_logstep].
  destruct (copyn_discard _ (rem s) (br s)) as [[e b] oof].
  assert (H : logs_eq s (if oof then s <| br := b |> <| outoffuel := true |> else s <| br := b |>))
    by (destruct oof; repeat split).
  destruct e as [e|]; [apply logstep_quiet; exact H|].
  eapply logstep_same; [exact H|apply aas_logstep].
Qed.

(* ---------- advanceFrame steps 2-7 never run out of fuel ---------- *)
Lemma rd_oof n s p e s' : rd n s = (p, e, s') -> outoffuel s' = outoffuel s.
Proof. intros H. pose proof (rd_eq n s) as E. rewrite H in E. cbn [snd] in E. rewrite E. reflexivity. Qed.
Lemma send_oof w s : outoffuel (send w s) = outoffuel s.
Proof. unfold send. destruct (closesent s); reflexivity. Qed.

Lemma ctl_finish_oof c op pl s : outoffuel (snd (ctl_finish c op pl s)) = outoffuel s.
Proof.
  unfold ctl_finish. rewrite !handler_result_eq. unfold protocol_error. cbv zeta.
  repeat match goal with |- context [if ?b then _ else _] => destruct b end;
    cbn [snd]; rsimpl; rewrite ?send_oof; reflexivity.
Qed.

Transparent aas2 aas3 aas4 aas5.
Lemma aas5_oof c op len s : outoffuel (snd (aas5 c op len s)) = outoffuel s.
Proof.
  unfold aas5. cbv zeta.
  destruct ((op =? c_continuationFrame) || ((op =? c_TextMessage) || (op =? c_BinaryMessage))).
  - destruct (2^63 <=? rlen s + len); [cbn [snd]; rewrite send_oof; reflexivity|].
    destruct ((0 <? rlimit (s <| rlen := rlen s + len |>)) && (rlimit (s <| rlen := rlen s + len |>) <? rlen s + len));
      cbn [snd]; rewrite ?send_oof; reflexivity.
  - destruct (if 0 <? len then rd (N.to_nat len) s else ([], None, s)) as [[pl e] s1] eqn:E.
    assert (H : outoffuel s1 = outoffuel s)
      by (destruct (0 <? len); [exact (rd_oof _ _ _ _ _ E)|inversion E; reflexivity]).
    destruct e as [e|]; [exact H|].
    rewrite <- H. exact (ctl_finish_oof c op _ (s1 <| rem := 0 |>)).
Qed.
Lemma aas4_oof c op mask len s : outoffuel (snd (aas4 c op mask len s)) = outoffuel s.
Proof.
  unfold aas4. cbv zeta. destruct mask.
  - destruct (rd 4 (s <| rem := len |> <| mpos := 0 |>)) as [[p e] s1] eqn:E.
    pose proof (rd_oof _ _ _ _ _ E) as H. rsimpl_in H.
    destruct e as [e|]; [exact H|]. rewrite aas5_oof. exact H.
  - rewrite aas5_oof. reflexivity.
Qed.
Lemma aas3_oof c op mask len7 s : outoffuel (snd (aas3 c op mask len7 s)) = outoffuel s.
Proof.
  unfold aas3. destruct (len7 =? 126); [|destruct (len7 =? 127)].
  - destruct (rd 2 s) as [[p e] s1] eqn:E. pose proof (rd_oof _ _ _ _ _ E) as H.
    destruct e as [e|]; [exact H|]. rewrite aas4_oof. exact H.
  - destruct (rd 8 s) as [[p e] s1] eqn:E. pose proof (rd_oof _ _ _ _ _ E) as H.
    destruct e as [e|]; [exact H|]. destruct (2^63 <=? be_dec p); [cbn [snd]; rewrite send_oof; exact H|]. rewrite aas4_oof. exact H.
  - apply aas4_oof.
Qed.
Lemma aas2_oof c b0 b1 s : outoffuel (snd (aas2 c b0 b1 s)) = outoffuel s.
Proof.
  unfold aas2. cbv zeta.
  set (s0 := s <| rem := N.land b1 127 |> <| rdecomp := bit b0 c_rsv1Bit && negotiated c |>).
  set (s1 := if (N.land b0 15 =? c_TextMessage) || (N.land b0 15 =? c_BinaryMessage)
             then s0 <| rfin := bit b0 c_finalBit |> <| rlen := 0 |>
             else if N.land b0 15 =? c_continuationFrame then s0 <| rfin := bit b0 c_finalBit |> else s0).
  assert (H : outoffuel s1 = outoffuel s).
  { subst s1 s0. destruct ((N.land b0 15 =? c_TextMessage) || (N.land b0 15 =? c_BinaryMessage));
      [reflexivity|]. destruct (N.land b0 15 =? c_continuationFrame); reflexivity. }
  destruct (hdr_reject c (rfin s0) b0 b1).
  - unfold protocol_error. cbn [snd]. rewrite send_oof. exact H.
  - rewrite aas3_oof. exact H.
Qed.
Opaque aas2 aas3 aas4 aas5.

Lemma aas_oof c s a s' : advance_after_skip c s = (a, s') -> outoffuel s' = outoffuel s.
Proof.
  rewrite aas_unfold. destruct (rd 2 s) as [[p e] s1] eqn:E. pose proof (rd_oof _ _ _ _ _ E) as H.
  destruct e as [e|]; [intros X; inversion X; subst; exact H|].
  intros X. pose proof (aas2_oof c (nth 0 p 0) (nth 1 p 0) s1) as Y. rewrite X in Y. cbn [snd] in Y. congruence.
Qed.

Lemma advance_frame_rem0_oof c s a s' : rem s = 0 -> advance_frame c s = (a, s') ->
  outoffuel s' = outoffuel s.
Proof. intros Hr. rewrite advance_frame_rem0 by exact Hr. apply aas_oof. Qed.

(* consequences *)
Lemma advance_frame_opidx c s a s' : advance_frame c s = (a, s') -> opidx s' = opidx s.
Proof. intros H. pose proof (advance_frame_logstep c s) as ((A & _) & _). rewrite H in A. exact A. Qed.
Lemma advance_frame_errcount c s a s' : advance_frame c s = (a, s') -> errcount s' = errcount s.
Proof. intros H. pose proof (advance_frame_logstep c s) as ((_ & A) & _). rewrite H in A. exact A. Qed.

Lemma advance_frame_default c s a s' : custom_handlers c = false ->
  advance_frame c s = (a, s') -> logs_eq s s'.
Proof.
  intros Hc H. pose proof (advance_frame_logstep c s) as ((A & A') & [(B1 & B2)|(B & _)]); rewrite H in *;
    cbn [snd] in *; [repeat split; assumption|congruence].
Qed.

(* a data frame never reaches a handler, whatever the handler mode *)
Lemma advance_frame_data_logs c s op s' :
  advance_frame c s = (AFrame op, s') -> op <> 9 -> op <> 10 -> logs_eq s s'.
Proof.
  intros H H9 H10. pose proof (advance_frame_logstep c s) as ((A & A') & [(B1 & B2)|(_ & _ & _ & B)]); rewrite H in *;
    cbn [fst snd] in *; [repeat split; assumption|lia].
Qed.

Lemma aas_default c s a s' : custom_handlers c = false ->
  advance_after_skip c s = (a, s') -> logs_eq s s'.
Proof.
  intros Hc H. pose proof (aas_logstep c s) as ((A & A') & [(B1 & B2)|(B & _)]); rewrite H in *;
    cbn [snd] in *; [repeat split; assumption|congruence].
Qed.
Lemma aas_data_logs c s op s' :
  advance_after_skip c s = (AFrame op, s') -> op <> 9 -> op <> 10 -> logs_eq s s'.
Proof.
  intros H H9 H10. pose proof (aas_logstep c s) as ((A & A') & [(B1 & B2)|(_ & _ & _ & B)]); rewrite H in *;
    cbn [fst snd] in *; [repeat split; assumption|lia].
Qed.

(* messageReader.Read while payload bytes are left: pure data movement *)
Lemma read_loop_chunk_logs f c m s d e s' :
  rerror s = None -> 0 < rem s -> read_loop (S f) c m s = (d, e, s') -> logs_eq s s'.
Proof.
  intros He Hr. cbn [read_loop]. rewrite He. replace (0 <? rem s) with true by lia. cbv iota zeta.
  destruct (br_read _ (br s)) as [[d0 e0] b0]. destruct (server c); intros H; inversion H; repeat split.
Qed.

(* ---------- default handlers: the handler log is never touched, by any operation ---------- *)
Section Default.
Variables (inflate : bytes -> option bytes) (c:rcfg).
Hypothesis Hch : custom_handlers c = false.

Lemma next_loop_default fuel : forall s r s', next_loop fuel c s = (r, s') -> logs_eq s s'.
Proof.
  induction fuel as [|fuel IH]; intros s r s' H; cbn [next_loop] in H.
  - destruct (rerror s); inversion H; repeat split.
  - destruct (rerror s); [inversion H; apply logs_eq_refl|].
    destruct (advance_frame c s) as [a s1] eqn:Ea.
    pose proof (advance_frame_default c s a s1 Hch Ea) as H1.
    destruct a as [e|op].
    + inversion H; subst. destruct H1 as (A & B & C & D). repeat split; assumption.
    + destruct ((op =? c_TextMessage) || (op =? c_BinaryMessage)).
      * inversion H; subst. destruct H1 as (A & B & C & D). repeat split; assumption.
      * eapply logs_eq_trans; [exact H1|exact (IH _ _ _ H)].
Qed.

Lemma read_loop_default fuel m : forall s d e s', read_loop fuel c m s = (d, e, s') -> logs_eq s s'.
Proof.
  induction fuel as [|fuel IH]; intros s d e s' H; cbn [read_loop] in H.
  - destruct (rerror s); inversion H; repeat split.
  - destruct (rerror s); [inversion H; apply logs_eq_refl|].
    destruct (0 <? rem s).
    + destruct (br_read _ (br s)) as [[d0 e0] b0]. destruct (server c); inversion H; repeat split.
    + destruct (rfin s); [inversion H; repeat split|].
      destruct (advance_frame c s) as [a s1] eqn:Ea.
      pose proof (advance_frame_default c s a s1 Hch Ea) as H1.
      assert (H2 : forall x, logs_eq s (s1 <| rerror := x |>))
        by (intros x; destruct H1 as (A & B & C & D); repeat split; assumption).
      destruct a as [e1|op].
      * eapply logs_eq_trans; [apply H2|exact (IH _ _ _ _ H)].
      * destruct ((op =? c_TextMessage) || (op =? c_BinaryMessage)).
        -- eapply logs_eq_trans; [apply H2|exact (IH _ _ _ _ H)].
        -- eapply logs_eq_trans; [exact H1|exact (IH _ _ _ _ H)].
Qed.

Lemma read_all_default fuel : forall len cp acc s d e s',
  read_all fuel c len cp acc s = (d, e, s') -> logs_eq s s'.
Proof.
  induction fuel as [|fuel IH]; intros len cp acc s d e s' H; cbn [read_all] in H.
  - inversion H; repeat split.
  - unfold reader_read in H.
    destruct (read_loop (fuel_of s) c (N.to_nat (cp - len)) s) as [[d1 e1] s1] eqn:E.
    pose proof (read_loop_default _ _ _ _ _ _ E) as H1.
    destruct e1 as [e1|]; [destruct e1; inversion H; subst; exact H1|].
    eapply logs_eq_trans; [exact H1|exact (IH _ _ _ _ _ _ _ H)].
Qed.

Lemma read_raw_default fuel : forall acc s d e s',
  read_raw fuel c acc s = (d, e, s') -> logs_eq s s'.
Proof.
  induction fuel as [|fuel IH]; intros acc s d e s' H; cbn [read_raw] in H.
  - inversion H; repeat split.
  - unfold reader_read in H.
    destruct (read_loop (fuel_of s) c 4096 s) as [[d1 e1] s1] eqn:E.
    pose proof (read_loop_default _ _ _ _ _ _ E) as H1.
    destruct e1 as [e1|]; [destruct e1; inversion H; subst; exact H1|].
    eapply logs_eq_trans; [exact H1|exact (IH _ _ _ _ _ H)].
Qed.

Lemma next_reader_default s r s' : next_reader c s = (r, s') -> logs3 s s'.
Proof.
  unfold next_reader. intros H.
  destruct (next_loop _ c _) as [o s1] eqn:E.
  pose proof (next_loop_default _ _ _ _ E) as (A & B & C & _). rsimpl_in A. rsimpl_in B. rsimpl_in C.
  destruct o; [inversion H; subst; repeat split; assumption|].
  destruct (Nat.leb 1000 _); inversion H; subst; repeat split; assumption.
Qed.

Lemma read_message_default s r s' : read_message inflate c s = (r, s') -> logs3 s s'.
Proof.
  unfold read_message. intros H.
  destruct (next_reader c s) as [r1 s1] eqn:E. pose proof (next_reader_default _ _ _ E) as H1.
  destruct r1 as [ty [e|]|d e|ty d e| |]; try (inversion H; subst; exact H1).
  destruct (rdecomp s1).
  - destruct (read_raw _ c [] s1) as [[raw e] s2] eqn:E2.
    pose proof (logs_eq_3 _ _ (read_raw_default _ _ _ _ _ _ E2)) as H2.
    destruct e; [|destruct (inflate _)]; inversion H; subst; eapply logs3_trans; eassumption.
  - destruct (read_all _ c 0 512 [] s1) as [[d e] s2] eqn:E2.
    pose proof (logs_eq_3 _ _ (read_all_default _ _ _ _ _ _ _ _ E2)) as H2.
    inversion H; subst; eapply logs3_trans; eassumption.
Qed.

Lemma rstep_default s o r s' : rstep inflate c s o = (r, s') ->
  hlog s' = hlog s /\ hcount s' = hcount s /\ opidx s' = S (opidx s).
Proof.
  unfold rstep. intros H.
  assert (G : forall r1 s1, logs3 s s1 -> (r1, s1 <| opidx := S (opidx s1) |>) = (r, s') ->
              hlog s' = hlog s /\ hcount s' = hcount s /\ opidx s' = S (opidx s)).
  { intros r1 s1 (A & B & C) E. inversion E; subst. rsimpl. rewrite C. auto. }
  destruct o as [|m|m| |l].
  - destruct (next_reader c s) as [r1 s1] eqn:E. exact (G _ _ (next_reader_default _ _ _ E) H).
  - destruct (cur s).
    + unfold reader_read in H. destruct (read_loop _ c m s) as [[d e] s1] eqn:E.
      exact (G _ _ (logs_eq_3 _ _ (read_loop_default _ _ _ _ _ _ E)) H).
    + exact (G _ _ (logs_eq_3 _ _ (logs_eq_refl s)) H).
  - exact (G _ _ (logs_eq_3 _ _ (logs_eq_refl s)) H).
  - destruct (read_message inflate c s) as [r1 s1] eqn:E. exact (G _ _ (read_message_default _ _ _ E) H).
  - apply (G RUnit (s <| rlimit := l |>)); [repeat split|exact H].
Qed.

Theorem default_handlers_never_log ops : forall s rs s',
  run_ops inflate c s ops = (rs, s') -> hlog s' = hlog s /\ hcount s' = hcount s.
Proof.
  induction ops as [|o ops IH]; intros s rs s' H; cbn [run_ops] in H.
  - inversion H; auto.
  - destruct (rstep inflate c s o) as [x s1] eqn:E.
    destruct (rstep_default _ _ _ _ E) as (A & B & _).
    destruct (run_ops inflate c s1 ops) as [xs s2] eqn:E2.
    destruct (IH _ _ _ E2) as (A2 & B2).
    destruct x; inversion H; subst; split; congruence.
Qed.
End Default.

(* ------------------------------------------------------------------------------------------ *)
(* 6. A conformant prefix, then a frame at which advanceFrame fails (default handlers)        *)
(* ------------------------------------------------------------------------------------------ *)
Lemma next_loop_step_ctl fuel c s op s1 :
  rerror s = None -> advance_frame c s = (AFrame op, s1) -> op <> 1 -> op <> 2 ->
  next_loop (S fuel) c s = next_loop fuel c s1.
Proof.
  intros He Ha H1 H2. cbn [next_loop]. rewrite He, Ha. cbv iota.
  unfold c_TextMessage, c_BinaryMessage.
  replace ((op =? 1) || (op =? 2)) with false by lia. reflexivity.
Qed.

Lemma next_loop_step_err fuel c s e s1 :
  rerror s = None -> advance_frame c s = (AErr e, s1) ->
  next_loop (S fuel) c s = (None, s1 <| rerror := Some e |>).
Proof. intros He Ha. cbn [next_loop]. rewrite He, Ha. reflexivity. Qed.

(* NextReader works through leading pings and pongs *)
Lemma next_loop_ctls k c : custom_handlers c = false ->
  forall cs s fuel rest, all_ctl cs = true ->
  rinv k s -> rem s = 0 -> rfin s = true -> pending (br s) = encode_frames cs ++ rest ->
  Forall wf_frame cs -> seq_ok (server c) false cs = true ->
  exists s1, next_loop (length cs + fuel) c s = next_loop fuel c s1 /\
    rinv k s1 /\ rem s1 = 0 /\ rfin s1 = true /\ pending (br s1) = rest /\
    wlog s1 = wlog s ++ map WPong (pings_of cs) /\ logs_eq s s1 /\ cur s1 = cur s.
Proof.
  intros Hch. induction cs as [|g cs IH]; intros s fuel rest Hall Hrinv Hrem Hfin Hp Hwf Hseq.
  - exists s. cbn [length Nat.add pings_of flat_map map]. rewrite app_nil_r.
    cbn [encode_frames flat_map app] in Hp. split; [reflexivity|]. split; [exact Hrinv|].
    split; [exact Hrem|]. split; [exact Hfin|]. split; [exact Hp|]. split; [reflexivity|].
    split; [apply logs_eq_refl|reflexivity].
  - pose proof Hrinv as (Hinv & Hbs & Hflt & Herr & Hoof & Hcs & Hrlim & Hecnt).
    rewrite all_ctl_cons in Hall. apply andb_true_iff in Hall. destruct Hall as [Hctl Hall].
    inversion Hwf as [|g' cs' Hwfg Hwfs]; subst g' cs'.
    cbn [seq_ok] in Hseq. apply andb_true_iff in Hseq. destruct Hseq as [Hacc Hseq].
    unfold next_open in Hseq. rewrite Hctl in Hseq.
    rewrite encode_frames_cons, <- app_assoc in Hp.
    assert (Haccs : frame_acc (server c) (negb (rfin s)) g = true) by (rewrite Hfin; exact Hacc).
    destruct (advance_ctl k c s g (encode_frames cs ++ rest) Hrinv Hch Hwfg Haccs Hctl Hp)
      as (s1 & Hadv & Hrinv1 & Hrem1 & Hfin1 & Hrlen1 & Hp1 & Hwl1).
    destruct (acc_cases _ _ _ Hacc) as [(_ & Hop & _)|(Hc & _)]; [|congruence].
    assert (Haf : advance_frame c s = (AFrame (opcode g), s1))
      by (rewrite advance_frame_rem0 by exact Hrem; exact Hadv).
    cbn [length Nat.add].
    rewrite (next_loop_step_ctl _ c s (opcode g) s1 Herr Haf) by lia.
    destruct (IH s1 fuel rest Hall Hrinv1 Hrem1) as (s2 & Hnl & Hrinv2 & Hrem2 & Hfin2 & Hp2 & Hwl2 & Hlg2 & Hcur2);
      [rewrite Hfin1; exact Hfin|exact Hp1|exact Hwfs|exact Hseq|].
    exists s2. split; [exact Hnl|]. split; [exact Hrinv2|]. split; [exact Hrem2|].
    split; [exact Hfin2|]. split; [exact Hp2|].
    split; [rewrite Hwl2, Hwl1, <- app_assoc, <- map_app; reflexivity|].
    pose proof (advance_frame_default c s _ s1 Hch Haf) as Hlg1.
    split; [eapply logs_eq_trans; eassumption|].
    rewrite Hcur2.
    (* cur is not touched by advanceFrame on a control frame: read it off advance_ctl_gen *)
    pose proof (frame_acc_ctl_ok _ _ _ Hacc Hctl) as Hok.
    destruct (advance_ctl_gen c s g (encode_frames cs ++ rest) Hinv Hbs Hwfg Hok Hp)
      as (s1' & Hadv' & _ & _ & _ & _ & _ & Hsame).
    rewrite Hadv in Hadv'.
    rewrite (ctl_finish_pingpong_default c (opcode g) (payload g) s1' Hch Hop) in Hadv'.
    inversion Hadv' as [Hs1]. destruct Hsame as (_ & _ & _ & _ & _ & A6 & _).
    destruct (opcode g =? 9); [|exact A6]. unfold send. destruct (closesent s1'); [exact A6|exact A6].
Qed.

(* ReadMessage when NextReader fails *)
Lemma read_message_of_next_none inflate c s s' e :
  next_loop (fuel_of (s <| cur := None |> <| rlen := 0 |>)) c (s <| cur := None |> <| rlen := 0 |>) = (None, s') ->
  rerror s' = Some e -> errcount s' = 0%nat ->
  read_message inflate c s = (RMsg 0 [] (Some e), s' <| errcount := 1%nat |>).
Proof.
  intros Hnl He Hec. unfold read_message, next_reader. rewrite Hnl. cbv iota zeta. rsimpl.
  rewrite Hec, He. reflexivity.
Qed.

Lemma run_readmsgs_opidx inflate c : custom_handlers c = false ->
  forall n l s sA, run_ops inflate c s (repeat OReadMessage n) = (l, sA) ->
  ~ In RPanic l -> length l = n -> opidx sA = (opidx s + n)%nat.
Proof.
  intros Hch. induction n as [|n IH]; intros l s sA H Hnp Hl; cbn [repeat run_ops] in H.
  - inversion H; subst. lia.
  - destruct (rstep inflate c s OReadMessage) as [x s1] eqn:E.
    destruct (rstep_default inflate c Hch _ _ _ _ E) as (_ & _ & Ho).
    destruct (run_ops inflate c s1 (repeat OReadMessage n)) as [xs s2] eqn:E2.
    assert (Hc : x = RPanic \/ (l = x :: xs /\ sA = s2)) by (destruct x; inversion H; subst; auto).
    destruct Hc as [Hc|[-> ->]].
    + subst x. inversion H; subst. exfalso. apply Hnp. left. reflexivity.
    + cbn [length] in Hl. rewrite (IH xs s1 s2 E2); [lia| |lia].
      intros Hin. apply Hnp. right. exact Hin.
Qed.

Section PrefixThenFail.
Variables (inflate : bytes -> option bytes) (c:rcfg) (b:bufio) (fs:list frame) (tail:bytes) (e:rerr).
Variable Post : rst -> rst -> Prop.
Hypothesis Hch : custom_handlers c = false.
Hypothesis Hinv : binv b.
Hypothesis Hbs : (125 <= bsize b)%nat.
Hypothesis Hconf : conformant_frames c fs.
Hypothesis Hp : pending b = encode_frames fs ++ tail.
Hypothesis Htail : tail <> [].
(* whatever comes next makes advanceFrame fail, in any good state at a message boundary *)
Hypothesis Hfail : forall s, rinv (fault (src b)) s -> rem s = 0 -> rfin s = true ->
  pending (br s) = tail ->
  exists s2, advance_frame c s = (AErr e, s2) /\ Post s s2.

Let ms := data_msgs (events_of fs).

Lemma prefix_then_fail :
  exists s1 s2 sF,
    run_ops inflate c (init_rst b) (repeat OReadMessage (S (length ms)))
      = (map out_of ms ++ [RMsg 0 [] (Some e)], sF) /\
    (* the state in which the failing frame is met *)
    rinv (fault (src b)) s1 /\ rem s1 = 0 /\ rfin s1 = true /\ pending (br s1) = tail /\
    wlog s1 = map WPong (pings_of fs) /\ hlog s1 = [] /\ hcount s1 = 0%nat /\
    opidx s1 = length ms /\
    (* the failing advanceFrame *)
    advance_frame c s1 = (AErr e, s2) /\ Post s1 s2 /\
    (* the final state *)
    sF = s2 <| rerror := Some e |> <| errcount := 1%nat |> <| opidx := S (length ms) |>.
Proof.
  set (k := fault (src b)).
  set (extra' := encode_frames (trailer fs) ++ tail).
  assert (Hx : extra' <> [] \/ k = EEOF).
  { left. subst extra'. intros H. apply app_eq_nil in H. destruct H as [_ H]. contradiction. }
  assert (Hp' : pending (br (init_rst b)) = encode_frames (body fs) ++ extra').
  { subst extra'. rewrite app_assoc, <- encode_frames_app, body_trailer. exact Hp. }
  destruct (run_msgs inflate k c extra' Hch Hx (length (body fs)) (body fs) (le_n _)
              (init_rst b) (rinv_init b Hinv Hbs) eq_refl eq_refl Hp' (conformant_body c fs Hconf))
    as (sA & Hrun & Hend & Hrem & Hfin & Hpend & Hwl).
  rewrite msgs_body in Hrun. rewrite trailer_body in Hpend. rewrite body_body in Hwl.
  cbn [encode_frames flat_map app] in Hpend. fold (encode_frames (trailer fs)) in Hpend.
  cbn [init_rst wlog app] in Hwl.
  change (msgs fs) with ms in Hrun.
  assert (HrinvA : rinv k sA).
  { apply rinv_end_rinv; [exact Hend|]. rewrite Hpend. subst extra'. destruct Hx as [Hx|Hx]; [exact Hx|].
    intros H. apply app_eq_nil in H. destruct H as [_ H]. contradiction. }
  destruct (default_handlers_never_log inflate c Hch _ _ _ _ Hrun) as (HhlA & HhcA).
  cbn [init_rst hlog hcount] in HhlA, HhcA.
  assert (HopA : opidx sA = length ms).
  { rewrite (run_readmsgs_opidx inflate c Hch (length ms) (map out_of ms) (init_rst b) sA Hrun
               (out_of_not_panic _) (map_length _ _)). reflexivity. }
  (* the last call *)
  cbn [repeat]. rewrite repeat_cons.
  rewrite (run_ops_app inflate c _ _ _ _ [OReadMessage] Hrun (out_of_not_panic _)).
  cbn [run_ops]. unfold rstep.
  destruct Hconf as (Hwf & Hseq & Hlen).
  assert (Hwft : Forall wf_frame (trailer fs)).
  { rewrite <- (body_trailer fs) in Hwf. apply Forall_app in Hwf. apply Hwf. }
  pose proof (seq_ok_trailer (server c) fs Hseq) as Hseqt.
  set (s0 := sA <| cur := None |> <| rlen := 0 |>).
  assert (Hrinv0 : rinv k s0) by (apply (rinv_same k sA); [exact HrinvA|reflexivity ..]).
  pose proof (encode_frames_length_ge (trailer fs)) as Hge.
  assert (Hfuel : exists f', fuel_of s0 = (length (trailer fs) + S f')%nat).
  { unfold fuel_of. change (br s0) with (br sA). rewrite Hpend. subst extra'. rewrite app_length.
    exists (S (length (encode_frames (trailer fs)) - length (trailer fs) + length tail))%nat. lia. }
  destruct Hfuel as (f' & Hfuel).
  destruct (next_loop_ctls k c Hch (trailer fs) s0 (S f') tail (trailer_all_ctl fs) Hrinv0 Hrem Hfin Hpend Hwft Hseqt)
    as (s1 & Hnl & Hrinv1 & Hrem1 & Hfin1 & Hp1 & Hwl1 & (L1 & L2 & L3 & L4) & Hcur1).
  destruct (Hfail s1 Hrinv1 Hrem1 Hfin1 Hp1) as (s2 & Hadv & HPost).
  pose proof Hrinv1 as (_ & _ & _ & Herr1 & _ & _ & _ & Hec1).
  rewrite (next_loop_step_err f' c s1 e s2 Herr1 Hadv) in Hnl. rewrite <- Hfuel in Hnl.
  pose proof (advance_frame_errcount c s1 _ s2 Hadv) as Hec2.
  rewrite (read_message_of_next_none inflate c sA _ e Hnl eq_refl) by (rsimpl; congruence).
  cbn [fst snd].
  exists s1, s2. eexists. split; [reflexivity|].
  split; [exact Hrinv1|]. split; [exact Hrem1|]. split; [exact Hfin1|]. split; [exact Hp1|].
  split.
  { rewrite Hwl1. change (wlog s0) with (wlog sA). rewrite Hwl, <- map_app, pings_body_trailer. reflexivity. }
  change (hlog s0) with (hlog sA) in L1. change (hcount s0) with (hcount sA) in L2.
  change (opidx s0) with (opidx sA) in L3.
  split; [congruence|]. split; [congruence|]. split; [congruence|].
  split; [exact Hadv|]. split; [exact HPost|].
  rsimpl. rewrite (advance_frame_opidx c s1 _ s2 Hadv), L3, HopA. reflexivity.
Qed.
End PrefixThenFail.

(* ------------------------------------------------------------------------------------------ *)
(* 7. C08 item 3: messages, then a close frame                                                *)
(* ------------------------------------------------------------------------------------------ *)
Definition valid_close (c:rcfg) (f:frame) : Prop :=
  wf_frame f /\ ctl_ok (server c) f /\ opcode f = 8 /\ close_body_bad (payload f) = false.

(* [valid_close] is the Spec's notion: a close frame that does not violate framing *)
Lemma valid_close_spec c open f : wf_frame f -> opcode f = 8 ->
  violates (server c) false open f = false -> valid_close c f.
Proof.
  intros Hwf Hop Hv. unfold violates in Hv. apply orb_false_iff in Hv. destruct Hv as [Hh Hb].
  rewrite Hop in Hb. change (8 =? 8) with true in Hb. cbn [andb] in Hb.
  split; [exact Hwf|]. split; [|split; [exact Hop|exact Hb]].
  apply (ctl_ok_spec (server c) open f); [destruct Hwf as (_ & H & _); exact H|].
  split; [rewrite Hop; reflexivity|exact Hh].
Qed.

Lemma frozen_fields s s' : frozen s s' ->
  br s' = br s /\ hlog s' = hlog s /\ wlog s' = wlog s /\ rerror s' = rerror s.
Proof. intros (A & B & C & D & _). auto. Qed.

Theorem read_messages_with_close :
  forall inflate c b fs cf anything,
    custom_handlers c = false -> binv b -> (125 <= bsize b)%nat ->
    conformant_frames c fs -> valid_close c cf ->
    pending b = encode_frames fs ++ encode_frame cf ++ anything ->
    let ms := data_msgs (events_of fs) in
    let code := close_code (payload cf) in
    let text := close_text (payload cf) in
    exists s',
      run_ops inflate c (init_rst b) (repeat OReadMessage (S (length ms))) =
        (map out_of ms ++ [RMsg 0 [] (Some (RClose code text))], s') /\
      rerror s' = Some (RClose code text) /\
      wlog s' = map WPong (pings_of fs) ++ [WCloseEcho (format_close code)] /\
      closesent s' = true /\ hlog s' = [] /\ outoffuel s' = false /\
      (* the bytes after the close frame are still there ... *)
      pending (br s') = anything /\
      (* ... and stay there: every later operation fails, delivers nothing, calls no handler,
         writes nothing and consumes nothing *)
      (forall ops, exists rs s'', run_ops inflate c s' ops = (rs, s'') /\
         Forall is_failure rs /\ br s'' = br s' /\ hlog s'' = hlog s' /\ wlog s'' = wlog s' /\
         rerror s'' = Some (RClose code text)).
Proof.
  intros inflate c b fs cf anything Hch Hinv Hbs Hconf (Hwfc & Hokc & Hopc & Hgood) Hp ms code text.
  set (Post := fun s1 s2 : rst =>
    wlog s2 = wlog s1 ++ [WCloseEcho (format_close code)] /\ closesent s2 = true /\
    hlog s2 = hlog s1 /\ pending (br s2) = anything /\ outoffuel s2 = false).
  destruct (prefix_then_fail inflate c b fs (encode_frame cf ++ anything) (RClose code text) Post
              Hch Hinv Hbs Hconf Hp) as (s1 & s2 & sF & Hrun & Hrinv1 & Hrem1 & Hfin1 & Hp1 & Hwl1 & Hhl1 & Hhc1 & Hop1 & Hadv & HPost & HsF).
  { rewrite encode_frame_decomp. cbn [app]. discriminate. }
  { intros s Hrinv Hrem Hfin Hps.
    destruct (advance_close_default (fault (src b)) c s cf anything Hrinv Hwfc Hokc Hopc Hrem Hps Hch Hgood)
      as (s2 & Ha & A1 & A2 & A3 & A4 & A5 & A6 & A7 & A8 & A9 & A10).
    exists s2. split; [exact Ha|]. unfold Post. auto. }
  destruct HPost as (P1 & P2 & P3 & P4 & P5).
  exists sF. split; [exact Hrun|].
  assert (HeF : rerror sF = Some (RClose code text)) by (rewrite HsF; reflexivity).
  split; [exact HeF|].
  split; [rewrite HsF; rsimpl; rewrite P1, Hwl1; reflexivity|].
  split; [rewrite HsF; exact P2|]. split; [rewrite HsF; rsimpl; congruence|].
  split; [rewrite HsF; exact P5|]. split; [rewrite HsF; exact P4|].
  intros ops. destruct (errors_are_permanent inflate c ops sF _ HeF) as (rs & s'' & Hr & Hfz & Hfail).
  exists rs, s''. split; [exact Hr|]. split; [exact Hfail|].
  destruct (frozen_fields _ _ Hfz) as (F1 & F2 & F3 & F4). rewrite F4. auto.
Qed.

(* ------------------------------------------------------------------------------------------ *)
(* 8. C08 item 5: an error returned by a handler is returned from the read call and sticks    *)
(* ------------------------------------------------------------------------------------------ *)

(* whatever error advanceFrame reports, NextReader / ReadMessage return it and remember it *)
Lemma next_reader_advance_err c s e s1 :
  rerror s = None -> errcount s = 0%nat ->
  advance_frame c (s <| cur := None |> <| rlen := 0 |>) = (AErr e, s1) ->
  next_reader c s = (RNext 0 (Some e), s1 <| rerror := Some e |> <| errcount := 1%nat |>).
Proof.
  intros He Hec Ha. unfold next_reader.
  set (s0 := s <| cur := None |> <| rlen := 0 |>) in *. unfold fuel_of.
  rewrite (next_loop_step_err _ c s0 e s1 He Ha). cbv iota zeta. rsimpl.
  rewrite (advance_frame_errcount _ _ _ _ Ha). change (errcount s0) with (errcount s).
  rewrite Hec. reflexivity.
Qed.

Lemma read_message_advance_err inflate c s e s1 :
  rerror s = None -> errcount s = 0%nat ->
  advance_frame c (s <| cur := None |> <| rlen := 0 |>) = (AErr e, s1) ->
  read_message inflate c s = (RMsg 0 [] (Some e), s1 <| rerror := Some e |> <| errcount := 1%nat |>).
Proof.
  intros He Hec Ha. unfold read_message.
  rewrite (next_reader_advance_err c s e s1 He Hec Ha). reflexivity.
Qed.

(* ... and so does Read on the current message reader, between two fragments of a message *)
Lemma reader_read_advance_err c m s e s1 :
  rerror s = None -> rem s = 0 -> rfin s = false -> is_io_eof e = false ->
  advance_frame c s = (AErr e, s1) ->
  reader_read c m s = ([], Some e, s1 <| rerror := Some e |>).
Proof.
  intros He Hr Hf Hio Ha. unfold reader_read, fuel_of. cbn [read_loop]. rewrite He, Hr.
  change (0 <? 0) with false. cbv iota. rewrite Hf, Ha.
  destruct (length (pending (br s))); cbn [read_loop]; rsimpl; rewrite Hio; reflexivity.
Qed.

(* the frame whose handler fails: any ping, pong or valid close, recording handlers *)
Lemma advance_handler_fails k c s f rest :
  rinv k s -> custom_handlers c = true -> wf_frame f -> ctl_ok (server c) f ->
  (opcode f = 8 -> close_body_bad (payload f) = false) ->
  rem s = 0 -> pending (br s) = encode_frame f ++ rest ->
  In (hcount s) (handler_fail c) ->
  exists s', advance_frame c s = (AErr (RHandler (N.of_nat (hcount s))), s') /\
    hlog s' = hlog s ++ [hev_of (opidx s) f] /\ hcount s' = S (hcount s) /\ wlog s' = wlog s /\
    pending (br s') = rest.
Proof.
  intros Hrinv Hc Hwf Hok Hcl Hrem Hp Hin. apply hfails_In in Hin.
  pose proof Hok as (_ & _ & [Hop|Hop] & _).
  - destruct (advance_close_custom k c s f rest Hrinv Hwf Hok Hop Hrem Hp Hc (Hcl Hop))
      as (s' & Ha & A1 & A2 & A3 & A4 & A5 & _).
    rewrite Hin in Ha. exists s'. split; [exact Ha|].
    unfold hev_of. rewrite Hop. change (8 =? 9) with false. change (8 =? 10) with false. auto.
  - destruct (advance_ctl_custom k c s f rest Hrinv Hc Hwf Hok Hop Hp)
      as (s' & Ha & _ & _ & _ & _ & A1 & A2 & A3 & A4 & _).
    rewrite Hin in Ha. exists s'. rewrite advance_frame_rem0 by exact Hrem. auto.
Qed.

Theorem handler_error_is_returned_and_permanent inflate k c s f rest :
  rinv k s -> custom_handlers c = true -> wf_frame f -> ctl_ok (server c) f ->
  (opcode f = 8 -> close_body_bad (payload f) = false) ->
  rem s = 0 -> pending (br s) = encode_frame f ++ rest ->
  In (hcount s) (handler_fail c) ->
  let e := RHandler (N.of_nat (hcount s)) in
  let logged s' := rerror s' = Some e /\ hlog s' = hlog s ++ [hev_of (opidx s) f] /\
                   wlog s' = wlog s /\ pending (br s') = rest in
  (* NextReader and ReadMessage, called when this frame is next *)
  (exists s', next_reader c s = (RNext 0 (Some e), s') /\ logged s') /\
  (exists s', read_message inflate c s = (RMsg 0 [] (Some e), s') /\ logged s') /\
  (* Read on the current reader when this frame sits between two fragments *)
  (rfin s = false -> forall m, exists s', reader_read c m s = ([], Some e, s') /\ logged s') /\
  (* and once the error is stored, every operation fails and nothing moves any more *)
  (forall s', rerror s' = Some e -> forall ops, exists rs s'',
     run_ops inflate c s' ops = (rs, s'') /\ frozen s' s'' /\ Forall is_failure rs).
Proof.
  intros Hrinv Hc Hwf Hok Hcl Hrem Hp Hin e logged.
  pose proof Hrinv as (_ & _ & _ & Herr & _ & _ & _ & Hec).
  set (s0 := s <| cur := None |> <| rlen := 0 |>).
  assert (Hrinv0 : rinv k s0) by (apply (rinv_same k s); [exact Hrinv|reflexivity ..]).
  destruct (advance_handler_fails k c s0 f rest Hrinv0 Hc Hwf Hok Hcl Hrem Hp Hin)
    as (s1 & Ha & A1 & A2 & A3 & A4).
  change (hcount s0) with (hcount s) in Ha. change (hlog s0) with (hlog s) in A1.
  change (opidx s0) with (opidx s) in A1. change (wlog s0) with (wlog s) in A3.
  split; [|split; [|split]].
  - eexists. split; [exact (next_reader_advance_err c s _ s1 Herr Hec Ha)|].
    unfold logged. rsimpl. auto.
  - eexists. split; [exact (read_message_advance_err inflate c s _ s1 Herr Hec Ha)|].
    unfold logged. rsimpl. auto.
  - intros Hfin m.
    destruct (advance_handler_fails k c s f rest Hrinv Hc Hwf Hok Hcl Hrem Hp Hin)
      as (s2 & Ha2 & B1 & B2 & B3 & B4).
    eexists. split; [exact (reader_read_advance_err c m s e s2 Herr Hrem Hfin eq_refl Ha2)|].
    unfold logged. rsimpl. auto.
  - intros s' He' ops. exact (errors_are_permanent inflate c ops s' e He').
Qed.

(* ------------------------------------------------------------------------------------------ *)
(* 9. The read path again, for BOTH handler modes and for frame lists that need not end at a  *)
(*    message boundary                                                                        *)
(* ------------------------------------------------------------------------------------------ *)

(* ---------- pure frame-list vocabulary ---------- *)
(* every frame acceptable, [open] threaded; no condition on how the list ends *)
Fixpoint acc_seq (srv open:bool) (fs:list frame) : bool :=
  match fs with
  | [] => true
  | f :: r => frame_acc srv open f && acc_seq srv (next_open open f) r
  end.

Lemma seq_ok_acc_seq srv : forall fs open, seq_ok srv open fs = true -> acc_seq srv open fs = true.
Proof.
  induction fs as [|f r IH]; intros open H; [reflexivity|].
  cbn [seq_ok acc_seq] in *. apply andb_true_iff in H. destruct H as [H1 H2].
  rewrite H1, (IH _ H2). reflexivity.
Qed.

(* inside a message: does it end within [fs]; the payload bytes still to come; the frames one
   ReadMessage consumes; the frames it leaves *)
Fixpoint cont_closes (fs:list frame) : bool :=
  match fs with
  | [] => false
  | f :: r => if is_control (opcode f) then cont_closes r else if fin f then true else cont_closes r
  end.
Fixpoint cont_data (fs:list frame) : bytes :=
  match fs with
  | [] => []
  | f :: r => if is_control (opcode f) then cont_data r
              else if fin f then payload f else payload f ++ cont_data r
  end.
Fixpoint cont_pre (fs:list frame) : list frame :=
  match fs with
  | [] => []
  | f :: r => if is_control (opcode f) then f :: cont_pre r
              else if fin f then [f] else f :: cont_pre r
  end.
Fixpoint cont_after (fs:list frame) : list frame :=
  match fs with
  | [] => []
  | f :: r => if is_control (opcode f) then cont_after r else if fin f then r else cont_after r
  end.

Definition closes (final:bool) (fs:list frame) : bool := if final then true else cont_closes fs.
Definition tail_data (final:bool) (fs:list frame) : bytes := if final then [] else cont_data fs.
Definition consumed (final:bool) (fs:list frame) : list frame := if final then [] else cont_pre fs.
Definition rest_after (final:bool) (fs:list frame) : list frame := if final then fs else cont_after fs.

Lemma cont_msg_eq fs : cont_msg fs = (cont_data fs, pings_of (cont_pre fs), cont_after fs).
Proof.
  induction fs as [|f r IH]; [reflexivity|].
  cbn [cont_msg cont_data cont_pre cont_after]. destruct (is_control (opcode f)) eqn:Hc.
  - rewrite IH. rewrite pings_of_cons. reflexivity.
  - destruct (fin f).
    + rewrite pings_of_cons, (ping1_nonctl f Hc). reflexivity.
    + rewrite IH, pings_of_cons, (ping1_nonctl f Hc). reflexivity.
Qed.

Lemma msg_tail_eq final fs :
  msg_tail final fs = (tail_data final fs, pings_of (consumed final fs), rest_after final fs).
Proof. unfold msg_tail, tail_data, consumed, rest_after. destruct final; [reflexivity|apply cont_msg_eq]. Qed.

Lemma cont_split fs : fs = cont_pre fs ++ cont_after fs.
Proof.
  induction fs as [|f r IH]; [reflexivity|]. cbn [cont_pre cont_after].
  destruct (is_control (opcode f)); [cbn [app]; rewrite <- IH; reflexivity|].
  destruct (fin f); [reflexivity|cbn [app]; rewrite <- IH; reflexivity].
Qed.

Lemma seq_ok_closes srv : forall fs, seq_ok srv true fs = true -> cont_closes fs = true.
Proof.
  induction fs as [|f r IH]; intros H; [discriminate H|].
  cbn [seq_ok] in H. apply andb_true_iff in H. destruct H as [Hacc H].
  cbn [cont_closes]. unfold next_open in H.
  destruct (is_control (opcode f)); [exact (IH H)|].
  destruct (fin f); [reflexivity|exact (IH H)].
Qed.

(* leading control frames *)
Fixpoint lead (fs:list frame) : list frame :=
  match fs with [] => [] | f :: r => if is_control (opcode f) then f :: lead r else [] end.

Lemma find_data_lead : forall fs p f r, find_data fs = Some (p, f, r) ->
  fs = lead fs ++ f :: r /\ p = pings_of (lead fs) /\ is_control (opcode f) = false.
Proof.
  induction fs as [|g fs IH]; intros p f r H; [discriminate H|].
  cbn [find_data lead] in *. destruct (is_control (opcode g)) eqn:Hc.
  - destruct (find_data fs) as [[[p1 d1] a1]|]; [|discriminate H]. inversion H; subst.
    destruct (IH _ _ _ eq_refl) as (A & B & C). cbn [app]. rewrite <- A, pings_of_cons, <- B. auto.
  - inversion H; subst. auto.
Qed.

(* ---------- the effect of control frames on the three logs ---------- *)
Definition logsT := (list hev * nat * list wback)%type.
Definition L (s:rst) : logsT := (hlog s, hcount s, wlog s).

Definition isctl (f:frame) : bool := is_control (opcode f).

(* one frame: a data frame changes nothing; a ping/pong is logged by a recording handler, or
   (ping, default handler) answered by a pong *)
Definition eff1 (c:rcfg) (i:nat) (l:logsT) (g:frame) : logsT :=
  let '(h, n, w) := l in
  if isctl g then
    if custom_handlers c then (h ++ [hev_of i g], S n, w) else (h, n, w ++ map WPong (ping1 g))
  else l.
Definition effs (c:rcfg) (i:nat) (l:logsT) (gs:list frame) : logsT := fold_left (eff1 c i) gs l.

Definition hevs (i:nat) (gs:list frame) : list hev := map (hev_of i) (filter isctl gs).

Lemma effs_app c i l a b : effs c i l (a ++ b) = effs c i (effs c i l a) b.
Proof. unfold effs. apply fold_left_app. Qed.

Lemma effs_custom c i : custom_handlers c = true -> forall gs h n w,
  effs c i (h, n, w) gs = (h ++ hevs i gs, (n + length (filter isctl gs))%nat, w).
Proof.
  intros Hc. induction gs as [|g gs IH]; intros h n w.
  - cbn. rewrite app_nil_r, Nat.add_0_r. reflexivity.
  - unfold effs. cbn [fold_left]. fold (effs c i (eff1 c i (h, n, w) g) gs).
    unfold eff1, hevs. cbn [filter]. rewrite Hc. destruct (isctl g).
    + rewrite IH. unfold hevs. cbn [map length]. rewrite <- app_assoc. cbn [app].
      f_equal. f_equal. lia.
    + rewrite IH. reflexivity.
Qed.

Lemma effs_default c i : custom_handlers c = false -> forall gs h n w,
  effs c i (h, n, w) gs = (h, n, w ++ map WPong (pings_of gs)).
Proof.
  intros Hc. induction gs as [|g gs IH]; intros h n w.
  - cbn. rewrite app_nil_r. reflexivity.
  - unfold effs. cbn [fold_left]. fold (effs c i (eff1 c i (h, n, w) g) gs).
    unfold eff1. rewrite Hc, pings_of_cons. destruct (isctl g) eqn:E.
    + rewrite IH, <- app_assoc, <- map_app. reflexivity.
    + unfold isctl in E. rewrite IH, (ping1_nonctl g E). reflexivity.
Qed.

(* ---------- stamps: what a recording handler must have logged, frame by frame.  Every control
   frame is stamped with the number of data messages completed before it, i.e. the index of the
   ReadMessage call that returns the message it precedes or interrupts ---------- *)
Fixpoint stamps (i:nat) (fs:list frame) : list hev :=
  match fs with
  | [] => []
  | f :: r => if isctl f then hev_of i f :: stamps i r
              else if fin f then stamps (S i) r else stamps i r
  end.

Lemma stamps_cont i : forall fs, stamps i fs = hevs i (cont_pre fs) ++ stamps (S i) (cont_after fs).
Proof.
  induction fs as [|f r IH]; [reflexivity|].
  cbn [stamps cont_pre cont_after]. unfold isctl at 1. destruct (is_control (opcode f)) eqn:Hc.
  - unfold hevs. cbn [filter]. unfold isctl at 1. rewrite Hc. cbn [map app]. rewrite IH. reflexivity.
  - destruct (fin f).
    + unfold hevs. cbn [filter]. unfold isctl. rewrite Hc. reflexivity.
    + unfold hevs. cbn [filter]. unfold isctl at 1. rewrite Hc. exact IH.
Qed.

Lemma stamps_lead i : forall fs, stamps i fs = hevs i (lead fs) ++ stamps i (skipn (length (lead fs)) fs).
Proof.
  induction fs as [|f r IH]; [reflexivity|].
  cbn [lead]. destruct (is_control (opcode f)) eqn:Hc.
  - cbn [length skipn stamps]. unfold isctl at 1. rewrite Hc.
    unfold hevs. cbn [filter]. unfold isctl at 1. rewrite Hc. cbn [map app]. rewrite IH. reflexivity.
  - reflexivity.
Qed.

(* one whole message: leading control frames, first data frame, rest of the message *)
Lemma stamps_first_msg i fs p f r : find_data fs = Some (p, f, r) ->
  stamps i fs = hevs i (lead fs ++ consumed (fin f) r) ++ stamps (S i) (rest_after (fin f) r).
Proof.
  intros H. destruct (find_data_lead _ _ _ _ H) as (Hfs & _ & Hc).
  pose proof (f_equal (skipn (length (lead fs))) Hfs) as Hsk.
  rewrite skipn_app, Nat.sub_diag, skipn_all in Hsk. cbn [skipn app] in Hsk.
  rewrite (stamps_lead i fs), Hsk. cbn [stamps].
  unfold isctl at 1. rewrite Hc.
  unfold hevs at 2. rewrite filter_app, map_app. fold (hevs i (lead fs)). fold (hevs i (consumed (fin f) r)).
  rewrite <- app_assoc. f_equal.
  unfold consumed, rest_after. destruct (fin f); [reflexivity|apply stamps_cont].
Qed.

Definition ctl_payload (f:frame) : N * bytes := (opcode f, payload f).
Definition hev_payload (e:hev) : N * bytes :=
  match e with
  | HPing _ p => (9, p)
  | HPong _ p => (10, p)
  | HClose _ code text => (8, (if code =? 1005 then [] else be_enc 2 code) ++ text)
  end.
Definition hev_idx (e:hev) : nat :=
  match e with HPing i _ | HPong i _ | HClose i _ _ => i end.

(* the log has exactly the ping/pong frames of the stream, in wire order, exact payloads *)
Lemma stamps_payloads : forall fs i, Forall (fun f => opcode f = 9 \/ opcode f = 10 \/ isctl f = false) fs ->
  map hev_payload (stamps i fs) = map ctl_payload (filter isctl fs).
Proof.
  induction fs as [|f r IH]; intros i H; [reflexivity|].
  inversion H as [|f' r' Hf Hr]; subst. cbn [stamps filter].
  destruct (isctl f) eqn:Hc.
  - cbn [map]. rewrite (IH i Hr). f_equal.
    unfold hev_of, ctl_payload. destruct Hf as [Ho|[Ho|Ho]]; [| |congruence]; rewrite Ho; reflexivity.
  - destruct (fin f); apply IH; exact Hr.
Qed.

(* number of data messages completed within a frame list *)
Fixpoint nfin (fs:list frame) : nat :=
  match fs with
  | [] => O
  | f :: r => if isctl f then nfin r else if fin f then S (nfin r) else nfin r
  end.

(* wire order relative to the data: the control frame [g] that comes after the frames [l1] is
   logged during the ReadMessage call number [nfin l1] (counting from [i]) -- the call that
   returns the message [g] precedes or interrupts; never a later one *)
Lemma stamps_app : forall l1 i l2, stamps i (l1 ++ l2) = stamps i l1 ++ stamps (i + nfin l1) l2.
Proof.
  induction l1 as [|f r IH]; intros i l2; [cbn; rewrite Nat.add_0_r; reflexivity|].
  cbn [app stamps nfin]. destruct (isctl f).
  - cbn [app]. rewrite IH. reflexivity.
  - destruct (fin f); rewrite IH; [f_equal; f_equal; lia|reflexivity].
Qed.

Corollary stamps_at l1 g l2 i : isctl g = true ->
  stamps i (l1 ++ g :: l2) = stamps i l1 ++ hev_of (i + nfin l1) g :: stamps (i + nfin l1) l2.
Proof. intros H. rewrite stamps_app. cbn [stamps]. rewrite H. reflexivity. Qed.

(* ---------- advanceFrame on a ping / pong, either handler mode (no failing handler) -------- *)
Lemma advance_pp k c s f rest :
  rinv k s -> (custom_handlers c = true -> handler_fail c = []) -> wf_frame f ->
  frame_acc (server c) (negb (rfin s)) f = true -> is_control (opcode f) = true ->
  pending (br s) = encode_frame f ++ rest ->
  exists s', advance_after_skip c s = (AFrame (opcode f), s') /\
    rinv k s' /\ rem s' = 0 /\ rfin s' = rfin s /\ rlen s' = rlen s /\ pending (br s') = rest /\
    L s' = eff1 c (opidx s) (L s) f /\ opidx s' = opidx s.
Proof.
  intros Hrinv Hnf Hwf Hacc Hctl Hp. destruct (custom_handlers c) eqn:Hc.
  - destruct (advance_ctl_custom_acc k c s f rest Hrinv Hc Hwf Hacc Hctl Hp)
      as (s' & Ha & A1 & A2 & A3 & A4 & A5 & A6 & A7 & A8 & A9).
    rewrite (hfails_nil c _ (Hnf eq_refl)) in Ha. exists s'. split; [exact Ha|].
    unfold L, eff1, isctl. rewrite Hctl, Hc, A6, A7, A8. auto 10.
  - destruct (advance_ctl k c s f rest Hrinv Hc Hwf Hacc Hctl Hp)
      as (s' & Ha & A1 & A2 & A3 & A4 & A5 & A6).
    destruct (aas_default c s _ s' Hc Ha) as (B1 & B2 & B3 & B4).
    exists s'. split; [exact Ha|].
    unfold L, eff1, isctl. rewrite Hctl, Hc, A6, B1, B2. auto 10.
Qed.

Lemma advance_data_L k c s f rest :
  rinv k s -> wf_frame f -> frame_acc (server c) (negb (rfin s)) f = true ->
  is_control (opcode f) = false ->
  pending (br s) = encode_frame f ++ rest ->
  (if opcode f =? 0 then rlen s else 0) + plen f < 2^63 ->
  exists s', advance_after_skip c s = (AFrame (opcode f), s') /\
    rinv k s' /\ rem s' = plen f /\ rfin s' = fin f /\
    rlen s' = (if opcode f =? 0 then rlen s else 0) + plen f /\
    pending (br s') = wire_payload f ++ rest /\
    unmask c s' (wire_payload f) = payload f /\
    rdecomp s' = false /\ L s' = L s /\ opidx s' = opidx s.
Proof.
  intros Hrinv Hwf Hacc Hctl Hp Hlen.
  destruct (advance_data k c s f rest Hrinv Hwf Hacc Hctl Hp Hlen)
    as (s' & Ha & A1 & A2 & A3 & A4 & A5 & A6 & A7 & A8).
  unfold is_control in Hctl.
  destruct (aas_data_logs c s _ s' Ha ltac:(lia) ltac:(lia)) as (B1 & B2 & B3 & B4).
  exists s'. split; [exact Ha|]. unfold L. rewrite B1, B2, A8. auto 12.
Qed.

Lemma read_loop_stuck fuel c m s e : rerror s = Some e -> is_io_eof e = false ->
  read_loop fuel c m s = ([], Some e, s).
Proof. intros H Hio. destruct fuel; cbn [read_loop]; rewrite H, Hio; reflexivity. Qed.

Lemma ra_cont_err fa c len cp acc d e s : is_io_eof e = false ->
  ra_cont fa c len cp acc (d, Some e, s) = (acc ++ d, Some e, s).
Proof. intros H. cbn [ra_cont]. destruct e; try reflexivity. discriminate H. Qed.

Section Gen.
Variables (k:errk) (c:rcfg) (tail:bytes) (e:rerr) (Post:rst -> rst -> Prop).
Hypothesis Hnf : custom_handlers c = true -> handler_fail c = [].
Hypothesis Hx : tail <> [] \/ k = EEOF.
Hypothesis Hio : is_io_eof e = false.

(* what happens when the message in progress does NOT end within the frames considered: the
   next thing on the wire makes advanceFrame fail *)
Definition open_fail : Prop :=
  tail <> [] /\
  forall s1, rinv k s1 -> rem s1 = 0 -> rfin s1 = false -> pending (br s1) = tail ->
    exists s2, advance_frame c s1 = (AErr e, s2) /\ Post s1 s2.

Definition closed_post (final:bool) (i:nat) (l0:logsT) (fs:list frame) (s':rst) : Prop :=
  rinv_end k s' /\ rem s' = 0 /\ rfin s' = true /\
  pending (br s') = encode_frames (rest_after final fs) ++ tail /\
  L s' = effs c i l0 (consumed final fs) /\ opidx s' = i.

Definition open_post (final:bool) (i:nat) (l0:logsT) (fs:list frame) (s':rst) : Prop :=
  exists s1 s2, rinv k s1 /\ rem s1 = 0 /\ rfin s1 = false /\ pending (br s1) = tail /\
    L s1 = effs c i l0 (consumed final fs) /\ opidx s1 = i /\
    advance_frame c s1 = (AErr e, s2) /\ Post s1 s2 /\ s' = s2 <| rerror := Some e |>.

Definition ra_post (final:bool) (i:nat) (l0:logsT) (fs:list frame) (r:option rerr) (s':rst) : Prop :=
  if closes final fs then r = None /\ closed_post final i l0 fs s'
  else r = Some e /\ open_post final i l0 fs s'.

Lemma ra_post_ctl f i l0 fs r s' : is_control (opcode f) = true ->
  ra_post false i (eff1 c i l0 f) fs r s' -> ra_post false i l0 (f :: fs) r s'.
Proof.
  intros Hc H. unfold ra_post, closes, closed_post, open_post, consumed, rest_after in *.
  cbn [cont_closes cont_pre cont_after]. rewrite Hc. exact H.
Qed.

Lemma eff1_data i l0 f : is_control (opcode f) = false -> eff1 c i l0 f = l0.
Proof. intros H. unfold eff1, isctl. rewrite H. destruct l0 as [[h n] w]. reflexivity. Qed.

Lemma ra_post_more f i l0 fs r s' : is_control (opcode f) = false -> fin f = false ->
  ra_post false i l0 fs r s' -> ra_post false i l0 (f :: fs) r s'.
Proof.
  intros Hc Hf H. unfold ra_post, closes, closed_post, open_post, consumed, rest_after in *.
  cbn [cont_closes cont_pre cont_after]. rewrite Hc, Hf.
  unfold effs in *. cbn [fold_left]. rewrite (eff1_data i l0 f Hc). exact H.
Qed.

Lemma ra_post_fin f i l0 fs r s' : is_control (opcode f) = false -> fin f = true ->
  ra_post true i l0 fs r s' -> ra_post false i l0 (f :: fs) r s'.
Proof.
  intros Hc Hf H. unfold ra_post, closes, closed_post, open_post, consumed, rest_after in *.
  cbn [cont_closes cont_pre cont_after]. rewrite Hc, Hf.
  unfold effs in *. cbn [fold_left] in *. rewrite (eff1_data i l0 f Hc). exact H.
Qed.

Lemma tail_data_ctl f fs : is_control (opcode f) = true -> tail_data false (f :: fs) = tail_data false fs.
Proof. intros H. unfold tail_data. cbn [cont_data]. rewrite H. reflexivity. Qed.
Lemma tail_data_data f fs : is_control (opcode f) = false ->
  tail_data false (f :: fs) = payload f ++ tail_data (fin f) fs.
Proof.
  intros H. unfold tail_data. cbn [cont_data]. rewrite H.
  destruct (fin f); [rewrite app_nil_r|]; reflexivity.
Qed.

(* ReadAll from the middle of a frame to the end of the message -- or to the failing frame *)
Lemma ra_gen : forall fs n wp, length wp = n -> forall s fa fl len cp acc,
  rinv k s -> rem s = blen wp -> pending (br s) = wp ++ encode_frames fs ++ tail ->
  Forall wf_frame fs -> acc_seq (server c) (negb (rfin s)) fs = true ->
  rlen s + blen (encode_frames fs) < 2^63 ->
  len < cp -> (length (pending (br s)) < fl)%nat -> (length (pending (br s)) <= fa)%nat ->
  (closes (rfin s) fs = false -> open_fail) ->
  exists r s', ra_cont fa c len cp acc (read_loop fl c (N.to_nat (cp - len)) s)
             = (acc ++ unmask c s wp ++ tail_data (rfin s) fs, r, s') /\
    ra_post (rfin s) (opidx s) (L s) fs r s'.
Proof.
  induction fs as [|f fs IHfs].
  - (* no further frame *)
    induction n as [n IHn] using lt_wf_ind.
    intros wp Hn s fa fl len cp acc Hrinv Hrem Hp Hwf Hseq Hrl Hlc Hfl Hfa Hopen.
    pose proof Hrinv as (Hinv & Hbs & Hflt & Herr & Hoof & Hcs & Hrlim & Hecnt).
    destruct fl as [|fl]; [lia|].
    destruct wp as [|x wp'] eqn:Ewp.
    + destruct (rfin s) eqn:Efin.
      * (* the message is complete *)
        rewrite (read_loop_eof fl c _ s Herr Hrem Efin). cbn [ra_cont].
        eexists. eexists. split; [rewrite unmask_nil; reflexivity|].
        unfold ra_post, closes. split; [reflexivity|]. unfold closed_post, consumed, rest_after. rsimpl.
        split; [apply rinv_rinv_end; apply (rinv_upd k s); auto|].
        cbn [encode_frames flat_map app] in *. auto 10.
      * (* still open: the failing frame is next *)
        destruct (Hopen eq_refl) as (Htl & Hfail).
        cbn [app encode_frames flat_map] in Hp.
        destruct (Hfail s Hrinv Hrem Efin Hp) as (s2 & Hadv & HPost).
        assert (Hrl0 : read_loop (S fl) c (N.to_nat (cp - len)) s = ([], Some e, s2 <| rerror := Some e |>)).
        { cbn [read_loop]. rewrite Herr, Hrem. change (0 <? 0) with false. cbv iota.
          rewrite Efin, Hadv. apply read_loop_stuck; [reflexivity|exact Hio]. }
        rewrite Hrl0, (ra_cont_err _ _ _ _ _ _ _ _ Hio).
        eexists. eexists. split; [rewrite unmask_nil; reflexivity|].
        unfold ra_post, closes. cbn [cont_closes]. split; [reflexivity|].
        exists s, s2. unfold consumed. cbn [cont_pre effs fold_left]. auto 12.
    + rewrite <- Ewp in *.
      assert (Hwne : wp <> []) by (rewrite Ewp; discriminate).
      assert (Hm : (0 < N.to_nat (cp - len))%nat) by lia.
      destruct (read_loop_chunk k c _ fl s wp (encode_frames [] ++ tail) Hrinv Hm Hwne Hrem Hp)
        as (w1 & w2 & e0 & s1 & Hw & Hw1 & Hb1 & Hrl1 & Hp1 & Hrem1 & Hfin1 & Hrlen1 & Hwl1 & Hun &
            Hinv1 & Hbs1 & Hfl1 & Hoof1 & Hcs1 & Hrlim1 & Herr1 & Hec1 & He).
      assert (Hwpos : 0 < rem s) by (rewrite Hrem; destruct wp; [congruence|unfold blen; cbn [length]; lia]).
      destruct (read_loop_chunk_logs _ _ _ _ _ _ _ Herr Hwpos Hrl1) as (G1 & G2 & G3 & _).
      assert (HL1 : L s1 = L s) by (unfold L; rewrite G1, G2, Hwl1; reflexivity).
      rewrite Hrl1. cbn [ra_cont].
      assert (Hbu : blen (unmask c s w1) = blen w1) by (unfold blen; rewrite unmask_length; reflexivity).
      assert (Hlen1 : (length (pending (br s)) = length w1 + length (pending (br s1)))%nat).
      { rewrite Hp, Hp1, Hw, <- app_assoc, app_length. reflexivity. }
      assert (Hw1pos : (0 < length w1)%nat) by (destruct w1; [congruence|cbn [length]; lia]).
      destruct He as [-> | [Hnil ->]].
      * (* more to read *)
        destruct fa as [|fa]; [lia|].
        rewrite read_all_S. unfold reader_read.
        assert (Hrinv1 : rinv k s1) by (unfold rinv; rewrite Hbs1, Hec1; auto 12).
        destruct (IHn (length w2) ltac:(subst n; rewrite Hw, app_length; lia) w2 eq_refl s1 fa
                    (fuel_of s1) (len + blen (unmask c s w1))
                    (if len + blen (unmask c s w1) =? cp then next_cap (caps c) cp else cp)
                    (acc ++ unmask c s w1))
          as (r & s' & Hres & Hpost);
          [exact Hrinv1|exact Hrem1|exact Hp1|exact Hwf|rewrite Hfin1; exact Hseq
          |rewrite Hrlen1; exact Hrl
          | rewrite Hbu; destruct (N.eqb_spec (len + blen w1) cp) as [Hq|Hq];
              [pose proof (next_cap_gt (caps c) cp ltac:(lia)); lia|lia]
          |unfold fuel_of; lia|lia|rewrite Hfin1; exact Hopen|].
        exists r, s'. split.
        { rewrite Hres. rewrite Hun, Hfin1, <- !app_assoc. reflexivity. }
        rewrite Hfin1, G3, HL1 in Hpost. exact Hpost.
      * (* the transport fault came with the last bytes of the stream *)
        apply app_eq_nil in Hnil. destruct Hnil as [Hw2 Hnil]. cbn [encode_frames flat_map app] in Hnil.
        destruct (rfin s) eqn:Efin; [|destruct (Hopen eq_refl) as (Htl & _); contradiction].
        destruct Hx as [Hx1|Hx1]; [contradiction|].
        rewrite Hx1. cbn [negb andb errk_eqb of_errk].
        eexists. eexists. split.
        { rewrite Hw, Hw2, !app_nil_r. reflexivity. }
        unfold ra_post, closes. split; [reflexivity|].
        unfold closed_post, consumed, rest_after. cbn [effs fold_left].
        split.
        { unfold rinv_end. rewrite Hbs1.
          split; [exact Hinv1|]. split; [exact Hbs|]. split; [exact Hfl1|].
          split; [|split; [exact Hoof1|split; [exact Hcs1|split; [exact Hrlim1|rewrite Hec1; exact Hecnt]]]].
          right. rewrite Herr1, Hp1, Hw2, Hnil, Hx1.
          cbn [negb andb errk_eqb of_errk app encode_frames flat_map]. auto. }
        rewrite Hrem1, Hw2, Hfin1, Hp1, Hw2. cbn [app]. auto 10.
  - (* at least one more frame *)
    induction n as [n IHn] using lt_wf_ind.
    intros wp Hn s fa fl len cp acc Hrinv Hrem Hp Hwf Hseq Hrl Hlc Hfl Hfa Hopen.
    pose proof Hrinv as (Hinv & Hbs & Hflt & Herr & Hoof & Hcs & Hrlim & Hecnt).
    destruct fl as [|fl]; [lia|].
    inversion Hwf as [|f' fs' Hwff Hwfs]; subst f' fs'.
    cbn [acc_seq] in Hseq. apply andb_true_iff in Hseq. destruct Hseq as [Hacc Hseq].
    destruct wp as [|x wp'] eqn:Ewp.
    + (* frame boundary *)
      cbn [app] in Hp. rewrite encode_frames_cons, <- app_assoc in Hp.
      destruct (rfin s) eqn:Efin.
      * (* the message is complete *)
        rewrite (read_loop_eof fl c _ s Herr Hrem Efin). cbn [ra_cont].
        eexists. eexists. split; [rewrite unmask_nil; reflexivity|].
        unfold ra_post, closes. split; [reflexivity|]. unfold closed_post, consumed, rest_after. rsimpl.
        split; [apply rinv_rinv_end; apply (rinv_upd k s); auto|].
        rewrite encode_frames_cons, <- app_assoc. cbn [effs fold_left]. auto 10.
      * (* open message: the next frame is a control frame or a continuation *)
        cbn [negb] in Hacc, Hseq.
        assert (Hlenp : (length (pending (br s)) =
                         length (encode_frame f) + length (encode_frames fs ++ tail))%nat)
          by (rewrite Hp, app_length; reflexivity).
        pose proof (encode_frame_length_ge2 f) as Hge2.
        assert (Hrlf : rlen s + plen f + blen (encode_frames fs) < 2^63).
        { rewrite encode_frames_cons, blen_app in Hrl. pose proof (encode_frame_ge_plen f). lia. }
        assert (Haccs : frame_acc (server c) (negb (rfin s)) f = true) by (rewrite Efin; exact Hacc).
        destruct (acc_cases _ _ _ Hacc) as [(Hctl & Hop & _)|(Hctl & [(_ & Hxx)|(Hop & _)])];
          [| discriminate Hxx |].
        -- (* ping / pong *)
           unfold next_open in Hseq. rewrite Hctl in Hseq.
           destruct (advance_pp k c s f (encode_frames fs ++ tail) Hrinv Hnf Hwff Haccs Hctl Hp)
             as (s1 & Hadv & Hrinv1 & Hrem1 & Hfin1 & Hrlen1 & Hp1 & HL1 & Ho1).
           rewrite (read_loop_adv fl c _ s (opcode f) s1 Herr Hrem Efin Hadv) by lia.
           destruct (IHfs 0%nat [] eq_refl s1 fa fl len cp acc) as (r & s' & Hres & Hpost);
             [exact Hrinv1|exact Hrem1|exact Hp1|exact Hwfs|rewrite Hfin1, Efin; exact Hseq
             |rewrite Hrlen1; rewrite encode_frames_cons, blen_app in Hrl; lia
             |exact Hlc|rewrite Hp1; lia|rewrite Hp1; lia
             |rewrite Hfin1, Efin; intros Hcl; apply Hopen; unfold closes in *; cbn [cont_closes];
              rewrite Hctl; exact Hcl|].
           exists r, s'. split; [rewrite Hres, !unmask_nil, Hfin1, Efin, (tail_data_ctl f fs Hctl); reflexivity|].
           rewrite Hfin1, Efin, Ho1, HL1 in Hpost. apply ra_post_ctl; assumption.
        -- (* continuation frame *)
           unfold next_open in Hseq. rewrite Hctl in Hseq.
           destruct (advance_data_L k c s f (encode_frames fs ++ tail) Hrinv Hwff Haccs Hctl Hp)
             as (s1 & Hadv & Hrinv1 & Hrem1 & Hfin1 & Hrlen1 & Hp1 & Hun1 & _ & HL1 & Ho1);
             [rewrite Hop; change (0 =? 0) with true; cbv iota; lia|].
           rewrite Hop in Hrlen1. change (0 =? 0) with true in Hrlen1. cbv iota in Hrlen1.
           rewrite (read_loop_adv fl c _ s (opcode f) s1 Herr Hrem Efin Hadv) by lia.
           assert (Hwpl : (length (wire_payload f) <= length (encode_frame f) - 2)%nat).
           { rewrite encode_frame_decomp. cbn [length]. rewrite !app_length. lia. }
           destruct (IHfs (length (wire_payload f)) (wire_payload f) eq_refl s1 fa fl len cp acc)
             as (r & s' & Hres & Hpost);
             [exact Hrinv1|rewrite Hrem1; symmetry; apply wire_payload_blen|exact Hp1|exact Hwfs
             |rewrite Hfin1; exact Hseq|rewrite Hrlen1; exact Hrlf
             |exact Hlc|rewrite Hp1, app_length; lia|rewrite Hp1, app_length; lia
             |rewrite Hfin1; intros Hcl; apply Hopen; unfold closes in *; cbn [cont_closes];
              rewrite Hctl; destruct (fin f); [discriminate Hcl|exact Hcl]|].
           exists r, s'. split.
           { rewrite Hres, Hun1, unmask_nil, Hfin1, (tail_data_data f fs Hctl). reflexivity. }
           rewrite Hfin1, Ho1, HL1 in Hpost.
           destruct (fin f) eqn:Ef; [apply ra_post_fin; assumption|apply ra_post_more; assumption].
    + (* inside a frame *)
      rewrite <- Ewp in *.
      assert (Hwne : wp <> []) by (rewrite Ewp; discriminate).
      assert (Hm : (0 < N.to_nat (cp - len))%nat) by lia.
      destruct (read_loop_chunk k c _ fl s wp (encode_frames (f :: fs) ++ tail) Hrinv Hm Hwne Hrem Hp)
        as (w1 & w2 & e0 & s1 & Hw & Hw1 & Hb1 & Hrl1 & Hp1 & Hrem1 & Hfin1 & Hrlen1 & Hwl1 & Hun &
            Hinv1 & Hbs1 & Hfl1 & Hoof1 & Hcs1 & Hrlim1 & Herr1 & Hec1 & He).
      assert (Hwpos : 0 < rem s) by (rewrite Hrem; destruct wp; [congruence|unfold blen; cbn [length]; lia]).
      destruct (read_loop_chunk_logs _ _ _ _ _ _ _ Herr Hwpos Hrl1) as (G1 & G2 & G3 & _).
      assert (HL1 : L s1 = L s) by (unfold L; rewrite G1, G2, Hwl1; reflexivity).
      rewrite Hrl1. cbn [ra_cont].
      assert (Hbu : blen (unmask c s w1) = blen w1) by (unfold blen; rewrite unmask_length; reflexivity).
      assert (Hlen1 : (length (pending (br s)) = length w1 + length (pending (br s1)))%nat).
      { rewrite Hp, Hp1, Hw, <- app_assoc, app_length. reflexivity. }
      assert (Hw1pos : (0 < length w1)%nat) by (destruct w1; [congruence|cbn [length]; lia]).
      destruct He as [-> | [Hnil _]].
      * destruct fa as [|fa]; [lia|].
        rewrite read_all_S. unfold reader_read.
        assert (Hrinv1 : rinv k s1) by (unfold rinv; rewrite Hbs1, Hec1; auto 12).
        destruct (IHn (length w2) ltac:(subst n; rewrite Hw, app_length; lia) w2 eq_refl s1 fa
                    (fuel_of s1) (len + blen (unmask c s w1))
                    (if len + blen (unmask c s w1) =? cp then next_cap (caps c) cp else cp)
                    (acc ++ unmask c s w1))
          as (r & s' & Hres & Hpost);
          [exact Hrinv1|exact Hrem1|exact Hp1|exact Hwf
          |rewrite Hfin1; cbn [acc_seq]; rewrite Hacc, Hseq; reflexivity
          |rewrite Hrlen1; exact Hrl
          | rewrite Hbu; destruct (N.eqb_spec (len + blen w1) cp) as [Hq|Hq];
              [pose proof (next_cap_gt (caps c) cp ltac:(lia)); lia|lia]
          |unfold fuel_of; lia|lia|rewrite Hfin1; exact Hopen|].
        exists r, s'. split.
        { rewrite Hres. rewrite Hun, Hfin1, <- !app_assoc. reflexivity. }
        rewrite Hfin1, G3, HL1 in Hpost. exact Hpost.
      * (* impossible: a whole frame is still pending *)
        exfalso. apply app_eq_nil in Hnil. destruct Hnil as [_ Hnil].
        apply app_eq_nil in Hnil. destruct Hnil as [Hnil _].
        apply encode_frames_nil_inv in Hnil. discriminate Hnil.
Qed.
End Gen.

Section Gen2.
Variables (k:errk) (c:rcfg) (tail:bytes) (e:rerr) (Post:rst -> rst -> Prop).
Hypothesis Hnf : custom_handlers c = true -> handler_fail c = [].
Hypothesis Hx : tail <> [] \/ k = EEOF.
Hypothesis Hio : is_io_eof e = false.

(* NextReader's loop: leading pings/pongs (either handler mode), then the first data frame *)
Lemma next_loop_gen : forall fs p f r, find_data fs = Some (p, f, r) ->
  forall s fuel, rinv k s -> rem s = 0 -> rfin s = true ->
  pending (br s) = encode_frames fs ++ tail ->
  Forall wf_frame fs -> acc_seq (server c) false fs = true ->
  blen (encode_frames fs) < 2^63 -> (length (pending (br s)) < fuel)%nat ->
  exists s', next_loop fuel c s = (Some (opcode f), s') /\
    rinv k s' /\ rem s' = plen f /\ rfin s' = fin f /\ rlen s' = plen f /\
    pending (br s') = wire_payload f ++ encode_frames r ++ tail /\
    unmask c s' (wire_payload f) = payload f /\ rdecomp s' = false /\
    L s' = effs c (opidx s) (L s) (lead fs) /\ opidx s' = opidx s /\
    Forall wf_frame r /\ acc_seq (server c) (negb (fin f)) r = true /\
    plen f + blen (encode_frames r) < 2^63 /\ (opcode f = 1 \/ opcode f = 2).
Proof.
  induction fs as [|g fs IH]; intros p f r Hfd s fuel Hrinv Hrem Hfin Hp Hwf Hseq Hlen Hfuel;
    [discriminate Hfd|].
  pose proof Hrinv as (Hinv & Hbs & Hflt & Herr & Hoof & Hcs & Hrlim & Hecnt).
  inversion Hwf as [|g' fs' Hwfg Hwfs]; subst g' fs'.
  cbn [acc_seq] in Hseq. apply andb_true_iff in Hseq. destruct Hseq as [Hacc Hseq].
  rewrite encode_frames_cons, <- app_assoc in Hp.
  rewrite encode_frames_cons, blen_app in Hlen.
  pose proof (encode_frame_length_ge2 g) as Hge2.
  assert (Hlenp : (length (pending (br s)) =
                   length (encode_frame g) + length (encode_frames fs ++ tail))%nat)
    by (rewrite Hp, app_length; reflexivity).
  assert (Haccs : frame_acc (server c) (negb (rfin s)) g = true) by (rewrite Hfin; exact Hacc).
  destruct fuel as [|fuel]; [lia|].
  cbn [next_loop]. rewrite Herr. rewrite advance_frame_rem0 by exact Hrem.
  cbn [find_data] in Hfd. unfold next_open in Hseq. cbn [lead].
  destruct (is_control (opcode g)) eqn:Hctl.
  - destruct (find_data fs) as [[[p1 d1] a1]|] eqn:Efd; [|discriminate Hfd].
    inversion Hfd; subst p d1 a1. clear Hfd.
    destruct (advance_pp k c s g (encode_frames fs ++ tail) Hrinv Hnf Hwfg Haccs Hctl Hp)
      as (s1 & Hadv & Hrinv1 & Hrem1 & Hfin1 & Hrlen1 & Hp1 & HL1 & Ho1).
    rewrite Hadv. cbv iota.
    destruct (acc_cases _ _ _ Hacc) as [(_ & Hop & _)|(Hc & _)]; [|congruence].
    unfold c_TextMessage, c_BinaryMessage.
    replace ((opcode g =? 1) || (opcode g =? 2)) with false by lia. cbv iota.
    destruct (IH p1 f r eq_refl s1 fuel Hrinv1 Hrem1) as (s' & Hres & Hrest);
      [rewrite Hfin1; exact Hfin|exact Hp1|exact Hwfs|exact Hseq|lia|rewrite Hp1; lia|].
    exists s'. split; [exact Hres|].
    rewrite Ho1, HL1 in Hrest. cbn [effs fold_left]. exact Hrest.
  - inversion Hfd; subst p g fs. clear Hfd.
    destruct (acc_cases _ _ _ Hacc) as [(Hc & _)|(_ & [(Hop & _)|(_ & Hxx)])];
      [congruence| |discriminate Hxx].
    assert (Hop0 : (opcode f =? 0) = false) by lia.
    destruct (advance_data_L k c s f (encode_frames r ++ tail) Hrinv Hwfg Haccs Hctl Hp)
      as (s1 & Hadv & Hrinv1 & Hrem1 & Hfin1 & Hrlen1 & Hp1 & Hun1 & Hdec1 & HL1 & Ho1);
      [rewrite Hop0; pose proof (encode_frame_ge_plen f); lia|].
    rewrite Hop0 in Hrlen1.
    rewrite Hadv. cbv iota.
    unfold c_TextMessage, c_BinaryMessage.
    replace ((opcode f =? 1) || (opcode f =? 2)) with true by lia. cbv iota.
    eexists. split; [reflexivity|]. unfold unmask, L in *. rsimpl.
    split; [apply (rinv_same k s1); [exact Hrinv1|reflexivity ..]|].
    cbn [effs fold_left].
    pose proof (encode_frame_ge_plen f).
    repeat split; try assumption; try lia.
Qed.

(* ReadMessage over one message: it either completes within [fs] ... or the failing frame is
   met while it is still open, and then the data read so far comes back WITH the error *)
Theorem read_message_gen inflate fs s p f r :
  rinv k s -> rem s = 0 -> rfin s = true ->
  pending (br s) = encode_frames fs ++ tail ->
  Forall wf_frame fs -> acc_seq (server c) false fs = true -> blen (encode_frames fs) < 2^63 ->
  find_data fs = Some (p, f, r) ->
  (closes (fin f) r = false -> open_fail k c tail e Post) ->
  exists res s', read_message inflate c s = (RMsg (opcode f) (payload f ++ tail_data (fin f) r) res, s') /\
    ra_post k c tail e Post (fin f) (opidx s) (effs c (opidx s) (L s) (lead fs)) r res s'.
Proof.
  intros Hrinv Hrem Hfin Hp Hwf Hseq Hlen Efd Hopen.
  set (s0 := s <| cur := None |> <| rlen := 0 |>).
  assert (Hrinv0 : rinv k s0) by (apply (rinv_same k s); [exact Hrinv|reflexivity ..]).
  destruct (next_loop_gen fs p f r Efd s0 (fuel_of s0) Hrinv0) as
    (s1 & Hnl & Hrinv1 & Hrem1 & Hfin1 & Hrlen1 & Hp1 & Hun1 & Hdec1 & HL1 & Ho1 & Hwfr & Hseqr & Hlenr & Hop);
    [exact Hrem|exact Hfin|exact Hp|exact Hwf|exact Hseq|exact Hlen|unfold fuel_of; lia|].
  unfold read_message, next_reader. fold s0. rewrite Hnl. cbv iota. rewrite Hdec1. cbv iota.
  unfold fuel_of at 1. rewrite read_all_S. unfold reader_read.
  destruct (ra_gen k c tail e Post Hnf Hx Hio r (length (wire_payload f)) (wire_payload f) eq_refl s1
              (S (length (pending (br s1)))) (fuel_of s1) 0 512 [])
    as (res & s' & Hres & Hpost);
    [exact Hrinv1|rewrite Hrem1; symmetry; apply wire_payload_blen|exact Hp1|exact Hwfr
    |rewrite Hfin1; exact Hseqr|rewrite Hrlen1; exact Hlenr|lia|unfold fuel_of; lia|lia
    |rewrite Hfin1; exact Hopen|].
  rewrite Hres. cbn [app]. rewrite Hun1, Hfin1.
  exists res, s'. split; [reflexivity|].
  rewrite Hfin1, Ho1, HL1 in Hpost. exact Hpost.
Qed.
End Gen2.

(* ------------------------------------------------------------------------------------------ *)
(* 10. C08 item 4: recording handlers see every control frame once, in wire order             *)
(* ------------------------------------------------------------------------------------------ *)
Lemma acc_seq_no_close srv : forall fs o, acc_seq srv o fs = true ->
  Forall (fun f => opcode f = 9 \/ opcode f = 10 \/ isctl f = false) fs.
Proof.
  induction fs as [|f r IH]; intros o H; [constructor|].
  cbn [acc_seq] in H. apply andb_true_iff in H. destruct H as [Hacc H].
  constructor; [|exact (IH _ H)].
  destruct (acc_cases _ _ _ Hacc) as [(_ & [Ho|Ho] & _)|(Hc & _)]; auto.
Qed.

Section RunCustom.
Variables (inflate : bytes -> option bytes) (k:errk) (c:rcfg) (extra:bytes).
Hypothesis Hc : custom_handlers c = true.
Hypothesis Hnf : handler_fail c = [].
Hypothesis Hx : extra <> [] \/ k = EEOF.

Lemma run_msgs_custom : forall n fs, (length fs <= n)%nat -> forall s,
  rinv k s -> rem s = 0 -> rfin s = true ->
  pending (br s) = encode_frames fs ++ extra -> conformant_frames c fs ->
  exists s', run_ops inflate c s (repeat OReadMessage (length (msgs fs))) = (map out_of (msgs fs), s') /\
    rinv_end k s' /\ rem s' = 0 /\ rfin s' = true /\
    pending (br s') = encode_frames (trailer fs) ++ extra /\
    hlog s' ++ stamps (opidx s') (trailer fs) = hlog s ++ stamps (opidx s) fs /\
    (hcount s' + length (hlog s) = hcount s + length (hlog s'))%nat /\
    wlog s' = wlog s /\ opidx s' = (opidx s + length (msgs fs))%nat.
Proof.
  induction n as [|n IH]; intros fs Hn s Hrinv Hrem Hfin Hp Hconf.
  - destruct fs; [|cbn [length] in Hn; lia].
    exists s. cbn. rewrite !app_nil_r. split; [reflexivity|].
    split; [apply rinv_rinv_end; exact Hrinv|]. rewrite Nat.add_0_r. auto 10.
  - pose proof Hconf as (Hwf & Hseq & Hlen).
    destruct (first_msg fs) as [[[[ty d] p] a]|] eqn:Efm.
    + destruct (first_msg_some (server c) fs ty d p a Hseq Efm)
        as (Htr & Hpg & Hms & Hseqa & (pre & Hfs & Hpre)).
      unfold first_msg in Efm.
      destruct (find_data fs) as [[[p1 f] r]|] eqn:Efd; [|discriminate Efm].
      rewrite msg_tail_eq in Efm. inversion Efm; subst ty d p a. clear Efm.
      destruct (find_data_spec (server c) fs p1 f r Hseq Efd) as (cs & _ & _ & _ & _ & _ & Hseqr).
      assert (Hcl : closes (fin f) r = true).
      { unfold closes. destruct (fin f); [reflexivity|]. exact (seq_ok_closes _ _ Hseqr). }
      destruct (read_message_gen k c extra RProto (fun _ _ => True) (fun _ => Hnf) Hx eq_refl inflate fs s p1 f r
                  Hrinv Hrem Hfin Hp Hwf (seq_ok_acc_seq _ _ _ Hseq) Hlen Efd)
        as (res & s1 & Hrm & Hpost); [rewrite Hcl; discriminate|].
      unfold ra_post in Hpost. rewrite Hcl in Hpost.
      destruct Hpost as (-> & Hend1 & Hrem1 & Hfin1 & Hp1 & HL1 & Ho1).
      rewrite <- effs_app in HL1. unfold L in HL1. rewrite (effs_custom c _ Hc) in HL1.
      inversion HL1 as [[Hh1 Hn1 Hw1]]. clear HL1.
      pose proof (stamps_first_msg (opidx s) fs p1 f r Efd) as Hst.
      set (pre0 := lead fs ++ consumed (fin f) r) in *.
      set (a := rest_after (fin f) r) in *.
      rewrite Hms. cbn [length repeat map run_ops]. unfold rstep. rewrite Hrm. cbv beta iota.
      set (s2 := s1 <| opidx := S (opidx s1) |>).
      assert (Hconfa : conformant_frames c a) by (apply (conformant_suffix c pre); [rewrite <- Hfs; exact Hconf|exact Hseqa]).
      assert (Hla : (length a <= n)%nat).
      { pose proof (suffix_shorter pre a Hpre). rewrite <- Hfs in H. lia. }
      assert (Hhc1 : (hcount s1 + length (hlog s) = hcount s + length (hlog s1))%nat).
      { rewrite Hh1, Hn1, app_length. unfold hevs. rewrite map_length. lia. }
      pose proof Hend1 as (E1 & E2 & E3 & [E4|(E4 & E5 & E6)] & E7 & E8 & E9 & E10).
      * assert (Hrinv2 : rinv k s2) by (unfold rinv; subst s2; rsimpl; auto 12).
        destruct (IH a Hla s2 Hrinv2 Hrem1 Hfin1 Hp1 Hconfa)
          as (s' & Hrun & Hend' & Hrem' & Hfin' & Hp' & Hh' & Hn' & Hw' & Ho').
        rewrite Hrun. exists s'. split; [reflexivity|].
        split; [exact Hend'|]. split; [exact Hrem'|]. split; [exact Hfin'|].
        split; [rewrite Htr; exact Hp'|].
        subst s2. rsimpl_in Hh'. rsimpl_in Hn'. rsimpl_in Hw'. rsimpl_in Ho'.
        split; [rewrite Htr, Hh', Hh1, Ho1, Hst, <- app_assoc; reflexivity|].
        split; [lia|]. split; [congruence|]. cbn [length]. lia.
      * rewrite Hp1 in E5. apply app_eq_nil in E5. destruct E5 as [Ea Eextra].
        apply encode_frames_nil_inv in Ea. rewrite Ea in *.
        cbn [msgs events_of events_from fst data_msgs flat_map length repeat run_ops map].
        exists s2. split; [reflexivity|]. subst s2. rsimpl.
        split; [unfold rinv_end; rsimpl; rewrite Hp1; auto 12|].
        split; [exact Hrem1|]. split; [exact Hfin1|].
        split; [rewrite Htr; exact Hp1|].
        split; [rewrite Htr, Hh1, Hst; cbn [trailer stamps]; rewrite !app_nil_r; reflexivity|].
        split; [exact Hhc1|]. split; [congruence|]. lia.
    + destruct (first_msg_none (server c) fs Hseq Efm) as (Hall & Hms).
      rewrite Hms. cbn [length repeat run_ops map].
      exists s. split; [reflexivity|]. split; [apply rinv_rinv_end; exact Hrinv|].
      rewrite (all_ctl_trailer fs Hall), Nat.add_0_r. auto 10.
Qed.
End RunCustom.

Theorem handler_log_in_wire_order :
  forall inflate c b fs extra,
    custom_handlers c = true -> handler_fail c = [] -> binv b -> (125 <= bsize b)%nat ->
    conformant_frames c fs -> pending b = encode_frames fs ++ extra ->
    (trailer fs = [] -> extra = [] -> fault (src b) = EEOF) ->
    let ms := data_msgs (events_of fs) in
    exists s',
      run_ops inflate c (init_rst b) (repeat OReadMessage (length ms)) = (map out_of ms, s') /\
      (* the log is exactly what the stream dictates: each control frame of the consumed part
         once, in wire order, stamped with the call during which it was handled *)
      hlog s' = stamps 0 (body fs) /\
      map hev_payload (hlog s') = map ctl_payload (filter isctl (body fs)) /\
      hcount s' = length (hlog s') /\
      (* recording handlers: the reader itself writes nothing *)
      wlog s' = [] /\ closesent s' = false /\ outoffuel s' = false /\
      pending (br s') = encode_frames (trailer fs) ++ extra /\ opidx s' = length ms.
Proof.
  intros inflate c b fs extra Hc Hnf Hinv Hbs Hconf Hp Hside ms.
  set (extra' := encode_frames (trailer fs) ++ extra).
  assert (Hx : extra' <> [] \/ fault (src b) = EEOF).
  { destruct (trailer fs) as [|t tr] eqn:Et.
    - destruct extra as [|x extra0] eqn:Ee; [right; apply Hside; reflexivity|].
      left. subst extra'. cbn [encode_frames flat_map app]. discriminate.
    - left. subst extra'. rewrite encode_frames_cons, encode_frame_decomp. cbn [app]. discriminate. }
  assert (Hp' : pending (br (init_rst b)) = encode_frames (body fs) ++ extra').
  { subst extra'. rewrite app_assoc, <- encode_frames_app, body_trailer. exact Hp. }
  destruct (run_msgs_custom inflate (fault (src b)) c extra' Hc Hnf Hx (length (body fs)) (body fs) (le_n _)
              (init_rst b) (rinv_init b Hinv Hbs) eq_refl eq_refl Hp' (conformant_body c fs Hconf))
    as (s' & Hrun & Hend & Hrem & Hfin & Hpend & Hh & Hn & Hw & Ho).
  rewrite msgs_body in Hrun, Ho. rewrite trailer_body in Hpend, Hh.
  cbn [encode_frames flat_map app stamps init_rst hlog hcount wlog opidx length] in *.
  rewrite app_nil_r in Hh.
  exists s'. split; [exact Hrun|]. split; [exact Hh|].
  split.
  { rewrite Hh. apply stamps_payloads.
    destruct (conformant_body c fs Hconf) as (_ & Hs & _).
    exact (acc_seq_no_close _ _ _ (seq_ok_acc_seq _ _ _ Hs)). }
  destruct Hend as (E1 & E2 & E3 & E4 & E5 & E6 & E7 & E8).
  split; [lia|]. split; [exact Hw|]. split; [exact E6|]. split; [exact E5|].
  split; [exact Hpend|exact Ho].
Qed.

(* ------------------------------------------------------------------------------------------ *)
(* 11. Recording handlers: messages, trailing control frames, then a close frame              *)
(* ------------------------------------------------------------------------------------------ *)
Lemma next_loop_ctls_gen k c : (custom_handlers c = true -> handler_fail c = []) ->
  forall cs s fuel rest, all_ctl cs = true ->
  rinv k s -> rem s = 0 -> rfin s = true -> pending (br s) = encode_frames cs ++ rest ->
  Forall wf_frame cs -> seq_ok (server c) false cs = true ->
  exists s1, next_loop (length cs + fuel) c s = next_loop fuel c s1 /\
    rinv k s1 /\ rem s1 = 0 /\ rfin s1 = true /\ pending (br s1) = rest /\
    L s1 = effs c (opidx s) (L s) cs /\ opidx s1 = opidx s.
Proof.
  intros Hnf. induction cs as [|g cs IH]; intros s fuel rest Hall Hrinv Hrem Hfin Hp Hwf Hseq.
  - exists s. cbn [length Nat.add effs fold_left].
    cbn [encode_frames flat_map app] in Hp. auto 10.
  - pose proof Hrinv as (Hinv & Hbs & Hflt & Herr & Hoof & Hcs & Hrlim & Hecnt).
    rewrite all_ctl_cons in Hall. apply andb_true_iff in Hall. destruct Hall as [Hctl Hall].
    inversion Hwf as [|g' cs' Hwfg Hwfs]; subst g' cs'.
    cbn [seq_ok] in Hseq. apply andb_true_iff in Hseq. destruct Hseq as [Hacc Hseq].
    unfold next_open in Hseq. rewrite Hctl in Hseq.
    rewrite encode_frames_cons, <- app_assoc in Hp.
    assert (Haccs : frame_acc (server c) (negb (rfin s)) g = true) by (rewrite Hfin; exact Hacc).
    destruct (advance_pp k c s g (encode_frames cs ++ rest) Hrinv Hnf Hwfg Haccs Hctl Hp)
      as (s1 & Hadv & Hrinv1 & Hrem1 & Hfin1 & Hrlen1 & Hp1 & HL1 & Ho1).
    destruct (acc_cases _ _ _ Hacc) as [(_ & Hop & _)|(Hc & _)]; [|congruence].
    assert (Haf : advance_frame c s = (AFrame (opcode g), s1))
      by (rewrite advance_frame_rem0 by exact Hrem; exact Hadv).
    cbn [length Nat.add].
    rewrite (next_loop_step_ctl _ c s (opcode g) s1 Herr Haf) by lia.
    destruct (IH s1 fuel rest Hall Hrinv1 Hrem1) as (s2 & Hnl & Hrinv2 & Hrem2 & Hfin2 & Hp2 & HL2 & Ho2);
      [rewrite Hfin1; exact Hfin|exact Hp1|exact Hwfs|exact Hseq|].
    exists s2. split; [exact Hnl|]. split; [exact Hrinv2|]. split; [exact Hrem2|].
    split; [exact Hfin2|]. split; [exact Hp2|].
    rewrite Ho1, HL1 in HL2. cbn [effs fold_left]. split; [exact HL2|congruence].
Qed.

Lemma stamps_all_ctl i : forall cs, all_ctl cs = true -> stamps i cs = hevs i cs.
Proof.
  induction cs as [|g cs IH]; intros H; [reflexivity|].
  rewrite all_ctl_cons in H. apply andb_true_iff in H. destruct H as [Hg H].
  cbn [stamps]. unfold hevs. cbn [filter]. unfold isctl at 1 2. rewrite Hg. cbn [map].
  rewrite (IH H). reflexivity.
Qed.

Theorem handler_log_with_close :
  forall inflate c b fs cf anything,
    custom_handlers c = true -> handler_fail c = [] -> binv b -> (125 <= bsize b)%nat ->
    conformant_frames c fs -> valid_close c cf ->
    pending b = encode_frames fs ++ encode_frame cf ++ anything ->
    let ms := data_msgs (events_of fs) in
    let code := close_code (payload cf) in
    let text := close_text (payload cf) in
    exists s',
      run_ops inflate c (init_rst b) (repeat OReadMessage (S (length ms))) =
        (map out_of ms ++ [RMsg 0 [] (Some (RClose code text))], s') /\
      rerror s' = Some (RClose code text) /\
      (* every ping and pong of the stream, then the close, each exactly once, in wire order *)
      hlog s' = stamps 0 fs ++ [HClose (length ms) code text] /\
      hcount s' = length (hlog s') /\
      (* a recording close handler replaces the echo: the reader writes nothing *)
      wlog s' = [] /\ closesent s' = false /\ outoffuel s' = false /\
      pending (br s') = anything /\
      (forall ops, exists rs s'', run_ops inflate c s' ops = (rs, s'') /\
         Forall is_failure rs /\ br s'' = br s' /\ hlog s'' = hlog s' /\ wlog s'' = wlog s' /\
         rerror s'' = Some (RClose code text)).
Proof.
  intros inflate c b fs cf anything Hc Hnf Hinv Hbs Hconf (Hwfc & Hokc & Hopc & Hgood) Hp ms code text.
  set (k := fault (src b)).
  set (tail := encode_frame cf ++ anything).
  assert (Htl : tail <> []) by (subst tail; rewrite encode_frame_decomp; cbn [app]; discriminate).
  destruct (run_msgs_custom inflate k c tail Hc Hnf (or_introl Htl) (length fs) fs (le_n _)
              (init_rst b) (rinv_init b Hinv Hbs) eq_refl eq_refl Hp Hconf)
    as (sA & Hrun & Hend & Hrem & Hfin & Hpend & Hh & Hn & Hw & Ho).
  cbn [init_rst hlog hcount wlog opidx length app Nat.add] in Hh, Hn, Hw, Ho.
  change (msgs fs) with ms in Hrun, Ho.
  assert (HrinvA : rinv k sA).
  { apply rinv_end_rinv; [exact Hend|]. rewrite Hpend. intros H. apply app_eq_nil in H.
    destruct H as [_ H]. contradiction. }
  cbn [repeat]. rewrite repeat_cons.
  rewrite (run_ops_app inflate c _ _ _ _ [OReadMessage] Hrun (out_of_not_panic _)).
  cbn [run_ops]. unfold rstep.
  destruct Hconf as (Hwf & Hseq & Hlen).
  assert (Hwft : Forall wf_frame (trailer fs)).
  { rewrite <- (body_trailer fs) in Hwf. apply Forall_app in Hwf. apply Hwf. }
  pose proof (seq_ok_trailer (server c) fs Hseq) as Hseqt.
  set (s0 := sA <| cur := None |> <| rlen := 0 |>).
  assert (Hrinv0 : rinv k s0) by (apply (rinv_same k sA); [exact HrinvA|reflexivity ..]).
  pose proof (encode_frames_length_ge (trailer fs)) as Hge.
  assert (Hfuel : exists f', fuel_of s0 = (length (trailer fs) + S f')%nat).
  { unfold fuel_of. change (br s0) with (br sA). rewrite Hpend, app_length.
    exists (S (length (encode_frames (trailer fs)) - length (trailer fs) + length tail))%nat. lia. }
  destruct Hfuel as (f' & Hfuel).
  destruct (next_loop_ctls_gen k c (fun _ => Hnf) (trailer fs) s0 (S f') tail (trailer_all_ctl fs)
              Hrinv0 Hrem Hfin Hpend Hwft Hseqt)
    as (s1 & Hnl & Hrinv1 & Hrem1 & Hfin1 & Hp1 & HL1 & Ho1).
  change (opidx s0) with (opidx sA) in HL1, Ho1. change (L s0) with (L sA) in HL1.
  unfold L in HL1. rewrite (effs_custom c _ Hc) in HL1. inversion HL1 as [[Hh1 Hn1 Hw1]]. clear HL1.
  destruct (advance_close_custom k c s1 cf anything Hrinv1 Hwfc Hokc Hopc Hrem1 Hp1 Hc Hgood)
    as (s2 & Hadv & A1 & A2 & A3 & A4 & A5 & A6 & A7 & A8 & A9 & A10).
  rewrite (hfails_nil c _ Hnf) in Hadv. fold code text in Hadv, A1.
  pose proof Hrinv1 as (_ & _ & _ & Herr1 & _ & _ & _ & Hec1).
  rewrite (next_loop_step_err f' c s1 _ s2 Herr1 Hadv) in Hnl. rewrite <- Hfuel in Hnl.
  rewrite (read_message_of_next_none inflate c sA _ _ Hnl eq_refl) by (rsimpl; congruence).
  cbn [fst snd].
  assert (Hst : hlog s1 = stamps 0 fs).
  { rewrite Hh1, <- (stamps_all_ctl _ _ (trailer_all_ctl fs)), Hh. reflexivity. }
  eexists. split; [reflexivity|]. rsimpl.
  assert (Hlog : hlog s2 = stamps 0 fs ++ [HClose (length ms) code text]).
  { rewrite A1, Hst, Ho1, Ho. reflexivity. }
  split; [reflexivity|]. split; [exact Hlog|].
  split.
  { rewrite A2, Hn1, Hlog, app_length, <- Hst, Hh1, app_length. unfold hevs. rewrite map_length.
    cbn [length]. lia. }
  split; [rewrite A3, Hw1; exact Hw|]. split; [exact A4|]. split; [exact A9|]. split; [exact A5|].
  intros ops.
  match goal with |- context [run_ops inflate c ?x ops] => set (sF := x) end.
  assert (HeF : rerror sF = Some (RClose code text)) by reflexivity.
  destruct (errors_are_permanent inflate c ops sF _ HeF) as (rs & s'' & Hr & Hfz & Hfail).
  exists rs, s''. split; [exact Hr|]. split; [exact Hfail|].
  destruct (frozen_fields _ _ Hfz) as (F1 & F2 & F3 & F4). rewrite F4. auto.
Qed.

(* when is a close body acceptable: no status at all (empty, or one stray byte), or an allowed
   status code followed by a UTF-8 reason *)
Corollary close_body_ok_iff p :
  close_body_bad p = false <->
  (blen p <= 1 \/ (2 <= blen p /\ close_code_ok (be_dec (firstn 2 p)) = true /\
                   utf8_valid (skipn 2 p) = true)).
Proof.
  destruct (N.leb_spec 2 (blen p)) as [H|H].
  - destruct (close_long p H) as (H1 & H2 & H3). rewrite H3, H1, H2. split.
    + intros Hb. apply orb_false_iff in Hb. destruct Hb as [A B].
      apply negb_false_iff in A. apply negb_false_iff in B. right. auto.
    + intros [Hs|(_ & A & B)]; [lia|]. rewrite A, B. reflexivity.
  - destruct (close_short p ltac:(lia)) as (_ & _ & H3). rewrite H3. split; [left; lia|reflexivity].
Qed.

(* wire order relative to the data, spelled out: the control frame [g] that follows the frames
   [l1] in the consumed part of the stream is logged, with its exact payload, during the
   ReadMessage call number [nfin l1] -- the call that returns the message [g] precedes or
   interrupts -- after everything logged for [l1] and before everything logged for [l2] *)
Corollary handler_sees_frame_during_its_message :
  forall inflate c b fs extra l1 g l2,
    custom_handlers c = true -> handler_fail c = [] -> binv b -> (125 <= bsize b)%nat ->
    conformant_frames c fs -> pending b = encode_frames fs ++ extra ->
    (trailer fs = [] -> extra = [] -> fault (src b) = EEOF) ->
    body fs = l1 ++ g :: l2 -> isctl g = true ->
    exists s', run_ops inflate c (init_rst b) (repeat OReadMessage (length (data_msgs (events_of fs))))
                 = (map out_of (data_msgs (events_of fs)), s') /\
      hlog s' = stamps 0 l1 ++ hev_of (nfin l1) g :: stamps (nfin l1) l2.
Proof.
  intros inflate c b fs extra l1 g l2 Hc Hnf Hinv Hbs Hconf Hp Hside Hb Hg.
  destruct (handler_log_in_wire_order inflate c b fs extra Hc Hnf Hinv Hbs Hconf Hp Hside)
    as (s' & Hrun & Hh & _).
  exists s'. split; [exact Hrun|]. rewrite Hh, Hb. exact (stamps_at l1 g l2 0 Hg).
Qed.

(* ------------------------------------------------------------------------------------------ *)
(* 12. Sanity checks by computation (non-vacuity of the hypotheses; the model's run agrees    *)
(*     with what the theorems predict)                                                        *)
(* ------------------------------------------------------------------------------------------ *)
Module CtlExamples.
Definition k1 := [1;2;3;4]. Definition k2 := [9;8;7;6].
Definition fs1 : list frame :=
 [ mkf true 9 0 (Some k1) [104;105];
   mkf false 1 0 (Some k2) [72;101;108];
   mkf true 10 0 (Some k1) [];
   mkf false 0 0 (Some k1) [];
   mkf true 9 0 (Some k2) [1;2;3];
   mkf true 0 0 (Some k2) [108;111];
   mkf true 2 0 (Some k1) (repeat 200 7);
   mkf true 9 0 (Some k1) [5] ].
Definition cfgd : rcfg :=
  {| server := true; negotiated := true; custom_handlers := false; handler_fail := []; caps := [3;7] |}.
Definition cfgc (hf:list nat) : rcfg :=
  {| server := true; negotiated := true; custom_handlers := true; handler_fail := hf; caps := [3;7] |}.
Definition closef (p:bytes) := mkf true 8 0 (Some k2) p.
Definition mkb (stream:bytes) : bufio :=
  mk_bufio 125 [] {| chunks := [firstn 5 stream; firstn 30 (skipn 5 stream); skipn 35 stream];
                     fault := EOther; glued := true |}.
Definition run c stream n := run_ops (fun _ => None) c (init_rst (mkb stream)) (repeat OReadMessage n).

Example fs1_conformant : conformant_frames (cfgc []) fs1.
Proof.
  split; [|split].
  - repeat (apply Forall_cons; [vm_compute; repeat split; reflexivity|]). apply Forall_nil.
  - vm_compute. reflexivity.
  - vm_compute. reflexivity.
Qed.

Definition good_close := closef (be_enc 2 1000 ++ [111;107]).
Example good_close_valid : valid_close cfgd good_close.
Proof.
  split; [vm_compute; repeat split; reflexivity|]. split; [|split; [reflexivity|vm_compute; reflexivity]].
  unfold ctl_ok. split; [reflexivity|]. split; [reflexivity|]. split; [left; reflexivity|].
  split; [reflexivity|]. vm_compute. discriminate.
Qed.

(* recording handlers: the log is [stamps 0 (body fs1)]; the pong and the second ping arrive
   between fragments of the first message and carry its call index 0 *)
Example custom_run :
  let r := run (cfgc []) (encode_frames fs1 ++ [1;2;3]) 2 in
  fst r = map out_of (data_msgs (events_of fs1)) /\
  hlog (snd r) = stamps 0 (body fs1) /\
  hlog (snd r) = [HPing 0 [104;105]; HPong 0 []; HPing 0 [1;2;3]] /\
  wlog (snd r) = [].
Proof. vm_compute. repeat split; reflexivity. Qed.

(* recording handlers, stream ending in a close frame *)
Example custom_close_run :
  let r := run (cfgc []) (encode_frames fs1 ++ encode_frame good_close ++ [1;2;3]) 3 in
  hlog (snd r) = stamps 0 fs1 ++ [HClose 2 1000 [111;107]] /\
  hlog (snd r) = [HPing 0 [104;105]; HPong 0 []; HPing 0 [1;2;3]; HPing 2 [5]; HClose 2 1000 [111;107]] /\
  wlog (snd r) = [] /\ pending (br (snd r)) = [1;2;3] /\
  rerror (snd r) = Some (RClose 1000 [111;107]).
Proof. vm_compute. repeat split; reflexivity. Qed.

(* default handlers: pongs, then the echo with the same code; later reads fail the same way *)
Example default_close_run :
  let r := run cfgd (encode_frames fs1 ++ encode_frame good_close ++ [1;2;3]) 4 in
  fst r = map out_of (data_msgs (events_of fs1)) ++
          [RMsg 0 [] (Some (RClose 1000 [111;107])); RMsg 0 [] (Some (RClose 1000 [111;107]))] /\
  wlog (snd r) = [WPong [104;105]; WPong [1;2;3]; WPong [5]; WCloseEcho [3;232]] /\
  hlog (snd r) = [] /\ pending (br (snd r)) = [1;2;3].
Proof. vm_compute. repeat split; reflexivity. Qed.

(* a close frame without a body: 1005, empty echo *)
Example empty_close_run :
  let r := run cfgd (encode_frames fs1 ++ encode_frame (closef []) ++ [1;2;3]) 3 in
  rerror (snd r) = Some (RClose 1005 []) /\
  wlog (snd r) = [WPong [104;105]; WPong [1;2;3]; WPong [5]; WCloseEcho []].
Proof. vm_compute. repeat split; reflexivity. Qed.

(* the third handler invocation fails: it happens between two fragments of the first message;
   the ReadMessage in progress returns the error (with the bytes read so far), and so does
   every later call *)
Example failing_handler_run :
  let r := run (cfgc [2%nat]) (encode_frames fs1 ++ [1;2;3]) 3 in
  fst r = [RMsg 1 [72;101;108] (Some (RHandler 2)); RMsg 0 [] (Some (RHandler 2));
           RMsg 0 [] (Some (RHandler 2))] /\
  hlog (snd r) = [HPing 0 [104;105]; HPong 0 []; HPing 0 [1;2;3]] /\
  rerror (snd r) = Some (RHandler 2).
Proof. vm_compute. repeat split; reflexivity. Qed.
End CtlExamples.

Print Assumptions advance_ctl_gen.
Print Assumptions advance_ctl_custom.
Print Assumptions advance_ctl_custom_acc.
Print Assumptions advance_close_default.
Print Assumptions advance_close_custom.
Print Assumptions advance_close_bad.
Print Assumptions close_body_ok_iff.
Print Assumptions default_handlers_never_log.
Print Assumptions prefix_then_fail.
Print Assumptions read_messages_with_close.
Print Assumptions handler_error_is_returned_and_permanent.
Print Assumptions ra_gen.
Print Assumptions read_message_gen.
Print Assumptions handler_log_in_wire_order.
Print Assumptions handler_sees_frame_during_its_message.
Print Assumptions handler_log_with_close.
Print Assumptions CtlExamples.custom_close_run.
