(* Read path, facts that hold for every state, configuration and operation sequence:
   errors are permanent (fail-stop), and a frame whose first two header bytes violate framing
   is refused with a protocol error, a 1002 close and nothing delivered. *)
Require Import WS.Base.Bytes WS.gen.Consts WS.Spec.Frame WS.Spec.Conformance.
Require Import WS.Model.Bufio WS.Model.Reader WS.Proofs.BufioP WS.Proofs.SweepP.
From RecordUpdate Require Import RecordSet.
Import RecordSetNotations.
Ltac Zify.zify_post_hook ::= Z.div_mod_to_equations.

Section Basic.
Variable inflate : bytes -> option bytes.

(* ---------- errors are permanent ---------- *)
Definition frozen (s s':rst) : Prop :=
  br s' = br s /\ hlog s' = hlog s /\ wlog s' = wlog s /\ rerror s' = rerror s /\
  closesent s' = closesent s /\ outoffuel s' = outoffuel s.

Lemma frozen_refl s : frozen s s.
Proof. repeat split. Qed.
Lemma frozen_trans a b c : frozen a b -> frozen b c -> frozen a c.
Proof. unfold frozen. intuition congruence. Qed.

Lemma next_loop_err fuel c s e : rerror s = Some e -> next_loop fuel c s = (None, s).
Proof. intros H. destruct fuel; cbn [next_loop]; rewrite H; reflexivity. Qed.

Lemma next_reader_err c s e :
  rerror s = Some e ->
  exists r s', next_reader c s = (r, s') /\ frozen s s' /\ (r = RNext 0 (Some e) \/ r = RPanic).
Proof.
  intros H. unfold next_reader.
  set (s1 := s <| cur := None |> <| rlen := 0 |>).
  assert (H1 : rerror s1 = Some e) by exact H.
  rewrite (next_loop_err _ c s1 e H1).
  destruct (Nat.leb 1000 (errcount (s1 <| errcount := S (errcount s1) |>))) eqn:E.
  - eexists _, _. split; [reflexivity|]. split; [repeat split|]. right. reflexivity.
  - eexists _, _. split; [reflexivity|]. split; [repeat split|]. left.
    change (rerror (s1 <| errcount := S (errcount s1) |>)) with (rerror s). rewrite H. reflexivity.
Qed.

Lemma read_loop_err fuel c m s e :
  rerror s = Some e -> exists e', read_loop fuel c m s = ([], Some e', s).
Proof. intros H. destruct fuel; cbn [read_loop]; rewrite H; eexists; reflexivity. Qed.

(* after an error every operation returns an error (or the documented panic), delivers no
   byte, invokes no handler, writes nothing and consumes nothing from the transport *)
Definition is_failure (r:rout) : Prop :=
  match r with
  | RNext _ (Some _) | RMsg _ [] (Some _) | RData [] (Some _) | RPanic | RUnit => True
  | _ => False
  end.

Lemma rstep_err c s e o :
  rerror s = Some e ->
  exists r s', rstep inflate c s o = (r, s') /\ frozen s s' /\ is_failure r.
Proof.
  intros H. destruct o as [|m|m| |l]; unfold rstep.
  - destruct (next_reader_err c s e H) as (r & s' & E & F & R). rewrite E.
    eexists _, _. split; [reflexivity|]. split.
    + destruct F as (F1 & F2 & F3 & F4 & F5 & F6). repeat split; assumption.
    + destruct R as [-> | ->]; exact I.
  - destruct (cur s) eqn:Ec.
    + unfold reader_read. destruct (read_loop_err (fuel_of s) c m s e H) as (e' & E). rewrite E.
      eexists _, _. split; [reflexivity|]. split; [repeat split|exact I].
    + eexists _, _. split; [reflexivity|]. split; [repeat split|exact I].
  - eexists _, _. split; [reflexivity|]. split; [repeat split|exact I].
  - unfold read_message. destruct (next_reader_err c s e H) as (r & s' & E & F & R). rewrite E.
    destruct R as [-> | ->].
    + eexists _, _. split; [reflexivity|]. split; [|exact I].
      destruct F as (F1 & F2 & F3 & F4 & F5 & F6). repeat split; assumption.
    + eexists _, _. split; [reflexivity|]. split; [|exact I].
      destruct F as (F1 & F2 & F3 & F4 & F5 & F6). repeat split; assumption.
  - eexists _, _. split; [reflexivity|]. split; [repeat split|exact I].
Qed.

Theorem errors_are_permanent c ops : forall s e,
  rerror s = Some e ->
  exists rs s', run_ops inflate c s ops = (rs, s') /\ frozen s s' /\ Forall is_failure rs.
Proof.
  induction ops as [|o ops IH]; intros s e H.
  - exists [], s. split; [reflexivity|]. split; [apply frozen_refl|constructor].
  - cbn [run_ops]. destruct (rstep_err c s e o H) as (r & s1 & E & F & R). rewrite E.
    assert (H1 : rerror s1 = Some e) by (destruct F as (_ & _ & _ & F4 & _); congruence).
    destruct (IH s1 e H1) as (rs & s2 & E2 & F2 & R2). rewrite E2.
    destruct r; try (eexists _, _; split; [reflexivity|]; split; [eapply frozen_trans; eassumption|constructor; assumption]).
    eexists _, _. split; [reflexivity|]. split; [exact F|]. constructor; [exact R|constructor].
Qed.

(* ---------- rd on a stream with enough bytes ---------- *)
Lemma rd_enough n s :
  binv (br s) -> (n <= bsize (br s))%nat -> (n <= length (pending (br s)))%nat ->
  exists b', rd n s = (firstn n (pending (br s)), None, s <| br := b' |>) /\
             pending b' = skipn n (pending (br s)) /\ binv b' /\ bsize b' = bsize (br s).
Proof.
  intros Hb Hn Hl. destruct (peek_discard_enough n (br s) Hb Hn Hl) as (b' & E & P & B & Sz & _).
  exists b'. unfold rd. rewrite E. auto.
Qed.

(* ---------- a violating header is refused ---------- *)
Theorem header_violation_refused c s b0 b1 rest :
  binv (br s) -> (2 <= bsize (br s))%nat -> rem s = 0 ->
  pending (br s) = b0 :: b1 :: rest -> b0 < 256 -> b1 < 256 ->
  violates_hdr (server c) (negotiated c) (negb (rfin s)) (frame_of_hdr b0 b1) (b1 mod 128) = true ->
  exists s', advance_frame c s = (AErr RProto, s') /\
             hlog s' = hlog s /\
             wlog s' = (if closesent s then wlog s else wlog s ++ [WCloseProto]) /\
             closesent s' = true /\ pending (br s') = rest /\ binv (br s').
Proof.
  intros Hb Hsz Hrem Hp H0 H1 Hv.
  unfold advance_frame. rewrite Hrem. cbn [N.ltb N.compare].
  unfold advance_after_skip.
  destruct (rd_enough 2 s Hb Hsz) as (b' & E & P & B & Sz).
  { rewrite Hp. cbn [length]. lia. }
  rewrite E. rewrite Hp. cbn [firstn nth].
  rewrite <- (hdr_reject_iff_violates c (rfin s) b0 b1 H0 H1) in Hv.
  set (s1 := s <| br := b' |> <| rem := N.land b1 127 |>
               <| rdecomp := bit b0 c_rsv1Bit && negotiated c |>).
  assert (Hfin : rfin s1 = rfin s) by reflexivity.
  rewrite Hfin, Hv.
  unfold protocol_error.
  match goal with |- context [send WCloseProto ?x] => set (s2 := x) end.
  assert (Hcs : closesent s2 = closesent s).
  { unfold s2. destruct ((N.land b0 15 =? c_TextMessage) || (N.land b0 15 =? c_BinaryMessage));
      [reflexivity|]. destruct (N.land b0 15 =? c_continuationFrame); reflexivity. }
  assert (Hw : wlog s2 = wlog s /\ hlog s2 = hlog s /\ br s2 = b').
  { unfold s2. destruct ((N.land b0 15 =? c_TextMessage) || (N.land b0 15 =? c_BinaryMessage));
      [repeat split|]. destruct (N.land b0 15 =? c_continuationFrame); repeat split. }
  destruct Hw as (Hw & Hh & Hbr).
  assert (Hpend : pending b' = rest) by (rewrite P, Hp; reflexivity).
  eexists. split; [reflexivity|].
  unfold send. rewrite Hcs. destruct (closesent s) eqn:Ecs.
  - split; [exact Hh|]. split; [exact Hw|]. split; [congruence|]. rewrite Hbr. split; assumption.
  - cbn. split; [exact Hh|]. split; [rewrite Hw; reflexivity|]. split; [reflexivity|].
    rewrite Hbr. split; assumption.
Qed.
End Basic.

Print Assumptions errors_are_permanent.
Print Assumptions header_violation_refused.
