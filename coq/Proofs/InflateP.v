(* Proofs about Inflate.v:
   - deflate0_tail, inflate_deflate0 (round trip through the websocket framing of a sync-flushed
     stored-block stream, any length), inflate_bytes_ok, RFC 7692 examples. *)
Require Import WS.Base.Bytes.
Require Import WS.Spec.Inflate.

(* ================= small list facts ================= *)
Lemma bytes_okb_true l : bytes_okb l = true <-> bytes_ok l.
Proof.
  unfold bytes_okb, bytes_ok, is_byte. rewrite forallb_forall, Forall_forall.
  split; intros H x Hx; specialize (H x Hx); [apply N.ltb_lt|apply N.ltb_lt]; exact H.
Qed.

Lemma bytes_ok_app a b : bytes_ok (a ++ b) <-> bytes_ok a /\ bytes_ok b.
Proof. unfold bytes_ok. apply Forall_app. Qed.

Lemma bytes_ok_firstn n l : bytes_ok l -> bytes_ok (firstn n l).
Proof.
  unfold bytes_ok. rewrite !Forall_forall. intros H x Hx. apply H.
  rewrite <- (firstn_skipn n l). apply in_or_app. left. exact Hx.
Qed.

Lemma bytes_ok_skipn n l : bytes_ok l -> bytes_ok (skipn n l).
Proof.
  unfold bytes_ok. rewrite !Forall_forall. intros H x Hx. apply H.
  rewrite <- (firstn_skipn n l). apply in_or_app. right. exact Hx.
Qed.

Lemma bytes_ok_rev l : bytes_ok l -> bytes_ok (rev l).
Proof. unfold bytes_ok. apply Forall_rev. Qed.

(* ================= deflate0 ================= *)
Lemma deflate0_tail d : exists z, deflate0 d = z ++ [0;0;255;255].
Proof.
  exists (concat (map stored_block (chunks chunk_max (length d) d)) ++ [0]).
  unfold deflate0, sync_marker. rewrite <- app_assoc. reflexivity.
Qed.

Lemma trunc4_app z a b c e : trunc4 (z ++ [a;b;c;e]) = z.
Proof.
  unfold trunc4. rewrite app_length. cbn [length].
  replace (length z + 4 - 4)%nat with (length z + 0)%nat by lia.
  rewrite firstn_app_2. cbn [firstn]. apply app_nil_r.
Qed.

Lemma trunc4_deflate0 d :
  trunc4 (deflate0 d) = concat (map stored_block (chunks chunk_max (length d) d)) ++ [0].
Proof.
  unfold deflate0, sync_marker.
  change [0;0;0;255;255] with ([0] ++ [0;0;255;255]). rewrite app_assoc. apply trunc4_app.
Qed.

(* ---- chunks ---- *)
Lemma chunks_concat m f d : (0 < m)%nat -> (length d <= f)%nat -> concat (chunks m f d) = d.
Proof.
  intros Hm. revert d. induction f as [|f IH]; intros d Hf.
  - destruct d as [|x d]; [reflexivity|]. cbn [length] in Hf. lia.
  - cbn [chunks]. destruct d as [|x d]; [reflexivity|].
    cbn [concat]. rewrite IH.
    + apply firstn_skipn.
    + rewrite skipn_length. cbn [length] in *. lia.
Qed.

Lemma chunks_length_le m f d : Forall (fun c => (length c <= m)%nat) (chunks m f d).
Proof.
  revert d. induction f as [|f IH]; intros d; cbn [chunks]; [constructor|].
  destruct d as [|x d]; [constructor|].
  constructor; [|apply IH]. apply firstn_le_length.
Qed.

Lemma chunks_bytes_ok m f d : bytes_ok d -> Forall bytes_ok (chunks m f d).
Proof.
  revert d. induction f as [|f IH]; intros d Hd; cbn [chunks]; [constructor|].
  destruct d as [|x d]; [constructor|].
  constructor; [apply bytes_ok_firstn; exact Hd|apply IH; apply bytes_ok_skipn; exact Hd].
Qed.

Lemma chunk_max_val : N.of_nat chunk_max = 65535.
Proof. unfold chunk_max. apply N2Nat.id. Qed.

Lemma chunk_max_pos : (0 < chunk_max)%nat.
Proof. pose proof chunk_max_val. lia. Qed.

(* ---- stored blocks are byte strings ---- *)
Lemma stored_block_bytes_ok c : (length c <= chunk_max)%nat -> bytes_ok c -> bytes_ok (stored_block c).
Proof.
  intros Hlen Hc. pose proof chunk_max_val as Hm.
  unfold stored_block. apply bytes_ok_app. split; [|exact Hc].
  assert (Hn: blen c <= 65535) by (unfold blen; lia).
  generalize dependent (blen c). intros n Hn. clear - Hn.
  unfold bytes_ok. repeat (apply Forall_cons; [unfold is_byte; lia|]). apply Forall_nil.
Qed.

Lemma stored_blocks_bytes_ok cs :
  Forall (fun c => (length c <= chunk_max)%nat) cs -> Forall bytes_ok cs ->
  bytes_ok (concat (map stored_block cs)).
Proof.
  induction cs as [|c cs IH]; intros Hl Ho; cbn [map concat]; [constructor|].
  inversion Hl; subst. inversion Ho; subst.
  apply bytes_ok_app. split; [apply stored_block_bytes_ok; assumption|apply IH; assumption].
Qed.

Lemma stored_blocks_length cs : (5 * length cs <= length (concat (map stored_block cs)))%nat.
Proof.
  induction cs as [|c cs IH]; cbn [map concat length]; [lia|].
  rewrite app_length. unfold stored_block at 1. rewrite app_length. cbn [length]. lia.
Qed.

(* ================= the decoder on stored blocks ================= *)
Lemma header_0 r : header (mkbs [] (0 :: r)) = Ok (false, 0, mkbs [false;false;false;false;false] r).
Proof. reflexivity. Qed.

Lemma header_1 r : header (mkbs [] (1 :: r)) = Ok (true, 0, mkbs [false;false;false;false;false] r).
Proof. reflexivity. Qed.

Lemma stored_ok c0 c r out :
  blen c <= 65535 ->
  stored (mkbs c0 (blen c mod 256 :: blen c / 256 :: (65535 - blen c) mod 256 :: (65535 - blen c) / 256 :: c ++ r)) out
  = Ok (mkbs [] r, rev c ++ out).
Proof.
  intros Hn. unfold stored. cbn [rest].
  set (n := blen c) in *.
  replace (n mod 256 + 256 * (n / 256)) with n by lia.
  replace ((65535 - n) mod 256 + 256 * ((65535 - n) / 256)) with (65535 - n) by lia.
  replace (n + (65535 - n) =? 65535) with true by (symmetry; apply N.eqb_eq; lia).
  rewrite take_app by (unfold n, blen; lia).
  rewrite rev_append_rev. reflexivity.
Qed.

Lemma block_stored fuel c r out :
  blen c <= 65535 ->
  block fuel (mkbs [] (stored_block c ++ r)) out = Ok (false, mkbs [] r, rev c ++ out).
Proof.
  intros Hn. unfold block, stored_block. rewrite <- app_assoc. cbn [app].
  rewrite header_0. cbn [N.eqb].
  rewrite stored_ok by exact Hn. reflexivity.
Qed.

Lemma block_final_empty fuel r out :
  block fuel (mkbs [] (1 :: 0 :: 0 :: 255 :: 255 :: r)) out = Ok (true, mkbs [] r, out).
Proof. reflexivity. Qed.

Lemma stored_block_nil : stored_block [] = [0;0;0;255;255].
Proof. reflexivity. Qed.

(* a chain of stored blocks, the sync marker, and the final empty block *)
Lemma blocks_stored_chain fuel cs : forall n r out,
  Forall (fun c => (length c <= chunk_max)%nat) cs ->
  (length cs + 2 <= n)%nat ->
  blocks n fuel (mkbs [] (concat (map stored_block cs) ++ [0;0;0;255;255;1;0;0;255;255] ++ r)) out
  = Ok (mkbs [] r, rev (concat cs) ++ out).
Proof.
  pose proof chunk_max_val as Hm.
  induction cs as [|c cs IH]; intros n r out Hl Hn.
  - cbn [map concat app length] in *.
    destruct n as [|[|n]]; [lia|lia|].
    cbn [blocks].
    change (0 :: 0 :: 0 :: 255 :: 255 :: 1 :: 0 :: 0 :: 255 :: 255 :: r)
      with (stored_block [] ++ (1 :: 0 :: 0 :: 255 :: 255 :: r)).
    rewrite block_stored by (cbn; lia).
    rewrite block_final_empty. reflexivity.
  - inversion Hl as [|c' cs' Hc Hcs]; subst.
    cbn [map concat length] in *.
    destruct n as [|n]; [lia|].
    cbn [blocks]. rewrite <- app_assoc.
    rewrite block_stored by (unfold blen; lia).
    rewrite IH by (assumption || lia).
    rewrite rev_app_distr, <- app_assoc. reflexivity.
Qed.

(* ================= main round-trip theorem ================= *)
Lemma inflate_of_blocks input s out :
  bytes_okb input = true ->
  blocks (fuel_of input) (fuel_of input) (mkbs [] input) [] = Ok (s, out) ->
  inflate input = Some (rev out).
Proof.
  intros Hin Hb. unfold inflate, inflate_ext. rewrite Hin, Hb, rev_append_rev, app_nil_r. reflexivity.
Qed.

(* general form: anything may follow the final block (trailing bytes are ignored), and the
   number of consumed bits is reported *)
Theorem inflate_ext_deflate0 d junk :
  bytes_ok d -> bytes_ok junk ->
  inflate_ext (trunc4 (deflate0 d) ++ ws_tail ++ junk)
  = Done d (8 * (blen (trunc4 (deflate0 d)) + 9)).
Proof.
  intros Hd Hj. rewrite trunc4_deflate0.
  set (cs := chunks chunk_max (length d) d).
  assert (Hl : Forall (fun c => (length c <= chunk_max)%nat) cs) by apply chunks_length_le.
  assert (Ho : Forall bytes_ok cs) by (apply chunks_bytes_ok; exact Hd).
  assert (Hcat : concat cs = d) by (apply chunks_concat; [apply chunk_max_pos|lia]).
  unfold ws_tail. rewrite <- app_assoc.
  change ([0] ++ [0;0;255;255;1;0;0;255;255] ++ junk) with ([0;0;0;255;255;1;0;0;255;255] ++ junk).
  set (blk := concat (map stored_block cs)).
  assert (Hin : bytes_okb (blk ++ [0;0;0;255;255;1;0;0;255;255] ++ junk) = true).
  { apply bytes_okb_true. apply bytes_ok_app. split.
    - apply stored_blocks_bytes_ok; assumption.
    - apply bytes_ok_app. split; [|exact Hj].
      unfold bytes_ok. repeat (apply Forall_cons; [unfold is_byte; lia|]). apply Forall_nil. }
  assert (Hfuel : Nat.le (length cs + 2)%nat (fuel_of (blk ++ [0;0;0;255;255;1;0;0;255;255] ++ junk))).
  { unfold fuel_of. rewrite !app_length. cbn [length]. pose proof (stored_blocks_length cs) as Hlen. unfold blk. lia. }
  unfold inflate_ext. rewrite Hin.
  unfold blk at 3. rewrite blocks_stored_chain by assumption.
  cbn [cur rest length]. rewrite rev_append_rev, !app_nil_r, rev_involutive, Hcat.
  f_equal. unfold blen. rewrite !app_length. cbn [length]. lia.
Qed.

Theorem inflate_deflate0_trailing d junk :
  bytes_ok d -> bytes_ok junk -> inflate (trunc4 (deflate0 d) ++ ws_tail ++ junk) = Some d.
Proof. intros Hd Hj. unfold inflate. rewrite inflate_ext_deflate0 by assumption. reflexivity. Qed.

Theorem inflate_deflate0 d : bytes_ok d -> inflate (trunc4 (deflate0 d) ++ ws_tail) = Some d.
Proof.
  intros Hd. rewrite <- (app_nil_r ws_tail). apply inflate_deflate0_trailing; [exact Hd|constructor].
Qed.

Corollary inflate_deflate0' d z :
  bytes_ok d -> deflate0 d = z ++ [0;0;255;255] -> inflate (z ++ ws_tail) = Some d.
Proof.
  intros Hd Hz. rewrite <- (inflate_deflate0 d Hd). rewrite Hz, trunc4_app. reflexivity.
Qed.

(* the single-block case, stated separately *)
Corollary inflate_deflate0_small d :
  bytes_ok d -> blen d <= 65535 -> inflate (trunc4 (deflate0 d) ++ ws_tail) = Some d.
Proof. intros Hd _. apply inflate_deflate0. exact Hd. Qed.

(* ================= output bytes are bytes ================= *)
Definition wf (s:bs) : Prop := bytes_ok (rest s).

Lemma getbit_wf s b s1 : getbit s = Ok (b, s1) -> wf s -> wf s1.
Proof.
  unfold getbit, wf. destruct s as [c r]. cbn [cur rest].
  destruct c as [|b0 c].
  - destruct r as [|x r]; [discriminate|]. intros H Hr. inversion H; subst. cbn [rest].
    inversion Hr; assumption.
  - intros H Hr. inversion H; subst. exact Hr.
Qed.

Lemma getbits_wf k : forall s v s1, getbits k s = Ok (v, s1) -> wf s -> wf s1.
Proof.
  induction k as [|k IH]; intros s v s1 H Hs; cbn [getbits] in H.
  - inversion H; subst. exact Hs.
  - destruct (getbit s) as [[b sa]| |] eqn:Eb; try discriminate.
    destruct (getbits k sa) as [[v' sb]| |] eqn:Ek; try discriminate.
    inversion H; subst. eapply IH; [exact Ek|]. eapply getbit_wf; eassumption.
Qed.

Lemma decode_go_wf cs : forall code first index syms s v s1,
  decode_go cs code first index syms s = Ok (v, s1) -> wf s -> wf s1.
Proof.
  induction cs as [|c cs IH]; intros code first index syms s v s1 H Hs; cbn [decode_go] in H; [discriminate|].
  destruct (getbit s) as [[b sa]| |] eqn:Eb; try discriminate.
  assert (Hsa : wf sa) by (eapply getbit_wf; eassumption).
  destruct (code + (if b then 1 else 0) <? first + c).
  - destruct (nth_error syms _) as [sym|]; [|discriminate]. inversion H; subst. exact Hsa.
  - eapply IH; eassumption.
Qed.

Lemma decode_wf h s v s1 : decode h s = Ok (v, s1) -> wf s -> wf s1.
Proof. unfold decode. apply decode_go_wf. Qed.

Lemma copy_cyc_ok len : forall c seg out,
  bytes_ok c -> bytes_ok seg -> bytes_ok out -> bytes_ok (copy_cyc len c seg out).
Proof.
  induction len as [|len IH]; intros c seg out Hc Hseg Hout; cbn [copy_cyc]; [exact Hout|].
  destruct c as [|b c].
  - destruct seg as [|b seg]; [exact Hout|].
    inversion Hseg; subst. apply IH; [assumption|assumption|constructor; assumption].
  - inversion Hc; subst. apply IH; [assumption|assumption|constructor; assumption].
Qed.

Lemma skip_pos_skipn p : forall l, skip_pos p l = skipn (Pos.to_nat p) l.
Proof.
  assert (Htl : forall l : bytes, tl l = skipn 1 l) by (intros [|x l]; reflexivity).
  assert (Hadd : forall (a b:nat) (l:bytes), skipn a (skipn b l) = skipn (b + a) l).
  { intros a b. induction b as [|b IHb]; intros l; [reflexivity|].
    destruct l as [|x l]; [cbn [skipn plus]; apply skipn_nil|]. cbn [skipn plus]. apply IHb. }
  induction p as [q IH|q IH|]; intros l; cbn [skip_pos].
  - rewrite !IH, Htl, !Hadd. f_equal. lia.
  - rewrite !IH, Hadd. f_equal. lia.
  - rewrite Htl. reflexivity.
Qed.

Lemma skipN_skipn n l : skipN n l = skipn (N.to_nat n) l.
Proof. destruct n as [|p]; [reflexivity|]. cbn [skipN N.to_nat]. apply skip_pos_skipn. Qed.

Lemma copy_back_ok len d out out' : copy_back len d out = Some out' -> bytes_ok out -> bytes_ok out'.
Proof.
  unfold copy_back. intros H Ho. destruct (len <=? d).
  - destruct (Nat.eqb _ _); [|discriminate]. inversion H; subst.
    apply bytes_ok_app. split; [|exact Ho].
    apply bytes_ok_firstn. rewrite skipN_skipn. apply bytes_ok_skipn. exact Ho.
  - destruct (Nat.eqb _ _); [|discriminate]. inversion H; subst.
    assert (Hf : bytes_ok (rev_append (firstn (N.to_nat d) out) [])).
    { rewrite rev_append_rev, app_nil_r. apply bytes_ok_rev. apply bytes_ok_firstn. exact Ho. }
    apply copy_cyc_ok; assumption.
Qed.

Lemma codes_inv lh dh fuel : forall s out s' out',
  codes fuel lh dh s out = Ok (s', out') -> wf s -> bytes_ok out -> wf s' /\ bytes_ok out'.
Proof.
  induction fuel as [|fuel IH]; intros s out s' out' H Hs Ho; cbn [codes] in H; [discriminate|].
  destruct (decode lh s) as [[sym s1]| |] eqn:Ed; try discriminate.
  assert (Hs1 : wf s1) by (eapply decode_wf; eassumption).
  destruct (sym <? 256) eqn:Elit.
  { apply IH in H; [exact H|exact Hs1|]. constructor; [apply N.ltb_lt; exact Elit|exact Ho]. }
  destruct (sym =? 256).
  { inversion H; subst. split; assumption. }
  destruct (nth_error ltab (N.to_nat (sym - 257))) as [[lb le]|]; [|discriminate].
  destruct (getbits (N.to_nat le) s1) as [[ev s2]| |] eqn:E2; try discriminate.
  assert (Hs2 : wf s2) by (eapply getbits_wf; eassumption).
  destruct (decode dh s2) as [[ds s3]| |] eqn:E3; try discriminate.
  assert (Hs3 : wf s3) by (eapply decode_wf; eassumption).
  destruct (nth_error dtab (N.to_nat ds)) as [[db de]|]; [|discriminate].
  destruct (getbits (N.to_nat de) s3) as [[dv s4]| |] eqn:E4; try discriminate.
  assert (Hs4 : wf s4) by (eapply getbits_wf; eassumption).
  destruct (copy_back (lb + ev) (db + dv) out) as [out1|] eqn:Ec; [|discriminate].
  apply IH in H; [exact H|exact Hs4|]. eapply copy_back_ok; eassumption.
Qed.

Lemma stored_inv s out s' out' :
  stored s out = Ok (s', out') -> wf s -> bytes_ok out -> wf s' /\ bytes_ok out'.
Proof.
  unfold stored, wf. destruct s as [c r]. cbn [rest].
  destruct r as [|l0 [|l1 [|n0 [|n1 r]]]]; try discriminate.
  destruct (l0 + 256 * l1 + (n0 + 256 * n1) =? 65535); [|discriminate].
  destruct (take (N.to_nat (l0 + 256 * l1)) r) as [[d r']|] eqn:Et; [|discriminate].
  intros H Hr Ho. inversion H; subst. cbn [rest].
  apply take_some in Et as [Er _]. subst r.
  assert (Hdr : bytes_ok (d ++ r')).
  { inversion Hr as [|? ? _ Hr1]; subst. inversion Hr1 as [|? ? _ Hr2]; subst.
    inversion Hr2 as [|? ? _ Hr3]; subst. inversion Hr3 as [|? ? _ Hr4]; subst. exact Hr4. }
  apply bytes_ok_app in Hdr as [Hd Hr'].
  split; [exact Hr'|]. rewrite rev_append_rev. apply bytes_ok_app. split; [apply bytes_ok_rev; exact Hd|exact Ho].
Qed.

Lemma read_cl_wf n : forall ord s acc s' cl, read_cl n ord s acc = Ok (s', cl) -> wf s -> wf s'.
Proof.
  induction n as [|n IH]; intros ord s acc s' cl H Hs; cbn [read_cl] in H.
  - inversion H; subst. exact Hs.
  - destruct ord as [|o ord]; [discriminate|].
    destruct (getbits 3 s) as [[v s1]| |] eqn:E; try discriminate.
    eapply IH; [exact H|]. eapply getbits_wf; eassumption.
Qed.

Lemma read_lens_wf h want fuel : forall s n acc s' lens,
  read_lens fuel h want s n acc = Ok (s', lens) -> wf s -> wf s'.
Proof.
  induction fuel as [|fuel IH]; intros s n acc s' lens H Hs; cbn [read_lens] in H; [discriminate|].
  destruct (Nat.leb want n).
  { inversion H; subst. exact Hs. }
  destruct (decode h s) as [[sym s1]| |] eqn:Ed; try discriminate.
  assert (Hs1 : wf s1) by (eapply decode_wf; eassumption).
  destruct (sym <? 16).
  { eapply IH; eassumption. }
  destruct (sym =? 16).
  { destruct acc as [|prev acc]; [discriminate|].
    destruct (getbits 2 s1) as [[r s2]| |] eqn:E2; try discriminate.
    destruct (Nat.ltb want (n + (3 + N.to_nat r))); [discriminate|].
    eapply IH; [exact H|]. eapply getbits_wf; eassumption. }
  destruct (sym =? 17).
  { destruct (getbits 3 s1) as [[r s2]| |] eqn:E2; try discriminate.
    destruct (Nat.ltb want (n + (3 + N.to_nat r))); [discriminate|].
    eapply IH; [exact H|]. eapply getbits_wf; eassumption. }
  destruct (getbits 7 s1) as [[r s2]| |] eqn:E2; try discriminate.
  destruct (Nat.ltb want (n + (11 + N.to_nat r))); [discriminate|].
  eapply IH; [exact H|]. eapply getbits_wf; eassumption.
Qed.

Lemma dynamic_inv fuel s out s' out' :
  dynamic fuel s out = Ok (s', out') -> wf s -> bytes_ok out -> wf s' /\ bytes_ok out'.
Proof.
  unfold dynamic. intros H Hs Ho.
  destruct (getbits 5 s) as [[hlit s1]| |] eqn:E1; try discriminate.
  assert (Hs1 : wf s1) by (eapply getbits_wf; eassumption).
  destruct (getbits 5 s1) as [[hdist s2]| |] eqn:E2; try discriminate.
  assert (Hs2 : wf s2) by (eapply getbits_wf; eassumption).
  destruct (getbits 4 s2) as [[hclen s3]| |] eqn:E3; try discriminate.
  assert (Hs3 : wf s3) by (eapply getbits_wf; eassumption).
  destruct (Nat.ltb 286 (N.to_nat hlit + 257) || Nat.ltb 30 (N.to_nat hdist + 1))%bool; [discriminate|].
  destruct (read_cl (N.to_nat hclen + 4) clorder s3 (repeat 0 19)) as [[s4 cl]| |] eqn:E4; try discriminate.
  assert (Hs4 : wf s4) by (eapply read_cl_wf; eassumption).
  destruct (negb (huff_ok (build cl))); [discriminate|].
  destruct (read_lens _ (build cl) _ s4 0 []) as [[s5 lens]| |] eqn:E5; try discriminate.
  assert (Hs5 : wf s5) by (eapply read_lens_wf; eassumption).
  destruct (huff_ok _ && huff_ok _)%bool; [|discriminate].
  eapply codes_inv; eassumption.
Qed.

Lemma header_wf s fin ty s1 : header s = Ok (fin, ty, s1) -> wf s -> wf s1.
Proof.
  unfold header. intros H Hs.
  destruct (getbit s) as [[b sa]| |] eqn:Ea; try discriminate.
  destruct (getbits 2 sa) as [[v sb]| |] eqn:Eb; try discriminate.
  inversion H; subst. eapply getbits_wf; [exact Eb|]. eapply getbit_wf; eassumption.
Qed.

Lemma block_inv fuel s out fin s' out' :
  block fuel s out = Ok (fin, s', out') -> wf s -> bytes_ok out -> wf s' /\ bytes_ok out'.
Proof.
  unfold block. intros H Hs Ho.
  destruct (header s) as [[[f ty] s1]| |] eqn:Eh; try discriminate.
  assert (Hs1 : wf s1) by (eapply header_wf; eassumption).
  destruct (ty =? 0).
  { destruct (stored s1 out) as [[s2 o2]| |] eqn:Eb; try discriminate.
    inversion H; subst. eapply stored_inv; eassumption. }
  destruct (ty =? 1).
  { destruct (codes fuel fixed_l fixed_d s1 out) as [[s2 o2]| |] eqn:Eb; try discriminate.
    inversion H; subst. eapply codes_inv; eassumption. }
  destruct (ty =? 2).
  { destruct (dynamic fuel s1 out) as [[s2 o2]| |] eqn:Eb; try discriminate.
    inversion H; subst. eapply dynamic_inv; eassumption. }
  discriminate.
Qed.

Lemma blocks_inv fuel n : forall s out s' out',
  blocks n fuel s out = Ok (s', out') -> wf s -> bytes_ok out -> wf s' /\ bytes_ok out'.
Proof.
  induction n as [|n IH]; intros s out s' out' H Hs Ho; cbn [blocks] in H; [discriminate|].
  destruct (block fuel s out) as [[[fin s1] out1]| |] eqn:Eb; try discriminate.
  apply block_inv in Eb as [Hs1 Ho1]; [|exact Hs|exact Ho].
  destruct fin.
  - inversion H; subst. split; assumption.
  - eapply IH; eassumption.
Qed.

Theorem inflate_bytes_ok s d : inflate s = Some d -> bytes_ok d.
Proof.
  unfold inflate, inflate_ext.
  destruct (bytes_okb s) eqn:Eok; [|discriminate].
  destruct (blocks (fuel_of s) (fuel_of s) (mkbs [] s) []) as [[s' out]| |] eqn:Eb; try discriminate.
  intros H. inversion H; subst.
  apply blocks_inv in Eb as [_ Ho].
  - rewrite rev_append_rev, app_nil_r. apply bytes_ok_rev. exact Ho.
  - unfold wf. cbn [rest]. apply bytes_okb_true. exact Eok.
  - constructor.
Qed.

(* inflate only ever answers on byte strings *)
Lemma inflate_some_input_ok s d : inflate s = Some d -> bytes_ok s.
Proof.
  unfold inflate, inflate_ext. destruct (bytes_okb s) eqn:Eok; [|discriminate].
  intros _. apply bytes_okb_true. exact Eok.
Qed.

(* ================= the fuel is enough: more fuel never changes the answer ================= *)
Definition bits_left (s:bs) : nat := (length (cur s) + 8 * length (rest s))%nat.

Lemma getbit_bits s b s1 : getbit s = Ok (b, s1) -> bits_left s = S (bits_left s1).
Proof.
  unfold getbit, bits_left. destruct s as [c r]. cbn [cur rest].
  destruct c as [|b0 c].
  - destruct r as [|x r]; [discriminate|]. intros H. inversion H; subst.
    cbn [cur rest byte_bits length]. lia.
  - intros H. inversion H; subst. cbn [cur rest length]. lia.
Qed.

Lemma getbits_bits k : forall s v s1, getbits k s = Ok (v, s1) -> (bits_left s1 <= bits_left s)%nat.
Proof.
  induction k as [|k IH]; intros s v s1 H; cbn [getbits] in H.
  - inversion H; subst. lia.
  - destruct (getbit s) as [[b sa]| |] eqn:Eb; try discriminate.
    destruct (getbits k sa) as [[v' sb]| |] eqn:Ek; try discriminate.
    inversion H; subst. apply getbit_bits in Eb. apply IH in Ek. lia.
Qed.

Lemma decode_go_bits cs : forall code first index syms s v s1,
  decode_go cs code first index syms s = Ok (v, s1) -> (bits_left s1 < bits_left s)%nat.
Proof.
  induction cs as [|c cs IH]; intros code first index syms s v s1 H; cbn [decode_go] in H; [discriminate|].
  destruct (getbit s) as [[b sa]| |] eqn:Eb; try discriminate.
  apply getbit_bits in Eb.
  destruct (code + (if b then 1 else 0) <? first + c).
  - destruct (nth_error syms _) as [sym|]; [|discriminate]. inversion H; subst. lia.
  - apply IH in H. lia.
Qed.

Lemma decode_bits h s v s1 : decode h s = Ok (v, s1) -> (bits_left s1 < bits_left s)%nat.
Proof. unfold decode. apply decode_go_bits. Qed.

Lemma codes_fuel lh dh : forall f1 f2 s out,
  (bits_left s < f1)%nat -> (bits_left s < f2)%nat -> codes f1 lh dh s out = codes f2 lh dh s out.
Proof.
  induction f1 as [|f1 IH]; intros f2 s out H1 H2; [lia|]. destruct f2 as [|f2]; [lia|].
  cbn [codes].
  destruct (decode lh s) as [[sym s1]| |] eqn:Ed; try reflexivity.
  apply decode_bits in Ed.
  destruct (sym <? 256); [apply IH; lia|].
  destruct (sym =? 256); [reflexivity|].
  destruct (nth_error ltab (N.to_nat (sym - 257))) as [[lb le]|]; [|reflexivity].
  destruct (getbits (N.to_nat le) s1) as [[ev s2]| |] eqn:E2; try reflexivity.
  apply getbits_bits in E2.
  destruct (decode dh s2) as [[ds s3]| |] eqn:E3; try reflexivity.
  apply decode_bits in E3.
  destruct (nth_error dtab (N.to_nat ds)) as [[db de]|]; [|reflexivity].
  destruct (getbits (N.to_nat de) s3) as [[dv s4]| |] eqn:E4; try reflexivity.
  apply getbits_bits in E4.
  destruct (copy_back (lb + ev) (db + dv) out) as [out1|]; [|reflexivity].
  apply IH; lia.
Qed.

Lemma codes_bits lh dh fuel : forall s out s' out',
  codes fuel lh dh s out = Ok (s', out') -> (bits_left s' < bits_left s)%nat.
Proof.
  induction fuel as [|fuel IH]; intros s out s' out' H; cbn [codes] in H; [discriminate|].
  destruct (decode lh s) as [[sym s1]| |] eqn:Ed; try discriminate.
  apply decode_bits in Ed.
  destruct (sym <? 256); [apply IH in H; lia|].
  destruct (sym =? 256); [inversion H; subst; lia|].
  destruct (nth_error ltab (N.to_nat (sym - 257))) as [[lb le]|]; [|discriminate].
  destruct (getbits (N.to_nat le) s1) as [[ev s2]| |] eqn:E2; try discriminate.
  apply getbits_bits in E2.
  destruct (decode dh s2) as [[ds s3]| |] eqn:E3; try discriminate.
  apply decode_bits in E3.
  destruct (nth_error dtab (N.to_nat ds)) as [[db de]|]; [|discriminate].
  destruct (getbits (N.to_nat de) s3) as [[dv s4]| |] eqn:E4; try discriminate.
  apply getbits_bits in E4.
  destruct (copy_back (lb + ev) (db + dv) out) as [out1|]; [|discriminate].
  apply IH in H. lia.
Qed.

Lemma stored_bits s out s' out' : stored s out = Ok (s', out') -> (bits_left s' <= bits_left s)%nat.
Proof.
  unfold stored, bits_left. destruct s as [c r]. cbn [cur rest].
  destruct r as [|l0 [|l1 [|n0 [|n1 r]]]]; try discriminate.
  destruct (l0 + 256 * l1 + (n0 + 256 * n1) =? 65535); [|discriminate].
  destruct (take (N.to_nat (l0 + 256 * l1)) r) as [[d r']|] eqn:Et; [|discriminate].
  intros H. inversion H; subst. cbn [cur rest length].
  apply take_some in Et as [Er _]. subst r. rewrite app_length. lia.
Qed.

Lemma read_cl_bits n : forall ord s acc s' cl, read_cl n ord s acc = Ok (s', cl) -> (bits_left s' <= bits_left s)%nat.
Proof.
  induction n as [|n IH]; intros ord s acc s' cl H; cbn [read_cl] in H.
  - inversion H; subst. lia.
  - destruct ord as [|o ord]; [discriminate|].
    destruct (getbits 3 s) as [[v s1]| |] eqn:E; try discriminate.
    apply getbits_bits in E. apply IH in H. lia.
Qed.

Lemma read_lens_bits h want fuel : forall s n acc s' lens,
  read_lens fuel h want s n acc = Ok (s', lens) -> (bits_left s' <= bits_left s)%nat.
Proof.
  induction fuel as [|fuel IH]; intros s n acc s' lens H; cbn [read_lens] in H; [discriminate|].
  destruct (Nat.leb want n).
  { inversion H; subst. lia. }
  destruct (decode h s) as [[sym s1]| |] eqn:Ed; try discriminate.
  apply decode_bits in Ed.
  destruct (sym <? 16).
  { apply IH in H. lia. }
  destruct (sym =? 16).
  { destruct acc as [|prev acc]; [discriminate|].
    destruct (getbits 2 s1) as [[r s2]| |] eqn:E2; try discriminate.
    destruct (Nat.ltb want (n + (3 + N.to_nat r))); [discriminate|].
    apply getbits_bits in E2. apply IH in H. lia. }
  destruct (sym =? 17).
  { destruct (getbits 3 s1) as [[r s2]| |] eqn:E2; try discriminate.
    destruct (Nat.ltb want (n + (3 + N.to_nat r))); [discriminate|].
    apply getbits_bits in E2. apply IH in H. lia. }
  destruct (getbits 7 s1) as [[r s2]| |] eqn:E2; try discriminate.
  destruct (Nat.ltb want (n + (11 + N.to_nat r))); [discriminate|].
  apply getbits_bits in E2. apply IH in H. lia.
Qed.

(* the code-length loop adds at least one length per iteration: [want - n] iterations suffice *)
Lemma read_lens_fuel h want : forall f1 f2 s n acc,
  (want - n < f1)%nat -> (want - n < f2)%nat ->
  read_lens f1 h want s n acc = read_lens f2 h want s n acc.
Proof.
  induction f1 as [|f1 IH]; intros f2 s n acc H1 H2; [lia|]. destruct f2 as [|f2]; [lia|].
  cbn [read_lens].
  destruct (Nat.leb want n) eqn:El; [reflexivity|]. apply Nat.leb_gt in El.
  destruct (decode h s) as [[sym s1]| |]; try reflexivity.
  destruct (sym <? 16); [apply IH; lia|].
  destruct (sym =? 16).
  { destruct acc as [|prev acc]; [reflexivity|].
    destruct (getbits 2 s1) as [[r s2]| |]; try reflexivity.
    destruct (Nat.ltb want (n + (3 + N.to_nat r))); [reflexivity|]. apply IH; lia. }
  destruct (sym =? 17).
  { destruct (getbits 3 s1) as [[r s2]| |]; try reflexivity.
    destruct (Nat.ltb want (n + (3 + N.to_nat r))); [reflexivity|]. apply IH; lia. }
  destruct (getbits 7 s1) as [[r s2]| |]; try reflexivity.
  destruct (Nat.ltb want (n + (11 + N.to_nat r))); [reflexivity|]. apply IH; lia.
Qed.

(* the states reached inside [dynamic] before the compressed data *)
Lemma dynamic_fuel f1 f2 s out :
  (bits_left s < f1)%nat -> (bits_left s < f2)%nat -> dynamic f1 s out = dynamic f2 s out.
Proof.
  intros H1 H2. unfold dynamic.
  destruct (getbits 5 s) as [[hlit s1]| |] eqn:E1; try reflexivity. apply getbits_bits in E1.
  destruct (getbits 5 s1) as [[hdist s2]| |] eqn:E2; try reflexivity. apply getbits_bits in E2.
  destruct (getbits 4 s2) as [[hclen s3]| |] eqn:E3; try reflexivity. apply getbits_bits in E3.
  destruct (Nat.ltb 286 (N.to_nat hlit + 257) || Nat.ltb 30 (N.to_nat hdist + 1))%bool; [reflexivity|].
  destruct (read_cl (N.to_nat hclen + 4) clorder s3 (repeat 0 19)) as [[s4 cl]| |] eqn:E4; try reflexivity.
  apply read_cl_bits in E4.
  destruct (negb (huff_ok (build cl))); [reflexivity|].
  destruct (read_lens _ (build cl) _ s4 0 []) as [[s5 lens]| |] eqn:E5; try reflexivity.
  apply read_lens_bits in E5.
  destruct (huff_ok _ && huff_ok _)%bool; [|reflexivity].
  apply codes_fuel; lia.
Qed.

Lemma dynamic_bits fuel s out s' out' : dynamic fuel s out = Ok (s', out') -> (bits_left s' <= bits_left s)%nat.
Proof.
  unfold dynamic. intros H.
  destruct (getbits 5 s) as [[hlit s1]| |] eqn:E1; try discriminate. apply getbits_bits in E1.
  destruct (getbits 5 s1) as [[hdist s2]| |] eqn:E2; try discriminate. apply getbits_bits in E2.
  destruct (getbits 4 s2) as [[hclen s3]| |] eqn:E3; try discriminate. apply getbits_bits in E3.
  destruct (Nat.ltb 286 (N.to_nat hlit + 257) || Nat.ltb 30 (N.to_nat hdist + 1))%bool; [discriminate|].
  destruct (read_cl (N.to_nat hclen + 4) clorder s3 (repeat 0 19)) as [[s4 cl]| |] eqn:E4; try discriminate.
  apply read_cl_bits in E4.
  destruct (negb (huff_ok (build cl))); [discriminate|].
  destruct (read_lens _ (build cl) _ s4 0 []) as [[s5 lens]| |] eqn:E5; try discriminate.
  apply read_lens_bits in E5.
  destruct (huff_ok _ && huff_ok _)%bool; [|discriminate].
  apply codes_bits in H. lia.
Qed.

Lemma header_bits s fin ty s1 : header s = Ok (fin, ty, s1) -> (bits_left s1 < bits_left s)%nat.
Proof.
  unfold header. intros H.
  destruct (getbit s) as [[b sa]| |] eqn:Ea; try discriminate.
  destruct (getbits 2 sa) as [[v sb]| |] eqn:Eb; try discriminate.
  inversion H; subst. apply getbit_bits in Ea. apply getbits_bits in Eb. lia.
Qed.

Lemma block_fuel f1 f2 s out :
  (bits_left s < f1)%nat -> (bits_left s < f2)%nat -> block f1 s out = block f2 s out.
Proof.
  intros H1 H2. unfold block.
  destruct (header s) as [[[fin ty] s1]| |] eqn:Eh; try reflexivity. apply header_bits in Eh.
  destruct (ty =? 0); [reflexivity|].
  destruct (ty =? 1); [rewrite (codes_fuel fixed_l fixed_d f1 f2) by lia; reflexivity|].
  destruct (ty =? 2); [rewrite (dynamic_fuel f1 f2) by lia; reflexivity|].
  reflexivity.
Qed.

(* every block consumes input *)
Lemma block_bits fuel s out fin s' out' : block fuel s out = Ok (fin, s', out') -> (bits_left s' < bits_left s)%nat.
Proof.
  unfold block. intros H.
  destruct (header s) as [[[f ty] s1]| |] eqn:Eh; try discriminate. apply header_bits in Eh.
  destruct (ty =? 0).
  { destruct (stored s1 out) as [[s2 o2]| |] eqn:Eb; try discriminate.
    inversion H; subst. apply stored_bits in Eb. lia. }
  destruct (ty =? 1).
  { destruct (codes fuel fixed_l fixed_d s1 out) as [[s2 o2]| |] eqn:Eb; try discriminate.
    inversion H; subst. apply codes_bits in Eb. lia. }
  destruct (ty =? 2).
  { destruct (dynamic fuel s1 out) as [[s2 o2]| |] eqn:Eb; try discriminate.
    inversion H; subst. apply dynamic_bits in Eb. lia. }
  discriminate.
Qed.

Lemma blocks_fuel : forall n1 n2 f1 f2 s out,
  (bits_left s < n1)%nat -> (bits_left s < n2)%nat -> (bits_left s < f1)%nat -> (bits_left s < f2)%nat ->
  blocks n1 f1 s out = blocks n2 f2 s out.
Proof.
  induction n1 as [|n1 IH]; intros n2 f1 f2 s out Hn1 Hn2 Hf1 Hf2; [lia|]. destruct n2 as [|n2]; [lia|].
  cbn [blocks]. rewrite (block_fuel f1 f2 s out Hf1 Hf2).
  destruct (block f2 s out) as [[[fin s1] out1]| |] eqn:Eb; try reflexivity.
  destruct fin; [reflexivity|]. apply block_bits in Eb. apply IH; lia.
Qed.

(* [fuel_of] is enough: running with any larger amounts of fuel gives the same result, so
   no [Bad] (Corrupt) answer of [inflate_ext] is ever due to fuel exhaustion *)
Theorem inflate_fuel_enough input n f :
  (fuel_of input <= n)%nat -> (fuel_of input <= f)%nat ->
  blocks n f (mkbs [] input) [] = blocks (fuel_of input) (fuel_of input) (mkbs [] input) [].
Proof.
  intros Hn Hf. apply blocks_fuel; unfold bits_left, fuel_of in *; cbn [cur rest length]; lia.
Qed.

(* ================= back-references: the optimised copy is the byte-at-a-time copy ================= *)
(* RFC 1951 semantics: [len] times, append the byte found [d] positions back (out is newest first) *)
Fixpoint copy_naive (len d:nat) (out:bytes) : option bytes :=
  match len with
  | O => Some out
  | S l => match nth_error out (d - 1) with
           | None => None
           | Some b => copy_naive l d (b :: out)
           end
  end.

Lemma nth_error_skipn_add k : forall (l:bytes) n, nth_error (skipn k l) n = nth_error l (k + n).
Proof.
  induction k as [|k IH]; intros l n; [reflexivity|].
  destruct l as [|x l]; [destruct n; reflexivity|]. cbn [skipn plus nth_error]. apply IH.
Qed.

Lemma firstn_S_snoc n : forall (X:bytes) b, nth_error X n = Some b -> firstn (S n) X = firstn n X ++ [b].
Proof.
  induction n as [|n IH]; intros X b H; destruct X as [|x X]; try discriminate.
  - cbn in H. inversion H; subst. reflexivity.
  - cbn [nth_error] in H. change (firstn (S (S n)) (x :: X)) with (x :: firstn (S n) X).
    rewrite (IH X b H). reflexivity.
Qed.

Lemma copy_naive_short n : forall d out, (n <= d)%nat -> (d <= length out)%nat ->
  copy_naive n d out = Some (firstn n (skipn (d - n) out) ++ out).
Proof.
  induction n as [|n IH]; intros d out Hn Hd; [reflexivity|].
  cbn [copy_naive].
  destruct (nth_error out (d - 1)) as [b|] eqn:E; [|apply nth_error_None in E; lia].
  rewrite IH by (cbn [length]; lia). f_equal.
  replace (d - n)%nat with (S (d - S n)) by lia. cbn [skipn].
  rewrite (firstn_S_snoc n (skipn (d - S n) out) b).
  - rewrite <- app_assoc. reflexivity.
  - rewrite nth_error_skipn_add. replace (d - S n + n)%nat with (d - 1)%nat by lia. exact E.
Qed.

Lemma copy_naive_too_far n d out : (1 <= n)%nat -> (length out < d)%nat -> copy_naive n d out = None.
Proof.
  intros Hn Hd. destruct n as [|n]; [lia|]. cbn [copy_naive].
  destruct (nth_error out (d - 1)) as [b|] eqn:E; [|reflexivity].
  assert (Hlt : (d - 1 < length out)%nat) by (apply nth_error_Some; congruence). lia.
Qed.

Lemma window_step d (out:bytes) b t : (1 <= d)%nat -> (d <= length out)%nat -> rev (firstn d out) = b :: t ->
  nth_error out (d - 1) = Some b /\ rev (firstn d (b :: out)) = t ++ [b].
Proof.
  intros Hd Hlen H. destruct d as [|d']; [lia|].
  assert (HF : firstn (S d') out = rev t ++ [b]).
  { rewrite <- (rev_involutive (firstn (S d') out)), H. reflexivity. }
  assert (Hlt : length (rev t) = d').
  { pose proof (f_equal (@length N) HF) as HL. rewrite firstn_length_le, app_length in HL by lia.
    cbn [length] in HL. lia. }
  split.
  - replace (S d' - 1)%nat with d' by lia.
    rewrite <- (firstn_skipn (S d') out), HF.
    rewrite nth_error_app1 by (rewrite app_length; cbn [length]; lia).
    rewrite nth_error_app2 by lia. rewrite Hlt, Nat.sub_diag. reflexivity.
  - change (firstn (S d') (b :: out)) with (b :: firstn d' out).
    assert (Hd' : firstn d' out = rev t).
    { replace d' with (Nat.min d' (S d')) at 1 by lia. rewrite <- firstn_firstn, HF.
      rewrite firstn_app, Hlt, Nat.sub_diag. cbn [firstn]. rewrite app_nil_r.
      rewrite <- Hlt. apply firstn_all. }
    rewrite Hd'. cbn [rev]. rewrite rev_involutive. reflexivity.
Qed.

Lemma copy_naive_cyc d n : forall (c pre out:bytes), (1 <= d)%nat -> (d <= length out)%nat ->
  rev (firstn d out) = c ++ pre ->
  copy_naive n d out = Some (copy_cyc n c (pre ++ c) out).
Proof.
  induction n as [|n IH]; intros c pre out Hd Hlen H; [reflexivity|].
  cbn [copy_naive copy_cyc]. destruct c as [|b c].
  - cbn [app] in H. rewrite app_nil_r. destruct pre as [|b c].
    { apply (f_equal (@length N)) in H. rewrite rev_length, firstn_length_le in H by lia. cbn [length] in H. lia. }
    destruct (window_step d out b c Hd Hlen H) as [Hn Hw]. rewrite Hn.
    rewrite (IH c [b] (b :: out)); [reflexivity|exact Hd|cbn [length]; lia|exact Hw].
  - cbn [app] in H.
    destruct (window_step d out b (c ++ pre) Hd Hlen H) as [Hn Hw]. rewrite Hn.
    rewrite (IH c (pre ++ [b]) (b :: out)); [|exact Hd|cbn [length]; lia|rewrite Hw; symmetry; apply app_assoc].
    rewrite <- app_assoc. reflexivity.
Qed.

Theorem copy_back_spec len d out : 1 <= len -> 1 <= d ->
  copy_back len d out = copy_naive (N.to_nat len) (N.to_nat d) out.
Proof.
  intros Hl Hd. unfold copy_back. destruct (len <=? d) eqn:Ele.
  - apply N.leb_le in Ele. rewrite skipN_skipn.
    replace (N.to_nat (d - len)) with (N.to_nat d - N.to_nat len)%nat by lia.
    destruct (Nat.eqb _ _) eqn:El.
    + apply Nat.eqb_eq in El. rewrite firstn_length, skipn_length in El.
      symmetry. apply copy_naive_short; lia.
    + apply Nat.eqb_neq in El. rewrite firstn_length, skipn_length in El.
      symmetry. apply copy_naive_too_far; lia.
  - apply N.leb_gt in Ele. destruct (Nat.eqb _ _) eqn:El.
    + apply Nat.eqb_eq in El. rewrite firstn_length in El.
      rewrite rev_append_rev, app_nil_r. symmetry.
      rewrite <- (app_nil_l (rev (firstn (N.to_nat d) out))) at 2.
      apply copy_naive_cyc; [lia|lia|]. rewrite app_nil_r. reflexivity.
    + apply Nat.eqb_neq in El. rewrite firstn_length in El.
      symmetry. apply copy_naive_too_far; lia.
Qed.

(* ================= examples ================= *)
Definition hello : bytes := [72;101;108;108;111].

(* RFC 7692 7.2.1: one fixed-Huffman block, sync flushed, 00 00 ff ff removed *)
Example rfc7692_7_2_1 : inflate ([0xf2;0x48;0xcd;0xc9;0xc9;0x07;0x00] ++ ws_tail) = Some hello.
Proof. vm_compute. reflexivity. Qed.

(* RFC 7692 7.2.3.3: DEFLATE block with no compression *)
Example rfc7692_7_2_3_3 :
  inflate ([0x00;0x05;0x00;0xfa;0xff;0x48;0x65;0x6c;0x6c;0x6f;0x00] ++ ws_tail) = Some hello.
Proof. vm_compute. reflexivity. Qed.

(* ... which is exactly what deflate0 produces *)
Example deflate0_hello : trunc4 (deflate0 hello) = [0x00;0x05;0x00;0xfa;0xff;0x48;0x65;0x6c;0x6c;0x6f;0x00].
Proof. vm_compute. reflexivity. Qed.

(* RFC 7692 7.2.3.4: block with BFINAL = 1 followed by the 0x00 octet; the appended tail is ignored *)
Example rfc7692_7_2_3_4 : inflate ([0xf3;0x48;0xcd;0xc9;0xc9;0x07;0x00;0x00] ++ ws_tail) = Some hello.
Proof. vm_compute. reflexivity. Qed.
Example rfc7692_7_2_3_4_bare : inflate [0xf3;0x48;0xcd;0xc9;0xc9;0x07;0x00] = Some hello.
Proof. vm_compute. reflexivity. Qed.
Example rfc7692_7_2_3_4_ext :
  inflate_ext ([0xf3;0x48;0xcd;0xc9;0xc9;0x07;0x00;0x00] ++ ws_tail) = Done hello 50.
Proof. vm_compute. reflexivity. Qed.

(* RFC 7692 7.2.3.5: two DEFLATE blocks in one message ("He" + flush + "llo") *)
Example rfc7692_7_2_3_5 :
  inflate ([0xf2;0x48;0x05;0x00;0x00;0x00;0xff;0xff;0xca;0xc9;0xc9;0x07;0x00] ++ ws_tail) = Some hello.
Proof. vm_compute. reflexivity. Qed.

(* without the tail a sync-flushed stream is incomplete *)
Example rfc7692_7_2_1_no_tail : inflate_ext [0xf2;0x48;0xcd;0xc9;0xc9;0x07;0x00] = NeedMore.
Proof. vm_compute. reflexivity. Qed.
Example block_type_3 : inflate_ext ([0x07;0x00] ++ ws_tail) = Corrupt.
Proof. vm_compute. reflexivity. Qed.
Example stored_len_mismatch : inflate_ext ([0x00;0x05;0x00;0xfb;0xff;1;2;3;4;5;0x00] ++ ws_tail) = Corrupt.
Proof. vm_compute. reflexivity. Qed.

(* python3 zlib, compressobj(9, DEFLATED, -15, 9, Z_FIXED), sync flush, 4 bytes removed:
   fixed Huffman block with back-references *)
Example zlib_fixed :
  inflate ([242;72;205;201;201;215;81;200;64;162;20;21;60;176;8;2;0] ++ ws_tail)
  = Some [72;101;108;108;111;44;32;104;101;108;108;111;44;32;104;101;108;108;111;33;32;72;101;108;108;111;
          44;32;104;101;108;108;111;44;32;104;101;108;108;111;33].
Proof. vm_compute. reflexivity. Qed.

(* python3 zlib, compressobj(9, DEFLATED, -15, 9), sync flush, 4 bytes removed: dynamic Huffman block (BTYPE=10) *)
Definition zlib_dynamic_stream : bytes :=
  [92;79;49;14;3;64;8;218;125;133;15;104;250;39;80;146;78;157;250;255;20;76;167;154;139;145;128;200;17;44;96;65;
   185;1;51;110;59;16;80;37;72;196;177;227;38;90;33;21;24;128;198;236;112;52;140;38;172;17;251;214;121;70;43;146;
   109;69;140;225;67;209;154;98;118;141;253;108;108;108;223;89;252;140;82;163;163;103;217;78;176;93;25;111;183;78;
   147;237;206;209;100;203;208;132;115;245;217;185;34;178;56;95;218;164;221;251;36;147;124;51;247;217;239;233;6;
   159;151;90;239;125;244;255;240;252;2].
Definition zlib_dynamic_data : bytes :=
  [98;97;98;10;97;97;100;97;98;101;97;100;97;97;97;99;99;97;97;97;100;99;97;101;97;97;10;10;101;97;101;101;98;97;
   97;97;100;97;98;99;97;100;97;101;98;100;97;97;101;101;10;97;98;97;100;97;101;97;32;97;99;100;99;98;99;101;99;
   98;98;97;97;97;97;101;98;100;99;98;99;98;32;97;97;100;99;97;98;97;99;99;97;97;100;101;98;98;98;32;99;101;99;
   97;97;97;99;97;97;98;10;101;99;98;98;98;97;99;98;97;32;97;99;97;97;98;97;97;98;98;99;97;97;99;98;100;97;97;
   99;100;97;99;98;98;97;97;97;97;97;97;97;97;99;101;97;97;98;97;97;99;100;98;32;101;98;97;100;32;10;97;99;100;
   98;98;98;98;97;99;10;98;97;97;97;97;99;97;97;98;32;97;97;97;101;97;100;97;98;32;97;97;97;32;98;97;10;97;98;
   32;98;99;97;97;99;99;99;99;98;97;97;97;98;97;99;97;100;97;97;100;98;97;100;97;100;98;10;97;97;100;98;97;98;
   97;100;100;100;98;10;97;32;97;97;98;97;97;100;99;98;97;97;97;99;97;116;104;101;32;101;110;100;44;32;116;104;
   101;32;101;110;100;44;32;116;104;101;32;101;110;100;46].
Example zlib_dynamic_is_dynamic :
  header (mkbs [] zlib_dynamic_stream) = Ok (false, 2, mkbs (byte_bits 5 (92 / 8)) (tl zlib_dynamic_stream)).
Proof. vm_compute. reflexivity. Qed.
Example zlib_dynamic : inflate (zlib_dynamic_stream ++ ws_tail) = Some zlib_dynamic_data.
Proof. vm_compute. reflexivity. Qed.

(* a round trip through several stored blocks, computed (140000 bytes = 3 chunks) *)
Example deflate0_three_chunks :
  let d := repeat 7 (N.to_nat 140000) in
  (Nat.eqb (length (chunks chunk_max (length d) d)) 3
   && match inflate (trunc4 (deflate0 d) ++ ws_tail) with Some x => beq x d | None => false end)%bool = true.
Proof. vm_compute. reflexivity. Qed.

Print Assumptions deflate0_tail.
Print Assumptions inflate_ext_deflate0.
Print Assumptions inflate_deflate0.
Print Assumptions inflate_deflate0'.
Print Assumptions inflate_deflate0_small.
Print Assumptions inflate_bytes_ok.
Print Assumptions copy_back_spec.
Print Assumptions inflate_fuel_enough.
Print Assumptions read_lens_fuel.
Print Assumptions zlib_dynamic.
