(* ========================================================================================== *)
(* Zero-length reads: bufio.Reader.Read(p) and messageReader.Read(p) with len(p) = 0.          *)
(*                                                                                            *)
(*  part 1  br_read 0 never touches the transport (src / pending / buffer unchanged)           *)
(*  part 2  reader_read c 0 inside a frame: exact result, which fields may differ, when it is  *)
(*          a complete no-op, when it reports the error pending in bufio                      *)
(*  part 3  a zero-length Read is transparent for the Reads that follow (exact, any stream)    *)
(*  part 4  read plans with zero-length reads inserted anywhere (run_ops level, exact)         *)
(*  part 5  the specification of read plans on conformant streams, zero-length reads included  *)
(* ========================================================================================== *)
Require Import WS.Base.Bytes WS.gen.Consts WS.Model.Bufio WS.Model.Reader.
From RecordUpdate Require Import RecordSet.
Import RecordSetNotations.
Require Import WS.Spec.Frame WS.Spec.Conformance.
Require Import WS.Proofs.BufioP WS.Proofs.FrameP WS.Proofs.ReaderP1 WS.Proofs.ReaderP2 WS.Proofs.ReaderP3
  WS.Proofs.ReaderP WS.Proofs.CutP WS.Proofs.TotalP WS.Proofs.CtlP WS.Proofs.ReadProgP.
From Coq Require Import Lia ZifyN ZifyNat ZifyBool.
Ltac Zify.zify_post_hook ::= Z.div_mod_to_equations.

(* ============================== part 1: bufio ============================== *)
(* what Read(p[:0]) leaves behind and what it reports:
     if b.Buffered() > 0 { return 0, nil };  return 0, b.readErr()                              *)
Definition zero_br (b:bufio) : bufio :=
  match bbuf b with
  | [] => {| bsize := bsize b; bbuf := []; berr := None; src := src b |}
  | _ => b
  end.
Definition zero_berr (b:bufio) : option errk :=
  match bbuf b with [] => berr b | _ => None end.

Lemma br_read_zero b : br_read 0 b = ([], zero_berr b, zero_br b).
Proof. unfold br_read, zero_berr, zero_br. destruct (bbuf b); reflexivity. Qed.

Lemma zero_br_none b : zero_berr b = None -> zero_br b = b.
Proof.
  unfold zero_berr, zero_br. destruct b as [sz bf er sr]. cbn [bbuf berr bsize src].
  destruct bf; [intros ->|]; reflexivity.
Qed.

Lemma zero_br_fields b :
  bsize (zero_br b) = bsize b /\ bbuf (zero_br b) = bbuf b /\ src (zero_br b) = src b /\
  pending (zero_br b) = pending b.
Proof.
  unfold zero_br, pending. destruct (bbuf b) eqn:E; cbn [bsize bbuf src]; rewrite ?E; auto.
Qed.

(* a zero-length read returns no byte, never touches the transport script, the buffer or the
   logical stream; the only field that can change is the deferred error, and only by being
   reported (and cleared) when the buffer is empty *)
Theorem br_read_zero_untouched b d e b' : br_read 0 b = (d, e, b') ->
  d = [] /\ src b' = src b /\ pending b' = pending b /\ bbuf b' = bbuf b /\ bsize b' = bsize b /\
  (e = None -> b' = b) /\
  (forall k, e = Some k -> bbuf b = [] /\ berr b = Some k /\ berr b' = None).
Proof.
  rewrite br_read_zero. intros H. inversion H; subst d e b'. clear H.
  destruct (zero_br_fields b) as (H1 & H2 & H3 & H4).
  split; [reflexivity|]. split; [exact H3|]. split; [exact H4|]. split; [exact H2|].
  split; [exact H1|]. split; [apply zero_br_none|].
  unfold zero_berr, zero_br. destruct (bbuf b); [|intros k Hk; discriminate Hk].
  intros k Hk. auto.
Qed.

Corollary br_read_zero_src b : src (snd (br_read 0 b)) = src b.
Proof. rewrite br_read_zero. apply zero_br_fields. Qed.
Corollary br_read_zero_pending b : pending (snd (br_read 0 b)) = pending b.
Proof. rewrite br_read_zero. apply zero_br_fields. Qed.

(* complete no-op unless an error is pending behind an empty buffer *)
Lemma br_read_zero_noop b : bbuf b <> [] \/ berr b = None -> br_read 0 b = ([], None, b).
Proof.
  intros H. rewrite br_read_zero.
  assert (E : zero_berr b = None).
  { unfold zero_berr. destruct (bbuf b); [|reflexivity]. destruct H as [H|H]; [congruence|exact H]. }
  rewrite (zero_br_none b E), E. reflexivity.
Qed.

Lemma br_read_zero_binv b : binv b -> pending b <> [] -> br_read 0 b = ([], None, b).
Proof.
  intros (_ & _ & _ & Herr) Hp. apply br_read_zero_noop.
  destruct (bbuf b) as [|x r] eqn:Eb; [right|left; discriminate].
  destruct (berr b) as [k|] eqn:Ee; [|reflexivity]. exfalso. apply Hp.
  destruct (Herr k eq_refl) as [Hc _]. unfold pending. rewrite Eb. apply chunks_nil_stream. exact Hc.
Qed.

(* the pending error reported by the zero-length read is exactly what the next read of any
   size would have reported, and it leaves the reader where that read would have left it *)
Lemma br_read_after_zero m b :
  match zero_berr b with
  | None => zero_br b = b
  | Some k => br_read m b = ([], Some k, zero_br b)
  end.
Proof.
  destruct (zero_berr b) as [k|] eqn:E; [|apply zero_br_none; exact E].
  unfold zero_berr in E. unfold zero_br. destruct m as [|m].
  - unfold br_read. destruct (bbuf b); [|discriminate E]. rewrite E. reflexivity.
  - unfold br_read, br_read_nz. destruct (bbuf b); [|discriminate E]. rewrite E. reflexivity.
Qed.

(* the pre-change model filled the buffer here; now nothing moves *)
Example br_read_zero_does_not_fill :
  let b := mk_bufio 16 [] {| chunks := [[1;2;3]]; fault := EEOF; glued := true |} in
  br_read 0 b = ([], None, b) /\ bbuf (snd (br_read 1 b)) = [2;3].
Proof. vm_compute. auto. Qed.

(* ============================== part 2: messageReader.Read(p[:0]) inside a frame ============ *)
(* error returned / state left by a zero-length Read while payload bytes remain *)
Definition zero_err (s:rst) : option rerr :=
  match zero_berr (br s) with
  | None => None
  | Some k => Some (if ((0 <? rem s) || negb (rfin s)) && errk_eqb k EEOF
                    then unexpected_eof else of_errk k)
  end.
Definition zero_st (c:rcfg) (s:rst) : rst :=
  s <| br := zero_br (br s) |>
    <| mpos := if server c then mpos s mod 4 else mpos s |>
    <| rerror := zero_err s |>.

Lemma read_loop_zero_inframe f c s : rerror s = None -> 0 < rem s ->
  read_loop (S f) c 0 s = ([], zero_err s, zero_st c s).
Proof.
  intros He Hr. cbn [read_loop]. rewrite He. replace (0 <? rem s) with true by lia. cbv iota zeta.
  change (N.of_nat 0) with 0. rewrite N.min_0_l. change (N.to_nat 0) with 0%nat.
  rewrite br_read_zero. unfold zero_st, zero_err.
  destruct s as [b rm fin rl lim key mp er ec dc cu ni oi hc hl wl cs oo].
  cbn [rerror rem] in He, Hr. subst er.
  destruct (server c); rsimpl; cbn [maskl]; change (blen []) with 0;
    rewrite ?N.add_0_r, ?N.sub_0_r; reflexivity.
Qed.

(* Read(p[:0]) on the current reader while 0 < readRemaining: the exact result *)
Theorem reader_read_zero_inframe c s : rerror s = None -> 0 < rem s ->
  reader_read c 0 s = ([], zero_err s, zero_st c s).
Proof. intros He Hr. unfold reader_read, fuel_of. apply read_loop_zero_inframe; assumption. Qed.

(* ... which fields of the connection may differ afterwards: only [br] (and of it only the
   deferred error, cleared when it was reported), [mpos] (only on a server, and only normalised
   modulo 4 -- Go: maskBytes returns pos & 3) and [rerror] (c.readErr = err) *)
Theorem zero_st_frame c s :
  let s' := zero_st c s in
  rem s' = rem s /\ rkey s' = rkey s /\ rfin s' = rfin s /\ rlen s' = rlen s /\
  rlimit s' = rlimit s /\ errcount s' = errcount s /\ rdecomp s' = rdecomp s /\ cur s' = cur s /\
  nextid s' = nextid s /\ opidx s' = opidx s /\ hcount s' = hcount s /\ hlog s' = hlog s /\
  wlog s' = wlog s /\ closesent s' = closesent s /\ outoffuel s' = outoffuel s /\
  bsize (br s') = bsize (br s) /\ bbuf (br s') = bbuf (br s) /\ src (br s') = src (br s) /\
  pending (br s') = pending (br s) /\
  mpos s' mod 4 = mpos s mod 4 /\ (mpos s < 4 -> mpos s' = mpos s) /\
  (forall l, unmask c s' l = unmask c s l) /\
  rerror s' = zero_err s.
Proof.
  cbv zeta. unfold zero_st. rsimpl.
  destruct (zero_br_fields (br s)) as (H1 & H2 & H3 & H4).
  repeat (split; [first [reflexivity|assumption]|]).
  assert (Hm : (if server c then mpos s mod 4 else mpos s) mod 4 = mpos s mod 4).
  { destruct (server c); [|reflexivity]. apply N.mod_mod. lia. }
  split; [exact Hm|].
  split; [intros Hlt; destruct (server c); [apply N.mod_small; exact Hlt|reflexivity]|].
  split; [|reflexivity].
  intros l. unfold unmask. rsimpl. destruct (server c) eqn:Es; [|reflexivity].
  apply maskl_pos_mod4. apply N.mod_mod. lia.
Qed.

(* the fields the task singles out, on the result of the call itself *)
Corollary reader_read_zero_fields c s d e s' : rerror s = None -> 0 < rem s ->
  reader_read c 0 s = (d, e, s') ->
  d = [] /\ rem s' = rem s /\ rkey s' = rkey s /\ pending (br s') = pending (br s) /\
  src (br s') = src (br s) /\ mpos s' mod 4 = mpos s mod 4 /\ (mpos s < 4 -> mpos s' = mpos s) /\
  (forall l, unmask c s' l = unmask c s l) /\ rerror s' = e.
Proof.
  intros He Hr H. rewrite (reader_read_zero_inframe c s He Hr) in H. inversion H; subst d e s'.
  pose proof (zero_st_frame c s) as F. cbv zeta in F. intuition.
Qed.

(* no error pending behind an empty buffer, mask position in range (it always is: part 2b):
   the zero-length Read returns (0, nil) and changes NOTHING *)
Theorem reader_read_zero_noop c s : rerror s = None -> 0 < rem s ->
  bbuf (br s) <> [] \/ berr (br s) = None -> mpos s < 4 ->
  reader_read c 0 s = ([], None, s).
Proof.
  intros He Hr Hb Hm. rewrite (reader_read_zero_inframe c s He Hr).
  assert (E : zero_berr (br s) = None).
  { unfold zero_berr. destruct (bbuf (br s)); [|reflexivity]. destruct Hb as [Hb|Hb]; [congruence|exact Hb]. }
  unfold zero_st, zero_err. rewrite E, (zero_br_none _ E).
  replace (if server c then mpos s mod 4 else mpos s) with (mpos s)
    by (destruct (server c); [symmetry; apply N.mod_small; exact Hm|reflexivity]).
  f_equal. destruct s as [b rm fin rl lim key mp er ec dc cu ni oi hc hl wl cs oo].
  cbn [rerror] in He. subst er. reflexivity.
Qed.

Corollary reader_read_zero_noop_binv c s : rerror s = None -> 0 < rem s ->
  binv (br s) -> pending (br s) <> [] -> mpos s < 4 ->
  reader_read c 0 s = ([], None, s).
Proof.
  intros He Hr Hb Hp Hm. apply reader_read_zero_noop; try assumption.
  destruct Hb as (_ & _ & _ & Herr).
  destruct (bbuf (br s)) as [|x r] eqn:Eb; [right|left; discriminate].
  destruct (berr (br s)) as [k|] eqn:Ee; [|reflexivity]. exfalso. apply Hp.
  destruct (Herr k eq_refl) as [Hc _]. unfold pending. rewrite Eb. apply chunks_nil_stream. exact Hc.
Qed.

(* without the mask-position hypothesis: still (0, nil), same bytes to come, same unmasking *)
Corollary reader_read_zero_nil_error c s : rerror s = None -> 0 < rem s ->
  bbuf (br s) <> [] \/ berr (br s) = None ->
  exists s', reader_read c 0 s = ([], None, s') /\
    s' = s <| mpos := if server c then mpos s mod 4 else mpos s |>.
Proof.
  intros He Hr Hb. rewrite (reader_read_zero_inframe c s He Hr).
  assert (E : zero_berr (br s) = None).
  { unfold zero_berr. destruct (bbuf (br s)); [|reflexivity]. destruct Hb as [Hb|Hb]; [congruence|exact Hb]. }
  unfold zero_st, zero_err. rewrite E, (zero_br_none _ E). eexists. split; [reflexivity|].
  destruct s as [b rm fin rl lim key mp er ec dc cu ni oi hc hl wl cs oo].
  cbn [rerror] in He. subst er. reflexivity.
Qed.

(* the hypothesis on the buffer is forced: the transport delivered its io.EOF together with the
   last bytes it had, bufio kept the error, the header reads emptied the buffer; now Read(p[:0])
   reports it -- as "unexpected EOF", since payload bytes are still owed -- exactly as Go's
   b.readErr() path does.  (The connection is then dead: c.readErr is set.) *)
Example zero_read_reports_pending_error :
  let b := {| bsize := 16; bbuf := []; berr := Some EEOF;
              src := {| chunks := []; fault := EEOF; glued := false |} |} in
  let c := {| server := true; negotiated := false; custom_handlers := false;
              handler_fail := []; caps := [] |} in
  let s := init_rst b <| rem := 5 |> <| cur := Some 0%nat |> in
  binv b /\ rerror s = None /\ 0 < rem s /\ mpos s < 4 /\
  reader_read c 0 s = ([], Some unexpected_eof, s <| br := zero_br b |> <| rerror := Some unexpected_eof |>).
Proof.
  cbv zeta. split.
  { unfold binv. cbn [bsize bbuf berr src chunks fault length]. split; [lia|]. split; [lia|].
    split; [constructor|]. intros k Hk. inversion Hk. auto. }
  split; [reflexivity|]. split; [reflexivity|]. split; [reflexivity|]. vm_compute. reflexivity.
Qed.

(* ---------- part 2b: the mask position is always in range ---------- *)
(* readMaskPos is only ever assigned 0 (mask key read) or pos & 3 (maskBytes) *)
Definition mpos_ok (s:rst) : Prop := mpos s < 4.

Lemma rd_mpos n s p e s' : rd n s = (p, e, s') -> mpos s' = mpos s.
Proof. intros H. pose proof (rd_eq n s) as E. rewrite H in E. cbn [snd] in E. rewrite E. reflexivity. Qed.
Lemma send_mpos w s : mpos (send w s) = mpos s.
Proof. unfold send. destruct (closesent s); reflexivity. Qed.

Lemma ctl_finish_mpos c op pl s : mpos (snd (ctl_finish c op pl s)) = mpos s.
Proof.
  unfold ctl_finish. rewrite !handler_result_eq. unfold protocol_error. cbv zeta.
  repeat match goal with |- context [if ?b then _ else _] => destruct b end;
    cbn [snd]; rsimpl; rewrite ?send_mpos; reflexivity.
Qed.

Definition mkeep (s s':rst) : Prop := mpos s' = mpos s \/ mpos s' = 0.

Transparent aas2 aas3 aas4 aas5.
Lemma aas5_mpos c op len s : mpos (snd (aas5 c op len s)) = mpos s.
Proof.
  unfold aas5. cbv zeta.
  destruct ((op =? c_continuationFrame) || ((op =? c_TextMessage) || (op =? c_BinaryMessage))).
  - destruct (2^63 <=? rlen s + len); [cbn [snd]; rewrite send_mpos; reflexivity|].
    destruct ((0 <? rlimit (s <| rlen := rlen s + len |>)) && (rlimit (s <| rlen := rlen s + len |>) <? rlen s + len));
      cbn [snd]; rewrite ?send_mpos; reflexivity.
  - destruct (if 0 <? len then rd (N.to_nat len) s else ([], None, s)) as [[pl e] s1] eqn:E.
    assert (H : mpos s1 = mpos s).
    { destruct (0 <? len); [|inversion E; reflexivity].
      exact (rd_mpos _ _ _ _ _ E). }
    destruct e as [e|]; [exact H|].
    rewrite <- H. exact (ctl_finish_mpos c op _ (s1 <| rem := 0 |>)).
Qed.
Lemma aas4_mpos c op mask len s : mkeep s (snd (aas4 c op mask len s)).
Proof.
  unfold aas4, mkeep. cbv zeta. destruct mask.
  - destruct (rd 4 (s <| rem := len |> <| mpos := 0 |>)) as [[p e] s1] eqn:E.
    pose proof (rd_mpos _ _ _ _ _ E) as H. rsimpl_in H. right.
    destruct e as [e|]; [exact H|]. rewrite aas5_mpos. exact H.
  - left. rewrite aas5_mpos. reflexivity.
Qed.
Lemma aas3_mpos c op mask len7 s : mkeep s (snd (aas3 c op mask len7 s)).
Proof.
  unfold aas3. destruct (len7 =? 126); [|destruct (len7 =? 127)].
  - destruct (rd 2 s) as [[p e] s1] eqn:E. pose proof (rd_mpos _ _ _ _ _ E) as H.
    destruct e as [e|]; [left; exact H|]. unfold mkeep. rewrite <- H. apply aas4_mpos.
  - destruct (rd 8 s) as [[p e] s1] eqn:E. pose proof (rd_mpos _ _ _ _ _ E) as H.
    destruct e as [e|]; [left; exact H|].
    destruct (2^63 <=? be_dec p); [left; cbn [snd]; rewrite send_mpos; exact H|].
    unfold mkeep. rewrite <- H. apply aas4_mpos.
  - apply aas4_mpos.
Qed.
Lemma aas2_mpos c b0 b1 s : mkeep s (snd (aas2 c b0 b1 s)).
Proof.
  unfold aas2. cbv zeta.
  set (s0 := s <| rem := N.land b1 127 |> <| rdecomp := bit b0 c_rsv1Bit && negotiated c |>).
  set (s1 := if (N.land b0 15 =? c_TextMessage) || (N.land b0 15 =? c_BinaryMessage)
             then s0 <| rfin := bit b0 c_finalBit |> <| rlen := 0 |>
             else if N.land b0 15 =? c_continuationFrame then s0 <| rfin := bit b0 c_finalBit |> else s0).
  assert (H : mpos s1 = mpos s).
  { subst s1 s0. destruct ((N.land b0 15 =? c_TextMessage) || (N.land b0 15 =? c_BinaryMessage));
      [reflexivity|]. destruct (N.land b0 15 =? c_continuationFrame); reflexivity. }
  destruct (hdr_reject c (rfin s0) b0 b1).
  - unfold protocol_error. cbn [snd]. left. rewrite send_mpos. exact H.
  - unfold mkeep. rewrite <- H. apply aas3_mpos.
Qed.
Opaque aas2 aas3 aas4 aas5.

Lemma aas_mpos c s : mkeep s (snd (advance_after_skip c s)).
Proof.
  rewrite aas_unfold. destruct (rd 2 s) as [[p e] s1] eqn:E.
  pose proof (rd_mpos _ _ _ _ _ E) as H.
  destruct e as [e|]; [left; exact H|]. unfold mkeep. rewrite <- H. apply aas2_mpos.
Qed.

Lemma advance_frame_mpos c s : mkeep s (snd (advance_frame c s)).
Proof.
  unfold advance_frame. destruct (0 <? rem s); [|apply aas_mpos].
  destruct (copyn_discard _ (rem s) (br s)) as [[e b] oof].
  set (s1 := if oof then s <| br := b |> <| outoffuel := true |> else s <| br := b |>).
  assert (H : mpos s1 = mpos s) by (subst s1; destruct oof; reflexivity).
  destruct e as [e|]; [left; exact H|]. unfold mkeep. rewrite <- H. apply aas_mpos.
Qed.

Lemma mkeep_ok s s' : mpos_ok s -> mkeep s s' -> mpos_ok s'.
Proof. unfold mpos_ok, mkeep. intros H [E|E]; rewrite E; [exact H|lia]. Qed.

Lemma read_loop_mpos_ok c m : forall fuel s, mpos_ok s -> mpos_ok (snd (read_loop fuel c m s)).
Proof.
  induction fuel as [|f IH]; intros s H; cbn [read_loop].
  - destruct (rerror s); exact H.
  - destruct (rerror s); [exact H|]. destruct (0 <? rem s).
    + cbv zeta. destruct (br_read _ (br s)) as [[d e] b]. cbn [snd].
      destruct (server c); rsimpl; [|exact H]. unfold mpos_ok. rsimpl. apply N.mod_lt. lia.
    + destruct (rfin s); [exact H|].
      pose proof (mkeep_ok _ _ H (advance_frame_mpos c s)) as H1.
      destruct (advance_frame c s) as [a s1]. cbn [snd] in H1.
      destruct a as [e|op]; [apply IH; exact H1|].
      destruct ((op =? c_TextMessage) || (op =? c_BinaryMessage)); apply IH; exact H1.
Qed.

Lemma next_loop_mpos_ok c : forall fuel s, mpos_ok s -> mpos_ok (snd (next_loop fuel c s)).
Proof.
  induction fuel as [|f IH]; intros s H; cbn [next_loop].
  - destruct (rerror s); exact H.
  - destruct (rerror s); [exact H|].
    pose proof (mkeep_ok _ _ H (advance_frame_mpos c s)) as H1.
    destruct (advance_frame c s) as [a s1]. cbn [snd] in H1.
    destruct a as [e|op]; [exact H1|].
    destruct ((op =? c_TextMessage) || (op =? c_BinaryMessage)); [exact H1|apply IH; exact H1].
Qed.

Lemma next_reader_mpos_ok c s : mpos_ok s -> mpos_ok (snd (next_reader c s)).
Proof.
  intros H. unfold next_reader.
  match goal with |- context [next_loop ?f c ?x] =>
    pose proof (next_loop_mpos_ok c f x H) as H1; destruct (next_loop f c x) as [r s1] end.
  cbn [snd] in H1.
  destruct r; [exact H1|]. destruct (Nat.leb 1000 _); exact H1.
Qed.

Lemma read_all_mpos_ok c : forall fuel len cp acc s, mpos_ok s -> mpos_ok (snd (read_all fuel c len cp acc s)).
Proof.
  induction fuel as [|f IH]; intros len cp acc s H; cbn [read_all]; [exact H|].
  unfold reader_read.
  pose proof (read_loop_mpos_ok c (N.to_nat (cp - len)) (fuel_of s) s H) as H1.
  destruct (read_loop _ c _ s) as [[d e] s1]. cbn [snd] in H1.
  destruct e as [e|]; [destruct e; exact H1|]. apply IH. exact H1.
Qed.

Lemma read_raw_mpos_ok c : forall fuel acc s, mpos_ok s -> mpos_ok (snd (read_raw fuel c acc s)).
Proof.
  induction fuel as [|f IH]; intros acc s H; cbn [read_raw]; [exact H|].
  unfold reader_read.
  pose proof (read_loop_mpos_ok c 4096 (fuel_of s) s H) as H1.
  destruct (read_loop _ c _ s) as [[d e] s1]. cbn [snd] in H1.
  destruct e as [e|]; [destruct e; exact H1|]. apply IH. exact H1.
Qed.

Lemma rstep_mpos_ok inflate c s o : mpos_ok s -> mpos_ok (snd (rstep inflate c s o)).
Proof.
  intros H. unfold rstep.
  assert (G : forall (p:rout * rst), mpos_ok (snd p) ->
              mpos_ok (snd (let '(r, s0) := p in (r, s0 <| opidx := S (opidx s0) |>)))).
  { intros [r s0] X. exact X. }
  apply G. destruct o as [|m|m| |l].
  - apply next_reader_mpos_ok. exact H.
  - destruct (cur s); [|exact H].
    pose proof (read_loop_mpos_ok c m (fuel_of s) s H) as H1. unfold reader_read.
    destruct (read_loop _ c m s) as [[d e] s1]. exact H1.
  - exact H.
  - unfold read_message. pose proof (next_reader_mpos_ok c s H) as H1.
    destruct (next_reader c s) as [r s1]. cbn [snd] in H1.
    destruct r as [ty [e|]|d e|ty d e| |]; try exact H1.
    destruct (rdecomp s1).
    + pose proof (read_raw_mpos_ok c (fuel_of s1) [] s1 H1) as H2.
      destruct (read_raw _ c [] s1) as [[raw e] s2]. cbn [snd] in H2.
      destruct e; [exact H2|]. destruct (inflate _); exact H2.
    + pose proof (read_all_mpos_ok c (fuel_of s1) 0 512 [] s1 H1) as H2.
      destruct (read_all _ c 0 512 [] s1) as [[d e] s2]. exact H2.
  - exact H.
Qed.

(* every state the reader can reach from a fresh connection has its mask position in 0..3 *)
Theorem run_ops_mpos_ok inflate c : forall ops s, mpos_ok s -> mpos_ok (snd (run_ops inflate c s ops)).
Proof.
  induction ops as [|o r IH]; intros s H; cbn [run_ops]; [exact H|].
  pose proof (rstep_mpos_ok inflate c s o H) as H1.
  destruct (rstep inflate c s o) as [x s1]. cbn [snd] in H1.
  pose proof (IH s1 H1) as H2. destruct (run_ops inflate c s1 r) as [xs s2].
  destruct x; cbn [snd] in *; assumption.
Qed.

Corollary reachable_mpos_ok inflate c b ops : mpos_ok (snd (run_ops inflate c (init_rst b) ops)).
Proof. apply run_ops_mpos_ok. unfold mpos_ok, init_rst. cbn [mpos]. lia. Qed.

(* ============================== part 3: transparency ============================== *)
(* a Read of any size issued right after the in-frame zero-length Read returns what it would
   have returned without it, and leaves the same state *)
Lemma read_loop_after_zero_inframe g f c m s : rerror s = None -> 0 < rem s ->
  read_loop (S g) c m (zero_st c s) = read_loop (S f) c m s.
Proof.
  intros He Hr. pose proof (br_read_after_zero (N.to_nat (N.min (N.of_nat m) (rem s))) (br s)) as Hz.
  destruct s as [b rm fin rl lim key mp er ec dc cu ni oi hc hl wl cs oo].
  cbn [rerror rem br] in He, Hr, Hz. subst er.
  unfold zero_st, zero_err. rsimpl.
  destruct (zero_berr b) as [k|] eqn:Ez.
  - (* the pending error was reported by the zero-length read; the next Read repeats it *)
    assert (Hlt : (0 <? rm) = true) by lia.
    erewrite (read_loop_err_val (S g) c m) by reflexivity. rsimpl.
    cbn [read_loop]. rsimpl. rewrite Hlt. cbv iota zeta. rewrite Hz.
    cbn [maskl]. change (blen []) with 0.
    destruct (server c); rsimpl; rewrite ?N.add_0_r, ?N.sub_0_r, ?Hlt; cbn [orb andb];
      destruct k; cbn [errk_eqb of_errk is_io_eof andb unexpected_eof]; reflexivity.
  - rewrite Hz. cbn [read_loop]. rsimpl. replace (0 <? rm) with true by lia. cbv iota zeta.
    destruct (br_read (N.to_nat (N.min (N.of_nat m) rm)) b) as [[d e] b1].
    destruct (server c); rsimpl; [|reflexivity].
    rewrite N.add_mod_idemp_l by lia.
    rewrite (maskl_pos_mod4 key (mp mod 4) mp d) by (apply N.mod_mod; lia). reflexivity.
Qed.

Lemma read_loop_rem0_step f c m s : rerror s = None -> rem s = 0 -> rfin s = false ->
  read_loop (S f) c m s =
  match advance_after_skip c s with
  | (AErr e, s1) => read_loop f c m (s1 <| rerror := Some e |>)
  | (AFrame op, s1) =>
      if (op =? c_TextMessage) || (op =? c_BinaryMessage)
      then read_loop f c m (s1 <| rerror := Some RInternal |>) else read_loop f c m s1
  end.
Proof.
  intros He Hr Hf. cbn [read_loop]. rewrite He, Hf.
  replace (0 <? rem s) with false by lia. cbv iota.
  rewrite advance_frame_rem0 by exact Hr.
  destruct (advance_after_skip c s) as [[e|op] s1]; reflexivity.
Qed.

(* the general statement: wherever the zero-length Read stops (inside a frame, at the end of
   the message, after having consumed empty fragments and control frames, on an error), the next
   Read of ANY size -- with any sufficient fuel -- yields exactly what it would have yielded *)
Lemma read_loop_zero_then c : forall f s x0 e0 s0,
  binv (br s) -> (length (pending (br s)) < f)%nat ->
  read_loop f c 0 s = (x0, e0, s0) ->
  x0 = [] /\
  forall m g, (length (pending (br s0)) < g)%nat -> read_loop g c m s0 = read_loop f c m s.
Proof.
  induction f as [|f IH]; intros s x0 e0 s0 Hb Hf H; [lia|].
  destruct (rerror s) as [er|] eqn:He.
  { rewrite (read_loop_err_val _ c 0 s er He) in H. inversion H; subst. split; [reflexivity|].
    intros m g _. rewrite !(read_loop_err_val _ c m s0 er He). reflexivity. }
  destruct (0 <? rem s) eqn:Er.
  - rewrite read_loop_zero_inframe in H by (assumption || lia). inversion H; subst.
    split; [reflexivity|]. intros m g Hg. destruct g as [|g]; [lia|].
    apply read_loop_after_zero_inframe; [assumption|lia].
  - assert (Hr0 : rem s = 0) by lia. destruct (rfin s) eqn:Efin.
    + rewrite read_loop_eof in H by assumption. inversion H; subst.
      split; [reflexivity|]. intros m g Hg. destruct g as [|g]; [lia|].
      rewrite !read_loop_eof by (rsimpl; assumption).
      destruct s; reflexivity.
    + pose proof (fun m => read_loop_rem0_step f c m s He Hr0 Efin) as Hstep.
      rewrite Hstep in H.
      destruct (advance_after_skip c s) as [a s1] eqn:Ea.
      destruct (advance_after_skip_total c s a s1 Hb Ea) as (Hbs & _ & Hdec & _).
      destruct a as [e|op].
      * erewrite read_loop_err_val in H by reflexivity. inversion H; subst.
        split; [reflexivity|]. intros m g _. rewrite Hstep.
        erewrite !read_loop_err_val by reflexivity. reflexivity.
      * destruct ((op =? c_TextMessage) || (op =? c_BinaryMessage)) eqn:Eop.
        -- erewrite read_loop_err_val in H by reflexivity. inversion H; subst.
           split; [reflexivity|]. intros m g _. rewrite Hstep.
           erewrite !read_loop_err_val by reflexivity. reflexivity.
        -- pose proof (Hdec op eq_refl) as Hd.
           destruct (IH s1 x0 e0 s0 (proj1 Hbs) ltac:(lia) H) as [Hx Hall].
           split; [exact Hx|]. intros m g Hg. rewrite Hstep. apply Hall. exact Hg.
Qed.

(* messageReader.Read(p[:0]) followed by messageReader.Read(p) for any p: the second call returns
   what it would have returned as the only call, and the connection ends in the same state *)
Theorem reader_read_zero_transparent c s x0 e0 s0 :
  binv (br s) -> reader_read c 0 s = (x0, e0, s0) ->
  x0 = [] /\ forall m, reader_read c m s0 = reader_read c m s.
Proof.
  intros Hb H. unfold reader_read in *.
  destruct (read_loop_zero_then c (fuel_of s) s x0 e0 s0 Hb ltac:(unfold fuel_of; lia) H) as [Hx Hall].
  split; [exact Hx|]. intros m. apply Hall. unfold fuel_of. lia.
Qed.

(* a zero-length Read never returns a byte (no hypothesis at all) *)
Lemma read_loop_zero_nil c : forall f s, fst (fst (read_loop f c 0 s)) = [].
Proof.
  induction f as [|f IH]; intros s; cbn [read_loop].
  - destruct (rerror s); reflexivity.
  - destruct (rerror s) eqn:He; [reflexivity|]. destruct (0 <? rem s) eqn:Er.
    + pose proof (read_loop_zero_inframe f c s He ltac:(lia)) as H. cbn [read_loop] in H.
      rewrite He, Er in H. rewrite H. reflexivity.
    + destruct (rfin s); [reflexivity|]. destruct (advance_frame c s) as [[e|op] s1]; [apply IH|].
      destruct ((op =? c_TextMessage) || (op =? c_BinaryMessage)); apply IH.
Qed.
Theorem reader_read_zero_nil c s : fst (fst (reader_read c 0 s)) = [].
Proof. apply read_loop_zero_nil. Qed.

(* when no payload byte is left in the frame a zero-length Read behaves like any other Read:
   io.EOF at the end of the message ... *)
Theorem reader_read_zero_eof c s : rerror s = None -> rem s = 0 -> rfin s = true ->
  reader_read c 0 s = ([], Some RIoEOF, s <| cur := None |>).
Proof. intros. unfold reader_read, fuel_of. apply read_loop_eof; assumption. Qed.
(* ... otherwise it advances to the next frame exactly as Read(p) does (same advanceFrame, same
   replies to control frames), and then reads zero bytes of it *)
Theorem reader_read_zero_advances c m s : rerror s = None -> rem s = 0 -> rfin s = false ->
  forall f, read_loop (S f) c 0 s =
    match advance_after_skip c s with
    | (AErr e, s1) => read_loop f c 0 (s1 <| rerror := Some e |>)
    | (AFrame op, s1) =>
        if (op =? c_TextMessage) || (op =? c_BinaryMessage)
        then read_loop f c 0 (s1 <| rerror := Some RInternal |>) else read_loop f c 0 s1
    end /\
  read_loop (S f) c m s =
    match advance_after_skip c s with
    | (AErr e, s1) => read_loop f c m (s1 <| rerror := Some e |>)
    | (AFrame op, s1) =>
        if (op =? c_TextMessage) || (op =? c_BinaryMessage)
        then read_loop f c m (s1 <| rerror := Some RInternal |>) else read_loop f c m s1
    end.
Proof. intros He Hr Hf f. split; apply read_loop_rem0_step; assumption. Qed.

(* ---------- the API level (rstep): ORead 0 then ORead m ---------- *)
Lemma read_loop_opidx : forall fuel c m s d e s', read_loop fuel c m s = (d, e, s') -> opidx s' = opidx s.
Proof.
  induction fuel as [|fu IH]; intros c m s d e s' H.
  - cbn [read_loop] in H. destruct (rerror s); inversion H; subst; reflexivity.
  - cbn [read_loop] in H. destruct (rerror s) as [e1|] eqn:He; [inversion H; subst; reflexivity|].
    destruct (0 <? rem s) eqn:Er.
    + cbv zeta in H.
      destruct (br_read (N.to_nat (N.min (N.of_nat m) (rem s))) (br s)) as [[d0 e0] b].
      inversion H; subst. destruct (server c); rsimpl; reflexivity.
    + destruct (rfin s); [inversion H; subst; reflexivity|].
      pose proof (advance_frame_opidx c s) as Hp.
      destruct (advance_frame c s) as [a s1]. specialize (Hp a s1 eq_refl).
      destruct a as [e1|op]; [|destruct ((op =? c_TextMessage) || (op =? c_BinaryMessage))];
        rewrite (IH _ _ _ _ _ _ H); rsimpl; exact Hp.
Qed.

(* the reader stops being current only at the clean end of its message *)
Lemma read_loop_cur_none : forall fuel c m s d e s',
  cur s <> None -> read_loop fuel c m s = (d, e, s') -> cur s' = None ->
  rerror s' = None /\ rem s' = 0 /\ rfin s' = true.
Proof.
  induction fuel as [|fu IH]; intros c m s d e s' Hc H Hn.
  - cbn [read_loop] in H. destruct (rerror s); inversion H; subst; rsimpl_in Hn; contradiction.
  - cbn [read_loop] in H. destruct (rerror s) as [e1|] eqn:He; [inversion H; subst; contradiction|].
    destruct (0 <? rem s) eqn:Er.
    + cbv zeta in H.
      destruct (br_read (N.to_nat (N.min (N.of_nat m) (rem s))) (br s)) as [[d0 e0] b].
      inversion H; subst. exfalso. apply Hc. destruct (server c); rsimpl_in Hn; exact Hn.
    + destruct (rfin s) eqn:Ef.
      { inversion H; subst. rsimpl. split; [exact He|]. split; [lia|exact Ef]. }
      rewrite advance_frame_rem0 in H by lia.
      pose proof (advance_after_skip_good c s) as (Hp & _).
      destruct (advance_after_skip c s) as [a s1]. cbn [snd] in Hp. destruct Hp as (Hcur & _).
      destruct a as [e1|op]; [|destruct ((op =? c_TextMessage) || (op =? c_BinaryMessage))];
        (eapply IH; [|exact H|exact Hn]; rsimpl; congruence).
Qed.

Lemma setop_same (s:rst) : s <| opidx := opidx s |> = s.
Proof. destruct s; reflexivity. Qed.

(* ORead 0 followed (after resetting the API-call counter, which every call bumps) by ORead m:
   same output, same state as ORead m alone.  Any handlers, any stream, any state. *)
Theorem rstep_zero_read_then inflate c s r0 s0 :
  binv (br s) -> rstep inflate c s (ORead 0) = (r0, s0) ->
  (exists e0, r0 = RData [] e0) /\ opidx s0 = S (opidx s) /\
  forall m, rstep inflate c (s0 <| opidx := opidx s |>) (ORead m) = rstep inflate c s (ORead m).
Proof.
  intros Hb H. unfold rstep in H. destruct (cur s) as [i|] eqn:Ec.
  - destruct (reader_read c 0 s) as [[x0 e0] s1] eqn:Er. inversion H; subst r0 s0. clear H.
    destruct (reader_read_zero_transparent c s x0 e0 s1 Hb Er) as [-> Hall].
    pose proof (read_loop_opidx _ _ _ _ _ _ _ Er) as Hop.
    split; [eexists; reflexivity|]. split; [rsimpl; rewrite Hop; reflexivity|].
    intros m.
    assert (E : s1 <| opidx := S (opidx s1) |> <| opidx := opidx s |> = s1)
      by (rewrite <- Hop; destruct s1; reflexivity).
    rewrite E. unfold rstep. rewrite Ec. destruct (cur s1) as [j|] eqn:Ec1.
    + rewrite Hall. reflexivity.
    + assert (Hcs : cur s <> None) by congruence.
      destruct (read_loop_cur_none _ _ _ _ _ _ _ Hcs Er Ec1) as (He1 & Hr1 & Hf1).
      rewrite <- Hall.
      unfold reader_read, fuel_of. rewrite (read_loop_eof _ c m s1 He1 Hr1 Hf1).
      replace (s1 <| cur := None |>) with s1 by (destruct s1 as [b1 rm fin rl lim key mp er ec dc cu ni oi hc hl wl cs oo];
          cbn [cur] in Ec1; subst cu; reflexivity).
      reflexivity.
  - inversion H; subst r0 s0. split; [eexists; reflexivity|]. split; [reflexivity|].
    intros m. replace (s <| opidx := S (opidx s) |> <| opidx := opidx s |>) with s
      by (destruct s; reflexivity). reflexivity.
Qed.

(* ============================== part 4: read plans ============================== *)
(* ---------- with the default handlers the API-call counter is never read ---------- *)
Definition setop (n:nat) (s:rst) : rst := s <| opidx := n |>.
Definition onsnd {A} (f:rst -> rst) (p:A * rst) : A * rst := (fst p, f (snd p)).

Lemma rd_setop k n s : rd k (setop n s) = (fst (rd k s), setop n (snd (rd k s))).
Proof. unfold rd, setop. rsimpl. destruct (br_peek_discard k (br s)) as [[p e] b]. reflexivity. Qed.
Lemma send_setop w n s : send w (setop n s) = setop n (send w s).
Proof. unfold send, setop. rsimpl. destruct (closesent s); reflexivity. Qed.

Section DefaultHandlers.
Variable c : rcfg.
Hypothesis Hch : custom_handlers c = false.

Lemma ctl_finish_setop op pl n s :
  ctl_finish c op pl (setop n s) = onsnd (setop n) (ctl_finish c op pl s).
Proof.
  unfold ctl_finish, protocol_error, onsnd. rewrite Hch. cbv zeta. rewrite !send_setop.
  repeat match goal with |- context [if ?b then _ else _] => destruct b end; reflexivity.
Qed.

Transparent aas2 aas3 aas4 aas5.
Lemma aas5_setop op len n s : aas5 c op len (setop n s) = onsnd (setop n) (aas5 c op len s).
Proof.
  unfold aas5. cbv zeta.
  destruct ((op =? c_continuationFrame) || ((op =? c_TextMessage) || (op =? c_BinaryMessage))).
  - change (rlen (setop n s)) with (rlen s).
    change (setop n s <| rlen := rlen s + len |>) with (setop n (s <| rlen := rlen s + len |>)).
    rewrite !send_setop.
    change (rlimit (setop n (s <| rlen := rlen s + len |>))) with (rlimit (s <| rlen := rlen s + len |>)).
    destruct (2^63 <=? rlen s + len); [reflexivity|].
    destruct ((0 <? rlimit (s <| rlen := rlen s + len |>)) && (rlimit (s <| rlen := rlen s + len |>) <? rlen s + len));
      reflexivity.
  - destruct (0 <? len).
    + rewrite rd_setop. destruct (rd (N.to_nat len) s) as [[pl e] s1]. cbn [fst snd].
      destruct e as [e|]; [reflexivity|].
      change (setop n s1 <| rem := 0 |>) with (setop n (s1 <| rem := 0 |>)).
      change (rkey (setop n (s1 <| rem := 0 |>))) with (rkey (s1 <| rem := 0 |>)).
      exact (ctl_finish_setop op _ n (s1 <| rem := 0 |>)).
    + change (setop n s <| rem := 0 |>) with (setop n (s <| rem := 0 |>)).
      change (rkey (setop n (s <| rem := 0 |>))) with (rkey (s <| rem := 0 |>)).
      exact (ctl_finish_setop op _ n (s <| rem := 0 |>)).
Qed.

Lemma aas4_setop op mask len n s : aas4 c op mask len (setop n s) = onsnd (setop n) (aas4 c op mask len s).
Proof.
  unfold aas4. cbv zeta. destruct mask.
  - change (setop n s <| rem := len |> <| mpos := 0 |>) with (setop n (s <| rem := len |> <| mpos := 0 |>)).
    rewrite rd_setop. destruct (rd 4 (s <| rem := len |> <| mpos := 0 |>)) as [[p e] s1]. cbn [fst snd].
    destruct e as [e|]; [reflexivity|].
    change (setop n s1 <| rkey := p |>) with (setop n (s1 <| rkey := p |>)). apply aas5_setop.
  - change (setop n s <| rem := len |>) with (setop n (s <| rem := len |>)). apply aas5_setop.
Qed.

Lemma aas3_setop op mask len7 n s : aas3 c op mask len7 (setop n s) = onsnd (setop n) (aas3 c op mask len7 s).
Proof.
  unfold aas3. destruct (len7 =? 126); [|destruct (len7 =? 127)].
  - rewrite rd_setop. destruct (rd 2 s) as [[p e] s1]. cbn [fst snd].
    destruct e as [e|]; [reflexivity|]. apply aas4_setop.
  - rewrite rd_setop. destruct (rd 8 s) as [[p e] s1]. cbn [fst snd].
    destruct e as [e|]; [reflexivity|].
    destruct (2^63 <=? be_dec p); [rewrite send_setop; reflexivity|]. apply aas4_setop.
  - apply aas4_setop.
Qed.

Lemma aas2_setop b0 b1 n s : aas2 c b0 b1 (setop n s) = onsnd (setop n) (aas2 c b0 b1 s).
Proof.
  unfold aas2. cbv zeta.
  set (s0 := s <| rem := N.land b1 127 |> <| rdecomp := bit b0 c_rsv1Bit && negotiated c |>).
  change (setop n s <| rem := N.land b1 127 |> <| rdecomp := bit b0 c_rsv1Bit && negotiated c |>)
    with (setop n s0).
  change (rfin (setop n s0)) with (rfin s0).
  set (s1 := if (N.land b0 15 =? c_TextMessage) || (N.land b0 15 =? c_BinaryMessage)
             then s0 <| rfin := bit b0 c_finalBit |> <| rlen := 0 |>
             else if N.land b0 15 =? c_continuationFrame then s0 <| rfin := bit b0 c_finalBit |> else s0).
  assert (E : (if (N.land b0 15 =? c_TextMessage) || (N.land b0 15 =? c_BinaryMessage)
               then setop n s0 <| rfin := bit b0 c_finalBit |> <| rlen := 0 |>
               else if N.land b0 15 =? c_continuationFrame
                    then setop n s0 <| rfin := bit b0 c_finalBit |> else setop n s0) = setop n s1).
  { subst s1. destruct ((N.land b0 15 =? c_TextMessage) || (N.land b0 15 =? c_BinaryMessage));
      [reflexivity|]. destruct (N.land b0 15 =? c_continuationFrame); reflexivity. }
  rewrite E. destruct (hdr_reject c (rfin s0) b0 b1).
  - unfold protocol_error. rewrite send_setop. reflexivity.
  - apply aas3_setop.
Qed.
Opaque aas2 aas3 aas4 aas5.

Lemma aas_setop n s : advance_after_skip c (setop n s) = onsnd (setop n) (advance_after_skip c s).
Proof.
  rewrite !aas_unfold, rd_setop. destruct (rd 2 s) as [[p e] s1]. cbn [fst snd].
  destruct e as [e|]; [reflexivity|]. apply aas2_setop.
Qed.

Lemma advance_frame_setop n s : advance_frame c (setop n s) = onsnd (setop n) (advance_frame c s).
Proof.
  unfold advance_frame. change (rem (setop n s)) with (rem s). change (br (setop n s)) with (br s).
  destruct (0 <? rem s); [|apply aas_setop].
  destruct (copyn_discard _ (rem s) (br s)) as [[e b] oof].
  assert (E : (if oof then setop n s <| br := b |> <| outoffuel := true |> else setop n s <| br := b |>)
              = setop n (if oof then s <| br := b |> <| outoffuel := true |> else s <| br := b |>))
    by (destruct oof; reflexivity).
  rewrite E. destruct e as [e|]; [reflexivity|]. apply aas_setop.
Qed.

Lemma read_loop_setop m n : forall fuel s,
  read_loop fuel c m (setop n s) = onsnd (setop n) (read_loop fuel c m s).
Proof.
  induction fuel as [|f IH]; intros s; cbn [read_loop]; change (rerror (setop n s)) with (rerror s).
  - destruct (rerror s); reflexivity.
  - destruct (rerror s); [reflexivity|].
    change (rem (setop n s)) with (rem s). change (rfin (setop n s)) with (rfin s).
    change (br (setop n s)) with (br s).
    destruct (0 <? rem s).
    + cbv zeta. destruct (br_read _ (br s)) as [[d e] b]. destruct (server c); reflexivity.
    + destruct (rfin s); [reflexivity|].
      rewrite advance_frame_setop. destruct (advance_frame c s) as [a s1]. unfold onsnd at 1. cbn [fst snd].
      destruct a as [e|op].
      * change (setop n s1 <| rerror := Some e |>) with (setop n (s1 <| rerror := Some e |>)). apply IH.
      * destruct ((op =? c_TextMessage) || (op =? c_BinaryMessage)); [|apply IH].
        change (setop n s1 <| rerror := Some RInternal |>) with (setop n (s1 <| rerror := Some RInternal |>)).
        apply IH.
Qed.

Lemma rstep_read_setop inflate m n s :
  rstep inflate c (setop n s) (ORead m) =
  (fst (rstep inflate c s (ORead m)), setop (S n) (snd (rstep inflate c s (ORead m)))).
Proof.
  unfold rstep. change (cur (setop n s)) with (cur s). destruct (cur s).
  - unfold reader_read. change (fuel_of (setop n s)) with (fuel_of s). rewrite read_loop_setop.
    destruct (read_loop (fuel_of s) c m s) as [[d e] s1]. reflexivity.
  - reflexivity.
Qed.
End DefaultHandlers.

(* ---------- plans of Reads with zero-length Reads inserted anywhere ---------- *)
Definition nz (m:nat) : bool := negb (Nat.eqb m 0).
(* the outputs of the non-zero-length reads of plan [l] *)
Definition keep_nz (l:list nat) (outs:list rout) : list rout :=
  map snd (filter (fun p => nz (fst p)) (combine l outs)).

Lemma keep_nz_cons m l x outs :
  keep_nz (m :: l) (x :: outs) = if nz m then x :: keep_nz l outs else keep_nz l outs.
Proof. unfold keep_nz. cbn [combine filter fst]. destruct (nz m); reflexivity. Qed.

(* equal except for the API-call counter *)
Definition eqop (s1 s2:rst) : Prop := s1 = setop (opidx s1) s2.
Lemma eqop_refl s : eqop s s.
Proof. unfold eqop, setop. symmetry. apply setop_same. Qed.
Lemma setop_setop a b s : setop a (setop b s) = setop a s.
Proof. reflexivity. Qed.

Section Plans.
Variable inflate : bytes -> option bytes.
Variable c : rcfg.
Hypothesis Hch : custom_handlers c = false.

(* no Read of any size can tell the two states apart *)
Definition read_equiv (sA s:rst) : Prop :=
  forall m, fst (rstep inflate c sA (ORead m)) = fst (rstep inflate c s (ORead m)) /\
            eqop (snd (rstep inflate c sA (ORead m))) (snd (rstep inflate c s (ORead m))).

Lemma eqop_read_equiv sA s : eqop sA s -> read_equiv sA s.
Proof.
  intros E m. rewrite E. rewrite (rstep_read_setop c Hch inflate m (opidx sA) s). cbn [fst snd].
  split; [reflexivity|]. unfold eqop. reflexivity.
Qed.

Lemma read_equiv_after_zero sA s r0 sA1 : binv (br sA) -> read_equiv sA s ->
  rstep inflate c sA (ORead 0) = (r0, sA1) -> read_equiv sA1 s.
Proof.
  intros Hb HT H0 m. destruct (rstep_zero_read_then inflate c sA r0 sA1 Hb H0) as (_ & _ & Hall).
  specialize (Hall m). destruct (HT m) as [H1 H2].
  pose proof (rstep_read_setop c Hch inflate m (opidx sA) sA1) as Hs.
  unfold setop in Hs. rewrite Hall in Hs.
  set (X := rstep inflate c sA1 (ORead m)) in *.
  set (Y := rstep inflate c sA (ORead m)) in *.
  set (Z := rstep inflate c s (ORead m)) in *.
  split.
  - rewrite <- H1. rewrite Hs. reflexivity.
  - unfold eqop in *. rewrite Hs in H2. cbn [snd] in H2.
    rewrite <- (setop_same (snd X)) at 1. fold (setop (opidx (snd X)) (snd X)).
    rewrite <- (setop_setop (opidx (snd X)) (S (opidx sA)) (snd X)).
    unfold setop at 2. rewrite H2. reflexivity.
Qed.

Lemma rstep_read_data s m : exists d e, fst (rstep inflate c s (ORead m)) = RData d e.
Proof.
  unfold rstep. destruct (cur s); [|eexists; eexists; reflexivity].
  destruct (reader_read c m s) as [[d e] s1]. eexists; eexists; reflexivity.
Qed.

(* Main plan lemma.  [sA] runs the plan [l] (zero-length reads included), [s] the plan without
   them; the two start from states no Read can tell apart. *)
Lemma plan_zero_gen : forall l sA s outs sA',
  binv (br sA) -> outoffuel sA = false -> read_equiv sA s ->
  run_ops inflate c sA (map ORead l) = (outs, sA') ->
  length outs = length l /\
  Forall2 (fun m r => exists d e, r = RData d e /\ (m = 0%nat -> d = [])) l outs /\
  exists s', run_ops inflate c s (map ORead (filter nz l)) = (keep_nz l outs, s') /\
             read_equiv sA' s' /\ binv (br sA') /\ outoffuel sA' = false.
Proof.
  induction l as [|m l IH]; intros sA s outs sA' Hb Hoof HT H.
  - cbn [map run_ops] in H. inversion H; subst. split; [reflexivity|]. split; [constructor|].
    exists s. cbn [filter map run_ops]. unfold keep_nz. cbn [combine filter map]. auto.
  - cbn [map run_ops] in H.
    destruct (rstep inflate c sA (ORead m)) as [x sA1] eqn:EA.
    destruct (rstep_total inflate c sA (ORead m) x sA1 Hb Hoof EA) as ((((Hb1 & _) & Hoof1 & _) & _) & _).
    destruct (rstep_read_data sA m) as (d & e & Hx). rewrite EA in Hx. cbn [fst] in Hx. subst x.
    destruct (run_ops inflate c sA1 (map ORead l)) as [xs sA2] eqn:ER. inversion H; subst outs sA'. clear H.
    destruct (Nat.eq_dec m 0) as [Hm|Hm].
    + subst m.
      pose proof (read_equiv_after_zero sA s _ sA1 Hb HT EA) as HT1.
      destruct (IH sA1 s xs sA2 Hb1 Hoof1 HT1 ER) as (Hlen & Hall & s' & Hrun & HT2 & Hb2 & Hoof2).
      split; [cbn [length]; rewrite Hlen; reflexivity|].
      split.
      { constructor; [|exact Hall]. exists d, e. split; [reflexivity|]. intros _.
        destruct (rstep_zero_read_then inflate c sA _ sA1 Hb EA) as ((e0 & He0) & _). congruence. }
      exists s'. rewrite keep_nz_cons. cbn [filter nz Nat.eqb negb]. auto.
    + assert (Enz : nz m = true) by (unfold nz; destruct m; [contradiction|reflexivity]).
      destruct (HT m) as [H1 H2]. rewrite EA in H1, H2. cbn [fst snd] in H1, H2.
      destruct (rstep inflate c s (ORead m)) as [x1 s1] eqn:ES. cbn [fst snd] in H1, H2. subst x1.
      pose proof (eqop_read_equiv sA1 s1 H2) as HT1.
      destruct (IH sA1 s1 xs sA2 Hb1 Hoof1 HT1 ER) as (Hlen & Hall & s' & Hrun & HT2 & Hb2 & Hoof2).
      split; [cbn [length]; rewrite Hlen; reflexivity|].
      split.
      { constructor; [|exact Hall]. exists d, e. split; [reflexivity|]. intros E0. contradiction. }
      exists s'. rewrite keep_nz_cons, Enz. cbn [filter]. rewrite Enz. cbn [map run_ops].
      rewrite ES, Hrun. auto.
Qed.

Lemma read_equiv_refl s : read_equiv s s.
Proof. apply eqop_read_equiv, eqop_refl. Qed.

(* Inserting zero-length Reads anywhere into a plan of Reads: every zero-length Read returns no
   byte, and the other Reads return exactly -- byte for byte, error for error -- what they return
   when the zero-length Reads are left out.  Any stream (conformant or not), any chunking, any
   point of a message; default handlers (with recording handlers the log entries carry the call
   index, which the inserted calls shift). *)
Theorem zero_reads_do_not_disturb l s outs s' :
  binv (br s) -> outoffuel s = false ->
  run_ops inflate c s (map ORead l) = (outs, s') ->
  length outs = length l /\
  Forall2 (fun m r => exists d e, r = RData d e /\ (m = 0%nat -> d = [])) l outs /\
  exists s2, run_ops inflate c s (map ORead (filter nz l)) = (keep_nz l outs, s2) /\
             read_equiv s' s2.
Proof.
  intros Hb Hoof H.
  destruct (plan_zero_gen l s s outs s' Hb Hoof (read_equiv_refl s) H) as (A & B & s2 & C & D & _).
  split; [exact A|]. split; [exact B|]. exists s2. auto.
Qed.
End Plans.

(* ============================== part 5: the specification of read plans ==================== *)
(* [reads_ok] of ReadProgP.v generalised to plans that contain zero-length reads.  The only
   difference: a Read with len(p) = 0 returns (0, nil) while bytes of the message remain (Go's
   io.Reader contract allows this for len(p) = 0 only); it still reports io.EOF once everything
   has been delivered. *)
Fixpoint reads_ok0 (d:bytes) (l:list nat) (outs:list rout) {struct l} : Prop :=
  match l, outs with
  | [], [] => True
  | m :: l', RData x e :: outs' =>
      (d = [] -> x = [] /\ e = Some RIoEOF) /\
      (d <> [] -> e = None /\ ((0 < m)%nat -> x <> []) /\ (length x <= m)%nat) /\
      exists d', d = x ++ d' /\ reads_ok0 d' l' outs'
  | _, _ => False
  end.

Lemma reads_ok_ok0 : forall l d outs, reads_ok d l outs -> reads_ok0 d l outs.
Proof.
  induction l as [|m l IH]; intros d outs H; destruct outs as [|r outs]; cbn [reads_ok reads_ok0] in *; try exact H.
  destruct r as [| x e | | |]; try contradiction.
  destruct H as (H1 & H2 & d' & H3 & H4). split; [exact H1|]. split.
  - intros Hd. destruct (H2 Hd) as (A & B & C). auto.
  - exists d'. split; [exact H3|]. apply IH. exact H4.
Qed.

Lemma reads_ok0_pos : forall l d outs, Forall (fun m => (0 < m)%nat) l ->
  reads_ok0 d l outs -> reads_ok d l outs.
Proof.
  induction l as [|m l IH]; intros d outs Hl H; destruct outs as [|r outs]; cbn [reads_ok reads_ok0] in *; try exact H.
  destruct r as [| x e | | |]; try contradiction.
  inversion Hl as [|m' l' Hm Hl']; subst m' l'.
  destruct H as (H1 & H2 & d' & H3 & H4). split; [exact H1|]. split.
  - intros Hd. destruct (H2 Hd) as (A & B & C). auto.
  - exists d'. split; [exact H3|]. apply IH; assumption.
Qed.

(* removing the zero-length reads from a plan and their outputs from the outputs leaves a plan
   that satisfies the original specification: the other reads deliver the same message *)
Lemma reads_ok0_keep_nz : forall l d outs, reads_ok0 d l outs ->
  reads_ok d (filter nz l) (keep_nz l outs).
Proof.
  induction l as [|m l IH]; intros d outs H; destruct outs as [|r outs]; cbn [reads_ok0] in H; try contradiction.
  - exact I.
  - destruct r as [| x e | | |]; try contradiction.
    destruct H as (H1 & H2 & d' & H3 & H4). rewrite keep_nz_cons. cbn [filter].
    destruct m as [|m]; cbn [nz Nat.eqb negb].
    + assert (Hx : x = []).
      { destruct d as [|y d0]; [apply H1; reflexivity|].
        destruct (H2 ltac:(discriminate)) as (_ & _ & Hl). apply length_zero_nil. lia. }
      subst x. cbn [app] in H3. subst d'. apply IH. exact H4.
    + cbn [reads_ok]. split; [exact H1|]. split.
      * intros Hd. destruct (H2 Hd) as (A & B & C). split; [exact A|]. split; [apply B; lia|exact C].
      * exists d'. split; [exact H3|]. apply IH. exact H4.
Qed.

(* what each zero-length read of a plan returns *)
Lemma reads_ok0_zero_outputs : forall l d outs, reads_ok0 d l outs ->
  Forall2 (fun m r => m = 0%nat -> r = RData [] None \/ r = RData [] (Some RIoEOF)) l outs.
Proof.
  induction l as [|m l IH]; intros d outs H; destruct outs as [|r outs]; cbn [reads_ok0] in H; try contradiction.
  - constructor.
  - destruct r as [| x e | | |]; try contradiction.
    destruct H as (H1 & H2 & d' & H3 & H4). constructor; [|exact (IH _ _ H4)].
    intros ->. destruct d as [|y d0].
    + destruct (H1 eq_refl) as [-> ->]. right. reflexivity.
    + destruct (H2 ltac:(discriminate)) as (-> & _ & Hl). left.
      replace x with (@nil N) by (symmetry; apply length_zero_nil; lia). reflexivity.
Qed.

Lemma keep_nz_data : forall l outs,
  Forall2 (fun m r => exists d e, r = RData d e /\ (m = 0%nat -> d = [])) l outs ->
  flat_map rdata (keep_nz l outs) = flat_map rdata outs.
Proof.
  induction 1 as [|m r l outs (d & e & -> & Hd) _ IH]; [reflexivity|].
  rewrite keep_nz_cons. destruct m as [|m]; cbn [nz Nat.eqb negb flat_map rdata].
  - rewrite (Hd eq_refl). exact IH.
  - rewrite IH. reflexivity.
Qed.

Section Prog0.
Variables (k:errk) (c:rcfg) (extra:bytes).
Hypothesis Hch : custom_handlers c = false.
Hypothesis Hne : extra <> [].
Variables (all:list frame) (wl0:list wback).

Local Notation rposX := (rpos k c extra all wl0).
Local Notation rstateX := (rstate k c extra).
Local Notation midmsgX := (midmsg k c extra all wl0).
Local Notation inmsgX := (inmsg k c extra all wl0).

(* outcome of one zero-length Read when [dr] is still to be delivered *)
Definition step_post0 (dr:bytes) (aft:list frame) (r:bytes * option rerr * rst) : Prop :=
  let '(d, e, s') := r in
  d = [] /\
  ((e = None /\ dr <> [] /\
    exists pre' w' fs', rposX s' pre' w' fs' /\ dr = remaining c s' w' fs' /\
      mafter (rfin s') fs' = aft)
   \/
   (e = Some RIoEOF /\ dr = [] /\ cur s' = None /\ rfin s' = true /\
    exists pre', rposX s' pre' [] aft)).

Lemma step_chunk0 fl s w fs pre : rposX s pre w fs -> w <> [] ->
  step_post0 (remaining c s w fs) (mafter (rfin s) fs) (read_loop (S fl) c 0 s).
Proof.
  intros ((Hrinv & Hrem & Hp & Hwf & Hseq & Hlen & Hrl) & Hall & Hlp & Hwl) Hw.
  pose proof Hrinv as (Hinv & Hbs & Hflt & Herr & Hoof & Hcs & Hrlim & Hecnt).
  assert (Hrpos : 0 < rem s).
  { rewrite Hrem. destruct w; [congruence|]. unfold blen. cbn [length]. lia. }
  assert (Hpn : pending (br s) <> []).
  { rewrite Hp. destruct w; [congruence|discriminate]. }
  rewrite (read_loop_zero_inframe fl c s Herr Hrpos).
  pose proof (br_read_zero_binv (br s) Hinv Hpn) as Hz. rewrite br_read_zero in Hz.
  inversion Hz as [[Hz1 Hz2]]. unfold zero_err. rewrite Hz1.
  set (s' := zero_st c s).
  assert (Hbr : br s' = br s) by (subst s'; unfold zero_st; rsimpl; exact Hz2).
  assert (Hun : forall l, unmask c s' l = unmask c s l)
    by (pose proof (zero_st_frame c s) as F; cbv zeta in F; intuition).
  unfold step_post0. split; [reflexivity|]. left. split; [reflexivity|].
  assert (Hrem' : remaining c s' w fs = remaining c s w fs)
    by (unfold remaining; rewrite Hun; reflexivity).
  split.
  { unfold remaining. intros E. apply app_eq_nil in E. destruct E as [E _].
    apply Hw. apply length_zero_nil. rewrite <- (unmask_length c s w), E. reflexivity. }
  exists pre, w, fs. split; [|split; [symmetry; exact Hrem'|reflexivity]].
  split; [|split; [exact Hall|split; [exact Hlp|exact Hwl]]].
  unfold rstate. rewrite Hbr.
  split.
  { apply (rinv_same k s); [exact Hrinv|exact Hbr| | | | |]; subst s'; unfold zero_st, zero_err;
      rsimpl; rewrite ?Hz1; auto. }
  change (rem s') with (rem s). change (rfin s') with (rfin s). change (rlen s') with (rlen s).
  auto 10.
Qed.

Lemma step_eof0 fl s fs pre : rposX s pre [] fs -> rfin s = true ->
  step_post0 (remaining c s [] fs) (mafter (rfin s) fs) (read_loop (S fl) c 0 s).
Proof.
  intros Hrp Hfin. pose proof (step_eof k c extra all wl0 0 fl s fs pre Hrp Hfin) as H.
  unfold ReadProgP.step_post in H. unfold step_post0.
  destruct (read_loop (S fl) c 0 s) as [[d e] s'].
  destruct H as [(_ & Hd & Hl & _)|(He & Hd & H3 & H4 & H5 & H6)].
  - exfalso. apply Hd. apply length_zero_nil. lia.
  - split; [exact Hd|]. right. auto.
Qed.

Lemma read_step_gen0 : forall fs w s fl pre,
  rstateX s w fs -> all = pre ++ fs -> wlog s = wl0 ++ map WPong (pings_of pre) ->
  (rfin s = true \/ w <> [] -> lastpos pre w) ->
  (length (pending (br s)) < fl)%nat ->
  step_post0 (remaining c s w fs) (mafter (rfin s) fs) (read_loop fl c 0 s).
Proof.
  induction fs as [|f fs IH]; intros w s fl pre Hst Hall Hwl Hlp Hfl;
    (destruct fl as [|fl]; [lia|]).
  - destruct w as [|x w'] eqn:Ew.
    + pose proof Hst as (_ & _ & _ & _ & Hseq & _). cbn [seq_ok] in Hseq.
      apply negb_true_iff in Hseq. apply negb_false_iff in Hseq.
      apply (step_eof0 fl s [] pre); [|exact Hseq]. split; [exact Hst|]. auto.
    + rewrite <- Ew in *. assert (Hw : w <> []) by (rewrite Ew; discriminate).
      apply (step_chunk0 fl s w [] pre); [|exact Hw]. split; [exact Hst|]. auto.
  - destruct w as [|x w'] eqn:Ew.
    2:{ rewrite <- Ew in *. assert (Hw : w <> []) by (rewrite Ew; discriminate).
        apply (step_chunk0 fl s w (f :: fs) pre); [|exact Hw]. split; [exact Hst|]. auto. }
    destruct (rfin s) eqn:Efin.
    { rewrite <- Efin. apply (step_eof0 fl s (f :: fs) pre); [|exact Efin]. split; [exact Hst|]. auto. }
    destruct Hst as (Hrinv & Hrem & Hp & Hwf & Hseq & Hlen & Hrl).
    pose proof Hrinv as (Hinv & Hbs & Hflt & Herr & Hoof & Hcs & Hrlim & Hecnt).
    specialize (Hrl Efin). rewrite Efin in Hseq. cbn [negb] in Hseq.
    inversion Hwf as [|f' fs' Hwff Hwfs]; subst f' fs'.
    cbn [seq_ok] in Hseq. apply andb_true_iff in Hseq. destruct Hseq as [Hacc Hseq].
    cbn [app] in Hp. rewrite encode_frames_cons, <- app_assoc in Hp.
    change (blen []) with 0 in Hrem.
    assert (Hlenp : (length (pending (br s)) =
                     length (encode_frame f) + length (encode_frames fs ++ extra))%nat)
      by (rewrite Hp, app_length; reflexivity).
    pose proof (encode_frame_length_ge2 f) as Hge2.
    pose proof (encode_frame_ge_plen f) as Hgep.
    rewrite encode_frames_cons, blen_app in Hlen, Hrl.
    assert (Haccs : frame_acc (server c) (negb (rfin s)) f = true) by (rewrite Efin; exact Hacc).
    assert (Hall' : all = (pre ++ [f]) ++ fs) by (rewrite <- app_assoc; exact Hall).
    unfold next_open in Hseq. unfold remaining. rewrite unmask_nil, ?Efin. cbn [app].
    destruct (acc_cases _ _ _ Hacc) as [(Hctl & Hop & _)|(Hctl & [(_ & Hxx)|(Hop & _)])];
      [| discriminate Hxx |].
    + (* ping / pong between the fragments: answered, the zero-length Read goes on *)
      rewrite Hctl in Hseq.
      destruct (advance_ctl k c s f (encode_frames fs ++ extra) Hrinv Hch Hwff Haccs Hctl Hp)
        as (s1 & Hadv & Hrinv1 & Hrem1 & Hfin1 & Hrlen1 & Hp1 & Hwl1).
      rewrite (read_loop_adv fl c 0 s (opcode f) s1 Herr Hrem Efin Hadv) by lia.
      rewrite mdata_ctl, mafter_ctl by exact Hctl.
      rewrite Efin in Hfin1.
      replace (mdata false fs) with (remaining c s1 [] fs)
        by (unfold remaining; rewrite unmask_nil, Hfin1; reflexivity).
      rewrite <- Hfin1.
      apply (IH [] s1 fl (pre ++ [f])).
      * unfold rstate. rewrite Hfin1, Hrlen1. cbn [negb app]. change (blen []) with 0.
        split; [exact Hrinv1|]. split; [exact Hrem1|]. split; [exact Hp1|]. split; [exact Hwfs|].
        split; [exact Hseq|]. split; [lia|]. intros _. lia.
      * exact Hall'.
      * rewrite Hwl1, Hwl, pings_of_app, map_app, <- app_assoc.
        cbn [pings_of flat_map]. rewrite app_nil_r. reflexivity.
      * intros [Hx|Hx]; [congruence|contradiction].
      * rewrite Hp1. lia.
    + (* continuation frame *)
      rewrite Hctl in Hseq.
      destruct (advance_data k c s f (encode_frames fs ++ extra) Hrinv Hwff Haccs Hctl Hp)
        as (s1 & Hadv & Hrinv1 & Hrem1 & Hfin1 & Hrlen1 & Hp1 & Hun1 & _ & Hwl1);
        [rewrite Hop; change (0 =? 0) with true; cbv iota; lia|].
      rewrite Hop in Hrlen1. change (0 =? 0) with true in Hrlen1. cbv iota in Hrlen1.
      rewrite (read_loop_adv fl c 0 s (opcode f) s1 Herr Hrem Efin Hadv) by lia.
      rewrite mdata_data, mafter_data by exact Hctl.
      replace (payload f ++ mdata (fin f) fs) with (remaining c s1 (wire_payload f) fs)
        by (unfold remaining; rewrite Hun1, Hfin1; reflexivity).
      rewrite <- Hfin1.
      assert (Hwpl : (length (wire_payload f) <= length (encode_frame f) - 2)%nat).
      { rewrite encode_frame_decomp. cbn [length]. rewrite !app_length. lia. }
      apply (IH (wire_payload f) s1 fl (pre ++ [f])).
      * unfold rstate. rewrite Hfin1, Hrlen1.
        split; [exact Hrinv1|]. split; [rewrite Hrem1; symmetry; apply wire_payload_blen|].
        split; [exact Hp1|]. split; [exact Hwfs|]. split; [exact Hseq|]. split; [lia|]. intros _. lia.
      * exact Hall'.
      * rewrite Hwl1, Hwl, pings_of_app. cbn [pings_of flat_map].
        rewrite ping1_nonctl by exact Hctl. rewrite !app_nil_r. reflexivity.
      * intros _. apply lastpos_data. exact Hctl.
      * rewrite Hp1, app_length. lia.
Qed.

(* messageReader.Read(p[:0]) on the current reader, from any point of a message of a conformant
   stream: (0, nil) while bytes of the message remain -- having consumed (and answered) the
   control frames and empty fragments in front of them, like any Read -- and (0, io.EOF) once
   the message is complete *)
Theorem read_step0 s pre w fs : rposX s pre w fs ->
  step_post0 (remaining c s w fs) (mafter (rfin s) fs) (reader_read c 0 s) /\
  (cur (snd (reader_read c 0 s)) = cur s \/ snd (fst (reader_read c 0 s)) = Some RIoEOF).
Proof.
  intros (Hst & Hall & Hlp & Hwl). split.
  - unfold reader_read. apply (read_step_gen0 fs w s (fuel_of s) pre Hst Hall Hwl); [auto|].
    unfold fuel_of. lia.
  - unfold reader_read. pose proof (read_loop_cur (fuel_of s) c 0 s) as H.
    destruct (read_loop (fuel_of s) c 0 s) as [[d e] s']. exact (H d e s' eq_refl).
Qed.
End Prog0.

(* ---------- plans, calls, programs (copies of ReadProgP part D/E without the positivity
   hypothesis; [reads_ok0] in place of [reads_ok]) ---------- *)
Fixpoint mixed_ok0 (ms:list (N * bool * bytes)) (cs:list call) (outs:list rout) {struct cs} : Prop :=
  match cs with
  | [] => outs = []
  | cl :: cs' =>
    match ms with
    | [] => False
    | (ty, _, d) :: ms' =>
      match cl with
      | CPlan l => exists o1 o2, outs = RNext ty None :: o1 ++ o2 /\ reads_ok0 d l o1 /\ mixed_ok0 ms' cs' o2
      | CMsg => exists o2, outs = RMsg ty d None :: o2 /\ mixed_ok0 ms' cs' o2
      end
    end
  end.

Fixpoint prog_ok0 (ms:list (N * bool * bytes)) (plans:prog) (outs:list rout) {struct plans} : Prop :=
  match plans with
  | [] => outs = []
  | l :: plans' =>
    match ms with
    | [] => False
    | (ty, _, d) :: ms' =>
      exists o1 o2, outs = RNext ty None :: o1 ++ o2 /\ reads_ok0 d l o1 /\ prog_ok0 ms' plans' o2
    end
  end.

Lemma prog_ok0_mixed : forall plans ms outs, prog_ok0 ms plans outs <-> mixed_ok0 ms (map CPlan plans) outs.
Proof.
  induction plans as [|l plans IH]; intros ms outs; cbn [prog_ok0 mixed_ok0 map]; [tauto|].
  destruct ms as [|[[ty cc] d] ms]; [tauto|].
  split; intros (o1 & o2 & H1 & H2 & H3); exists o1, o2; (split; [exact H1|split; [exact H2|apply IH; exact H3]]).
Qed.

Lemma reads_ok0_not_panic : forall l d outs, reads_ok0 d l outs -> ~ In RPanic outs.
Proof.
  induction l as [|m l IH]; intros d outs H; destruct outs as [|r outs]; cbn [reads_ok0] in H; try contradiction.
  - intros [].
  - destruct r as [| x e | | |]; try contradiction.
    destruct H as (_ & _ & d' & _ & H4). intros [E|E]; [discriminate E|exact (IH _ _ H4 E)].
Qed.

Section Prog0b.
Variables (k:errk) (c:rcfg) (extra:bytes).
Hypothesis Hch : custom_handlers c = false.
Hypothesis Hne : extra <> [].
Variables (all:list frame) (wl0:list wback).

Local Notation rposX := (rpos k c extra all wl0).
Local Notation midmsgX := (midmsg k c extra all wl0).
Local Notation inmsgX := (inmsg k c extra all wl0).

(* any plan of Reads, zero-length ones included, on the current message *)
Theorem reads_run0 inflate : forall l s aft d,
  inmsgX s aft d -> (cur s = None -> d = [] /\ rfin s = true) ->
  exists outs s', run_ops inflate c s (map ORead l) = (outs, s') /\ reads_ok0 d l outs /\ midmsgX s' aft.
Proof.
  induction l as [|m l IH]; intros s aft d Hin Hcur.
  - exists [], s. split; [reflexivity|]. split; [exact I|]. exact (inmsg_midmsg _ _ _ _ _ _ _ _ Hin).
  - destruct Hin as (pre & w & fs & Hrp & Hd & Haft).
    cbn [map run_ops]. unfold rstep. destruct (cur s) as [i|] eqn:Ec.
    + assert (Hpost : exists x e s1, reader_read c m s = (x, e, s1) /\
                (cur s1 = cur s \/ e = Some RIoEOF) /\
                ((e = None /\ ((0 < m)%nat -> x <> []) /\ (length x <= m)%nat /\ d <> [] /\
                  exists pre' w' fs', rposX s1 pre' w' fs' /\ d = x ++ remaining c s1 w' fs' /\
                    mafter (rfin s1) fs' = aft)
                 \/ (e = Some RIoEOF /\ x = [] /\ d = [] /\ cur s1 = None /\ rfin s1 = true /\
                     exists pre', rposX s1 pre' [] aft))).
      { destruct (Nat.eq_dec m 0) as [Hm|Hm].
        - subst m. destruct (read_step0 k c extra Hch all wl0 s pre w fs Hrp) as (Hp0 & Hc0).
          rewrite Hd, Haft in Hp0. revert Hp0 Hc0.
          destruct (reader_read c 0 s) as [[x e] s1]. cbn [fst snd]. intros Hp0 Hc0.
          exists x, e, s1. split; [reflexivity|]. split; [exact Hc0|].
          destruct Hp0 as (-> & [(-> & Hdn & pre' & w' & fs' & A & B & C)|(-> & A & B & C & D)]).
          + left. split; [reflexivity|]. split; [intros Hx; lia|]. split; [cbn [length]; lia|].
            split; [exact Hdn|]. exists pre', w', fs'. auto.
          + right. auto 10.
        - destruct (read_step k c extra Hch Hne all wl0 m s pre w fs ltac:(lia) Hrp) as (Hp0 & Hc0).
          rewrite Hd, Haft in Hp0. revert Hp0 Hc0.
          destruct (reader_read c m s) as [[x e] s1]. cbn [fst snd]. intros Hp0 Hc0.
          exists x, e, s1. split; [reflexivity|]. split; [exact Hc0|].
          unfold ReadProgP.step_post in Hp0.
          destruct Hp0 as [(-> & Hx & Hlx & pre' & w' & fs' & A & B & C)|(-> & -> & A & B & C & D)].
          + left. split; [reflexivity|]. split; [intros _; exact Hx|]. split; [exact Hlx|].
            split; [intros E; rewrite E in B; symmetry in B; apply app_eq_nil in B; apply Hx; apply B|].
            exists pre', w', fs'. auto.
          + right. auto 10. }
      destruct Hpost as (x & e & s1 & Hrd & Hcur1 & Hpost). rewrite Hrd.
      destruct Hpost as [(-> & Hx & Hlx & Hdn & pre' & w' & fs' & Hrp' & Hd' & Haft')
                        |(-> & -> & Hd' & Hc1 & Hf1 & pre' & Hrp')].
      * destruct Hcur1 as [Hcur1|Hcur1]; [|discriminate Hcur1].
        destruct (IH (s1 <| opidx := S (opidx s1) |>) aft (remaining c s1 w' fs')) as (outs & s' & Hrun & Hok & Hmid).
        { exists pre', w', fs'. split; [apply rpos_opidx; exact Hrp'|]. split; [reflexivity|exact Haft']. }
        { change (cur (s1 <| opidx := S (opidx s1) |>)) with (cur s1). rewrite Hcur1, Ec. discriminate. }
        rewrite Hrun. exists (RData x None :: outs), s'. split; [reflexivity|]. split; [|exact Hmid].
        cbn [reads_ok0]. split; [intros E; contradiction|].
        split; [intros _; auto|]. exists (remaining c s1 w' fs'). auto.
      * destruct (IH (s1 <| opidx := S (opidx s1) |>) aft []) as (outs & s' & Hrun & Hok & Hmid).
        { exists pre', [], aft. split; [apply rpos_opidx; exact Hrp'|].
          rewrite remaining_opidx. unfold remaining. change (rfin (s1 <| opidx := S (opidx s1) |>)) with (rfin s1).
          rewrite Hf1, unmask_nil. rewrite mdata_true, mafter_true. auto. }
        { intros _. auto. }
        rewrite Hrun. exists (RData [] (Some RIoEOF) :: outs), s'. split; [reflexivity|]. split; [|exact Hmid].
        cbn [reads_ok0]. subst d. split; [auto|]. split; [intros E; contradiction|]. exists []. auto.
    + destruct (Hcur eq_refl) as (-> & Hf).
      destruct (IH (s <| opidx := S (opidx s) |>) aft []) as (outs & s' & Hrun & Hok & Hmid).
      { exists pre, w, fs. split; [apply rpos_opidx; exact Hrp|]. rewrite remaining_opidx. auto. }
      { intros _. auto. }
      rewrite Hrun. exists (RData [] (Some RIoEOF) :: outs), s'. split; [reflexivity|]. split; [|exact Hmid].
      cbn [reads_ok0]. split; [auto|]. split; [intros E; contradiction|]. exists []. auto.
Qed.

Lemma call_run0 inflate cl s aft ty d p aft' :
  midmsgX s aft -> first_msg aft = Some (ty, d, p, aft') ->
  exists o1 s', run_ops inflate c s (ops_of_call cl) = (o1, s') /\ ~ In RPanic o1 /\ midmsgX s' aft' /\
    match cl with
    | CPlan l => exists o, o1 = RNext ty None :: o /\ reads_ok0 d l o
    | CMsg => o1 = [RMsg ty d None]
    end.
Proof.
  intros Hmid Hfm. destruct cl as [l|]; cbn [ops_of_call run_ops]; unfold rstep.
  - destruct (next_reader_step k c extra Hch all wl0 s aft ty d p aft' Hmid Hfm) as (s1 & Hnr & Hc1 & Hin1). rewrite Hnr.
    destruct (reads_run0 inflate l (s1 <| opidx := S (opidx s1) |>) aft' d) as (o & s' & Hrun & Hok & Hmid').
    { destruct Hin1 as (pre & w & fs & H1 & H2 & H3). exists pre, w, fs.
      split; [apply rpos_opidx; exact H1|]. rewrite remaining_opidx. auto. }
    { intros E. exfalso. apply Hc1. exact E. }
    rewrite Hrun. exists (RNext ty None :: o), s'. split; [reflexivity|].
    split; [intros [E|E]; [discriminate E|exact (reads_ok0_not_panic l d o Hok E)]|].
    split; [exact Hmid'|]. exists o. auto.
  - destruct (read_message_step k c extra Hch Hne all wl0 inflate s aft ty d p aft' Hmid Hfm) as (s1 & Hrm & Hmid1). rewrite Hrm.
    exists [RMsg ty d None], (s1 <| opidx := S (opidx s1) |>). split; [reflexivity|].
    split; [intros [E|[]]; discriminate E|]. split; [|reflexivity].
    destruct Hmid1 as (pre & w & fs & H1 & H2). exists pre, w, fs. split; [apply rpos_opidx; exact H1|exact H2].
Qed.

Theorem run_calls0 inflate : forall cs s aft, midmsgX s aft ->
  (length cs <= length (msgs aft))%nat ->
  exists outs s' aft', run_ops inflate c s (flat_map ops_of_call cs) = (outs, s') /\
    mixed_ok0 (msgs aft) cs outs /\ midmsgX s' aft' /\ msgs aft' = skipn (length cs) (msgs aft).
Proof.
  induction cs as [|cl cs IH]; intros s aft Hmid Hlen.
  - exists [], s, aft. cbn [flat_map run_ops mixed_ok0 length skipn]. auto.
  - pose proof (midmsg_seq k c extra all wl0 s aft Hmid) as Hseqa.
    destruct (first_msg aft) as [[[[ty d] p] aft1]|] eqn:Efm.
    2:{ destruct (first_msg_none (server c) aft Hseqa Efm) as (_ & Hms). rewrite Hms in Hlen.
        cbn [length] in Hlen. lia. }
    destruct (first_msg_some (server c) aft ty d p aft1 Hseqa Efm) as (_ & _ & Hms & _ & _).
    destruct (call_run0 inflate cl s aft ty d p aft1 Hmid Efm) as (o1 & s1 & Hrun1 & Hnp & Hmid1 & Hshape).
    rewrite Hms in Hlen. cbn [length] in Hlen.
    destruct (IH s1 aft1 Hmid1 ltac:(lia)) as (o2 & s' & aft' & Hrun2 & Hok2 & Hmid' & Hms').
    cbn [flat_map]. rewrite (run_ops_app inflate c _ _ _ _ (flat_map ops_of_call cs) Hrun1 Hnp), Hrun2.
    cbn [fst snd]. exists (o1 ++ o2), s', aft'. split; [reflexivity|].
    split; [|split; [exact Hmid'|rewrite Hms; cbn [length skipn]; exact Hms']].
    rewrite Hms. cbn [mixed_ok0]. destruct cl as [l|].
    + destruct Hshape as (o & -> & Hok). exists o, o2. auto.
    + subst o1. exists o2. auto.
Qed.
End Prog0b.

(* ------------------------------------------------------------------------------------------ *)
(* Whole connections: the theorems of ReadProgP part E without the hypothesis that every Read   *)
(* has len(p) > 0.                                                                             *)
(* ------------------------------------------------------------------------------------------ *)
Theorem reader_api_mixed0 :
  forall inflate c b fs extra cs,
    custom_handlers c = false -> binv b -> (125 <= bsize b)%nat ->
    conformant_frames c fs -> pending b = encode_frames fs ++ extra ->
    (trailer fs = [] -> extra <> []) ->
    (length cs <= length (data_msgs (events_of fs)))%nat ->
    exists outs s',
      run_ops inflate c (init_rst b) (flat_map ops_of_call cs) = (outs, s') /\
      mixed_ok0 (data_msgs (events_of fs)) cs outs /\ reached fs extra s'.
Proof.
  intros inflate c b fs extra cs Hch Hinv Hbs Hconf Hp Hside Hlen.
  set (extra' := encode_frames (trailer fs) ++ extra).
  assert (Hne : extra' <> []).
  { subst extra'. destruct (trailer fs) as [|t tr] eqn:Et; [cbn [encode_frames flat_map app]; auto|].
    rewrite encode_frames_cons, encode_frame_decomp. cbn [app]. discriminate. }
  assert (Hp' : pending b = encode_frames (body fs) ++ extra').
  { subst extra'. rewrite app_assoc, <- encode_frames_app, body_trailer. exact Hp. }
  pose proof (midmsg_init c extra' (body fs) b Hinv Hbs (conformant_body c fs Hconf) Hp') as Hmid.
  destruct (run_calls0 (fault (src b)) c extra' Hch Hne (body fs) [] inflate cs (init_rst b) (body fs) Hmid)
    as (outs & s' & aft' & Hrun & Hok & Hmid' & _).
  { rewrite msgs_body. exact Hlen. }
  exists outs, s'. split; [exact Hrun|]. rewrite msgs_body in Hok. split; [exact Hok|].
  apply reached_trailer. exact (midmsg_reached _ _ _ _ _ _ Hmid').
Qed.

Theorem reader_api_general0 :
  forall inflate c b fs extra (plans:prog),
    custom_handlers c = false -> binv b -> (125 <= bsize b)%nat ->
    conformant_frames c fs -> pending b = encode_frames fs ++ extra ->
    (trailer fs = [] -> extra <> []) ->
    (length plans <= length (data_msgs (events_of fs)))%nat ->
    exists outs s',
      run_ops inflate c (init_rst b) (ops_of_prog plans) = (outs, s') /\
      prog_ok0 (data_msgs (events_of fs)) plans outs /\ reached fs extra s'.
Proof.
  intros inflate c b fs extra plans Hch Hinv Hbs Hconf Hp Hside Hlen.
  destruct (reader_api_mixed0 inflate c b fs extra (map CPlan plans) Hch Hinv Hbs Hconf Hp Hside)
    as (outs & s' & Hrun & Hok & Hre).
  { rewrite map_length. exact Hlen. }
  exists outs, s'. rewrite ops_of_prog_calls. split; [exact Hrun|]. split; [|exact Hre].
  apply prog_ok0_mixed. exact Hok.
Qed.

(* One message, one plan of Reads of ANY sizes, zero included: the outputs obey [reads_ok0];
   hence (reads_ok0_keep_nz) the non-zero-length reads obey the original [reads_ok] for the plan
   without the zero-length reads -- they deliver the same message bytes, in order, ending with
   io.EOF -- and every zero-length read returns (0, nil) or, after the last byte, (0, io.EOF). *)
Theorem next_reader_then_any_reads :
  forall inflate c b fs extra l ty cc d rest,
    custom_handlers c = false -> binv b -> (125 <= bsize b)%nat ->
    conformant_frames c fs -> pending b = encode_frames fs ++ extra ->
    (trailer fs = [] -> extra <> []) ->
    data_msgs (events_of fs) = (ty, cc, d) :: rest ->
    exists outs s',
      run_ops inflate c (init_rst b) (ONext :: map ORead l) = (RNext ty None :: outs, s') /\
      reads_ok0 d l outs /\
      reads_ok d (filter nz l) (keep_nz l outs) /\
      flat_map rdata (keep_nz l outs) = flat_map rdata outs /\
      Forall2 (fun m r => m = 0%nat -> r = RData [] None \/ r = RData [] (Some RIoEOF)) l outs /\
      reached fs extra s'.
Proof.
  intros inflate c b fs extra l ty cc d rest Hch Hinv Hbs Hconf Hp Hside Hms.
  destruct (reader_api_general0 inflate c b fs extra [l] Hch Hinv Hbs Hconf Hp Hside)
    as (outs & s' & Hrun & Hok & Hre).
  { rewrite Hms. cbn [length]. lia. }
  rewrite Hms in Hok. cbn [prog_ok0] in Hok. destruct Hok as (o1 & o2 & -> & Hok1 & ->).
  unfold ops_of_prog in Hrun. cbn [flat_map] in Hrun. rewrite !app_nil_r in Hrun.
  exists o1, s'. split; [exact Hrun|]. split; [exact Hok1|].
  split; [apply reads_ok0_keep_nz; exact Hok1|].
  pose proof (reads_ok0_zero_outputs l d o1 Hok1) as Hz.
  split; [|split; [exact Hz|exact Hre]].
  apply keep_nz_data. clear -Hok1. revert d o1 Hok1.
  induction l as [|m l IH]; intros d outs H; destruct outs as [|r outs]; cbn [reads_ok0] in H; try contradiction.
  - constructor.
  - destruct r as [| x e | | |]; try contradiction.
    destruct H as (H1 & H2 & d' & H3 & H4). constructor; [|exact (IH _ _ H4)].
    exists x, e. split; [reflexivity|]. intros ->. destruct d as [|y d0]; [apply H1; reflexivity|].
    destruct (H2 ltac:(discriminate)) as (_ & _ & Hl). apply length_zero_nil. lia.
Qed.

(* ... and, exactly (part 4): what the non-zero-length reads return IS what the plan without the
   zero-length reads returns on the same connection *)
Theorem next_reader_then_any_reads_exact :
  forall inflate c b l r0 outs s',
    custom_handlers c = false -> binv b ->
    run_ops inflate c (init_rst b) (ONext :: map ORead l) = (r0 :: outs, s') -> r0 <> RPanic ->
    exists s2, run_ops inflate c (init_rst b) (ONext :: map ORead (filter nz l)) = (r0 :: keep_nz l outs, s2) /\
               read_equiv inflate c s' s2.
Proof.
  intros inflate c b l r0 outs s' Hch Hinv Hrun Hnp. cbn [run_ops] in Hrun |- *.
  destruct (rstep inflate c (init_rst b) ONext) as [x s1] eqn:E1.
  destruct (rstep_total inflate c (init_rst b) ONext x s1 Hinv eq_refl E1) as ((((Hb1 & _) & Hoof1 & _) & _) & _).
  destruct x; try (inversion Hrun; subst; contradiction);
    destruct (run_ops inflate c s1 (map ORead l)) as [xs sA] eqn:E2; inversion Hrun; subst r0 outs s'; clear Hrun;
    destruct (zero_reads_do_not_disturb inflate c Hch l s1 xs sA Hb1 Hoof1 E2) as (_ & _ & s2 & Hr & HT);
    rewrite Hr; exists s2; auto.
Qed.

(* ---------- an instance, computed ---------- *)
Example zero_reads_demo :
  let run l := fst (run_ops (fun _ => None) ReadProgDemo.ex_cfg (init_rst (ReadProgDemo.ex_b 5 EOther true))
                      (ONext :: map ORead l)) in
  run [0;2;0;0;1;100;0;7;0]%nat =
    [RNext 1 None; RData [] None; RData [72;101] None; RData [] None; RData [] None; RData [108] None;
     RData [108] None; RData [] None; RData [111] None; RData [] (Some RIoEOF)] /\
  run [2;1;100;7]%nat =
    [RNext 1 None; RData [72;101] None; RData [108] None; RData [108] None; RData [111] None].
Proof. vm_compute. auto. Qed.

Print Assumptions br_read_zero_untouched.
Print Assumptions reader_read_zero_inframe.
Print Assumptions zero_st_frame.
Print Assumptions reader_read_zero_noop.
Print Assumptions reachable_mpos_ok.
Print Assumptions reader_read_zero_transparent.
Print Assumptions rstep_zero_read_then.
Print Assumptions zero_reads_do_not_disturb.
Print Assumptions read_step0.
Print Assumptions reader_api_mixed0.
Print Assumptions next_reader_then_any_reads.
Print Assumptions next_reader_then_any_reads_exact.

(* ---------- the limits of transparency, computed ---------- *)
(* [custom_handlers c = false] in zero_reads_do_not_disturb is forced for the state part of the
   conclusion: recording handlers log the index of the API call during which a control frame was
   met, and an inserted call shifts the indices of the later calls.  (The outputs still agree.) *)
Example zero_reads_shift_handler_log :
  let cH := {| server := true; negotiated := false; custom_handlers := true;
               handler_fail := []; caps := [] |} in
  let inflate := fun _ : bytes => @None bytes in
  let r0 := run_ops inflate cH (init_rst (ReadProgDemo.ex_b 5 EOther true)) (ONext :: map ORead [0;3;1]%nat) in
  let r1 := run_ops inflate cH (init_rst (ReadProgDemo.ex_b 5 EOther true)) (ONext :: map ORead [3;1]%nat) in
  fst r0 = [RNext 1 None; RData [] None; RData [72;101;108] None; RData [108] None] /\
  fst r1 = [RNext 1 None; RData [72;101;108] None; RData [108] None] /\
  hlog (snd r0) = [HPing 3 [112;49]] /\ hlog (snd r1) = [HPing 2 [112;49]] /\
  ~ read_equiv inflate cH (snd r0) (snd r1).
Proof.
  cbv zeta. split; [vm_compute; reflexivity|]. split; [vm_compute; reflexivity|].
  split; [vm_compute; reflexivity|]. split; [vm_compute; reflexivity|].
  intros H. destruct (H 1%nat) as [_ E]. unfold eqop in E. apply (f_equal hlog) in E.
  vm_compute in E. discriminate E.
Qed.

(* Transparency is about the Reads that follow.  A zero-length Read that reported the error
   pending in bufio has set c.readErr to "unexpected EOF"; NextReader then returns that, whereas
   without the zero-length Read its own skip of the frame remainder meets a plain io.EOF.  (Go
   behaves the same way: io.CopyN in advanceFrame returns io.EOF unmapped.) *)
Example zero_read_then_next_reader_differs :
  let b := {| bsize := 16; bbuf := []; berr := Some EEOF;
              src := {| chunks := []; fault := EEOF; glued := false |} |} in
  let s := init_rst b <| rem := 5 |> <| cur := Some 0%nat |> in
  let inflate := fun _ : bytes => @None bytes in
  fst (run_ops inflate ReadProgDemo.ex_cfg s [ORead 0; ONext]) =
    [RData [] (Some unexpected_eof); RNext 0 (Some unexpected_eof)] /\
  fst (run_ops inflate ReadProgDemo.ex_cfg s [ONext]) = [RNext 0 (Some RIoEOF)] /\
  fst (run_ops inflate ReadProgDemo.ex_cfg s [ORead 0; ORead 3]) =
    [RData [] (Some unexpected_eof); RData [] (Some unexpected_eof)] /\
  fst (run_ops inflate ReadProgDemo.ex_cfg s [ORead 3]) = [RData [] (Some unexpected_eof)].
Proof. vm_compute. auto. Qed.
Print Assumptions zero_reads_shift_handler_log.
Print Assumptions zero_read_then_next_reader_differs.
