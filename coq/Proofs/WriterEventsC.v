(* C02 second half / C19 on the model, for programs WITH WritePreparedMessage ([crun] of
   Cases/WriterCase.v): the Spec events of the wire are the messages of the successful calls.

   WriterEventsZ proves this for every [wop] program without prepared frames, by the invariant
   [GZ c s fs z] (model state / frames on the wire / oracle-annotated abstract writer) and the
   step lemma [wstep_GZ].  This file adds the step for WritePreparedMessage ([cstep] on
   [CPrepared p]: implicit close of a writer left open, key selection, frame cache lookup or
   rendering on a private connection, Conn.write of the frame) and redoes the program induction
   over [crun].  For the annotated abstract writer a prepared send is a WriteMessage of the
   creation payload ([prep_msg], [zstep_prepared]) annotated with the deflate stream of the
   cached frame.

   What is new is the invariant on the shared frame cache.  The cache holds rendered BYTES; next
   to it a ghost cache [gcache] records, per (prepared-message id, key), the flate oracle
   [concat ps_wc ++ concat ps_cc] of the send that rendered the entry ([gstep]: an entry is
   added exactly when [frame_for] misses).  [CZ pay ca g]: every cached frame is the encoding of
   a complete well-formed message for its key's role whose single event is
   - the creation payload, for an uncompressed key ([frame_good] of PreparedP),
   - EMsg ty true z with z ++ 00 00 ff ff = the recorded stream, for a compressed key.
   [cstep_CZ] maintains it, [GS]/[recorded_stream_stable]/[crun_GS]: a recorded stream is never
   replaced (each (id, key) is rendered at most once), unconditionally.

   Main results (all closed under the global context), for EVERY configuration, key oracle and
   program [ops : list cop]:
   - [wire_events_prepared]                 events of the wire = map zwire (z_out Z), zerase Z = A,
                                            streams of compressed entries end in 00 00 ff ff,
                                            boundary clause
   - [wire_events_prepared_rel]             the same as Forall2 [zrel] against a_out A
   - [wire_wellformed_and_events_prepared]  + the wire IS a well-formed frame sequence (the
                                            hypotheses imply WriterWireP's [cgood]: [crun_cgood])
   - [abstract_flags_exact_prepared]        a_dead / a_open / a_comp against werr / cur / wcomp
   - [wire_events_prepared_uncompressed]    w_negotiated c = false: events = a_out A, exactly
   - [pstream_miss], [pstream_hit], [recorded_stream_stable]: which stream a prepared send has
   - [events_instance_prepared], [events_instance_prepared_compressed]: instances (vm_compute)
   - [payload_convention_needed], [payload_valid_needed], [prep_flate_ok_needed]: the hypotheses
     specific to prepared sends are necessary for the model.
   The hypotheses are spelled out before the main theorems. *)
Require Import WS.Base.Bytes WS.gen.Consts WS.Spec.Frame WS.Spec.WriterSpec WS.Proofs.FrameP WS.Model.Writer.
From RecordUpdate Require Import RecordSet.
Import RecordSetNotations.
Require Import WS.Model.Prepared WS.Cases.WriterCase.
Require Import WS.Proofs.WWBase WS.Proofs.WWInv WS.Proofs.WWStep WS.Proofs.WWFlate WS.Proofs.WWDead WS.Proofs.WWPrep WS.Proofs.WriterWireP.
Require WS.Proofs.WriterStateP.
Require Import WS.Proofs.PrepBase WS.Proofs.PrepMsg.
Require Import WS.Proofs.WriterEventsP WS.Proofs.WriterEventsZ WS.Proofs.PreparedP.
Ltac Zify.zify_post_hook ::= Z.div_mod_to_equations.

(* ------------------------------------------------------------------------------------------ *)
(* a complete frame sequence leaves the decoder at a message boundary                         *)
(* ------------------------------------------------------------------------------------------ *)
Definition osome {A} (o:option A) : bool := match o with Some _ => true | None => false end.

Lemma open_after_acc fs : forall acc,
  osome (snd (events_from acc fs)) = open_after (osome acc) (tag fs).
Proof.
  induction fs as [|f r IH]; intros acc; [reflexivity|].
  unfold tag. cbn [map open_after]. fold (tag r). unfold next_open.
  destruct (is_control (opcode f)) eqn:Ec; [|destruct (fin f) eqn:Ef].
  - rewrite events_from_ctl by exact Ec. cbn [snd]. apply IH.
  - rewrite events_from_final by assumption. cbn [snd negb]. apply (IH None).
  - rewrite events_from_more by assumption. cbn [negb]. apply (IH (Some (acc_step acc f))).
Qed.

Lemma events_closed pfs ev : events_of pfs = [ev] -> open_after false (tag pfs) = false ->
  events_from None pfs = ([ev], None).
Proof.
  intros HE HO. pose proof (open_after_acc pfs None) as X. cbn [osome] in X. rewrite HO in X.
  unfold events_of in HE. destruct (events_from None pfs) as [evs a]. cbn [fst snd] in *. subst evs.
  destruct a; [discriminate X|reflexivity].
Qed.

(* ------------------------------------------------------------------------------------------ *)
(* the ghost stream cache                                                                     *)
(* ------------------------------------------------------------------------------------------ *)
(* The frame cache of a prepared message stores rendered BYTES per key.  For the events theorem
   we remember, next to it, the deflate stream (flate oracle [concat wc ++ concat cc]) of the
   send that rendered the entry: a ghost cache indexed by (prepared-message id, key).  An entry
   is added exactly when [frame_for] misses, i.e. when the frame is rendered. *)
Definition gcache := list (nat * pkey * bytes).

Definition gget (id:nat) (k:pkey) (g:gcache) : option bytes :=
  match find (fun x : nat * pkey * bytes => Nat.eqb (fst (fst x)) id && pkey_eqb (snd (fst x)) k) g with
  | Some (_, str) => Some str
  | None => None
  end.

Lemma gget_cons id0 k0 str g id k :
  gget id k ((id0, k0, str) :: g) = if Nat.eqb id0 id && pkey_eqb k0 k then Some str else gget id k g.
Proof. unfold gget. cbn [find fst snd]. destruct (Nat.eqb id0 id && pkey_eqb k0 k); reflexivity. Qed.

(* the key a prepared send asks for (after the implicit close of a writer left open), and
   whether the frame has to be rendered for it *)
Definition prep_key (c:wcfg) (s:wst) (p:psend) : pkey := key_for c (close_current c (ps_ic p) s) (ps_ty p).
Definition prep_miss (c:wcfg) (st:wst * cache) (p:psend) : bool :=
  match lookup (prep_key c (fst st) p) (pm_of (snd st) p) with Some _ => false | None => true end.

Definition gstep (c:wcfg) (st:wst * cache) (g:gcache) (o:cop) : gcache :=
  match o with
  | COp _ => g
  | CPrepared p =>
      if prep_miss c st p
      then (ps_id p, prep_key c (fst st) p, concat (ps_wc p) ++ concat (ps_cc p)) :: g
      else g
  end.

(* the deflate stream of a prepared send: the one recorded for (id, key), by this send if it
   renders the frame, by the EARLIER send that rendered it otherwise *)
Definition pstream (c:wcfg) (st:wst * cache) (g:gcache) (p:psend) : bytes :=
  match gget (ps_id p) (prep_key c (fst st) p) (gstep c st g (CPrepared p)) with Some str => str | None => [] end.

Lemma pstream_miss c st g p : prep_miss c st p = true ->
  pstream c st g p = concat (ps_wc p) ++ concat (ps_cc p).
Proof.
  intros H. unfold pstream. cbn [gstep]. rewrite H, gget_cons, Nat.eqb_refl, pkey_eqb_refl. reflexivity.
Qed.

Lemma pstream_hit c st g p : prep_miss c st p = false ->
  pstream c st g p = match gget (ps_id p) (prep_key c (fst st) p) g with Some str => str | None => [] end.
Proof. intros H. unfold pstream. cbn [gstep]. rewrite H. reflexivity. Qed.

(* a cached frame is good: it is a complete well-formed message for the key's role; an
   uncompressed key carries the creation payload ([frame_good] of PreparedP), a compressed key
   carries the recorded stream minus 00 00 ff ff, RSV1 set *)
Definition entry_good (g:gcache) (id:nat) (ty:N) (data:bytes) (k:pkey) (fr:bytes) : Prop :=
  if pk_compress k then
    is_data_ty ty = true /\
    exists z pfs, gget id k g = Some (z ++ flate_tail) /\
      fr = encode_frames pfs /\ Forall wf_frame pfs /\
      wf_wire (negb (pk_server k)) true (tag pfs) = true /\
      open_after false (tag pfs) = false /\
      events_of pfs = [EMsg ty true z]
  else frame_good k ty data fr.

Definition CZ (pay:nat -> N * bytes) (ca:cache) (g:gcache) : Prop :=
  forall id pm, cache_get id ca = Some pm ->
    p_ty pm = fst (pay id) /\ p_data pm = snd (pay id) /\
    forall k fr, lookup k pm = Some fr -> entry_good g id (p_ty pm) (p_data pm) k fr.

Lemma CZ_nil pay : CZ pay [] [].
Proof. intros id pm H. discriminate H. Qed.

Lemma entry_good_ext g id0 k0 str id ty data k fr :
  Nat.eqb id0 id && pkey_eqb k0 k = false ->
  entry_good g id ty data k fr -> entry_good ((id0, k0, str) :: g) id ty data k fr.
Proof.
  intros HN. unfold entry_good. destruct (pk_compress k); [|auto].
  intros (HD & z & pfs & G & R). split; [exact HD|]. exists z, pfs. rewrite gget_cons, HN. auto.
Qed.

Lemma render_entry_good g id k ty data keys wc cc :
  payload_ok ty data -> Forall len4 keys ->
  (pk_compress k = true -> is_data_ty ty = true /\ tail_ok cc /\ small (concat wc ++ concat cc) /\
                           gget id k g = Some (concat wc ++ concat cc)) ->
  entry_good g id ty data k (snd (render k ty data keys wc cc)).
Proof.
  intros HP HK HC. unfold entry_good. destruct (pk_compress k) eqn:EC.
  - destruct (HC eq_refl) as (HD & HT & HS & HG). split; [exact HD|].
    destruct (rendered_frame_compressed k ty data keys wc cc EC HD HT HS HK)
      as (pfs & z & f & rest & R & P1 & P2 & P3 & P4 & P5 & _).
    exists z, pfs. rewrite R. cbn [snd]. change flate_tail with [0;0;255;255]. rewrite P5. auto 10.
  - apply render_good; assumption.
Qed.

Lemma new_prepared_lookup ty data k fr : payload_ok ty data ->
  lookup k (snd (new_prepared ty data)) = Some fr -> pk_compress k = false /\ frame_good k ty data fr.
Proof.
  intros HP HL. pose proof (new_prepared_cache_good ty data HP) as G.
  destruct (new_prepared_payload ty data) as [T D]. apply lookup_in in HL.
  assert (HC : pk_compress k = false).
  { rewrite new_prepared_eq in HL. cbn [snd p_cache] in HL. destruct HL as [HL|[]]. inversion HL; subst. reflexivity. }
  split; [exact HC|]. specialize (G k fr HL HC). rewrite T, D in G. exact G.
Qed.

(* the static hypotheses on one op: sizes; prepared raw frames are not part of the language *)
Definition cop_small (o:cop) : Prop :=
  match o with
  | COp w => op_small w /\ op_not_prepared w
  | CPrepared p => Forall small (ps_ic p) /\ small (concat (ps_wc p) ++ concat (ps_cc p))
  end.

(* the flate oracle of a prepared send that renders a compressed frame ends with the marker *)
Definition prep_flate_ok (c:wcfg) (st:wst * cache) (p:psend) : Prop :=
  pk_compress (prep_key c (fst st) p) = true -> prep_miss c st p = true -> tail_ok (ps_cc p).

Lemma pm_of_CZ pay ca g p : CZ pay ca g -> op_for pay (CPrepared p) ->
  p_ty (pm_of ca p) = ps_ty p /\ p_data (pm_of ca p) = ps_data p /\
  forall k fr, lookup k (pm_of ca p) = Some fr -> entry_good g (ps_id p) (ps_ty p) (ps_data p) k fr.
Proof.
  intros HC (O1 & O2 & O3 & O4). unfold pm_of. destruct (cache_get (ps_id p) ca) as [pm|] eqn:G.
  - destruct (HC _ _ G) as (A & B & C). split; [congruence|]. split; [congruence|].
    intros k fr HL. specialize (C k fr HL). rewrite A, B, <- O1, <- O2 in C. exact C.
  - destruct (new_prepared_payload (ps_ty p) (ps_data p)) as [T D]. split; [exact T|]. split; [exact D|].
    intros k fr HL. destruct (new_prepared_lookup _ _ _ _ O3 HL) as [HCm HG].
    unfold entry_good. rewrite HCm. exact HG.
Qed.

Lemma cstep_CZ pay c s ca g o :
  CZ pay ca g -> op_for pay o -> cop_small o ->
  match o with COp _ => True | CPrepared p => prep_flate_ok c (s, ca) p end ->
  CZ pay (snd (snd (cstep c (s, ca) o))) (gstep c (s, ca) g o).
Proof.
  intros HC HO HS HF. rewrite cstep_cache. destruct o as [w|p]; [exact HC|].
  destruct (pm_of_CZ pay ca g p HC HO) as (T & D & G). destruct HO as (O1 & O2 & O3 & O4). destruct HS as [S1 S2].
  cbn [gstep]. unfold prep_flate_ok in HF. unfold prep_miss, prep_key in *. cbn [fst snd] in *.
  set (s0 := close_current c (ps_ic p) s) in *. set (k := key_for c s0 (ps_ty p)) in *.
  unfold send_of. fold k.
  intros id pm. rewrite cache_get_put. destruct (Nat.eqb (ps_id p) id) eqn:E.
  - apply Nat.eqb_eq in E. subst id. intros X. inversion X; subst pm. clear X.
    destruct (frame_for_keeps_payload k (pm_of ca p) (ps_keys p) (ps_wc p) (ps_cc p)) as [T' D'].
    split; [congruence|]. split; [congruence|]. rewrite T', D', T, D.
    intros k' fr. rewrite lookup_frame_for, frame_for_spec.
    destruct (lookup k (pm_of ca p)) as [fr0|] eqn:EL.
    + (* hit: cache and ghost unchanged *)
      destruct (pkey_eqb k k') eqn:EK; [|apply G].
      apply pkey_eqb_eq in EK. subst k'. intros X. inversion X; subst fr. apply G. exact EL.
    + (* miss: rendered now *)
      destruct (pkey_eqb k k') eqn:EK.
      * apply pkey_eqb_eq in EK. subst k'. intros X. inversion X; subst fr. clear X. rewrite T, D.
        apply render_entry_good; [exact O3|exact O4|].
        intros HCm. split.
        { unfold k, key_for in HCm. cbn [pk_compress] in HCm. apply andb_true_iff in HCm. apply HCm. }
        split; [apply HF; [exact HCm|reflexivity]|]. split; [exact S2|].
        rewrite gget_cons, Nat.eqb_refl, pkey_eqb_refl. reflexivity.
      * intros HL. apply entry_good_ext; [rewrite Nat.eqb_refl, EK; reflexivity|]. apply G. exact HL.
  - intros HG. destruct (HC id pm HG) as (A & B & C). split; [exact A|]. split; [exact B|].
    intros k' fr HL. specialize (C k' fr HL).
    destruct (lookup k (pm_of ca p)); [exact C|]. apply entry_good_ext; [rewrite E; reflexivity|exact C].
Qed.

(* The ghost cache records each (id, key) ONCE, when the frame is rendered, and never changes it:
   the ghost cache only knows pairs the frame cache knows ([GS]), so a send whose pair is
   recorded hits the frame cache and records nothing.  No hypothesis is needed for this. *)
Definition GS (ca:cache) (g:gcache) : Prop :=
  forall id k str, gget id k g = Some str -> exists pm fr, cache_get id ca = Some pm /\ lookup k pm = Some fr.

Lemma GS_nil : GS [] [].
Proof. intros id k str H. discriminate H. Qed.

Lemma recorded_stream_stable c s ca g o id k str :
  GS ca g -> gget id k g = Some str -> gget id k (gstep c (s, ca) g o) = Some str.
Proof.
  intros HG H. destruct o as [w|p]; [exact H|]. cbn [gstep].
  destruct (prep_miss c (s, ca) p) eqn:EM; [|exact H].
  rewrite gget_cons. destruct (Nat.eqb (ps_id p) id && pkey_eqb (prep_key c (fst (s, ca)) p) k) eqn:E; [|exact H].
  exfalso. apply andb_true_iff in E. destruct E as [E1 E2]. apply Nat.eqb_eq in E1. apply pkey_eqb_eq in E2.
  destruct (HG id k str H) as (pm & fr & G1 & G2). unfold prep_miss, pm_of in EM. cbn [fst snd] in EM, E2.
  rewrite E1, G1, E2, G2 in EM. discriminate EM.
Qed.

Lemma cstep_GS c s ca g o : GS ca g -> GS (snd (snd (cstep c (s, ca) o))) (gstep c (s, ca) g o).
Proof.
  intros HG. rewrite cstep_cache. destruct o as [w|p]; [exact HG|].
  cbn [gstep]. unfold prep_miss, prep_key. cbn [fst snd].
  set (s0 := close_current c (ps_ic p) s). set (k := key_for c s0 (ps_ty p)).
  unfold send_of. fold k.
  assert (Old : forall id k' str, gget id k' g = Some str ->
            exists pm fr, cache_get id (cache_put (ps_id p) (snd (frame_for k (pm_of ca p) (ps_keys p) (ps_wc p) (ps_cc p))) ca) = Some pm /\
                          lookup k' pm = Some fr).
  { intros id k' str H. destruct (HG id k' str H) as (pm & fr & G1 & G2). rewrite cache_get_put.
    destruct (Nat.eqb (ps_id p) id) eqn:E; [|exists pm, fr; auto].
    apply Nat.eqb_eq in E. subst id.
    exists (snd (frame_for k (pm_of ca p) (ps_keys p) (ps_wc p) (ps_cc p))). rewrite lookup_frame_for.
    destruct (pkey_eqb k k'); [eexists; split; reflexivity|].
    exists fr. split; [reflexivity|]. unfold pm_of. rewrite G1. exact G2. }
  destruct (lookup k (pm_of ca p)) eqn:EL; [exact Old|].
  intros id k' str. rewrite gget_cons.
  destruct (Nat.eqb (ps_id p) id && pkey_eqb k k') eqn:E; [|apply Old].
  apply andb_true_iff in E. destruct E as [E1 E2]. apply Nat.eqb_eq in E1. apply pkey_eqb_eq in E2. subst id k'.
  intros _. rewrite cache_get_put, Nat.eqb_refl.
  exists (snd (frame_for k (pm_of ca p) (ps_keys p) (ps_wc p) (ps_cc p))).
  rewrite lookup_frame_for, pkey_eqb_refl. eexists. split; reflexivity.
Qed.

(* ------------------------------------------------------------------------------------------ *)
(* one prepared send against the annotated abstract writer                                    *)
(* ------------------------------------------------------------------------------------------ *)
(* For the annotated abstract writer a prepared send IS a WriteMessage of the creation payload
   whose compressor emitted the recorded stream [str] ([zstep_prepared] below spells it out). *)
Definition prep_msg (p:psend) (str:bytes) : wop := WMessage (ps_ty p) (ps_data p) (ps_ic p) [] [str].

Definition zop_of (c:wcfg) (st:wst * cache) (g:gcache) (o:cop) : wop :=
  match o with COp w => w | CPrepared p => prep_msg p (pstream c st g p) end.

Lemma zop_of_aop c st g o : wop_aop (zop_of c st g o) = aop_of o.
Proof. destruct o as [w|p]; [apply wop_aop_aop_of|reflexivity]. Qed.

Lemma zstep_prepared ng z p str r : z_dead z = false -> ntrN r ->
  let z' := zstep ng z (prep_msg p str) r in
  z_open z' = None /\ z_comp z' = z_comp z /\
  z_out z' = (z_out z ++ zflush_out z (ps_ic p)) ++
             (if r =? 0 then [(mk_sent (ps_ty p) (ng && z_comp z && is_data (ps_ty p)) (ps_data p), str)] else []) /\
  z_dead z' = zflush_closes z || ((r =? 0) && (ps_ty p =? 8)).
Proof.
  intros HD HR. pose proof (zstep_msg ng z (ps_ty p) (ps_data p) (ps_ic p) [] [str] r HD HR) as X.
  cbn [concat List.app] in X. rewrite app_nil_r in X. exact X.
Qed.

Lemma prepared_frame_stepZ c s fs z p fr str e s2 :
  capok c -> 0 < cap c -> Forall small (ps_ic p) -> tail_at s (ps_ic p) ->
  GZ c s fs z -> werr s = None ->
  let s1 := close_current c (ps_ic p) s in
  let cf := w_negotiated c && wcomp s1 && is_data_ty (ps_ty p) in
  (exists pfs ev, fr = encode_frames pfs /\ Forall wf_frame pfs /\ events_from None pfs = ([ev], None) /\
      sent_of_event ev = zwire (mk_sent (ps_ty p) cf (ps_data p), str) /\
      zstr_ok (mk_sent (ps_ty p) cf (ps_data p), str)) ->
  conn_write (ps_ty p) (deadline s1) false (fun _ => fr) [] s1 = (e, s2) ->
  exists fs', GZ c s2 fs' (zstep (w_negotiated c) z (prep_msg p str) (e_werr_N e)).
Proof.
  intros HCap HPos HS HT G HE s1 cf (pfs & ev & Hfr & Pwf & PEv & PS & PZ) H.
  destruct (ModeZ_live c s _ z HE (gz_mode _ _ _ _ G)) as (D & P & ZC & L).
  destruct (close_current_liveZ c (ps_ic p) s _ z HCap HPos HS HT P HE L)
    as (P1 & E1 & C1 & FC1 & WC1 & fr1 & evs1 & Fwf & FW & FEv & FS & FZ).
  fold s1 in P1, E1, C1, FC1, WC1, FW.
  destruct (zflush_closes z) eqn:EC.
  - (* the implicit close sent a close message: the prepared send fails with errCloseSent *)
    unfold conn_write in H. rewrite E1 in H. inversion H; subst e s2. clear H.
    destruct (zstep_prepared (w_negotiated c) z p str (e_werr_N (Some WCloseSent)) D eq_refl) as (Z1 & Z2 & Z3 & Z4).
    rewrite EC in Z4. cbn [orb] in Z4.
    change (e_werr_N (Some WCloseSent) =? 0) with false in Z3. rewrite app_nil_r in Z3.
    exists (fs ++ fr1).
    apply (GZ_ext c s fs z s1 _ fr1 evs1 None (zflush_out z (ps_ic p)) G FW Fwf FEv Z3 FS FZ).
    unfold ModeZ. rewrite E1. exact Z4.
  - apply conn_write_live in H; [|exact E1|apply P1|apply P1].
    destruct H as (key & _ & -> & HW & HK2 & HF2 & HC2 & HE2).
    rewrite app_nil_r in HW.
    destruct (zstep_prepared (w_negotiated c) z p str (e_werr_N None) D eq_refl) as (Z1 & Z2 & Z3 & Z4).
    rewrite EC in Z4. change (e_werr_N None =? 0) with true in Z3, Z4. cbn [orb andb] in Z4.
    assert (Hcf : w_negotiated c && z_comp z && is_data (ps_ty p) = cf).
    { unfold cf. rewrite WC1, ZC. reflexivity. }
    rewrite Hcf, <- app_assoc in Z3.
    exists (fs ++ (fr1 ++ pfs)).
    apply (GZ_ext c s fs z s2 _ (fr1 ++ pfs) (evs1 ++ [ev]) None
             (zflush_out z (ps_ic p) ++ [(mk_sent (ps_ty p) cf (ps_data p), str)]) G).
    + rewrite HW, FW, Hfr, encode_frames_app, app_assoc. reflexivity.
    + apply Forall_app. auto.
    + apply (events_from_seq _ fr1 pfs evs1 None [ev] None FEv PEv).
    + exact Z3.
    + rewrite !map_app, FS. cbn [map]. rewrite PS. reflexivity.
    + apply Forall_app. split; [exact FZ|]. constructor; [exact PZ|constructor].
    + apply (ModeZ_intro_close c s2 None _ (ps_ty p =? 8)).
      * exact HE2.
      * exact Z4.
      * apply (Pz_core s1 s2 P1 HC2 HF2 HK2).
      * rewrite Z2, ZC, <- WC1. symmetry. apply (WriterStateP.core_wcomp _ _ HC2).
      * apply LiveZ_closed; [rewrite (WriterStateP.core_cur _ _ HC2); exact C1|exact Z1|].
        unfold fl_closed. rewrite (WriterStateP.core_fl _ _ HC2). exact FC1.
Qed.

Lemma sent_of_expected ty data : sent_of_event (expected_event ty data) = mk_sent ty false data.
Proof. unfold expected_event. destruct (is_data_ty ty); reflexivity. Qed.

(* what a good cache entry puts on the wire, as the decoder and the annotated writer see it *)
Lemma entry_good_events g id ty data k fr :
  entry_good g id ty data k fr ->
  let str := match gget id k g with Some x => x | None => [] end in
  exists pfs ev, fr = encode_frames pfs /\ Forall wf_frame pfs /\ events_from None pfs = ([ev], None) /\
    sent_of_event ev = zwire (mk_sent ty (pk_compress k) data, str) /\
    zstr_ok (mk_sent ty (pk_compress k) data, str).
Proof.
  unfold entry_good. destruct (pk_compress k) eqn:EC.
  - intros (HD & z & pfs & HG & -> & Pwf & _ & PO & PE). rewrite HG. cbv zeta.
    exists pfs, (EMsg ty true z). split; [reflexivity|]. split; [exact Pwf|].
    split; [apply events_closed; assumption|]. rewrite zwire_comp. split; [reflexivity|].
    intros _. exists z. reflexivity.
  - intros (pfs & -> & Pwf & _ & PO & PE). cbv zeta.
    exists pfs, (expected_event ty data). split; [reflexivity|]. split; [exact Pwf|].
    split; [apply events_closed; assumption|]. rewrite zwire_plain, sent_of_expected.
    split; [reflexivity|apply zstr_ok_plain].
Qed.

(* what is asked of the flate oracles of one op in the state where it runs *)
Definition cop_flate_ok (c:wcfg) (st:wst * cache) (o:cop) : Prop :=
  match o with
  | COp w => op_flate_ok_at c (fst st) w /\ op_rf_ok_at (fst st) w
  | CPrepared p => tail_at (fst st) (ps_ic p) /\ prep_flate_ok c st p
  end.

Lemma cop_flate_ok_plain c s ca fs z o : w_negotiated c = false -> GZ c s fs z -> werr s = None ->
  cop_flate_ok c (s, ca) o.
Proof.
  intros HN G HE. pose proof (GZ_not_flate c s fs z HN G HE) as NF.
  assert (T : forall cc, tail_at s cc) by (intros cc X; contradiction).
  destruct o as [w|p]; cbn [cop_flate_ok fst].
  - split.
    + destruct w; cbn; auto. split; [apply T|]. rewrite HN. cbn. intros X; discriminate X.
    + destruct w; cbn; auto.
  - split; [apply T|]. unfold prep_flate_ok, prep_key, key_for. cbn [pk_compress]. rewrite HN. cbn.
    intros X; discriminate X.
Qed.

Lemma prep_flate_ok_plain c st p : w_negotiated c = false -> prep_flate_ok c st p.
Proof.
  intros HN. unfold prep_flate_ok, prep_key, key_for. cbn [pk_compress]. rewrite HN. cbn. intros X; discriminate X.
Qed.

Lemma cstep_GZ pay c s ca g fs z o :
  capok c -> 0 < cap c -> cop_small o -> op_for pay o ->
  (werr s = None -> cop_flate_ok c (s, ca) o) ->
  match o with COp _ => True | CPrepared p => prep_flate_ok c (s, ca) p end ->
  GZ c s fs z -> CZ pay ca g ->
  CZ pay (snd (snd (cstep c (s, ca) o))) (gstep c (s, ca) g o) /\
  exists fs', GZ c (fst (snd (cstep c (s, ca) o))) fs'
                 (zstep (w_negotiated c) z (zop_of c (s, ca) g o) (e_werr_N (fst (cstep c (s, ca) o)))).
Proof.
  intros HCap HPos HS HO HFl HPf G HC.
  split; [apply (cstep_CZ pay c s ca g o HC HO HS HPf)|].
  pose proof (cstep_CZ pay c s ca g o HC HO HS HPf) as HC'. rewrite cstep_cache in HC'.
  destruct o as [w|p].
  - cbn [cstep zop_of]. destruct HS as [S1 S2].
    assert (F1 : werr s = None -> op_flate_ok_at c s w) by (intros X; apply (HFl X)).
    assert (F2 : werr s = None -> op_rf_ok_at s w) by (intros X; apply (HFl X)).
    pose proof (wstep_GZ c s fs z w HCap HPos S1 S2 F1 F2 G) as X.
    destruct (wstep c s w) as [e s1]. exact X.
  - cbn [zop_of]. destruct HS as [S1 S2]. destruct HO as (O1 & O2 & O3 & O4).
    (* the cache entry used by this send is good for the ghost cache after the send *)
    set (s1 := close_current c (ps_ic p) s) in *.
    set (k := key_for c s1 (ps_ty p)).
    set (g' := gstep c (s, ca) g (CPrepared p)) in *.
    assert (HEnt : entry_good g' (ps_id p) (ps_ty p) (ps_data p) k (fst (send_of c s1 ca p))).
    { destruct (HC' (ps_id p) (snd (send_of c s1 ca p))) as (A & B & C).
      { rewrite cache_get_put, Nat.eqb_refl. reflexivity. }
      rewrite A, B, <- O1, <- O2 in C. apply C. unfold send_of. fold k.
      apply (frame_for_idempotent k (pm_of ca p) (ps_keys p) (ps_wc p) (ps_cc p) [] [] []). }
    assert (Hstr : pstream c (s, ca) g p = match gget (ps_id p) k g' with Some x => x | None => [] end) by reflexivity.
    rewrite Hstr.
    pose proof (entry_good_events g' (ps_id p) (ps_ty p) (ps_data p) k _ HEnt) as HEv. cbv zeta in HEv.
    set (str := match gget (ps_id p) k g' with Some x => x | None => [] end) in *.
    clearbody str g'.
    (* the step itself *)
    cbn [cstep]. cbv zeta. fold s1. fold (pm_of ca p). fold k.
    unfold send_of in HEv. fold k in HEv.
    destruct (frame_for k (pm_of ca p) (ps_keys p) (ps_wc p) (ps_cc p)) as [fr pm'].
    cbn [fst] in HEv. cbn [wstep].
    destruct (conn_write (ps_ty p) (deadline s1) false (fun _ : bytes => fr) [] s1) as [e s2] eqn:ECW.
    cbn [fst snd].
    destruct (werr s) as [x|] eqn:HE.
    + (* dead connection: nothing is written, the send fails *)
      assert (Dd : dead s) by (unfold dead; congruence).
      destruct (close_current_dead c (ps_ic p) s Dd) as [F1 F2]. fold s1 in F1, F2.
      unfold conn_write in ECW. rewrite F1, HE in ECW. inversion ECW; subst e s2. clear ECW.
      assert (AD : z_dead z = true).
      { pose proof (gz_mode _ _ _ _ G) as X. unfold ModeZ in X. rewrite HE in X. exact X. }
      destruct (zstep_deadmode (w_negotiated c) z (prep_msg p str) (e_werr_N (Some x)) AD) as [Q1 Q2].
      { unfold prep_msg. apply e_werr_some. }
      exists fs. apply (GZ_same c s fs z _ _ G F2 Q2). unfold ModeZ. rewrite F1, HE. exact Q1.
    + destruct (HFl eq_refl) as [T1 _]. cbn [fst] in T1.
      apply (prepared_frame_stepZ c s fs z p fr str e s2 HCap HPos S1 T1 G HE); [|exact ECW].
      fold s1. exact HEv.
Qed.

(* ------------------------------------------------------------------------------------------ *)
(* programs                                                                                   *)
(* ------------------------------------------------------------------------------------------ *)
(* the flate-oracle hypothesis along the run (the analogue of [flate_good] + [rf_good]) *)
Fixpoint czgood (c:wcfg) (st:wst * cache) (ops:list cop) : Prop :=
  match ops with
  | [] => True
  | o :: r => cop_flate_ok c st o /\ czgood c (snd (cstep c st o)) r
  end.

(* the program as the annotated abstract writer sees it: every prepared send replaced by the
   WriteMessage of its creation payload with the recorded stream *)
Fixpoint cz_ops (c:wcfg) (st:wst * cache) (g:gcache) (ops:list cop) : list wop :=
  match ops with
  | [] => []
  | o :: r => zop_of c st g o :: cz_ops c (snd (cstep c st o)) (gstep c st g o) r
  end.

(* the results the calls returned, as the harness encodes them *)
Definition cres (l:list (option werror * N)) : list N := map (fun x => e_werr_N (fst x)) l.

Lemma cz_ops_aop c ops : forall st g, map wop_aop (cz_ops c st g ops) = map aop_of ops.
Proof.
  induction ops as [|o r IH]; intros st g; cbn [cz_ops map]; [reflexivity|].
  rewrite zop_of_aop, IH. reflexivity.
Qed.

Lemma crun_GZ pay c ops : capok c -> 0 < cap c -> forall st g fs z,
  Forall cop_small ops -> Forall (op_for pay) ops ->
  (w_negotiated c = false \/ czgood c st ops) ->
  GZ c (fst st) fs z -> CZ pay (snd st) g ->
  exists fs', GZ c (fst (snd (crun c st ops))) fs'
                 (zrun (w_negotiated c) z (combine (cz_ops c st g ops) (cres (fst (crun c st ops))))).
Proof.
  intros HCap HPos. induction ops as [|o r IH]; intros [s ca] g fs z HS HO HG G HC.
  - exists fs. exact G.
  - inversion HS as [|? ? S1 S2]; subst. inversion HO as [|? ? O1 O2]; subst.
    cbn [fst snd] in G, HC. cbn [crun cz_ops].
    assert (HF : werr s = None -> cop_flate_ok c (s, ca) o).
    { intros HE. destruct HG as [HN|[HG _]]; [|exact HG]. apply (cop_flate_ok_plain c s ca fs z o HN G HE). }
    assert (HP : match o with COp _ => True | CPrepared p => prep_flate_ok c (s, ca) p end).
    { destruct o as [w|p]; [exact I|]. destruct HG as [HN|[HG _]]; [apply prep_flate_ok_plain; exact HN|apply HG]. }
    assert (HG' : w_negotiated c = false \/ czgood c (snd (cstep c (s, ca) o)) r).
    { destruct HG as [HN|[_ HG]]; [left; exact HN|right; exact HG]. }
    destruct (cstep_GZ pay c s ca g fs z o HCap HPos S1 O1 HF HP G HC) as (HC1 & fs1 & G1).
    destruct (cstep c (s, ca) o) as [e st1] eqn:E1. cbn [fst snd] in HC1, G1, HG'.
    specialize (IH st1 (gstep c (s, ca) g o) fs1 _ S2 O2 HG' G1 HC1).
    destruct (crun c st1 r) as [es st2] eqn:E2. cbn [fst snd cres map combine zrun] in *.
    exact IH.
Qed.

(* the ghost cache at the end of a run; a recorded stream is never replaced *)
Fixpoint cz_ghost (c:wcfg) (st:wst * cache) (g:gcache) (ops:list cop) : gcache :=
  match ops with
  | [] => g
  | o :: r => cz_ghost c (snd (cstep c st o)) (gstep c st g o) r
  end.

Lemma crun_GS c ops : forall st g, GS (snd st) g ->
  GS (snd (snd (crun c st ops))) (cz_ghost c st g ops) /\
  forall id k str, gget id k g = Some str -> gget id k (cz_ghost c st g ops) = Some str.
Proof.
  induction ops as [|o r IH]; intros [s ca] g HG; cbn [crun cz_ghost]; [split; [exact HG|auto]|].
  cbn [snd] in HG. pose proof (cstep_GS c s ca g o HG) as H1.
  pose proof (fun id k str => recorded_stream_stable c s ca g o id k str HG) as H2.
  destruct (cstep c (s, ca) o) as [e st1]. cbn [snd] in *.
  destruct (IH st1 (gstep c (s, ca) g o) H1) as [I1 I2].
  destruct (crun c st1 r) as [es st2]. cbn [snd] in *. split; [exact I1|].
  intros id k str H. apply I2. apply H2. exact H.
Qed.

(* a good cache entry satisfies WriterWireP's [prepared_ok] on the connection that asked for it *)
Lemma entry_good_prepared_ok c s g id ty data fr :
  entry_good g id ty data (key_for c s ty) fr -> prepared_ok c fr.
Proof.
  unfold entry_good. destruct (pk_compress (key_for c s ty)) eqn:EC.
  - intros (_ & z & pfs & _ & -> & Pwf & PW & PO & _). exists pfs.
    split; [reflexivity|]. split; [exact Pwf|]. split; [|exact PO].
    unfold key_for in EC, PW. cbn [pk_compress pk_server] in EC, PW.
    apply andb_true_iff in EC. destruct EC as [EC _]. apply andb_true_iff in EC. destruct EC as [EC _].
    rewrite EC. exact PW.
  - intros (pfs & -> & Pwf & PW & PO & _). exists pfs.
    split; [reflexivity|]. split; [exact Pwf|]. split; [apply PW|exact PO].
Qed.

Lemma send_entry_good pay c s ca g p :
  CZ pay ca g -> op_for pay (CPrepared p) -> cop_small (CPrepared p) -> prep_flate_ok c (s, ca) p ->
  entry_good (gstep c (s, ca) g (CPrepared p)) (ps_id p) (ps_ty p) (ps_data p) (prep_key c s p)
             (prep_frame c (s, ca) p).
Proof.
  intros HC HO HS HPf.
  pose proof (cstep_CZ pay c s ca g (CPrepared p) HC HO HS HPf) as HC'. rewrite cstep_cache in HC'.
  destruct HO as (O1 & O2 & O3 & O4). rewrite prep_frame_send_of. unfold prep_key.
  set (s1 := close_current c (ps_ic p) s) in *. set (k := key_for c s1 (ps_ty p)).
  destruct (HC' (ps_id p) (snd (send_of c s1 ca p))) as (A & B & C).
  { rewrite cache_get_put, Nat.eqb_refl. reflexivity. }
  rewrite A, B, <- O1, <- O2 in C. apply C. unfold send_of. fold k.
  apply (frame_for_idempotent k (pm_of ca p) (ps_keys p) (ps_wc p) (ps_cc p) [] [] []).
Qed.

(* the hypotheses of this file imply those of WriterWireP.wire_wellformed_prepared *)
Lemma crun_cgood pay c ops : capok c -> forall st g,
  Forall cop_small ops -> Forall (op_for pay) ops ->
  (w_negotiated c = false \/ czgood c st ops) ->
  WInv None c (fst st) -> CZ pay (snd st) g ->
  cgood c st ops.
Proof.
  intros HCap. induction ops as [|o r IH]; intros [s ca] g HS HO HG HW HC; cbn [cgood]; [exact I|].
  inversion HS as [|? ? S1 S2]; subst. inversion HO as [|? ? O1 O2]; subst. cbn [fst snd] in HW, HC.
  assert (HP : match o with COp _ => True | CPrepared p => prep_flate_ok c (s, ca) p end).
  { destruct o as [w|p]; [exact I|]. destruct HG as [HN|[HG _]]; [apply prep_flate_ok_plain; exact HN|apply HG]. }
  assert (HOk : cop_ok c (s, ca) o).
  { destruct o as [w|p]; cbn [cop_ok fst].
    - destruct S1 as [S1 S1']. split; [exact S1|]. split; [|exact S1'].
      destruct HG as [HN|[[HG _] _]]; [left; exact HN|right; exact HG].
    - destruct S1 as [S1 S1']. split; [exact S1|]. split.
      + destruct HG as [HN|[[HG _] _]]; [|exact HG].
        destruct HW as (_ & _ & W3). intros [X _]. rewrite (W3 HN) in X. discriminate X.
      + apply (entry_good_prepared_ok c (close_current c (ps_ic p) s) (gstep c (s, ca) g (CPrepared p))
                 (ps_id p) (ps_ty p) (ps_data p)).
        apply (send_entry_good pay c s ca g p HC O1 (conj S1 S1') HP). }
  split; [exact HOk|].
  pose proof (cstep_inv None c (s, ca) o HCap HOk HW) as HW1.
  pose proof (cstep_CZ pay c s ca g o HC O1 S1 HP) as HC1.
  assert (HG' : w_negotiated c = false \/ czgood c (snd (cstep c (s, ca) o)) r).
  { destruct HG as [HN|[_ HG]]; [left; exact HN|right; exact HG]. }
  destruct (cstep c (s, ca) o) as [e [s1 ca1]]. cbn [fst snd] in *.
  apply (IH (s1, ca1) (gstep c (s, ca) g o) S2 O2 HG' HW1 HC1).
Qed.

(* ------------------------------------------------------------------------------------------ *)
(* main theorems                                                                              *)
(* ------------------------------------------------------------------------------------------ *)
(* Setting: any configuration [c] (role, buffer size, pool, compression negotiated or not), key
   oracle [ks], no fault plan, ANY program [ops : list cop] of the case format (every [wop]
   except the raw WPreparedFrame, plus WritePreparedMessage), run by [crun] from the initial
   state with an empty prepared-message cache.

   Hypotheses:
   - [cop_small]: sizes < 2^62 (payloads, oracle chunks; for a prepared send its implicit-close
     oracle and its render oracle), no raw WPreparedFrame;
   - [op_for pay]: the harness convention of PreparedP: a prepared-message id always stands for
     the same creation payload [pay id], that payload is valid ([msg_valid]: data type, or control
     type with at most 125 bytes -- what NewPreparedMessage accepts) and shorter than 2^62, the
     mask-key oracle of the private rendering connection has 4-byte keys;
   - only when compression is negotiated, [czgood]: [flate_good] and [rf_good] of WriterEventsZ
     for the ordinary ops; for a prepared send, the implicit-close oracle ends with 00 00 ff ff
     if a compressed writer is current, and the Close-time oracle [ps_cc] ends with 00 00 ff ff
     if this send RENDERS a compressed frame (compressed key, not yet in the message's cache).

   Conclusion: with [res] the results of the calls and [A] the abstract writer of
   Spec/WriterSpec.v run on [map aop_of ops] (a prepared send is [AMessage ty data]) with [res],
   - [Z], the annotated abstract writer of WriterEventsZ run on [cz_ops] (the same program where
     every prepared send is the WriteMessage [prep_msg p (pstream ..)] of its creation payload
     annotated with its deflate stream) erases to [A];
   - the Spec events of the wire are [map zwire (z_out Z)]: uncompressed entries are exactly the
     entries of [a_out A]; a compressed entry carries its stream minus the final 00 00 ff ff.
     For a prepared send with a compressed key the stream is [pstream]: the flate oracle
     [concat ps_wc ++ concat ps_cc] of the send that RENDERED the cache entry for
     (ps_id, key) -- this send if the entry was missing ([pstream_miss]), an EARLIER send with the
     same id and key otherwise ([pstream_hit]: the ghost cache [gstep] records it), whatever
     oracles the later send carries;
   - every compressed entry's stream ends with 00 00 ff ff;
   - boundary clause: no close sent and no writer open => the wire ends at a message boundary. *)
Definition cst0 (c:wcfg) (ks:list bytes) : wst * cache := (init_wst c ks None, []).
Definition cZ (c:wcfg) (ks:list bytes) (ops:list cop) : zst :=
  zrun (w_negotiated c) zst0 (combine (cz_ops c (cst0 c ks) [] ops) (cres (fst (crun c (cst0 c ks) ops)))).
Definition cA (c:wcfg) (ks:list bytes) (ops:list cop) : ast :=
  arun (w_negotiated c) ast0 (combine (map aop_of ops) (cres (fst (crun c (cst0 c ks) ops)))).

Lemma main_GZ pay c ks ops :
  14 < w_bufsize c -> w_bufsize c < 2^62 ->
  Forall (fun k => length k = 4%nat) ks -> Forall cop_small ops -> Forall (op_for pay) ops ->
  (w_negotiated c = false \/ czgood c (cst0 c ks) ops) ->
  exists fs0, GZ c (fst (snd (crun c (cst0 c ks) ops))) fs0 (cZ c ks ops).
Proof.
  intros HB1 HB2 HK HS HO HG.
  apply (crun_GZ pay c ops (capok_of c HB2) (cap_pos c HB1) (cst0 c ks) [] [] zst0 HS HO HG).
  - apply init_GZ. exact HK.
  - apply CZ_nil.
Qed.

Lemma main_erase c ks ops : zerase (cZ c ks ops) = cA c ks ops.
Proof. unfold cZ, cA. rewrite zrun_arun, cz_ops_aop. reflexivity. Qed.

Lemma main_events pay c ks ops fs :
  14 < w_bufsize c -> w_bufsize c < 2^62 ->
  Forall (fun k => length k = 4%nat) ks -> Forall cop_small ops -> Forall (op_for pay) ops ->
  (w_negotiated c = false \/ czgood c (cst0 c ks) ops) ->
  Forall wf_frame fs -> wire_of (evs (fst (snd (crun c (cst0 c ks) ops)))) = encode_frames fs ->
  zerase (cZ c ks ops) = cA c ks ops /\
  map sent_of_event (events_of fs) = map zwire (z_out (cZ c ks ops)) /\
  Forall zstr_ok (z_out (cZ c ks ops)) /\
  (a_dead (cA c ks ops) = false -> a_open (cA c ks ops) = None -> snd (events_from None fs) = None).
Proof.
  intros HB1 HB2 HK HS HO HG Hwf HW.
  destruct (main_GZ pay c ks ops HB1 HB2 HK HS HO HG) as (fs0 & [G1 G2 G3 G4 G5]).
  unfold wire in G1. rewrite HW in G1. rewrite (encode_frames_inj fs fs0 Hwf G2 G1).
  split; [apply main_erase|]. split; [exact G3|]. split; [exact G4|].
  intros HD HOp. rewrite <- main_erase in HD, HOp. cbn [zerase a_dead a_open] in HD, HOp.
  set (s' := fst (snd (crun c (cst0 c ks) ops))) in *.
  unfold ModeZ in G5. destruct (werr s').
  - congruence.
  - destruct G5 as (_ & _ & _ & L). unfold LiveZ in L. destruct (Writer.cur s').
    + destruct L as (_ & _ & _ & t & cf & acc & str & X & _). rewrite X in HOp. discriminate HOp.
    + apply L.
Qed.

Lemma main_wf pay c ks ops :
  w_bufsize c < 2^62 ->
  Forall (fun k => length k = 4%nat) ks -> Forall cop_small ops -> Forall (op_for pay) ops ->
  (w_negotiated c = false \/ czgood c (cst0 c ks) ops) ->
  exists fs, wire_of (evs (fst (snd (crun c (cst0 c ks) ops)))) = encode_frames fs /\ Forall wf_frame fs /\
    wf_wire (negb (w_server c)) (w_negotiated c) (map (fun f => (f, true)) fs) = true.
Proof.
  intros HB2 HK HS HO HG.
  assert (HCg : cgood c (cst0 c ks) ops).
  { apply (crun_cgood pay c ops (capok_of c HB2) (cst0 c ks) [] HS HO HG); [apply init_WInv; exact HK|apply CZ_nil]. }
  destruct (wire_wellformed_prepared c ks None ops HB2 HK HCg) as (fs & p & A0 & B0 & C0 & _ & D0 & _).
  rewrite (D0 eq_refl), app_nil_r in A0. exists fs. auto.
Qed.

Lemma main_flags pay c ks ops :
  14 < w_bufsize c -> w_bufsize c < 2^62 ->
  Forall (fun k => length k = 4%nat) ks -> Forall cop_small ops -> Forall (op_for pay) ops ->
  (w_negotiated c = false \/ czgood c (cst0 c ks) ops) ->
  let s' := fst (snd (crun c (cst0 c ks) ops)) in
  (a_dead (cA c ks ops) = true <-> werr s' <> None) /\
  (a_dead (cA c ks ops) = false -> (a_open (cA c ks ops) = None <-> cur s' = None)) /\
  (a_dead (cA c ks ops) = false -> a_comp (cA c ks ops) = wcomp s').
Proof.
  intros HB1 HB2 HK HS HO HG s'.
  destruct (main_GZ pay c ks ops HB1 HB2 HK HS HO HG) as (fs0 & [G1 G2 G3 G4 G5]). fold s' in G5.
  rewrite <- main_erase. cbn [zerase a_dead a_open a_comp]. unfold ModeZ in G5.
  destruct (werr s') as [x|].
  - split; [split; [discriminate|intros _; exact G5]|]. split; congruence.
  - destruct G5 as (D & _ & ZC & L). split; [split; [congruence|intros X; contradiction X; reflexivity]|].
    split; [|intros _; exact ZC].
    intros _. unfold LiveZ in L. destruct (cur s') as [m|].
    + destruct L as (_ & _ & _ & t & cf & acc & str & X & _). rewrite X. split; discriminate.
    + destruct L as (_ & X & _). rewrite X. split; reflexivity.
Qed.

(* C02 second half for programs with WritePreparedMessage *)
Theorem wire_events_prepared :
  forall pay c ks ops fs,
    14 < w_bufsize c -> w_bufsize c < 2^62 ->
    Forall (fun k => length k = 4%nat) ks -> Forall cop_small ops -> Forall (op_for pay) ops ->
    (w_negotiated c = false \/ czgood c (init_wst c ks None, []) ops) ->
    let r := crun c (init_wst c ks None, []) ops in
    let res := cres (fst r) in
    let A := arun (w_negotiated c) ast0 (combine (map aop_of ops) res) in
    let Z := zrun (w_negotiated c) zst0 (combine (cz_ops c (init_wst c ks None, []) [] ops) res) in
    Forall wf_frame fs -> wire_of (evs (fst (snd r))) = encode_frames fs ->
    zerase Z = A /\
    map sent_of_event (events_of fs) = map zwire (z_out Z) /\
    Forall zstr_ok (z_out Z) /\
    (a_dead A = false -> a_open A = None -> snd (events_from None fs) = None).
Proof. intros pay c ks ops fs HB1 HB2 HK HS HO HG. exact (main_events pay c ks ops fs HB1 HB2 HK HS HO HG). Qed.

(* the same, relationally, against the abstract writer's own output [a_out A] ([zrel]: same
   type, same compressed flag, same payload if uncompressed, payload ++ 00 00 ff ff = the
   recorded stream if compressed) *)
Corollary wire_events_prepared_rel :
  forall pay c ks ops fs,
    14 < w_bufsize c -> w_bufsize c < 2^62 ->
    Forall (fun k => length k = 4%nat) ks -> Forall cop_small ops -> Forall (op_for pay) ops ->
    (w_negotiated c = false \/ czgood c (init_wst c ks None, []) ops) ->
    let r := crun c (init_wst c ks None, []) ops in
    let res := cres (fst r) in
    let A := arun (w_negotiated c) ast0 (combine (map aop_of ops) res) in
    let Z := zrun (w_negotiated c) zst0 (combine (cz_ops c (init_wst c ks None, []) [] ops) res) in
    Forall wf_frame fs -> wire_of (evs (fst (snd r))) = encode_frames fs ->
    map fst (z_out Z) = a_out A /\
    Forall2 zrel (z_out Z) (map sent_of_event (events_of fs)).
Proof.
  intros pay c ks ops fs HB1 HB2 HK HS HO HG r res A Z Hwf HW.
  destruct (wire_events_prepared pay c ks ops fs HB1 HB2 HK HS HO HG Hwf HW) as (EA & EV & ST & _).
  fold r res A Z in EA, EV, ST. split; [rewrite <- EA; reflexivity|].
  rewrite EV. apply zwire_zrel; [exact ST|]. apply zrun_complete. constructor.
Qed.

(* together with the first half of C02: the wire IS a well-formed frame sequence *)
Corollary wire_wellformed_and_events_prepared :
  forall pay c ks ops,
    14 < w_bufsize c -> w_bufsize c < 2^62 ->
    Forall (fun k => length k = 4%nat) ks -> Forall cop_small ops -> Forall (op_for pay) ops ->
    (w_negotiated c = false \/ czgood c (init_wst c ks None, []) ops) ->
    let r := crun c (init_wst c ks None, []) ops in
    let res := cres (fst r) in
    let A := arun (w_negotiated c) ast0 (combine (map aop_of ops) res) in
    let Z := zrun (w_negotiated c) zst0 (combine (cz_ops c (init_wst c ks None, []) [] ops) res) in
    exists fs, wire_of (evs (fst (snd r))) = encode_frames fs /\ Forall wf_frame fs /\
      wf_wire (negb (w_server c)) (w_negotiated c) (map (fun f => (f, true)) fs) = true /\
      zerase Z = A /\
      map sent_of_event (events_of fs) = map zwire (z_out Z) /\
      Forall zstr_ok (z_out Z) /\
      (a_dead A = false -> a_open A = None -> snd (events_from None fs) = None).
Proof.
  intros pay c ks ops HB1 HB2 HK HS HO HG.
  destruct (main_wf pay c ks ops HB2 HK HS HO HG) as (fs & A0 & B0 & C0).
  cbv zeta. exists fs. split; [exact A0|]. split; [exact B0|]. split; [exact C0|].
  exact (main_events pay c ks ops fs HB1 HB2 HK HS HO HG B0 A0).
Qed.

(* the model's connection state against the abstract writer's flags *)
Theorem abstract_flags_exact_prepared :
  forall pay c ks ops,
    14 < w_bufsize c -> w_bufsize c < 2^62 ->
    Forall (fun k => length k = 4%nat) ks -> Forall cop_small ops -> Forall (op_for pay) ops ->
    (w_negotiated c = false \/ czgood c (init_wst c ks None, []) ops) ->
    let r := crun c (init_wst c ks None, []) ops in
    let A := arun (w_negotiated c) ast0 (combine (map aop_of ops) (cres (fst r))) in
    (a_dead A = true <-> werr (fst (snd r)) <> None) /\
    (a_dead A = false -> (a_open A = None <-> cur (fst (snd r)) = None)) /\
    (a_dead A = false -> a_comp A = wcomp (fst (snd r))).
Proof. intros pay c ks ops HB1 HB2 HK HS HO HG. exact (main_flags pay c ks ops HB1 HB2 HK HS HO HG). Qed.

(* ------------------------------------------------------------------------------------------ *)
(* no compression negotiated: every prepared key is uncompressed, the cached frames are fully *)
(* determined, and the events of the wire are exactly the abstract writer's output            *)
(* ------------------------------------------------------------------------------------------ *)
Corollary wire_events_prepared_uncompressed :
  forall pay c ks ops fs,
    14 < w_bufsize c -> w_bufsize c < 2^62 -> w_negotiated c = false ->
    Forall (fun k => length k = 4%nat) ks -> Forall cop_small ops -> Forall (op_for pay) ops ->
    let r := crun c (init_wst c ks None, []) ops in
    let A := arun false ast0 (combine (map aop_of ops) (cres (fst r))) in
    Forall wf_frame fs -> wire_of (evs (fst (snd r))) = encode_frames fs ->
    map sent_of_event (events_of fs) = a_out A /\
    (a_dead A = false -> a_open A = None -> snd (events_from None fs) = None).
Proof.
  intros pay c ks ops fs HB1 HB2 HN HK HS HO r A Hwf HW.
  destruct (wire_events_prepared pay c ks ops fs HB1 HB2 HK HS HO (or_introl HN) Hwf HW) as (EA & EV & _ & BD).
  fold r in EA, EV, BD. rewrite HN in EA, EV, BD. fold A in EA, BD. split; [|exact BD].
  rewrite EV, <- EA. cbn [zerase a_out].
  apply zwire_plain_all. apply zrun_plain. split; [constructor|exact I].
Qed.

(* every send of a prepared message whose key is not compressed appears on the wire as the
   creation payload itself, whatever the cache held: the entry the annotated writer appends *)
Lemma prepared_entry_uncompressed ng z p str :
  z_dead z = false -> ng && z_comp z && is_data (ps_ty p) = false ->
  z_out (zstep ng z (prep_msg p str) 0) =
    (z_out z ++ zflush_out z (ps_ic p)) ++ [(mk_sent (ps_ty p) false (ps_data p), str)] /\
  zwire (mk_sent (ps_ty p) false (ps_data p), str) = mk_sent (ps_ty p) false (ps_data p).
Proof.
  intros HD HC. destruct (zstep_prepared ng z p str 0 HD eq_refl) as (_ & _ & X & _).
  rewrite HC in X. split; [exact X|reflexivity].
Qed.

(* ------------------------------------------------------------------------------------------ *)
(* instances                                                                                  *)
(* ------------------------------------------------------------------------------------------ *)
Definition cex_pay (id:nat) : N * bytes :=
  match id with O => (1, [104;105]) | _ => (9, [9]) end.
Definition cex_text : psend :=
  {| ps_id := 0; ps_ty := 1; ps_data := [104;105]; ps_ic := []; ps_keys := [[5;6;7;8]]; ps_wc := []; ps_cc := [] |}.
Definition cex_ping : psend :=
  {| ps_id := 1; ps_ty := 9; ps_data := [9]; ps_ic := []; ps_keys := [[9;9;9;9]]; ps_wc := []; ps_cc := [] |}.
Definition cex_ops : list cop :=
  [COp (WNext 2 []); COp (WWrite [1;2;3;4;5] []); CPrepared cex_text; CPrepared cex_ping;
   COp (WMessage 2 [7;7] [] [] [])].

Lemma cex_ops_for : Forall (op_for cex_pay) cex_ops.
Proof.
  unfold cex_ops. repeat (apply Forall_cons; [|]); try apply Forall_nil; try exact I.
  - split; [reflexivity|]. split; [reflexivity|]. split.
    + split; [left; reflexivity|vm_compute; reflexivity].
    + apply Forall_cons; [reflexivity|apply Forall_nil].
  - split; [reflexivity|]. split; [reflexivity|]. split.
    + split; [right; split; [reflexivity|vm_compute; discriminate]|vm_compute; reflexivity].
    + apply Forall_cons; [reflexivity|apply Forall_nil].
Qed.

(* a client connection, 3 bytes of buffer, no compression: NextWriter left open after a Write
   (one frame flushed, two bytes buffered), a prepared text message -- WritePreparedMessage
   first closes the open writer: its final continuation frame precedes the prepared frame --,
   a prepared ping, a WriteMessage.  The prepared frames are masked with the keys of the private
   rendering connection (5 6 7 8 / 9 9 9 9), the others with the connection's own keys. *)
Example events_instance_prepared :
  let c := ex_cfg false 17 in
  let ks := repeat [1;2;3;4] 10 in
  let r := crun c (init_wst c ks None, []) cex_ops in
  cres (fst r) = [0; 0; 0; 0; 0] /\
  exists fs, wire_of (evs (fst (snd r))) = encode_frames fs /\
    map (fun f => (opcode f, fin f, mkey f)) fs =
      [(2, false, Some [1;2;3;4]); (0, true, Some [1;2;3;4]); (1, true, Some [5;6;7;8]);
       (9, true, Some [9;9;9;9]); (2, true, Some [1;2;3;4])] /\
    map sent_of_event (events_of fs) =
      [the_sent 2 [1;2;3;4;5]; the_sent 1 [104;105]; the_sent 9 [9]; the_sent 2 [7;7]] /\
    snd (events_from None fs) = None.
Proof.
  cbv zeta. split; [vm_compute; reflexivity|].
  destruct (wire_wellformed_and_events_prepared cex_pay (ex_cfg false 17) (repeat [1;2;3;4] 10) cex_ops)
    as (fs & A0 & B0 & C0 & EA & EV & ST & BD).
  - vm_compute. reflexivity.
  - vm_compute. reflexivity.
  - repeat constructor.
  - repeat constructor; unfold small; vm_compute; reflexivity.
  - exact cex_ops_for.
  - left. reflexivity.
  - exists fs. split; [exact A0|]. split.
    + apply (f_equal parse_frames) in A0. rewrite (parse_frames_encode fs B0) in A0.
      vm_compute in A0. inversion A0 as [X]. clear - X.
      repeat (destruct fs as [|? fs]; [discriminate X|]; cbn [map] in X; injection X as <- X).
      destruct fs; [reflexivity|discriminate X].
    + split; [rewrite EV; vm_compute; reflexivity|].
      apply BD; rewrite <- EA; vm_compute; reflexivity.
Qed.

(* compression negotiated (client, stored-block deflater of Spec/Inflate.v as the compressor):
   the same prepared text message sent three times.  The first send renders the compressed
   frame from its own flate oracle; the second send carries NO oracle at all (cache hit) and
   puts the same stream on the wire: the one recorded by the first send; after
   EnableWriteCompression(false) the third send asks for the uncompressed key and the wire
   carries the creation payload itself. *)
Definition cexz_first : psend :=
  {| ps_id := 0; ps_ty := 1; ps_data := zex_hello; ps_ic := []; ps_keys := [[5;6;7;8]];
     ps_wc := [zblocks zex_hello]; ps_cc := [Inflate.sync_marker] |}.
Definition cexz_again : psend :=
  {| ps_id := 0; ps_ty := 1; ps_data := zex_hello; ps_ic := []; ps_keys := []; ps_wc := []; ps_cc := [] |}.
Definition cexz_plain : psend :=
  {| ps_id := 0; ps_ty := 1; ps_data := zex_hello; ps_ic := []; ps_keys := [[7;7;7;7]]; ps_wc := []; ps_cc := [] |}.
Definition cexz_ops : list cop :=
  [CPrepared cexz_first; CPrepared cexz_again; COp (WEnableCompression false); CPrepared cexz_plain].

Lemma cexz_for : Forall (op_for (fun _ => (1, zex_hello))) cexz_ops.
Proof.
  unfold cexz_ops. repeat (apply Forall_cons; [|]); try apply Forall_nil; try exact I;
    (split; [reflexivity|]; split; [reflexivity|]; split;
     [split; [left; reflexivity|vm_compute; reflexivity]|]).
  - apply Forall_cons; [reflexivity|apply Forall_nil].
  - apply Forall_nil.
  - apply Forall_cons; [reflexivity|apply Forall_nil].
Qed.

Lemma cexz_good : czgood (zex_cfg false 17) (init_wst (zex_cfg false 17) [] None, []) cexz_ops.
Proof.
  unfold cexz_ops. cbn [czgood cop_flate_ok op_flate_ok_at op_rf_ok_at]. unfold prep_flate_ok.
  repeat match goal with
  | |- _ /\ _ => split
  | |- True => exact I
  | |- tail_at _ _ => let X := fresh in intros [X _]; vm_compute in X; discriminate X
  end.
  - intros _ _. exists [0]. reflexivity.
  - intros _ X. vm_compute in X. discriminate X.
  - intros X. vm_compute in X. discriminate X.
Qed.

Example events_instance_prepared_compressed :
  let c := zex_cfg false 17 in
  let st0 := (init_wst c [] None, []) in
  let r := crun c st0 cexz_ops in
  let res := cres (fst r) in
  let A := arun true ast0 (combine (map aop_of cexz_ops) res) in
  let Z := zrun true zst0 (combine (cz_ops c st0 [] cexz_ops) res) in
  res = [0; 0; 0; 0] /\
  a_out A = [mk_sent 1 true zex_hello; mk_sent 1 true zex_hello; mk_sent 1 false zex_hello] /\
  z_out Z = [(mk_sent 1 true zex_hello, Inflate.deflate0 zex_hello);
             (mk_sent 1 true zex_hello, Inflate.deflate0 zex_hello);
             (mk_sent 1 false zex_hello, [])] /\
  exists fs, wire_of (evs (fst (snd r))) = encode_frames fs /\
    map (fun f => (opcode f, rsv f, mkey f)) fs =
      [(1, 4, Some [5;6;7;8]); (1, 4, Some [5;6;7;8]); (1, 0, Some [7;7;7;7])] /\
    map sent_of_event (events_of fs) =
      [mk_sent 1 true (Inflate.trunc4 (Inflate.deflate0 zex_hello));
       mk_sent 1 true (Inflate.trunc4 (Inflate.deflate0 zex_hello));
       mk_sent 1 false zex_hello].
Proof.
  cbv zeta. split; [vm_compute; reflexivity|]. split; [vm_compute; reflexivity|]. split; [vm_compute; reflexivity|].
  destruct (wire_wellformed_and_events_prepared (fun _ => (1, zex_hello)) (zex_cfg false 17) [] cexz_ops)
    as (fs & A0 & B0 & C0 & EA & EV & ST & BD).
  - vm_compute. reflexivity.
  - vm_compute. reflexivity.
  - constructor.
  - repeat constructor; unfold small; vm_compute; reflexivity.
  - exact cexz_for.
  - right. exact cexz_good.
  - exists fs. split; [exact A0|]. split.
    + apply (f_equal parse_frames) in A0. rewrite (parse_frames_encode fs B0) in A0.
      vm_compute in A0. inversion A0 as [X]. clear - X.
      repeat (destruct fs as [|? fs]; [discriminate X|]; cbn [map] in X; injection X as <- X).
      destruct fs; [reflexivity|discriminate X].
    + rewrite EV. vm_compute. reflexivity.
Qed.

(* ------------------------------------------------------------------------------------------ *)
(* the hypotheses specific to prepared sends are necessary (for the model)                    *)
(* ------------------------------------------------------------------------------------------ *)
Definition wire_sents (s:wst) : list sent :=
  map sent_of_event (events_of (map fst (fst (parse_frames (wire_of (evs s)))))).

(* (1) [op_for pay]: an id stands for ONE creation payload.  The cache is indexed by id: a second
   send under the same id with another payload (which the harness never does: the payload
   belongs to the PreparedMessage) puts the FIRST payload on the wire. *)
Example payload_convention_needed :
  let c := ex_cfg true 30 in
  let p1 := {| ps_id := 0; ps_ty := 1; ps_data := [1]; ps_ic := []; ps_keys := []; ps_wc := []; ps_cc := [] |} in
  let p2 := {| ps_id := 0; ps_ty := 1; ps_data := [2]; ps_ic := []; ps_keys := []; ps_wc := []; ps_cc := [] |} in
  let ops := [CPrepared p1; CPrepared p2] in
  let r := crun c (init_wst c [] None, []) ops in
  let A := arun false ast0 (combine (map aop_of ops) (cres (fst r))) in
  cres (fst r) = [0; 0] /\
  a_out A = [the_sent 1 [1]; the_sent 1 [2]] /\
  wire_sents (fst (snd r)) = [the_sent 1 [1]; the_sent 1 [1]].
Proof. cbv zeta. repeat split; vm_compute; reflexivity. Qed.

(* (1') [msg_valid] inside [op_for]: NewPreparedMessage refuses a control payload longer than 125
   bytes, so no such PreparedMessage exists; the model's [cstep] ignores that error (it has no
   "creation failed" outcome) and the send then "succeeds" writing nothing. *)
Example payload_valid_needed :
  let c := ex_cfg true 30 in
  let p := {| ps_id := 0; ps_ty := 9; ps_data := repeat 7 126; ps_ic := []; ps_keys := []; ps_wc := []; ps_cc := [] |} in
  let r := crun c (init_wst c [] None, []) [CPrepared p] in
  let A := arun false ast0 (combine (map aop_of [CPrepared p]) (cres (fst r))) in
  fst (new_prepared 9 (repeat 7 126)) = Some WInvalidControl /\
  cres (fst r) = [0] /\ a_out A = [the_sent 9 (repeat 7 126)] /\ wire_sents (fst (snd r)) = [].
Proof. cbv zeta. repeat split; vm_compute; reflexivity. Qed.

(* (2) [prep_flate_ok]: if the compressor's Close-time output of the send that renders a
   compressed frame does not end with 00 00 ff ff, the rendering fails (errors.New("websocket:
   internal error, unexpected bytes at end of flate stream") in the real code, which
   WritePreparedMessage returns); the model ignores the rendering error and sends what the
   private connection had written: nothing. *)
Example prep_flate_ok_needed :
  let c := zex_cfg true 17 in
  let p := {| ps_id := 0; ps_ty := 1; ps_data := zex_hello; ps_ic := []; ps_keys := [];
              ps_wc := [[1;2;3;4;5;6;7;8]]; ps_cc := [[1;2;3;4]] |} in
  let r := crun c (init_wst c [] None, []) [CPrepared p] in
  let A := arun true ast0 (combine (map aop_of [CPrepared p]) (cres (fst r))) in
  fst (render (prep_key c (init_wst c [] None) p) 1 zex_hello [] (ps_wc p) (ps_cc p)) = Some WFlateTail /\
  cres (fst r) = [0] /\ a_out A = [mk_sent 1 true zex_hello] /\ wire_sents (fst (snd r)) = [].
Proof. cbv zeta. repeat split; vm_compute; reflexivity. Qed.

Print Assumptions wire_events_prepared.
Print Assumptions wire_events_prepared_rel.
Print Assumptions wire_wellformed_and_events_prepared.
Print Assumptions abstract_flags_exact_prepared.
Print Assumptions wire_events_prepared_uncompressed.
Print Assumptions events_instance_prepared.
Print Assumptions events_instance_prepared_compressed.
Print Assumptions payload_convention_needed.
Print Assumptions payload_valid_needed.
Print Assumptions prep_flate_ok_needed.
