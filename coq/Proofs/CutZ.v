(* ========================================================================================== *)
(* C05 "no silent truncation" for streams that may carry permessage-deflate messages.          *)
(*                                                                                            *)
(* Generalises Proofs/CutP.v (which assumes RSV = 0 on every frame, i.e. [frame_acc] /         *)
(* [seq_acc]) to the acceptance predicate [frame_accZ srv (negotiated c)] of ReaderZ1.v: with  *)
(* compression negotiated the RSV1 bit may be set, and a message whose FIRST frame carries     *)
(* RSV1 is read by [read_message] through [read_raw] + [inflate].                              *)
(*                                                                                            *)
(*  cut_stream_read_messagesZ   ReadMessage loop over a stream cut at an arbitrary offset: all *)
(*        complete messages ([out_ofZ inflate]), then ONE failing call: for an uncompressed    *)
(*        partial message exactly the received bytes + the mapped transport error; for a       *)
(*        compressed partial message NO bytes + the mapped transport error (never nil, never   *)
(*        io.EOF, never the flate error: the partial message does not reach [inflate]).        *)
(*  cut_stream_errors_stickyZ   afterwards every operation fails;                              *)
(*  cut_stream_same_errorZ      and every later ReadMessage returns that same error.           *)
(*  cut_stream_reader_apiZ      NextReader + Read (messageReader level, raw bytes).            *)
(*  read_message_nil_only_at_end  ANY state / stream / transport: ReadMessage returns a nil    *)
(*        error (and, for a compressed message, calls [inflate]) only when the final frame of  *)
(*        the message has been consumed completely.                                           *)
(*  cut_stream_*_from_Z         the theorems of CutP.v re-derived as the RSV = 0 instances.    *)
(* ========================================================================================== *)
Require Import WS.Base.Bytes WS.gen.Consts WS.Spec.Frame WS.Spec.Conformance WS.Model.Bufio
  WS.Model.Reader WS.Proofs.BufioP WS.Proofs.FrameP WS.Proofs.ReaderBasicP.
From RecordUpdate Require Import RecordSet.
Import RecordSetNotations.
Require Import WS.Proofs.ReaderP1 WS.Proofs.ReaderP2 WS.Proofs.ReaderP3 WS.Proofs.ReaderP.
Require Import WS.Proofs.ReaderZ1 WS.Proofs.ReaderZ2 WS.Proofs.ReaderZ3 WS.Proofs.ReaderFlateP.
Require Import WS.Proofs.CutP.
Ltac Zify.zify_post_hook ::= Z.div_mod_to_equations.

(* ============================== Part A1 (Z) ============================== *)
(* advanceFrame on a frame that is cut short, RSV1 allowed when negotiated. *)

Lemma hdr_stateZ_facts f s :
  br (hdr_stateZ f s) = br s /\ wlog (hdr_stateZ f s) = wlog s /\
  closesent (hdr_stateZ f s) = closesent s /\ rkey (hdr_stateZ f s) = rkey s.
Proof.
  unfold hdr_stateZ. cbv zeta. destruct ((opcode f =? 1) || (opcode f =? 2)); [|destruct (opcode f =? 0)];
    rsimpl; auto.
Qed.

(* ---------- data / continuation frame whose header is complete ---------- *)
Lemma advance_data_genZ k c s f rest :
  rinv k s -> wf_frame f -> frame_accZ (server c) (negotiated c) (negb (rfin s)) f = true ->
  is_control (opcode f) = false ->
  pending (br s) = hdr_bytes f ++ rest ->
  (if opcode f =? 0 then rlen s else 0) + plen f < 2^63 ->
  exists s', advance_after_skip c s = (AFrame (opcode f), s') /\
    rinv k s' /\ rem s' = plen f /\ rfin s' = fin f /\
    rlen s' = (if opcode f =? 0 then rlen s else 0) + plen f /\
    pending (br s') = rest /\
    (forall w, unmask c s' w = match mkey f with Some key => maskl key 0 w | None => w end) /\
    rdecomp s' = (rsv f =? 4) /\ wlog s' = wlog s.
Proof.
  intros Hrinv Hwf Hacc Hctl Hp Hlen.
  pose proof Hrinv as (Hinv & Hbs & Hfl & Herr & Hoof & Hcs & Hrl & Hec).
  destruct (frame_accZ_facts _ _ _ _ Hacc) as (Hr & Hm & Hcases).
  assert (Hop : opcode f = 0 \/ opcode f = 1 \/ opcode f = 2).
  { unfold is_control in Hctl. destruct Hcases as [(Ho & _)|[(Ho & _)|(Ho & _)]]; lia. }
  pose proof Hwf as (_ & _ & Hpl & Hkey).
  assert (Hp0 : pending (br s) = [hdr_b0 f; hdr_b1 f] ++ (ext_bytes f ++ (key_bytes f ++ rest))).
  { rewrite Hp. unfold hdr_bytes. cbn [app]. rewrite <- app_assoc. reflexivity. }
  rewrite aas_unfold.
  destruct (rd_app 2 s _ _ Hinv ltac:(lia) Hp0 eq_refl) as (b1 & Hrd & Hp1 & Hinv1 & Hbs1 & Hfl1).
  rewrite Hrd. cbv iota. cbn [nth].
  rewrite aas2_okZ; [|exact Hwf|exact Hacc].
  set (s1 := hdr_stateZ f (s <| br := b1 |>)).
  assert (Es1 : br s1 = b1 /\ rfin s1 = fin f /\ rlen s1 = (if opcode f =? 0 then rlen s else 0) /\
                rlimit s1 = 0 /\ rerror s1 = None /\ outoffuel s1 = false /\ closesent s1 = false /\
                wlog s1 = wlog s /\ rdecomp s1 = (rsv f =? 4) /\ errcount s1 = errcount s).
  { subst s1. unfold hdr_stateZ. cbv zeta.
    destruct Hop as [Ho|[Ho|Ho]]; rewrite Ho;
      [change ((0 =? 1) || (0 =? 2)) with false; change (0 =? 0) with true
      |change ((1 =? 1) || (1 =? 2)) with true; change (1 =? 0) with false
      |change ((2 =? 1) || (2 =? 2)) with true; change (2 =? 0) with false];
      cbv iota; rsimpl; auto 12. }
  destruct Es1 as (E1 & E2 & E3 & E4 & E5 & E6 & E7 & E8 & E9 & E10).
  destruct (aas3_ok c (opcode f) (is_some (mkey f)) f s1 (key_bytes f ++ rest))
    as (b2 & H3 & Hp2 & Hinv2 & Hbs2 & Hfl2);
    [rewrite E1; exact Hinv1|rewrite E1; lia|exact Hpl|rewrite E1; exact Hp1|].
  rewrite H3. rewrite E1 in Hbs2, Hfl2.
  destruct (mkey f) as [key|] eqn:Ek.
  - (* masked *)
    cbn [is_some]. unfold key_bytes in Hp2. rewrite Ek in Hp2.
    destruct (aas4_masked c (opcode f) (plen f) (s1 <| br := b2 |>) key rest)
      as (b3 & H4 & Hp3 & Hinv3 & Hbs3 & Hfl3);
      [exact Hinv2|change (125 <= bsize b2)%nat; lia|exact Hkey|exact Hp2|].
    rewrite H4. change (bsize (br (s1 <| br := b2 |>))) with (bsize b2) in Hbs3.
    change (fault (src (br (s1 <| br := b2 |>)))) with (fault (src b2)) in Hfl3.
    rewrite aas5_data; [|exact Hop|rsimpl; exact E4|rsimpl; rewrite E3; exact Hlen].
    eexists. split; [reflexivity|].
    split.
    { apply (rinv_upd k s); [exact Hrinv| | | |rsimpl; congruence ..]; rsimpl;
        [exact Hinv3|congruence|congruence]. }
    rsimpl. rewrite E2, E3, E8, E9.
    repeat split; try reflexivity; try assumption.
    intros w. unfold unmask. rsimpl. cbn [is_some] in Hm. rewrite <- Hm. reflexivity.
  - (* unmasked *)
    cbn [is_some]. unfold key_bytes in Hp2. rewrite Ek in Hp2. cbn [app] in Hp2.
    rewrite aas4_unmasked.
    rewrite aas5_data; [|exact Hop|rsimpl; exact E4|rsimpl; rewrite E3; exact Hlen].
    eexists. split; [reflexivity|].
    split.
    { apply (rinv_upd k s); [exact Hrinv| | | |rsimpl; congruence ..]; rsimpl;
        [exact Hinv2|congruence|congruence]. }
    rsimpl. rewrite E2, E3, E8, E9.
    repeat split; try reflexivity; try assumption.
    intros w. unfold unmask. cbn [is_some] in Hm. rewrite <- Hm. reflexivity.
Qed.

(* (B) header complete, data or continuation frame, payload cut *)
Lemma advance_cut_dataZ k c s f w suf :
  rinv k s -> wf_frame f -> frame_accZ (server c) (negotiated c) (negb (rfin s)) f = true ->
  is_control (opcode f) = false ->
  pending (br s) = hdr_bytes f ++ w -> wire_payload f = w ++ suf ->
  (if opcode f =? 0 then rlen s else 0) + plen f < 2^63 ->
  exists s', advance_after_skip c s = (AFrame (opcode f), s') /\
    rinv k s' /\ rem s' = blen w + blen suf /\ rfin s' = fin f /\
    pending (br s') = w /\ unmask c s' w = firstn (length w) (payload f) /\
    rdecomp s' = (rsv f =? 4) /\ wlog s' = wlog s.
Proof.
  intros Hrinv Hwf Hacc Hctl Hp Hw Hlen.
  destruct (advance_data_genZ k c s f w Hrinv Hwf Hacc Hctl Hp Hlen)
    as (s' & H1 & H2 & H3 & H4 & H5 & H6 & H7 & H8 & H9).
  exists s'. split; [exact H1|]. split; [exact H2|].
  split; [rewrite H3, <- wire_payload_blen, Hw, blen_app; reflexivity|].
  split; [exact H4|]. split; [exact H6|].
  split; [rewrite H7; apply (unmask_prefix f w suf Hw)|]. auto.
Qed.

(* (A) the stream ends inside the header, or anywhere inside a control frame *)
Lemma advance_cut_errZ k c s f cut suf :
  rinv k s -> wf_frame f -> frame_accZ (server c) (negotiated c) (negb (rfin s)) f = true ->
  pending (br s) = cut -> encode_frame f = cut ++ suf -> suf <> [] ->
  (is_control (opcode f) = true \/ (length cut < hlen f)%nat) ->
  exists s', advance_after_skip c s = (AErr (of_berror (BErr k)), s') /\ wlog s' = wlog s.
Proof.
  intros Hrinv Hwf Hacc Hp Henc Hsuf Hcase.
  pose proof Hrinv as (Hinv & Hbs & Hfl & Herr & Hoof & Hcs & Hrl & Hec).
  destruct (frame_accZ_facts _ _ _ _ Hacc) as (Hr & Hm & Hcases).
  pose proof Hwf as (_ & _ & Hpl & Hkey).
  rewrite aas_unfold. subst k.
  assert (Henc2 : [hdr_b0 f; hdr_b1 f] ++ (ext_bytes f ++ (key_bytes f ++ wire_payload f)) = cut ++ suf).
  { rewrite <- Henc, encode_frame_decomp. reflexivity. }
  destruct (prefix_app_cases _ _ _ _ Henc2) as [(x & E1 & E2 & _)|(y & E1 & E2)].
  { (* fewer than two bytes *)
    pose proof (app_nonnil_length cut x E2) as Hl. rewrite <- E1 in Hl. cbn [length] in Hl.
    destruct (rd_short 2 s Hinv ltac:(lia) ltac:(rewrite Hp; exact Hl)) as (p & b' & Hrd & _).
    rewrite Hrd. eexists. split; [reflexivity|]. reflexivity. }
  assert (Hp0 : pending (br s) = [hdr_b0 f; hdr_b1 f] ++ y) by (rewrite Hp; exact E1).
  destruct (rd_app 2 s _ _ Hinv ltac:(lia) Hp0 eq_refl) as (b1 & Hrd & Hp1 & Hinv1 & Hbs1 & Hfl1).
  rewrite Hrd. cbv iota. cbn [nth].
  rewrite aas2_okZ; [|exact Hwf|exact Hacc].
  set (s1 := hdr_stateZ f (s <| br := b1 |>)).
  destruct (hdr_stateZ_facts f (s <| br := b1 |>)) as (F1 & F2 & F3 & F4). fold s1 in F1, F2, F3, F4.
  rsimpl_in F1. rsimpl_in F2. rsimpl_in F3.
  destruct (prefix_app_cases _ _ _ _ E2) as [(x & E3 & E4 & _)|(z & E3 & E4)].
  { (* extended length incomplete *)
    destruct (aas3_short c (opcode f) (is_some (mkey f)) f s1 y x) as (b' & H3);
      [rewrite F1; exact Hinv1|rewrite F1; lia|rewrite F1; exact Hp1|exact E3|exact E4|].
    rewrite H3, F1, Hfl1. eexists. split; [reflexivity|]. rsimpl. exact F2. }
  destruct (aas3_ok c (opcode f) (is_some (mkey f)) f s1 z)
    as (b2 & H3 & Hp2 & Hinv2 & Hbs2 & Hfl2);
    [rewrite F1; exact Hinv1|rewrite F1; lia|exact Hpl|rewrite F1, Hp1; exact E3|].
  rewrite H3. rewrite F1 in Hbs2, Hfl2.
  destruct (prefix_app_cases _ _ _ _ E4) as [(x & E5 & E6 & _)|(w & E5 & E6)].
  { (* mask key incomplete *)
    destruct (mkey f) as [key|] eqn:Ek; [|exfalso; unfold key_bytes in E5; rewrite Ek in E5;
      symmetry in E5; apply app_eq_nil in E5; destruct E5; contradiction].
    cbn [is_some]. unfold key_bytes in E5. rewrite Ek in E5.
    destruct (aas4_short c (opcode f) (plen f) (s1 <| br := b2 |>) z x) as (b' & H4);
      [exact Hinv2|change (125 <= bsize b2)%nat; lia|exact Hp2|rewrite <- E5; exact Hkey|exact E6|].
    rewrite H4. change (fault (src (br (s1 <| br := b2 |>)))) with (fault (src b2)).
    rewrite Hfl2, Hfl1. eexists. split; [reflexivity|]. rsimpl. exact F2. }
  (* the header is complete: by hypothesis this is a control frame *)
  assert (Hctl : is_control (opcode f) = true).
  { destruct Hcase as [Hc|Hc]; [exact Hc|exfalso].
    rewrite E1, E3, E5 in Hc. unfold hlen, hdr_bytes in Hc. cbn [length app] in Hc.
    rewrite !app_length in Hc. lia. }
  assert (Hop : (opcode f = 9 \/ opcode f = 10) /\ fin f = true /\ plen f <= 125).
  { unfold is_control in Hctl. destruct Hcases as [H|[(Ho & _)|(Ho & _)]]; [exact H|lia|lia]. }
  destruct Hop as (Hop & Hfin & Hl125).
  assert (Hwlen : blen w < plen f).
  { rewrite <- wire_payload_blen, E6, blen_app. destruct suf; [congruence|]. unfold blen. cbn [length]. lia. }
  destruct (mkey f) as [key|] eqn:Ek.
  - cbn [is_some]. unfold key_bytes in E5. rewrite Ek in E5. rewrite E5 in Hp2.
    destruct (aas4_masked c (opcode f) (plen f) (s1 <| br := b2 |>) key w)
      as (b3 & H4 & Hp3 & Hinv3 & Hbs3 & Hfl3);
      [exact Hinv2|change (125 <= bsize b2)%nat; lia|exact Hkey|exact Hp2|].
    rewrite H4. change (bsize (br (s1 <| br := b2 |>))) with (bsize b2) in Hbs3.
    change (fault (src (br (s1 <| br := b2 |>)))) with (fault (src b2)) in Hfl3.
    set (s3 := s1 <| br := b2 |> <| rem := plen f |> <| mpos := 0 |> <| br := b3 |> <| rkey := key |>).
    destruct (aas5_ctl_short c (opcode f) (plen f) s3 w Hop) as (b' & H5);
      [subst s3; rsimpl; exact Hinv3|subst s3; rsimpl; lia|exact Hl125|subst s3; rsimpl; exact Hp3|exact Hwlen|].
    rewrite H5. replace (fault (src (br s3))) with (fault (src b3)) by reflexivity.
    rewrite Hfl3, Hfl2, Hfl1. eexists. split; [reflexivity|]. subst s3. rsimpl. exact F2.
  - cbn [is_some]. unfold key_bytes in E5. rewrite Ek in E5. cbn [app] in E5. rewrite E5 in Hp2.
    rewrite aas4_unmasked.
    set (s3 := s1 <| br := b2 |> <| rem := plen f |>).
    destruct (aas5_ctl_short c (opcode f) (plen f) s3 w Hop) as (b' & H5);
      [subst s3; rsimpl; exact Hinv2|subst s3; rsimpl; lia|exact Hl125|subst s3; rsimpl; exact Hp2|exact Hwlen|].
    rewrite H5. replace (fault (src (br s3))) with (fault (src b2)) by reflexivity.
    rewrite Hfl2, Hfl1. eexists. split; [reflexivity|]. subst s3. rsimpl. exact F2.
Qed.

(* ============================== Part A2 (Z) ============================== *)
(* The generic read driver [read_gen] (io.ReadAll = [read_all], the flate reader's raw pull =
   [read_raw]) over a message whose frames stop in the middle. *)

Lemma rg_cont_err {P:Type} (psize : P -> nat) pnext fa c (p:P) acc d e s : is_io_eof e = false ->
  rg_cont psize pnext fa c p acc (d, Some e, s) = (acc ++ d, Some e, s).
Proof. intros H. unfold rg_cont. destruct e; try reflexivity. discriminate H. Qed.

(* frames in the middle of an open message, RSV1 allowed when negotiated *)
Definition mid_okZ (srv ng:bool) (fs:list frame) : bool :=
  forallb (fun g => frame_accZ srv ng true g && (is_control (opcode g) || negb (fin g))) fs.

Lemma mid_okZ_false srv fs : mid_okZ srv false fs = mid_ok srv fs.
Proof. reflexivity. Qed.

Section CutGen.
Variables (k:errk) (c:rcfg).
Hypothesis Hch : custom_handlers c = false.

Let e0 : rerr := of_berror (BErr k).

Variable P : Type.
Variable psize : P -> nat.
Variable pnext : P -> bytes -> P.
Variable pinv : P -> Prop.
Hypothesis psize_pos : forall p, pinv p -> (0 < psize p)%nat.
Hypothesis pnext_inv : forall p d, pinv p -> d <> [] -> blen d <= N.of_nat (psize p) -> pinv (pnext p d).

(* ---------- inside the frame that is cut (mode 2) ---------- *)
Lemma rg_partial : forall n wp, length wp = n -> forall s fa fl p acc miss,
  rinv k s -> rem s = blen wp + miss -> 0 < miss -> pending (br s) = wp ->
  pinv p -> (length wp < fl)%nat -> (length wp <= fa)%nat ->
  exists s', rg_cont psize pnext fa c p acc (read_loop fl c (psize p) s)
             = (acc ++ unmask c s wp, Some e0, s') /\
    rerror s' = Some e0 /\ wlog s' = wlog s /\ outoffuel s' = false.
Proof.
  induction n as [n IHn] using lt_wf_ind.
  intros wp Hn s fa fl p acc miss Hrinv Hrem Hmiss Hp Hpi Hfl Hfa.
  destruct fl as [|fl]; [lia|].
  pose proof (psize_pos p Hpi) as Hm.
  destruct wp as [|x wp'] eqn:Ewp.
  - destruct (read_loop_starved k c _ fl s Hrinv Hm) as (s' & Hrl & H1 & H2 & H3 & _);
      [change (blen []) with 0 in Hrem; lia|exact Hp|].
    rewrite Hrl, rg_cont_err by apply is_io_eof_berr.
    exists s'. rewrite unmask_nil. auto.
  - rewrite <- Ewp in *.
    assert (Hwne : wp <> []) by (rewrite Ewp; discriminate).
    destruct (read_loop_chunk_cut k c _ fl s wp miss Hrinv Hm Hwne Hrem Hmiss Hp)
      as (w1 & w2 & e & s1 & Hw & Hw1 & Hb1 & Hrl1 & Hp1 & Hrem1 & Hfin1 & Hwl1 & Hun &
          Hinv1 & Hbs1 & Hfl1 & Hoof1 & Hcs1 & Hrlim1 & Herr1 & Hec1 & He).
    rewrite Hrl1.
    assert (Hbu : blen (unmask c s w1) = blen w1) by (unfold blen; rewrite unmask_length; reflexivity).
    assert (Hw1pos : (0 < length w1)%nat) by (destruct w1; [congruence|cbn [length]; lia]).
    assert (Hlw : (length wp = length w1 + length w2)%nat) by (rewrite Hw, app_length; reflexivity).
    assert (Hune : unmask c s w1 <> []) by (apply unmask_nonnil; exact Hw1).
    destruct He as [-> | [Hw2 ->]].
    + cbn [rg_cont]. destruct fa as [|fa]; [lia|].
      rewrite read_gen_S. unfold reader_read.
      pose proof Hrinv as (Hinv & Hbs & Hflt & Herr & Hoof & Hcs & Hrlim & Hecnt).
      assert (Hrinv1 : rinv k s1) by (unfold rinv; rewrite Hbs1, Hec1; auto 12).
      destruct (IHn (length w2) ltac:(lia) w2 eq_refl s1 fa
                  (fuel_of s1) (pnext p (unmask c s w1))
                  (acc ++ unmask c s w1) miss)
        as (s' & Hres & Hend);
        [exact Hrinv1|exact Hrem1|exact Hmiss|exact Hp1
        |apply pnext_inv; [exact Hpi|exact Hune|rewrite Hbu; exact Hb1]
        |unfold fuel_of; rewrite Hp1; lia|lia|].
      exists s'. split.
      { rewrite Hres. rewrite Hun, <- !app_assoc. reflexivity. }
      rewrite Hwl1 in Hend. exact Hend.
    + rewrite rg_cont_err by apply is_io_eof_berr.
      exists s1. split; [rewrite Hun, Hw2, unmask_nil, app_nil_r; reflexivity|]. auto.
Qed.

Variables (f:frame) (cut suf:bytes).
Hypothesis Hwff : wf_frame f.
Hypothesis Henc : encode_frame f = cut ++ suf.
Hypothesis Hsuf : suf <> [].

(* ---------- from the middle of a frame of an open message, through the frames that are
   completely there, to the cut (mode 1) ---------- *)
Lemma rg_cut : forall fs n wp, length wp = n -> forall s fa fl p acc,
  rinv k s -> rem s = blen wp -> rfin s = false ->
  pending (br s) = wp ++ encode_frames fs ++ cut ->
  Forall wf_frame fs -> mid_okZ (server c) (negotiated c) fs = true ->
  frame_accZ (server c) (negotiated c) true f = true ->
  rlen s + blen (encode_frames fs) + plen f < 2^63 ->
  pinv p -> (length (pending (br s)) < fl)%nat -> (length (pending (br s)) <= fa)%nat ->
  exists s', rg_cont psize pnext fa c p acc (read_loop fl c (psize p) s)
             = (acc ++ unmask c s wp ++ mid_data fs ++ cut_payload f (length cut), Some e0, s') /\
    rerror s' = Some e0 /\ wlog s' = wlog s ++ map WPong (pings_of fs) /\ outoffuel s' = false.
Proof.
  induction fs as [|g fs IHfs].
  - (* no further complete frame *)
    induction n as [n IHn] using lt_wf_ind.
    intros wp Hn s fa fl p acc Hrinv Hrem Hfin Hp Hwf Hmid Haccf Hrl Hpi Hfl Hfa.
    pose proof Hrinv as (Hinv & Hbs & Hflt & Herr & Hoof & Hcs & Hrlim & Hecnt).
    cbn [encode_frames flat_map app mid_data pings_of map] in *. rewrite app_nil_r.
    destruct fl as [|fl]; [lia|].
    destruct wp as [|x wp'] eqn:Ewp.
    + (* at the cut *)
      cbn [app] in Hp. rewrite unmask_nil. cbn [app].
      assert (Haccs : frame_accZ (server c) (negotiated c) (negb (rfin s)) f = true)
        by (rewrite Hfin; exact Haccf).
      pose proof (advance_after_skip_good c s) as (Hpres & _).
      cbn [read_loop]. rewrite Herr. replace (0 <? rem s) with false by (change (blen []) with 0 in Hrem; lia).
      cbv iota. rewrite Hfin. rewrite advance_frame_rem0 by exact Hrem.
      destruct (cut_case f cut suf Henc Hsuf) as [Hcase|(Hctl & w & Ecut & Ewp2 & Ecp & Hsufpos)].
      * destruct (advance_cut_errZ k c s f cut suf Hrinv Hwff Haccs Hp Henc Hsuf Hcase) as (s1 & Hadv & Hwl1).
        rewrite Hadv in *. cbn [snd] in Hpres. cbv iota.
        destruct Hpres as (_ & _ & P3 & _).
        rewrite (read_loop_err_val fl c _ _ e0) by reflexivity.
        unfold e0 at 1. rewrite is_io_eof_berr. cbn [andb].
        rewrite rg_cont_err by apply is_io_eof_berr.
        eexists. split; [rewrite (cut_payload_hdr f cut Hcase); reflexivity|]. rsimpl.
        split; [reflexivity|]. split; [exact Hwl1|congruence].
      * assert (Hop : opcode f = 0).
        { destruct (acc_casesZ _ _ _ _ Haccf) as [(Hc & _)|(_ & [(_ & Hx)|(Ho & _)])];
            [congruence|discriminate Hx|exact Ho]. }
        rewrite Ecut in Hp.
        destruct (advance_cut_dataZ k c s f w suf Hrinv Hwff Haccs Hctl Hp Ewp2)
          as (s1 & Hadv & Hrinv1 & Hrem1 & Hfin1 & Hp1 & Hun1 & _ & Hwl1);
          [rewrite Hop; change (0 =? 0) with true; cbv iota; lia|].
        rewrite Hadv. cbv iota. rewrite Hop.
        change ((0 =? c_TextMessage) || (0 =? c_BinaryMessage)) with false. cbv iota.
        assert (Hlc2 : (length (pending (br s)) = hlen f + length w)%nat)
          by (rewrite Hp, app_length; reflexivity).
        assert (Hh2 : (2 <= hlen f)%nat) by (unfold hlen, hdr_bytes; cbn [length]; lia).
        destruct (rg_partial (length w) w eq_refl s1 fa fl p acc (blen suf))
          as (s' & Hres & H1 & H2 & H3);
          [exact Hrinv1|exact Hrem1|exact Hsufpos|exact Hp1|exact Hpi|lia|lia|].
        exists s'. split; [rewrite Hres, Hun1, Ecp; reflexivity|].
        split; [exact H1|]. split; [congruence|exact H3].
    + rewrite <- Ewp in *.
      assert (Hwne : wp <> []) by (rewrite Ewp; discriminate).
      pose proof (psize_pos p Hpi) as Hm.
      destruct (read_loop_chunk k c _ fl s wp cut Hrinv Hm Hwne Hrem Hp)
        as (w1 & w2 & e & s1 & Hw & Hw1 & Hb1 & Hrl1 & Hp1 & Hrem1 & Hfin1 & Hrlen1 & Hwl1 & Hun &
            Hinv1 & Hbs1 & Hfl1 & Hoof1 & Hcs1 & Hrlim1 & Herr1 & Hec1 & He).
      rewrite Hrl1.
      assert (Hbu : blen (unmask c s w1) = blen w1) by (unfold blen; rewrite unmask_length; reflexivity).
      assert (Hlen1 : (length (pending (br s)) = length w1 + length (pending (br s1)))%nat).
      { rewrite Hp, Hp1, Hw, <- app_assoc, app_length. reflexivity. }
      assert (Hw1pos : (0 < length w1)%nat) by (destruct w1; [congruence|cbn [length]; lia]).
      assert (Hune : unmask c s w1 <> []) by (apply unmask_nonnil; exact Hw1).
      destruct He as [-> | [Hnil ->]].
      * cbn [rg_cont]. destruct fa as [|fa]; [lia|].
        rewrite read_gen_S. unfold reader_read.
        assert (Hrinv1 : rinv k s1) by (unfold rinv; rewrite Hbs1, Hec1; auto 12).
        destruct (IHn (length w2) ltac:(subst n; rewrite Hw, app_length; lia) w2 eq_refl s1 fa
                    (fuel_of s1) (pnext p (unmask c s w1))
                    (acc ++ unmask c s w1))
          as (s' & Hres & Hend);
          [exact Hrinv1|exact Hrem1|rewrite Hfin1; exact Hfin|exact Hp1|exact Hwf|exact Hmid|exact Haccf
          |rewrite Hrlen1; exact Hrl
          |apply pnext_inv; [exact Hpi|exact Hune|rewrite Hbu; exact Hb1]
          |unfold fuel_of; lia|lia|].
        exists s'. split.
        { rewrite Hres. rewrite Hun, <- !app_assoc. reflexivity. }
        rewrite Hwl1, app_nil_r in Hend. exact Hend.
      * (* the fault came with the last bytes: the stream ends exactly at a frame boundary *)
        apply app_eq_nil in Hnil. destruct Hnil as [Hw2 Hcut].
        rewrite Hfin. cbn [negb andb]. rewrite eof_err_eq.
        rewrite rg_cont_err by apply is_io_eof_berr.
        exists s1. split.
        { rewrite Hun, Hw2, unmask_nil, app_nil_r.
          rewrite cut_payload_hdr by (right; rewrite Hcut; unfold hlen, hdr_bytes; cbn [length]; lia).
          rewrite app_nil_r. reflexivity. }
        rewrite Hfin in Herr1. cbn [negb andb] in Herr1. rewrite eof_err_eq in Herr1. auto.
  - (* at least one more complete frame *)
    induction n as [n IHn] using lt_wf_ind.
    intros wp Hn s fa fl p acc Hrinv Hrem Hfin Hp Hwf Hmid Haccf Hrl Hpi Hfl Hfa.
    pose proof Hrinv as (Hinv & Hbs & Hflt & Herr & Hoof & Hcs & Hrlim & Hecnt).
    destruct fl as [|fl]; [lia|].
    inversion Hwf as [|g' fs' Hwfg Hwfs]; subst g' fs'.
    unfold mid_okZ in Hmid. cbn [forallb] in Hmid. apply andb_true_iff in Hmid. destruct Hmid as [Hg Hmid].
    apply andb_true_iff in Hg. destruct Hg as [Hacc Hgnf]. fold (mid_okZ (server c) (negotiated c) fs) in Hmid.
    destruct wp as [|x wp'] eqn:Ewp.
    + (* frame boundary *)
      cbn [app] in Hp. rewrite encode_frames_cons, <- app_assoc in Hp.
      assert (Hlenp : (length (pending (br s)) =
                       length (encode_frame g) + length (encode_frames fs ++ cut))%nat)
        by (rewrite Hp, app_length; reflexivity).
      pose proof (encode_frame_length_ge2 g) as Hge2.
      assert (Hrlf : rlen s + plen g + blen (encode_frames fs) + plen f < 2^63).
      { rewrite encode_frames_cons, blen_app in Hrl. pose proof (encode_frame_ge_plen g). lia. }
      assert (Haccs : frame_accZ (server c) (negotiated c) (negb (rfin s)) g = true)
        by (rewrite Hfin; exact Hacc).
      destruct (acc_casesZ _ _ _ _ Hacc) as [(Hctl & Hop & _)|(Hctl & [(_ & Hxx)|(Hop & _)])];
        [| discriminate Hxx |].
      * (* ping / pong *)
        destruct (advance_ctlZ k c s g (encode_frames fs ++ cut) Hrinv Hch Hwfg Haccs Hctl Hp)
          as (s1 & Hadv & Hrinv1 & Hrem1 & Hfin1 & Hrlen1 & Hp1 & Hwl1).
        rewrite (read_loop_adv fl c _ s (opcode g) s1 Herr Hrem Hfin Hadv) by lia.
        destruct (IHfs 0%nat [] eq_refl s1 fa fl p acc) as (s' & Hres & Hend);
          [exact Hrinv1|exact Hrem1|rewrite Hfin1; exact Hfin|exact Hp1|exact Hwfs|exact Hmid|exact Haccf
          |rewrite Hrlen1; rewrite encode_frames_cons, blen_app in Hrl; lia
          |exact Hpi|rewrite Hp1; lia|rewrite Hp1; lia|].
        exists s'. split.
        { rewrite Hres, !unmask_nil. cbn [mid_data flat_map]. rewrite Hctl. reflexivity. }
        rewrite Hwl1, <- app_assoc, <- map_app in Hend. exact Hend.
      * (* continuation frame, FIN clear *)
        rewrite Hctl in Hgnf. cbn [orb] in Hgnf. apply negb_true_iff in Hgnf.
        destruct (advance_dataZ k c s g (encode_frames fs ++ cut) Hrinv Hwfg Haccs Hctl Hp)
          as (s1 & Hadv & Hrinv1 & Hrem1 & Hfin1 & Hrlen1 & Hp1 & Hun1 & _ & Hwl1);
          [rewrite Hop; change (0 =? 0) with true; cbv iota; lia|].
        rewrite Hop in Hrlen1. change (0 =? 0) with true in Hrlen1. cbv iota in Hrlen1.
        rewrite (read_loop_adv fl c _ s (opcode g) s1 Herr Hrem Hfin Hadv) by lia.
        assert (Hwpl : (length (wire_payload g) <= length (encode_frame g) - 2)%nat).
        { rewrite encode_frame_decomp. cbn [length]. rewrite !app_length. lia. }
        destruct (IHfs (length (wire_payload g)) (wire_payload g) eq_refl s1 fa fl p acc)
          as (s' & Hres & Hend);
          [exact Hrinv1|rewrite Hrem1; symmetry; apply wire_payload_blen|rewrite Hfin1; exact Hgnf
          |exact Hp1|exact Hwfs|exact Hmid|exact Haccf|rewrite Hrlen1; exact Hrlf
          |exact Hpi|rewrite Hp1, app_length; lia|rewrite Hp1, app_length; lia|].
        exists s'. split.
        { rewrite Hres, Hun1, unmask_nil. cbn [mid_data flat_map app]. rewrite Hctl, <- app_assoc. reflexivity. }
        rewrite Hwl1 in Hend. rewrite pings_of_cons, ping1_nonctl by exact Hctl. exact Hend.
    + (* inside a frame *)
      rewrite <- Ewp in *.
      assert (Hwne : wp <> []) by (rewrite Ewp; discriminate).
      pose proof (psize_pos p Hpi) as Hm.
      destruct (read_loop_chunk k c _ fl s wp (encode_frames (g :: fs) ++ cut) Hrinv Hm Hwne Hrem Hp)
        as (w1 & w2 & e & s1 & Hw & Hw1 & Hb1 & Hrl1 & Hp1 & Hrem1 & Hfin1 & Hrlen1 & Hwl1 & Hun &
            Hinv1 & Hbs1 & Hfl1 & Hoof1 & Hcs1 & Hrlim1 & Herr1 & Hec1 & He).
      rewrite Hrl1.
      assert (Hbu : blen (unmask c s w1) = blen w1) by (unfold blen; rewrite unmask_length; reflexivity).
      assert (Hlen1 : (length (pending (br s)) = length w1 + length (pending (br s1)))%nat).
      { rewrite Hp, Hp1, Hw, <- app_assoc, app_length. reflexivity. }
      assert (Hw1pos : (0 < length w1)%nat) by (destruct w1; [congruence|cbn [length]; lia]).
      assert (Hune : unmask c s w1 <> []) by (apply unmask_nonnil; exact Hw1).
      destruct He as [-> | [Hnil _]].
      * cbn [rg_cont]. destruct fa as [|fa]; [lia|].
        rewrite read_gen_S. unfold reader_read.
        assert (Hrinv1 : rinv k s1) by (unfold rinv; rewrite Hbs1, Hec1; auto 12).
        destruct (IHn (length w2) ltac:(subst n; rewrite Hw, app_length; lia) w2 eq_refl s1 fa
                    (fuel_of s1) (pnext p (unmask c s w1))
                    (acc ++ unmask c s w1))
          as (s' & Hres & Hend);
          [exact Hrinv1|exact Hrem1|rewrite Hfin1; exact Hfin|exact Hp1|exact Hwf
          |unfold mid_okZ; cbn [forallb]; rewrite Hacc, Hgnf; exact Hmid|exact Haccf
          |rewrite Hrlen1; exact Hrl
          |apply pnext_inv; [exact Hpi|exact Hune|rewrite Hbu; exact Hb1]
          |unfold fuel_of; lia|lia|].
        exists s'. split.
        { rewrite Hres. rewrite Hun, <- !app_assoc. reflexivity. }
        rewrite Hwl1 in Hend. exact Hend.
      * exfalso. apply app_eq_nil in Hnil. destruct Hnil as [_ Hnil].
        apply app_eq_nil in Hnil. destruct Hnil as [Hnil _].
        apply encode_frames_nil_inv in Hnil. discriminate Hnil.
Qed.

End CutGen.

(* ============================== CutRead (Z) ============================== *)
(* The states "inside a message that is cut", and what io.ReadAll, the raw pull of the flate
   reader and single Read calls do from such a state. *)

Section ReadAPIZ.
Variables (k:errk) (c:rcfg).
Hypothesis Hch : custom_handlers c = false.
Variables (f:frame) (cut suf:bytes).
Hypothesis Hwff : wf_frame f.
Hypothesis Henc : encode_frame f = cut ++ suf.
Hypothesis Hsuf : suf <> [].

Let e0 : rerr := of_berror (BErr k).

Definition mode1Z (s:rst) (wp:bytes) (fs:list frame) : Prop :=
  rinv k s /\ rem s = blen wp /\ rfin s = false /\ pending (br s) = wp ++ encode_frames fs ++ cut /\
  Forall wf_frame fs /\ mid_okZ (server c) (negotiated c) fs = true /\
  frame_accZ (server c) (negotiated c) true f = true /\
  rlen s + blen (encode_frames fs) + plen f < 2^63.

(* [dr]: the (raw) bytes of the message still to be delivered; [pg]: pings still to be answered *)
Definition cutstZ (s:rst) (dr:bytes) (pg:list bytes) : Prop :=
  (exists wp fs, mode1Z s wp fs /\ dr = unmask c s wp ++ mid_data fs ++ cut_payload f (length cut) /\
                 pg = pings_of fs) \/
  (exists wp miss, mode2 k s wp miss /\ dr = unmask c s wp /\ pg = []).

Lemma cutstZ_rinv s dr pg : cutstZ s dr pg -> rinv k s.
Proof. intros [(wp & fs & (H1 & _) & _)|(wp & miss & (H1 & _) & _)]; exact H1. Qed.

(* the generic driver from such a state *)
Lemma read_gen_cutstZ (P:Type) (psize : P -> nat) (pnext : P -> bytes -> P) (pinv : P -> Prop) :
  (forall p, pinv p -> (0 < psize p)%nat) ->
  (forall p d, pinv p -> d <> [] -> blen d <= N.of_nat (psize p) -> pinv (pnext p d)) ->
  forall p s dr pg, pinv p -> cutstZ s dr pg ->
  exists s2, read_gen psize pnext (fuel_of s) c p [] s = (dr, Some e0, s2) /\
    rerror s2 = Some e0 /\ wlog s2 = wlog s ++ map WPong pg /\ outoffuel s2 = false.
Proof.
  intros Hpos Hnext p s dr pg Hpi
    [(wp & fs & (H1 & H2 & H3 & H4 & H5 & H6 & H7 & H8) & -> & ->)|(wp & miss & (H1 & H2 & H3 & H4) & -> & ->)];
    unfold fuel_of at 1; rewrite read_gen_S; unfold reader_read.
  - destruct (rg_cut k c Hch P psize pnext pinv Hpos Hnext f cut suf Hwff Henc Hsuf fs (length wp) wp eq_refl s
                (S (length (pending (br s)))) (fuel_of s) p [])
      as (s2 & Hres & R1 & R2 & R3); try assumption; [unfold fuel_of; lia|lia|].
    exists s2. rewrite Hres. auto.
  - destruct (rg_partial k c P psize pnext pinv Hpos Hnext (length wp) wp eq_refl s
                (S (length (pending (br s)))) (fuel_of s) p [] miss)
      as (s2 & Hres & R1 & R2 & R3); try assumption; [unfold fuel_of; rewrite H4; lia|rewrite H4; lia|].
    exists s2. rewrite Hres. cbn [map]. rewrite app_nil_r. auto.
Qed.

(* io.ReadAll (uncompressed message) *)
Lemma read_all_cutstZ s dr pg : cutstZ s dr pg ->
  exists s2, read_all (fuel_of s) c 0 512 [] s = (dr, Some e0, s2) /\
    rerror s2 = Some e0 /\ wlog s2 = wlog s ++ map WPong pg /\ outoffuel s2 = false.
Proof.
  intros H. rewrite read_all_gen.
  apply (read_gen_cutstZ (N*N) psizeA (pnextA c) pinvA psizeA_pos (pnextA_inv c) (0, 512) s dr pg); [|exact H].
  unfold pinvA. cbn [fst snd]. lia.
Qed.

(* the flate reader's pull of the raw message bytes (compressed message): it ends with the
   transport error, NOT with io.EOF -- so [read_message] never calls [inflate] *)
Lemma read_raw_cutstZ s dr pg : cutstZ s dr pg ->
  exists s2, read_raw (fuel_of s) c [] s = (dr, Some e0, s2) /\
    rerror s2 = Some e0 /\ wlog s2 = wlog s ++ map WPong pg /\ outoffuel s2 = false.
Proof.
  intros H. rewrite read_raw_gen.
  exact (read_gen_cutstZ unit psizeR pnextR (fun _ => True) psizeR_pos (fun _ _ _ _ _ => I) tt s dr pg I H).
Qed.

(* ---------- one Read ---------- *)
Definition step_okZ (dr:bytes) (m:nat) (r : bytes * option rerr * rst) : Prop :=
  let '(d, e, s') := r in
  exists dr', dr = d ++ dr' /\ blen d <= N.of_nat m /\
   ((e = None /\ d <> [] /\ exists pg', cutstZ s' dr' pg') \/
    (e = Some e0 /\ dr' = [] /\ rerror s' = Some e0 /\ outoffuel s' = false)).

Lemma step_mode2Z s wp miss m fl : mode2 k s wp miss -> (0 < m)%nat -> (0 < fl)%nat ->
  step_okZ (unmask c s wp) m (read_loop fl c m s).
Proof.
  intros (Hrinv & Hrem & Hmiss & Hp) Hm Hfl. destruct fl as [|fl]; [lia|].
  destruct wp as [|x wp'] eqn:Ewp.
  - destruct (read_loop_starved k c m fl s Hrinv Hm) as (s' & Hrl & H1 & _ & H3 & _);
      [change (blen []) with 0 in Hrem; lia|exact Hp|].
    rewrite Hrl. unfold step_okZ. exists []. rewrite unmask_nil. split; [reflexivity|].
    split; [change (blen []) with 0; lia|]. right. auto.
  - rewrite <- Ewp in *.
    assert (Hwne : wp <> []) by (rewrite Ewp; discriminate).
    destruct (read_loop_chunk_cut k c m fl s wp miss Hrinv Hm Hwne Hrem Hmiss Hp)
      as (w1 & w2 & e & s1 & Hw & Hw1 & Hb1 & Hrl1 & Hp1 & Hrem1 & Hfin1 & Hwl1 & Hun &
          Hinv1 & Hbs1 & Hfl1 & Hoof1 & Hcs1 & Hrlim1 & Herr1 & Hec1 & He).
    rewrite Hrl1. unfold step_okZ. exists (unmask c s1 w2). split; [exact Hun|].
    split; [unfold blen; rewrite unmask_length; exact Hb1|].
    destruct He as [-> | [Hw2 ->]].
    + left. split; [reflexivity|]. split; [apply unmask_nonnil; exact Hw1|].
      pose proof Hrinv as (Hinv & Hbs & Hflt & Herr & Hoof & Hcs & Hrlim & Hecnt).
      assert (Hrinv1 : rinv k s1) by (unfold rinv; rewrite Hbs1, Hec1; auto 12).
      exists []. right. exists w2, miss. unfold mode2. auto 10.
    + right. split; [reflexivity|]. split; [rewrite Hw2; apply unmask_nil|split; [exact Herr1|exact Hoof1]].
Qed.

Lemma step_mode1Z m : (0 < m)%nat -> forall fs wp s fl, mode1Z s wp fs ->
  (length (pending (br s)) < fl)%nat ->
  step_okZ (unmask c s wp ++ mid_data fs ++ cut_payload f (length cut)) m (read_loop fl c m s).
Proof.
  intros Hm. induction fs as [|g fs IHfs]; intros wp s fl (Hrinv & Hrem & Hfin & Hp & Hwf & Hmid & Haccf & Hrl) Hfl;
    pose proof Hrinv as (Hinv & Hbs & Hflt & Herr & Hoof & Hcs & Hrlim & Hecnt);
    (destruct fl as [|fl]; [lia|]).
  - cbn [encode_frames flat_map app mid_data] in *.
    destruct wp as [|x wp'] eqn:Ewp.
    + cbn [app] in Hp. rewrite unmask_nil. cbn [app].
      assert (Haccs : frame_accZ (server c) (negotiated c) (negb (rfin s)) f = true)
        by (rewrite Hfin; exact Haccf).
      cbn [read_loop]. rewrite Herr. replace (0 <? rem s) with false by (change (blen []) with 0 in Hrem; lia).
      cbv iota. rewrite Hfin. rewrite advance_frame_rem0 by exact Hrem.
      destruct (cut_case f cut suf Henc Hsuf) as [Hcase|(Hctl & w & Ecut & Ewp2 & Ecp & Hsufpos)].
      * pose proof (advance_after_skip_good c s) as (Hpres & _).
        destruct (advance_cut_errZ k c s f cut suf Hrinv Hwff Haccs Hp Henc Hsuf Hcase) as (s1 & Hadv & Hwl1).
        rewrite Hadv in *. cbn [snd] in Hpres. destruct Hpres as (_ & _ & P3 & _). cbv iota.
        rewrite (read_loop_err_val fl c _ _ e0) by reflexivity.
        unfold e0 at 1. rewrite is_io_eof_berr. cbn [andb].
        unfold step_okZ. exists []. rewrite (cut_payload_hdr f cut Hcase). split; [reflexivity|].
        split; [change (blen []) with 0; lia|]. right. rsimpl.
        split; [reflexivity|]. split; [reflexivity|]. split; [reflexivity|congruence].
      * assert (Hop : opcode f = 0).
        { destruct (acc_casesZ _ _ _ _ Haccf) as [(Hc & _)|(_ & [(_ & Hx)|(Ho & _)])];
            [congruence|discriminate Hx|exact Ho]. }
        rewrite Ecut in Hp.
        destruct (advance_cut_dataZ k c s f w suf Hrinv Hwff Haccs Hctl Hp Ewp2)
          as (s1 & Hadv & Hrinv1 & Hrem1 & Hfin1 & Hp1 & Hun1 & _ & Hwl1);
          [rewrite Hop; change (0 =? 0) with true; cbv iota; change (blen []) with 0 in Hrl; lia|].
        rewrite Hadv. cbv iota. rewrite Hop.
        change ((0 =? c_TextMessage) || (0 =? c_BinaryMessage)) with false. cbv iota.
        assert (Hh2 : (2 <= hlen f)%nat) by (unfold hlen, hdr_bytes; cbn [length]; lia).
        rewrite Ecp, <- Hun1. apply (step_mode2Z s1 w (blen suf)); [unfold mode2; auto|exact Hm|].
        rewrite Hp, app_length in Hfl. unfold hlen in Hh2. lia.
    + rewrite <- Ewp in *.
      assert (Hwne : wp <> []) by (rewrite Ewp; discriminate).
      destruct (read_loop_chunk k c m fl s wp cut Hrinv Hm Hwne Hrem Hp)
        as (w1 & w2 & e & s1 & Hw & Hw1 & Hb1 & Hrl1 & Hp1 & Hrem1 & Hfin1 & Hrlen1 & Hwl1 & Hun &
            Hinv1 & Hbs1 & Hfl1 & Hoof1 & Hcs1 & Hrlim1 & Herr1 & Hec1 & He).
      rewrite Hrl1. unfold step_okZ. exists (unmask c s1 w2 ++ cut_payload f (length cut)).
      split; [rewrite Hun, <- app_assoc; reflexivity|].
      split; [unfold blen; rewrite unmask_length; exact Hb1|].
      destruct He as [-> | [Hnil ->]].
      * left. split; [reflexivity|]. split; [apply unmask_nonnil; exact Hw1|].
        assert (Hrinv1 : rinv k s1) by (unfold rinv; rewrite Hbs1, Hec1; auto 12).
        exists (pings_of []). left. exists w2, []. split; [|auto].
        unfold mode1Z. cbn [encode_frames flat_map app]. rewrite Hfin1, Hrlen1. auto 12.
      * right. apply app_eq_nil in Hnil. destruct Hnil as [Hw2 Hcut].
        rewrite Hfin. cbn [negb andb]. rewrite eof_err_eq. split; [reflexivity|].
        split.
        { rewrite Hw2, unmask_nil. cbn [app].
          apply cut_payload_hdr. right. rewrite Hcut. unfold hlen, hdr_bytes. cbn [length]. lia. }
        rewrite Hfin in Herr1. cbn [negb andb] in Herr1. rewrite eof_err_eq in Herr1. split; [exact Herr1|exact Hoof1].
  - inversion Hwf as [|g' fs' Hwfg Hwfs]; subst g' fs'.
    pose proof Hmid as Hmid0.
    unfold mid_okZ in Hmid. cbn [forallb] in Hmid. apply andb_true_iff in Hmid. destruct Hmid as [Hg Hmid].
    apply andb_true_iff in Hg. destruct Hg as [Hacc Hgnf]. fold (mid_okZ (server c) (negotiated c) fs) in Hmid.
    destruct wp as [|x wp'] eqn:Ewp.
    + cbn [app] in Hp. rewrite encode_frames_cons, <- app_assoc in Hp.
      assert (Hlenp : (length (pending (br s)) =
                       length (encode_frame g) + length (encode_frames fs ++ cut))%nat)
        by (rewrite Hp, app_length; reflexivity).
      pose proof (encode_frame_length_ge2 g) as Hge2.
      assert (Hrlf : rlen s + plen g + blen (encode_frames fs) + plen f < 2^63).
      { rewrite encode_frames_cons, blen_app in Hrl. pose proof (encode_frame_ge_plen g). lia. }
      assert (Haccs : frame_accZ (server c) (negotiated c) (negb (rfin s)) g = true)
        by (rewrite Hfin; exact Hacc).
      rewrite unmask_nil. cbn [app mid_data flat_map]. fold (mid_data fs).
      destruct (acc_casesZ _ _ _ _ Hacc) as [(Hctl & Hop & _)|(Hctl & [(_ & Hxx)|(Hop & _)])];
        [| discriminate Hxx |].
      * destruct (advance_ctlZ k c s g (encode_frames fs ++ cut) Hrinv Hch Hwfg Haccs Hctl Hp)
          as (s1 & Hadv & Hrinv1 & Hrem1 & Hfin1 & Hrlen1 & Hp1 & Hwl1).
        rewrite (read_loop_adv fl c _ s (opcode g) s1 Herr Hrem Hfin Hadv) by lia.
        rewrite Hctl. cbn [app].
        replace (mid_data fs ++ cut_payload f (length cut))
          with (unmask c s1 [] ++ mid_data fs ++ cut_payload f (length cut))
          by (rewrite unmask_nil; reflexivity).
        apply IHfs; [|rewrite Hp1; lia].
        unfold mode1Z. rewrite Hfin1, Hrlen1. cbn [app].
        rewrite encode_frames_cons, blen_app in Hrl. split; [exact Hrinv1|]. split; [exact Hrem1|].
        split; [exact Hfin|]. split; [exact Hp1|]. split; [exact Hwfs|]. split; [exact Hmid|].
        split; [exact Haccf|lia].
      * rewrite Hctl in Hgnf. cbn [orb] in Hgnf. apply negb_true_iff in Hgnf.
        destruct (advance_dataZ k c s g (encode_frames fs ++ cut) Hrinv Hwfg Haccs Hctl Hp)
          as (s1 & Hadv & Hrinv1 & Hrem1 & Hfin1 & Hrlen1 & Hp1 & Hun1 & _ & Hwl1);
          [rewrite Hop; change (0 =? 0) with true; cbv iota; lia|].
        rewrite Hop in Hrlen1. change (0 =? 0) with true in Hrlen1. cbv iota in Hrlen1.
        rewrite (read_loop_adv fl c _ s (opcode g) s1 Herr Hrem Hfin Hadv) by lia.
        rewrite Hctl, <- app_assoc, <- Hun1.
        assert (Hwpl : (length (wire_payload g) <= length (encode_frame g) - 2)%nat).
        { rewrite encode_frame_decomp. cbn [length]. rewrite !app_length. lia. }
        apply IHfs; [|rewrite Hp1, app_length; lia].
        unfold mode1Z. rewrite Hfin1, Hrlen1.
        split; [exact Hrinv1|]. split; [rewrite Hrem1; symmetry; apply wire_payload_blen|].
        split; [exact Hgnf|]. split; [exact Hp1|]. split; [exact Hwfs|]. split; [exact Hmid|].
        split; [exact Haccf|exact Hrlf].
    + rewrite <- Ewp in *.
      assert (Hwne : wp <> []) by (rewrite Ewp; discriminate).
      destruct (read_loop_chunk k c m fl s wp (encode_frames (g :: fs) ++ cut) Hrinv Hm Hwne Hrem Hp)
        as (w1 & w2 & e & s1 & Hw & Hw1 & Hb1 & Hrl1 & Hp1 & Hrem1 & Hfin1 & Hrlen1 & Hwl1 & Hun &
            Hinv1 & Hbs1 & Hfl1 & Hoof1 & Hcs1 & Hrlim1 & Herr1 & Hec1 & He).
      rewrite Hrl1. unfold step_okZ.
      exists (unmask c s1 w2 ++ mid_data (g :: fs) ++ cut_payload f (length cut)).
      split; [rewrite Hun, <- app_assoc; reflexivity|].
      split; [unfold blen; rewrite unmask_length; exact Hb1|].
      destruct He as [-> | [Hnil _]].
      * left. split; [reflexivity|]. split; [apply unmask_nonnil; exact Hw1|].
        assert (Hrinv1 : rinv k s1) by (unfold rinv; rewrite Hbs1, Hec1; auto 12).
        exists (pings_of (g :: fs)). left. exists w2, (g :: fs). split; [|auto].
        unfold mode1Z. rewrite Hfin1, Hrlen1. auto 12.
      * exfalso. apply app_eq_nil in Hnil. destruct Hnil as [_ Hnil].
        apply app_eq_nil in Hnil. destruct Hnil as [Hnil _].
        apply encode_frames_nil_inv in Hnil. discriminate Hnil.
Qed.

Lemma step_cutstZ s dr pg m : cutstZ s dr pg -> (0 < m)%nat -> step_okZ dr m (reader_read c m s).
Proof.
  intros [(wp & fs & Hm1 & -> & _)|(wp & miss & Hm2 & -> & _)] Hm; unfold reader_read.
  - apply step_mode1Z; [exact Hm|exact Hm1|unfold fuel_of; lia].
  - apply (step_mode2Z s wp miss); [exact Hm2|exact Hm|unfold fuel_of; lia].
Qed.

Lemma cutstZ_opidx s dr pg n : cutstZ s dr pg -> cutstZ (s <| opidx := n |>) dr pg.
Proof.
  intros [(wp & fs & (H1 & H2) & Hd & Hg)|(wp & miss & (H1 & H2) & Hd & Hg)].
  - left. exists wp, fs. split; [|split; [exact Hd|exact Hg]].
    split; [apply (rinv_same k s); [exact H1|reflexivity ..]|exact H2].
  - right. exists wp, miss. split; [|split; [exact Hd|exact Hg]].
    split; [apply (rinv_same k s); [exact H1|reflexivity ..]|exact H2].
Qed.

(* ---------- any number of Reads ---------- *)
Variable inflate : bytes -> option bytes.

Theorem reads_on_cut_messageZ : forall l s dr pg,
  cutstZ s dr pg -> cur s <> None -> Forall (fun m => (0 < m)%nat) l ->
  exists outs s', run_ops inflate c s (map ORead l) = (outs, s') /\
    Forall (read_out_ok k) outs /\ (exists dr', dr = flat_map rdata outs ++ dr') /\
    outoffuel s' = false.
Proof.
  induction l as [|m l IH]; intros s dr pg Hst Hc Hl.
  - exists [], s. cbn [map run_ops flat_map app]. split; [reflexivity|]. split; [constructor|].
    split; [exists dr; reflexivity|]. apply (cutstZ_rinv s dr pg Hst).
  - inversion Hl as [|m' l' Hm Hl']; subst m' l'.
    cbn [map run_ops]. unfold rstep. destruct (cur s) as [i|] eqn:Ec; [|congruence].
    pose proof (step_cutstZ s dr pg m Hst Hm) as Hstep.
    pose proof (read_loop_cur (fuel_of s) c m s) as Hcur. unfold reader_read in *.
    destruct (read_loop (fuel_of s) c m s) as [[d e] s1]. specialize (Hcur d e s1 eq_refl).
    unfold step_okZ in Hstep. destruct Hstep as (dr' & Hdr & Hb & [(-> & Hd & pg' & Hst1)|(-> & Hdr' & Herr1 & Hoof1)]).
    + destruct Hcur as [Hcur|Hx]; [|discriminate Hx].
      destruct (IH (s1 <| opidx := S (opidx s1) |>) dr' pg') as (outs & s' & Hrun & Hok & (dr2 & Hdr2) & Hoof);
        [apply cutstZ_opidx; exact Hst1|change (cur (s1 <| opidx := S (opidx s1) |>)) with (cur s1); congruence
        |exact Hl'|].
      rewrite Hrun. eexists _, s'. split; [reflexivity|].
      split; [constructor; [exists d, None; split; [reflexivity|]; split; [discriminate|left; reflexivity]|exact Hok]|].
      split; [|exact Hoof]. exists dr2. cbn [flat_map rdata]. rewrite Hdr, Hdr2, <- app_assoc. reflexivity.
    + assert (Hne : Some e0 <> Some RIoEOF) by (intros E; inversion E as [E1]; exact (of_berror_noeof _ E1)).
      destruct Hcur as [Hcur|Hx]; [|contradiction].
      destruct (reads_after_error k c inflate l (s1 <| opidx := S (opidx s1) |>)) as (s' & Hrun & H1 & H2 & H3);
        [exact Herr1|change (cur (s1 <| opidx := S (opidx s1) |>)) with (cur s1); congruence|].
      rewrite Hrun. eexists _, s'. split; [reflexivity|].
      split.
      { constructor; [exists d, (Some e0); split; [reflexivity|]; split; [exact Hne|right; reflexivity]|].
        apply Forall_forall. intros r Hin. apply in_map_iff in Hin. destruct Hin as (m0 & <- & _).
        exists [], (Some e0). split; [reflexivity|]. split; [exact Hne|right; reflexivity]. }
      split.
      { exists []. cbn [flat_map rdata]. rewrite Hdr, Hdr'.
        assert (Hz : forall l0 : list nat, flat_map rdata (map (fun _ => RData [] (Some e0)) l0) = [])
          by (induction l0 as [|? ? IHl0]; [reflexivity|cbn [map flat_map rdata app]; exact IHl0]).
        rewrite Hz, !app_nil_r. reflexivity. }
      rewrite H3. exact Hoof1.
Qed.

End ReadAPIZ.

(* ---------- Read / ReadAll / the raw pull never touch the failure counter ---------- *)
Lemma read_loop_errcount : forall fuel c m s d e s',
  read_loop fuel c m s = (d, e, s') -> errcount s' = errcount s.
Proof.
  induction fuel as [|fu IH]; intros c m s d e s' H.
  - cbn [read_loop] in H. destruct (rerror s); inversion H; subst; reflexivity.
  - cbn [read_loop] in H. destruct (rerror s) as [e1|] eqn:He; [inversion H; subst; reflexivity|].
    destruct (0 <? rem s) eqn:Er.
    + cbv zeta in H.
      destruct (br_read (N.to_nat (N.min (N.of_nat m) (rem s))) (br s)) as [[d0 e0] b].
      inversion H; subst. destruct (server c); rsimpl; reflexivity.
    + destruct (rfin s); [inversion H; subst; reflexivity|].
      rewrite advance_frame_rem0 in H by lia.
      pose proof (advance_after_skip_good c s) as (Hp & _).
      destruct (advance_after_skip c s) as [a s1]. cbn [snd] in Hp. destruct Hp as (_ & _ & _ & Hec & _).
      destruct a as [e1|op]; [|destruct ((op =? c_TextMessage) || (op =? c_BinaryMessage))];
        rewrite (IH _ _ _ _ _ _ H); rsimpl; exact Hec.
Qed.

Lemma read_gen_errcount {P:Type} (psize : P -> nat) pnext c : forall fuel (p:P) acc s d e s',
  read_gen psize pnext fuel c p acc s = (d, e, s') -> errcount s' = errcount s.
Proof.
  induction fuel as [|fu IH]; intros p acc s d e s' H.
  - cbn [read_gen] in H. inversion H; subst. reflexivity.
  - cbn [read_gen] in H. unfold reader_read in H.
    destruct (read_loop (fuel_of s) c (psize p) s) as [[d1 e1] s1] eqn:E.
    pose proof (read_loop_errcount _ _ _ _ _ _ _ E) as H1.
    destruct e1 as [e1|]; [destruct e1; inversion H; subst; exact H1|].
    rewrite (IH _ _ _ _ _ _ H). exact H1.
Qed.

(* ============================== CutMain (Z) ============================== *)

(* ---------- frame lists that may leave a fragmented message open ---------- *)
Fixpoint seq_accZ (srv ng open:bool) (fs:list frame) : option bool :=
  match fs with
  | [] => Some open
  | f :: r => if frame_accZ srv ng open f then seq_accZ srv ng (next_open open f) r else None
  end.

Lemma seq_accZ_false srv : forall fs o, seq_accZ srv false o fs = seq_acc srv o fs.
Proof. induction fs as [|f r IH]; intros o; [reflexivity|]. cbn [seq_accZ seq_acc]. rewrite IH. reflexivity. Qed.

Lemma seq_acc_accZ srv ng : forall fs o o', seq_acc srv o fs = Some o' -> seq_accZ srv ng o fs = Some o'.
Proof.
  induction fs as [|f r IH]; intros o o' H; [exact H|]. cbn [seq_acc seq_accZ] in *.
  destruct (frame_acc srv o f) eqn:E; [|discriminate H].
  rewrite (frame_acc_accZ srv ng o f E). apply IH. exact H.
Qed.

Lemma seq_okZ_accZ srv ng : forall fs o, seq_okZ srv ng o fs = true <-> seq_accZ srv ng o fs = Some false.
Proof.
  induction fs as [|f r IH]; intros o; cbn [seq_okZ seq_accZ].
  - destruct o; cbn [negb]; split; intros H; congruence.
  - destruct (frame_accZ srv ng o f); cbn [andb]; [apply IH|split; intros H; discriminate H].
Qed.

Lemma seq_accZ_app srv ng : forall a o b,
  seq_accZ srv ng o (a ++ b) =
  match seq_accZ srv ng o a with Some o' => seq_accZ srv ng o' b | None => None end.
Proof.
  induction a as [|f a IH]; intros o b; cbn [app seq_accZ]; [reflexivity|].
  destruct (frame_accZ srv ng o f); [apply IH|reflexivity].
Qed.

Lemma seq_accZ_snoc_fin srv ng o l f o' :
  seq_accZ srv ng o (l ++ [f]) = Some o' -> is_fin_data f = true -> o' = false.
Proof.
  rewrite seq_accZ_app. destruct (seq_accZ srv ng o l) as [o1|]; [|discriminate].
  cbn [seq_accZ]. destruct (frame_accZ srv ng o1 f); [|discriminate].
  unfold is_fin_data. intros H Hf. apply andb_true_iff in Hf. destruct Hf as [Hc Hfin].
  apply negb_true_iff in Hc. unfold next_open in H. rewrite Hc, Hfin in H. inversion H. reflexivity.
Qed.

Lemma closed_part_closedZ srv ng fs o :
  seq_accZ srv ng false fs = Some o ->
  seq_accZ srv ng false (closed_part fs) = Some false /\ seq_accZ srv ng false (open_part fs) = Some o.
Proof.
  intros H. rewrite <- (parts_app fs), seq_accZ_app in H.
  destruct (seq_accZ srv ng false (closed_part fs)) as [o1|] eqn:E; [|discriminate].
  assert (o1 = false).
  { destruct (closed_part_last fs) as [Hn|(l & g & Hl & Hg)].
    - rewrite Hn in E. cbn [seq_accZ] in E. congruence.
    - rewrite Hl in E. eapply seq_accZ_snoc_fin; eassumption. }
  subst o1. auto.
Qed.

(* the open flag is what the defragmenter's accumulator says *)
Lemma ev_openZ srv ng : forall fs acc o o',
  seq_accZ srv ng o fs = Some o' -> is_some acc = o -> is_some (snd (events_from acc fs)) = o'.
Proof.
  induction fs as [|f r IH]; intros acc o o' H Ha.
  - cbn [seq_accZ] in H. cbn [events_from snd]. congruence.
  - cbn [seq_accZ] in H. destruct (frame_accZ srv ng o f); [|discriminate].
    unfold next_open in H.
    destruct (is_control (opcode f)) eqn:Hc; [|destruct (fin f) eqn:Hf].
    + rewrite events_from_ctl by exact Hc. cbn [snd]. eapply IH; eassumption.
    + rewrite events_from_final by assumption. cbn [snd]. eapply IH; [exact H|reflexivity].
    + rewrite events_from_more by assumption. eapply IH; [exact H|reflexivity].
Qed.

Lemma mid_of_accZ srv ng : forall r o, seq_accZ srv ng true r = Some o -> has_fin r = false ->
  mid_okZ srv ng r = true /\ o = true.
Proof.
  induction r as [|g r IH]; intros o H Hn.
  - cbn [seq_accZ] in H. inversion H. auto.
  - cbn [seq_accZ] in H. destruct (frame_accZ srv ng true g) eqn:Ha; [|discriminate].
    unfold has_fin in Hn. cbn [existsb] in Hn. apply orb_false_iff in Hn. destruct Hn as [Hf Hr].
    assert (Hno : next_open true g = true /\ (is_control (opcode g) || negb (fin g)) = true).
    { unfold next_open. destruct (is_control (opcode g)) eqn:Hc; [auto|].
      rewrite (is_fin_data_false g Hf Hc). auto. }
    destruct Hno as [Hno Hg]. rewrite Hno in H.
    destruct (IH o H Hr) as [Hm Ho]. split; [|exact Ho].
    unfold mid_okZ. cbn [forallb]. rewrite Ha, Hg. exact Hm.
Qed.

(* ---------- what the failing ReadMessage is about: type, RSV1 flag, received bytes ---------- *)
(* (type, compressed?, payload bytes received so far) of the message that is cut; (0, false, [])
   when no message has started (cut inside the header of a first frame, or inside a control
   frame between messages) *)
Definition base_resultZ (f:frame) (n:nat) : N * bool * bytes :=
  if is_control (opcode f) || (n <? hlen f)%nat then (0, false, [])
  else (opcode f, rsv f =? 4, cut_payload f n).

(* in terms of the RFC defragmenter ([Spec.Frame.events_from]): the accumulator of the open
   message, plus the payload bytes of the cut frame that did arrive *)
Definition partial_ofZ (fs:list frame) (f:frame) (n:nat) : N * bool * bytes :=
  match snd (events_from None fs) with
  | Some (ty, cz, d) => (ty, cz, d ++ cut_payload f n)
  | None => base_resultZ f n
  end.

Fixpoint tail_resultZ (fs2:list frame) (f:frame) (n:nat) : N * bool * bytes :=
  match fs2 with
  | [] => base_resultZ f n
  | g :: r => if is_control (opcode g) then tail_resultZ r f n
              else (opcode g, rsv g =? 4, payload g ++ mid_data r ++ cut_payload f n)
  end.

(* the old (type, bytes) view *)
Lemma base_resultZ_base f n :
  base_result f n = (fst (fst (base_resultZ f n)), snd (base_resultZ f n)).
Proof. unfold base_result, base_resultZ. destruct (is_control (opcode f) || (n <? hlen f)%nat); reflexivity. Qed.

Lemma partial_ofZ_partial fs f n :
  partial_of fs f n = (fst (fst (partial_ofZ fs f n)), snd (partial_ofZ fs f n)).
Proof.
  unfold partial_of, partial_ofZ. destruct (snd (events_from None fs)) as [[[ty cz] d]|]; [reflexivity|].
  apply base_resultZ_base.
Qed.

Lemma ev_midZ : forall r ty cc d, has_fin r = false ->
  snd (events_from (Some (ty, cc, d)) r) = Some (ty, cc, d ++ mid_data r).
Proof. exact ev_mid. Qed.

Lemma ev_tailZ f n : forall fs2, has_fin fs2 = false -> partial_ofZ fs2 f n = tail_resultZ fs2 f n.
Proof.
  unfold partial_ofZ. induction fs2 as [|g r IH]; intros H; [reflexivity|].
  unfold has_fin in H. cbn [existsb] in H. apply orb_false_iff in H. destruct H as [Hf Hr].
  cbn [tail_resultZ]. destruct (is_control (opcode g)) eqn:Hc.
  - rewrite events_from_ctl by exact Hc. cbn [snd]. apply IH. exact Hr.
  - rewrite events_from_more by (try exact Hc; apply is_fin_data_false; assumption).
    cbn [acc_step]. rewrite ev_mid by exact Hr. rewrite <- app_assoc. reflexivity.
Qed.

Lemma partial_ofZ_parts srv ng fs o f n : seq_accZ srv ng false fs = Some o ->
  partial_ofZ fs f n = tail_resultZ (open_part fs) f n.
Proof.
  intros H. destruct (closed_part_closedZ srv ng fs o H) as [Hc _].
  rewrite <- ev_tailZ by apply open_part_nofin. unfold partial_ofZ.
  rewrite <- (parts_app fs) at 1. rewrite events_from_app. cbn [snd].
  pose proof (ev_openZ srv ng (closed_part fs) None false false Hc eq_refl) as He.
  destruct (snd (events_from None (closed_part fs))); [discriminate He|reflexivity].
Qed.

Lemma msgs_partsZ srv ng fs o : seq_accZ srv ng false fs = Some o -> msgs (closed_part fs) = msgs fs.
Proof.
  intros H. destruct (closed_part_closedZ srv ng fs o H) as [Hc _].
  rewrite <- (parts_app fs) at 2. unfold msgs.
  pose proof (ev_openZ srv ng (closed_part fs) None false false Hc eq_refl) as He.
  rewrite events_of_app_closed by (destruct (snd (events_from None (closed_part fs))); [discriminate He|reflexivity]).
  rewrite data_msgs_app. unfold events_of. rewrite (nofin_msgs (open_part fs)) by apply open_part_nofin.
  rewrite app_nil_r. reflexivity.
Qed.

(* the result of the failing ReadMessage: an uncompressed partial message comes back with the
   bytes received; a compressed one with NO bytes (they are not a complete deflate stream and
   were never given to [inflate]) *)
Definition cut_outZ (m : N * bool * bytes) (e:rerr) : rout :=
  let '(ty, cz, d) := m in RMsg ty (if cz then [] else d) (Some e).

Section LastReadZ.
Variables (inflate : bytes -> option bytes) (k:errk) (c:rcfg).
Hypothesis Hch : custom_handlers c = false.
Variables (f:frame) (cut suf:bytes).
Hypothesis Hwff : wf_frame f.
Hypothesis Henc : encode_frame f = cut ++ suf.
Hypothesis Hsuf : suf <> [].

Let e0 : rerr := of_berror (BErr k).

Definition nl_outcomeZ (o:bool) (r : option N * rst) (m : N * bool * bytes) (wl:list wback) : Prop :=
  match r with
  | (None, s1) => m = (0, false, []) /\ rerror s1 = Some e0 /\ errcount s1 = 0%nat /\ wlog s1 = wl /\
                  outoffuel s1 = false /\ ~ msg_started f cut o
  | (Some op, s1) => op = fst (fst m) /\ rdecomp s1 = snd (fst m) /\ cur s1 <> None /\
      exists pg, cutstZ k c f cut s1 (snd m) pg /\ wl = wlog s1 ++ map WPong pg
  end.

Lemma base_resultZ_A : (is_control (opcode f) = true \/ (length cut < hlen f)%nat) ->
  base_resultZ f (length cut) = (0, false, []).
Proof.
  unfold base_resultZ. intros [-> | H]; [reflexivity|].
  replace (length cut <? hlen f)%nat with true by (symmetry; apply Nat.ltb_lt; exact H).
  rewrite orb_true_r. reflexivity.
Qed.

(* NextReader's loop over the frames that follow the last complete message *)
Lemma next_loop_cutZ : forall fs2 o s fuel,
  Forall wf_frame fs2 -> seq_accZ (server c) (negotiated c) false fs2 = Some o -> has_fin fs2 = false ->
  frame_accZ (server c) (negotiated c) o f = true ->
  rinv k s -> rem s = 0 -> rfin s = true -> rlen s = 0 ->
  pending (br s) = encode_frames fs2 ++ cut ->
  blen (encode_frames fs2) + plen f < 2^63 -> (length (pending (br s)) < fuel)%nat ->
  nl_outcomeZ o (next_loop fuel c s) (tail_resultZ fs2 f (length cut))
              (wlog s ++ map WPong (pings_of fs2)).
Proof.
  induction fs2 as [|g r IH]; intros o s fuel Hwf Hseq Hnf Haccf Hrinv Hrem Hfin Hrlen Hp Hlen Hfuel;
    pose proof Hrinv as (Hinv & Hbs & Hflt & Herr & Hoof & Hcs & Hrlim & Hecnt);
    (destruct fuel as [|fuel]; [lia|]);
    cbn [next_loop]; rewrite Herr; rewrite advance_frame_rem0 by exact Hrem.
  - (* only the cut frame is left; no message is open *)
    cbn [seq_accZ] in Hseq. inversion Hseq; subst o. clear Hseq.
    cbn [encode_frames flat_map app] in Hp. cbn [tail_resultZ pings_of flat_map map]. rewrite app_nil_r.
    assert (Haccs : frame_accZ (server c) (negotiated c) (negb (rfin s)) f = true)
      by (rewrite Hfin; exact Haccf).
    pose proof (advance_after_skip_good c s) as (Hpres & _).
    destruct (cut_case f cut suf Henc Hsuf) as [Hcase|(Hctl & w & Ecut & Ewp2 & Ecp & Hsufpos)].
    + destruct (advance_cut_errZ k c s f cut suf Hrinv Hwff Haccs Hp Henc Hsuf Hcase) as (s1 & Hadv & Hwl1).
      rewrite Hadv in *. cbn [snd] in Hpres. cbv iota.
      destruct Hpres as (_ & _ & P3 & P4 & _).
      rewrite (base_resultZ_A Hcase). unfold nl_outcomeZ. rsimpl.
      split; [reflexivity|]. split; [reflexivity|].
      split; [congruence|]. split; [exact Hwl1|]. split; [congruence|].
      unfold msg_started. intros [Hx|(Hx1 & Hx2)]; [discriminate Hx|].
      destruct Hcase as [Hc|Hc]; [congruence|lia].
    + assert (Hop : opcode f = 1 \/ opcode f = 2).
      { destruct (acc_casesZ _ _ _ _ Haccf) as [(Hc & _)|(_ & [(Ho & _)|(_ & Hx)])];
          [congruence|exact Ho|discriminate Hx]. }
      assert (Hop0 : (opcode f =? 0) = false) by lia.
      rewrite Ecut in Hp.
      destruct (advance_cut_dataZ k c s f w suf Hrinv Hwff Haccs Hctl Hp Ewp2)
        as (s1 & Hadv & Hrinv1 & Hrem1 & Hfin1 & Hp1 & Hun1 & Hdec1 & Hwl1);
        [rewrite Hop0; cbn [encode_frames flat_map] in Hlen; change (blen []) with 0 in Hlen; lia|].
      rewrite Hadv. cbv iota.
      unfold c_TextMessage, c_BinaryMessage.
      replace ((opcode f =? 1) || (opcode f =? 2)) with true by lia. cbv iota.
      set (s1' := s1 <| cur := Some (nextid s1) |> <| nextid := S (nextid s1) |>).
      assert (Hrinv1' : rinv k s1') by (apply (rinv_same k s1); [exact Hrinv1|reflexivity ..]).
      unfold base_resultZ. rewrite Hctl.
      replace (length cut <? hlen f)%nat with false
        by (symmetry; apply Nat.ltb_ge; rewrite Ecut, app_length; unfold hlen; lia).
      cbn [orb]. unfold nl_outcomeZ. cbn [fst snd].
      split; [reflexivity|]. split; [exact Hdec1|]. split; [subst s1'; rsimpl; discriminate|].
      exists []. split.
      * right. exists w, (blen suf). split; [|split; [|reflexivity]].
        { unfold mode2. split; [exact Hrinv1'|]. split; [exact Hrem1|]. split; [exact Hsufpos|exact Hp1]. }
        rewrite Ecp, <- Hun1. reflexivity.
      * cbn [map]. rewrite app_nil_r. symmetry. exact Hwl1.
  - (* a complete frame *)
    inversion Hwf as [|g' r' Hwfg Hwfr]; subst g' r'.
    cbn [seq_accZ] in Hseq. destruct (frame_accZ (server c) (negotiated c) false g) eqn:Hacc; [|discriminate Hseq].
    unfold has_fin in Hnf. cbn [existsb] in Hnf. apply orb_false_iff in Hnf. destruct Hnf as [Hgf Hnfr].
    fold (has_fin r) in Hnfr.
    rewrite encode_frames_cons, <- app_assoc in Hp.
    rewrite encode_frames_cons, blen_app in Hlen.
    pose proof (encode_frame_length_ge2 g) as Hge2.
    assert (Hlenp : (length (pending (br s)) =
                     length (encode_frame g) + length (encode_frames r ++ cut))%nat)
      by (rewrite Hp, app_length; reflexivity).
    assert (Haccs : frame_accZ (server c) (negotiated c) (negb (rfin s)) g = true)
      by (rewrite Hfin; exact Hacc).
    unfold next_open in Hseq. cbn [tail_resultZ].
    destruct (is_control (opcode g)) eqn:Hctl.
    + destruct (advance_ctlZ k c s g (encode_frames r ++ cut) Hrinv Hch Hwfg Haccs Hctl Hp)
        as (s1 & Hadv & Hrinv1 & Hrem1 & Hfin1 & Hrlen1 & Hp1 & Hwl1).
      rewrite Hadv. cbv iota.
      destruct (acc_casesZ _ _ _ _ Hacc) as [(_ & Hop & _)|(Hc & _)]; [|congruence].
      unfold c_TextMessage, c_BinaryMessage.
      replace ((opcode g =? 1) || (opcode g =? 2)) with false by lia. cbv iota.
      rewrite pings_of_cons, map_app, app_assoc, <- Hwl1.
      apply (IH o s1 fuel); try assumption; [congruence|congruence|lia|rewrite Hp1; lia].
    + (* the first frame of a message that will stay open *)
      assert (Hfg : fin g = false) by (apply is_fin_data_false; assumption).
      rewrite Hfg in Hseq. cbn [negb] in Hseq.
      destruct (mid_of_accZ (server c) (negotiated c) r o Hseq Hnfr) as [Hmid Ho]. subst o.
      destruct (acc_casesZ _ _ _ _ Hacc) as [(Hc & _)|(_ & [(Hop & _)|(_ & Hxx)])];
        [congruence| |discriminate Hxx].
      assert (Hop0 : (opcode g =? 0) = false) by lia.
      pose proof (encode_frame_ge_plen g) as Hgp.
      destruct (advance_dataZ k c s g (encode_frames r ++ cut) Hrinv Hwfg Haccs Hctl Hp)
        as (s1 & Hadv & Hrinv1 & Hrem1 & Hfin1 & Hrlen1 & Hp1 & Hun1 & Hdec1 & Hwl1);
        [rewrite Hop0; lia|].
      rewrite Hop0 in Hrlen1.
      rewrite Hadv. cbv iota.
      unfold c_TextMessage, c_BinaryMessage.
      replace ((opcode g =? 1) || (opcode g =? 2)) with true by lia. cbv iota.
      set (s1' := s1 <| cur := Some (nextid s1) |> <| nextid := S (nextid s1) |>).
      assert (Hrinv1' : rinv k s1') by (apply (rinv_same k s1); [exact Hrinv1|reflexivity ..]).
      unfold nl_outcomeZ. cbn [fst snd].
      split; [reflexivity|]. split; [exact Hdec1|]. split; [subst s1'; rsimpl; discriminate|].
      exists (pings_of r). split.
      * left. exists (wire_payload g), r. split; [|split; [|reflexivity]].
        { unfold mode1Z. split; [exact Hrinv1'|].
          split; [change (rem s1') with (rem s1); rewrite Hrem1; symmetry; apply wire_payload_blen|].
          split; [change (rfin s1') with (rfin s1); congruence|]. split; [exact Hp1|].
          split; [exact Hwfr|]. split; [exact Hmid|]. split; [exact Haccf|].
          change (rlen s1') with (rlen s1). rewrite Hrlen1. lia. }
        rewrite <- Hun1. reflexivity.
      * change (wlog s1') with (wlog s1). rewrite Hwl1, pings_of_cons, ping1_nonctl by exact Hctl.
        reflexivity.
Qed.

Section OneCallZ.
Variables (fs2:list frame) (o:bool) (s:rst).
Hypothesis Hwf : Forall wf_frame fs2.
Hypothesis Hseq : seq_accZ (server c) (negotiated c) false fs2 = Some o.
Hypothesis Hnf : has_fin fs2 = false.
Hypothesis Haccf : frame_accZ (server c) (negotiated c) o f = true.
Hypothesis Hrinv : rinv k s.
Hypothesis Hrem : rem s = 0.
Hypothesis Hfin : rfin s = true.
Hypothesis Hp : pending (br s) = encode_frames fs2 ++ cut.
Hypothesis Hlen : blen (encode_frames fs2) + plen f < 2^63.

Let s0 : rst := s <| cur := None |> <| rlen := 0 |>.

Lemma next_loop_cut0Z :
  nl_outcomeZ o (next_loop (fuel_of s0) c s0) (tail_resultZ fs2 f (length cut))
              (wlog s ++ map WPong (pings_of fs2)).
Proof.
  assert (Hrinv0 : rinv k s0) by (apply (rinv_same k s); [exact Hrinv|reflexivity ..]).
  exact (next_loop_cutZ fs2 o s0 (fuel_of s0) Hwf Hseq Hnf Haccf Hrinv0 Hrem Hfin eq_refl Hp Hlen
           ltac:(unfold fuel_of; lia)).
Qed.

(* the failing ReadMessage *)
Lemma read_message_cutZ :
  exists s', read_message inflate c s = (cut_outZ (tail_resultZ fs2 f (length cut)) e0, s') /\
    rerror s' = Some e0 /\ wlog s' = wlog s ++ map WPong (pings_of fs2) /\ outoffuel s' = false /\
    (errcount s' <= 1)%nat.
Proof.
  pose proof next_loop_cut0Z as Hout.
  unfold read_message, next_reader. fold s0.
  destruct (tail_resultZ fs2 f (length cut)) as [[ty cz] d].
  destruct (next_loop (fuel_of s0) c s0) as [[op|] s1]; unfold nl_outcomeZ in Hout; cbn [fst snd] in Hout.
  - destruct Hout as (Hty & Hdec & Hcur & pg & Hst & Hwl).
    pose proof (cutstZ_rinv k c f cut s1 d pg Hst) as (_ & _ & _ & _ & _ & _ & _ & Hec1).
    cbv iota. rewrite Hdec. subst op. unfold cut_outZ. destruct cz; cbv iota.
    + (* compressed: the raw pull fails, [inflate] is not called *)
      destruct (read_raw_cutstZ k c Hch f cut suf Hwff Henc Hsuf s1 _ pg Hst) as (s2 & Hra & H1 & H2 & H3).
      rewrite Hra.
      exists s2. split; [reflexivity|]. split; [exact H1|]. split; [congruence|]. split; [exact H3|].
      rewrite read_raw_gen in Hra. rewrite (read_gen_errcount _ _ _ _ _ _ _ _ _ _ Hra), Hec1. lia.
    + destruct (read_all_cutstZ k c Hch f cut suf Hwff Henc Hsuf s1 _ pg Hst) as (s2 & Hra & H1 & H2 & H3).
      rewrite Hra.
      exists s2. split; [reflexivity|]. split; [exact H1|]. split; [congruence|]. split; [exact H3|].
      rewrite read_all_gen in Hra. rewrite (read_gen_errcount _ _ _ _ _ _ _ _ _ _ Hra), Hec1. lia.
  - destruct Hout as (Hm & H1 & H2 & H3 & H4 & _). inversion Hm; subst ty cz d.
    cbv iota zeta. rsimpl. rewrite H2. cbn [Nat.leb]. rewrite H1. unfold cut_outZ.
    eexists. split; [reflexivity|]. rsimpl. auto.
Qed.

(* NextReader on the partial message: it succeeds, and leaves the reader in a "cut" state *)
Lemma next_reader_cutZ : msg_started f cut o ->
  exists s' pg, next_reader c s = (RNext (fst (fst (tail_resultZ fs2 f (length cut)))) None, s') /\
    cur s' <> None /\ rdecomp s' = snd (fst (tail_resultZ fs2 f (length cut))) /\
    cutstZ k c f cut s' (snd (tail_resultZ fs2 f (length cut))) pg /\
    wlog s' ++ map WPong pg = wlog s ++ map WPong (pings_of fs2).
Proof.
  intros Hst0. pose proof next_loop_cut0Z as Hout.
  unfold next_reader. fold s0.
  destruct (next_loop (fuel_of s0) c s0) as [[op|] s1]; unfold nl_outcomeZ in Hout.
  - destruct Hout as (Hty & Hdec & Hcur & pg & Hst & Hwl). subst op.
    exists s1, pg. split; [reflexivity|]. split; [exact Hcur|]. split; [exact Hdec|].
    split; [exact Hst|]. symmetry. exact Hwl.
  - destruct Hout as (_ & _ & _ & _ & _ & Hno). contradiction.
Qed.
End OneCallZ.
End LastReadZ.

(* ---------- the complete messages first ---------- *)
Lemma cut_prefix_runZ :
  forall inflate c b fs f cut suf o,
    custom_handlers c = false -> binv b -> (125 <= bsize b)%nat ->
    Forall wf_frame fs -> seq_accZ (server c) (negotiated c) false fs = Some o ->
    encode_frame f = cut ++ suf ->
    (cut <> [] \/ o = true) ->
    pending b = encode_frames fs ++ cut ->
    blen (encode_frames fs) + blen (encode_frame f) < 2^63 ->
    exists s1,
      run_ops inflate c (init_rst b) (repeat OReadMessage (length (data_msgs (events_of fs)))) =
        (map (out_ofZ inflate) (data_msgs (events_of fs)), s1) /\
      rinv (fault (src b)) s1 /\ rem s1 = 0 /\ rfin s1 = true /\
      pending (br s1) = encode_frames (open_part fs) ++ cut /\
      wlog s1 = map WPong (pings_of (closed_part fs)) /\
      Forall wf_frame (open_part fs) /\
      seq_accZ (server c) (negotiated c) false (open_part fs) = Some o /\
      blen (encode_frames (open_part fs)) + plen f < 2^63.
Proof.
  intros inflate c b fs f cut suf o Hch Hinv Hbs Hwf Hseq Henc Hreal Hp Hlen.
  destruct (closed_part_closedZ (server c) (negotiated c) fs o Hseq) as [Hc Ho].
  destruct (closed_part_body fs) as [Htr Hbody].
  set (fs1 := closed_part fs) in *. set (fs2 := open_part fs) in *.
  assert (Hfs : fs1 ++ fs2 = fs) by apply parts_app.
  assert (Hwf1 : Forall wf_frame fs1) by (rewrite <- Hfs in Hwf; apply Forall_app in Hwf; apply Hwf).
  assert (Hwf2 : Forall wf_frame fs2) by (rewrite <- Hfs in Hwf; apply Forall_app in Hwf; apply Hwf).
  pose proof (encode_frame_ge_plen f) as Hfp.
  assert (Hl12 : blen (encode_frames fs) = blen (encode_frames fs1) + blen (encode_frames fs2))
    by (rewrite <- Hfs, encode_frames_app, blen_app; reflexivity).
  assert (Hconf : conformant_framesZ c fs1).
  { split; [exact Hwf1|]. split; [apply seq_okZ_accZ; exact Hc|lia]. }
  set (extra := encode_frames fs2 ++ cut).
  assert (Hne : extra <> []).
  { subst extra. intros Hnil. apply app_eq_nil in Hnil. destruct Hnil as [H2 Hcut].
    apply encode_frames_nil_inv in H2. destruct Hreal as [Hr|Hr]; [contradiction|].
    subst o. rewrite H2 in Ho. cbn [seq_accZ] in Ho. discriminate Ho. }
  assert (Hx : extra <> [] \/ fault (src b) = EEOF) by (left; exact Hne).
  destruct (run_msgsZ inflate (fault (src b)) c extra Hch Hx (length fs1) fs1 (le_n _)
              (init_rst b) (rinv_init b Hinv Hbs) eq_refl eq_refl) as (s1 & Hrun & Hend & Hrem & Hfin & Hpend & Hwl);
    [change (br (init_rst b)) with b; subst extra; rewrite app_assoc, <- encode_frames_app, Hfs; exact Hp
    |exact Hconf|].
  rewrite Htr in Hpend. cbn [encode_frames flat_map app] in Hpend. rewrite Hbody in Hwl.
  assert (Hrinv1 : rinv (fault (src b)) s1) by (apply rinv_end_rinv; [exact Hend|rewrite Hpend; exact Hne]).
  assert (Hms : msgs fs1 = data_msgs (events_of fs)) by (apply (msgs_partsZ (server c) (negotiated c) fs o Hseq)).
  rewrite Hms in Hrun.
  exists s1. split; [exact Hrun|]. split; [exact Hrinv1|]. split; [exact Hrem|]. split; [exact Hfin|].
  split; [exact Hpend|]. split; [rewrite Hwl; reflexivity|]. split; [exact Hwf2|]. split; [exact Ho|lia].
Qed.

(* ------------------------------------------------------------------------------------------ *)
(* Theorem A (Z).  The transport stream is [encode_frames fs ++ cut]: [fs] are frames accepted *)
(* by a reader with configuration [c] (RSV1 allowed iff [negotiated c]; a fragmented message   *)
(* may still be open at the end, [o = true]) and [cut] is a STRICT prefix, possibly empty, of  *)
(* the encoding of a frame [f] that would have been accepted next.  So the stream stops inside *)
(* a header, inside the payload of the first / a continuation frame, inside an interleaved     *)
(* control frame, or exactly between two fragments ([cut = []], [o = true]).  The fault kind,   *)
(* whether it comes glued to the last bytes, the chunking and the buffer size are arbitrary.   *)
(* Then S (number of complete messages) ReadMessage calls return: every complete message       *)
(* ([out_ofZ inflate]: payload, or inflate of the payload for a compressed one), then          *)
(* [cut_outZ]: type, the received bytes (uncompressed) or NO bytes (compressed) and the mapped *)
(* transport error -- which is never nil, never io.EOF, never the flate error.                 *)
(* ------------------------------------------------------------------------------------------ *)
Theorem cut_stream_read_messagesZ_count :
  forall inflate c b fs f cut suf o,
    custom_handlers c = false -> binv b -> (125 <= bsize b)%nat ->
    Forall wf_frame fs -> seq_accZ (server c) (negotiated c) false fs = Some o ->
    wf_frame f -> frame_accZ (server c) (negotiated c) o f = true ->
    encode_frame f = cut ++ suf -> suf <> [] ->
    (cut <> [] \/ o = true) ->
    pending b = encode_frames fs ++ cut ->
    blen (encode_frames fs) + blen (encode_frame f) < 2^63 ->
    let ms := data_msgs (events_of fs) in
    let e := of_berror (BErr (fault (src b))) in
    exists s',
      run_ops inflate c (init_rst b) (repeat OReadMessage (S (length ms))) =
        (map (out_ofZ inflate) ms ++ [cut_outZ (partial_ofZ fs f (length cut)) e], s') /\
      rerror s' = Some e /\ outoffuel s' = false /\ wlog s' = map WPong (pings_of fs) /\
      (errcount s' <= 1)%nat.
Proof.
  intros inflate c b fs f cut suf o Hch Hinv Hbs Hwf Hseq Hwff Haccf Henc Hsuf Hreal Hp Hlen ms e.
  destruct (cut_prefix_runZ inflate c b fs f cut suf o Hch Hinv Hbs Hwf Hseq Henc Hreal Hp Hlen)
    as (s1 & Hrun & Hrinv1 & Hrem & Hfin & Hpend & Hwl & Hwf2 & Ho & Hlen2).
  destruct (read_message_cutZ inflate (fault (src b)) c Hch f cut suf Hwff Henc Hsuf (open_part fs) o s1
              Hwf2 Ho (open_part_nofin fs) Haccf Hrinv1 Hrem Hfin Hpend Hlen2)
    as (s2 & Hrm & Herr2 & Hwl2 & Hoof2 & Hec2).
  fold ms in Hrun.
  cbn [repeat]. rewrite repeat_cons.
  rewrite (run_ops_app inflate c _ _ _ _ [OReadMessage] Hrun (out_ofZ_not_panic inflate _)).
  cbn [run_ops]. unfold rstep. rewrite Hrm.
  rewrite (partial_ofZ_parts (server c) (negotiated c) fs o f (length cut) Hseq).
  assert (Hnp : forall (X:Type) (u v:X) m, match cut_outZ m e with RPanic => u | _ => v end = v).
  { intros X u v [[ty cz] d]. reflexivity. }
  rewrite Hnp. cbn [fst snd].
  eexists. split; [reflexivity|]. rsimpl.
  split; [exact Herr2|]. split; [exact Hoof2|].
  split; [|exact Hec2].
  rewrite Hwl2, Hwl. rewrite <- map_app, <- pings_of_app, parts_app. reflexivity.
Qed.

Theorem cut_stream_read_messagesZ :
  forall inflate c b fs f cut suf o,
    custom_handlers c = false -> binv b -> (125 <= bsize b)%nat ->
    Forall wf_frame fs -> seq_accZ (server c) (negotiated c) false fs = Some o ->
    wf_frame f -> frame_accZ (server c) (negotiated c) o f = true ->
    encode_frame f = cut ++ suf -> suf <> [] ->
    (cut <> [] \/ o = true) ->
    pending b = encode_frames fs ++ cut ->
    blen (encode_frames fs) + blen (encode_frame f) < 2^63 ->
    let ms := data_msgs (events_of fs) in
    let e := of_berror (BErr (fault (src b))) in
    exists s',
      run_ops inflate c (init_rst b) (repeat OReadMessage (S (length ms))) =
        (map (out_ofZ inflate) ms ++ [cut_outZ (partial_ofZ fs f (length cut)) e], s') /\
      rerror s' = Some e /\ outoffuel s' = false /\ wlog s' = map WPong (pings_of fs).
Proof.
  intros inflate c b fs f cut suf o Hch Hinv Hbs Hwf Hseq Hwff Haccf Henc Hsuf Hreal Hp Hlen ms e.
  destruct (cut_stream_read_messagesZ_count inflate c b fs f cut suf o Hch Hinv Hbs Hwf Hseq Hwff Haccf
              Henc Hsuf Hreal Hp Hlen) as (s' & H1 & H2 & H3 & H4 & _).
  exists s'. auto.
Qed.

(* ---------- reading the statement ---------- *)
(* a compressed partial message: no bytes, the transport error *)
Lemma cut_outZ_compressed ty d e : cut_outZ (ty, true, d) e = RMsg ty [] (Some e).
Proof. reflexivity. Qed.
(* an uncompressed one: the bytes received, the transport error *)
Lemma cut_outZ_uncompressed ty d e : cut_outZ (ty, false, d) e = RMsg ty d (Some e).
Proof. reflexivity. Qed.

(* the failing call never reports success and never reports io.EOF or a flate error *)
Lemma cut_outZ_is_error m k : exists ty d,
  cut_outZ m (of_berror (BErr k)) = RMsg ty d (Some (of_berror (BErr k))) /\
  of_berror (BErr k) <> RIoEOF /\ of_berror (BErr k) <> RFlate /\
  (snd (fst m) = true -> d = []).
Proof.
  destruct m as [[ty cz] d]. exists ty, (if cz then [] else d). split; [reflexivity|].
  split; [apply of_berror_noeof|]. split; [destruct k; discriminate|].
  cbn [fst snd]. intros ->. reflexivity.
Qed.

(* the RSV1 flag of the partial message is the flag of the FIRST frame of that message *)
Lemma partial_ofZ_open fs f n ty cz d :
  snd (events_from None fs) = Some (ty, cz, d) -> partial_ofZ fs f n = (ty, cz, d ++ cut_payload f n).
Proof. intros H. unfold partial_ofZ. rewrite H. reflexivity. Qed.

Lemma partial_ofZ_first fs f n :
  snd (events_from None fs) = None -> is_control (opcode f) = false -> (hlen f <= n)%nat ->
  partial_ofZ fs f n = (opcode f, rsv f =? 4, firstn (n - hlen f) (payload f)).
Proof.
  intros H Hc Hn. unfold partial_ofZ, base_resultZ, cut_payload. rewrite H, Hc.
  replace (n <? hlen f)%nat with false by (symmetry; apply Nat.ltb_ge; exact Hn). reflexivity.
Qed.

Lemma partial_ofZ_none fs f n :
  snd (events_from None fs) = None -> (is_control (opcode f) = true \/ (n < hlen f)%nat) ->
  partial_ofZ fs f n = (0, false, []).
Proof.
  intros H Hc. unfold partial_ofZ, base_resultZ. rewrite H.
  assert (Hb : is_control (opcode f) || (n <? hlen f)%nat = true).
  { destruct Hc as [-> | Hc]; [reflexivity|]. apply orb_true_iff. right. apply Nat.ltb_lt. exact Hc. }
  rewrite Hb. reflexivity.
Qed.

Lemma open_flag_eventsZ srv ng fs o : seq_accZ srv ng false fs = Some o ->
  o = is_some (snd (events_from None fs)).
Proof. intros H. symmetry. exact (ev_openZ srv ng fs None false o H eq_refl). Qed.

(* ------------------------------------------------------------------------------------------ *)
(* Theorem C (Z).  After the failing read every further operation fails and delivers nothing.  *)
(* ------------------------------------------------------------------------------------------ *)
Lemma cut_outZ_not_panic m e : cut_outZ m e <> RPanic.
Proof. destruct m as [[ty cz] d]. discriminate. Qed.

Theorem cut_stream_errors_stickyZ :
  forall inflate c b fs f cut suf o ops,
    custom_handlers c = false -> binv b -> (125 <= bsize b)%nat ->
    Forall wf_frame fs -> seq_accZ (server c) (negotiated c) false fs = Some o ->
    wf_frame f -> frame_accZ (server c) (negotiated c) o f = true ->
    encode_frame f = cut ++ suf -> suf <> [] ->
    (cut <> [] \/ o = true) ->
    pending b = encode_frames fs ++ cut ->
    blen (encode_frames fs) + blen (encode_frame f) < 2^63 ->
    let ms := data_msgs (events_of fs) in
    let e := of_berror (BErr (fault (src b))) in
    exists rs s',
      run_ops inflate c (init_rst b) (repeat OReadMessage (S (length ms)) ++ ops) =
        (map (out_ofZ inflate) ms ++ cut_outZ (partial_ofZ fs f (length cut)) e :: rs, s') /\
      Forall is_failure rs /\
      rerror s' = Some e /\ outoffuel s' = false /\ wlog s' = map WPong (pings_of fs).
Proof.
  intros inflate c b fs f cut suf o ops Hch Hinv Hbs Hwf Hseq Hwff Haccf Henc Hsuf Hreal Hp Hlen ms e.
  destruct (cut_stream_read_messagesZ inflate c b fs f cut suf o Hch Hinv Hbs Hwf Hseq Hwff Haccf Henc Hsuf
              Hreal Hp Hlen) as (s1 & Hrun & Herr & Hoof & Hwl).
  fold ms e in Hrun, Herr.
  destruct (errors_are_permanent inflate c ops s1 e Herr) as (rs & s2 & Hrun2 & Hfr & Hfail).
  assert (Hnp : ~ In RPanic (map (out_ofZ inflate) ms ++ [cut_outZ (partial_ofZ fs f (length cut)) e])).
  { intros Hin. apply in_app_or in Hin. destruct Hin as [Hin|[Hin|[]]];
      [exact (out_ofZ_not_panic inflate ms Hin)|exact (cut_outZ_not_panic _ _ Hin)]. }
  rewrite (run_ops_app inflate c _ _ _ _ ops Hrun Hnp), Hrun2. cbn [fst snd].
  exists rs, s2. split; [rewrite <- app_assoc; reflexivity|]. split; [exact Hfail|].
  destruct Hfr as (_ & _ & F3 & F4 & _ & F6). split; [congruence|]. split; congruence.
Qed.

(* ---------- "the same error": later ReadMessage calls ---------- *)
(* ReadMessage on a reader with a remembered error returns that error (until the documented
   panic at the 1000th failing call) *)
Lemma read_message_err inflate c s e : rerror s = Some e -> (S (errcount s) < 1000)%nat ->
  read_message inflate c s =
    (RMsg 0 [] (Some e), s <| cur := None |> <| rlen := 0 |> <| errcount := S (errcount s) |>).
Proof.
  intros He Hec. unfold read_message, next_reader.
  set (s0 := s <| cur := None |> <| rlen := 0 |>).
  assert (Hnl : next_loop (fuel_of s0) c s0 = (None, s0)).
  { unfold fuel_of. cbn [next_loop].
    replace (rerror s0) with (rerror s) by reflexivity. rewrite He. reflexivity. }
  rewrite Hnl. cbv iota zeta. rsimpl.
  replace (errcount s0) with (errcount s) by reflexivity.
  replace (rerror s0) with (rerror s) by reflexivity.
  replace (Nat.leb 1000 (S (errcount s))) with false by (symmetry; apply Nat.leb_gt; exact Hec).
  rewrite He. reflexivity.
Qed.

Lemma read_messages_same_error inflate c e : forall n s,
  rerror s = Some e -> (errcount s + n < 1000)%nat ->
  exists s', run_ops inflate c s (repeat OReadMessage n) = (repeat (RMsg 0 [] (Some e)) n, s') /\
    frozen s s' /\ errcount s' = (errcount s + n)%nat.
Proof.
  induction n as [|n IH]; intros s He Hec.
  - exists s. cbn [repeat run_ops]. split; [reflexivity|]. split; [apply frozen_refl|lia].
  - cbn [repeat run_ops]. unfold rstep. rewrite (read_message_err inflate c s e He) by lia.
    set (s1 := s <| cur := None |> <| rlen := 0 |> <| errcount := S (errcount s) |>
                 <| opidx := S (opidx (s <| cur := None |> <| rlen := 0 |> <| errcount := S (errcount s) |>)) |>).
    destruct (IH s1) as (s' & Hrun & Hfr & Hec');
      [exact He|change (errcount s1) with (S (errcount s)); lia|].
    rewrite Hrun. exists s'. split; [reflexivity|].
    split; [eapply frozen_trans; [|exact Hfr]; repeat split|].
    rewrite Hec'. change (errcount s1) with (S (errcount s)). lia.
Qed.

(* every later ReadMessage (up to 998 of them; the 1000th failing call panics by design) returns
   exactly the error of the failing call and no bytes; nothing is written, nothing consumed *)
Theorem cut_stream_same_errorZ :
  forall inflate c b fs f cut suf o n,
    custom_handlers c = false -> binv b -> (125 <= bsize b)%nat ->
    Forall wf_frame fs -> seq_accZ (server c) (negotiated c) false fs = Some o ->
    wf_frame f -> frame_accZ (server c) (negotiated c) o f = true ->
    encode_frame f = cut ++ suf -> suf <> [] ->
    (cut <> [] \/ o = true) ->
    pending b = encode_frames fs ++ cut ->
    blen (encode_frames fs) + blen (encode_frame f) < 2^63 ->
    (n < 999)%nat ->
    let ms := data_msgs (events_of fs) in
    let e := of_berror (BErr (fault (src b))) in
    exists s',
      run_ops inflate c (init_rst b) (repeat OReadMessage (S (length ms)) ++ repeat OReadMessage n) =
        (map (out_ofZ inflate) ms ++ cut_outZ (partial_ofZ fs f (length cut)) e ::
         repeat (RMsg 0 [] (Some e)) n, s') /\
      rerror s' = Some e /\ outoffuel s' = false /\ wlog s' = map WPong (pings_of fs).
Proof.
  intros inflate c b fs f cut suf o n Hch Hinv Hbs Hwf Hseq Hwff Haccf Henc Hsuf Hreal Hp Hlen Hn ms e.
  destruct (cut_stream_read_messagesZ_count inflate c b fs f cut suf o Hch Hinv Hbs Hwf Hseq Hwff Haccf
              Henc Hsuf Hreal Hp Hlen) as (s1 & Hrun & Herr & Hoof & Hwl & Hec).
  fold ms e in Hrun, Herr.
  destruct (read_messages_same_error inflate c e n s1 Herr ltac:(lia)) as (s2 & Hrun2 & Hfr & _).
  assert (Hnp : ~ In RPanic (map (out_ofZ inflate) ms ++ [cut_outZ (partial_ofZ fs f (length cut)) e])).
  { intros Hin. apply in_app_or in Hin. destruct Hin as [Hin|[Hin|[]]];
      [exact (out_ofZ_not_panic inflate ms Hin)|exact (cut_outZ_not_panic _ _ Hin)]. }
  rewrite (run_ops_app inflate c _ _ _ _ _ Hrun Hnp), Hrun2. cbn [fst snd].
  exists s2. split; [rewrite <- app_assoc; reflexivity|].
  destruct Hfr as (_ & _ & F3 & F4 & _ & F6). split; [congruence|]. split; congruence.
Qed.

(* ------------------------------------------------------------------------------------------ *)
(* Theorem B' (Z).  NextReader + Read on the partial message, at the level the model has:      *)
(* [ORead] is messageReader.Read, i.e. for a compressed message the RAW (still deflated) bytes *)
(* that the flate reader pulls -- the model has no separate operation for Read on the flate    *)
(* reader that NextReader returns for a compressed message (decompression is modelled only     *)
(* inside [read_message]).  Statement: NextReader returns the type of the partial message and  *)
(* the reader's decompress flag is the RSV1 flag of its first frame; every Read then returns   *)
(* raw bytes of that message in order, with nil or with the transport error; never io.EOF.     *)
(* ------------------------------------------------------------------------------------------ *)
Theorem cut_stream_reader_apiZ :
  forall inflate c b fs f cut suf o l,
    custom_handlers c = false -> binv b -> (125 <= bsize b)%nat ->
    Forall wf_frame fs -> seq_accZ (server c) (negotiated c) false fs = Some o ->
    wf_frame f -> frame_accZ (server c) (negotiated c) o f = true ->
    encode_frame f = cut ++ suf -> suf <> [] ->
    (cut <> [] \/ o = true) ->
    pending b = encode_frames fs ++ cut ->
    blen (encode_frames fs) + blen (encode_frame f) < 2^63 ->
    msg_started f cut o -> Forall (fun m => (0 < m)%nat) l ->
    let ms := data_msgs (events_of fs) in
    let ty := fst (fst (partial_ofZ fs f (length cut))) in
    let d := snd (partial_ofZ fs f (length cut)) in
    exists outs s',
      run_ops inflate c (init_rst b) (repeat OReadMessage (length ms) ++ ONext :: map ORead l) =
        (map (out_ofZ inflate) ms ++ RNext ty None :: outs, s') /\
      Forall (read_out_ok (fault (src b))) outs /\
      (exists rest, d = flat_map rdata outs ++ rest) /\
      outoffuel s' = false.
Proof.
  intros inflate c b fs f cut suf o l Hch Hinv Hbs Hwf Hseq Hwff Haccf Henc Hsuf Hreal Hp Hlen Hst Hl ms ty d.
  destruct (cut_prefix_runZ inflate c b fs f cut suf o Hch Hinv Hbs Hwf Hseq Henc Hreal Hp Hlen)
    as (s1 & Hrun & Hrinv1 & Hrem & Hfin & Hpend & Hwl & Hwf2 & Ho & Hlen2).
  destruct (next_reader_cutZ inflate (fault (src b)) c Hch f cut suf Hwff Henc Hsuf (open_part fs) o s1
              Hwf2 Ho (open_part_nofin fs) Haccf Hrinv1 Hrem Hfin Hpend Hlen2 Hst)
    as (s2 & pg & Hnr & Hcur & _ & Hcst & _).
  fold ms in Hrun.
  rewrite (run_ops_app inflate c _ _ _ _ (ONext :: map ORead l) Hrun (out_ofZ_not_panic inflate _)).
  cbn [run_ops]. unfold rstep. rewrite Hnr.
  destruct (reads_on_cut_messageZ (fault (src b)) c Hch f cut suf Hwff Henc Hsuf inflate l
              (s2 <| opidx := S (opidx s2) |>) _ pg (cutstZ_opidx _ _ _ _ _ _ _ _ Hcst))
    as (outs & s3 & Hreads & Hok & Hpre & Hoof);
    [change (cur (s2 <| opidx := S (opidx s2) |>)) with (cur s2); exact Hcur|exact Hl|].
  rewrite Hreads. cbn [fst snd].
  subst ty d. rewrite (partial_ofZ_parts (server c) (negotiated c) fs o f (length cut) Hseq).
  exists outs, s3. split; [reflexivity|]. split; [exact Hok|]. split; [exact Hpre|exact Hoof].
Qed.

(* ------------------------------------------------------------------------------------------ *)
(* Instances: the theorems of CutP.v (all frames with RSV = 0, whatever [negotiated c]) are    *)
(* special cases of the theorems above.                                                        *)
(* ------------------------------------------------------------------------------------------ *)
Lemma ev_flag_false srv : forall fs acc o o', seq_acc srv o fs = Some o' ->
  (forall ty cz d, acc = Some (ty, cz, d) -> cz = false) ->
  forall ty cz d, snd (events_from acc fs) = Some (ty, cz, d) -> cz = false.
Proof.
  induction fs as [|f r IH]; intros acc o o' H Ha ty cz d He.
  - cbn [events_from snd] in He. eapply Ha; exact He.
  - cbn [seq_acc] in H. destruct (frame_acc srv o f) eqn:Hacc; [|discriminate].
    destruct (frame_acc_facts _ _ _ Hacc) as (Hr & _).
    destruct (is_control (opcode f)) eqn:Hc; [|destruct (fin f) eqn:Hf].
    + rewrite events_from_ctl in He by exact Hc. cbn [snd] in He. eapply IH; eassumption.
    + rewrite events_from_final in He by assumption. cbn [snd] in He.
      eapply (IH None); [exact H|intros ? ? ? Hx; discriminate Hx|exact He].
    + rewrite events_from_more in He by assumption.
      eapply (IH (Some (acc_step acc f))); [exact H| |exact He].
      intros ty1 cz1 d1 Hx. destruct acc as [[[ty0 c0] d0]|]; cbn [acc_step] in Hx; inversion Hx; subst.
      * eapply Ha; reflexivity.
      * rewrite Hr. reflexivity.
Qed.

Lemma partial_ofZ_flag_false srv fs o f n :
  seq_acc srv false fs = Some o -> frame_acc srv o f = true -> snd (fst (partial_ofZ fs f n)) = false.
Proof.
  intros Hs Ha. unfold partial_ofZ.
  destruct (snd (events_from None fs)) as [[[ty cz] d]|] eqn:E.
  - cbn [fst snd]. eapply (ev_flag_false srv fs None); [exact Hs|intros ? ? ? Hx; discriminate Hx|exact E].
  - unfold base_resultZ. destruct (is_control (opcode f) || (n <? hlen f)%nat); [reflexivity|].
    cbn [fst snd]. destruct (frame_acc_facts _ _ _ Ha) as (Hr & _). rewrite Hr. reflexivity.
Qed.

Lemma cut_outZ_plain m e : snd (fst m) = false -> cut_outZ m e = RMsg (fst (fst m)) (snd m) (Some e).
Proof. destruct m as [[ty cz] d]. cbn [fst snd]. intros ->. reflexivity. Qed.

Lemma cut_outZ_old srv fs o f n e :
  seq_acc srv false fs = Some o -> frame_acc srv o f = true ->
  cut_outZ (partial_ofZ fs f n) e = RMsg (fst (partial_of fs f n)) (snd (partial_of fs f n)) (Some e).
Proof.
  intros Hs Ha. rewrite (cut_outZ_plain _ e (partial_ofZ_flag_false srv fs o f n Hs Ha)).
  rewrite partial_ofZ_partial. reflexivity.
Qed.

Lemma seq_acc_msgs_uncompressed srv fs o : seq_acc srv false fs = Some o ->
  Forall (fun m => snd (fst m) = false) (data_msgs (events_of fs)).
Proof.
  intros H. destruct (closed_part_closed srv fs o H) as [Hc _].
  change (data_msgs (events_of fs)) with (msgs fs). rewrite <- (msgs_parts srv fs o H).
  apply (msgs_uncompressed srv (length (closed_part fs)) (closed_part fs) (le_n _)).
  apply seq_ok_acc. exact Hc.
Qed.

Theorem cut_stream_read_messages_from_Z :
  forall inflate c b fs f cut suf o,
    custom_handlers c = false -> binv b -> (125 <= bsize b)%nat ->
    Forall wf_frame fs -> seq_acc (server c) false fs = Some o ->
    wf_frame f -> frame_acc (server c) o f = true ->
    encode_frame f = cut ++ suf -> suf <> [] ->
    (cut <> [] \/ o = true) ->
    pending b = encode_frames fs ++ cut ->
    blen (encode_frames fs) + blen (encode_frame f) < 2^63 ->
    let ms := data_msgs (events_of fs) in
    let e := of_berror (BErr (fault (src b))) in
    let ty := fst (partial_of fs f (length cut)) in
    let d := snd (partial_of fs f (length cut)) in
    exists s',
      run_ops inflate c (init_rst b) (repeat OReadMessage (S (length ms))) =
        (map out_of ms ++ [RMsg ty d (Some e)], s') /\
      rerror s' = Some e /\ outoffuel s' = false /\ wlog s' = map WPong (pings_of fs).
Proof.
  intros inflate c b fs f cut suf o Hch Hinv Hbs Hwf Hseq Hwff Haccf Henc Hsuf Hreal Hp Hlen ms e ty d.
  destruct (cut_stream_read_messagesZ inflate c b fs f cut suf o Hch Hinv Hbs Hwf
              (seq_acc_accZ _ (negotiated c) _ _ _ Hseq) Hwff (frame_acc_accZ _ (negotiated c) _ _ Haccf)
              Henc Hsuf Hreal Hp Hlen) as (s' & Hrun & H).
  exists s'. split; [|exact H].
  rewrite (map_out_ofZ_uncompressed inflate _ (seq_acc_msgs_uncompressed (server c) fs o Hseq)) in Hrun.
  rewrite (cut_outZ_old (server c) fs o f (length cut) _ Hseq Haccf) in Hrun. exact Hrun.
Qed.

Theorem cut_stream_errors_sticky_from_Z :
  forall inflate c b fs f cut suf o ops,
    custom_handlers c = false -> binv b -> (125 <= bsize b)%nat ->
    Forall wf_frame fs -> seq_acc (server c) false fs = Some o ->
    wf_frame f -> frame_acc (server c) o f = true ->
    encode_frame f = cut ++ suf -> suf <> [] ->
    (cut <> [] \/ o = true) ->
    pending b = encode_frames fs ++ cut ->
    blen (encode_frames fs) + blen (encode_frame f) < 2^63 ->
    let ms := data_msgs (events_of fs) in
    let e := of_berror (BErr (fault (src b))) in
    let ty := fst (partial_of fs f (length cut)) in
    let d := snd (partial_of fs f (length cut)) in
    exists rs s',
      run_ops inflate c (init_rst b) (repeat OReadMessage (S (length ms)) ++ ops) =
        (map out_of ms ++ RMsg ty d (Some e) :: rs, s') /\
      Forall is_failure rs /\
      rerror s' = Some e /\ outoffuel s' = false /\ wlog s' = map WPong (pings_of fs).
Proof.
  intros inflate c b fs f cut suf o ops Hch Hinv Hbs Hwf Hseq Hwff Haccf Henc Hsuf Hreal Hp Hlen ms e ty d.
  destruct (cut_stream_errors_stickyZ inflate c b fs f cut suf o ops Hch Hinv Hbs Hwf
              (seq_acc_accZ _ (negotiated c) _ _ _ Hseq) Hwff (frame_acc_accZ _ (negotiated c) _ _ Haccf)
              Henc Hsuf Hreal Hp Hlen) as (rs & s' & Hrun & H).
  exists rs, s'. split; [|exact H].
  rewrite (map_out_ofZ_uncompressed inflate _ (seq_acc_msgs_uncompressed (server c) fs o Hseq)) in Hrun.
  rewrite (cut_outZ_old (server c) fs o f (length cut) _ Hseq Haccf) in Hrun. exact Hrun.
Qed.

Theorem cut_stream_reader_api_from_Z :
  forall inflate c b fs f cut suf o l,
    custom_handlers c = false -> binv b -> (125 <= bsize b)%nat ->
    Forall wf_frame fs -> seq_acc (server c) false fs = Some o ->
    wf_frame f -> frame_acc (server c) o f = true ->
    encode_frame f = cut ++ suf -> suf <> [] ->
    (cut <> [] \/ o = true) ->
    pending b = encode_frames fs ++ cut ->
    blen (encode_frames fs) + blen (encode_frame f) < 2^63 ->
    msg_started f cut o -> Forall (fun m => (0 < m)%nat) l ->
    let ms := data_msgs (events_of fs) in
    let ty := fst (partial_of fs f (length cut)) in
    let d := snd (partial_of fs f (length cut)) in
    exists outs s',
      run_ops inflate c (init_rst b) (repeat OReadMessage (length ms) ++ ONext :: map ORead l) =
        (map out_of ms ++ RNext ty None :: outs, s') /\
      Forall (read_out_ok (fault (src b))) outs /\
      (exists rest, d = flat_map rdata outs ++ rest) /\
      outoffuel s' = false.
Proof.
  intros inflate c b fs f cut suf o l Hch Hinv Hbs Hwf Hseq Hwff Haccf Henc Hsuf Hreal Hp Hlen Hst Hl ms ty d.
  destruct (cut_stream_reader_apiZ inflate c b fs f cut suf o l Hch Hinv Hbs Hwf
              (seq_acc_accZ _ (negotiated c) _ _ _ Hseq) Hwff (frame_acc_accZ _ (negotiated c) _ _ Haccf)
              Henc Hsuf Hreal Hp Hlen Hst Hl) as (outs & s' & Hrun & H).
  exists outs, s'. split; [|subst d; rewrite partial_ofZ_partial; exact H].
  rewrite (map_out_ofZ_uncompressed inflate _ (seq_acc_msgs_uncompressed (server c) fs o Hseq)) in Hrun.
  subst ty. rewrite partial_ofZ_partial. exact Hrun.
Qed.

(* ------------------------------------------------------------------------------------------ *)
(* Theorem B (Z).  For EVERY state, transport, configuration (no conformance hypothesis at all):*)
(* the drivers above a message reader -- io.ReadAll for an uncompressed message, the flate      *)
(* reader's pull of the raw bytes for a compressed one -- finish WITHOUT an error only when the *)
(* final frame of the message has been consumed completely.  Hence [read_message] hands bytes   *)
(* to [inflate] only for a completely received message, and returns a nil error only then.      *)
(* (The messageReader-level statement [read_loop_eof_only_at_end] of CutP.v is already general.)*)
(* ------------------------------------------------------------------------------------------ *)
Lemma read_loop_nil_rerror : forall fuel c m s d s',
  rerror s = None -> read_loop fuel c m s = (d, None, s') -> rerror s' = None.
Proof.
  induction fuel as [|fu IH]; intros c m s d s' He H.
  - cbn [read_loop] in H. rewrite He in H. inversion H; subst. exact He.
  - cbn [read_loop] in H. rewrite He in H.
    destruct (0 <? rem s) eqn:Er.
    + cbv zeta in H.
      destruct (br_read (N.to_nat (N.min (N.of_nat m) (rem s))) (br s)) as [[d0 e0] b].
      destruct e0 as [k0|]; inversion H; subst. reflexivity.
    + destruct (rfin s); [discriminate H|].
      rewrite advance_frame_rem0 in H by lia.
      pose proof (advance_after_skip_good c s) as (Hp & _).
      destruct (advance_after_skip c s) as [a s1]. cbn [snd] in Hp. destruct Hp as (_ & Hre & _).
      destruct a as [e1|op]; [|destruct ((op =? c_TextMessage) || (op =? c_BinaryMessage))].
      * rewrite (read_loop_err_val fu c m _ e1) in H by reflexivity. discriminate H.
      * rewrite (read_loop_err_val fu c m _ RInternal) in H by reflexivity. discriminate H.
      * apply (IH c m s1 d s'); [congruence|exact H].
Qed.

Lemma read_gen_nil_only_at_end {P:Type} (psize : P -> nat) pnext c : forall fuel (p:P) acc s d s',
  rerror s = None -> read_gen psize pnext fuel c p acc s = (d, None, s') -> outoffuel s' = false ->
  rfin s' = true /\ rem s' = 0.
Proof.
  induction fuel as [|fu IH]; intros p acc s d s' He H Hoof.
  - cbn [read_gen] in H. inversion H; subst. rsimpl_in Hoof. discriminate Hoof.
  - cbn [read_gen] in H. unfold reader_read in H.
    destruct (read_loop (fuel_of s) c (psize p) s) as [[d1 e1] s1] eqn:E.
    destruct e1 as [e1|].
    + destruct e1; try discriminate H. inversion H; subst.
      exact (read_loop_eof_only_at_end _ _ _ _ _ _ He E).
    + apply (IH _ _ _ _ _ (read_loop_nil_rerror _ _ _ _ _ _ He E) H Hoof).
Qed.

Corollary read_raw_nil_only_at_end fuel c acc s raw s' :
  rerror s = None -> read_raw fuel c acc s = (raw, None, s') -> outoffuel s' = false ->
  rfin s' = true /\ rem s' = 0.
Proof. rewrite read_raw_gen. apply read_gen_nil_only_at_end. Qed.

Corollary read_all_nil_only_at_end fuel c len cp acc s d s' :
  rerror s = None -> read_all fuel c len cp acc s = (d, None, s') -> outoffuel s' = false ->
  rfin s' = true /\ rem s' = 0.
Proof. rewrite read_all_gen. apply read_gen_nil_only_at_end. Qed.

Lemma advance_frame_rerror c s : rerror (snd (advance_frame c s)) = rerror s.
Proof.
  unfold advance_frame. destruct (0 <? rem s).
  - destruct (copyn_discard _ (rem s) (br s)) as [[e b] oof].
    set (s2 := if oof then _ else _).
    assert (H2 : rerror s2 = rerror s) by (subst s2; destruct oof; reflexivity).
    destruct e as [k|]; [exact H2|].
    pose proof (advance_after_skip_good c s2) as ((_ & Hre & _) & _). congruence.
  - pose proof (advance_after_skip_good c s) as ((_ & Hre & _) & _). exact Hre.
Qed.

Lemma next_loop_some_rerror : forall fuel c s op s',
  next_loop fuel c s = (Some op, s') -> rerror s' = None.
Proof.
  induction fuel as [|fu IH]; intros c s op s' H; cbn [next_loop] in H;
    destruct (rerror s) eqn:He; try discriminate H.
  pose proof (advance_frame_rerror c s) as Hre.
  destruct (advance_frame c s) as [a s1]. cbn [snd] in Hre.
  destruct a as [e1|op1]; [discriminate H|].
  destruct ((op1 =? c_TextMessage) || (op1 =? c_BinaryMessage)).
  - inversion H; subst. rsimpl. congruence.
  - exact (IH _ _ _ _ H).
Qed.

(* the out-of-fuel flag is never reset *)
Lemma read_loop_oof : forall fuel c m s d e s',
  outoffuel s = true -> read_loop fuel c m s = (d, e, s') -> outoffuel s' = true.
Proof.
  induction fuel as [|fu IH]; intros c m s d e s' Ho H.
  - cbn [read_loop] in H. destruct (rerror s); inversion H; subst; [exact Ho|reflexivity].
  - cbn [read_loop] in H. destruct (rerror s) as [e1|] eqn:He; [inversion H; subst; exact Ho|].
    destruct (0 <? rem s) eqn:Er.
    + cbv zeta in H.
      destruct (br_read (N.to_nat (N.min (N.of_nat m) (rem s))) (br s)) as [[d0 e0] b].
      inversion H; subst. destruct (server c); rsimpl; exact Ho.
    + destruct (rfin s); [inversion H; subst; exact Ho|].
      rewrite advance_frame_rem0 in H by lia.
      pose proof (advance_after_skip_good c s) as (Hp & _).
      destruct (advance_after_skip c s) as [a s1]. cbn [snd] in Hp. destruct Hp as (_ & _ & Hoo & _).
      destruct a as [e1|op]; [|destruct ((op =? c_TextMessage) || (op =? c_BinaryMessage))];
        (refine (IH _ _ _ _ _ _ _ H); rsimpl; congruence).
Qed.

Lemma read_gen_oof {P:Type} (psize : P -> nat) pnext c : forall fuel (p:P) acc s d e s',
  outoffuel s = true -> read_gen psize pnext fuel c p acc s = (d, e, s') -> outoffuel s' = true.
Proof.
  induction fuel as [|fu IH]; intros p acc s d e s' Ho H.
  - cbn [read_gen] in H. inversion H; subst. reflexivity.
  - cbn [read_gen] in H. unfold reader_read in H.
    destruct (read_loop (fuel_of s) c (psize p) s) as [[d1 e1] s1] eqn:E.
    pose proof (read_loop_oof _ _ _ _ _ _ _ Ho E) as H1.
    destruct e1 as [e1|]; [destruct e1; inversion H; subst; exact H1|].
    exact (IH _ _ _ _ _ _ H1 H).
Qed.

(* NextReader's loop fails without a remembered error only by running out of fuel *)
Lemma next_loop_none_oof c : forall fuel s s',
  next_loop fuel c s = (None, s') -> rerror s' = None -> outoffuel s' = true.
Proof.
  induction fuel as [|fu IH]; intros s s' H H3; cbn [next_loop] in H;
    destruct (rerror s) eqn:He.
  - inversion H; subst. congruence.
  - inversion H; subst. reflexivity.
  - inversion H; subst. congruence.
  - destruct (advance_frame c s) as [a s4]. destruct a as [e1|op1].
    + inversion H; subst. rsimpl_in H3. discriminate H3.
    + destruct ((op1 =? c_TextMessage) || (op1 =? c_BinaryMessage)); [discriminate H|].
      exact (IH _ _ H H3).
Qed.

(* ReadMessage reports a message as complete (nil error) only when the final frame of the
   message has been consumed completely -- compressed or not, whatever the peer sent, however
   the transport behaves.  In particular [inflate] is applied to completely received messages
   only, and its verdict is the only way a completely received message can fail. *)
Theorem read_message_nil_only_at_end inflate c s ty d s' :
  read_message inflate c s = (RMsg ty d None, s') -> outoffuel s' = false ->
  rfin s' = true /\ rem s' = 0.
Proof.
  unfold read_message, next_reader. intros H Hoof.
  set (s0 := s <| cur := None |> <| rlen := 0 |>) in *.
  destruct (next_loop (fuel_of s0) c s0) as [[op|] s1] eqn:Enl.
  - pose proof (next_loop_some_rerror _ _ _ _ _ Enl) as He1. cbv iota in H.
    destruct (rdecomp s1).
    + destruct (read_raw (fuel_of s1) c [] s1) as [[raw e] s2] eqn:Er.
      destruct e as [e|]; [discriminate H|].
      assert (s2 = s') by (destruct (inflate (raw ++ ws_tail)); inversion H; reflexivity). subst s2.
      exact (read_raw_nil_only_at_end _ _ _ _ _ _ He1 Er Hoof).
    + destruct (read_all (fuel_of s1) c 0 512 [] s1) as [[d1 e] s2] eqn:Er.
      inversion H; subst. exact (read_all_nil_only_at_end _ _ _ _ _ _ _ _ He1 Er Hoof).
  - exfalso. cbv zeta in H.
    set (s2 := s1 <| errcount := S (errcount s1) |>) in *.
    destruct (Nat.leb 1000 (errcount s2)); [discriminate H|].
    destruct (rerror s2) eqn:He; [discriminate H|].
    assert (Ho2 : outoffuel s2 = true) by (exact (next_loop_none_oof c _ _ _ Enl He)).
    cbv iota in H.
    destruct (rdecomp s2).
    + destruct (read_raw (fuel_of s2) c [] s2) as [[raw e] s3] eqn:Er.
      destruct e as [e|]; [discriminate H|].
      assert (s3 = s') by (destruct (inflate (raw ++ ws_tail)); inversion H; reflexivity). subst s3.
      rewrite read_raw_gen in Er. rewrite (read_gen_oof _ _ _ _ _ _ _ _ _ _ Ho2 Er) in Hoof. discriminate Hoof.
    + destruct (read_all (fuel_of s2) c 0 512 [] s2) as [[d1 e] s3] eqn:Er.
      inversion H; subst.
      rewrite read_all_gen in Er. rewrite (read_gen_oof _ _ _ _ _ _ _ _ _ _ Ho2 Er) in Hoof. discriminate Hoof.
Qed.

(* the same through the operation interface *)
Corollary readmessage_op_nil_only_at_end inflate c s ty d s' :
  rstep inflate c s OReadMessage = (RMsg ty d None, s') -> outoffuel s' = false ->
  rfin s' = true /\ rem s' = 0.
Proof.
  unfold rstep. destruct (read_message inflate c s) as [r s1] eqn:E. intros H Hoof.
  inversion H; subst. rsimpl. rsimpl_in Hoof. exact (read_message_nil_only_at_end _ _ _ _ _ _ E Hoof).
Qed.

(* ============================== CutZDemo ============================== *)
(* Non-vacuity: a server that negotiated permessage-deflate receives a ping, a complete        *)
(* compressed message ("bye"), a ping, then a compressed text message ("Hello", stored block)  *)
(* in fragments with a pong and a ping in between -- and the stream stops in the MIDDLE of its *)
(* last fragment (header + mask key + one payload byte received).                              *)
Require WS.Spec.Inflate.

Definition zk1 := [1;2;3;4]. Definition zk2 := [9;8;7;6].
Definition zd_hello : bytes := Inflate.trunc4 (Inflate.deflate0 [72;101;108;108;111]).
Definition zd_bye : bytes := Inflate.trunc4 (Inflate.deflate0 [98;121;101]).
Definition demoZ_fs : list frame :=
 [ mkf true 9 0 (Some zk1) [104;105];
   mkf true 1 4 (Some zk2) zd_bye;                         (* RSV1: compressed, complete *)
   mkf true 9 0 (Some zk1) [1];
   mkf false 1 4 (Some zk2) (firstn 4 zd_hello);           (* RSV1: compressed, first fragment *)
   mkf true 10 0 (Some zk1) [];
   mkf false 0 0 (Some zk1) (firstn 2 (skipn 4 zd_hello)); (* continuation *)
   mkf true 9 0 (Some zk2) [1;2;3] ].
Definition demoZ_cfg : rcfg :=
  {| server := true; negotiated := true; custom_handlers := false; handler_fail := []; caps := [3;7] |}.
Definition demoZ_f := mkf true 0 0 (Some zk2) (skipn 6 zd_hello).  (* the final fragment *)
Definition demoZ_cut := firstn 7 (encode_frame demoZ_f).
Definition demoZ_stream := encode_frames demoZ_fs ++ demoZ_cut.
Definition demoZ_b (flt:errk) (gl:bool) : bufio :=
  mk_bufio 125 [] {| chunks := [firstn 5 demoZ_stream; firstn 30 (skipn 5 demoZ_stream); skipn 35 demoZ_stream];
                     fault := flt; glued := gl |}.

Lemma demoZ_binv flt gl : binv (demoZ_b flt gl).
Proof.
  apply binv_mk; [lia|cbn [length]; lia|]. unfold wf_script. cbn [chunks].
  repeat (apply Forall_cons; [vm_compute; discriminate|]). apply Forall_nil.
Qed.

(* by the theorem, for every fault kind, glued to the last bytes or not, every inflate function *)
Example demoZ_cut_stream inflate flt gl :
  exists s',
    run_ops inflate demoZ_cfg (init_rst (demoZ_b flt gl)) (repeat OReadMessage 2) =
      ([out_ofZ inflate (1, true, zd_bye); RMsg 1 [] (Some (of_berror (BErr flt)))], s') /\
    rerror s' = Some (of_berror (BErr flt)) /\ outoffuel s' = false /\
    wlog s' = [WPong [104;105]; WPong [1]; WPong [1;2;3]].
Proof.
  pose proof (cut_stream_read_messagesZ inflate demoZ_cfg (demoZ_b flt gl) demoZ_fs demoZ_f
                demoZ_cut (skipn 7 (encode_frame demoZ_f)) true eq_refl (demoZ_binv flt gl)) as H.
  apply H; clear H.
  - cbn [demoZ_b mk_bufio bsize]. lia.
  - repeat (apply Forall_cons; [vm_compute; repeat split; reflexivity|]). apply Forall_nil.
  - vm_compute. reflexivity.
  - vm_compute. repeat split; reflexivity.
  - vm_compute. reflexivity.
  - unfold demoZ_cut. symmetry. apply firstn_skipn.
  - vm_compute. discriminate.
  - right. reflexivity.
  - vm_compute. reflexivity.
  - vm_compute. reflexivity.
Qed.

(* the model run itself with the Spec inflate, EOF glued to the last bytes: the complete message
   is inflated, the partial one comes back with no bytes and the 1006 "unexpected EOF" error *)
Example demoZ_cut_run_glued_eof :
  fst (run_ops Inflate.inflate demoZ_cfg (init_rst (demoZ_b EEOF true)) (repeat OReadMessage 4)) =
    [RMsg 1 [98;121;101] None; RMsg 1 [] (Some unexpected_eof);
     RMsg 0 [] (Some unexpected_eof); RMsg 0 [] (Some unexpected_eof)].
Proof. vm_compute. reflexivity. Qed.

(* all three fault kinds, glued or not *)
Example demoZ_cut_run :
  forallb (fun flt => forallb (fun gl =>
     match fst (run_ops Inflate.inflate demoZ_cfg (init_rst (demoZ_b flt gl)) (repeat OReadMessage 3)) with
     | [RMsg 1 [98;121;101] None; RMsg 1 [] (Some e); RMsg 0 [] (Some e')] =>
         negb (is_io_eof e) && match e with RFlate => false | _ => true end &&
         match e, e' with
         | RClose a x, RClose b y => (a =? b) && beq x y
         | RTimeout, RTimeout | ROther, ROther => true
         | _, _ => false
         end
     | _ => false
     end) [true;false]) [EEOF;ETimeout;EOther] = true.
Proof. vm_compute. reflexivity. Qed.

(* the partial message does not reach inflate: an "inflate" that accepts everything and returns
   [42] changes the complete message only *)
Example demoZ_inflate_not_called :
  fst (run_ops (fun _ => Some [42]) demoZ_cfg (init_rst (demoZ_b EEOF true)) (repeat OReadMessage 2)) =
    [RMsg 1 [42] None; RMsg 1 [] (Some unexpected_eof)].
Proof. vm_compute. reflexivity. Qed.

(* the stream stops exactly BETWEEN two fragments of the compressed message (cut = [], message
   open), EOF glued to the last bytes of the last complete frame: unexpected EOF, not io.EOF *)
Definition demoZ_b0 (flt:errk) (gl:bool) : bufio :=
  mk_bufio 125 [] {| chunks := [firstn 9 (encode_frames demoZ_fs); skipn 9 (encode_frames demoZ_fs)];
                     fault := flt; glued := gl |}.

Example demoZ_between_fragments inflate flt gl :
  exists s',
    run_ops inflate demoZ_cfg (init_rst (demoZ_b0 flt gl)) (repeat OReadMessage 2) =
      ([out_ofZ inflate (1, true, zd_bye); RMsg 1 [] (Some (of_berror (BErr flt)))], s') /\
    rerror s' = Some (of_berror (BErr flt)) /\ outoffuel s' = false.
Proof.
  assert (Hb : binv (demoZ_b0 flt gl)).
  { apply binv_mk; [lia|cbn [length]; lia|]. unfold wf_script. cbn [chunks].
    repeat (apply Forall_cons; [vm_compute; discriminate|]). apply Forall_nil. }
  destruct (cut_stream_read_messagesZ inflate demoZ_cfg (demoZ_b0 flt gl) demoZ_fs demoZ_f
                [] (encode_frame demoZ_f) true eq_refl Hb) as (s' & H1 & H2 & H3 & _).
  - cbn [demoZ_b0 mk_bufio bsize]. lia.
  - repeat (apply Forall_cons; [vm_compute; repeat split; reflexivity|]). apply Forall_nil.
  - vm_compute. reflexivity.
  - vm_compute. repeat split; reflexivity.
  - vm_compute. reflexivity.
  - reflexivity.
  - vm_compute. discriminate.
  - right. reflexivity.
  - vm_compute. reflexivity.
  - vm_compute. reflexivity.
  - exists s'. split; [exact H1|]. split; [exact H2|exact H3].
Qed.

Example demoZ_between_fragments_run :
  fst (run_ops Inflate.inflate demoZ_cfg (init_rst (demoZ_b0 EEOF true)) (repeat OReadMessage 3)) =
    [RMsg 1 [98;121;101] None; RMsg 1 [] (Some unexpected_eof); RMsg 0 [] (Some unexpected_eof)].
Proof. vm_compute. reflexivity. Qed.

(* NextReader + Read (raw bytes) on the same cut stream: reads of 3, 1, 100, 3 bytes *)
Eval vm_compute in
  fst (run_ops Inflate.inflate demoZ_cfg (init_rst (demoZ_b EEOF true))
         (repeat OReadMessage 1 ++ ONext :: map ORead [3;1;100;3]%nat)).

(* ---------- the two side conditions that are not in CutP.v are forced ---------- *)
(* [n < 999] in cut_stream_same_errorZ: NextReader panics at the 1000th failing call.  Stream =
   the first byte of a frame header, then EOF: call 0 fails, calls 1..998 repeat the error,
   call 999 panics *)
Example same_error_bound_is_tight :
  let r := fst (run_ops (fun _ => None) demoZ_cfg
                  (init_rst (mk_bufio 125 [] {| chunks := [[129]]; fault := EEOF; glued := false |}))
                  (repeat OReadMessage 1001)) in
  nth 0 r RUnit = RMsg 0 [] (Some unexpected_eof) /\
  nth 998 r RUnit = RMsg 0 [] (Some unexpected_eof) /\
  nth 999 r RUnit = RPanic /\ length r = 1000%nat.
Proof. vm_compute. repeat split; reflexivity. Qed.

(* [outoffuel s' = false] in read_message_nil_only_at_end: a transport that violates the
   io.Reader contract by returning (0, nil) for ever (empty chunks, excluded by [binv]) makes
   the MODEL run out of fuel; it then stops with a nil error in the middle of the message and
   raises its out-of-fuel flag (the Go code would loop / get io.ErrNoProgress instead) *)
Example nil_only_at_end_needs_fuel_flag :
  let b := {| bsize := 125; bbuf := [129; 133; 1; 2; 3; 4]; berr := None;
              src := {| chunks := [[]; []; []; []]; fault := EEOF; glued := false |} |} in
  let r := read_message (fun _ => None) demoZ_cfg (init_rst b) in
  fst r = RMsg 1 [] None /\ outoffuel (snd r) = true /\ rem (snd r) = 5.
Proof. vm_compute. repeat split; reflexivity. Qed.

Print Assumptions advance_cut_errZ.
Print Assumptions advance_cut_dataZ.
Print Assumptions rg_partial.
Print Assumptions rg_cut.
Print Assumptions read_all_cutstZ.
Print Assumptions read_raw_cutstZ.
Print Assumptions reads_on_cut_messageZ.
Print Assumptions next_loop_cutZ.
Print Assumptions read_message_cutZ.
Print Assumptions next_reader_cutZ.
Print Assumptions cut_stream_read_messagesZ_count.
Print Assumptions cut_stream_read_messagesZ.
Print Assumptions cut_stream_errors_stickyZ.
Print Assumptions cut_stream_same_errorZ.
Print Assumptions cut_stream_reader_apiZ.
Print Assumptions read_raw_nil_only_at_end.
Print Assumptions read_all_nil_only_at_end.
Print Assumptions read_message_nil_only_at_end.
Print Assumptions readmessage_op_nil_only_at_end.
Print Assumptions cut_stream_read_messages_from_Z.
Print Assumptions cut_stream_errors_sticky_from_Z.
Print Assumptions cut_stream_reader_api_from_Z.
Print Assumptions demoZ_cut_stream.
Print Assumptions demoZ_cut_run_glued_eof.
Print Assumptions demoZ_cut_run.
Print Assumptions demoZ_inflate_not_called.
Print Assumptions demoZ_between_fragments.
Print Assumptions demoZ_between_fragments_run.
Print Assumptions same_error_bound_is_tight.
Print Assumptions nil_only_at_end_needs_fuel_flag.
