(* Write path: the compression layer (truncWriter, flateWriteWrapper) only decides WHICH bytes
   reach messageWriter.Write / Close; beginMessage, NextWriter, WriteMessage, the application
   calls and whole programs preserve the wire invariant. *)
Require Import WS.Base.Bytes WS.gen.Consts WS.Spec.Frame WS.Proofs.FrameP WS.Model.Writer.
From RecordUpdate Require Import RecordSet.
Import RecordSetNotations.
Require Import WS.Proofs.WWBase WS.Proofs.WWInv WS.Proofs.WWStep WS.Proofs.WWComp.
Ltac Zify.zify_post_hook ::= Z.div_mod_to_equations.

(* ------------------------------------------------------------------------------------------ *)
(* truncWriter keeps the last four bytes of the stream                                        *)
(* ------------------------------------------------------------------------------------------ *)
Definition tw_rel (tw0 data tw':bytes) : Prop :=
  exists pre, tw0 ++ data = pre ++ tw' /\ (blen tw' = 4 \/ pre = []).

Definition flate_tail : bytes := [0;0;255;255].
Definition tail_ok (cc:list bytes) : Prop := exists pre, concat cc = pre ++ flate_tail.

Lemma tw_rel_nil tw : tw_rel tw [] tw.
Proof. exists []. rewrite app_nil_r. auto. Qed.

Lemma tw_rel_trans a d1 b d2 c :
  tw_rel a d1 b -> tw_rel b d2 c -> blen c <= 4 -> tw_rel a (d1 ++ d2) c.
Proof.
  intros (p1 & E1 & D1) (p2 & E2 & D2) HC. exists (p1 ++ p2). split.
  - rewrite app_assoc, E1, <- app_assoc, E2, app_assoc. reflexivity.
  - destruct D2 as [D2|D2]; [left; exact D2|]. subst p2. cbn [List.app] in E2.
    destruct D1 as [D1|D1].
    + left. assert (X : blen c = blen b + blen d2) by (rewrite <- E2; apply blen_app). lia.
    + right. subst p1. reflexivity.
Qed.

Lemma app_eq_tail (a b c d:bytes) : a ++ b = c ++ d -> length b = length d -> b = d.
Proof.
  intros H L.
  assert (La : length a = length c).
  { assert (X : length (a ++ b) = length (c ++ d)) by (rewrite H; reflexivity).
    rewrite !app_length in X. lia. }
  assert (X : skipn (length a) (a ++ b) = skipn (length c) (c ++ d)) by (rewrite H, La; reflexivity).
  rewrite !skipn_app, !skipn_all, !Nat.sub_diag in X. cbn [skipn List.app] in X. exact X.
Qed.

Lemma tw_rel_tail tw0 x tw' :
  tw_rel tw0 (x ++ flate_tail) tw' -> blen tw' <= 4 -> tw' = flate_tail.
Proof.
  intros (pre & E & D) HL. destruct D as [D|D].
  - rewrite app_assoc in E. symmetry. apply (app_eq_tail _ _ _ _ E).
    unfold blen in D. cbn [flate_tail length]. lia.
  - subst pre. cbn [List.app] in E.
    assert (X : blen tw' = blen tw0 + (blen x + 4)).
    { rewrite <- E, !blen_app. reflexivity. }
    assert (X0 : blen tw0 = 0) by lia. assert (X1 : blen x = 0) by lia.
    apply blen_zero in X0. apply blen_zero in X1. subst tw0 x. symmetry. exact E.
Qed.

Lemma dropN_all n (l:bytes) : blen l <= n -> dropN n l = [].
Proof. intros H. unfold dropN. apply skipn_all2. unfold blen in H. lia. Qed.

Lemma takeN_zero (l:bytes) : takeN 0 l = [].
Proof. reflexivity. Qed.

Section Fa.
Variable fa : option (nat * fkind).
Notation Inv := (Inv fa).
Notation CInv := (CInv fa).

Lemma trunc_write_inv c p f s e f' s' : capok c -> small p -> CInv c s ->
  trunc_write c p f s = (e, f', s') ->
  CInv c s' /\ crel s s' /\ fl s' = fl s /\ (e <> None -> cur s' = None) /\
  f_id f' = f_id f /\ f_open f' = f_open f /\ f_err f' = f_err f /\
  (blen (f_tw f) <= 4 -> blen (f_tw f') <= 4 /\ (e = None -> tw_rel (f_tw f) p (f_tw f'))).
Proof.
  intros HCap HS HC H. unfold trunc_write in H. cbv zeta in H.
  set (n0 := N.min (4 - blen (f_tw f)) (blen p)) in *.
  set (tw := f_tw f ++ takeN n0 p) in *.
  remember (dropN n0 p) as p1 eqn:EP1.
  assert (Hp : p = takeN n0 p ++ p1) by (subst p1; symmetry; apply takeN_app_dropN).
  assert (Lp1 : blen p1 = blen p - n0) by (subst p1; apply blen_dropN).
  assert (Ltw : blen tw = blen (f_tw f) + n0).
  { subst tw. rewrite blen_app, blen_takeN. subst n0. lia. }
  destruct p1 as [|x p1'].
  { inversion H; subst e f' s'. clear H.
    split; [exact HC|]. split; [apply crel_refl|]. split; [reflexivity|]. split; [intros X; contradiction|].
    split; [reflexivity|]. split; [reflexivity|]. split; [reflexivity|].
    intros HB. wsimpl. split; [change (blen []) with 0 in Lp1; lia|]. intros _.
    exists []. rewrite app_nil_r in Hp. rewrite Hp at 1. auto. }
  set (pp := x :: p1') in *.
  assert (Hpp : 0 < blen pp) by (unfold pp, blen; cbn [length]; lia).
  clearbody pp.
  set (m := N.min (blen pp) 4) in *.
  destruct (mw_write c (takeN m tw) s) as [e1 s1] eqn:E1.
  assert (S1 : small (takeN m tw)).
  { unfold small. rewrite blen_takeN. subst m. lia. }
  destruct (mw_write_inv fa c _ s e1 s1 HCap S1 HC E1) as (A1&A2&A3&A4).
  destruct e1 as [e1|].
  { inversion H; subst e f' s'. clear H.
    split; [exact A1|]. split; [exact A2|]. split; [exact A3|]. split; [intros _; apply A4; discriminate|].
    split; [reflexivity|]. split; [reflexivity|]. split; [reflexivity|].
    intros HB. wsimpl. split; [lia|]. intros X; discriminate X. }
  set (keep := blen pp - m) in *.
  destruct (mw_write c (takeN keep pp) s1) as [e2 s2] eqn:E2.
  assert (S2 : small (takeN keep pp)).
  { unfold small in *. rewrite blen_takeN. lia. }
  destruct (mw_write_inv fa c _ s1 e2 s2 HCap S2 A1 E2) as (B1&B2&B3&B4).
  inversion H; subst e f' s'. clear H.
  split; [exact B1|]. split; [eapply crel_trans; eassumption|]. split; [congruence|]. split; [exact B4|].
  split; [reflexivity|]. split; [reflexivity|]. split; [reflexivity|].
  intros HB. wsimpl.
  assert (Ltw4 : blen tw = 4) by lia.
  assert (Lnew : blen (dropN m tw ++ dropN keep pp) = 4).
  { rewrite blen_app, !blen_dropN. subst keep m. lia. }
  split; [lia|]. intros _.
  exists (takeN m tw ++ takeN keep pp). split; [|left; exact Lnew].
  rewrite Hp at 1. rewrite app_assoc. fold tw.
  destruct (N.eq_dec m 4) as [M4|M4].
  - assert (D : dropN m tw = []) by (apply dropN_all; lia).
    rewrite D. cbn [List.app].
    assert (T : takeN m tw = tw).
    { rewrite <- (takeN_app_dropN m tw) at 2. rewrite D, app_nil_r. reflexivity. }
    rewrite T, <- app_assoc, takeN_app_dropN. reflexivity.
  - assert (K : keep = 0) by (subst keep m; lia). rewrite K, takeN_zero, app_nil_r.
    change (dropN 0 pp) with pp. rewrite app_assoc, takeN_app_dropN. reflexivity.
Qed.


Lemma flate_emit_inv c : capok c -> forall chunks f s f' s', Forall small chunks -> CInv c s ->
  flate_emit c chunks f s = (f', s') ->
  CInv c s' /\ crel s s' /\ fl s' = fl s /\
  f_id f' = f_id f /\ f_open f' = f_open f /\
  (f_err f = None -> f_err f' <> None -> cur s' = None) /\
  (blen (f_tw f) <= 4 -> blen (f_tw f') <= 4 /\
     (f_err f = None -> f_err f' = None -> tw_rel (f_tw f) (concat chunks) (f_tw f'))).
Proof.
  intros HCap. induction chunks as [|ch rest IH]; intros f s f' s' HS HC H; cbn [flate_emit] in H.
  - inversion H; subst f' s'. split; [exact HC|]. split; [apply crel_refl|]. split; [reflexivity|].
    split; [reflexivity|]. split; [reflexivity|]. split; [intros X Y; contradiction|].
    intros HB. split; [exact HB|]. intros _ _. apply tw_rel_nil.
  - inversion HS as [|? ? HS1 HS2]; subst.
    destruct (f_err f) as [ef|] eqn:EF.
    { inversion H; subst f' s'. split; [exact HC|]. split; [apply crel_refl|]. split; [reflexivity|].
      split; [reflexivity|]. split; [reflexivity|]. split; [intros X; discriminate X|].
      intros HB. split; [exact HB|]. intros X; discriminate X. }
    destruct (trunc_write c ch f s) as [[e1 f1] s1] eqn:ET.
    destruct (trunc_write_inv c ch f s e1 f1 s1 HCap HS1 HC ET) as (A1&A2&A3&A4&A5&A6&A7&A8).
    destruct e1 as [e1|].
    + inversion H; subst f' s'. clear H. wsimpl.
      split; [exact A1|]. split; [exact A2|]. split; [exact A3|].
      split; [exact A5|]. split; [exact A6|]. split; [intros _ _; apply A4; discriminate|].
      intros HB. split; [apply (A8 HB)|]. intros _ X; discriminate X.
    + destruct (IH f1 s1 f' s' HS2 A1 H) as (B1&B2&B3&B4&B5&B6&B7).
      split; [exact B1|]. split; [eapply crel_trans; eassumption|]. split; [congruence|].
      split; [congruence|]. split; [congruence|].
      split; [intros _ X; apply B6; [congruence|exact X]|].
      intros HB. destruct (A8 HB) as [A8a A8b]. destruct (B7 A8a) as [B7a B7b].
      split; [exact B7a|]. intros _ X. cbn [concat].
      eapply tw_rel_trans; [apply A8b; reflexivity|apply B7b; [congruence|exact X]|exact B7a].
Qed.

(* ------------------------------------------------------------------------------------------ *)
(* the full state invariant                                                                   *)
(* ------------------------------------------------------------------------------------------ *)
Definition finv (s:wst) : Prop :=
  cur_flate s = true -> forall m, cur s = Some m ->
    exists f, fl s = Some f /\ f_id f = m_id m /\ f_open f = true /\ f_err f = None /\ blen (f_tw f) <= 4.

Definition WInv (c:wcfg) (s:wst) : Prop :=
  CInv c s /\ finv s /\ (w_negotiated c = false -> cur_flate s = false).

Lemma WInv_crel c s s' : WInv c s -> CInv c s' -> crel s s' -> fl s' = fl s -> WInv c s'.
Proof.
  intros (W1 & W2 & W3) HC [R1 R2] HF. split; [exact HC|]. split.
  - intros X m' Hm'. destruct (R2 m' Hm') as (E & m & Hm & Hid).
    destruct (W2 (eq_trans (eq_sym E) X) m Hm) as (f & F1 & F2 & F3 & F4 & F5).
    exists f. rewrite HF, Hid. auto 10.
  - intros N. destruct (cur_flate s') eqn:E; [|reflexivity]. rewrite <- (W3 N). symmetry. apply R1. reflexivity.
Qed.

Lemma WInv_cur_none c s : CInv c s -> cur s = None -> (w_negotiated c = false -> cur_flate s = false) -> WInv c s.
Proof.
  intros HC HN H3. split; [exact HC|]. split; [|exact H3]. intros _ m Hm. rewrite HN in Hm. discriminate.
Qed.

(* the Close-time flate oracle matters only while a compressed writer is current *)
Definition flate_cur (s:wst) : Prop := cur_flate s = true /\ cur s <> None.
Definition tail_at (s:wst) (cc:list bytes) : Prop := flate_cur s -> tail_ok cc.

Lemma flate_write_inv c wc f s e s' : capok c -> Forall small wc ->
  WInv c s -> fl s = Some f -> flate_write c wc f s = (e, s') ->
  WInv c s' /\ (cur_flate s' = true -> cur_flate s = true).
Proof.
  intros HCap HS HW HF H. unfold flate_write in H.
  destruct (negb (f_open f)); [inversion H; subst; split; [exact HW|auto]|].
  destruct (flate_emit c wc f s) as [f1 s1] eqn:EE.
  destruct HW as (W1 & W2 & W3).
  destruct (flate_emit_inv c HCap wc f s f1 s1 HS W1 EE) as (A1&[R1 R2]&A3&A4&A5&A6&A7).
  inversion H; subst e s'. clear H.
  split; [|exact R1].
  split; [|split].
  - apply (CInv_same fa c s1 _ A1); reflexivity.
  - intros X m1 Hm1. change (cur_flate s1 = true) in X. change (cur s1 = Some m1) in Hm1.
    destruct (R2 m1 Hm1) as (E & m & Hm & Hid).
    destruct (W2 (eq_trans (eq_sym E) X) m Hm) as (f0 & F1 & F2 & F3 & F4 & F5).
    rewrite HF in F1. inversion F1; subst f0.
    exists f1. split; [reflexivity|]. split; [congruence|]. split; [congruence|]. split.
    + destruct (f_err f1) eqn:E1; [|reflexivity]. rewrite (A6 F4) in Hm1; [discriminate|]. discriminate.
    + apply (A7 F5).
  - intros N. change (cur_flate s1 = false). destruct (cur_flate s1) eqn:E; [|reflexivity].
    rewrite <- (W3 N). symmetry. apply R1. reflexivity.
Qed.

Lemma flate_close_inv c cc f s e s' : capok c -> Forall small cc ->
  tail_at s cc ->
  WInv c s -> fl s = Some f -> flate_close c cc f s = (e, s') ->
  WInv c s' /\ (cur_flate s = true -> cur s' = None).
Proof.
  intros HCap HS HT HW HF H. unfold flate_close in H.
  destruct HW as (W1 & W2 & W3).
  destruct (f_open f) eqn:EO; cbn [negb] in H.
  2:{ inversion H; subst e s'. split; [split; [exact W1|split; [exact W2|exact W3]]|].
      intros X. destruct (cur s) as [m|] eqn:EC; [|reflexivity].
      destruct (W2 X m EC) as (f0 & F1 & F2 & F3 & _). rewrite HF in F1. inversion F1; subst f0.
      rewrite EO in F3. discriminate. }
  destruct (flate_emit c cc f s) as [f1 s1] eqn:EE.
  destruct (flate_emit_inv c HCap cc f s f1 s1 HS W1 EE) as (A1&[R1 R2]&A3&A4&A5&A6&A7).
  set (f2 := f1 <| f_open := false |>) in *.
  set (s2 := s1 <| fl := Some f2 |>) in *.
  assert (C2 : CInv c s2) by (apply (CInv_same fa c s1 _ A1); reflexivity).
  assert (T2 : w_negotiated c = false -> cur_flate s2 = false).
  { intros N. change (cur_flate s1 = false). destruct (cur_flate s1) eqn:E; [|reflexivity].
    rewrite <- (W3 N). symmetry. apply R1. reflexivity. }
  (* a flate writer still current after the flush has the sync marker in its truncWriter *)
  assert (K : forall m2, cur s2 = Some m2 -> cur_flate s2 = true ->
              f_tw f1 = flate_tail /\ f_id f2 = m_id m2).
  { intros m2 Hm2 X. change (cur s1 = Some m2) in Hm2. change (cur_flate s1 = true) in X.
    destruct (R2 m2 Hm2) as (E & m & Hm & Hid).
    assert (X0 : cur_flate s = true) by congruence.
    destruct (W2 X0 m Hm) as (f0 & F1 & F2 & F3 & F4 & F5).
    rewrite HF in F1. inversion F1; subst f0.
    assert (HT' : tail_ok cc) by (apply HT; split; [exact X0|rewrite Hm; discriminate]).
    destruct HT' as (pre & HT').
    split; [|change (f_id f1 = m_id m2); congruence].
    destruct (A7 F5) as [A7a A7b].
    assert (E1 : f_err f1 = None).
    { destruct (f_err f1) eqn:E1; [|reflexivity]. rewrite (A6 F4) in Hm2; [discriminate|]. discriminate. }
    specialize (A7b F4 E1). rewrite HT' in A7b. apply (tw_rel_tail _ _ _ A7b A7a). }
  assert (KF : cur_flate s = true -> forall m2, cur s2 = Some m2 -> cur_flate s2 = true).
  { intros X m2 Hm2. change (cur s1 = Some m2) in Hm2. change (cur_flate s1 = true).
    destruct (R2 m2 Hm2) as (E & _). congruence. }
  change (f_tw f2) with (f_tw f1) in H.
  destruct (beq (f_tw f1) [0;0;255;255]) eqn:EB; cbn [negb] in H.
  2:{ inversion H; subst e s'. clear H.
      assert (NK : forall m2, cur s2 = Some m2 -> cur_flate s2 = true -> False).
      { intros m2 Hm2 X. destruct (K m2 Hm2 X) as [K1 _]. rewrite K1 in EB.
        unfold flate_tail in EB. rewrite beq_refl in EB. discriminate. }
      split.
      - split; [exact C2|split; [|exact T2]]. intros X m2 Hm2. exfalso. eapply NK; eassumption.
      - intros X. destruct (cur s2) as [m2|] eqn:EC; [|reflexivity]. exfalso.
        apply (NK m2 eq_refl). apply (KF X m2 eq_refl). }
  unfold is_cur in H. change (f_id f2) with (f_id f1) in H.
  destruct (cur s2) as [m2|] eqn:EC.
  2:{ inversion H; subst e s'. clear H. split; [|intros _; exact EC].
      apply WInv_cur_none; assumption. }
  destruct (Nat.eqb (m_id m2) (f_id f1)) eqn:EI.
  - destruct (mw_close c s2) as [e3 s3] eqn:EM.
    destruct (mw_close_inv fa c s2 e3 s3 HCap C2 EM) as (B1&[Q1 Q2]&B3&B4).
    inversion H; subst e s'. clear H. split; [|intros _; exact B4].
    apply WInv_cur_none; [exact B1|exact B4|].
    intros N. destruct (cur_flate s3) eqn:E; [|reflexivity]. rewrite <- (T2 N). symmetry. apply Q1. reflexivity.
  - inversion H; subst e s'. clear H.
    assert (NK : cur_flate s2 = true -> False).
    { intros X. destruct (K m2 eq_refl X) as [_ K2]. change (f_id f2) with (f_id f1) in K2.
      rewrite K2, Nat.eqb_refl in EI. discriminate. }
    split.
    + split; [exact C2|split; [|exact T2]]. intros X. exfalso. exact (NK X).
    + intros X. exfalso. apply NK. apply (KF X m2 eq_refl).
Qed.

(* ------------------------------------------------------------------------------------------ *)
(* beginMessage / NextWriter / WriteMessage                                                   *)
(* ------------------------------------------------------------------------------------------ *)
Lemma close_current_inv c ic s : capok c -> Forall small ic ->
  tail_at s ic -> WInv c s ->
  WInv c (close_current c ic s) /\ cur (close_current c ic s) = None.
Proof.
  intros HCap HS HT HW. unfold close_current.
  destruct (cur s) as [m|] eqn:EC; [|split; [exact HW|exact EC]].
  assert (Mid : exists s1, s1 = (if cur_flate s
             then match fl s with Some f => snd (flate_close c ic f s) | None => s end
             else snd (mw_close c s)) /\ WInv c s1 /\ cur s1 = None).
  { eexists. split; [reflexivity|]. destruct (cur_flate s) eqn:ECF.
    - destruct HW as (W1 & W2 & W3). destruct (W2 ECF m EC) as (f & F1 & _). rewrite F1.
      destruct (flate_close c ic f s) as [e1 s1] eqn:E1.
      destruct (flate_close_inv c ic f s e1 s1 HCap HS HT (conj W1 (conj W2 W3)) F1 E1) as [A B].
      cbn [snd]. split; [exact A|apply B; exact ECF].
    - destruct (mw_close c s) as [e1 s1] eqn:E1. destruct HW as (W1 & W2 & W3).
      destruct (mw_close_inv fa c s e1 s1 HCap W1 E1) as (B1&B2&B3&B4). cbn [snd].
      split; [|exact B4]. eapply WInv_crel; [exact (conj W1 (conj W2 W3))|exact B1|exact B2|exact B3]. }
  destruct Mid as (s1 & <- & (M1 & M2 & M3) & MC).
  split; [|reflexivity].
  apply WInv_cur_none; [|reflexivity|intros _; reflexivity].
  destruct M1 as (fs & p & HI). exists fs, p. rewrite MC in HI.
  apply (Inv_transfer fa c s1 _ None None fs p HI); try reflexivity; auto; try apply HI.
Qed.

Lemma begin_message_inv c ty ic s e s' : capok c -> Forall small ic ->
  tail_at s ic -> WInv c s ->
  begin_message c ty ic s = (e, s') ->
  WInv c s' /\ cur s' = None /\ (e = None -> is_control_ty ty || is_data_ty ty = true).
Proof.
  intros HCap HS HT HW H. unfold begin_message in H.
  destruct (close_current_inv c ic s HCap HS HT HW) as [A B].
  set (s1 := close_current c ic s) in *. clearbody s1.
  destruct (negb (is_control_ty ty) && negb (is_data_ty ty)) eqn:ET.
  { inversion H; subst e s'. split; [exact A|split; [exact B|intros X; discriminate X]]. }
  assert (HTy : is_control_ty ty || is_data_ty ty = true).
  { destruct (is_control_ty ty), (is_data_ty ty); cbn in *; congruence. }
  destruct (werr s1) as [ew|] eqn:EW.
  { inversion H; subst e s'. split; [exact A|split; [exact B|intros X; discriminate X]]. }
  inversion H; subst e s'. clear H.
  destruct (held s1); [split; [exact A|split; [exact B|intros _; exact HTy]]|].
  set (s2 := log TGet (s1 <| held := true |>)).
  assert (W2 : wire s2 = wire s1).
  { unfold s2. rewrite wire_log. cbn [pay]. rewrite app_nil_r. reflexivity. }
  split; [|split; [exact B|intros _; exact HTy]].
  destruct A as (A1 & A2 & A3). split; [|split; [exact A2|exact A3]].
  apply (CInv_same fa c s1 s2 A1 W2); reflexivity.
Qed.

Lemma valid_of_is ty : is_control_ty ty || is_data_ty ty = true ->
  valid_ty ty /\ (ty =? 0) = false.
Proof.
  unfold is_control_ty, is_data_ty, c_CloseMessage, c_PingMessage, c_PongMessage, c_TextMessage,
    c_BinaryMessage, valid_ty. intros H.
  destruct (ty =? 8) eqn:E1; [split; lia|]. destruct (ty =? 9) eqn:E2; [split; lia|].
  destruct (ty =? 10) eqn:E3; [split; lia|]. destruct (ty =? 1) eqn:E4; [split; lia|].
  destruct (ty =? 2) eqn:E5; [split; lia|]. cbn in H. discriminate.
Qed.

(* installing a fresh writer on a closed wire *)
Lemma install_inv c s s' m fs p :
  Inv c s None fs p -> wire s' = wire s -> keys s' = keys s -> fail_at s' = fail_at s -> werr s' = werr s ->
  mok c m -> (m_ftype m =? 0) = false -> Inv c s' (Some m) fs p.
Proof.
  intros HI HW HK HF HE HM HT.
  apply (Inv_transfer fa c s s' None (Some m) fs p HI HW).
  - rewrite HK. apply HI.
  - exact HF.
  - rewrite HE. auto.
  - intros m' Hm'. inversion Hm'; subst. exact HM.
  - intros _ X. cbn [link] in *. rewrite HT. exact X.
Qed.

Lemma next_writer_inv c ty ic s e s' : capok c -> Forall small ic ->
  tail_at s ic -> WInv c s ->
  next_writer c ty ic s = (e, s') ->
  WInv c s' /\ (e = None -> cur_flate s' = true -> w_negotiated c && wcomp s && is_data_ty ty = true).
Proof.
  intros HCap HS HT HW H. unfold next_writer in H.
  destruct (begin_message c ty ic s) as [e1 s1] eqn:EB.
  destruct (begin_message_inv c ty ic s e1 s1 HCap HS HT HW EB) as (A & B & C).
  destruct e1 as [e1|]; [inversion H; subst; split; [exact A|intros X; discriminate X]|].
  destruct (valid_of_is ty (C eq_refl)) as [V1 V2].
  pose proof (begin_message_wc c ty ic s None s1 EB) as WC. unfold wceq in WC.
  unfold new_mw in H. cbv beta iota zeta in H.
  destruct A as ((fs & p & HI) & A2 & A3). rewrite B in HI.
  destruct (w_negotiated c && wcomp (s1 <| nextid := S (nextid s1) |>) && is_data_ty ty) eqn:EN;
    inversion H; subst e s'; clear H.
  - split; [|intros _ _; rewrite <- WC; exact EN].
    apply andb_true_iff in EN. destruct EN as [EN ED]. apply andb_true_iff in EN. destruct EN as [EN _].
    split; [|split].
    + exists fs, p.
      match goal with |- Inv c ?s' (cur ?s') fs p =>
        change (cur s') with (Some ({| m_id := nextid s1; m_buf := []; m_ftype := ty; m_compress := false; m_err := None |} <| m_compress := true |>)) end.
      apply (install_inv c s1 _ _ fs p HI); try reflexivity.
      constructor; wsimpl; [reflexivity|exact V1|cbn; lia|intros _; auto].
      exact V2.
    + intros _ m Hm. eexists. split; [reflexivity|]. wsimpl. inversion Hm. wsimpl.
      repeat split; try reflexivity. cbn. lia.
    + intros N. rewrite N in EN. discriminate.
  - split; [|intros _ X; discriminate X].
    split; [|split].
    + exists fs, p.
      match goal with |- Inv c ?s' (cur ?s') fs p =>
        change (cur s') with (Some {| m_id := nextid s1; m_buf := []; m_ftype := ty; m_compress := false; m_err := None |}) end.
      apply (install_inv c s1 _ _ fs p HI); try reflexivity.
      constructor; wsimpl; [reflexivity|exact V1|cbn; lia|intros X; discriminate X].
      exact V2.
    + intros X. discriminate X.
    + intros _. reflexivity.
Qed.

Lemma app_write_inv c sv p wc s e s' : capok c -> small p -> Forall small wc ->
  WInv c s -> app_write c sv p wc s = (e, s') ->
  WInv c s' /\ (cur_flate s' = true -> cur_flate s = true).
Proof.
  intros HCap HS HSs HW H. unfold app_write in H.
  destruct (Writer.app s) as [id|]; [|inversion H; subst; split; [exact HW|auto]].
  destruct (app_flate s).
  - destruct (fl s) as [f|] eqn:EF; [|inversion H; subst; split; [exact HW|auto]].
    destruct (Nat.eqb (f_id f) id); [|inversion H; subst; split; [exact HW|auto]].
    eapply flate_write_inv; eassumption.
  - destruct (is_cur id s); [|inversion H; subst; split; [exact HW|auto]].
    destruct sv.
    + destruct (mw_write_string_inv fa c p s e s' HCap (proj1 HW) H) as (A1&A2&A3&A4).
      split; [eapply WInv_crel; eassumption|apply A2].
    + destruct (mw_write_inv fa c p s e s' HCap HS (proj1 HW) H) as (A1&A2&A3&A4).
      split; [eapply WInv_crel; eassumption|apply A2].
Qed.

Lemma app_read_from_inv c chunks s e s' : capok c ->
  WInv c s -> app_read_from c chunks s = (e, s') -> WInv c s'.
Proof.
  intros HCap HW H. unfold app_read_from in H.
  destruct (Writer.app s) as [id|]; [|inversion H; subst; exact HW].
  destruct (app_flate s); [inversion H; subst; exact HW|].
  destruct (is_cur id s); [|inversion H; subst; exact HW].
  destruct (read_from_inv fa c HCap _ chunks s e s' (proj1 HW) H) as (A1&A2&A3&A4).
  eapply WInv_crel; eassumption.
Qed.

Lemma app_close_inv c cc s e s' : capok c -> Forall small cc ->
  tail_at s cc ->
  WInv c s -> app_close c cc s = (e, s') -> WInv c s'.
Proof.
  intros HCap HS HT HW H. unfold app_close in H.
  destruct (Writer.app s) as [id|]; [|inversion H; subst; exact HW].
  destruct (app_flate s).
  - destruct (fl s) as [f|] eqn:EF; [|inversion H; subst; exact HW].
    destruct (Nat.eqb (f_id f) id); [|inversion H; subst; exact HW].
    eapply flate_close_inv; eassumption.
  - destruct (is_cur id s); [|inversion H; subst; exact HW].
    destruct (mw_close_inv fa c s e s' HCap (proj1 HW) H) as (A1&A2&A3&A4).
    eapply WInv_crel; eassumption.
Qed.

Lemma write_message_inv c ty d ic wc cc s e s' : capok c ->
  small d -> Forall small ic -> Forall small wc -> Forall small cc ->
  tail_at s ic -> (w_negotiated c && wcomp s && is_data_ty ty = true -> tail_ok cc) ->
  WInv c s -> write_message c ty d ic wc cc s = (e, s') -> WInv c s'.
Proof.
  intros HCap Sd Sic Swc Scc HTi HTc HW H. unfold write_message in H.
  destruct (w_server c && (negb (w_negotiated c) || negb (wcomp s))).
  - (* the server fast path: one frame, buffer + extra *)
    destruct (begin_message c ty ic s) as [e1 s1] eqn:EB.
    destruct (begin_message_inv c ty ic s e1 s1 HCap Sic HTi HW EB) as (A & B & C).
    destruct e1 as [e1|]; [inversion H; subst; exact A|].
    destruct (valid_of_is ty (C eq_refl)) as [V1 V2].
    unfold new_mw in H. cbv beta iota zeta in H.
    destruct A as ((fs & p & HI) & A2 & A3). rewrite B in HI.
    set (n := N.min (cap c) (blen d)) in *.
    set (m := {| m_id := nextid s1; m_buf := []; m_ftype := ty; m_compress := false; m_err := None |}
               <| m_buf := takeN n d |>) in *.
    set (s2 := s1 <| nextid := S (nextid s1) |> <| cur := None |>) in *.
    assert (HI2 : Inv c s2 (Some m) fs p).
    { apply (install_inv c s1 s2 m fs p HI); try reflexivity; [|exact V2].
      constructor; [reflexivity|exact V1| |intros X; discriminate X].
      change (m_buf m) with (takeN n d). rewrite blen_takeN. subst n. lia. }
    assert (HB : blen (m_buf m) + blen (dropN n d) < 2^63).
    { change (m_buf m) with (takeN n d). rewrite blen_takeN, blen_dropN. unfold small in Sd. lia. }
    destruct (flush_frame_inv fa c true (dropN n d) m s2 fs p HI2 HB e s' H) as (R1&R2&R3&R4&R5).
    assert (RC : cur s' = None).
    { destruct (cur s') as [m'|] eqn:E; [|reflexivity]. destruct (R4 m' eq_refl) as (_&X&_). discriminate. }
    apply WInv_cur_none; [exact R1|exact RC|].
    intros N. destruct (cur_flate s') eqn:E; [|reflexivity]. rewrite <- (A3 N). symmetry.
    change (cur_flate s1) with (cur_flate s2). apply R3. reflexivity.
  - destruct (next_writer c ty ic s) as [e1 s1] eqn:E1.
    destruct (next_writer_inv c ty ic s e1 s1 HCap Sic HTi HW E1) as [W1 N1].
    destruct e1 as [e1|]; [inversion H; subst; exact W1|].
    destruct (app_write c false d wc s1) as [e2 s2] eqn:E2.
    destruct (app_write_inv c false d wc s1 e2 s2 HCap Sd Swc W1 E2) as [W2 N2].
    destruct e2 as [e2|]; [inversion H; subst; exact W2|].
    assert (HT2 : tail_at s2 cc).
    { intros [X _]. apply HTc. apply (N1 eq_refl). apply N2. exact X. }
    apply (app_close_inv c cc s2 e s' HCap Scc HT2 W2 H).
Qed.

(* ------------------------------------------------------------------------------------------ *)
(* programs                                                                                   *)
(* ------------------------------------------------------------------------------------------ *)
Definition op_small (o:wop) : Prop :=
  match o with
  | WMessage _ d ic wc cc => small d /\ Forall small ic /\ Forall small wc /\ Forall small cc
  | WNext _ ic => Forall small ic
  | WWrite d wc | WWriteString d wc => small d /\ Forall small wc
  | WClose cc => Forall small cc
  | _ => True
  end.

(* every oracle for what flate.Writer emits on Close ends with the sync-flush marker *)
Definition op_flate_ok (o:wop) : Prop :=
  match o with
  | WMessage _ _ ic _ cc => tail_ok ic /\ tail_ok cc
  | WNext _ ic => tail_ok ic
  | WClose cc => tail_ok cc
  | _ => True
  end.

(* the same, asked only of the oracles that are actually consumed in state [s] *)
Definition op_flate_ok_at (c:wcfg) (s:wst) (o:wop) : Prop :=
  match o with
  | WMessage ty _ ic _ cc =>
      tail_at s ic /\ (w_negotiated c && wcomp s && is_data_ty ty = true -> tail_ok cc)
  | WNext _ ic => tail_at s ic
  | WClose cc => tail_at s cc
  | _ => True
  end.

Fixpoint flate_good (c:wcfg) (s:wst) (ops:list wop) : Prop :=
  match ops with
  | [] => True
  | o :: r => op_flate_ok_at c s o /\ flate_good c (snd (wstep c s o)) r
  end.

Lemma op_flate_ok_at_of c s o : op_flate_ok o -> op_flate_ok_at c s o.
Proof. destruct o; cbn; unfold tail_at; tauto. Qed.

Lemma flate_good_of c ops : forall s, Forall op_flate_ok ops -> flate_good c s ops.
Proof.
  induction ops as [|o r IH]; intros s H; cbn [flate_good]; [exact I|].
  inversion H; subst. split; [apply op_flate_ok_at_of; assumption|apply IH; assumption].
Qed.

Lemma op_flate_ok_at_plain c s o : WInv c s -> w_negotiated c = false -> op_flate_ok_at c s o.
Proof.
  intros (_ & _ & W3) N.
  assert (T : forall cc, tail_at s cc).
  { intros cc [X _]. rewrite (W3 N) in X. discriminate. }
  destruct o; cbn; auto. split; [apply T|]. rewrite N. cbn. intros X; discriminate X.
Qed.

Definition op_not_prepared (o:wop) : Prop :=
  match o with WPreparedFrame _ _ => False | _ => True end.

Lemma wstep_inv c s o : capok c -> op_small o -> (w_negotiated c = false \/ op_flate_ok_at c s o) ->
  op_not_prepared o -> WInv c s -> WInv c (snd (wstep c s o)).
Proof.
  intros HCap HS HT0 HP HW.
  assert (HT : op_flate_ok_at c s o).
  { destruct HT0 as [N|X]; [apply op_flate_ok_at_plain; assumption|exact X]. }
  clear HT0. destruct o as [ty d ic wc cc|ty ic|d wc|d wc|ch|cc|ty d dl|dl|b|l|ty fr];
    cbn [wstep op_small op_flate_ok_at op_not_prepared] in *.
  - destruct (write_message c ty d ic wc cc s) as [e s'] eqn:E. cbn [snd].
    destruct HS as (S1&S2&S3&S4). destruct HT as [T1 T2].
    apply (write_message_inv c ty d ic wc cc s e s' HCap S1 S2 S3 S4 T1 T2 HW E).
  - destruct (next_writer c ty ic s) as [e s'] eqn:E. cbn [snd].
    apply (next_writer_inv c ty ic s e s' HCap HS HT HW E).
  - destruct (app_write c false d wc s) as [e s'] eqn:E. cbn [snd]. destruct HS as [S1 S2].
    apply (app_write_inv c false d wc s e s' HCap S1 S2 HW E).
  - destruct (app_write c true d wc s) as [e s'] eqn:E. cbn [snd]. destruct HS as [S1 S2].
    apply (app_write_inv c true d wc s e s' HCap S1 S2 HW E).
  - destruct (app_read_from c ch s) as [e s'] eqn:E. cbn [snd].
    apply (app_read_from_inv c ch s e s' HCap HW E).
  - destruct (app_close c cc s) as [e s'] eqn:E. cbn [snd].
    apply (app_close_inv c cc s e s' HCap HS HT HW E).
  - destruct (write_control c ty d dl s) as [e s'] eqn:E. cbn [snd].
    destruct HW as (W1 & W2 & W3).
    destruct (write_control_inv fa c ty d dl s e s' W1 E) as (A1&A2&A3&A4).
    split; [exact A1|split; [|rewrite A4; exact W3]].
    intros X m Hm. rewrite A4 in X. rewrite A2 in Hm. rewrite A3. apply (W2 X m Hm).
  - cbn [snd]. destruct HW as (W1 & W2 & W3). split; [|split; [exact W2|exact W3]].
    apply (CInv_same fa c s _ W1); reflexivity.
  - cbn [snd]. destruct HW as (W1 & W2 & W3). split; [|split; [exact W2|exact W3]].
    apply (CInv_same fa c s _ W1); reflexivity.
  - destruct (valid_level l); cbn [snd]; [|exact HW].
    destruct HW as (W1 & W2 & W3). split; [|split; [exact W2|exact W3]].
    apply (CInv_same fa c s _ W1); reflexivity.
  - contradiction.
Qed.

Lemma wrun_inv c ops : capok c -> forall s,
  Forall op_small ops -> (w_negotiated c = false \/ flate_good c s ops) ->
  Forall op_not_prepared ops -> WInv c s -> WInv c (snd (wrun c s ops)).
Proof.
  intros HCap. induction ops as [|o r IH]; intros s HS HT HP HW; cbn [wrun].
  - exact HW.
  - inversion HS; subst. inversion HP; subst.
    assert (HT1 : w_negotiated c = false \/ op_flate_ok_at c s o).
    { destruct HT as [N|HT]; [left; exact N|right; apply HT]. }
    assert (HT2 : w_negotiated c = false \/ flate_good c (snd (wstep c s o)) r).
    { destruct HT as [N|HT]; [left; exact N|right; apply HT]. }
    pose proof (wstep_inv c s o HCap H1 HT1 H3 HW) as W1.
    destruct (wstep c s o) as [e s1]. cbn [snd] in W1, HT2.
    specialize (IH s1 H2 HT2 H4 W1). destruct (wrun c s1 r) as [es s2]. exact IH.
Qed.

End Fa.
