(* C02, second half, on the model: with no compression negotiated and no transport fault, the
   events (RFC 6455 5.4 defragmentation) carried by the frames the write path puts on the wire
   are exactly the output of the ABSTRACT writer (Spec/WriterSpec.v) run on the program with the
   results the calls actually returned: every write call that reported success contributed
   exactly its message, one wire message per API-level message, in call order.  Both roles
   (client: masked frames; server: large-write direct path and WriteMessage fast path),
   WriteMessage / NextWriter / Write / WriteString / ReadFrom / Close / WriteControl, implicit
   closes by the next NextWriter / WriteMessage, failing operations, the state after a close
   frame.

   Main results (all closed under the global context), for EVERY write program (no condition on
   how control-type writers are closed):
   - [wire_events_and_boundary]          the equation, plus: no close sent and nothing left open
                                         (abstract side) => the wire ends at a message boundary
   - [wire_events_are_the_sent_messages] the equation
   - [wire_wellformed_and_events]        combined with the first half (WriterWireP)
   - [abstract_flags_exact]              a_dead / a_open of the abstract run against werr / cur of
                                         the model
   - [wire_events_data_next]             (former corollary for NextWriter on data types only; now
                                         an instance of the equation)
   - [ctl_writer_overflow_then_implicit_close], [ctl_writer_too_long_then_implicit_close],
     [ctl_writer_implicit_close_sends], [close_writer_implicit_close]: the corner cases of
     control-type writers (a failed Write abandons the message; the implicit close drops a
     control message longer than 125 bytes; an implicit close that sends a close message closes
     the connection), model and abstract writer agree;
   - [empty_buffer_needed]: the remaining side condition is necessary (concrete run).

   Side condition beyond those of WriterWireP.wire_wellformed:
   - [14 < w_bufsize c]: the write buffer has room for at least one payload byte (otherwise the
     copy loop of Write cannot make progress).
   The former side condition [ctl_writers_closed] (a writer obtained from NextWriter for a
   control type is closed by an explicit Close) is no longer needed: Spec/WriterSpec.v now
   describes a failed Write and the implicit close exactly.  Its definition is kept below.

   Structure: live primitives (conn_write, flushFrame: the exact frame), the copy loops, the
   abstract writer by projections, the ghost invariant [GInv], one step, programs. *)
Require Import WS.Base.Bytes WS.gen.Consts WS.Spec.Frame WS.Spec.WriterSpec WS.Proofs.FrameP WS.Model.Writer WS.Cases.WriterCase.
From RecordUpdate Require Import RecordSet.
Import RecordSetNotations.
Require Import WS.Proofs.WWBase WS.Proofs.WWInv WS.Proofs.WWStep WS.Proofs.WWFlate WS.Proofs.WWDead WS.Proofs.WriterWireP.
Require WS.Proofs.WriterStateP.
Ltac Zify.zify_post_hook ::= Z.div_mod_to_equations.

(* ------------------------------------------------------------------------------------------ *)
(* live primitives: no fault plan, no pending write error                                     *)
(* ------------------------------------------------------------------------------------------ *)
Lemma conn_write_live ft dl masked mk buf1 s e s' :
  conn_write ft dl masked mk buf1 s = (e, s') -> werr s = None -> fail_at s = None -> Forall len4 (keys s) ->
  exists key, (if masked then len4 key else key = []) /\
    e = None /\ wire s' = wire s ++ mk key ++ buf1 /\ Forall len4 (keys s') /\ fail_at s' = None /\
    WriterStateP.core s' = WriterStateP.core s /\
    werr s' = (if ft =? c_CloseMessage then Some WCloseSent else None).
Proof.
  intros H HE HF HK.
  pose proof (WWBase.conn_write_spec _ _ _ _ _ _ _ _ H HK) as (HK' & key & W & Hkey & (C1&C2&C3&C4&C5) & HM).
  pose proof (WriterStateP.conn_write_spec _ _ _ _ _ _ _ _ H) as [HC HP].
  rewrite HE in HM. exists key. split; [exact Hkey|].
  destruct HM as [(-> & ->)|(_ & _ & X & _)]; [|rewrite HF in X; contradiction].
  split; [reflexivity|]. split; [exact C5|]. split; [exact HK'|]. split; [congruence|]. split; [exact HC|].
  destruct HP as [(e0 & X & _)|(_ & g & _ & _ & Y & _)]; [congruence|exact Y].
Qed.

Definition ntr (e:werror) : Prop := match e with WTransport _ => False | _ => True end.

Record Pst (s:wst) : Prop := {
  p_fa : fail_at s = None;
  p_keys : Forall len4 (keys s);
  p_ended : Forall (fun x : nat * werror => ntr (snd x)) (ended s);
  p_af : app_flate s = false;
  p_cf : cur_flate s = false
}.

Lemma Pst_core s s' : Pst s -> WriterStateP.core s' = WriterStateP.core s -> fail_at s' = None ->
  Forall len4 (keys s') -> Pst s'.
Proof.
  intros [A B C D E] HC HF HK. constructor; try assumption.
  - rewrite (WriterStateP.core_ended _ _ HC). exact C.
  - rewrite (WriterStateP.core_app_flate _ _ HC). exact D.
  - rewrite (WriterStateP.core_cur_flate _ _ HC). exact E.
Qed.

Lemma end_message_more c e m s : m_err m = None ->
  let s' := end_message c e m s in
  Writer.app s' = Writer.app s /\ app_flate s' = app_flate s /\ ended s' = (m_id m, e) :: ended s.
Proof.
  intros H. unfold end_message. rewrite H. cbv zeta. destruct (w_pooled c); unfold log; wsimpl; auto.
Qed.

Lemma Pst_end c e m s : Pst s -> m_err m = None -> ntr e -> Pst (end_message c e m s).
Proof.
  intros [A B C D E] HM HN.
  destruct (end_message_eff c e m s HM) as (E1&E2&E3&E4&E5&E6&E7).
  destruct (end_message_more c e m s HM) as (F1&F2&F3).
  constructor.
  - rewrite E4. exact A.
  - rewrite E6. exact B.
  - rewrite F3. constructor; [exact HN|exact C].
  - rewrite F2. exact D.
  - exact E2.
Qed.

(* ------------------------------------------------------------------------------------------ *)
(* flushFrame on a live connection: the exact frame                                           *)
(* ------------------------------------------------------------------------------------------ *)
Lemma flush_live c final extra m s e s' :
  Pst s -> werr s = None -> m_err m = None -> m_compress m = false ->
  (w_server c = false -> extra = []) ->
  flush_frame c final extra m s = (e, s') ->
  Pst s' /\ Writer.app s' = Writer.app s /\
  if is_control_ty (m_ftype m) && (negb final || (125 <? blen (m_buf m ++ extra))) then
     e = Some WInvalidControl /\ wire s' = wire s /\ werr s' = None /\ cur s' = None
  else exists mk, role_key c mk /\
     e = None /\ wire s' = wire s ++ encode_frame (mkf final (m_ftype m) 0 mk (m_buf m ++ extra)) /\
     werr s' = (if m_ftype m =? 8 then Some WCloseSent else None) /\
     if final then cur s' = None else
       exists m', cur s' = Some m' /\ m_id m' = m_id m /\ m_buf m' = [] /\ m_ftype m' = 0 /\
                  m_err m' = None /\ m_compress m' = false.
Proof.
  intros HP HE Merr Mcomp Hex H.
  unfold flush_frame in H. cbv zeta in H.
  set (m1 := m <| m_compress := false |>) in *.
  set (s1 := s <| cur := Some m1 |>) in *.
  assert (Merr1 : m_err m1 = None) by exact Merr.
  rewrite <- blen_app in H.
  set (pl := m_buf m ++ extra) in *.
  change c_maxControlFramePayloadSize with 125 in H.
  destruct (is_control_ty (m_ftype m) && (negb final || (125 <? blen pl))) eqn:EC.
  { inversion H; subst e s'. clear H.
    destruct (end_message_eff c WInvalidControl m s Merr) as (E1&E2&E3&E4&E5&E6&E7).
    destruct (end_message_more c WInvalidControl m s Merr) as (F1&F2&F3).
    split; [apply Pst_end; [exact HP|exact Merr|exact I]|]. split; [exact F1|].
    split; [reflexivity|]. split; [exact E7|]. split; [rewrite E5; exact HE|exact E1]. }
  rewrite b0_arith, Mcomp in H.
  assert (S1 : wire s1 = wire s /\ werr s1 = werr s /\ keys s1 = keys s /\ fail_at s1 = fail_at s)
    by (repeat split; reflexivity).
  destruct S1 as (S1w & S1e & S1k & S1f).
  assert (P1 : Pst s1) by (destruct HP; constructor; assumption).
  assert (Common : forall masked (mk:bytes->bytes) buf1 e0 s2,
    conn_write (m_ftype m1) (deadline s1) masked mk buf1 s1 = (e0, s2) ->
    (forall key, (if masked then len4 key else key = []) ->
       role_key c (if masked then Some key else None) /\
       mk key ++ buf1 = encode_frame (mkf final (m_ftype m) 0 (if masked then Some key else None) pl)) ->
    match e0 with
    | Some e0 => (Some e0, end_message c e0 m1 s2)
    | None => if final then (None, end_message c WWriteClosed m1 s2)
              else (None, s2 <| cur := Some (m1 <| m_buf := [] |> <| m_ftype := c_continuationFrame |>) |>)
    end = (e, s') ->
    Pst s' /\ Writer.app s' = Writer.app s /\
    exists mk, role_key c mk /\
     e = None /\ wire s' = wire s ++ encode_frame (mkf final (m_ftype m) 0 mk pl) /\
     werr s' = (if m_ftype m =? 8 then Some WCloseSent else None) /\
     if final then cur s' = None else
       exists m', cur s' = Some m' /\ m_id m' = m_id m /\ m_buf m' = [] /\ m_ftype m' = 0 /\
                  m_err m' = None /\ m_compress m' = false).
  { intros masked mk buf1 e0 s2 HCW Henc Hres.
    apply conn_write_live in HCW; [|rewrite S1e; exact HE|rewrite S1f; apply HP|rewrite S1k; apply HP].
    destruct HCW as (key & Hkey & -> & HW & HK2 & HF2 & HC2 & HE2).
    destruct (Henc key Hkey) as [Hrole Hfr]. rewrite Hfr, S1w in HW.
    assert (P2 : Pst s2) by (apply (Pst_core s1 s2 P1 HC2 HF2 HK2)).
    assert (A2 : Writer.app s2 = Writer.app s) by (rewrite (WriterStateP.core_app _ _ HC2); reflexivity).
    change (m_ftype m1) with (m_ftype m) in HE2. change c_CloseMessage with 8 in HE2.
    destruct final.
    - inversion Hres; subst e s'. clear Hres.
      destruct (end_message_eff c WWriteClosed m1 s2 Merr1) as (E1&E2&E3&E4&E5&E6&E7).
      destruct (end_message_more c WWriteClosed m1 s2 Merr1) as (F1&F2&F3).
      split; [apply Pst_end; [exact P2|exact Merr1|exact I]|]. split; [congruence|].
      eexists. split; [exact Hrole|]. split; [reflexivity|]. split; [rewrite E7; exact HW|].
      split; [rewrite E5; exact HE2|exact E1].
    - inversion Hres; subst e s'. clear Hres.
      set (m2 := m1 <| m_buf := [] |> <| m_ftype := c_continuationFrame |>).
      set (s3 := s2 <| cur := Some m2 |>).
      split; [destruct P2; constructor; assumption|]. split; [exact A2|].
      eexists. split; [exact Hrole|]. split; [reflexivity|]. split; [exact HW|]. split; [exact HE2|].
      exists m2. repeat split; try reflexivity; assumption. }
  destruct (w_server c) eqn:ES.
  - destruct (conn_write (m_ftype m1) (deadline s1) false
               (fun _ : bytes => frame_header (128 * b2n final + 16 * 0 + m_ftype m) 0
                                              (blen pl) ++ m_buf m1) extra s1) as [e0 s2] eqn:HCW.
    eapply (Common false _ extra e0 s2 HCW); [|exact H].
    intros key Hkey. split; [unfold role_key; rewrite ES; reflexivity|].
    rewrite <- (frame_header_enc final _ (m_ftype m) None pl _ eq_refl).
    cbn [mbit wpay]. subst pl. rewrite <- app_assoc. reflexivity.
  - pose proof (Hex eq_refl) as X. subst extra.
    destruct (conn_write (m_ftype m1) (deadline s1) true
                 (fun key : bytes => frame_header (128 * b2n final + 16 * 0 + m_ftype m)
                                                  c_maskBit (blen pl) ++ key ++ maskl key 0 (m_buf m1)) [] s1)
        as [e0 s2] eqn:HCW.
    eapply (Common true _ [] e0 s2 HCW); [|exact H].
    intros key Hkey. split; [unfold role_key; rewrite ES; exists key; auto|].
    rewrite <- (frame_header_enc final _ (m_ftype m) (Some key) pl _ eq_refl).
    cbn [mbit wpay]. subst pl. rewrite !app_nil_r. reflexivity.
Qed.

Definition sent_of_event (e:event) : sent :=
  match e with EMsg ty comp d => {| s_ty := ty; s_comp := comp; s_data := d; s_complete := true |}
             | ECtl op d => {| s_ty := op; s_comp := false; s_data := d; s_complete := true |} end.
Definition the_sent (t:N) (d:bytes) : sent := {| s_ty := t; s_comp := false; s_data := d; s_complete := true |}.

Definition mwok (c:wcfg) (m:mwr) : Prop := m_err m = None /\ m_compress m = false /\ blen (m_buf m) <= cap c.
Definition vty (t:N) : Prop := t = 1 \/ t = 2 \/ t = 8 \/ t = 9 \/ t = 10.

(* the open message as the application sees it (type [t], bytes accepted so far [acc]) against
   the decoder's accumulator [ae] and the message writer's buffer *)
Definition Open (t:N) (acc:bytes) (ae:eacc) (m:mwr) : Prop :=
  (ae = None /\ m_ftype m = t /\ acc = m_buf m) \/
  (is_control_ty t = false /\ m_ftype m = 0 /\ exists d0, ae = Some (t, false, d0) /\ acc = d0 ++ m_buf m).

Lemma vty_data t : vty t -> is_control_ty t = false -> t = 1 \/ t = 2.
Proof. intros [->|[->|[->|[->| ->]]]] H; cbn in H; try discriminate; auto. Qed.

Lemma vty_ctl t : vty t -> is_control_ty t = true -> is_control t = true /\ (t = 8 \/ t = 9 \/ t = 10).
Proof. intros [->|[->|[->|[->| ->]]]] H; cbn in H; try discriminate; split; auto. Qed.

Lemma role_key_ok c mk : role_key c mk -> key_ok mk.
Proof.
  unfold role_key, key_ok. destruct (w_server c).
  - intros ->. exact I.
  - intros (key & -> & HK). exact HK.
Qed.

Lemma Open_ftype t acc ae m : vty t -> Open t acc ae m ->
  (m_ftype m = t \/ (m_ftype m = 0 /\ is_control_ty t = false)) /\ m_ftype m < 16 /\
  (is_control_ty t = false -> is_control_ty (m_ftype m) = false /\ is_control (m_ftype m) = false /\ (m_ftype m =? 8) = false).
Proof.
  intros V [(A & B & C)|(A & B & _)].
  - split; [left; exact B|]. rewrite B. split; [unfold vty in V; lia|].
    intros X. destruct (vty_data t V X) as [-> | ->]; repeat split; reflexivity.
  - split; [right; auto|]. rewrite B. split; [lia|]. intros _. repeat split; reflexivity.
Qed.

Lemma flush_open c extra m s e s' t acc ae :
  capok c -> Pst s -> werr s = None -> mwok c m -> vty t -> is_control_ty t = false -> Open t acc ae m ->
  (w_server c = false -> extra = []) -> small extra ->
  flush_frame c false extra m s = (e, s') ->
  e = None /\ Pst s' /\ werr s' = None /\ Writer.app s' = Writer.app s /\
  exists f m', wf_frame f /\ wire s' = wire s ++ encode_frame f /\
     events_from ae [f] = ([], Some (t, false, acc ++ extra)) /\
     cur s' = Some m' /\ m_id m' = m_id m /\ mwok c m' /\ m_buf m' = [] /\ m_ftype m' = 0.
Proof.
  intros HCap HP HE (M1 & M2 & M3) V HD HO Hex HS H.
  destruct (Open_ftype t acc ae m V HO) as (_ & FT & FD). destruct (FD HD) as (F1 & F2 & F3).
  destruct (flush_live c false extra m s e s' HP HE M1 M2 Hex H) as (P' & A' & R).
  rewrite F1 in R. cbn [andb] in R. rewrite F3 in R.
  destruct R as (mk & HR & -> & HW & HE' & m' & C1 & C2 & C3 & C4 & C5 & C6).
  split; [reflexivity|]. split; [exact P'|]. split; [exact HE'|]. split; [exact A'|].
  exists (mkf false (m_ftype m) 0 mk (m_buf m ++ extra)), m'.
  split.
  { apply wf_mkf; [lia|exact FT| |apply (role_key_ok c); exact HR].
    rewrite blen_app. unfold capok, small in *. lia. }
  split; [exact HW|]. split.
  { rewrite events_from_more by (cbn [mkf opcode fin]; auto). cbn [events_from].
    destruct HO as [(-> & B & ->)|(_ & B & d0 & -> & ->)].
    - cbn [acc_step mkf opcode rsv payload]. rewrite B. reflexivity.
    - cbn [acc_step mkf opcode rsv payload]. rewrite app_assoc. reflexivity. }
  split; [exact C1|]. split; [exact C2|]. split; [|split; assumption].
  split; [exact C5|]. split; [exact C6|]. rewrite C3. cbn. lia.
Qed.

Lemma flush_final_open c extra m s e s' t acc ae :
  capok c -> Pst s -> werr s = None -> mwok c m -> vty t -> Open t acc ae m ->
  (w_server c = false -> extra = []) -> small extra ->
  flush_frame c true extra m s = (e, s') ->
  Pst s' /\ Writer.app s' = Writer.app s /\ cur s' = None /\
  if is_control_ty t && (125 <? blen (acc ++ extra)) then
    e = Some WInvalidControl /\ wire s' = wire s /\ werr s' = None /\ ae = None
  else e = None /\ werr s' = (if t =? 8 then Some WCloseSent else None) /\
    exists f ev, wf_frame f /\ wire s' = wire s ++ encode_frame f /\
      events_from ae [f] = ([ev], None) /\ sent_of_event ev = the_sent t (acc ++ extra).
Proof.
  intros HCap HP HE (M1 & M2 & M3) V HO Hex HS H.
  destruct (Open_ftype t acc ae m V HO) as (_ & FT & FD).
  destruct (flush_live c true extra m s e s' HP HE M1 M2 Hex H) as (P' & A' & R).
  cbn [negb orb] in R.
  assert (HL : blen (m_buf m ++ extra) < 2^63).
  { rewrite blen_app. unfold capok, small in *. lia. }
  destruct HO as [(-> & B & ->)|(A & B & d0 & -> & ->)].
  - rewrite B in R.
    destruct (is_control_ty t && (125 <? blen (m_buf m ++ extra))) eqn:EC.
    + destruct R as (-> & R2 & R3 & R4). auto 10.
    + destruct R as (mk & HR & -> & HW & HE' & HC').
      split; [exact P'|]. split; [exact A'|]. split; [exact HC'|]. split; [reflexivity|]. split; [exact HE'|].
      exists (mkf true t 0 mk (m_buf m ++ extra)).
      destruct (is_control_ty t) eqn:ET.
      * destruct (vty_ctl t V ET) as [IC _].
        exists (ECtl t (m_buf m ++ extra)). split; [apply wf_mkf; [lia|unfold vty in V; lia|exact HL|apply (role_key_ok c); exact HR]|].
        split; [exact HW|]. split; [|reflexivity].
        rewrite events_from_ctl by exact IC. reflexivity.
      * destruct (vty_data t V ET) as [Et|Et].
        -- exists (EMsg t false (m_buf m ++ extra)).
           split; [apply wf_mkf; [lia|lia|exact HL|apply (role_key_ok c); exact HR]|].
           split; [exact HW|]. split; [|reflexivity].
           rewrite events_from_final by (rewrite Et; reflexivity). reflexivity.
        -- exists (EMsg t false (m_buf m ++ extra)).
           split; [apply wf_mkf; [lia|lia|exact HL|apply (role_key_ok c); exact HR]|].
           split; [exact HW|]. split; [|reflexivity].
           rewrite events_from_final by (rewrite Et; reflexivity). reflexivity.
  - rewrite B in R. cbn [is_control_ty N.eqb andb orb c_CloseMessage c_PingMessage c_PongMessage] in R.
    rewrite A. cbn [andb].
    destruct R as (mk & HR & -> & HW & HE' & HC').
    split; [exact P'|]. split; [exact A'|]. split; [exact HC'|]. split; [reflexivity|].
    split. { destruct (vty_data t V A) as [-> | ->]; exact HE'. }
    exists (mkf true 0 0 mk (m_buf m ++ extra)), (EMsg t false ((d0 ++ m_buf m) ++ extra)).
    split; [apply wf_mkf; [lia|lia|exact HL|apply (role_key_ok c); exact HR]|].
    split; [exact HW|]. split; [|reflexivity].
    rewrite events_from_final by reflexivity.
    cbn [acc_step emsg_of mkf payload events_from fst snd]. rewrite app_assoc. reflexivity.
Qed.

(* ------------------------------------------------------------------------------------------ *)
(* Write / WriteString / ReadFrom on a live connection                                        *)
(* ------------------------------------------------------------------------------------------ *)
Definition wr_post (c:wcfg) (s:wst) (m:mwr) (t:N) (acc:bytes) (ae:eacc) (p:bytes)
                   (e:option werror) (s':wst) : Prop :=
  Pst s' /\ werr s' = None /\ Writer.app s' = Writer.app s /\
  ((e = None /\ exists fs' ae' m', cur s' = Some m' /\ m_id m' = m_id m /\ mwok c m' /\
       wire s' = wire s ++ encode_frames fs' /\ Forall wf_frame fs' /\
       events_from ae fs' = ([], ae') /\ Open t (acc ++ p) ae' m')
   \/ (is_control_ty t = true /\ e = Some WInvalidControl /\ cur s' = None /\ wire s' = wire s /\ ae = None)).

Lemma Open_append t acc ae m d :
  Open t acc ae m -> Open t (acc ++ d) ae (m <| m_buf := m_buf m ++ d |>).
Proof.
  intros [(A & B & C)|(A & B & d0 & C & D)].
  - left. subst acc. auto.
  - right. split; [exact A|]. split; [exact B|]. exists d0. split; [exact C|]. subst acc. wsimpl.
    rewrite app_assoc. reflexivity.
Qed.

Lemma wr_post_flush_then c s s1 s' m m1 t acc ae f extra p e :
  wire s1 = wire s ++ encode_frame f -> wf_frame f -> Writer.app s1 = Writer.app s ->
  events_from ae [f] = ([], Some (t, false, acc ++ extra)) -> m_id m1 = m_id m ->
  wr_post c s1 m1 t (acc ++ extra) (Some (t, false, acc ++ extra)) p e s' ->
  is_control_ty t = false ->
  wr_post c s m t acc ae (extra ++ p) e s'.
Proof.
  intros HW Hwf HA HEv HId (P' & E' & A' & R) HD.
  split; [exact P'|]. split; [exact E'|]. split; [congruence|].
  destruct R as [(-> & fs' & ae' & m' & C1 & C2 & C3 & C4 & C5 & C6 & C7)|(X & _)]; [|congruence].
  left. split; [reflexivity|]. exists (f :: fs'), ae', m'.
  split; [exact C1|]. split; [congruence|]. split; [exact C3|].
  split. { rewrite C4, HW, encode_frames_cons, app_assoc. reflexivity. }
  split; [constructor; assumption|]. split.
  { change (f :: fs') with ([f] ++ fs'). rewrite events_from_app, HEv. cbn [fst snd]. rewrite C6. reflexivity. }
  rewrite app_assoc. exact C7.
Qed.

Lemma copy_loop_live c : capok c -> 0 < cap c -> forall fuel p s m t acc ae e s',
  Pst s -> werr s = None -> cur s = Some m -> mwok c m -> vty t -> Open t acc ae m ->
  2 * blen p + (if cap c - blen (m_buf m) =? 0 then 1 else 0) <= N.of_nat fuel ->
  copy_loop fuel c p s = (e, s') ->
  wr_post c s m t acc ae p e s'.
Proof.
  intros HCap HPos. induction fuel as [|fuel IH]; intros p s m t acc ae e s' HP HE HC HM V HO HF H.
  - destruct p as [|x p']; cbn [copy_loop] in H.
    + inversion H; subst e s'. split; [exact HP|]. split; [exact HE|]. split; [reflexivity|].
      left. split; [reflexivity|]. exists [], ae, m. rewrite ?app_nil_r. cbn [encode_frames flat_map].
      rewrite ?app_nil_r. auto 10.
    + exfalso. unfold blen in HF. cbn [length] in HF. lia.
  - destruct p as [|x p']; cbn [copy_loop] in H.
    { inversion H; subst e s'. split; [exact HP|]. split; [exact HE|]. split; [reflexivity|].
      left. split; [reflexivity|]. exists [], ae, m. rewrite ?app_nil_r. cbn [encode_frames flat_map].
      rewrite ?app_nil_r. auto 10. }
    assert (Hpp : 0 < blen (x :: p')) by (unfold blen; cbn [length]; lia).
    set (pp := x :: p') in *. clearbody pp.
    rewrite HC in H.
    destruct (cap c - blen (m_buf m) =? 0) eqn:ER.
    + destruct (flush_frame c false [] m s) as [e1 s1] eqn:EF.
      assert (Hs : small []) by (unfold small; cbn; lia).
      destruct (is_control_ty t) eqn:ET.
      * (* a control writer cannot flush a non-final frame *)
        destruct HO as [(-> & B & ->)|(A & _)]; [|congruence].
        destruct HM as (M1 & M2 & M3).
        destruct (flush_live c false [] m s e1 s1 HP HE M1 M2 (fun _ => eq_refl) EF) as (P' & A' & R).
        rewrite B, ET in R. cbn [negb orb andb] in R. destruct R as (-> & R2 & R3 & R4).
        inversion H; subst e s'. split; [exact P'|]. split; [exact R3|]. split; [exact A'|].
        right. auto 10.
      * destruct (flush_open c [] m s e1 s1 t acc ae HCap HP HE HM V ET HO (fun _ => eq_refl) Hs EF)
          as (-> & P1 & E1 & A1 & f & m1 & Fwf & FW & FEv & FC & FId & FM & FB & FT).
        change pp with ([] ++ pp).
        apply (wr_post_flush_then c s s1 s' m m1 t acc ae f [] pp e FW Fwf A1 FEv FId); [|exact ET].
        apply (IH pp s1 m1 t (acc ++ []) _ e s' P1 E1 FC FM V); [| |exact H].
        -- right. split; [exact ET|]. split; [exact FT|]. exists (acc ++ []). split; [reflexivity|]. rewrite FB, !app_nil_r. reflexivity.
        -- rewrite FB. change (blen []) with 0. replace (cap c - 0 =? 0) with false by lia. lia.
    + set (n := N.min (cap c - blen (m_buf m)) (blen pp)) in *.
      set (m2 := m <| m_buf := m_buf m ++ takeN n pp |>) in *.
      set (s2 := s <| cur := Some m2 |>) in *.
      assert (HB : blen (m_buf m2) = blen (m_buf m) + n).
      { unfold m2. wsimpl. rewrite blen_app, blen_takeN. subst n. lia. }
      assert (P2 : Pst s2) by (destruct HP; constructor; assumption).
      assert (M2 : mwok c m2).
      { destruct HM as (M1 & M2 & M3). split; [exact M1|]. split; [exact M2|]. rewrite HB. subst n. lia. }
      assert (R2 : wr_post c s2 m2 t (acc ++ takeN n pp) ae (dropN n pp) e s').
      { apply (IH (dropN n pp) s2 m2 t _ ae e s' P2 HE eq_refl M2 V); [apply Open_append; exact HO| |exact H].
        rewrite blen_dropN, HB. subst n. destruct (cap c - (blen (m_buf m) + N.min (cap c - blen (m_buf m)) (blen pp)) =? 0); lia. }
      destruct R2 as (P' & E' & A' & R). split; [exact P'|]. split; [exact E'|]. split; [exact A'|].
      destruct R as [(-> & fs' & ae' & m' & C1 & C2 & C3 & C4 & C5 & C6 & C7)|(X1 & X2 & X3 & X4 & X5)].
      * left. split; [reflexivity|]. exists fs', ae', m'. rewrite <- app_assoc, takeN_app_dropN in C7. auto 10.
      * right. auto 10.
Qed.

Lemma concat_chunks_step n ch (rest:list bytes) :
  concat (match dropN n ch with [] => rest | _ => dropN n ch :: rest end) = dropN n ch ++ concat rest.
Proof. destruct (dropN n ch); reflexivity. Qed.

Lemma wr_post_nil c s m t acc ae :
  Pst s -> werr s = None -> cur s = Some m -> mwok c m -> Open t acc ae m ->
  wr_post c s m t acc ae [] None s.
Proof.
  intros HP HE HC HM HO. split; [exact HP|]. split; [exact HE|]. split; [reflexivity|].
  left. split; [reflexivity|]. exists [], ae, m. rewrite ?app_nil_r. cbn [encode_frames flat_map].
  rewrite ?app_nil_r. auto 10.
Qed.

(* bytes that went into the buffer first *)
Lemma wr_post_append c s s2 m m2 t acc ae d p e s' :
  Writer.app s2 = Writer.app s -> wire s2 = wire s -> m_id m2 = m_id m ->
  wr_post c s2 m2 t (acc ++ d) ae p e s' -> wr_post c s m t acc ae (d ++ p) e s'.
Proof.
  intros HA HW HI (P' & E' & A' & R). split; [exact P'|]. split; [exact E'|]. split; [congruence|].
  destruct R as [(-> & fs' & ae' & m' & C1 & C2 & C3 & C4 & C5 & C6 & C7)|(X1 & X2 & X3 & X4 & X5)].
  - left. split; [reflexivity|]. exists fs', ae', m'. rewrite <- app_assoc in C7.
    split; [exact C1|]. split; [congruence|]. split; [exact C3|]. split; [congruence|]. auto.
  - right. split; [exact X1|]. split; [exact X2|]. split; [exact X3|]. split; [congruence|exact X5].
Qed.

Lemma read_from_live c : capok c -> 0 < cap c -> forall fuel chunks s m t acc ae e s',
  Pst s -> werr s = None -> cur s = Some m -> mwok c m -> vty t -> Open t acc ae m ->
  2 * blen (concat chunks) + 2 * N.of_nat (length chunks) + (if cap c - blen (m_buf m) =? 0 then 1 else 0) + 1 <= N.of_nat fuel ->
  read_from fuel c chunks s = (e, s') ->
  wr_post c s m t acc ae (concat chunks) e s'.
Proof.
  intros HCap HPos. induction fuel as [|fuel IH]; intros chunks s m t acc ae e s' HP HE HC HM V HO HF H.
  - exfalso. lia.
  - cbn [read_from] in H. rewrite HC in H.
    destruct (cap c - blen (m_buf m) =? 0) eqn:ER.
    + (* the buffer is full: one byte of lookahead *)
      destruct chunks as [|[|b ch'] rest].
      { inversion H; subst e s'. cbn [concat]. apply wr_post_nil; assumption. }
      { destruct rest as [|r1 rest1].
        - inversion H; subst e s'. cbn [concat app]. apply wr_post_nil; assumption.
        - cbn [concat app]. apply (IH (r1 :: rest1) s m t acc ae e s' HP HE HC HM V HO); [|exact H].
          cbn [concat length app] in HF |- *. rewrite ER. rewrite ?app_nil_l in HF. lia. }
      destruct (flush_frame c false [] m s) as [e1 s1] eqn:EF.
      assert (Hs : small []) by (unfold small; cbn; lia).
      destruct (is_control_ty t) eqn:ET.
      * destruct HO as [(-> & B & ->)|(A & _)]; [|congruence].
        destruct HM as (M1 & M2 & M3).
        destruct (flush_live c false [] m s e1 s1 HP HE M1 M2 (fun _ => eq_refl) EF) as (P' & A' & R).
        rewrite B, ET in R. cbn [negb orb andb] in R. destruct R as (-> & R2 & R3 & R4).
        inversion H; subst e s'. split; [exact P'|]. split; [exact R3|]. split; [exact A'|].
        right. auto 10.
      * destruct (flush_open c [] m s e1 s1 t acc ae HCap HP HE HM V ET HO (fun _ => eq_refl) Hs EF)
          as (-> & P1 & E1 & A1 & f & m1 & Fwf & FW & FEv & FC & FId & FM & FB & FT).
        unfold put_byte in H. rewrite FC in H.
        set (m2 := m1 <| m_buf := m_buf m1 ++ [b] |>) in *.
        set (s2 := s1 <| cur := Some m2 |>) in *.
        assert (HB : blen (m_buf m2) = 1) by (unfold m2; wsimpl; rewrite FB; reflexivity).
        assert (P2 : Pst s2) by (destruct P1; constructor; assumption).
        assert (M2 : mwok c m2).
        { destruct FM as (M1 & M2 & M3). split; [exact M1|]. split; [exact M2|]. rewrite HB. lia. }
        assert (O1 : Open t (acc ++ []) (Some (t, false, acc ++ [])) m1).
        { right. split; [exact ET|]. split; [exact FT|]. exists (acc ++ []). split; [reflexivity|].
          rewrite FB, !app_nil_r. reflexivity. }
        assert (O2 : Open t ((acc ++ []) ++ [b]) (Some (t, false, acc ++ [])) m2) by (apply Open_append; exact O1).
        change (concat ((b :: ch') :: rest)) with ([] ++ ([b] ++ (ch' ++ concat rest))).
        apply (wr_post_flush_then c s s1 s' m m1 t acc ae f [] _ e FW Fwf A1 FEv FId); [|exact ET].
        apply (wr_post_append c s1 s2 m1 m2 t (acc ++ []) _ [b] _ e s'); try reflexivity.
        assert (Hcase : (ch' = [] /\ rest = [] /\ e = None /\ s' = s2) \/
                        read_from fuel c (match ch' with [] => rest | _ => ch' :: rest end) s2 = (e, s')).
        { destruct ch' as [|b1 ch1]; [destruct rest as [|r1 rest1]|];
            [left; inversion H; auto|right; exact H|right; exact H]. }
        clear H. destruct Hcase as [(-> & -> & -> & ->)|H].
        { cbn [concat app]. apply wr_post_nil; try assumption. reflexivity. }
        set (chunks' := match ch' with [] => rest | _ => ch' :: rest end) in *.
        assert (HCC : concat chunks' = ch' ++ concat rest) by (subst chunks'; destruct ch'; reflexivity).
        rewrite <- HCC.
        apply (IH chunks' s2 m2 t _ _ e s' P2 E1 eq_refl M2 V O2); [|exact H].
        rewrite HCC, blen_app, HB. cbn [concat length] in HF. rewrite blen_app in HF.
        assert (HL : N.of_nat (length chunks') <= N.of_nat (length rest) + 1).
        { subst chunks'. destruct ch'; cbn [length]; lia. }
        assert (HB1 : blen (b :: ch') = 1 + blen ch') by (unfold blen; cbn [length]; lia).
        destruct (cap c - 1 =? 0); lia.
    + destruct chunks as [|ch rest].
      { inversion H; subst e s'. cbn [concat]. apply wr_post_nil; assumption. }
      set (n := N.min (cap c - blen (m_buf m)) (blen ch)) in *.
      set (m2 := m <| m_buf := m_buf m ++ takeN n ch |>) in *.
      set (s2 := s <| cur := Some m2 |>) in *.
      assert (HB : blen (m_buf m2) = blen (m_buf m) + n).
      { unfold m2. wsimpl. rewrite blen_app, blen_takeN. subst n. lia. }
      assert (P2 : Pst s2) by (destruct HP; constructor; assumption).
      assert (M2 : mwok c m2).
      { destruct HM as (M1 & M2 & M3). split; [exact M1|]. split; [exact M2|]. rewrite HB. subst n. lia. }
      (* the source reported io.EOF together with this chunk and all of it went into the buffer *)
      assert (Hcase : (dropN n ch = [] /\ rest = [] /\ e = None /\ s' = s2) \/
                      read_from fuel c (match dropN n ch with [] => rest | _ => dropN n ch :: rest end) s2 = (e, s')).
      { destruct (dropN n ch) as [|r0 rem]; [destruct rest as [|r1 rest1]|];
          [left; inversion H; auto|right; exact H|right; exact H]. }
      clear H. destruct Hcase as [(D1 & D2 & -> & ->)|H].
      { split; [exact P2|]. split; [exact HE|]. split; [reflexivity|].
        left. split; [reflexivity|]. exists [], ae, m2.
        assert (Hch : takeN n ch = ch) by (rewrite <- (takeN_app_dropN n ch) at 2; rewrite D1, app_nil_r; reflexivity).
        subst rest. cbn [concat]. rewrite app_nil_r. cbn [encode_frames flat_map]. rewrite app_nil_r.
        split; [reflexivity|]. split; [reflexivity|]. split; [exact M2|]. split; [reflexivity|].
        split; [constructor|]. split; [reflexivity|].
        rewrite <- Hch at 1. apply Open_append. exact HO. }
      set (chunks' := match dropN n ch with [] => rest | _ => dropN n ch :: rest end) in *.
      assert (HCC : concat chunks' = dropN n ch ++ concat rest) by apply concat_chunks_step.
      assert (R2 : wr_post c s2 m2 t (acc ++ takeN n ch) ae (concat chunks') e s').
      { apply (IH chunks' s2 m2 t _ ae e s' P2 HE eq_refl M2 V); [apply Open_append; exact HO| |exact H].
        rewrite HCC, blen_app, blen_dropN, HB. cbn [concat length] in HF. rewrite blen_app in HF.
        assert (HL : N.of_nat (length chunks') <= N.of_nat (length rest) + (if blen ch - n =? 0 then 0 else 1)).
        { subst chunks'. pose proof (blen_dropN n ch) as X. destruct (dropN n ch) eqn:ED.
          - lia.
          - unfold blen in X at 1. cbn [length] in X |- *. destruct (blen ch - n =? 0) eqn:EZ; lia. }
        subst n.
        destruct (cap c - (blen (m_buf m) + N.min (cap c - blen (m_buf m)) (blen ch)) =? 0) eqn:E1;
          destruct (blen ch - N.min (cap c - blen (m_buf m)) (blen ch) =? 0) eqn:E2; lia. }
      destruct R2 as (P' & E' & A' & R). split; [exact P'|]. split; [exact E'|]. split; [exact A'|].
      destruct R as [(-> & fs' & ae' & m' & C1 & C2 & C3 & C4 & C5 & C6 & C7)|(X1 & X2 & X3 & X4 & X5)].
      * left. split; [reflexivity|]. exists fs', ae', m'.
        rewrite HCC, <- app_assoc, (app_assoc (takeN n ch)), takeN_app_dropN in C7. cbn [concat]. auto 10.
      * right. auto 10.
Qed.

Lemma wr_post_refused c s m t acc p e s' :
  Pst s -> werr s = None -> mwok c m -> m_ftype m = t -> is_control_ty t = true ->
  (w_server c = false -> p = []) ->
  flush_frame c false p m s = (e, s') -> wr_post c s m t acc None p e s'.
Proof.
  intros HP HE (M1 & M2 & M3) B ET Hex EF.
  destruct (flush_live c false p m s e s' HP HE M1 M2 Hex EF) as (P' & A' & R).
  rewrite B, ET in R. cbn [negb orb andb] in R. destruct R as (-> & R2 & R3 & R4).
  split; [exact P'|]. split; [exact R3|]. split; [exact A'|]. right. auto 10.
Qed.

Lemma mw_write_live c p s m t acc ae e s' : capok c -> 0 < cap c -> small p ->
  Pst s -> werr s = None -> cur s = Some m -> mwok c m -> vty t -> Open t acc ae m ->
  mw_write c p s = (e, s') -> wr_post c s m t acc ae p e s'.
Proof.
  intros HCap HPos HS HP HE HC HM V HO H. unfold mw_write in H. rewrite HC in H.
  destruct ((2 * w_bufsize c <? blen p) && w_server c) eqn:ED.
  - apply andb_true_iff in ED. destruct ED as [_ ES].
    assert (Hex : w_server c = false -> p = []) by (rewrite ES; discriminate).
    destruct (is_control_ty t) eqn:ET.
    + destruct HO as [(-> & B & ->)|(A & _)]; [|congruence].
      apply (wr_post_refused c s m t (m_buf m) p e s' HP HE HM B ET Hex H).
    + destruct (flush_open c p m s e s' t acc ae HCap HP HE HM V ET HO Hex HS H)
        as (-> & P1 & E1 & A1 & f & m1 & Fwf & FW & FEv & FC & FId & FM & FB & FT).
      split; [exact P1|]. split; [exact E1|]. split; [exact A1|]. left. split; [reflexivity|].
      exists [f], (Some (t, false, acc ++ p)), m1.
      split; [exact FC|]. split; [exact FId|]. split; [exact FM|].
      split. { rewrite FW. cbn [encode_frames flat_map]. rewrite app_nil_r. reflexivity. }
      split; [constructor; [exact Fwf|constructor]|]. split; [exact FEv|].
      right. split; [exact ET|]. split; [exact FT|]. exists (acc ++ p). rewrite FB, app_nil_r. auto.
  - apply (copy_loop_live c HCap HPos (loop_fuel c p) p s m t acc ae e s' HP HE HC HM V HO); [|exact H].
    unfold loop_fuel, blen. destruct (cap c - N.of_nat (length (m_buf m)) =? 0); lia.
Qed.

Lemma mw_write_string_live c p s m t acc ae e s' : capok c -> 0 < cap c ->
  Pst s -> werr s = None -> cur s = Some m -> mwok c m -> vty t -> Open t acc ae m ->
  mw_write_string c p s = (e, s') -> wr_post c s m t acc ae p e s'.
Proof.
  intros HCap HPos HP HE HC HM V HO H. unfold mw_write_string in H. rewrite HC in H.
  apply (copy_loop_live c HCap HPos (loop_fuel c p) p s m t acc ae e s' HP HE HC HM V HO); [|exact H].
  unfold loop_fuel, blen. destruct (cap c - N.of_nat (length (m_buf m)) =? 0); lia.
Qed.

(* ------------------------------------------------------------------------------------------ *)
(* the abstract writer, by projections                                                        *)
(* ------------------------------------------------------------------------------------------ *)
Definition ntrN (r:N) : Prop := (r =? 6) || (r =? 7) = false.
(* the implicit close of an open message: a control-type message that is too long is dropped *)
Definition adrop (t:N) (d:bytes) : bool := (8 <=? t) && (125 <? blen d).
Definition aflush_out (a:ast) : list sent :=
  match a_open a with
  | Some (t, c, d) => if adrop t d then [] else [{| s_ty := t; s_comp := c; s_data := d; s_complete := true |}]
  | None => []
  end.
(* ... and one that sends a close message closes the connection for writing *)
Definition aflush_closes (a:ast) : bool :=
  match a_open a with Some (t, _, d) => negb (adrop t d) && (t =? 8) | None => false end.
Definition open_not_close (a:ast) : Prop :=
  match a_open a with Some (t, _, _) => (t =? 8) = false | None => True end.

Lemma astep_msg a ty d r : a_dead a = false -> ntrN r ->
  let a' := astep false a (AMessage ty d) r in
  a_open a' = None /\
  a_out a' = (a_out a ++ aflush_out a) ++ (if r =? 0 then [the_sent ty d] else []) /\
  a_dead a' = aflush_closes a || ((r =? 0) && (ty =? 8)).
Proof.
  destruct a as [ao ac out dd]. unfold ntrN, aflush_out, aflush_closes, adrop. cbn [a_open a_comp a_out a_dead].
  intros -> HR. unfold astep. rewrite HR. cbn [a_open a_comp a_out a_dead andb].
  destruct ao as [[[t cf] d0]|]; cbn [a_open a_comp a_out a_dead andb].
  - destruct ((8 <=? t) && (125 <? blen d0)); cbn [negb a_open a_comp a_out a_dead andb orb];
      destruct (r =? 0); cbn [andb orb]; destruct (t =? 8); cbn [andb orb]; try destruct (ty =? 8);
      cbn [a_open a_comp a_out a_dead andb orb]; rewrite ?app_nil_r; auto.
  - destruct (r =? 0); cbn [andb orb]; [destruct (ty =? 8)|]; cbn [a_open a_comp a_out a_dead];
      rewrite ?app_nil_r; auto.
Qed.

Lemma astep_next a ty r : a_dead a = false -> ntrN r ->
  let a' := astep false a (ANext ty) r in
  a_open a' = (if r =? 0 then Some (ty, false, []) else None) /\
  a_out a' = a_out a ++ aflush_out a /\
  a_dead a' = aflush_closes a.
Proof.
  destruct a as [ao ac out dd]. unfold ntrN, aflush_out, aflush_closes, adrop. cbn [a_open a_comp a_out a_dead].
  intros -> HR. unfold astep. rewrite HR. cbn [a_open a_comp a_out a_dead andb].
  destruct ao as [[[t cf] d0]|]; cbn [a_open a_comp a_out a_dead andb].
  - destruct ((8 <=? t) && (125 <? blen d0)); cbn [negb a_open a_comp a_out a_dead andb];
      destruct (r =? 0); cbn [a_open a_comp a_out a_dead]; rewrite ?app_nil_r; auto.
  - destruct (r =? 0); cbn [a_open a_comp a_out a_dead]; rewrite ?app_nil_r; auto.
Qed.

(* a Write that fails abandons the message *)
Lemma astep_write a d r : ntrN r ->
  let a' := astep false a (AWrite d) r in
  a_out a' = a_out a /\ a_dead a' = a_dead a /\
  a_open a' = match a_open a with
              | Some (t, c, acc) => if r =? 0 then Some (t, c, acc ++ d) else None
              | None => None
              end.
Proof.
  destruct a as [ao ac out dd]. unfold ntrN. intros HR. unfold astep. rewrite HR.
  cbn [a_open a_comp a_out a_dead]. destruct ao as [[[t cf] d0]|]; [destruct (r =? 0)|]; cbn [a_open a_comp a_out a_dead]; auto.
Qed.

(* an explicit Close that reports success sent the message as it stands *)
Definition aopen_out (a:ast) : list sent :=
  match a_open a with
  | Some (t, c, d) => [{| s_ty := t; s_comp := c; s_data := d; s_complete := true |}]
  | None => []
  end.

Lemma astep_close a r : ntrN r ->
  let a' := astep false a AClose r in
  a_open a' = None /\
  a_out a' = a_out a ++ (if r =? 0 then aopen_out a else []) /\
  a_dead a' = a_dead a || ((r =? 0) && match a_open a with Some (t, _, _) => t =? 8 | None => false end).
Proof.
  destruct a as [ao ac out dd]. unfold ntrN, aopen_out. intros HR. unfold astep. rewrite HR.
  cbn [a_open a_comp a_out a_dead]. destruct ao as [[[t cf] d0]|]; cbn [a_open a_comp a_out a_dead].
  - destruct (r =? 0); cbn [andb a_open a_comp a_out a_dead]; [destruct (t =? 8)|];
      cbn [a_open a_comp a_out a_dead]; rewrite ?app_nil_r, ?orb_true_r, ?orb_false_r; auto.
  - destruct (r =? 0); cbn [andb]; rewrite ?app_nil_r, ?orb_false_r; auto.
Qed.

Lemma astep_control a ty d r : ntrN r ->
  let a' := astep false a (AControl ty d) r in
  a_open a' = a_open a /\
  a_out a' = a_out a ++ (if r =? 0 then [the_sent ty d] else []) /\
  a_dead a' = a_dead a || ((r =? 0) && (ty =? 8)).
Proof.
  destruct a as [ao ac out dd]. unfold ntrN. intros HR. unfold astep. rewrite HR.
  cbn [a_open a_comp a_out a_dead].
  destruct (r =? 0); cbn [andb a_open a_comp a_out a_dead]; [destruct (ty =? 8)|];
    cbn [a_open a_comp a_out a_dead]; rewrite ?app_nil_r, ?orb_true_r, ?orb_false_r; auto.
Qed.

Lemma astep_quiet a o r : ntrN r -> match o with ASetComp _ | AOther => True | _ => False end ->
  let a' := astep false a o r in
  a_open a' = a_open a /\ a_out a' = a_out a /\ a_dead a' = a_dead a.
Proof.
  destruct a as [ao ac out dd]. unfold ntrN. intros HR HO. unfold astep. rewrite HR.
  destruct o; try contradiction; cbn [a_open a_comp a_out a_dead]; auto.
Qed.

Lemma astep_deadmode a o r : a_dead a = true ->
  match o with AMessage _ _ | ANext _ | AClose | AControl _ _ => (r =? 0) = false | _ => True end ->
  let a' := astep false a o r in a_dead a' = true /\ a_out a' = a_out a.
Proof.
  destruct a as [ao ac out dd]. cbn [a_dead]. intros -> HO. unfold astep.
  destruct ((r =? 6) || (r =? 7)); cbn [a_open a_comp a_out a_dead];
    destruct o; try rewrite HO; cbn [andb a_open a_comp a_out a_dead];
    destruct ao as [[[t cf] d0]|]; cbn [andb a_open a_comp a_out a_dead]; auto;
    destruct (r =? 0); cbn [andb a_open a_comp a_out a_dead]; auto.
Qed.

Lemma e_werr_none : e_werr None = 0.
Proof. reflexivity. Qed.
Lemma e_werr_some e : (e_werr (Some e) =? 0) = false.
Proof. destruct e; try reflexivity. destruct timeout; reflexivity. Qed.
Definition rntr (e:option werror) : Prop := match e with Some x => ntr x | None => True end.
Lemma e_werr_ntr e : rntr e -> ntrN (e_werr e).
Proof. destruct e as [[]|]; cbn; intros H; try reflexivity. contradiction. Qed.
Lemma e_werr_zero e : (e_werr e =? 0) = match e with None => true | Some _ => false end.
Proof. destruct e; [apply e_werr_some|reflexivity]. Qed.

(* ------------------------------------------------------------------------------------------ *)
(* the ghost invariant: model state / frames on the wire / abstract writer                    *)
(* ------------------------------------------------------------------------------------------ *)
Definition sents_of (fs:list frame) : list sent := map sent_of_event (fst (events_from None fs)).
Definition acc_of (fs:list frame) : eacc := snd (events_from None fs).

Lemma events_from_seq ae fs1 fs2 ev1 ae1 ev2 ae2 :
  events_from ae fs1 = (ev1, ae1) -> events_from ae1 fs2 = (ev2, ae2) ->
  events_from ae (fs1 ++ fs2) = (ev1 ++ ev2, ae2).
Proof. intros H1 H2. rewrite events_from_app, H1. cbn [fst snd]. rewrite H2. reflexivity. Qed.

Lemma out_of_app fs fr evs ae' : events_from (acc_of fs) fr = (evs, ae') ->
  sents_of (fs ++ fr) = sents_of fs ++ map sent_of_event evs /\ acc_of (fs ++ fr) = ae'.
Proof.
  intros H. unfold sents_of, acc_of in *. rewrite events_from_app, H. cbn [fst snd]. rewrite map_app. auto.
Qed.

Definition Live (c:wcfg) (s:wst) (ae:eacc) (a:ast) : Prop :=
  match cur s with
  | Some m => mwok c m /\ Writer.app s = Some (m_id m) /\
              exists t acc, a_open a = Some (t, false, acc) /\ vty t /\ Open t acc ae m
  | None => ae = None /\ a_open a = None
  end.

Definition Mode (c:wcfg) (s:wst) (ae:eacc) (a:ast) : Prop :=
  match werr s with
  | Some _ => a_dead a = true
  | None => a_dead a = false /\ Pst s /\ Live c s ae a
  end.

Record GInv (c:wcfg) (s:wst) (fs:list frame) (a:ast) : Prop := {
  g_wire : wire s = encode_frames fs;
  g_wf : Forall wf_frame fs;
  g_out : sents_of fs = a_out a;
  g_mode : Mode c s (acc_of fs) a
}.

Lemma GInv_ext c s fs a s' a' fr evs ae' :
  GInv c s fs a -> wire s' = wire s ++ encode_frames fr -> Forall wf_frame fr ->
  events_from (acc_of fs) fr = (evs, ae') ->
  a_out a' = a_out a ++ map sent_of_event evs ->
  Mode c s' ae' a' ->
  GInv c s' (fs ++ fr) a'.
Proof.
  intros [G1 G2 G3 G4] HW Hwf HEv HO HM. destruct (out_of_app fs fr evs ae' HEv) as [O1 O2].
  constructor.
  - rewrite HW, G1, encode_frames_app. reflexivity.
  - apply Forall_app. auto.
  - rewrite O1, G3, HO. reflexivity.
  - rewrite O2. exact HM.
Qed.

Lemma GInv_same c s fs a s' a' :
  GInv c s fs a -> wire s' = wire s -> a_out a' = a_out a -> Mode c s' (acc_of fs) a' -> GInv c s' fs a'.
Proof.
  intros [G1 G2 G3 G4] HW HO HM. constructor; try assumption; congruence.
Qed.

Lemma Live_core c s s' ae a a' : WriterStateP.core s' = WriterStateP.core s -> a_open a' = a_open a ->
  Live c s ae a -> Live c s' ae a'.
Proof.
  intros HC HO. unfold Live. rewrite (WriterStateP.core_cur _ _ HC), (WriterStateP.core_app _ _ HC), HO. auto.
Qed.

(* the former side condition (no longer needed by the theorems below, kept for reference): a
   control-type writer obtained from NextWriter is never left to the implicit close of the next
   NextWriter / WriteMessage *)
Definition open_is_data (a:ast) : Prop :=
  match a_open a with Some (t, _, _) => is_control t = false | None => True end.
Definition implicit_ok (a:ast) (o:aop) : Prop :=
  match o with
  | AMessage _ _ | ANext _ => a_dead a = false -> open_is_data a
  | _ => True
  end.

Lemma open_is_data_nc a : open_is_data a -> open_not_close a.
Proof.
  unfold open_is_data, open_not_close. destruct (a_open a) as [[[t cf] d]|]; [|auto].
  unfold is_control. intros H. lia.
Qed.

(* ------------------------------------------------------------------------------------------ *)
(* calls on a handle whose writer is gone                                                     *)
(* ------------------------------------------------------------------------------------------ *)
Lemma ended_err_ntr id s : Pst s -> ntr (ended_err id s).
Proof.
  intros HP. unfold ended_err. destruct (find _ (ended s)) as [[i e]|] eqn:EF; [|exact I].
  apply find_some in EF. destruct EF as [HIn _]. pose proof (p_ended s HP) as X.
  rewrite Forall_forall in X. apply (X _ HIn).
Qed.

Lemma is_cur_none id s : cur s = None -> is_cur id s = false.
Proof. unfold is_cur. intros ->. reflexivity. Qed.

Lemma app_write_nocur c sv p wc s : Pst s -> cur s = None ->
  exists e, app_write c sv p wc s = (Some e, s) /\ ntr e.
Proof.
  intros HP HC. unfold app_write. destruct (Writer.app s) as [id|]; [|exists WWriteClosed; split; [reflexivity|exact I]].
  rewrite (p_af s HP), (is_cur_none id s HC). eexists. split; [reflexivity|]. apply ended_err_ntr. exact HP.
Qed.

Lemma app_read_from_nocur c ch s : Pst s -> cur s = None ->
  exists e, app_read_from c ch s = (Some e, s) /\ ntr e.
Proof.
  intros HP HC. unfold app_read_from. destruct (Writer.app s) as [id|]; [|exists WWriteClosed; split; [reflexivity|exact I]].
  rewrite (p_af s HP), (is_cur_none id s HC). eexists. split; [reflexivity|]. apply ended_err_ntr. exact HP.
Qed.

Lemma app_close_nocur c cc s : Pst s -> cur s = None ->
  exists e, app_close c cc s = (Some e, s) /\ ntr e.
Proof.
  intros HP HC. unfold app_close. destruct (Writer.app s) as [id|]; [|exists WWriteClosed; split; [reflexivity|exact I]].
  rewrite (p_af s HP), (is_cur_none id s HC). eexists. split; [reflexivity|]. apply ended_err_ntr. exact HP.
Qed.

Lemma is_cur_self s m : cur s = Some m -> is_cur (m_id m) s = true.
Proof. unfold is_cur. intros ->. apply Nat.eqb_refl. Qed.

(* ------------------------------------------------------------------------------------------ *)
(* WriteControl                                                                               *)
(* ------------------------------------------------------------------------------------------ *)
Lemma write_control_live c ty d dl s e s' :
  Pst s -> werr s = None -> write_control c ty d dl s = (e, s') ->
  (e <> None /\ rntr e /\ s' = s) \/
  (e = None /\ is_control_ty ty = true /\ blen d <= 125 /\ Pst s' /\
   WriterStateP.core s' = WriterStateP.core s /\
   werr s' = (if ty =? 8 then Some WCloseSent else None) /\
   exists mk, role_key c mk /\ wire s' = wire s ++ encode_frame (mkf true ty 0 mk d)).
Proof.
  intros HP HE H.
  pose proof (WriterStateP.write_control_spec c ty d dl s e s' H) as
    [(_ & -> & ->)|[(_ & _ & -> & ->)|[(_ & _ & _ & -> & ->)|(HT & HL & HD & HC & HPost)]]];
    try (left; split; [discriminate|split; [exact I|reflexivity]]).
  right. unfold write_control in H. rewrite HT in H. cbn [negb] in H.
  change c_maxControlFramePayloadSize with 125 in H.
  replace (125 <? blen d) with false in H by lia. replace (dl =? 1) with false in H by lia.
  rewrite HE in H.
  destruct (t_setdl dl s) as [e1 s1] eqn:E1. apply t_setdl_eff in E1. destruct E1 as [D1 D2].
  destruct D1 as (A1&A2&A3&A4&A5&A6&A7). rewrite app_nil_r in A7.
  destruct e1 as [e1|]; [exfalso; apply D2; [discriminate|apply HP]|].
  destruct (keyed_write (negb (w_server c)) (fun key => control_frame (w_server c) ty key d) s1) as [e2 s2] eqn:E2.
  apply keyed_write_eff in E2; [|rewrite A6; apply HP].
  destruct E2 as (HK2 & key & W & Hkey & (C1&C2&C3&C4&C5) & HW2 & N2 & F2).
  destruct e2 as [e2|]; [exfalso; destruct F2 as [F2a _]; [discriminate|]; apply F2a; rewrite A4; apply HP|].
  specialize (N2 eq_refl). subst W.
  set (s3 := if ty =? c_CloseMessage then write_fatal WCloseSent s2 else s2) in H.
  assert (HS : wire s3 = wire s2 /\ fail_at s3 = fail_at s2 /\ Forall len4 (keys s3)).
  { subst s3. destruct (ty =? c_CloseMessage).
    - destruct (write_fatal_eff WCloseSent s2) as (B1&B2&B3&B4&B5&B6&B7). rewrite B5. auto.
    - auto. }
  clearbody s3. inversion H; subst e s'. clear H.
  destruct HS as (S1 & S2 & S3).
  split; [reflexivity|]. split; [exact HT|]. split; [exact HL|].
  split. { apply (Pst_core s s3 HP HC); [rewrite S2, C4, A4; apply HP|exact S3]. }
  split; [exact HC|]. split.
  { destruct HPost as [(e0 & X & _)|(_ & g & _ & _ & Y & _)]; [congruence|exact Y]. }
  exists (if w_server c then None else Some key). split.
  { unfold role_key. destruct (w_server c); [reflexivity|]. exists key. auto. }
  rewrite S1, C5, A7. rewrite (control_frame_enc _ _ _ _ HL). reflexivity.
Qed.

(* ------------------------------------------------------------------------------------------ *)
(* implicit close, beginMessage, NextWriter                                                   *)
(* ------------------------------------------------------------------------------------------ *)
Lemma vty_ctl_leb t : vty t -> is_control_ty t = (8 <=? t).
Proof. intros [->|[->|[->|[->| ->]]]]; reflexivity. Qed.

(* the implicit close: what it sends is what the abstract writer's flush emits; an invalid
   control message is dropped (the error of the implicit Close is discarded); a close message
   leaves the connection closed for writing *)
Lemma close_current_live c ic s ae a : capok c -> Pst s -> werr s = None -> Live c s ae a ->
  let s1 := close_current c ic s in
  Pst s1 /\ werr s1 = (if aflush_closes a then Some WCloseSent else None) /\ cur s1 = None /\
  exists fr evs, Forall wf_frame fr /\ wire s1 = wire s ++ encode_frames fr /\
    events_from ae fr = (evs, None) /\ map sent_of_event evs = aflush_out a.
Proof.
  intros HCap HP HE HL. unfold close_current. unfold Live in HL. destruct (cur s) as [m|] eqn:HC.
  - destruct HL as (M & A & t & acc & HO & V & O).
    rewrite (p_cf s HP). unfold mw_close. rewrite HC.
    destruct (flush_frame c true [] m s) as [e1 s1] eqn:EF. cbn [snd].
    assert (Hs : small []) by (unfold small; cbn; lia).
    destruct (flush_final_open c [] m s e1 s1 t acc ae HCap HP HE M V O (fun _ => eq_refl) Hs EF) as (P1 & A1 & C1 & R).
    rewrite app_nil_r, (vty_ctl_leb t V) in R.
    unfold aflush_out, aflush_closes, adrop. rewrite HO.
    cbv zeta. split; [destruct P1; constructor; solve [assumption|reflexivity]|].
    destruct ((8 <=? t) && (125 <? blen acc)); cbn [negb andb].
    + destruct R as (-> & RW & RE & ->).
      split; [exact RE|]. split; [reflexivity|].
      exists [], []. split; [constructor|].
      split. { change (wire s1 = wire s ++ encode_frames []). rewrite RW. cbn [encode_frames flat_map]. rewrite app_nil_r. reflexivity. }
      split; reflexivity.
    + destruct R as (-> & E1 & f & ev & Fwf & FW & FEv & FS).
      split; [exact E1|]. split; [reflexivity|].
      exists [f], [ev]. split; [constructor; [exact Fwf|constructor]|].
      split. { change (wire s1 = wire s ++ encode_frames [f]). rewrite FW. cbn [encode_frames flat_map]. rewrite app_nil_r. reflexivity. }
      split; [exact FEv|]. cbn [map]. rewrite FS. reflexivity.
  - destruct HL as [-> HO]. unfold aflush_out, aflush_closes. rewrite HO.
    cbv zeta. split; [exact HP|]. split; [exact HE|]. split; [exact HC|].
    exists [], []. split; [constructor|]. split; [cbn [encode_frames flat_map]; rewrite app_nil_r; reflexivity|].
    split; reflexivity.
Qed.

Lemma valid_vty ty : negb (is_control_ty ty) && negb (is_data_ty ty) = false -> vty ty.
Proof.
  unfold is_control_ty, is_data_ty, c_CloseMessage, c_PingMessage, c_PongMessage, c_TextMessage,
    c_BinaryMessage, vty. intros H.
  destruct (ty =? 8) eqn:E1; [lia|]. destruct (ty =? 9) eqn:E2; [lia|].
  destruct (ty =? 10) eqn:E3; [lia|]. destruct (ty =? 1) eqn:E4; [lia|].
  destruct (ty =? 2) eqn:E5; [lia|]. cbn in H. discriminate.
Qed.

Lemma begin_message_live c ty ic s ae a e s' : capok c -> Pst s -> werr s = None -> Live c s ae a ->
  begin_message c ty ic s = (e, s') ->
  Pst s' /\ werr s' = (if aflush_closes a then Some WCloseSent else None) /\ cur s' = None /\
  (exists fr evs, Forall wf_frame fr /\ wire s' = wire s ++ encode_frames fr /\
    events_from ae fr = (evs, None) /\ map sent_of_event evs = aflush_out a) /\
  (e = Some WBadOpCode \/ (aflush_closes a = true /\ e = Some WCloseSent) \/
   (aflush_closes a = false /\ e = None /\ vty ty)).
Proof.
  intros HCap HP HE HL H. unfold begin_message in H.
  destruct (close_current_live c ic s ae a HCap HP HE HL) as (P1 & E1 & C1 & FR).
  set (s1 := close_current c ic s) in *. clearbody s1.
  destruct (negb (is_control_ty ty) && negb (is_data_ty ty)) eqn:ET.
  { inversion H; subst e s'. auto 10. }
  rewrite E1 in H. destruct (aflush_closes a) eqn:EC.
  { inversion H; subst e s'. auto 10. }
  set (s2 := if held s1 then s1 else log TGet (s1 <| held := true |>)) in H.
  assert (X : Pst s2 /\ werr s2 = None /\ cur s2 = None /\ wire s2 = wire s1).
  { subst s2. destruct (held s1); [auto|].
    split; [destruct P1; constructor; assumption|]. split; [exact E1|]. split; [exact C1|].
    rewrite wire_log. cbn [pay]. rewrite app_nil_r. reflexivity. }
  clearbody s2. inversion H; subst e s'. clear H.
  destruct X as (X1 & X2 & X3 & X4). split; [exact X1|]. split; [exact X2|]. split; [exact X3|].
  split; [rewrite X4; exact FR|]. right. right. split; [reflexivity|]. split; [reflexivity|apply valid_vty; exact ET].
Qed.

Lemma next_writer_live c ty ic s ae a e s' : capok c -> w_negotiated c = false ->
  Pst s -> werr s = None -> Live c s ae a ->
  next_writer c ty ic s = (e, s') ->
  Pst s' /\ werr s' = (if aflush_closes a then Some WCloseSent else None) /\
  (exists fr evs, Forall wf_frame fr /\ wire s' = wire s ++ encode_frames fr /\
    events_from ae fr = (evs, None) /\ map sent_of_event evs = aflush_out a) /\
  (((exists e0, e = Some e0 /\ ntr e0) /\ cur s' = None) \/
   (aflush_closes a = false /\ e = None /\ vty ty /\
    exists m0, cur s' = Some m0 /\ mwok c m0 /\ m_buf m0 = [] /\ m_ftype m0 = ty /\
               Writer.app s' = Some (m_id m0))).
Proof.
  intros HCap HN HP HE HL H. unfold next_writer in H.
  destruct (begin_message c ty ic s) as [e1 s1] eqn:EB.
  destruct (begin_message_live c ty ic s ae a e1 s1 HCap HP HE HL EB) as (P1 & E1 & C1 & FR & [->|[(EC & ->)|(EC & -> & V)]]).
  { inversion H; subst e s'. split; [exact P1|]. split; [exact E1|]. split; [exact FR|]. left.
    split; [|exact C1]. eexists. split; [reflexivity|exact I]. }
  { inversion H; subst e s'. split; [exact P1|]. split; [exact E1|]. split; [exact FR|]. left.
    split; [|exact C1]. eexists. split; [reflexivity|exact I]. }
  rewrite EC in E1 |- *.
  unfold new_mw in H. cbv beta iota zeta in H. rewrite HN in H. cbn [andb] in H.
  match type of H with (None, ?x) = _ => set (s2 := x) in H end.
  assert (X : Pst s2 /\ werr s2 = None /\ wire s2 = wire s1) by
    (subst s2; split; [destruct P1; constructor; solve [assumption|reflexivity]|split; [exact E1|reflexivity]]).
  assert (Y : exists m0, cur s2 = Some m0 /\ mwok c m0 /\ m_buf m0 = [] /\ m_ftype m0 = ty /\ Writer.app s2 = Some (m_id m0)).
  { eexists. subst s2. split; [reflexivity|]. split; [|split; [reflexivity|split; reflexivity]].
    split; [reflexivity|]. split; [reflexivity|]. cbn. lia. }
  clearbody s2. inversion H; subst e s'. clear H. destruct X as (X1 & X2 & X3).
  split; [exact X1|]. split; [exact X2|]. split; [rewrite X3; exact FR|].
  right. split; [reflexivity|]. split; [reflexivity|]. split; [exact V|]. exact Y.
Qed.

(* ------------------------------------------------------------------------------------------ *)
(* WriteMessage on a live connection                                                          *)
(* ------------------------------------------------------------------------------------------ *)
Definition msg_sent (e:option werror) (ty:N) (d:bytes) : list sent :=
  match e with None => [the_sent ty d] | Some _ => [] end.

Lemma write_message_live c ty d ic wc cc s ae a e s' :
  capok c -> 0 < cap c -> w_negotiated c = false -> small d ->
  Pst s -> werr s = None -> Live c s ae a ->
  write_message c ty d ic wc cc s = (e, s') ->
  Pst s' /\ cur s' = None /\ rntr e /\
  werr s' = (if aflush_closes a || match e with None => ty =? 8 | Some _ => false end
             then Some WCloseSent else None) /\
  exists fr evs, Forall wf_frame fr /\ wire s' = wire s ++ encode_frames fr /\
    events_from ae fr = (evs, None) /\ map sent_of_event evs = aflush_out a ++ msg_sent e ty d.
Proof.
  intros HCap HPos HN HS HP HE HL H. unfold write_message in H. rewrite HN in H.
  cbn [negb orb] in H. rewrite andb_true_r in H.
  assert (Hs0 : small []) by (unfold small; cbn; lia).
  destruct (w_server c) eqn:ES.
  - (* the server fast path *)
    destruct (begin_message c ty ic s) as [e1 s1] eqn:EB.
    destruct (begin_message_live c ty ic s ae a e1 s1 HCap HP HE HL EB)
      as (P1 & E1 & C1 & (fr & evs & Fwf & FW & FEv & FS) & [->|[(EC & ->)|(EC & -> & V)]]).
    { inversion H; subst e s'. split; [exact P1|]. split; [exact C1|]. split; [exact I|].
      split; [rewrite orb_false_r; exact E1|].
      exists fr, evs. cbn [msg_sent]. rewrite app_nil_r. auto. }
    { inversion H; subst e s'. split; [exact P1|]. split; [exact C1|]. split; [exact I|].
      split; [rewrite orb_false_r; exact E1|].
      exists fr, evs. cbn [msg_sent]. rewrite app_nil_r. auto. }
    rewrite EC in E1 |- *. cbn [orb].
    unfold new_mw in H. cbv beta iota zeta in H.
    set (n := N.min (cap c) (blen d)) in *.
    set (m := {| m_id := nextid s1; m_buf := []; m_ftype := ty; m_compress := false; m_err := None |}
               <| m_buf := takeN n d |>) in *.
    set (s2 := s1 <| nextid := S (nextid s1) |> <| cur := None |>) in *.
    assert (P2 : Pst s2) by (destruct P1; constructor; assumption).
    assert (M : mwok c m).
    { split; [reflexivity|]. split; [reflexivity|]. change (m_buf m) with (takeN n d). rewrite blen_takeN. subst n. lia. }
    assert (O : Open ty (takeN n d) None m) by (left; auto).
    assert (Sx : small (dropN n d)) by (unfold small in *; rewrite blen_dropN; lia).
    assert (Hex : w_server c = false -> dropN n d = []) by (rewrite ES; discriminate).
    destruct (flush_final_open c (dropN n d) m s2 e s' ty (takeN n d) None HCap P2 E1 M V O Hex Sx H) as (P' & A' & C' & R).
    rewrite takeN_app_dropN in R.
    split; [exact P'|]. split; [exact C'|].
    destruct (is_control_ty ty && (125 <? blen d)).
    + destruct R as (-> & RW & RE & _). split; [exact I|]. split; [exact RE|].
      exists fr, evs. cbn [msg_sent]. rewrite app_nil_r. split; [exact Fwf|]. split; [rewrite RW; exact FW|]. auto.
    + destruct R as (-> & RE & f & ev & Rwf & RW & REv & RS). split; [exact I|]. split; [exact RE|].
      exists (fr ++ [f]), (evs ++ [ev]).
      split; [apply Forall_app; split; [exact Fwf|constructor; [exact Rwf|constructor]]|].
      split. { rewrite RW. change (wire s2) with (wire s1). rewrite FW, encode_frames_app, <- app_assoc.
               cbn [encode_frames flat_map]. rewrite app_nil_r. reflexivity. }
      split; [apply (events_from_seq ae fr [f] evs None [ev] None FEv REv)|].
      rewrite map_app, FS. cbn [map msg_sent]. rewrite RS. reflexivity.
  - (* NextWriter, Write, Close *)
    destruct (next_writer c ty ic s) as [e1 s1] eqn:EN.
    destruct (next_writer_live c ty ic s ae a e1 s1 HCap HN HP HE HL EN)
      as (P1 & E1 & (fr & evs & Fwf & FW & FEv & FS) & [((e0 & -> & Hn0) & C1)|(EC & -> & V & m0 & C1 & M0 & B0 & T0 & A0)]).
    { inversion H; subst e s'. split; [exact P1|]. split; [exact C1|]. split; [exact Hn0|].
      split; [rewrite orb_false_r; exact E1|].
      exists fr, evs. cbn [msg_sent]. rewrite app_nil_r. auto. }
    rewrite EC in E1 |- *. cbn [orb].
    unfold app_write in H. rewrite A0, (p_af s1 P1), (is_cur_self s1 m0 C1) in H.
    destruct (mw_write c d s1) as [e2 s2] eqn:EW.
    assert (O : Open ty [] None m0) by (left; auto).
    destruct (mw_write_live c d s1 m0 ty [] None e2 s2 HCap HPos HS P1 E1 C1 M0 V O EW) as (P2 & E2 & A2 & R).
    destruct R as [(-> & fs2 & ae2 & m2 & C2 & I2 & M2 & W2 & Wf2 & Ev2 & O2)|(ET & -> & C2 & W2 & _)].
    2:{ inversion H; subst e s'. split; [exact P2|]. split; [exact C2|]. split; [exact I|]. split; [exact E2|].
        exists fr, evs. cbn [msg_sent]. rewrite app_nil_r. split; [exact Fwf|]. split; [rewrite W2; exact FW|]. auto. }
    cbn [List.app] in O2.
    unfold app_close in H. rewrite A2, A0, (p_af s2 P2) in H. rewrite <- I2, (is_cur_self s2 m2 C2) in H.
    unfold mw_close in H. rewrite C2 in H.
    destruct (flush_final_open c [] m2 s2 e s' ty d ae2 HCap P2 E2 M2 V O2 (fun _ => eq_refl) Hs0 H) as (P' & A' & C' & R).
    rewrite app_nil_r in R.
    split; [exact P'|]. split; [exact C'|].
    destruct (is_control_ty ty && (125 <? blen d)).
    + destruct R as (-> & RW & RE & ->). split; [exact I|]. split; [exact RE|].
      exists (fr ++ fs2), (evs ++ []). cbn [msg_sent].
      split; [apply Forall_app; auto|].
      split. { rewrite RW, W2, FW, encode_frames_app, <- app_assoc. reflexivity. }
      split; [apply (events_from_seq ae fr fs2 evs None [] None FEv Ev2)|].
      rewrite !app_nil_r. exact FS.
    + destruct R as (-> & RE & f & ev & Rwf & RW & REv & RS). split; [exact I|]. split; [exact RE|].
      exists ((fr ++ fs2) ++ [f]), ((evs ++ []) ++ [ev]).
      split; [apply Forall_app; split; [apply Forall_app; auto|constructor; [exact Rwf|constructor]]|].
      split. { rewrite RW, W2, FW, !encode_frames_app, <- !app_assoc.
               cbn [encode_frames flat_map]. rewrite app_nil_r. reflexivity. }
      split. { apply (events_from_seq ae (fr ++ fs2) [f] (evs ++ []) ae2 [ev] None); [|exact REv].
               apply (events_from_seq ae fr fs2 evs None [] ae2 FEv Ev2). }
      rewrite app_nil_r, map_app, FS. cbn [map msg_sent]. rewrite RS. reflexivity.
Qed.

(* ------------------------------------------------------------------------------------------ *)
(* one program step preserves the ghost invariant                                             *)
(* ------------------------------------------------------------------------------------------ *)
Definition wop_aop (o:wop) : aop :=
  match o with
  | WMessage ty d _ _ _ => AMessage ty d
  | WNext ty _ => ANext ty
  | WWrite d _ | WWriteString d _ => AWrite d
  | WReadFrom ch => AWrite (concat ch)
  | WClose _ => AClose
  | WControl ty d _ => AControl ty d
  | WEnableCompression b => ASetComp b
  | _ => AOther
  end.
Definition e_werr_N : option werror -> N := e_werr.

Lemma Live_same c s s' ae a a' : cur s' = cur s -> Writer.app s' = Writer.app s -> a_open a' = a_open a ->
  Live c s ae a -> Live c s' ae a'.
Proof. intros HC HA HO. unfold Live. rewrite HC, HA, HO. auto. Qed.

Lemma Mode_live c s ae a : werr s = None -> Mode c s ae a -> a_dead a = false /\ Pst s /\ Live c s ae a.
Proof. unfold Mode. intros ->. auto. Qed.

Lemma Mode_intro_live c s ae a : werr s = None -> a_dead a = false -> Pst s -> Live c s ae a -> Mode c s ae a.
Proof. unfold Mode. intros ->. auto. Qed.

Lemma Mode_intro_close c s ae a (b:bool) :
  werr s = (if b then Some WCloseSent else None) -> a_dead a = b -> Pst s -> Live c s ae a -> Mode c s ae a.
Proof. unfold Mode. intros -> HD HP HL. destruct b; auto. Qed.

Lemma Live_closed c s a : cur s = None -> a_open a = None -> Live c s None a.
Proof. unfold Live. intros -> ->. auto. Qed.

(* quiet operations *)
Lemma quiet_step c s fs a s' o r : GInv c s fs a -> werr s = None ->
  wire s' = wire s -> werr s' = werr s -> cur s' = cur s -> Writer.app s' = Writer.app s -> (Pst s -> Pst s') ->
  ntrN r -> match o with ASetComp _ | AOther => True | _ => False end ->
  GInv c s' fs (astep false a o r).
Proof.
  intros G HE HW HE' HC HA HP HR HO.
  destruct (astep_quiet a o r HR HO) as (Q1 & Q2 & Q3).
  destruct (Mode_live c s _ a HE (g_mode _ _ _ _ G)) as (D & P & L).
  apply (GInv_same c s fs a s' _ G HW Q2).
  apply Mode_intro_live; [congruence|congruence|auto|].
  apply (Live_same c s s' _ a _ HC HA Q1 L).
Qed.

Lemma control_step c s fs a ty d dl e s' : GInv c s fs a -> werr s = None ->
  write_control c ty d dl s = (e, s') ->
  exists fs', GInv c s' fs' (astep false a (AControl ty d) (e_werr e)).
Proof.
  intros G HE H.
  destruct (Mode_live c s _ a HE (g_mode _ _ _ _ G)) as (D & P & L).
  destruct (write_control_live c ty d dl s e s' P HE H) as [(Hne & Hn & ->)|(-> & HT & HL & P' & HC & HE' & mk & HR & HW)].
  - destruct (astep_control a ty d (e_werr e) (e_werr_ntr e Hn)) as (Q1 & Q2 & Q3).
    rewrite e_werr_zero in Q2, Q3. destruct e as [e|]; [|contradiction].
    cbn [andb] in Q3. rewrite app_nil_r in Q2. rewrite orb_false_r in Q3.
    exists fs. apply (GInv_same c s fs a s _ G eq_refl Q2).
    apply Mode_intro_live; [exact HE|congruence|exact P|]. apply (Live_same c s s _ a _ eq_refl eq_refl Q1 L).
  - destruct (astep_control a ty d (e_werr None) (e_werr_ntr None I)) as (Q1 & Q2 & Q3).
    cbn [e_werr N.eqb andb] in Q2, Q3. rewrite D in Q3. cbn [orb] in Q3.
    set (f := mkf true ty 0 mk d) in *.
    assert (IC : is_control ty = true).
    { unfold is_control_ty, is_control, c_CloseMessage, c_PingMessage, c_PongMessage in *.
      destruct (ty =? 8) eqn:E1; [lia|]. destruct (ty =? 9) eqn:E2; [lia|]. destruct (ty =? 10) eqn:E3; [lia|discriminate]. }
    assert (Fwf : wf_frame f).
    { apply wf_mkf; [lia|unfold is_control in IC;
        unfold is_control_ty, c_CloseMessage, c_PingMessage, c_PongMessage in HT;
        destruct (ty =? 8) eqn:E1; [lia|]; destruct (ty =? 9) eqn:E2; [lia|]; destruct (ty =? 10) eqn:E3; [lia|discriminate]
        |lia|apply (role_key_ok c); exact HR]. }
    exists (fs ++ [f]).
    apply (GInv_ext c s fs a s' _ [f] [ECtl ty d] (acc_of fs) G).
    + rewrite HW. cbn [encode_frames flat_map]. rewrite app_nil_r. reflexivity.
    + constructor; [exact Fwf|constructor].
    + rewrite events_from_ctl by exact IC. reflexivity.
    + exact Q2.
    + apply (Mode_intro_close c s' _ _ (ty =? 8) HE' Q3 P').
      apply (Live_same c s s' _ a _ (WriterStateP.core_cur _ _ HC) (WriterStateP.core_app _ _ HC) Q1 L).
Qed.

Lemma write_step c s fs a d e s' : GInv c s fs a -> werr s = None ->
  (cur s = None -> exists e0, e = Some e0 /\ ntr e0 /\ s' = s) ->
  (forall m t acc, cur s = Some m -> Writer.app s = Some (m_id m) -> mwok c m -> vty t ->
     Open t acc (acc_of fs) m -> wr_post c s m t acc (acc_of fs) d e s') ->
  exists fs', GInv c s' fs' (astep false a (AWrite d) (e_werr e)).
Proof.
  intros G HE H1 H2.
  destruct (Mode_live c s _ a HE (g_mode _ _ _ _ G)) as (D & P & L).
  destruct (cur s) as [m|] eqn:HC.
  - unfold Live in L. rewrite HC in L. destruct L as (M & A & t & acc & HO & V & O).
    destruct (H2 m t acc eq_refl A M V O) as (P' & E' & A' & [(-> & fr & ae' & m' & C1 & C2 & C3 & C4 & C5 & C6 & C7)|(ET & -> & C1 & C2 & C3)]).
    + destruct (astep_write a d (e_werr None) (e_werr_ntr None I)) as (Q1 & Q2 & Q3).
      rewrite HO in Q3. cbn [e_werr N.eqb] in Q3.
      exists (fs ++ fr). apply (GInv_ext c s fs a s' _ fr [] ae' G C4 C5 C6).
      * cbn [map]. rewrite app_nil_r. exact Q1.
      * apply Mode_intro_live; [exact E'|congruence|exact P'|]. unfold Live. rewrite C1.
        split; [exact C3|]. split; [congruence|]. exists t, (acc ++ d). auto.
    + destruct (astep_write a d (e_werr (Some WInvalidControl)) (e_werr_ntr (Some WInvalidControl) I)) as (Q1 & Q2 & Q3).
      rewrite HO in Q3. cbn [e_werr N.eqb] in Q3.
      exists fs. apply (GInv_same c s fs a s' _ G C2 Q1).
      apply Mode_intro_live; [exact E'|congruence|exact P'|]. unfold Live. rewrite C1.
      split; [exact C3|exact Q3].
  - destruct (H1 eq_refl) as (e0 & -> & Hn & ->).
    destruct (astep_write a d (e_werr (Some e0)) (e_werr_ntr (Some e0) Hn)) as (Q1 & Q2 & Q3).
    rewrite e_werr_some in Q3.
    exists fs. apply (GInv_same c s fs a s _ G eq_refl Q1).
    apply Mode_intro_live; [exact HE|congruence|exact P|].
    apply (Live_same c s s _ a _ eq_refl eq_refl); [|exact L].
    unfold Live in L. rewrite HC in L. destruct L as [_ L2]. rewrite Q3, L2. reflexivity.
Qed.

Lemma close_step c cc s fs a e s' : capok c -> GInv c s fs a -> werr s = None ->
  app_close c cc s = (e, s') ->
  exists fs', GInv c s' fs' (astep false a AClose (e_werr e)).
Proof.
  intros HCap G HE H.
  destruct (Mode_live c s _ a HE (g_mode _ _ _ _ G)) as (D & P & L).
  destruct (cur s) as [m|] eqn:HC.
  - unfold Live in L. rewrite HC in L. destruct L as (M & A & t & acc & HO & V & O).
    unfold app_close in H. rewrite A, (p_af s P), (is_cur_self s m HC) in H.
    unfold mw_close in H. rewrite HC in H.
    assert (Hs0 : small []) by (unfold small; cbn; lia).
    destruct (flush_final_open c [] m s e s' t acc (acc_of fs) HCap P HE M V O (fun _ => eq_refl) Hs0 H) as (P' & A' & C' & R).
    rewrite app_nil_r in R.
    destruct (is_control_ty t && (125 <? blen acc)).
    + destruct R as (-> & RW & RE & RA).
      destruct (astep_close a (e_werr (Some WInvalidControl)) (e_werr_ntr (Some WInvalidControl) I)) as (Q1 & Q2 & Q3).
      cbn [e_werr N.eqb andb] in Q2, Q3. rewrite app_nil_r in Q2. rewrite orb_false_r in Q3.
      exists fs. apply (GInv_same c s fs a s' _ G RW Q2).
      apply Mode_intro_live; [exact RE|congruence|exact P'|]. rewrite RA. apply Live_closed; assumption.
    + destruct R as (-> & RE & f & ev & Rwf & RW & REv & RS).
      destruct (astep_close a (e_werr None) (e_werr_ntr None I)) as (Q1 & Q2 & Q3).
      cbn [e_werr N.eqb andb] in Q2, Q3. rewrite D, HO in Q3. cbn [orb] in Q3.
      unfold aopen_out in Q2. rewrite HO in Q2.
      exists (fs ++ [f]). apply (GInv_ext c s fs a s' _ [f] [ev] None G).
      * rewrite RW. cbn [encode_frames flat_map]. rewrite app_nil_r. reflexivity.
      * constructor; [exact Rwf|constructor].
      * exact REv.
      * cbn [map]. rewrite RS. exact Q2.
      * apply (Mode_intro_close c s' _ _ (t =? 8) RE Q3 P'). apply Live_closed; assumption.
  - destruct (app_close_nocur c cc s P HC) as (e0 & X & Hn). rewrite X in H. inversion H; subst e s'. clear H.
    destruct (astep_close a (e_werr (Some e0)) (e_werr_ntr (Some e0) Hn)) as (Q1 & Q2 & Q3).
    rewrite e_werr_some in Q2, Q3. cbn [andb] in Q3. rewrite app_nil_r in Q2. rewrite orb_false_r in Q3.
    exists fs. apply (GInv_same c s fs a s _ G eq_refl Q2).
    apply Mode_intro_live; [exact HE|congruence|exact P|].
    unfold Live in L |- *. rewrite HC in *. destruct L as [L1 _]. auto.
Qed.

Lemma next_step c ty ic s fs a e s' : capok c -> w_negotiated c = false -> GInv c s fs a -> werr s = None ->
  next_writer c ty ic s = (e, s') ->
  exists fs', GInv c s' fs' (astep false a (ANext ty) (e_werr e)).
Proof.
  intros HCap HN G HE H.
  destruct (Mode_live c s _ a HE (g_mode _ _ _ _ G)) as (D & P & L).
  destruct (next_writer_live c ty ic s (acc_of fs) a e s' HCap HN P HE L H)
    as (P1 & E1 & (fr & evs & Fwf & FW & FEv & FS) & R).
  assert (Hn : rntr e) by (destruct R as [((e0 & -> & Hn0) & _)|(_ & -> & _)]; [exact Hn0|exact I]).
  destruct (astep_next a ty (e_werr e) D (e_werr_ntr e Hn)) as (Q1 & Q2 & Q3).
  exists (fs ++ fr). apply (GInv_ext c s fs a s' _ fr evs None G FW Fwf FEv).
  - rewrite FS. exact Q2.
  - apply (Mode_intro_close c s' _ _ (aflush_closes a) E1 Q3 P1).
    destruct R as [((e0 & -> & Hn0) & C1)|(_ & -> & V & m0 & C1 & M0 & B0 & T0 & A0)].
    + apply Live_closed; [exact C1|]. rewrite Q1, e_werr_some. reflexivity.
    + unfold Live. rewrite C1. split; [exact M0|]. split; [exact A0|]. exists ty, [].
      split; [rewrite Q1; reflexivity|]. split; [exact V|]. left. auto.
Qed.

Lemma message_step c ty d ic wc cc s fs a e s' : capok c -> 0 < cap c -> w_negotiated c = false -> small d ->
  GInv c s fs a -> werr s = None ->
  write_message c ty d ic wc cc s = (e, s') ->
  exists fs', GInv c s' fs' (astep false a (AMessage ty d) (e_werr e)).
Proof.
  intros HCap HPos HN HS G HE H.
  destruct (Mode_live c s _ a HE (g_mode _ _ _ _ G)) as (D & P & L).
  destruct (write_message_live c ty d ic wc cc s (acc_of fs) a e s' HCap HPos HN HS P HE L H)
    as (P1 & C1 & Hn & E1 & fr & evs & Fwf & FW & FEv & FS).
  destruct (astep_msg a ty d (e_werr e) D (e_werr_ntr e Hn)) as (Q1 & Q2 & Q3).
  rewrite e_werr_zero in Q2, Q3.
  exists (fs ++ fr). apply (GInv_ext c s fs a s' _ fr evs None G FW Fwf FEv).
  - rewrite FS, Q2, app_assoc. destruct e; reflexivity.
  - destruct e as [e|]; cbn [andb] in Q3.
    + apply (Mode_intro_close c s' _ _ _ E1 Q3 P1). apply Live_closed; assumption.
    + apply (Mode_intro_close c s' _ _ _ E1 Q3 P1). apply Live_closed; assumption.
Qed.

Lemma wstep_G c s fs a o :
  capok c -> 0 < cap c -> w_negotiated c = false -> op_small o -> op_not_prepared o ->
  GInv c s fs a ->
  exists fs', GInv c (snd (wstep c s o)) fs' (astep false a (wop_aop o) (e_werr_N (fst (wstep c s o)))).
Proof.
  intros HCap HPos HN HS HNP G. unfold e_werr_N.
  destruct (werr s) as [x|] eqn:HE.
  - (* a close frame went out: nothing more is written, every sending call fails *)
    assert (Dd : dead s) by (unfold dead; congruence).
    destruct (wstep_dead c s o Dd) as [F1 F2].
    pose proof (WriterStateP.after_error_calls_fail c s o x HE) as AF.
    assert (AD : a_dead a = true).
    { pose proof (g_mode _ _ _ _ G) as X. unfold Mode in X. rewrite HE in X. exact X. }
    destruct (astep_deadmode a (wop_aop o) (e_werr (fst (wstep c s o))) AD) as [Q1 Q2].
    { destruct o; cbn [wop_aop]; try exact I; rewrite e_werr_zero;
        (destruct (fst (wstep c s _)); [reflexivity|contradiction]). }
    exists fs. apply (GInv_same c s fs a _ _ G F2 Q2). unfold Mode. rewrite F1, HE. exact Q1.
  - destruct (Mode_live c s _ a HE (g_mode _ _ _ _ G)) as (D & P & L).
    destruct o as [ty d ic wc cc|ty ic|d wc|d wc|ch|cc|ty d dl|dl|b|l|ty fr];
      cbn [wstep wop_aop op_small op_not_prepared] in *.
    + destruct (write_message c ty d ic wc cc s) as [e s'] eqn:E. cbn [fst snd].
      destruct HS as (S1 & _). apply (message_step c ty d ic wc cc s fs a e s' HCap HPos HN S1 G HE E).
    + destruct (next_writer c ty ic s) as [e s'] eqn:E. cbn [fst snd].
      apply (next_step c ty ic s fs a e s' HCap HN G HE E).
    + destruct (app_write c false d wc s) as [e s'] eqn:E. cbn [fst snd]. destruct HS as [S1 _].
      apply (write_step c s fs a d e s' G HE).
      * intros HC. destruct (app_write_nocur c false d wc s P HC) as (e0 & X & Hn). rewrite X in E.
        inversion E; subst. exists e0. auto.
      * intros m t acc HC A M V O. unfold app_write in E. rewrite A, (p_af s P), (is_cur_self s m HC) in E.
        apply (mw_write_live c d s m t acc _ e s' HCap HPos S1 P HE HC M V O E).
    + destruct (app_write c true d wc s) as [e s'] eqn:E. cbn [fst snd]. destruct HS as [S1 _].
      apply (write_step c s fs a d e s' G HE).
      * intros HC. destruct (app_write_nocur c true d wc s P HC) as (e0 & X & Hn). rewrite X in E.
        inversion E; subst. exists e0. auto.
      * intros m t acc HC A M V O. unfold app_write in E. rewrite A, (p_af s P), (is_cur_self s m HC) in E.
        apply (mw_write_string_live c d s m t acc _ e s' HCap HPos P HE HC M V O E).
    + destruct (app_read_from c ch s) as [e s'] eqn:E. cbn [fst snd].
      apply (write_step c s fs a (concat ch) e s' G HE).
      * intros HC. destruct (app_read_from_nocur c ch s P HC) as (e0 & X & Hn). rewrite X in E.
        inversion E; subst. exists e0. auto.
      * intros m t acc HC A M V O. unfold app_read_from in E. rewrite A, (p_af s P), (is_cur_self s m HC) in E.
        eapply (read_from_live c HCap HPos _ ch s m t acc _ e s' P HE HC M V O); [|exact E].
        unfold blen, bytes. match goal with |- context [if ?b then _ else _] => destruct b end; lia.
    + destruct (app_close c cc s) as [e s'] eqn:E. cbn [fst snd].
      apply (close_step c cc s fs a e s' HCap G HE E).
    + destruct (write_control c ty d dl s) as [e s'] eqn:E. cbn [fst snd].
      apply (control_step c s fs a ty d dl e s' G HE E).
    + cbn [fst snd]. exists fs. apply (quiet_step c s fs a _ AOther _ G HE); [reflexivity|reflexivity|reflexivity|reflexivity|intros X; destruct X; constructor; assumption|reflexivity|exact I].
    + cbn [fst snd]. exists fs. apply (quiet_step c s fs a _ (ASetComp b) _ G HE); [reflexivity|reflexivity|reflexivity|reflexivity|intros X; destruct X; constructor; assumption|reflexivity|exact I].
    + exists fs. destruct (valid_level l); cbn [fst snd].
      * apply (quiet_step c s fs a _ AOther _ G HE); [reflexivity|reflexivity|reflexivity|reflexivity|intros X; destruct X; constructor; assumption|reflexivity|exact I].
      * apply (quiet_step c s fs a _ AOther _ G HE); [reflexivity|reflexivity|reflexivity|reflexivity|auto|reflexivity|exact I].
    + contradiction.
Qed.

(* ------------------------------------------------------------------------------------------ *)
(* programs                                                                                   *)
(* ------------------------------------------------------------------------------------------ *)
Definition obs_prog (c:wcfg) (s:wst) (ops:list wop) : list (aop * N) :=
  combine (map wop_aop ops) (map e_werr_N (fst (wrun c s ops))).

Lemma wrun_G c ops : capok c -> 0 < cap c -> w_negotiated c = false -> forall s fs a,
  Forall op_small ops -> Forall op_not_prepared ops -> GInv c s fs a ->
  exists fs', GInv c (snd (wrun c s ops)) fs' (arun false a (obs_prog c s ops)).
Proof.
  intros HCap HPos HN. induction ops as [|o r IH]; intros s fs a HS HP G.
  - exists fs. exact G.
  - inversion HS as [|? ? S1 S2]; subst. inversion HP as [|? ? P1 P2]; subst.
    unfold obs_prog in *. cbn [wrun] in *.
    pose proof (wstep_G c s fs a o HCap HPos HN S1 P1 G) as ST.
    destruct (wstep c s o) as [e s1] eqn:E1. cbn [fst snd] in ST.
    specialize (IH s1).
    destruct (wrun c s1 r) as [es s2] eqn:E2. cbn [fst snd map combine arun] in *.
    destruct ST as (fs1 & G1).
    apply (IH fs1 _ S2 P2 G1).
Qed.

Lemma init_GInv c ks : Forall len4 ks -> GInv c (init_wst c ks None) [] ast0.
Proof.
  intros HK. constructor.
  - reflexivity.
  - constructor.
  - reflexivity.
  - unfold Mode. cbn [init_wst werr]. split; [reflexivity|]. split.
    + constructor; try reflexivity; [exact HK|constructor].
    + unfold Live. cbn [init_wst cur]. split; reflexivity.
Qed.

Lemma tag_inj (a b:list frame) : map (fun f : frame => (f, true)) a = map (fun f : frame => (f, true)) b -> a = b.
Proof.
  revert b; induction a as [|x a IH]; intros [|y b] H; cbn [map] in H; try discriminate; [reflexivity|].
  inversion H; subst. f_equal. apply IH. assumption.
Qed.

Lemma encode_frames_inj fs1 fs2 : Forall wf_frame fs1 -> Forall wf_frame fs2 ->
  encode_frames fs1 = encode_frames fs2 -> fs1 = fs2.
Proof.
  intros H1 H2 HE. pose proof (parse_frames_encode fs1 H1) as P1. pose proof (parse_frames_encode fs2 H2) as P2.
  rewrite HE in P1. rewrite P1 in P2. inversion P2 as [X]. apply tag_inj. exact X.
Qed.

Lemma cap_pos c : 14 < w_bufsize c -> 0 < cap c.
Proof. unfold cap, c_maxFrameHeaderSize. lia. Qed.

(* C02, second half: the events carried by the frames on the wire are exactly what the abstract
   writer says was sent: the messages of the write calls that reported success (and of the
   implicit closes, see Spec/WriterSpec.v), in call order.  No condition on the program.
   Second clause: if, according to the abstract writer, no close message went out and no message
   is left open, the wire ends at a message boundary. *)
Theorem wire_events_and_boundary :
  forall c ks ops fs,
    14 < w_bufsize c -> w_bufsize c < 2^62 -> w_negotiated c = false ->
    Forall (fun k => length k = 4%nat) ks -> Forall op_small ops -> no_prepared ops ->
    let r := wrun c (init_wst c ks None) ops in
    let prog := combine (map wop_aop ops) (map e_werr_N (fst r)) in
    Forall wf_frame fs -> wire_of (evs (snd r)) = encode_frames fs ->
    map sent_of_event (events_of fs) = a_out (arun false ast0 prog) /\
    (a_dead (arun false ast0 prog) = false -> a_open (arun false ast0 prog) = None ->
     snd (events_from None fs) = None).
Proof.
  intros c ks ops fs HB1 HB2 HN HK HS HP r prog Hwf HW.
  destruct (wrun_G c ops (capok_of c HB2) (cap_pos c HB1) HN _ [] ast0 HS HP (init_GInv c ks HK)) as (fs0 & [G1 G2 G3 G4]).
  fold r in G1. unfold wire in G1. rewrite HW in G1.
  rewrite (encode_frames_inj fs fs0 Hwf G2 G1). split; [exact G3|].
  intros HD HO. unfold Mode in G4. destruct (werr (snd (wrun c (init_wst c ks None) ops))).
  - unfold obs_prog in G4. fold r prog in G4. congruence.
  - destruct G4 as (_ & _ & L). unfold Live in L. destruct (Writer.cur (snd (wrun c (init_wst c ks None) ops))).
    + destruct L as (_ & _ & t & acc & X & _). unfold obs_prog in X. fold r prog in X. congruence.
    + apply L.
Qed.

Theorem wire_events_are_the_sent_messages :
  forall c ks ops fs,
    14 < w_bufsize c -> w_bufsize c < 2^62 -> w_negotiated c = false ->
    Forall (fun k => length k = 4%nat) ks -> Forall op_small ops -> no_prepared ops ->
    let r := wrun c (init_wst c ks None) ops in
    let prog := combine (map wop_aop ops) (map e_werr_N (fst r)) in
    Forall wf_frame fs -> wire_of (evs (snd r)) = encode_frames fs ->
    map sent_of_event (events_of fs) = a_out (arun false ast0 prog).
Proof.
  intros c ks ops fs HB1 HB2 HN HK HS HP r prog Hwf HW.
  apply (wire_events_and_boundary c ks ops fs HB1 HB2 HN HK HS HP Hwf HW).
Qed.

(* the same with the frame list of the first half of C02 ([wire_wellformed_negotiated]) *)
Corollary wire_wellformed_and_events :
  forall c ks ops,
    14 < w_bufsize c -> w_bufsize c < 2^62 -> w_negotiated c = false ->
    Forall (fun k => length k = 4%nat) ks -> Forall op_small ops -> no_prepared ops ->
    let r := wrun c (init_wst c ks None) ops in
    let prog := combine (map wop_aop ops) (map e_werr_N (fst r)) in
    exists fs, wire_of (evs (snd r)) = encode_frames fs /\ Forall wf_frame fs /\
      wf_wire (negb (w_server c)) false (map (fun f => (f, true)) fs) = true /\
      map sent_of_event (events_of fs) = a_out (arun false ast0 prog).
Proof.
  intros c ks ops HB1 HB2 HN HK HS HP r prog.
  destruct (wire_wellformed_negotiated c ks ops HB2 HK HS HP (or_introl HN)) as (fs & A & B & C).
  exists fs. rewrite HN in C. split; [exact A|]. split; [exact B|]. split; [exact C|].
  apply (wire_events_are_the_sent_messages c ks ops fs HB1 HB2 HN HK HS HP B A).
Qed.

(* the model's connection state against the abstract writer's flags: the connection is closed
   for writing exactly when the abstract writer is dead, and otherwise a message writer is open
   exactly when the abstract writer has a message open *)
Theorem abstract_flags_exact :
  forall c ks ops,
    14 < w_bufsize c -> w_bufsize c < 2^62 -> w_negotiated c = false ->
    Forall (fun k => length k = 4%nat) ks -> Forall op_small ops -> no_prepared ops ->
    let r := wrun c (init_wst c ks None) ops in
    let A := arun false ast0 (combine (map wop_aop ops) (map e_werr_N (fst r))) in
    (a_dead A = true <-> werr (snd r) <> None) /\
    (a_dead A = false -> (a_open A = None <-> cur (snd r) = None)).
Proof.
  intros c ks ops HB1 HB2 HN HK HS HP r A.
  destruct (wrun_G c ops (capok_of c HB2) (cap_pos c HB1) HN _ [] ast0 HS HP (init_GInv c ks HK)) as (fs0 & [G1 G2 G3 G4]).
  unfold obs_prog in G4. fold r A in G4. unfold Mode in G4.
  destruct (werr (snd r)) as [x|].
  - split; [split; [discriminate|intros _; exact G4]|]. congruence.
  - destruct G4 as (D & _ & L). split; [split; [congruence|intros X; contradiction X; reflexivity]|].
    intros _. unfold Live in L. destruct (cur (snd r)) as [m|].
    + destruct L as (_ & _ & t & acc & X & _). rewrite X. split; discriminate.
    + destruct L as [_ X]. rewrite X. split; reflexivity.
Qed.

(* ------------------------------------------------------------------------------------------ *)
(* the former side condition [ctl_writers_closed] and its program-level sufficient condition  *)
(* (NextWriter is only asked for data messages), kept as corollaries                          *)
(* ------------------------------------------------------------------------------------------ *)
Fixpoint ctl_writers_closed (a:ast) (l:list (aop * N)) : Prop :=
  match l with
  | [] => True
  | (o, r) :: l' => implicit_ok a o /\ ctl_writers_closed (astep false a o r) l'
  end.

Definition data_next (o:wop) : Prop :=
  match o with WNext ty _ => is_control ty = false | _ => True end.
Definition adata_next (o:aop) : Prop :=
  match o with ANext ty => is_control ty = false | _ => True end.

Lemma astep_open_is_data a o r : open_is_data a -> adata_next o -> open_is_data (astep false a o r).
Proof.
  destruct a as [ao ac out dd]. unfold open_is_data, adata_next, astep. cbn [a_open a_comp a_out a_dead].
  intros H1 H2.
  destruct ((r =? 6) || (r =? 7)), (r =? 0), o, ao as [[[t cf] d0]|], dd;
    cbn [andb a_open a_comp a_out a_dead]; auto;
    repeat match goal with |- context [if ?b then _ else _] => destruct b end;
    cbn [andb a_open a_comp a_out a_dead]; auto.
Qed.

Lemma ctl_closed_of_data l : forall a, open_is_data a -> Forall (fun x : aop * N => adata_next (fst x)) l ->
  ctl_writers_closed a l.
Proof.
  induction l as [|[o r] l IH]; intros a HA HF; cbn [ctl_writers_closed]; [exact I|].
  inversion HF as [|? ? F1 F2]; subst. cbn [fst] in F1. split.
  - unfold implicit_ok. destruct o; auto.
  - apply IH; [apply astep_open_is_data; assumption|exact F2].
Qed.

Lemma data_next_prog ops : forall rs, Forall data_next ops ->
  Forall (fun x : aop * N => adata_next (fst x)) (combine (map wop_aop ops) rs).
Proof.
  induction ops as [|o r IH]; intros rs HF; cbn [map combine]; [constructor|].
  destruct rs as [|x rs]; [constructor|]. inversion HF as [|? ? F1 F2]; subst.
  constructor; [|apply IH; exact F2]. cbn [fst]. destruct o; cbn [wop_aop adata_next data_next] in *; auto.
Qed.

Corollary wire_events_data_next :
  forall c ks ops fs,
    14 < w_bufsize c -> w_bufsize c < 2^62 -> w_negotiated c = false ->
    Forall (fun k => length k = 4%nat) ks -> Forall op_small ops -> no_prepared ops ->
    Forall data_next ops ->
    let r := wrun c (init_wst c ks None) ops in
    Forall wf_frame fs -> wire_of (evs (snd r)) = encode_frames fs ->
    map sent_of_event (events_of fs) =
    a_out (arun false ast0 (combine (map wop_aop ops) (map e_werr_N (fst r)))).
Proof.
  intros c ks ops fs HB1 HB2 HN HK HS HP _ r Hwf HW.
  apply (wire_events_are_the_sent_messages c ks ops fs HB1 HB2 HN HK HS HP Hwf HW).
Qed.

(* ------------------------------------------------------------------------------------------ *)
(* the corner cases that used to need [ctl_writers_closed]; the remaining side condition      *)
(* ------------------------------------------------------------------------------------------ *)
Definition ex_keys : list bytes := [[1;2;3;4];[1;2;3;4];[1;2;3;4];[1;2;3;4]].
Definition ex_cfg (sv:bool) (n:N) : wcfg := {| w_server := sv; w_bufsize := n; w_pooled := false; w_negotiated := false |}.

(* (1) a Write that overflows the buffer of a control-type writer ends that writer (flushFrame
   refuses a non-final control frame, errInvalidControlFrame = 4); the abstract writer abandons
   the message at the failed Write, so the next NextWriter has nothing to complete: model and
   abstract writer agree that nothing was sent. *)
Example ctl_writer_overflow_then_implicit_close :
  let c := ex_cfg false (14 + 125) in
  let ops := [WNext 9 []; WWrite (repeat 7 126) []; WNext 1 []] in
  let r := wrun c (init_wst c ex_keys None) ops in
  map e_werr_N (fst r) = [0; 4; 0] /\
  wire_of (evs (snd r)) = encode_frames [] /\
  a_out (arun false ast0 (combine (map wop_aop ops) (map e_werr_N (fst r)))) = [].
Proof. cbv zeta. split; [|split]; vm_compute; reflexivity. Qed.

(* (2) more than 125 bytes accepted by a control-type writer (the buffer is larger): the implicit
   close is refused and its error is dropped by NextWriter; the abstract writer's flush drops a
   control-type message longer than 125 bytes: again both say that nothing was sent. *)
Example ctl_writer_too_long_then_implicit_close :
  let c := ex_cfg false (14 + 200) in
  let ops := [WNext 9 []; WWrite (repeat 7 126) []; WNext 1 []] in
  let r := wrun c (init_wst c ex_keys None) ops in
  map e_werr_N (fst r) = [0; 0; 0] /\
  wire_of (evs (snd r)) = encode_frames [] /\
  a_out (arun false ast0 (combine (map wop_aop ops) (map e_werr_N (fst r)))) = [].
Proof. cbv zeta. split; [|split]; vm_compute; reflexivity. Qed.

(* (2') the same with at most 125 bytes: the implicit close sends the ping *)
Example ctl_writer_implicit_close_sends :
  let c := ex_cfg false (14 + 200) in
  let ops := [WNext 9 []; WWrite (repeat 7 125) []; WNext 1 []] in
  let r := wrun c (init_wst c ex_keys None) ops in
  let fs := map fst (fst (parse_frames (wire_of (evs (snd r))))) in
  map e_werr_N (fst r) = [0; 0; 0] /\
  wire_of (evs (snd r)) = encode_frames fs /\
  map sent_of_event (events_of fs) = [the_sent 9 (repeat 7 125)] /\
  a_out (arun false ast0 (combine (map wop_aop ops) (map e_werr_N (fst r)))) = [the_sent 9 (repeat 7 125)].
Proof. cbv zeta. repeat split; vm_compute; reflexivity. Qed.

(* (2'') a close-type writer left to the implicit close of the next NextWriter: the close frame
   goes out, the NextWriter that sent it reports errCloseSent (1), and so does everything after
   it.  This is why the abstract writer's flush marks the connection dead whatever the result
   code of the call: with [a_dead] read off the result code the abstract run would end with
   [a_dead = false] although its output contains a close message. *)
Example close_writer_implicit_close :
  let c := ex_cfg false (14 + 125) in
  let ops := [WNext 8 []; WWrite [3;232] []; WNext 1 []; WMessage 1 [1] [] [] []] in
  let r := wrun c (init_wst c ex_keys None) ops in
  let fs := map fst (fst (parse_frames (wire_of (evs (snd r))))) in
  let A := arun false ast0 (combine (map wop_aop ops) (map e_werr_N (fst r))) in
  map e_werr_N (fst r) = [0; 0; 1; 1] /\
  wire_of (evs (snd r)) = encode_frames fs /\
  map sent_of_event (events_of fs) = [the_sent 8 [3;232]] /\
  a_out A = [the_sent 8 [3;232]] /\ a_dead A = true /\ a_open A = None.
Proof. cbv zeta. repeat split; vm_compute; reflexivity. Qed.

(* these programs are outside the former side condition *)
Example ctl_writers_closed_excludes :
  let c := ex_cfg false (14 + 200) in
  let ops := [WNext 9 []; WWrite (repeat 7 126) []; WNext 1 []] in
  let r := wrun c (init_wst c ex_keys None) ops in
  ~ ctl_writers_closed ast0 (combine (map wop_aop ops) (map e_werr_N (fst r))).
Proof.
  cbv zeta. intros H. vm_compute in H. destruct H as (_ & _ & H & _). specialize (H eq_refl). discriminate H.
Qed.

(* (3) with no room in the write buffer (w_bufsize = maxFrameHeaderSize) the copy loop cannot make
   progress (the model runs out of fuel; the Go code would spin): [14 < w_bufsize c] is needed *)
Example empty_buffer_needed :
  let c := ex_cfg false 14 in
  let ops := [WNext 1 []; WWrite [1;2] []; WClose []] in
  let r := wrun c (init_wst c ex_keys None) ops in
  let fs := map fst (fst (parse_frames (wire_of (evs (snd r))))) in
  map e_werr_N (fst r) = [0; 0; 0] /\ oracle_short (snd r) = true /\
  wire_of (evs (snd r)) = encode_frames fs /\
  map sent_of_event (events_of fs) = [the_sent 1 []] /\
  a_out (arun false ast0 (combine (map wop_aop ops) (map e_werr_N (fst r)))) = [the_sent 1 [1;2]].
Proof. cbv zeta. repeat split; vm_compute; reflexivity. Qed.

(* [wop_aop] is the harness's [aop_of] on plain operations *)
Lemma wop_aop_aop_of o : wop_aop o = aop_of (COp o).
Proof. destruct o; reflexivity. Qed.

(* non-vacuity: a client program with a fragmented text message, an interleaved ping, a
   control-type writer closed explicitly, WriteMessage and a final close *)
Example events_instance :
  let c := ex_cfg false 17 in
  let ks := repeat [1;2;3;4] 10 in
  let ops := [WNext 1 []; WWrite [1;2;3;4;5] []; WControl 9 [9] 0; WReadFrom [[6];[];[7;8]]; WClose [];
              WNext 10 []; WWriteString [3] []; WClose [];
              WMessage 2 [7;7;7;7] [] [] []; WNext 2 []; WWrite [5] []; WMessage 8 [3;232] [] [] [];
              WMessage 1 [1] [] [] []] in
  exists fs, wire_of (evs (snd (wrun c (init_wst c ks None) ops))) = encode_frames fs /\
    map (fun f => opcode f) fs = [1; 9; 0; 0; 10; 2; 0; 2; 8] /\
    map sent_of_event (events_of fs) =
      [the_sent 9 [9]; the_sent 1 [1;2;3;4;5;6;7;8]; the_sent 10 [3]; the_sent 2 [7;7;7;7];
       the_sent 2 [5]; the_sent 8 [3;232]].
Proof.
  cbv zeta.
  destruct (wire_wellformed_and_events (ex_cfg false 17) (repeat [1;2;3;4] 10)
    [WNext 1 []; WWrite [1;2;3;4;5] []; WControl 9 [9] 0; WReadFrom [[6];[];[7;8]]; WClose [];
     WNext 10 []; WWriteString [3] []; WClose [];
     WMessage 2 [7;7;7;7] [] [] []; WNext 2 []; WWrite [5] []; WMessage 8 [3;232] [] [] [];
     WMessage 1 [1] [] [] []]) as (fs & A & B & C & D).
  - vm_compute. reflexivity.
  - vm_compute. reflexivity.
  - reflexivity.
  - repeat constructor.
  - repeat constructor; unfold small; vm_compute; reflexivity.
  - repeat constructor.
  - exists fs. split; [exact A|]. split.
    + apply (f_equal parse_frames) in A. rewrite (parse_frames_encode fs B) in A.
      vm_compute in A. inversion A as [X]. clear - X.
      repeat (destruct fs as [|? fs]; [discriminate X|]; cbn [map] in X; injection X as <- X). 
      destruct fs; [reflexivity|discriminate X].
    + rewrite D. vm_compute. reflexivity.
Qed.

Print Assumptions wire_events_and_boundary.
Print Assumptions wire_events_are_the_sent_messages.
Print Assumptions wire_wellformed_and_events.
Print Assumptions abstract_flags_exact.
Print Assumptions wire_events_data_next.
