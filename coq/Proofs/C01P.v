(* C01: "every valid message is accepted", on a connection made by newConn (write buffer at
   least 125 payload bytes + the largest header). *)
Require Import WS.Base.Bytes WS.gen.Consts WS.Spec.Frame WS.Proofs.FrameP WS.Model.Writer.
Require Import WS.Proofs.WWBase WS.Proofs.WWInv WS.Proofs.PrepFrames WS.Proofs.PrepMsg WS.Proofs.PreparedP.
From Coq Require Import Lia ZifyN ZifyBool.

Lemma eff_wbuf_floor u : 139 <= eff_wbuf u.
Proof.
  unfold eff_wbuf, c_defaultWriteBufferSize, c_maxControlFramePayloadSize, c_maxFrameHeaderSize.
  destruct (u =? 0) eqn:E0; [lia|]. destruct (u <? 125) eqn:E1; lia.
Qed.

Lemma cap_floor c : 139 <= w_bufsize c -> 125 <= cap c.
Proof. unfold cap, c_maxFrameHeaderSize. lia. Qed.

(* WriteMessage of a valid message on a live connection with no transport fault is accepted and
   appends frames that decode to exactly that message *)
Theorem valid_message_accepted c ty data ic wc cc s :
  139 <= w_bufsize c ->
  cur s = None -> werr s = None -> fail_at s = None -> Forall len4 (keys s) ->
  w_negotiated c && wcomp s && is_data_ty ty = false ->
  msg_valid ty data -> blen data < 2^62 ->
  exists s' fs,
    write_message c ty data ic wc cc s = (None, s') /\
    wire s' = wire s ++ encode_frames fs /\ Forall wf_frame fs /\
    wf_wire (negb (w_server c)) (w_negotiated c) (tag fs) = true /\
    open_after false (tag fs) = false /\
    events_of fs = [expected_event ty data] /\
    werr s' = (if ty =? c_CloseMessage then Some WCloseSent else None) /\ cur s' = None.
Proof.
  intros HB HC HW HF HK Hnc HV HL.
  assert (HD : direct_ok c s ty data).
  { right. pose proof (cap_floor c HB) as Hc. split; [lia|]. intros Hct.
    destruct HV as [V|[_ V]]; [|lia]. rewrite (data_not_control _ V) in Hct. discriminate Hct. }
  destruct (write_message_plain c ty data ic wc cc s HC HW HF HK Hnc HV HL HD)
    as (s' & l & km & ch & E & W & _ & _ & _ & Wf & Ww & Oa & Ev & We & _ & Cu & _).
  exists s', (msgfs ty 0 l km ch). auto 10.
Qed.
