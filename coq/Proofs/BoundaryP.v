(* C17: the reader a connection gets at the handshake boundary sees exactly the bytes that
   follow the handshake, whatever part of them net/http had already buffered. *)
Require Import WS.Base.Bytes WS.gen.Consts WS.Spec.Frame WS.Model.Bufio WS.Model.Reader WS.Model.Server.
Require Import WS.Proofs.BufioP WS.Proofs.ReaderP1 WS.Proofs.ReaderP.

Lemma eff_rbuf_ge rb : (125 <= eff_rbuf rb)%nat.
Proof.
  unfold eff_rbuf, c_defaultReadBufferSize, c_maxControlFramePayloadSize.
  destruct (rb =? 0) eqn:E0; [lia|]. destruct (rb <? 125) eqn:E1; lia.
Qed.

(* every split k of the stream between the hijacked buffer and the socket, every ReadBufferSize,
   every hijacked reader size (holding at most its capacity) *)
Theorem upgrade_reader_stream rb hs buffered sock :
  wf_script sock -> (length buffered <= N.to_nat (N.max hs 16))%nat ->
  let b := upgrade_reader rb hs buffered sock in
  pending b = buffered ++ stream_of sock /\ binv b /\ (125 <= bsize b)%nat /\ fault (src b) = fault sock.
Proof.
  intros Hwf Hlen. unfold upgrade_reader.
  destruct ((rb =? 0) && (256 <? hs)) eqn:E.
  - apply andb_true_iff in E as [_ E]. apply N.ltb_lt in E.
    split; [apply pending_mk|]. split; [apply binv_mk; [lia|exact Hlen|exact Hwf]|].
    split; [cbn [mk_bufio bsize]; lia|reflexivity].
  - pose proof (eff_rbuf_ge rb) as Hg.
    split; [rewrite pending_mk, brnetconn_stream; reflexivity|].
    split; [apply binv_mk; [lia|cbn; lia|apply brnetconn_wf; exact Hwf]|].
    split; [cbn [mk_bufio bsize]; exact Hg|]. cbn [mk_bufio src]. apply brnetconn_fault.
Qed.

(* hence the messages that follow the handshake are delivered complete and in order, for every
   split point: C03's theorem applies to the reader Upgrade builds *)
Theorem boundary_messages_delivered :
  forall inflate c rb hs buffered sock fs extra,
    custom_handlers c = false -> wf_script sock -> (length buffered <= N.to_nat (N.max hs 16))%nat ->
    conformant_frames c fs -> buffered ++ stream_of sock = encode_frames fs ++ extra -> extra <> [] ->
    let ms := data_msgs (events_of fs) in
    exists s',
      run_ops inflate c (init_rst (upgrade_reader rb hs buffered sock)) (repeat OReadMessage (length ms)) = (map out_of ms, s') /\
      outoffuel s' = false /\ rerror s' = None.
Proof.
  intros inflate c rb hs buffered sock fs extra Hc Hwf Hlen Hconf Hs Hex ms.
  destruct (upgrade_reader_stream rb hs buffered sock Hwf Hlen) as (Hp & Hb & Hsz & _).
  rewrite Hs in Hp.
  destruct (read_messages_conformant inflate c _ fs extra Hc Hb Hsz Hconf Hp Hex) as (s' & H1 & H2 & H3 & _).
  exists s'. auto.
Qed.
Print Assumptions upgrade_reader_stream.
Print Assumptions boundary_messages_delivered.
