(* C04, remaining pieces.  Already proved elsewhere: the model's two-byte header decision equals
   the Spec's [violates_hdr] for all 2^19 cases (SweepP.hdr_reject_iff_violates), a violating
   header is refused (ReaderBasicP.header_violation_refused), errors are permanent
   (ReaderBasicP.errors_are_permanent), a bad close body is refused (CtlP.advance_close_bad).
   Here: a 64-bit length with the top bit set; and the compositions "conformant prefix, then the
   violation, then anything": everything before is delivered intact, the read fails at that
   frame, nothing of it is delivered or handled, later reads fail the same way, and (except for
   the length case) a 1002 close is sent.  Both between messages and inside an open message. *)
Require Import WS.Base.Bytes WS.gen.Consts WS.Spec.Utf8 WS.Spec.Frame WS.Spec.Conformance WS.Model.Bufio
  WS.Model.Reader WS.Proofs.BufioP WS.Proofs.FrameP WS.Proofs.SweepP WS.Proofs.ReaderBasicP.
From RecordUpdate Require Import RecordSet.
Import RecordSetNotations.
Require Import WS.Proofs.ReaderP1 WS.Proofs.ReaderP2 WS.Proofs.ReaderP3 WS.Proofs.ReaderP.
Require Import WS.Proofs.CtlP.
Ltac Zify.zify_post_hook ::= Z.div_mod_to_equations.

(* ------------------------------------------------------------------------------------------ *)
(* 1. A 64-bit payload length with the most significant bit set                               *)
(* ------------------------------------------------------------------------------------------ *)
Transparent aas2 aas3.

Theorem top_bit_length_refused c s b0 b1 len rest :
  binv (br s) -> (125 <= bsize (br s))%nat -> rem s = 0 ->
  pending (br s) = b0 :: b1 :: be_enc 8 len ++ rest ->
  N.land b1 127 = 127 -> 2^63 <= len -> len < 2^64 ->
  hdr_reject c (rfin s) b0 b1 = false ->
  exists s', advance_frame c s = (AErr RReadLimit, s') /\
    wlog s' = (if closesent s then wlog s else wlog s ++ [WCloseTooBig]) /\
    hlog s' = hlog s /\ hcount s' = hcount s /\ closesent s' = true /\
    pending (br s') = rest /\ binv (br s') /\ outoffuel s' = outoffuel s.
Proof.
  intros Hinv Hbs Hrem Hp H127 Hlo Hhi Hrej.
  rewrite advance_frame_rem0 by exact Hrem. rewrite aas_unfold.
  change (b0 :: b1 :: be_enc 8 len ++ rest) with ([b0; b1] ++ (be_enc 8 len ++ rest)) in Hp.
  destruct (rd_app 2 s _ _ Hinv ltac:(lia) Hp eq_refl) as (b' & Hrd & Hp1 & Hinv1 & Hbs1 & Hfl1).
  rewrite Hrd. cbv iota. cbn [nth].
  unfold aas2. cbv zeta.
  replace (rfin (s <| br := b' |> <| rem := N.land b1 127 |> <| rdecomp := bit b0 c_rsv1Bit && negotiated c |>))
    with (rfin s) by reflexivity.
  rewrite Hrej.
  match goal with |- context [aas3 _ _ _ _ ?x] => set (s2 := x) end.
  assert (E2 : br s2 = b' /\ wlog s2 = wlog s /\ hlog s2 = hlog s /\ hcount s2 = hcount s /\
               closesent s2 = closesent s /\ outoffuel s2 = outoffuel s).
  { subst s2. destruct ((N.land b0 15 =? c_TextMessage) || (N.land b0 15 =? c_BinaryMessage));
      [repeat split|]. destruct (N.land b0 15 =? c_continuationFrame); repeat split. }
  destruct E2 as (E1 & E2 & E3 & E4 & E5 & E6).
  unfold aas3. rewrite H127. change (127 =? 126) with false. change (127 =? 127) with true. cbv iota.
  destruct (rd_app 8 s2 (be_enc 8 len) rest) as (b2 & Hrd2 & Hp2 & Hinv2 & Hbs2 & Hfl2);
    [rewrite E1; exact Hinv1|rewrite E1; lia|rewrite E1; exact Hp1|apply be_enc_length|].
  rewrite Hrd2. cbv beta iota.
  rewrite be_roundtrip by (change (256 ^ N.of_nat 8) with (2^64); exact Hhi).
  replace (2^63 <=? len) with true by lia.
  eexists. split; [reflexivity|]. unfold send.
  change (closesent (s2 <| br := b2 |>)) with (closesent s2). rewrite E5.
  destruct (closesent s) eqn:Ecs; rsimpl; rewrite ?E2, ?E3, ?E4, ?E5, ?E6; auto 10.
Qed.

Opaque aas2 aas3.

(* ------------------------------------------------------------------------------------------ *)
(* 2. A violation after a conformant prefix                                                   *)
(* ------------------------------------------------------------------------------------------ *)
(* what all "fails at that frame" theorems below conclude about the final state [s'] and
   about everything that happens afterwards *)
Definition stopped (inflate:bytes -> option bytes) (c:rcfg) (s':rst) (e:rerr) (w:list wback) (left:bytes) : Prop :=
  rerror s' = Some e /\ wlog s' = w /\ hlog s' = [] /\ outoffuel s' = false /\
  pending (br s') = left /\
  forall ops, exists rs s'', run_ops inflate c s' ops = (rs, s'') /\
    Forall is_failure rs /\ br s'' = br s' /\ hlog s'' = hlog s' /\ wlog s'' = wlog s' /\
    rerror s'' = Some e.

Lemma stopped_intro inflate c s' e w left :
  rerror s' = Some e -> wlog s' = w -> hlog s' = [] -> outoffuel s' = false ->
  pending (br s') = left -> stopped inflate c s' e w left.
Proof.
  intros H1 H2 H3 H4 H5. unfold stopped. split; [exact H1|]. split; [exact H2|]. split; [exact H3|].
  split; [exact H4|]. split; [exact H5|].
  intros ops. destruct (errors_are_permanent inflate c ops s' _ H1) as (rs & s'' & Hr & Hfz & Hfail).
  exists rs, s''. split; [exact Hr|]. split; [exact Hfail|].
  destruct (frozen_fields _ _ Hfz) as (F1 & F2 & F3 & F4). rewrite F4. auto.
Qed.

(* header-level violation (reserved bit or opcode, fragmented or oversized control frame,
   continuation with nothing to continue, wrong masking), seen on the first two bytes of a frame
   that follows complete messages; ANY bytes may follow *)
Theorem violation_after_prefix :
  forall inflate c b fs b0 b1 junk,
    custom_handlers c = false -> binv b -> (125 <= bsize b)%nat ->
    conformant_frames c fs -> b0 < 256 -> b1 < 256 ->
    violates_hdr (server c) (negotiated c) false (frame_of_hdr b0 b1) (b1 mod 128) = true ->
    pending b = encode_frames fs ++ b0 :: b1 :: junk ->
    let ms := data_msgs (events_of fs) in
    exists s',
      run_ops inflate c (init_rst b) (repeat OReadMessage (S (length ms))) =
        (map out_of ms ++ [RMsg 0 [] (Some RProto)], s') /\
      closesent s' = true /\
      stopped inflate c s' RProto (map WPong (pings_of fs) ++ [WCloseProto]) junk.
Proof.
  intros inflate c b fs b0 b1 junk Hch Hinv Hbs Hconf H0 H1 Hv Hp ms.
  set (Post := fun s1 s2 : rst =>
    wlog s2 = wlog s1 ++ [WCloseProto] /\ closesent s2 = true /\
    hlog s2 = hlog s1 /\ pending (br s2) = junk /\ outoffuel s2 = false).
  destruct (prefix_then_fail inflate c b fs (b0 :: b1 :: junk) RProto Post
              Hch Hinv Hbs Hconf Hp) as (s1 & s2 & sF & Hrun & Hrinv1 & Hrem1 & Hfin1 & Hp1 & Hwl1 & Hhl1 & Hhc1 & Hop1 & Hadv & HPost & HsF).
  { discriminate. }
  { intros s Hrinv Hrem Hfin Hps.
    pose proof Hrinv as (Bi & Bs & _ & _ & Boof & Bcs & _).
    destruct (header_violation_refused inflate c s b0 b1 junk Bi ltac:(lia) Hrem Hps H0 H1)
      as (s2 & Ha & A1 & A2 & A3 & A4 & A5); [rewrite Hfin; exact Hv|].
    exists s2. split; [exact Ha|]. unfold Post. rewrite Bcs in A2.
    split; [exact A2|]. split; [exact A3|]. split; [exact A1|]. split; [exact A4|].
    rewrite (advance_frame_rem0_oof c s _ s2 Hrem Ha). exact Boof. }
  destruct HPost as (P1 & P2 & P3 & P4 & P5).
  exists sF. split; [exact Hrun|]. split; [rewrite HsF; exact P2|].
  apply stopped_intro; rewrite HsF; rsimpl; try congruence; reflexivity.
Qed.

(* a close frame whose body is not acceptable (code not allowed on the wire, reason not UTF-8)
   after complete messages *)
Theorem bad_close_after_prefix :
  forall inflate c b fs cf junk,
    custom_handlers c = false -> binv b -> (125 <= bsize b)%nat ->
    conformant_frames c fs ->
    wf_frame cf -> ctl_ok (server c) cf -> opcode cf = 8 -> close_body_bad (payload cf) = true ->
    pending b = encode_frames fs ++ encode_frame cf ++ junk ->
    let ms := data_msgs (events_of fs) in
    exists s',
      run_ops inflate c (init_rst b) (repeat OReadMessage (S (length ms))) =
        (map out_of ms ++ [RMsg 0 [] (Some RProto)], s') /\
      closesent s' = true /\
      stopped inflate c s' RProto (map WPong (pings_of fs) ++ [WCloseProto]) junk.
Proof.
  intros inflate c b fs cf junk Hch Hinv Hbs Hconf Hwfc Hokc Hopc Hbad Hp ms.
  set (Post := fun s1 s2 : rst =>
    wlog s2 = wlog s1 ++ [WCloseProto] /\ closesent s2 = true /\
    hlog s2 = hlog s1 /\ pending (br s2) = junk /\ outoffuel s2 = false).
  destruct (prefix_then_fail inflate c b fs (encode_frame cf ++ junk) RProto Post
              Hch Hinv Hbs Hconf Hp) as (s1 & s2 & sF & Hrun & Hrinv1 & Hrem1 & Hfin1 & Hp1 & Hwl1 & Hhl1 & Hhc1 & Hop1 & Hadv & HPost & HsF).
  { rewrite encode_frame_decomp. cbn [app]. discriminate. }
  { intros s Hrinv Hrem Hfin Hps.
    destruct (advance_close_bad (fault (src b)) c s cf junk Hrinv Hwfc Hokc Hopc Hrem Hps Hbad)
      as (s2 & Ha & A1 & A2 & A3 & A4 & A5 & A6 & A7 & A8 & A9 & A10).
    exists s2. split; [exact Ha|]. unfold Post. auto. }
  destruct HPost as (P1 & P2 & P3 & P4 & P5).
  exists sF. split; [exact Hrun|]. split; [rewrite HsF; exact P2|].
  apply stopped_intro; rewrite HsF; rsimpl; try congruence; reflexivity.
Qed.

(* a frame whose two header bytes are fine but whose 64-bit length has the top bit set: the
   read fails with ErrReadLimit and the 1009 close frame is sent *)
Theorem top_bit_after_prefix :
  forall inflate c b fs b0 b1 len junk,
    custom_handlers c = false -> binv b -> (125 <= bsize b)%nat ->
    conformant_frames c fs -> b0 < 256 -> b1 < 256 ->
    violates_hdr (server c) (negotiated c) false (frame_of_hdr b0 b1) (b1 mod 128) = false ->
    b1 mod 128 = 127 -> 2^63 <= len -> len < 2^64 ->
    pending b = encode_frames fs ++ b0 :: b1 :: be_enc 8 len ++ junk ->
    let ms := data_msgs (events_of fs) in
    exists s',
      run_ops inflate c (init_rst b) (repeat OReadMessage (S (length ms))) =
        (map out_of ms ++ [RMsg 0 [] (Some RReadLimit)], s') /\
      closesent s' = true /\
      stopped inflate c s' RReadLimit (map WPong (pings_of fs) ++ [WCloseTooBig]) junk.
Proof.
  intros inflate c b fs b0 b1 len junk Hch Hinv Hbs Hconf H0 H1 Hv H127 Hlo Hhi Hp ms.
  set (Post := fun s1 s2 : rst =>
    wlog s2 = wlog s1 ++ [WCloseTooBig] /\ closesent s2 = true /\
    hlog s2 = hlog s1 /\ pending (br s2) = junk /\ outoffuel s2 = false).
  destruct (prefix_then_fail inflate c b fs (b0 :: b1 :: be_enc 8 len ++ junk) RReadLimit Post
              Hch Hinv Hbs Hconf Hp) as (s1 & s2 & sF & Hrun & Hrinv1 & Hrem1 & Hfin1 & Hp1 & Hwl1 & Hhl1 & Hhc1 & Hop1 & Hadv & HPost & HsF).
  { discriminate. }
  { intros s Hrinv Hrem Hfin Hps.
    pose proof Hrinv as (Bi & Bs & _ & _ & Boof & Bcs & _).
    destruct (top_bit_length_refused c s b0 b1 len junk Bi Bs Hrem Hps)
      as (s2 & Ha & A1 & A2 & A3 & A4 & A5 & A6 & A7); try assumption.
    - rewrite land_127_mod. exact H127.
    - rewrite (hdr_reject_iff_violates c (rfin s) b0 b1 H0 H1), Hfin. exact Hv.
    - exists s2. split; [exact Ha|]. unfold Post. rewrite Bcs in A1. rewrite A7, Boof. auto. }
  destruct HPost as (P1 & P2 & P3 & P4 & P5).
  exists sF. split; [exact Hrun|]. split; [rewrite HsF; exact P2|].
  apply stopped_intro; rewrite HsF; rsimpl; try congruence; reflexivity.
Qed.

(* ------------------------------------------------------------------------------------------ *)
(* 3. A violation while a fragmented message is open                                          *)
(* ------------------------------------------------------------------------------------------ *)
Lemma find_data_ctl_app : forall cs l, all_ctl cs = true ->
  find_data (cs ++ l) = match find_data l with
                        | Some (p, f, r) => Some (pings_of cs ++ p, f, r)
                        | None => None
                        end.
Proof.
  induction cs as [|g cs IH]; intros l H.
  - cbn [app pings_of flat_map]. destruct (find_data l) as [[[p f] r]|]; reflexivity.
  - rewrite all_ctl_cons in H. apply andb_true_iff in H. destruct H as [Hg H].
    cbn [app find_data]. rewrite Hg, (IH l H).
    destruct (find_data l) as [[[p f] r]|]; [|reflexivity].
    rewrite pings_of_cons, app_assoc. reflexivity.
Qed.

Lemma lead_ctl_app : forall cs l, all_ctl cs = true -> lead (cs ++ l) = cs ++ lead l.
Proof.
  induction cs as [|g cs IH]; intros l H; [reflexivity|].
  rewrite all_ctl_cons in H. apply andb_true_iff in H. destruct H as [Hg H].
  cbn [app lead]. rewrite Hg, (IH l H). reflexivity.
Qed.

Lemma acc_seq_app_closed srv : forall a o b,
  seq_ok srv o a = true -> acc_seq srv false b = true -> acc_seq srv o (a ++ b) = true.
Proof.
  induction a as [|f a IH]; intros o b Ha Hb.
  - cbn [seq_ok] in Ha. destruct o; [discriminate Ha|exact Hb].
  - cbn [seq_ok app acc_seq] in *. apply andb_true_iff in Ha. destruct Ha as [H1 H2].
    rewrite H1, (IH _ _ H2 Hb). reflexivity.
Qed.

Lemma cont_pre_open : forall r, cont_closes r = false -> cont_pre r = r.
Proof.
  induction r as [|f r IH]; intros H; [reflexivity|]. cbn [cont_closes cont_pre] in *.
  destruct (is_control (opcode f)); [rewrite (IH H); reflexivity|].
  destruct (fin f); [discriminate H|rewrite (IH H); reflexivity].
Qed.

Theorem violation_in_message :
  forall inflate c b fs ofs p f r b0 b1 junk,
    custom_handlers c = false -> binv b -> (125 <= bsize b)%nat ->
    (* complete messages ... *)
    conformant_frames c fs ->
    (* ... then acceptable frames that start a message and do not finish it ... *)
    Forall wf_frame ofs -> acc_seq (server c) false ofs = true ->
    find_data ofs = Some (p, f, r) -> closes (fin f) r = false ->
    blen (encode_frames (fs ++ ofs)) < 2^63 ->
    (* ... then two header bytes that violate framing inside a message, then anything *)
    b0 < 256 -> b1 < 256 ->
    violates_hdr (server c) (negotiated c) true (frame_of_hdr b0 b1) (b1 mod 128) = true ->
    pending b = encode_frames fs ++ encode_frames ofs ++ b0 :: b1 :: junk ->
    let ms := data_msgs (events_of fs) in
    exists s',
      run_ops inflate c (init_rst b) (repeat OReadMessage (S (length ms))) =
        (map out_of ms ++ [RMsg (opcode f) (payload f ++ tail_data (fin f) r) (Some RProto)], s') /\
      closesent s' = true /\
      stopped inflate c s' RProto (map WPong (pings_of (fs ++ ofs)) ++ [WCloseProto]) junk.
Proof.
  intros inflate c b fs ofs p f r b0 b1 junk Hch Hinv Hbs Hconf Hwfo Hacco Hfd Hcl Hblen H0 H1 Hv Hp ms.
  set (k := fault (src b)).
  set (tail := b0 :: b1 :: junk).
  set (extra' := encode_frames (trailer fs) ++ encode_frames ofs ++ tail).
  assert (Hx : extra' <> [] \/ k = EEOF).
  { left. subst extra' tail. intros H. apply app_eq_nil in H. destruct H as [_ H].
    apply app_eq_nil in H. destruct H as [_ H]. discriminate H. }
  assert (Hp' : pending (br (init_rst b)) = encode_frames (body fs) ++ extra').
  { subst extra'. rewrite app_assoc, <- encode_frames_app, body_trailer. exact Hp. }
  destruct (run_msgs inflate k c extra' Hch Hx (length (body fs)) (body fs) (le_n _)
              (init_rst b) (rinv_init b Hinv Hbs) eq_refl eq_refl Hp' (conformant_body c fs Hconf))
    as (sA & Hrun & Hend & Hrem & Hfin & Hpend & Hwl).
  rewrite msgs_body in Hrun. rewrite trailer_body in Hpend. rewrite body_body in Hwl.
  cbn [encode_frames flat_map app] in Hpend. fold (encode_frames (trailer fs)) in Hpend.
  cbn [init_rst wlog app] in Hwl. change (msgs fs) with ms in Hrun.
  assert (HrinvA : rinv k sA).
  { apply rinv_end_rinv; [exact Hend|]. rewrite Hpend. destruct Hx as [Hx|Hx]; [exact Hx|].
    subst extra' tail. intros H. apply app_eq_nil in H. destruct H as [_ H].
    apply app_eq_nil in H. destruct H as [_ H]. discriminate H. }
  destruct (default_handlers_never_log inflate c Hch _ _ _ _ Hrun) as (HhlA & HhcA).
  cbn [init_rst hlog hcount] in HhlA, HhcA.
  (* the frames the last call works through *)
  set (gfs := trailer fs ++ ofs).
  assert (HpA : pending (br sA) = encode_frames gfs ++ tail).
  { rewrite Hpend. subst extra' gfs. rewrite encode_frames_app, <- app_assoc. reflexivity. }
  destruct Hconf as (Hwf & Hseq & Hlen).
  assert (Hwfg : Forall wf_frame gfs).
  { subst gfs. apply Forall_app. split; [|exact Hwfo].
    rewrite <- (body_trailer fs) in Hwf. apply Forall_app in Hwf. apply Hwf. }
  assert (Haccg : acc_seq (server c) false gfs = true).
  { subst gfs. apply acc_seq_app_closed; [apply seq_ok_trailer; exact Hseq|exact Hacco]. }
  assert (Hleng : blen (encode_frames gfs) < 2^63).
  { subst gfs. rewrite <- (body_trailer fs), <- app_assoc, (encode_frames_app (body fs)), blen_app in Hblen. lia. }
  assert (Hfdg : find_data gfs = Some (pings_of (trailer fs) ++ p, f, r)).
  { subst gfs. rewrite (find_data_ctl_app _ _ (trailer_all_ctl fs)), Hfd. reflexivity. }
  set (Post := fun s1 s2 : rst =>
    wlog s2 = wlog s1 ++ [WCloseProto] /\ closesent s2 = true /\
    hlog s2 = hlog s1 /\ pending (br s2) = junk /\ outoffuel s2 = false).
  assert (Hof : open_fail k c tail RProto Post).
  { split; [subst tail; discriminate|].
    intros s Hrinv Hrems Hfins Hps.
    pose proof Hrinv as (Bi & Bs & _ & _ & Boof & Bcs & _).
    destruct (header_violation_refused inflate c s b0 b1 junk Bi ltac:(lia) Hrems Hps H0 H1)
      as (s2 & Ha & A1 & A2 & A3 & A4 & A5); [rewrite Hfins; exact Hv|].
    exists s2. split; [exact Ha|]. unfold Post. rewrite Bcs in A2.
    split; [exact A2|]. split; [exact A3|]. split; [exact A1|]. split; [exact A4|].
    rewrite (advance_frame_rem0_oof c s _ s2 Hrems Ha). exact Boof. }
  assert (Hnf' : custom_handlers c = true -> handler_fail c = []) by (intros H; congruence).
  assert (Hx' : tail <> [] \/ k = EEOF) by (left; subst tail; discriminate).
  assert (Hio' : is_io_eof RProto = false) by reflexivity.
  pose proof (read_message_gen k c tail RProto Post Hnf' Hx' Hio' inflate gfs sA
               (pings_of (trailer fs) ++ p) f r) as RMG.
  specialize (RMG HrinvA Hrem Hfin HpA Hwfg Haccg). specialize (RMG Hleng).
  specialize (RMG Hfdg (fun _ => Hof)).
  destruct RMG as (res & sB & Hrm & Hpost).
  unfold ra_post in Hpost. rewrite Hcl in Hpost.
  destruct Hpost as (-> & s1 & s2 & Hrinv1 & Hrem1 & Hfin1 & Hp1 & HL1 & Ho1 & Hadv & HPost & HsB).
  rewrite <- effs_app in HL1. unfold L in HL1. rewrite (effs_default c _ Hch) in HL1.
  inversion HL1 as [[Hh1 Hn1 Hw1]]. clear HL1.
  destruct HPost as (P1 & P2 & P3 & P4 & P5).
  (* assemble the run *)
  cbn [repeat]. rewrite repeat_cons.
  rewrite (run_ops_app inflate c _ _ _ _ [OReadMessage] Hrun (out_of_not_panic _)).
  cbn [run_ops]. unfold rstep. rewrite Hrm. cbn [fst snd].
  eexists. split; [reflexivity|]. rsimpl. rewrite HsB. rsimpl.
  split; [exact P2|].
  apply stopped_intro; rsimpl; try reflexivity; try congruence.
  rewrite P1, Hw1, Hwl. f_equal.
  rewrite <- map_app. f_equal.
  (* pings of body ++ (lead of the rest ++ open frames) = pings of everything *)
  subst gfs. rewrite (lead_ctl_app _ _ (trailer_all_ctl fs)).
  assert (Hfin_f : fin f = false) by (unfold closes in Hcl; destruct (fin f); [discriminate Hcl|reflexivity]).
  unfold consumed. rewrite Hfin_f in *. unfold closes in Hcl. rewrite (cont_pre_open r Hcl).
  destruct (find_data_lead _ _ _ _ Hfd) as (Hofs & _ & Hctlf).
  pose proof (f_equal pings_of Hofs) as Hpo.
  rewrite pings_of_app, pings_of_cons, (ping1_nonctl f Hctlf) in Hpo. cbn [app] in Hpo.
  rewrite (pings_of_app fs ofs), <- (pings_body_trailer fs), Hpo, !pings_of_app, <- !app_assoc.
  reflexivity.
Qed.

(* ------------------------------------------------------------------------------------------ *)
(* 4. Sanity checks by computation                                                            *)
(* ------------------------------------------------------------------------------------------ *)
Module ViolExamples.
Import CtlExamples.

(* an unmasked text frame sent to a server, after two complete messages and a ping *)
Example violation_run :
  let r := run cfgd (encode_frames fs1 ++ [129; 3; 1;2;3]) 4 in
  fst r = map out_of (data_msgs (events_of fs1)) ++ [RMsg 0 [] (Some RProto); RMsg 0 [] (Some RProto)] /\
  wlog (snd r) = [WPong [104;105]; WPong [1;2;3]; WPong [5]; WCloseProto] /\
  hlog (snd r) = [] /\ pending (br (snd r)) = [1;2;3] /\
  violates_hdr true true false (frame_of_hdr 129 3) (3 mod 128) = true.
Proof. vm_compute. repeat split; reflexivity. Qed.

(* close frame with status 1005 (may not appear on the wire) *)
Example bad_close_run :
  let r := run cfgd (encode_frames fs1 ++ encode_frame (closef (be_enc 2 1005)) ++ [1;2;3]) 3 in
  fst r = map out_of (data_msgs (events_of fs1)) ++ [RMsg 0 [] (Some RProto)] /\
  wlog (snd r) = [WPong [104;105]; WPong [1;2;3]; WPong [5]; WCloseProto] /\
  hlog (snd r) = [] /\ pending (br (snd r)) = [1;2;3] /\
  close_body_bad (be_enc 2 1005) = true.
Proof. vm_compute. repeat split; reflexivity. Qed.

(* 64-bit length with the top bit set: ErrReadLimit and the 1009 close frame *)
Example top_bit_run :
  let r := run cfgd (encode_frames fs1 ++ 130 :: 255 :: be_enc 8 (2^63 + 5) ++ [1;2;3]) 3 in
  fst r = map out_of (data_msgs (events_of fs1)) ++ [RMsg 0 [] (Some RReadLimit)] /\
  wlog (snd r) = [WPong [104;105]; WPong [1;2;3]; WPong [5]; WCloseTooBig] /\ closesent (snd r) = true /\
  pending (br (snd r)) = [1;2;3].
Proof. vm_compute. repeat split; reflexivity. Qed.

(* a new text frame while the fragmented text message of [ofs] is still open: the ReadMessage
   in progress returns the bytes read so far together with the protocol error *)
Definition ofs1 : list frame :=
 [ mkf true 9 0 (Some k1) [7];
   mkf false 1 0 (Some k2) [72;101];
   mkf true 10 0 (Some k1) [8;9];
   mkf false 0 0 (Some k1) [108] ].
Example in_message_run :
  let r := run cfgd (encode_frames fs1 ++ encode_frames ofs1 ++ [129; 131; 1;2;3]) 3 in
  fst r = map out_of (data_msgs (events_of fs1)) ++ [RMsg 1 [72;101;108] (Some RProto)] /\
  wlog (snd r) = map WPong (pings_of (fs1 ++ ofs1)) ++ [WCloseProto] /\
  hlog (snd r) = [] /\ pending (br (snd r)) = [1;2;3] /\
  acc_seq true false ofs1 = true /\
  violates_hdr true true true (frame_of_hdr 129 131) (131 mod 128) = true.
Proof. vm_compute. repeat split; reflexivity. Qed.
End ViolExamples.

Print Assumptions top_bit_length_refused.
Print Assumptions violation_after_prefix.
Print Assumptions bad_close_after_prefix.
Print Assumptions top_bit_after_prefix.
Print Assumptions violation_in_message.
Print Assumptions ViolExamples.in_message_run.
