(* C01 on the models: what the write path of one endpoint puts on the wire, the read path of
   the opposite endpoint delivers.

   - [frame_ok_acc], [wf_wire_seq_ok], [wf_wire_conformant]: a frame sequence that is well-formed
     for a WRITER of one role (Spec.Frame.wf_wire, no compression), contains no close frame and
     ends at a message boundary is conformant for a READER of the opposite role
     (ReaderP.conformant_frames: Spec.Conformance.violates-free, seq_ok).
   - [writer_reader_round_trip]: the writer model then the reader model: n ReadMessage calls
     return exactly the n data messages carried by the wire, no error, no fuel exhaustion, every
     ping answered.
   - [round_trip_end_to_end]: combined with WriterEventsP: the reader delivers exactly the data
     messages the abstract writer (Spec/WriterSpec.v) says were sent; the conditions "no close
     frame" and "no message left open" are stated on the abstract run; no condition on how the
     program closes its writers. *)
Require Import WS.Base.Bytes WS.gen.Consts WS.Spec.Frame WS.Spec.Conformance WS.Spec.WriterSpec WS.Proofs.FrameP.
Require Import WS.Model.Writer WS.Cases.WriterCase.
Require Import WS.Proofs.WWBase WS.Proofs.WWInv WS.Proofs.WWFlate WS.Proofs.WriterWireP.
Require Import WS.Model.Bufio WS.Model.Reader WS.Proofs.BufioP.
Require Import WS.Proofs.ReaderP1 WS.Proofs.ReaderP.
Require Import WS.Proofs.WriterEventsP.
Ltac Zify.zify_post_hook ::= Z.div_mod_to_equations.

(* ------------------------------------------------------------------------------------------ *)
(* writer well-formedness => reader conformance                                               *)
(* ------------------------------------------------------------------------------------------ *)
Lemma frame_ok_acc client open f :
  frame_ok client false open f true = true -> opcode f <> 8 -> frame_acc client open f = true.
Proof.
  unfold frame_ok. cbn [andb]. intros H H8.
  apply andb_true_iff in H. destruct H as [Hm Hc].
  apply frame_acc_intro.
  - unfold is_control, is_data_op in Hc.
    destruct (8 <=? opcode f); [|destruct ((opcode f =? 1) || (opcode f =? 2))];
      destruct (fin f); cbn [andb] in Hc; lia.
  - unfold is_some. destruct client, (mkey f); cbn in Hm |- *; congruence.
  - unfold is_control, is_data_op in Hc.
    destruct (8 <=? opcode f) eqn:E1; [|destruct ((opcode f =? 1) || (opcode f =? 2)) eqn:E2].
    + left. destruct (fin f); [|lia]. repeat split; lia.
    + right. left. destruct open; cbn [negb andb] in Hc; [discriminate|]. split; [lia|reflexivity].
    + right. right. destruct open; [|lia]. split; [lia|reflexivity].
Qed.

Lemma wf_wire_seq_ok client : forall fs open,
  wf_wire_from client false open (tag fs) = true -> Forall (fun f => opcode f <> 8) fs ->
  open_after open (tag fs) = false -> seq_ok client open fs = true.
Proof.
  induction fs as [|f r IH]; intros open H F O; cbn [tag map wf_wire_from open_after seq_ok] in *.
  - rewrite O. reflexivity.
  - apply andb_true_iff in H. destruct H as [H1 H2]. inversion F as [|? ? F1 F2]; subst.
    rewrite (frame_ok_acc client open f H1 F1). cbn [andb]. apply IH; assumption.
Qed.

Lemma wf_wire_conformant cr client fs :
  server cr = client -> Forall wf_frame fs ->
  wf_wire client false (map (fun f => (f, true)) fs) = true ->
  Forall (fun f => opcode f <> 8) fs ->
  open_after false (map (fun f => (f, true)) fs) = false ->
  blen (encode_frames fs) < 2^63 ->
  conformant_frames cr fs.
Proof.
  intros HR Hwf HW HC HO HL. split; [exact Hwf|]. split; [|exact HL].
  rewrite HR. apply wf_wire_seq_ok; assumption.
Qed.

(* ------------------------------------------------------------------------------------------ *)
(* writer then reader                                                                         *)
(* ------------------------------------------------------------------------------------------ *)
Theorem writer_reader_round_trip :
  forall inflate c ks ops cr b extra fs,
    w_bufsize c < 2^62 -> w_negotiated c = false ->
    Forall (fun k => length k = 4%nat) ks -> Forall op_small ops -> no_prepared ops ->
    server cr = negb (w_server c) -> custom_handlers cr = false ->
    let s' := snd (wrun c (init_wst c ks None) ops) in
    Forall wf_frame fs -> wire_of (evs s') = encode_frames fs ->
    Forall (fun f => opcode f <> 8) fs ->
    open_after false (map (fun f => (f, true)) fs) = false ->
    blen (encode_frames fs) < 2^63 ->
    binv b -> (125 <= bsize b)%nat -> pending b = wire_of (evs s') ++ extra -> extra <> [] ->
    exists s_r,
      run_ops inflate cr (init_rst b) (repeat OReadMessage (length (data_msgs (events_of fs)))) =
        (map out_of (data_msgs (events_of fs)), s_r) /\
      rerror s_r = None /\ outoffuel s_r = false /\ wlog s_r = map WPong (pings_of (body fs)).
Proof.
  intros inflate c ks ops cr b extra fs HB HN HK HS HP HR HCh s' Hwf HW HC HO HL Hb Hbs Hpend Hex.
  destruct (wire_wellformed_negotiated c ks ops HB HK HS HP (or_introl HN)) as (fs0 & A0 & B0 & C0).
  fold s' in A0. rewrite HW in A0.
  assert (E : fs = fs0) by (apply encode_frames_inj; assumption). subst fs0. rewrite HN in C0.
  assert (Hconf : conformant_frames cr fs) by (apply (wf_wire_conformant cr (negb (w_server c)) fs); assumption).
  rewrite HW in Hpend.
  destruct (read_messages_conformant inflate cr b fs extra HCh Hb Hbs Hconf Hpend Hex)
    as (s_r & R1 & R2 & R3 & _ & _ & _ & R7 & _).
  exists s_r. auto.
Qed.

(* ------------------------------------------------------------------------------------------ *)
(* events / frames bridges                                                                    *)
(* ------------------------------------------------------------------------------------------ *)
Lemma open_after_events fs : forall acc,
  is_some (snd (events_from acc fs)) = open_after (is_some acc) (map (fun f => (f, true)) fs).
Proof.
  induction fs as [|f r IH]; intros acc; [reflexivity|].
  cbn [map open_after]. unfold next_open.
  destruct (is_control (opcode f)) eqn:Ec; [|destruct (fin f) eqn:Ef].
  - rewrite events_from_ctl by exact Ec. cbn [snd]. apply IH.
  - rewrite events_from_final by assumption. cbn [snd negb]. apply (IH None).
  - rewrite events_from_more by assumption. cbn [negb]. apply (IH (Some (acc_step acc f))).
Qed.

Lemma ctl_event_in fs : forall acc f, In f fs -> is_control (opcode f) = true ->
  In (ECtl (opcode f) (payload f)) (fst (events_from acc fs)).
Proof.
  induction fs as [|g r IH]; intros acc f HIn Hc; [contradiction|].
  destruct (is_control (opcode g)) eqn:Ec; [|destruct (fin g) eqn:Ef].
  - rewrite events_from_ctl by exact Ec. cbn [fst]. destruct HIn as [->|HIn]; [left; reflexivity|].
    right. apply IH; assumption.
  - rewrite events_from_final by assumption. cbn [fst]. destruct HIn as [->|HIn]; [congruence|].
    right. apply IH; assumption.
  - rewrite events_from_more by assumption. destruct HIn as [->|HIn]; [congruence|]. apply IH; assumption.
Qed.

Lemma no_close_event_no_close_frame fs :
  Forall (fun x => s_ty x <> 8) (map sent_of_event (events_of fs)) -> Forall (fun f => opcode f <> 8) fs.
Proof.
  intros H. apply Forall_forall. intros f HIn H8.
  assert (Hc : is_control (opcode f) = true) by (unfold is_control; lia).
  pose proof (ctl_event_in fs None f HIn Hc) as X.
  rewrite Forall_forall in H. apply (H (sent_of_event (ECtl (opcode f) (payload f)))).
  - apply in_map. exact X.
  - exact H8.
Qed.

(* data messages, read off the abstract writer's output *)
Definition sent_data (x:sent) : list (N * bool * bytes) :=
  if s_ty x <? 8 then [(s_ty x, s_comp x, s_data x)] else [].

Definition ev_ok (e:event) : Prop := match e with EMsg t _ _ => t < 8 | ECtl op _ => 8 <= op end.
Definition acc_ok (a:eacc) : Prop := match a with Some (t, _, _) => t < 8 | None => True end.

Lemma events_ok fs : forall acc, acc_ok acc -> Forall ev_ok (fst (events_from acc fs)).
Proof.
  induction fs as [|f r IH]; intros acc HA; [constructor|].
  destruct (is_control (opcode f)) eqn:Ec; [|destruct (fin f) eqn:Ef].
  - rewrite events_from_ctl by exact Ec. cbn [fst]. constructor; [unfold is_control in Ec; cbn; lia|apply IH; exact HA].
  - rewrite events_from_final by assumption. cbn [fst]. constructor; [|apply IH; exact I].
    destruct acc as [[[t cf] d]|]; cbn [acc_step emsg_of ev_ok]; [exact HA|unfold is_control in Ec; lia].
  - rewrite events_from_more by assumption. apply IH.
    destruct acc as [[[t cf] d]|]; cbn [acc_step acc_ok]; [exact HA|unfold is_control in Ec; lia].
Qed.

Lemma data_msgs_sent evs : Forall ev_ok evs -> data_msgs evs = flat_map sent_data (map sent_of_event evs).
Proof.
  induction evs as [|e r IH]; intros H; [reflexivity|]. inversion H as [|? ? H1 H2]; subst.
  cbn [map flat_map]. change (data_msgs (e :: r)) with ((match e with EMsg t c d => [(t, c, d)] | _ => [] end) ++ data_msgs r).
  rewrite (IH H2). f_equal. destruct e as [t cf d|op d]; unfold sent_data; cbn [sent_of_event s_ty s_comp s_data ev_ok] in *.
  - replace (t <? 8) with true by lia. reflexivity.
  - replace (op <? 8) with false by lia. reflexivity.
Qed.

(* ------------------------------------------------------------------------------------------ *)
(* the abstract writer: no close message while it is not dead                                 *)
(* ------------------------------------------------------------------------------------------ *)
Definition not_close (x:sent) : Prop := s_ty x <> 8.

Lemma astep_dead_mono a o r : a_dead a = true -> a_dead (astep false a o r) = true.
Proof.
  destruct a as [ao ac out dd]. cbn [a_dead]. intros ->. unfold astep.
  destruct ((r =? 6) || (r =? 7)), o, (r =? 0), ao as [[[t cf] d0]|];
    cbn [andb a_open a_comp a_out a_dead]; auto;
    repeat match goal with |- context [if ?b then _ else _] => destruct b end;
    cbn [andb a_open a_comp a_out a_dead]; auto.
Qed.

Lemma Forall_snoc {A} (P:A->Prop) l x : Forall P l -> P x -> Forall P (l ++ [x]).
Proof. intros H1 H2. apply Forall_app. split; [exact H1|constructor; [exact H2|constructor]]. Qed.

(* no condition on the program: whatever puts a close message into the output (WriteMessage,
   WriteControl, an explicit Close, the implicit close of a close-type writer) marks the abstract
   writer dead *)
Lemma astep_no_close a o r : a_dead (astep false a o r) = false ->
  Forall not_close (a_out a) -> Forall not_close (a_out (astep false a o r)).
Proof.
  destruct a as [ao ac out dd]. unfold astep, not_close.
  cbn [a_open a_comp a_out a_dead]. intros HD HF.
  destruct ((r =? 6) || (r =? 7)); destruct o; destruct (r =? 0); destruct ao as [[[t cf] d0]|]; destruct dd;
    cbn [andb a_open a_comp a_out a_dead] in *; try discriminate; try assumption;
    repeat match goal with
           | H : context [if ?b then _ else _] |- _ => let E := fresh "E" in destruct b eqn:E
           | |- context [if ?b then _ else _] => let E := fresh "E" in destruct b eqn:E
           end;
    cbn [andb a_open a_comp a_out a_dead] in *; try discriminate; try assumption;
    repeat (apply Forall_snoc); try assumption; cbn [s_ty]; lia.
Qed.

Lemma arun_dead_mono l : forall a, a_dead a = true -> a_dead (arun false a l) = true.
Proof.
  induction l as [|[o r] l IH]; intros a E; cbn [arun]; [exact E|].
  apply IH. apply astep_dead_mono. exact E.
Qed.

Lemma arun_no_close l : forall a, a_dead (arun false a l) = false ->
  Forall not_close (a_out a) -> Forall not_close (a_out (arun false a l)).
Proof.
  induction l as [|[o r] l IH]; intros a HD HF; cbn [arun] in *; [exact HF|].
  apply IH; [exact HD|].
  apply astep_no_close; [|exact HF].
  destruct (a_dead (astep false a o r)) eqn:E; [|reflexivity].
  exfalso. rewrite (arun_dead_mono l _ E) in HD. discriminate HD.
Qed.

(* ------------------------------------------------------------------------------------------ *)
(* end to end: abstract writer -> write path -> wire -> read path                             *)
(* ------------------------------------------------------------------------------------------ *)
Theorem round_trip_end_to_end :
  forall inflate c ks ops cr b extra,
    14 < w_bufsize c -> w_bufsize c < 2^62 -> w_negotiated c = false ->
    Forall (fun k => length k = 4%nat) ks -> Forall op_small ops -> no_prepared ops ->
    let r := wrun c (init_wst c ks None) ops in
    let prog := combine (map wop_aop ops) (map e_werr_N (fst r)) in
    let A := arun false ast0 prog in
    a_dead A = false ->              (* no close message was sent (and no transport error seen) *)
    a_open A = None ->               (* no message left open by the application *)
    server cr = negb (w_server c) -> custom_handlers cr = false ->
    binv b -> (125 <= bsize b)%nat ->
    blen (wire_of (evs (snd r))) < 2^63 ->
    pending b = wire_of (evs (snd r)) ++ extra -> extra <> [] ->
    let dm := flat_map sent_data (a_out A) in
    exists s_r fs,
      run_ops inflate cr (init_rst b) (repeat OReadMessage (length dm)) = (map out_of dm, s_r) /\
      rerror s_r = None /\ outoffuel s_r = false /\
      Forall wf_frame fs /\ wire_of (evs (snd r)) = encode_frames fs /\
      wlog s_r = map WPong (pings_of (body fs)).
Proof.
  intros inflate c ks ops cr b extra HB1 HB2 HN HK HS HP r prog A HD HO HR HCh Hb Hbs HL Hpend Hex dm.
  destruct (wire_wellformed_negotiated c ks ops HB2 HK HS HP (or_introl HN)) as (fs & A0 & B0 & C0).
  fold r in A0.
  destruct (wire_events_and_boundary c ks ops fs HB1 HB2 HN HK HS HP B0 A0) as [EV BD].
  fold r prog A in EV, BD.
  assert (NC : Forall (fun f => opcode f <> 8) fs).
  { apply no_close_event_no_close_frame. rewrite EV.
    apply (arun_no_close prog ast0 HD). constructor. }
  assert (OA : open_after false (map (fun f => (f, true)) fs) = false).
  { pose proof (open_after_events fs None) as X. rewrite (BD HD HO) in X. symmetry. exact X. }
  assert (HL' : blen (encode_frames fs) < 2^63) by (rewrite <- A0; exact HL).
  destruct (writer_reader_round_trip inflate c ks ops cr b extra fs HB2 HN HK HS HP HR HCh B0 A0 NC OA HL' Hb Hbs Hpend Hex)
    as (s_r & R1 & R2 & R3 & R4).
  assert (DM : data_msgs (events_of fs) = dm).
  { subst dm. rewrite <- EV. apply data_msgs_sent. apply events_ok. exact I. }
  rewrite DM in R1. exists s_r, fs. auto 10.
Qed.

(* non-vacuity: a client program (fragmented text message with a ping in between, a pong written
   through a control-type writer closed explicitly, a binary WriteMessage), a server-role reader
   fed the writer's wire in 5-byte chunks followed by one more byte *)
Fixpoint chop (n:nat) (fuel:nat) (l:bytes) : list bytes :=
  match fuel with
  | O => []
  | S k => match l with [] => [] | _ => firstn n l :: chop n k (skipn n l) end
  end.

Example round_trip_instance :
  let c := ex_cfg false 17 in
  let ks := repeat [1;2;3;4] 10 in
  let ops := [WNext 1 []; WWrite [1;2;3;4;5] []; WControl 9 [9] 0; WReadFrom [[6];[];[7;8]]; WClose [];
              WNext 10 []; WWriteString [3] []; WClose [];
              WMessage 2 [7;7;7;7] [] [] []] in
  let w := wire_of (evs (snd (wrun c (init_wst c ks None) ops))) in
  let b := mk_bufio 200 [] {| chunks := chop 5 100 (w ++ [0]); fault := ETimeout; glued := true |} in
  let cr := {| server := true; negotiated := false; custom_handlers := false; handler_fail := []; caps := [] |} in
  exists s_r,
    run_ops (fun _ => None) cr (init_rst b) (repeat OReadMessage 2) =
      ([RMsg 1 [1;2;3;4;5;6;7;8] None; RMsg 2 [7;7;7;7] None], s_r) /\
    rerror s_r = None /\ outoffuel s_r = false /\ wlog s_r = [WPong [9]].
Proof.
  cbv zeta.
  set (c := ex_cfg false 17). set (ks := repeat [1;2;3;4] 10).
  set (ops := [WNext 1 []; WWrite [1;2;3;4;5] []; WControl 9 [9] 0; WReadFrom [[6];[];[7;8]]; WClose [];
              WNext 10 []; WWriteString [3] []; WClose [];
              WMessage 2 [7;7;7;7] [] [] []]).
  set (w := wire_of (evs (snd (wrun c (init_wst c ks None) ops)))).
  set (b := mk_bufio 200 [] {| chunks := chop 5 100 (w ++ [0]); fault := ETimeout; glued := true |}).
  set (cr := {| server := true; negotiated := false; custom_handlers := false; handler_fail := []; caps := [] |}).
  destruct (round_trip_end_to_end (fun _ => None) c ks ops cr b [0]) as (s_r & fs & R1 & R2 & R3 & Rwf & R4 & R5).
  - vm_compute. reflexivity.
  - vm_compute. reflexivity.
  - reflexivity.
  - repeat constructor.
  - repeat constructor; unfold small; vm_compute; reflexivity.
  - repeat constructor.
  - vm_compute. reflexivity.
  - vm_compute. reflexivity.
  - reflexivity.
  - reflexivity.
  - apply binv_mk; [lia|cbn; lia|]. unfold wf_script. cbn [chunks]. vm_compute.
    repeat (constructor; [discriminate|]). constructor.
  - cbn. lia.
  - vm_compute. reflexivity.
  - unfold b. rewrite pending_mk. vm_compute. reflexivity.
  - discriminate.
  - exists s_r.
    assert (DM : flat_map sent_data (a_out (arun false ast0 (combine (map wop_aop ops)
              (map e_werr_N (fst (wrun c (init_wst c ks None) ops)))))) = [(1, false, [1;2;3;4;5;6;7;8]); (2, false, [7;7;7;7])])
      by (vm_compute; reflexivity).
    rewrite DM in R1. cbn [length map out_of fst snd] in R1.
    split; [exact R1|]. split; [exact R2|]. split; [exact R3|]. rewrite R5.
    fold w in R4.
    assert (E : fs = map fst (fst (parse_frames w))).
    { rewrite R4, (parse_frames_encode fs Rwf). cbn [fst]. rewrite map_map. cbn [fst]. symmetry. apply map_id. }
    rewrite E. vm_compute. reflexivity.
Qed.


Print Assumptions wf_wire_conformant.
Print Assumptions writer_reader_round_trip.
Print Assumptions round_trip_end_to_end.
