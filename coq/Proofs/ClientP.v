(* Property C14: the client side of the opening handshake (Model/Client.v). *)
Require Import WS.Base.Bytes WS.gen.Consts WS.Spec.Base64 WS.Spec.Sha1 WS.Model.Fold WS.Model.Util
               WS.Spec.Handshake WS.Proofs.FoldP WS.Model.Server WS.Model.Client.
Require Import WS.Proofs.TokenP WS.Proofs.ServerP.
Import WS.Proofs.ServerP.Lits.
Ltac Zify.zify_post_hook ::= Z.div_mod_to_equations.

Module CLits.
  Import Coq.Strings.String.
  Local Open Scope string_scope.
  Definition lit_Upgrade : bytes := Base64.str "Upgrade".
  Definition lit_Connection : bytes := Base64.str "Connection".
  Definition lit_Host : bytes := Base64.str "Host".
  Definition lit_Key : bytes := Base64.str "Sec-Websocket-Key".
  Definition lit_Version : bytes := Base64.str "Sec-Websocket-Version".
  Definition lit_WKey : bytes := Base64.str "Sec-WebSocket-Key".
  Definition lit_WVersion : bytes := Base64.str "Sec-WebSocket-Version".
  Definition lit_WProtocol : bytes := Base64.str "Sec-WebSocket-Protocol".
  Definition lit_WExtensions : bytes := Base64.str "Sec-WebSocket-Extensions".
  Definition lit_lkey : bytes := Base64.str "sec-websocket-key".
  Definition lit_offer : bytes :=
    Base64.str "permessage-deflate; server_no_context_takeover; client_no_context_takeover".
End CLits.
Import CLits.

Lemma clits_ok :
  k_upgrade = lit_Upgrade /\ k_connection = lit_Connection /\ k_host = lit_Host /\ k_key = lit_Key
  /\ k_version = lit_Version /\ w_key = lit_WKey /\ w_version = lit_WVersion /\ w_protocol = lit_WProtocol
  /\ w_extensions = lit_WExtensions /\ v_upgrade_cap = lit_Upgrade /\ offer = lit_offer.
Proof. repeat split; reflexivity. Qed.

(* ------------------------------------------------------------------------------------ *)
(* 12. judging the server's reply                                                         *)
(* ------------------------------------------------------------------------------------ *)
Definition reply_ok (key:bytes) (p:reply) : bool :=
  (p_status p =? 101)
  && token_list_contains_value (p_upgrade p) str_websocket
  && token_list_contains_value (p_connection p) str_upgrade
  && beq (first_line (p_accept p)) (compute_accept_key key).

Theorem validate_reply_cases key p :
  (reply_ok key p = true /\
   validate_reply key p =
     match first_deflate (parse_extensions (p_extensions p)) with
     | Some e => if ext_has server_nct e && ext_has client_nct e
                 then VAccepted true (first_line (p_protocol p)) else VInvalidCompression
     | None => VAccepted false (first_line (p_protocol p))
     end)
  \/ (reply_ok key p = false /\ validate_reply key p = VBadHandshake (N.min 1024 (p_body_len p))).
Proof.
  unfold reply_ok, validate_reply.
  destruct (p_status p =? 101); cbn [negb andb orb]; [|right; auto].
  destruct (token_list_contains_value (p_upgrade p) str_websocket); cbn [negb andb orb]; [|right; auto].
  destruct (token_list_contains_value (p_connection p) str_upgrade); cbn [negb andb orb]; [|right; auto].
  destruct (beq (first_line (p_accept p)) (compute_accept_key key)); cbn [negb andb orb]; [|right; auto].
  left. auto.
Qed.

Definition passes (v:verdict) : Prop := (exists c sub, v = VAccepted c sub) \/ v = VInvalidCompression.

Theorem validate_reply_iff key p :
  passes (validate_reply key p) <->
  p_status p = 101
  /\ token_list_contains_value (p_upgrade p) str_websocket = true
  /\ token_list_contains_value (p_connection p) str_upgrade = true
  /\ first_line (p_accept p) = compute_accept_key key.
Proof.
  unfold passes. destruct (validate_reply_cases key p) as [[Hok Hv]|[Hok Hv]]; rewrite Hv.
  - unfold reply_ok in Hok. repeat (apply andb_true_iff in Hok as [Hok ?]).
    split.
    + intros _. repeat split; auto; [apply N.eqb_eq; assumption|apply beq_eq; assumption].
    + intros _. destruct (first_deflate _) as [e|]; [|eauto].
      destruct (ext_has server_nct e && ext_has client_nct e); eauto.
  - split.
    + intros [(c & sub & H)|H]; discriminate.
    + intros (H1 & H2 & H3 & H4). exfalso. unfold reply_ok in Hok.
      apply N.eqb_eq in H1. apply beq_eq in H4. rewrite H1, H2, H3, H4 in Hok. discriminate.
Qed.

(* any other reply: ErrBadHandshake, body cut at 1024 bytes *)
Theorem validate_reply_bad key p :
  ~ passes (validate_reply key p) <-> validate_reply key p = VBadHandshake (N.min 1024 (p_body_len p)).
Proof.
  unfold passes. destruct (validate_reply_cases key p) as [[Hok Hv]|[Hok Hv]]; rewrite Hv.
  - split.
    + intros H. exfalso. apply H. destruct (first_deflate _) as [e|]; [|eauto].
      destruct (ext_has server_nct e && ext_has client_nct e); eauto.
    + intros H. exfalso. destruct (first_deflate _) as [e|]; [|discriminate].
      destruct (ext_has server_nct e && ext_has client_nct e); discriminate.
  - split; [reflexivity|]. intros _ [(c & sub & H)|H]; discriminate.
Qed.

Theorem bad_handshake_body key p n :
  validate_reply key p = VBadHandshake n -> n <= 1024 /\ n <= p_body_len p /\ n = N.min 1024 (p_body_len p).
Proof.
  destruct (validate_reply_cases key p) as [[Hok Hv]|[Hok Hv]]; rewrite Hv.
  - destruct (first_deflate _) as [e|]; [|discriminate].
    destruct (ext_has server_nct e && ext_has client_nct e); discriminate.
  - intros H; inversion H; subst. lia.
Qed.

(* Spec level: soundness for ALL replies *)
Theorem dial_sound key p :
  passes (validate_reply key p) ->
  p_status p = 101
  /\ has_token (p_upgrade p) lit_websocket = true
  /\ has_token (p_connection p) lit_upgrade = true
  /\ first_line (p_accept p) = accept_digest key.
Proof.
  intros H. apply validate_reply_iff in H as (H1 & H2 & H3 & H4).
  rewrite accept_key_is_digest in H4. repeat split; auto; apply scanner_sound; assumption.
Qed.

Corollary dial_returns_conn_only_if key p c sub :
  validate_reply key p = VAccepted c sub ->
  p_status p = 101
  /\ has_token (p_upgrade p) lit_websocket = true
  /\ has_token (p_connection p) lit_upgrade = true
  /\ first_line (p_accept p) = accept_digest key
  /\ sub = first_line (p_protocol p).
Proof.
  intros H. assert (Hp : passes (validate_reply key p)) by (left; eauto).
  apply dial_sound in Hp as (A & B & C & D). repeat split; auto.
  destruct (validate_reply_cases key p) as [[Hok Hv]|[Hok Hv]]; rewrite Hv in H; [|discriminate].
  destruct (first_deflate _) as [e|].
  - destruct (ext_has server_nct e && ext_has client_nct e); inversion H; reflexivity.
  - inversion H; reflexivity.
Qed.

(* Spec level: completeness for replies whose list headers are inside the grammar *)
Theorem dial_complete key p :
  forallb line_wf (p_upgrade p) = true -> forallb line_wf (p_connection p) = true ->
  p_status p = 101 ->
  has_token (p_upgrade p) lit_websocket = true ->
  has_token (p_connection p) lit_upgrade = true ->
  first_line (p_accept p) = accept_digest key ->
  passes (validate_reply key p).
Proof.
  intros W1 W2 H1 H2 H3 H4. apply validate_reply_iff. rewrite accept_key_is_digest.
  repeat split; auto; apply scanner_complete; assumption.
Qed.

(* an Accept computed from another key passes only if the digests coincide *)
Theorem accept_of_other_key key key' p :
  first_line (p_accept p) = accept_digest key' ->
  passes (validate_reply key p) -> accept_digest key' = accept_digest key.
Proof. intros H Hp. apply dial_sound in Hp as (_ & _ & _ & H4). congruence. Qed.

Corollary accept_of_other_key_refused key key' p :
  first_line (p_accept p) = accept_digest key' -> accept_digest key' <> accept_digest key ->
  validate_reply key p = VBadHandshake (N.min 1024 (p_body_len p)).
Proof.
  intros H Hne. apply validate_reply_bad. intros Hp. apply Hne. eapply accept_of_other_key; eassumption.
Qed.

(* compression is turned on only if the reply carries permessage-deflate with both
   no_context_takeover parameters *)
Theorem accepted_compression key p sub :
  validate_reply key p = VAccepted true sub ->
  exists e, first_deflate (parse_extensions (p_extensions p)) = Some e
            /\ ext_name e = permessage_deflate
            /\ ext_has server_nct e = true /\ ext_has client_nct e = true.
Proof.
  destruct (validate_reply_cases key p) as [[Hok Hv]|[Hok Hv]]; rewrite Hv; [|discriminate].
  destruct (first_deflate _) as [e|] eqn:E; [|discriminate].
  destruct (ext_has server_nct e && ext_has client_nct e) eqn:E2; [|discriminate].
  intros _. exists e. apply andb_true_iff in E2 as [A B]. repeat split; auto.
  unfold first_deflate in E. apply find_some in E as [_ E]. apply beq_eq. exact E.
Qed.

(* ------------------------------------------------------------------------------------ *)
(* 13. refusals before any network activity                                               *)
(* ------------------------------------------------------------------------------------ *)
Theorem prepare_other_scheme d has_user host key caller :
  prepare d SOther has_user host key caller = PMalformed.
Proof. reflexivity. Qed.

Theorem prepare_userinfo d sch host key caller :
  prepare d sch true host key caller = PMalformed.
Proof. destruct sch; reflexivity. Qed.

Theorem prepare_request_only_ws d sch has_user host key caller h hdr :
  prepare d sch has_user host key caller = PRequest h hdr ->
  (sch = SWs \/ sch = SWss) /\ has_user = false.
Proof. destruct sch, has_user; cbn; intros H; try discriminate; auto. Qed.

(* ------------------------------------------------------------------------------------ *)
(* 15. canonical_key                                                                      *)
(* ------------------------------------------------------------------------------------ *)
Lemma tok_case_table :
  forallb (fun n => let b := N.of_nat n in
                    implb (is_token_octet b) (is_token_octet (upper b) && is_token_octet (ascii_lower b)))
          (seq 0 256) = true.
Proof. vm_compute. reflexivity. Qed.

Lemma tok_case b : is_token_octet b = true ->
  is_token_octet (upper b) = true /\ is_token_octet (ascii_lower b) = true.
Proof.
  intros H. destruct (N.ltb_spec b 256) as [Hb|Hb].
  - pose proof tok_case_table as T. rewrite forallb_forall in T.
    specialize (T (N.to_nat b)). cbv zeta in T. rewrite N2Nat.id, H in T. cbn [implb] in T.
    apply andb_true_iff. apply T. apply in_seq. lia.
  - rewrite is_token_octet_big in H by exact Hb. discriminate.
Qed.

Lemma canon_go_tok k : forallb is_token_octet k = true -> forall up,
  forallb is_token_octet (canon_go up k) = true.
Proof.
  induction k as [|b k IH]; intros H up; [reflexivity|].
  cbn [forallb] in H. apply andb_true_iff in H as [Hb Hk]. cbn [canon_go forallb].
  rewrite (IH Hk). destruct (tok_case b Hb) as [H1 H2]. destruct up; rewrite ?H1, ?H2; reflexivity.
Qed.

Lemma upper_idem b : upper (upper b) = upper b.
Proof. unfold upper. destruct ((97 <=? b) && (b <=? 122)) eqn:E; [|rewrite E; reflexivity].
  destruct ((97 <=? b - 32) && (b - 32 <=? 122)) eqn:E2; lia. Qed.
Lemma lower_idem b : ascii_lower (ascii_lower b) = ascii_lower b.
Proof. unfold ascii_lower. destruct ((65 <=? b) && (b <=? 90)) eqn:E; [|rewrite E; reflexivity].
  destruct ((65 <=? b + 32) && (b + 32 <=? 90)) eqn:E2; lia. Qed.
Lemma upper_dash b : (upper b =? 45) = (b =? 45).
Proof. unfold upper. destruct ((97 <=? b) && (b <=? 122)) eqn:E; lia. Qed.
Lemma lower_dash b : (ascii_lower b =? 45) = (b =? 45).
Proof. unfold ascii_lower. destruct ((65 <=? b) && (b <=? 90)) eqn:E; lia. Qed.

Lemma canon_go_idem k : forall up, canon_go up (canon_go up k) = canon_go up k.
Proof.
  induction k as [|b k IH]; intros up; [reflexivity|]. cbn [canon_go].
  destruct up; rewrite ?upper_idem, ?lower_idem, ?upper_dash, ?lower_dash, IH; reflexivity.
Qed.

Theorem canonical_key_idem k : canonical_key (canonical_key k) = canonical_key k.
Proof.
  unfold canonical_key. destruct (forallb is_token_octet k) eqn:E.
  - rewrite (canon_go_tok k E). apply canon_go_idem.
  - rewrite E. reflexivity.
Qed.

Theorem canonical_key_non_token k b :
  In b k -> is_token_octet b = false -> canonical_key k = k.
Proof.
  intros Hin Hb. unfold canonical_key. destruct (forallb is_token_octet k) eqn:E; [|reflexivity].
  rewrite forallb_forall in E. rewrite (E b Hin) in Hb. discriminate.
Qed.

Example canon_ex1 : canonical_key lit_lkey = lit_Key. Proof. vm_compute. reflexivity. Qed.
Example canon_ex2 : canonical_key lit_WKey = lit_Key. Proof. vm_compute. reflexivity. Qed.
Example canon_ex3 : canonical_key lit_Key = lit_Key. Proof. vm_compute. reflexivity. Qed.
Example canon_ex4 : canonical_key w_protocol = k_protocol. Proof. vm_compute. reflexivity. Qed.
Example canon_ex5 : canonical_key w_extensions = k_extensions. Proof. vm_compute. reflexivity. Qed.
Example canon_ex6 : canonical_key [104;111;32;115;116] = [104;111;32;115;116]. (* "ho st" *)
Proof. vm_compute. reflexivity. Qed.

(* ------------------------------------------------------------------------------------ *)
(* 14. protocol-owned headers cannot be overridden                                        *)
(* ------------------------------------------------------------------------------------ *)
Definition hdrs := list (bytes * list bytes).

(* the entries of a header whose name canonicalises to nm (what net/http would merge) *)
Definition entries (nm:bytes) (h:hdrs) : hdrs := filter (fun p => beq (canonical_key (fst p)) nm) h.
(* the entries with exactly the raw name k *)
Definition raw_entries (k:bytes) (h:hdrs) : hdrs := filter (fun p => beq (fst p) k) h.

Lemma beq_false_ne a b : a <> b -> beq a b = false.
Proof. intros H. destruct (beq a b) eqn:E; [|reflexivity]. apply beq_eq in E. contradiction. Qed.

Lemma entries_hset_other nm k vs h : canonical_key k <> nm -> entries nm (hset k vs h) = entries nm h.
Proof.
  intros Hne. unfold entries, hset. rewrite filter_app. cbn [filter fst].
  rewrite (beq_false_ne _ _ Hne), app_nil_r.
  induction h as [|a h IH]; [reflexivity|]. cbn [filter].
  destruct (beq (fst a) k) eqn:E; cbn [negb].
  - apply beq_eq in E. rewrite E, (beq_false_ne _ _ Hne). exact IH.
  - cbn [filter]. destruct (beq (canonical_key (fst a)) nm); rewrite IH; reflexivity.
Qed.

Lemma entries_hset_new nm k vs h : canonical_key k = nm -> entries nm h = [] ->
  entries nm (hset k vs h) = [(k, vs)].
Proof.
  intros Hk He. unfold entries, hset in *. rewrite filter_app. cbn [filter fst]. rewrite Hk, beq_refl.
  assert (H0 : filter (fun p => beq (canonical_key (fst p)) nm) (filter (fun p => negb (beq (fst p) k)) h) = []).
  { induction h as [|a h IH]; [reflexivity|]. cbn [filter] in *.
    destruct (beq (canonical_key (fst a)) nm) eqn:E1; [discriminate|].
    destruct (negb (beq (fst a) k)); cbn [filter]; rewrite ?E1; auto. }
  rewrite H0. reflexivity.
Qed.

Lemma raw_hset_other k k2 vs h : k2 <> k -> raw_entries k (hset k2 vs h) = raw_entries k h.
Proof.
  intros Hne. unfold raw_entries, hset. rewrite filter_app. cbn [filter fst].
  rewrite (beq_false_ne _ _ Hne), app_nil_r.
  induction h as [|a h IH]; [reflexivity|]. cbn [filter].
  destruct (beq (fst a) k2) eqn:E; cbn [negb].
  - apply beq_eq in E. rewrite E, (beq_false_ne _ _ Hne). exact IH.
  - cbn [filter]. destruct (beq (fst a) k); rewrite IH; reflexivity.
Qed.

Lemma raw_hset_same k vs h : raw_entries k (hset k vs h) = [(k, vs)].
Proof.
  unfold raw_entries, hset. rewrite filter_app. cbn [filter fst]. rewrite beq_refl.
  assert (H0 : filter (fun p => beq (fst p) k) (filter (fun p => negb (beq (fst p) k)) h) = []).
  { induction h as [|a h IH]; [reflexivity|]. cbn [filter].
    destruct (beq (fst a) k) eqn:E; cbn [negb filter]; rewrite ?E; exact IH. }
  rewrite H0. reflexivity.
Qed.

(* the key lemma: the loop over the caller's headers never touches a forbidden name *)
Lemma add_caller_keeps d nm : forbidden d nm = true -> forall caller host h host' h',
  add_caller d caller host h = inr (host', h') -> entries nm h' = entries nm h.
Proof.
  intros Hf. induction caller as [|[k vs] r IH]; intros host h host' h' H; cbn [add_caller] in H.
  - inversion H; reflexivity.
  - destruct (beq (canonical_key k) k_host); [eapply IH; exact H|].
    destruct (forbidden d (canonical_key k)) eqn:Ef; [discriminate|].
    assert (Hne : canonical_key k <> nm) by (intros E; rewrite E in Ef; congruence).
    destruct (beq (canonical_key k) k_protocol) eqn:Ep.
    + apply IH in H. rewrite H. apply entries_hset_other. rewrite canon_ex4.
      apply beq_eq in Ep. congruence.
    + apply IH in H. rewrite H. apply entries_hset_other. exact Hne.
Qed.

(* when it returns a header at all, no caller entry had a forbidden name *)
Lemma add_caller_inr_clean d : forall caller host h host' h',
  add_caller d caller host h = inr (host', h') ->
  forall p, In p caller -> forbidden d (canonical_key (fst p)) = false.
Proof.
  induction caller as [|[k vs] r IH]; intros host h host' h' H p Hp; [destruct Hp|].
  cbn [add_caller] in H. destruct Hp as [<-|Hp]; cbn [fst].
  - destruct (beq (canonical_key k) k_host) eqn:Eh.
    + apply beq_eq in Eh. rewrite Eh. destruct (d_subprotocols d); reflexivity.
    + destruct (forbidden d (canonical_key k)); [discriminate|reflexivity].
  - destruct (beq (canonical_key k) k_host); [eapply IH; eassumption|].
    destruct (forbidden d (canonical_key k)); [discriminate|].
    destruct (beq (canonical_key k) k_protocol); eapply IH; eassumption.
Qed.

(* a forbidden name supplied by the caller, in any spelling, aborts the dial *)
Lemma add_caller_inl d : forall caller host h,
  (exists p, In p caller /\ forbidden d (canonical_key (fst p)) = true) ->
  exists k, add_caller d caller host h = inl (Some k) /\ In k (map fst caller)
            /\ forbidden d (canonical_key k) = true.
Proof.
  induction caller as [|[k vs] r IH]; intros host h (p & Hp & Hf); [destruct Hp|].
  cbn [add_caller map fst].
  destruct (forbidden d (canonical_key k)) eqn:Ek.
  - assert (Eh : beq (canonical_key k) k_host = false).
    { apply beq_false_ne. intros E. rewrite E in Ek. destruct (d_subprotocols d); discriminate. }
    rewrite Eh. exists k. cbn [In]. auto.
  - assert (Hr : exists p, In p r /\ forbidden d (canonical_key (fst p)) = true).
    { destruct Hp as [<-|Hp]; [cbn [fst] in Hf; congruence|eauto]. }
    destruct (beq (canonical_key k) k_host);
      [|destruct (beq (canonical_key k) k_protocol)];
      (edestruct IH as (k' & E1 & E2 & E3); [exact Hr|]; exists k'; rewrite E1; cbn [In]; auto).
Qed.

Definition base_header (d:dialer) (key:bytes) : hdrs :=
  let h0 := [(k_upgrade, [str_websocket]); (k_connection, [v_upgrade_cap]); (w_key, [key]); (w_version, [str_13])] in
  match d_subprotocols d with [] => h0 | ps => h0 ++ [(w_protocol, [join_comma ps])] end.

Lemma prepare_eq d sch has_user host key caller :
  prepare d sch has_user host key caller =
  match sch with
  | SOther => PMalformed
  | _ => if has_user then PMalformed else
         match add_caller d caller host (base_header d key) with
         | inl (Some k) => PDuplicate k
         | inl None => PMalformed
         | inr (host', h) => PRequest host' (if d_compression d then hset w_extensions [offer] h else h)
         end
  end.
Proof. destruct sch; reflexivity. Qed.

Lemma prepare_inv d sch has_user host key caller h hdr :
  prepare d sch has_user host key caller = PRequest h hdr ->
  exists h1, add_caller d caller host (base_header d key) = inr (h, h1)
             /\ hdr = if d_compression d then hset w_extensions [offer] h1 else h1.
Proof.
  rewrite prepare_eq.
  destruct sch; [| |discriminate]; (destruct has_user; [discriminate|]);
  (destruct (add_caller d caller host (base_header d key)) as [[k|]|[h' h1]] eqn:E; try discriminate;
   intros H; inversion H; subst; eauto).
Qed.

Lemma forbidden_fixed d :
  forbidden d k_upgrade = true /\ forbidden d k_connection = true /\ forbidden d k_key = true
  /\ forbidden d k_version = true /\ forbidden d k_extensions = true
  /\ (d_subprotocols d <> [] -> forbidden d k_protocol = true).
Proof. repeat split; try reflexivity. intros H. unfold forbidden. destruct (d_subprotocols d); [congruence|reflexivity]. Qed.

(* generic step: a forbidden name other than Sec-Websocket-Extensions keeps the entries of
   the library's own header *)
Lemma prepare_keeps d sch has_user host key caller h hdr nm :
  prepare d sch has_user host key caller = PRequest h hdr ->
  forbidden d nm = true -> nm <> k_extensions ->
  entries nm hdr = entries nm (base_header d key).
Proof.
  intros H Hf Hne. apply prepare_inv in H as (h1 & Ha & ->).
  pose proof (add_caller_keeps d nm Hf _ _ _ _ _ Ha) as Hk.
  destruct (d_compression d); [|exact Hk].
  rewrite entries_hset_other; [exact Hk|]. rewrite canon_ex5. congruence.
Qed.

Theorem prepare_owned d sch has_user host key caller h hdr :
  prepare d sch has_user host key caller = PRequest h hdr ->
  entries k_upgrade hdr = [(k_upgrade, [str_websocket])]
  /\ entries k_connection hdr = [(k_connection, [v_upgrade_cap])]
  /\ entries k_key hdr = [(w_key, [key])]
  /\ entries k_version hdr = [(w_version, [str_13])]
  /\ entries k_extensions hdr = (if d_compression d then [(w_extensions, [offer])] else [])
  /\ (d_subprotocols d <> [] ->
      entries k_protocol hdr = [(w_protocol, [join_comma (d_subprotocols d)])]).
Proof.
  intros H. destruct (forbidden_fixed d) as (F1 & F2 & F3 & F4 & F5 & F6).
  repeat split.
  - rewrite (prepare_keeps _ _ _ _ _ _ _ _ _ H F1) by discriminate.
    unfold base_header. destruct (d_subprotocols d); reflexivity.
  - rewrite (prepare_keeps _ _ _ _ _ _ _ _ _ H F2) by discriminate.
    unfold base_header. destruct (d_subprotocols d); reflexivity.
  - rewrite (prepare_keeps _ _ _ _ _ _ _ _ _ H F3) by discriminate.
    unfold base_header. destruct (d_subprotocols d); reflexivity.
  - rewrite (prepare_keeps _ _ _ _ _ _ _ _ _ H F4) by discriminate.
    unfold base_header. destruct (d_subprotocols d); reflexivity.
  - apply prepare_inv in H as (h1 & Ha & ->).
    pose proof (add_caller_keeps d k_extensions F5 _ _ _ _ _ Ha) as Hk.
    assert (H0 : entries k_extensions (base_header d key) = []).
    { unfold base_header. destruct (d_subprotocols d); reflexivity. }
    rewrite H0 in Hk. destruct (d_compression d); [|exact Hk].
    apply entries_hset_new; [exact canon_ex5|exact Hk].
  - intros Hne. rewrite (prepare_keeps _ _ _ _ _ _ _ _ _ H (F6 Hne)) by discriminate.
    unfold base_header. destruct (d_subprotocols d); [congruence|reflexivity].
Qed.

(* in particular: no spelling of a protocol-owned name survives from the caller *)
Corollary prepare_key_not_overridable d sch has_user host key caller h hdr k vs :
  prepare d sch has_user host key caller = PRequest h hdr ->
  In (k, vs) hdr -> canonical_key k = k_key -> k = w_key /\ vs = [key].
Proof.
  intros H Hin Hk. apply prepare_owned in H as (_ & _ & H & _).
  assert (Hin' : In (k, vs) (entries k_key hdr)).
  { unfold entries. apply filter_In. split; [exact Hin|]. cbn [fst]. rewrite Hk. apply beq_refl. }
  rewrite H in Hin'. destruct Hin' as [E|[]]. inversion E. auto.
Qed.

(* a forbidden name in the caller's header, in ANY spelling that net/http would canonicalise
   to it, makes the dial fail with the duplicate-header error *)
Theorem prepare_duplicate d sch host key caller :
  sch <> SOther ->
  (exists p, In p caller /\ forbidden d (canonical_key (fst p)) = true) ->
  exists k, prepare d sch false host key caller = PDuplicate k /\ In k (map fst caller)
            /\ forbidden d (canonical_key k) = true.
Proof.
  intros Hs Hex. destruct (add_caller_inl d caller host (base_header d key) Hex) as (k & E & Hin & Hf).
  exists k. split; [|auto]. rewrite prepare_eq.
  destruct sch; [| |congruence]; rewrite E; reflexivity.
Qed.

Theorem prepare_request_clean d sch has_user host key caller h hdr :
  prepare d sch has_user host key caller = PRequest h hdr ->
  forall p, In p caller -> forbidden d (canonical_key (fst p)) = false.
Proof. intros H. apply prepare_inv in H as (h1 & Ha & _). eapply add_caller_inr_clean. exact Ha. Qed.

(* the finding behind C14: the RFC spelling of the key header is refused too *)
Example rfc_spelling_refused d key :
  prepare d SWs false [] key [(lit_WKey, [[120]])] = PDuplicate lit_WKey.
Proof. reflexivity. Qed.
Example lower_spelling_refused d key :
  prepare d SWss false [] key [(lit_lkey, [[120]])] = PDuplicate lit_lkey.
Proof. reflexivity. Qed.

(* ---- caller headers with other names are included unchanged (last write wins) ---- *)
Lemma add_caller_app d c1 : forall c2 host h,
  add_caller d (c1 ++ c2) host h =
  match add_caller d c1 host h with
  | inl e => inl e
  | inr (host1, h1) => add_caller d c2 host1 h1
  end.
Proof.
  induction c1 as [|[k vs] r IH]; intros c2 host h; cbn [app add_caller]; [reflexivity|].
  destruct (beq (canonical_key k) k_host); [apply IH|].
  destruct (forbidden d (canonical_key k)); [reflexivity|].
  destruct (beq (canonical_key k) k_protocol); apply IH.
Qed.

Lemma add_caller_raw_keeps d k : k <> w_protocol -> forall caller host h host' h',
  (forall p, In p caller -> fst p <> k) ->
  add_caller d caller host h = inr (host', h') -> raw_entries k h' = raw_entries k h.
Proof.
  intros Hw. induction caller as [|[k2 vs] r IH]; intros host h host' h' Hno H; cbn [add_caller] in H.
  - inversion H; reflexivity.
  - assert (Hr : forall p, In p r -> fst p <> k) by (intros p Hp; apply Hno; right; exact Hp).
    assert (Hk2 : k2 <> k) by (apply (Hno (k2, vs)); left; reflexivity).
    destruct (beq (canonical_key k2) k_host); [eapply IH; eassumption|].
    destruct (forbidden d (canonical_key k2)); [discriminate|].
    destruct (beq (canonical_key k2) k_protocol).
    + apply (IH _ _ _ _ Hr) in H. rewrite H. apply raw_hset_other. congruence.
    + apply (IH _ _ _ _ Hr) in H. rewrite H. apply raw_hset_other. exact Hk2.
Qed.

Theorem caller_header_included d sch has_user host key c1 k vs c2 h hdr :
  prepare d sch has_user host key (c1 ++ (k, vs) :: c2) = PRequest h hdr ->
  canonical_key k <> k_host -> canonical_key k <> k_protocol ->
  (forall p, In p c2 -> fst p <> k) ->
  raw_entries k hdr = [(k, vs)].
Proof.
  intros H Hh Hp Hlast. pose proof (prepare_request_clean _ _ _ _ _ _ _ _ H (k, vs)) as Hnf.
  cbn [fst] in Hnf. specialize (Hnf (in_elt _ _ _)).
  apply prepare_inv in H as (h1 & Ha & ->).
  rewrite add_caller_app in Ha.
  destruct (add_caller d c1 host (base_header d key)) as [e|[host1 h2]]; [discriminate|].
  cbn [add_caller] in Ha. rewrite (beq_false_ne _ _ Hh), Hnf, (beq_false_ne _ _ Hp) in Ha.
  assert (Hkw : k <> w_protocol) by (intros ->; apply Hp; exact canon_ex4).
  apply (add_caller_raw_keeps d k Hkw _ _ _ _ _ Hlast) in Ha. rewrite raw_hset_same in Ha.
  destruct (d_compression d); [|exact Ha].
  rewrite raw_hset_other; [exact Ha|].
  intros <-. rewrite canon_ex5 in Hnf. destruct (d_subprotocols d); discriminate.
Qed.

(* Host: the URL's host unless the caller supplies a Host header *)
Lemma add_caller_host d : forall caller host h host' h',
  (forall p, In p caller -> canonical_key (fst p) <> k_host) ->
  add_caller d caller host h = inr (host', h') -> host' = host.
Proof.
  induction caller as [|[k vs] r IH]; intros host h host' h' Hno H; cbn [add_caller] in H.
  - inversion H; reflexivity.
  - assert (Hr : forall p, In p r -> canonical_key (fst p) <> k_host) by (intros p Hp; apply Hno; right; exact Hp).
    assert (Hk : canonical_key k <> k_host) by (apply (Hno (k, vs)); left; reflexivity).
    rewrite (beq_false_ne _ _ Hk) in H.
    destruct (forbidden d (canonical_key k)); [discriminate|].
    destruct (beq (canonical_key k) k_protocol); eapply IH; eassumption.
Qed.

Theorem prepare_host d sch has_user host key caller h hdr :
  prepare d sch has_user host key caller = PRequest h hdr ->
  (forall p, In p caller -> canonical_key (fst p) <> k_host) -> h = host.
Proof. intros H Hno. apply prepare_inv in H as (h1 & Ha & _). eapply add_caller_host; eassumption. Qed.

(* without caller headers: the request is exactly the RFC 6455 opening handshake header set *)
Theorem prepare_plain d sch host key : sch <> SOther ->
  prepare d sch false host key [] =
  PRequest host
    ([(lit_Upgrade, [lit_websocket]); (lit_Connection, [lit_Upgrade]); (lit_WKey, [key]); (lit_WVersion, [lit_13])]
     ++ (match d_subprotocols d with [] => [] | ps => [(lit_WProtocol, [join_comma ps])] end)
     ++ (if d_compression d then [(lit_WExtensions, [lit_offer])] else [])).
Proof.
  intros Hs. unfold prepare. cbn [add_caller].
  destruct sch; [| |congruence]; destruct (d_subprotocols d), (d_compression d); reflexivity.
Qed.

Print Assumptions validate_reply_iff.
Print Assumptions validate_reply_bad.
Print Assumptions bad_handshake_body.
Print Assumptions dial_sound.
Print Assumptions dial_complete.
Print Assumptions accept_of_other_key.
Print Assumptions prepare_userinfo.
Print Assumptions canonical_key_idem.
Print Assumptions prepare_owned.
Print Assumptions prepare_duplicate.
Print Assumptions caller_header_included.
Print Assumptions prepare_host.
Print Assumptions prepare_plain.
