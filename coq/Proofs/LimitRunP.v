(* C06, whole runs under a read limit.

   LimitP.v / LimitZ.v prove what ONE ReadMessage does under a read limit L, from any state.
   ReaderP.v / ReaderFlateP.v prove what n ReadMessage calls return on a conformant stream
   WITHOUT a limit.  This file puts the two together: n ReadMessage calls with a limit L > 0
   on a conformant stream in which some data message has a wire payload total over L.

   The messages of the stream are [msgs fs = ms1 ++ m :: ms2] (Spec.Frame.events_of), every
   message of [ms1] has wire payload total <= L, [m] is the first one with total > L.  Then
     - the first [length ms1] calls return the messages of [ms1] (inflated when compressed);
     - the next call returns ErrReadLimit, with the part of [m] read before the frame [fj]
       whose header takes the running total over L (nothing for a compressed message, nothing
       and message type 0 when [fj] is the first frame of [m]: NextReader itself fails);
     - every later call (up to the documented panic at the 1000th failing call) returns
       (0, nil, ErrReadLimit), whatever operation is tried nothing of [ms2] is delivered;
     - the write-back log is the pongs for the pings met before [fj], then ONE close 1009;
     - only the header of [fj] has been consumed: the pending bytes start with its payload.
   No hypothesis on what follows the frames on the transport, nor on the transport fault
   (the general one-message engine of LimitZ.v is re-proved here with its side condition
   "something follows or the fault is EOF" restricted to the only case that needs it: the
   message read is the very last thing on the transport).

   Main results (all closed under the global context):
     read_message_limitR            the engine of LimitZ.v with the conditional side condition
     first_msgZ_pre, first_over     pure: the frames of the first message / where it crosses L
     run_over_limitZ                the induction over [ms1], from any idle state
     read_messages_over_limitZ      whole run, Z streams, limit in the initial state
     read_messages_over_limit       whole run, uncompressed streams ([conformant_frames])
     read_messages_over_limitZ_set / read_messages_over_limit_set    limit set by OSetLimit
     read_messages_within_limitZ / read_messages_within_limit        all messages within L:
                                    exactly the results of read_messages_conformant(Z)
     read_messages_over_limit(Z)_any_history    the messages of [ms1] read or abandoned by ANY
                                    program of NextReader / Read / ReadMessage calls          *)
Require Import WS.Base.Bytes WS.gen.Consts WS.Spec.Frame WS.Spec.Conformance WS.Model.Bufio
  WS.Model.Reader WS.Proofs.BufioP WS.Proofs.FrameP.
From RecordUpdate Require Import RecordSet.
Import RecordSetNotations.
Require Import WS.Proofs.ReaderP1 WS.Proofs.ReaderP2 WS.Proofs.ReaderP3 WS.Proofs.ReaderBasicP
  WS.Proofs.ReaderP.
Require Import WS.Proofs.ReaderZ1 WS.Proofs.ReaderZ2 WS.Proofs.ReaderZ3 WS.Proofs.ReaderFlateP
  WS.Proofs.LimitP WS.Proofs.LimitZ.
Require WS.Proofs.CutZ.
Require Import WS.Proofs.ReadProgP.
Ltac Zify.zify_post_hook ::= Z.div_mod_to_equations.

(* ============================== part A ============================== *)
(* The engine of LimitZ.v (rg_mainL, read_message_limitZ) again, with the hypothesis
   "extra <> [] \/ k = EEOF" asked only when the message read is the last thing of the stream
   ([after = Some []]); the proofs are those of LimitZ.v, the hypothesis is used at the same
   single place.  The post-condition also records the error counter. *)
Section MainR.
Variables (L:N) (k:errk) (c:rcfg) (extra:bytes).
Hypothesis Hch : custom_handlers c = false.

Section Gen.
Variable P : Type.
Variable psize : P -> nat.
Variable pnext : P -> bytes -> P.
Variable pinv : P -> Prop.
Hypothesis psize_pos : forall p, pinv p -> (0 < psize p)%nat.
Hypothesis pnext_inv : forall p d, pinv p -> d <> [] -> blen d <= N.of_nat (psize p) -> pinv (pnext p d).

Lemma rg_mainR : forall fs n wp, length wp = n -> forall s fa fl p acc more pings after,
  rinvL L k s -> rem s = blen wp -> pending (br s) = wp ++ encode_frames fs ++ extra ->
  Forall wf_frame fs -> seq_okZ (server c) (negotiated c) (negb (rfin s)) fs = true ->
  rlen s + blen (encode_frames fs) < 2^63 ->
  pinv p -> (length (pending (br s)) < fl)%nat -> (length (pending (br s)) <= fa)%nat ->
  tail_lim L (rlen s) (rfin s) fs = (more, pings, after) ->
  (after = Some [] -> extra <> [] \/ k = EEOF) ->
  exists s', rg_cont psize pnext fa c p acc (read_loop fl c (psize p) s)
             = (acc ++ unmask c s wp ++ more, lim_err after, s') /\
    wlog s' = wlog s ++ map WPong pings ++ lim_close after /\
    rg_post L k extra s' after (tail_cross L (rlen s) (rfin s) fs).
Proof.
  induction fs as [|f fs IHfs].
  - (* no further frame: we are in the final frame of the message *)
    induction n as [n IHn] using lt_wf_ind.
    intros wp Hn s fa fl p acc more pings after Hrinv Hrem Hp Hwf Hseq Hrl Hpi Hfl Hfa Hmt Hxc.
    cbn [seq_okZ] in Hseq. apply negb_true_iff in Hseq. apply negb_false_iff in Hseq.
    rewrite Hseq in Hmt. cbn [tail_lim] in Hmt. inversion Hmt; subst more pings after. clear Hmt.
    pose proof Hrinv as (Hinv & Hbs & Hflt & Herr & Hoof & Hcs & Hrlim & Hecnt).
    destruct fl as [|fl]; [lia|].
    destruct wp as [|x wp'] eqn:Ewp.
    + rewrite (read_loop_eof fl c _ s Herr Hrem Hseq). cbn [rg_cont].
      eexists. split; [rewrite unmask_nil; reflexivity|]. cbn [rg_post lim_close map]. rsimpl.
      split; [rewrite !app_nil_r; reflexivity|].
      split; [apply rinvL_rinvL_end; apply (rinvL_upd L k s); auto|].
      cbn [encode_frames flat_map app map] in *. auto.
    + rewrite <- Ewp in *.
      assert (Hwne : wp <> []) by (rewrite Ewp; discriminate).
      pose proof (psize_pos p Hpi) as Hm.
      destruct (read_loop_chunkL L k c _ fl s wp (encode_frames [] ++ extra) Hrinv Hm Hwne Hrem Hp)
        as (w1 & w2 & e & s1 & Hw & Hw1 & Hb1 & Hrl1 & Hp1 & Hrem1 & Hfin1 & Hrlen1 & Hwl1 & Hun &
            Hinv1 & Hbs1 & Hfl1 & Hoof1 & Hcs1 & Hrlim1 & Herr1 & Hec1 & He).
      rewrite Hrl1. cbn [rg_cont].
      assert (Hbu : blen (unmask c s w1) = blen w1) by (unfold blen; rewrite unmask_length; reflexivity).
      assert (Hlen1 : (length (pending (br s)) = length w1 + length (pending (br s1)))%nat).
      { rewrite Hp, Hp1, Hw, <- app_assoc, app_length. reflexivity. }
      assert (Hw1pos : (0 < length w1)%nat) by (destruct w1; [congruence|cbn [length]; lia]).
      assert (Hune : unmask c s w1 <> []).
      { intros Hq. apply (f_equal (@length N)) in Hq. rewrite unmask_length in Hq. cbn [length] in Hq. lia. }
      destruct He as [-> | [Hnil ->]].
      * (* more to read *)
        destruct fa as [|fa]; [lia|].
        rewrite read_gen_S. unfold reader_read.
        assert (Hrinv1 : rinvL L k s1) by (unfold rinvL; rewrite Hbs1, Hec1; auto 12).
        destruct (IHn (length w2) ltac:(subst n; rewrite Hw, app_length; lia) w2 eq_refl s1 fa
                    (fuel_of s1) (pnext p (unmask c s w1))
                    (acc ++ unmask c s w1) [] [] (Some []))
          as (s' & Hres & Hwl' & Hend);
          [exact Hrinv1|exact Hrem1|exact Hp1|exact Hwf|rewrite Hfin1, Hseq; reflexivity
          |rewrite Hrlen1; exact Hrl
          |apply pnext_inv; [exact Hpi|exact Hune|rewrite Hbu; exact Hb1]
          |unfold fuel_of; lia|lia|rewrite Hfin1, Hseq; reflexivity|exact Hxc|].
        exists s'. split.
        { rewrite Hres. rewrite Hun, <- !app_assoc. reflexivity. }
        rewrite Hwl1 in Hwl'. split; [exact Hwl'|exact Hend].
      * (* the transport fault came with the last bytes of the stream *)
        apply app_eq_nil in Hnil. destruct Hnil as [Hw2 Hnil]. cbn [encode_frames flat_map app] in Hnil.
        destruct (Hxc eq_refl) as [Hx1|Hx1]; [contradiction|].
        rewrite Hseq, Hx1. cbn [negb andb errk_eqb of_errk].
        eexists. split.
        { rewrite Hw, Hw2, !app_nil_r. reflexivity. }
        cbn [rg_post lim_close map]. rewrite !app_nil_r.
        split; [exact Hwl1|].
        split.
        { unfold rinvL_end. rewrite Hbs1.
          split; [exact Hinv1|]. split; [exact Hbs|]. split; [congruence|].
          split; [|split; [exact Hoof1|split; [exact Hcs1|split; [exact Hrlim1|rewrite Hec1; exact Hecnt]]]].
          right. rewrite Herr1, Hp1, Hw2, Hnil, Hseq, ?Hx1.
          cbn [negb andb errk_eqb of_errk app encode_frames flat_map]. auto. }
        rewrite Hrem1, Hw2, Hfin1, Hp1, Hw2. cbn [map app]. auto.
  - (* at least one more frame *)
    induction n as [n IHn] using lt_wf_ind.
    intros wp Hn s fa fl p acc more pings after Hrinv Hrem Hp Hwf Hseq Hrl Hpi Hfl Hfa Hmt Hxc.
    pose proof Hrinv as (Hinv & Hbs & Hflt & Herr & Hoof & Hcs & Hrlim & Hecnt).
    destruct fl as [|fl]; [lia|].
    inversion Hwf as [|f' fs' Hwff Hwfs]; subst f' fs'.
    cbn [seq_okZ] in Hseq. apply andb_true_iff in Hseq. destruct Hseq as [Hacc Hseq].
    destruct wp as [|x wp'] eqn:Ewp.
    + (* frame boundary *)
      cbn [app] in Hp. rewrite encode_frames_cons, <- app_assoc in Hp.
      destruct (rfin s) eqn:Efin.
      * (* the message is complete *)
        cbn [tail_lim] in Hmt. inversion Hmt; subst more pings after. clear Hmt.
        rewrite (read_loop_eof fl c _ s Herr Hrem Efin). cbn [rg_cont].
        eexists. split; [rewrite unmask_nil; reflexivity|]. cbn [rg_post lim_close map]. rsimpl.
        split; [rewrite !app_nil_r; reflexivity|].
        split; [apply rinvL_rinvL_end; apply (rinvL_upd L k s); auto|].
        rewrite encode_frames_cons, <- app_assoc. auto.
      * (* open message: the next frame is a control frame or a continuation *)
        cbn [negb] in Hacc, Hseq. cbn [tail_lim cont_lim] in Hmt. cbn [tail_cross cont_cross].
        assert (Hlenp : (length (pending (br s)) =
                         length (encode_frame f) + length (encode_frames fs ++ extra))%nat)
          by (rewrite Hp, app_length; reflexivity).
        pose proof (encode_frame_length_ge2 f) as Hge2.
        assert (Hrlf : rlen s + plen f + blen (encode_frames fs) < 2^63).
        { rewrite encode_frames_cons, blen_app in Hrl. pose proof (encode_frame_ge_plen f). lia. }
        assert (Haccs : frame_accZ (server c) (negotiated c) (negb (rfin s)) f = true)
          by (rewrite Efin; exact Hacc).
        destruct (acc_casesZ _ _ _ _ Hacc) as [(Hctl & Hop & _)|(Hctl & [(_ & Hxx)|(Hop & _)])];
          [| discriminate Hxx |].
        -- (* ping / pong *)
           rewrite Hctl in Hmt. rewrite Hctl. unfold next_open in Hseq. rewrite Hctl in Hseq.
           destruct (cont_lim L (rlen s) fs) as [[d1 p1] a1] eqn:Ecm. inversion Hmt; subst more pings after. clear Hmt.
           destruct (advance_ctlLZ L k c s f (encode_frames fs ++ extra) Hrinv Hch Hwff Haccs Hctl Hp)
             as (s1 & Hadv & Hrinv1 & Hrem1 & Hfin1 & Hrlen1 & Hp1 & Hwl1).
           rewrite (read_loop_adv fl c _ s (opcode f) s1 Herr Hrem Efin Hadv) by lia.
           destruct (IHfs 0%nat [] eq_refl s1 fa fl p acc d1 p1 a1) as (s' & Hres & Hwl' & Hend);
             [exact Hrinv1|exact Hrem1|exact Hp1|exact Hwfs|rewrite Hfin1, Efin; exact Hseq
             |rewrite Hrlen1; rewrite encode_frames_cons, blen_app in Hrl; lia
             |exact Hpi|rewrite Hp1; lia|rewrite Hp1; lia
             |rewrite Hfin1, Efin, Hrlen1; exact Ecm|exact Hxc|].
           exists s'. split; [rewrite Hres, !unmask_nil; reflexivity|].
           split; [rewrite Hwl', Hwl1, map_app, <- !app_assoc; reflexivity|].
           rewrite Hfin1, Efin, Hrlen1 in Hend. exact Hend.
        -- (* continuation frame *)
           rewrite Hctl in Hmt. rewrite Hctl. unfold next_open in Hseq. rewrite Hctl in Hseq.
           assert (Hop0 : (opcode f =? 0) = true) by lia.
           destruct (crosses L (rlen s + plen f)) eqn:Ecr.
           ++ (* this frame takes the message over the limit *)
              inversion Hmt; subst more pings after. clear Hmt.
              apply crosses_true in Ecr. destruct Ecr as [HLpos HLlt].
              destruct (advance_data_toobigZ L k c s f (encode_frames fs ++ extra) Hrinv Hwff Haccs Hctl Hp)
                as (s1 & Hadv & Hwl1 & Hcs1 & Hp1 & Hrlen1 & Hrem1 & Herr1 & Hoof1 & Hec1 & Hinv1 & Hrlim1);
                [rewrite Hop0; lia|exact HLpos|rewrite Hop0; exact HLlt|].
              rewrite (read_loop_adv_err fl c _ s RReadLimit s1 Herr Hrem Efin Hadv eq_refl).
              rewrite rg_cont_err by reflexivity.
              eexists. split; [rewrite unmask_nil; reflexivity|].
              cbn [rg_post lim_close map app]. rsimpl.
              split; [exact Hwl1|]. split; [reflexivity|]. split; [exact Hcs1|]. split; [exact Hoof1|].
              split; [exact Hec1|]. split; [exact Hinv1|]. split; [exact Hrlim1|].
              exists f, fs. auto.
           ++ pose proof Ecr as Ecr'. apply crosses_false in Ecr.
           destruct (advance_data_withinZ L k c s f (encode_frames fs ++ extra) Hrinv Hwff Haccs Hctl Hp)
             as (s1 & Hadv & Hrinv1 & Hrem1 & Hfin1 & Hrlen1 & Hp1 & Hun1 & _ & Hwl1);
             [rewrite Hop0; lia|rewrite Hop0; exact Ecr|].
           rewrite Hop0 in Hrlen1.
           rewrite (read_loop_adv fl c _ s (opcode f) s1 Herr Hrem Efin Hadv) by lia.
           assert (Hwpl : (length (wire_payload f) <= length (encode_frame f) - 2)%nat).
           { rewrite encode_frame_decomp. cbn [length]. rewrite !app_length. lia. }
           assert (Hmt1 : exists more1, tail_lim L (rlen s + plen f) (fin f) fs = (more1, pings, after) /\
                                        more = payload f ++ more1).
           { destruct (fin f).
             - inversion Hmt; subst. exists []. rewrite app_nil_r. auto.
             - cbn [tail_lim]. destruct (cont_lim L (rlen s + plen f) fs) as [[d1 p1] a1]. inversion Hmt; subst.
               exists d1. auto. }
           destruct Hmt1 as (more1 & Hmt1 & ->).
           destruct (IHfs (length (wire_payload f)) (wire_payload f) eq_refl s1 fa fl p acc
                       more1 pings after) as (s' & Hres & Hwl' & Hend);
             [exact Hrinv1|rewrite Hrem1; symmetry; apply wire_payload_blen|exact Hp1|exact Hwfs
             |rewrite Hfin1; exact Hseq|rewrite Hrlen1; exact Hrlf
             |exact Hpi|rewrite Hp1, app_length; lia|rewrite Hp1, app_length; lia
             |rewrite Hfin1, Hrlen1; exact Hmt1|exact Hxc|].
           exists s'. split; [rewrite Hres, Hun1, unmask_nil; reflexivity|].
           rewrite Hwl1 in Hwl'. split; [exact Hwl'|].
           rewrite Hfin1, Hrlen1 in Hend. unfold tail_cross in Hend.
           destruct (fin f); exact Hend.
    + (* inside a frame *)
      rewrite <- Ewp in *.
      assert (Hwne : wp <> []) by (rewrite Ewp; discriminate).
      pose proof (psize_pos p Hpi) as Hm.
      destruct (read_loop_chunkL L k c _ fl s wp (encode_frames (f :: fs) ++ extra) Hrinv Hm Hwne Hrem Hp)
        as (w1 & w2 & e & s1 & Hw & Hw1 & Hb1 & Hrl1 & Hp1 & Hrem1 & Hfin1 & Hrlen1 & Hwl1 & Hun &
            Hinv1 & Hbs1 & Hfl1 & Hoof1 & Hcs1 & Hrlim1 & Herr1 & Hec1 & He).
      rewrite Hrl1. cbn [rg_cont].
      assert (Hbu : blen (unmask c s w1) = blen w1) by (unfold blen; rewrite unmask_length; reflexivity).
      assert (Hlen1 : (length (pending (br s)) = length w1 + length (pending (br s1)))%nat).
      { rewrite Hp, Hp1, Hw, <- app_assoc, app_length. reflexivity. }
      assert (Hw1pos : (0 < length w1)%nat) by (destruct w1; [congruence|cbn [length]; lia]).
      assert (Hune : unmask c s w1 <> []).
      { intros Hq. apply (f_equal (@length N)) in Hq. rewrite unmask_length in Hq. cbn [length] in Hq. lia. }
      destruct He as [-> | [Hnil _]].
      * destruct fa as [|fa]; [lia|].
        rewrite read_gen_S. unfold reader_read.
        assert (Hrinv1 : rinvL L k s1) by (unfold rinvL; rewrite Hbs1, Hec1; auto 12).
        destruct (IHn (length w2) ltac:(subst n; rewrite Hw, app_length; lia) w2 eq_refl s1 fa
                    (fuel_of s1) (pnext p (unmask c s w1))
                    (acc ++ unmask c s w1) more pings after)
          as (s' & Hres & Hwl' & Hend);
          [exact Hrinv1|exact Hrem1|exact Hp1|exact Hwf
          |rewrite Hfin1; cbn [seq_okZ]; rewrite Hacc, Hseq; reflexivity
          |rewrite Hrlen1; exact Hrl
          |apply pnext_inv; [exact Hpi|exact Hune|rewrite Hbu; exact Hb1]
          |unfold fuel_of; lia|lia|rewrite Hfin1, Hrlen1; exact Hmt|exact Hxc|].
        exists s'. split.
        { rewrite Hres. rewrite Hun, <- !app_assoc. reflexivity. }
        rewrite Hwl1 in Hwl'. split; [exact Hwl'|].
        rewrite Hfin1, Hrlen1 in Hend. exact Hend.
      * (* impossible: a whole frame is still pending *)
        exfalso. apply app_eq_nil in Hnil. destruct Hnil as [_ Hnil].
        apply app_eq_nil in Hnil. destruct Hnil as [Hnil _].
        apply encode_frames_nil_inv in Hnil. discriminate Hnil.
Qed.
End Gen.

(* ---------- the two instances: io.ReadAll and the flate reader's raw pull ---------- *)
Lemma ra_mainR fs wp s fa fl len cp acc more pings after :
  rinvL L k s -> rem s = blen wp -> pending (br s) = wp ++ encode_frames fs ++ extra ->
  Forall wf_frame fs -> seq_okZ (server c) (negotiated c) (negb (rfin s)) fs = true ->
  rlen s + blen (encode_frames fs) < 2^63 ->
  len < cp -> (length (pending (br s)) < fl)%nat -> (length (pending (br s)) <= fa)%nat ->
  tail_lim L (rlen s) (rfin s) fs = (more, pings, after) ->
  (after = Some [] -> extra <> [] \/ k = EEOF) ->
  exists s', ra_cont fa c len cp acc (read_loop fl c (N.to_nat (cp - len)) s)
             = (acc ++ unmask c s wp ++ more, lim_err after, s') /\
    wlog s' = wlog s ++ map WPong pings ++ lim_close after /\
    rg_post L k extra s' after (tail_cross L (rlen s) (rfin s) fs).
Proof.
  intros Hrinv Hrem Hp Hwf Hseq Hrl Hlc Hfl Hfa Hmt Hxc.
  destruct (rg_mainR (N*N) psizeA (pnextA c) pinvA psizeA_pos (pnextA_inv c)
              fs (length wp) wp eq_refl s fa fl (len, cp) acc more pings after
              Hrinv Hrem Hp Hwf Hseq Hrl Hlc Hfl Hfa Hmt Hxc) as (s' & Hres & Hend).
  exists s'. split; [|exact Hend].
  rewrite <- Hres. change (psizeA (len, cp)) with (N.to_nat (cp - len)).
  destruct (read_loop fl c (N.to_nat (cp - len)) s) as [[d e] s1].
  unfold ra_cont, rg_cont. destruct e as [e|]; [destruct e; reflexivity|].
  rewrite read_all_gen. reflexivity.
Qed.

Lemma rr_mainR fs wp s fa fl acc more pings after :
  rinvL L k s -> rem s = blen wp -> pending (br s) = wp ++ encode_frames fs ++ extra ->
  Forall wf_frame fs -> seq_okZ (server c) (negotiated c) (negb (rfin s)) fs = true ->
  rlen s + blen (encode_frames fs) < 2^63 ->
  (length (pending (br s)) < fl)%nat -> (length (pending (br s)) <= fa)%nat ->
  tail_lim L (rlen s) (rfin s) fs = (more, pings, after) ->
  (after = Some [] -> extra <> [] \/ k = EEOF) ->
  exists s', rr_cont fa c acc (read_loop fl c 4096 s)
             = (acc ++ unmask c s wp ++ more, lim_err after, s') /\
    wlog s' = wlog s ++ map WPong pings ++ lim_close after /\
    rg_post L k extra s' after (tail_cross L (rlen s) (rfin s) fs).
Proof.
  intros Hrinv Hrem Hp Hwf Hseq Hrl Hfl Hfa Hmt Hxc.
  destruct (rg_mainR unit psizeR pnextR (fun _ => True) psizeR_pos (fun _ _ _ _ _ => I)
              fs (length wp) wp eq_refl s fa fl tt acc more pings after
              Hrinv Hrem Hp Hwf Hseq Hrl I Hfl Hfa Hmt Hxc) as (s' & Hres & Hend).
  exists s'. split; [|exact Hend].
  rewrite <- Hres. change (psizeR tt) with 4096%nat.
  destruct (read_loop fl c 4096 s) as [[d e] s1].
  unfold rr_cont, rg_cont. destruct e as [e|]; [destruct e; reflexivity|].
  rewrite read_raw_gen. reflexivity.
Qed.

(* ---------- ReadMessage under a read limit, from any state of the previous message ---------- *)
(* [x] = the frame at which reading stops and what follows it, when a frame crosses the limit *)
Definition rm_postR (s':rst) (after:option (list frame)) (x:option (frame * list frame)) : Prop :=
  match after with
  | Some a => rinvL_end L k s' /\ rem s' = 0 /\ rfin s' = true /\
              pending (br s') = encode_frames a ++ extra
  | None => rerror s' = Some RReadLimit /\ closesent s' = true /\ outoffuel s' = false /\
            binv (br s') /\ rlimit s' = L /\ (errcount s' <= 1)%nat /\
            exists f r, x = Some (f, r) /\ rem s' = plen f /\
              pending (br s') = wire_payload f ++ encode_frames r ++ extra
  end.

Theorem read_message_limitR fs s w more0 pings0 fs1 ty cz d p a :
  rinvL L k s -> rem s = blen w -> pending (br s) = w ++ encode_frames fs ++ extra ->
  Forall wf_frame fs -> seq_okZ (server c) (negotiated c) (negb (rfin s)) fs = true ->
  blen (encode_frames fs) < 2^63 ->
  tail_lim L 0 (rfin s) fs = (more0, pings0, Some fs1) ->
  first_limZ L fs1 = Some (ty, cz, d, p, a) ->
  (a = Some [] -> extra <> [] \/ k = EEOF) ->
  exists s', (forall inflate, read_message inflate c s = (lim_outZ inflate ty cz d a, s')) /\
    wlog s' = wlog s ++ map WPong (pings0 ++ p) ++ lim_close a /\
    rm_postR s' a (first_cross L fs1).
Proof.
  intros Hrinv Hrem Hp Hwf Hseq Hlen Hmt Hfl Hxc.
  unfold first_limZ in Hfl. unfold first_cross.
  destruct (find_data fs1) as [[[p1 f] r]|] eqn:Efd; [|discriminate Hfl].
  set (s0 := s <| cur := None |> <| rlen := 0 |>).
  assert (Hrinv0 : rinvL L k s0) by (apply (rinvL_same L k s); [exact Hrinv|reflexivity ..]).
  destruct (next_loopLZ L k c extra Hch fs s0 w (fuel_of s0) more0 pings0 fs1 p1 f r Hrinv0 Hrem Hp Hwf Hseq)
    as [Hok Hbig]; [exact Hlen|unfold fuel_of; lia|exact Hmt|exact Efd|].
  change (wlog s0) with (wlog s) in Hok, Hbig.
  unfold read_message, next_reader. fold s0.
  destruct (crosses L (plen f)) eqn:Ecr.
  - (* the very first frame of the message is over the limit *)
    inversion Hfl; subst ty cz d p a. clear Hfl.
    apply crosses_true in Ecr. destruct Ecr as [HLpos HLlt].
    destruct (Hbig HLpos HLlt) as (s1 & Hnl & Herr1 & Hwl1 & Hcs1 & Hoof1 & Hec1 & Hinv1 & Hrlim1 & Hrem1 & Hp1).
    rewrite Hnl. cbv iota zeta. rsimpl. rewrite Hec1. cbn [Nat.leb]. rewrite Herr1.
    eexists. split; [intros inflate; reflexivity|]. cbn [lim_close rm_postR]. rsimpl.
    split; [rewrite Hwl1, app_assoc; reflexivity|].
    split; [exact Herr1|]. split; [exact Hcs1|]. split; [exact Hoof1|]. split; [exact Hinv1|].
    split; [exact Hrlim1|]. split; [lia|]. exists f, r. auto.
  - apply crosses_false in Ecr.
    destruct (tail_lim L (plen f) (fin f) r) as [[more p2] a2] eqn:Emt.
    inversion Hfl; subst ty cz d p a2. clear Hfl.
    destruct (Hok Ecr) as
      (s1 & Hnl & Hrinv1 & Hrem1 & Hfin1 & Hrlen1 & Hp1 & Hun1 & Hdec1 & Hwl1 & Hwfr & Hseqr & Hlenr & Hop).
    rewrite Hnl. cbv iota. rewrite Hdec1.
    destruct (rsv f =? 4); cbv iota.
    + (* compressed: the flate reader pulls the raw bytes of the whole message *)
      unfold fuel_of at 1. rewrite read_raw_S. unfold reader_read.
      destruct (rr_mainR r (wire_payload f) s1
                  (S (length (pending (br s1)))) (fuel_of s1) [] more p2 a)
        as (s' & Hres & Hwl' & Hend);
        [exact Hrinv1|rewrite Hrem1; symmetry; apply wire_payload_blen|exact Hp1|exact Hwfr
        |rewrite Hfin1; exact Hseqr|rewrite Hrlen1; exact Hlenr|unfold fuel_of; lia|lia
        |rewrite Hfin1, Hrlen1; exact Emt|exact Hxc|].
      rewrite Hres. cbn [app]. rewrite Hun1.
      exists s'. split.
      { intros inflate. destruct a as [a|]; cbn [lim_err lim_outZ out_ofZ]; [|reflexivity].
        destruct (inflate ((payload f ++ more) ++ ws_tail)); reflexivity. }
      split.
      { rewrite Hwl', Hwl1, !map_app, <- !app_assoc. reflexivity. }
      rewrite Hfin1, Hrlen1 in Hend.
      destruct a as [a|]; cbn [rg_post rm_postR] in *; [exact Hend|].
      destruct Hend as (E1 & E2 & E3 & E4 & E5 & E6 & E7). rewrite E4. auto 10.
    + (* uncompressed: io.ReadAll *)
      unfold fuel_of at 1. rewrite read_all_S. unfold reader_read.
      destruct (ra_mainR r (wire_payload f) s1
                  (S (length (pending (br s1)))) (fuel_of s1) 0 512 [] more p2 a)
        as (s' & Hres & Hwl' & Hend);
        [exact Hrinv1|rewrite Hrem1; symmetry; apply wire_payload_blen|exact Hp1|exact Hwfr
        |rewrite Hfin1; exact Hseqr|rewrite Hrlen1; exact Hlenr|lia|unfold fuel_of; lia|lia
        |rewrite Hfin1, Hrlen1; exact Emt|exact Hxc|].
      rewrite Hres. cbn [app]. rewrite Hun1.
      exists s'. split.
      { intros inflate. destruct a as [a|]; reflexivity. }
      split.
      { rewrite Hwl', Hwl1, !map_app, <- !app_assoc. reflexivity. }
      rewrite Hfin1, Hrlen1 in Hend.
      destruct a as [a|]; cbn [rg_post rm_postR] in *; [exact Hend|].
      destruct Hend as (E1 & E2 & E3 & E4 & E5 & E6 & E7). rewrite E4. auto 10.
Qed.
End MainR.

(* ============================== part B ============================== *)
(* ---------- pure: the frames of the first message, and the messages of what follows -------- *)
Lemma cont_msg_pre srv ng : forall r d p a,
  seq_okZ srv ng true r = true -> cont_msg r = (d, p, a) ->
  exists pre, r = pre ++ a /\ pre <> [] /\ p = pings_of pre /\
    forall ty cc d0 rest,
      data_msgs (fst (events_from (Some (ty, cc, d0)) (pre ++ rest))) = (ty, cc, d0 ++ d) :: msgs rest.
Proof.
  induction r as [|f r IH]; intros d p a Hs Hc; [cbn in Hs; discriminate Hs|].
  cbn [seq_okZ] in Hs. apply andb_true_iff in Hs. destruct Hs as [Hacc Hs].
  unfold next_open in Hs. cbn [cont_msg] in Hc.
  destruct (acc_casesZ _ _ _ _ Hacc) as [(Hctl & _)|(Hctl & [(_ & Hx)|(Hop & _)])]; [| discriminate Hx |].
  - rewrite Hctl in Hc, Hs. destruct (cont_msg r) as [[d1 p1] a1] eqn:Ec.
    inversion Hc; subst d1 p a1. clear Hc.
    destruct (IH d p1 a Hs eq_refl) as (pre & H1 & H2 & H3 & H4).
    exists (f :: pre). split; [rewrite H1; reflexivity|]. split; [discriminate|].
    split; [rewrite pings_of_cons, H3; reflexivity|].
    intros ty cc d0 rest. cbn [app]. rewrite events_from_ctl by exact Hctl. cbn [fst].
    rewrite data_msgs_ctl. apply H4.
  - rewrite Hctl in Hc, Hs. destruct (fin f) eqn:Ef.
    + inversion Hc; subst d p a. clear Hc.
      exists [f]. split; [reflexivity|]. split; [discriminate|].
      split; [rewrite pings_of_cons, ping1_nonctl by exact Hctl; reflexivity|].
      intros ty cc d0 rest. cbn [app]. rewrite events_from_final by assumption.
      cbn [fst acc_step emsg_of]. rewrite data_msgs_msg. reflexivity.
    + cbn [negb] in Hs. destruct (cont_msg r) as [[d1 p1] a1] eqn:Ec.
      inversion Hc; subst d p1 a1. clear Hc.
      destruct (IH d1 p a Hs eq_refl) as (pre & H1 & H2 & H3 & H4).
      exists (f :: pre). split; [rewrite H1; reflexivity|]. split; [discriminate|].
      split; [rewrite pings_of_cons, ping1_nonctl by exact Hctl; exact H3|].
      intros ty cc d0 rest. cbn [app]. rewrite events_from_more by assumption.
      cbn [acc_step]. rewrite H4, app_assoc. reflexivity.
Qed.

Lemma msgs_ctl_app cs r : all_ctl cs = true -> msgs (cs ++ r) = msgs r.
Proof.
  intros H. unfold msgs, events_of. rewrite events_from_ctls by exact H. cbn [fst].
  rewrite data_msgs_app, data_msgs_ctl_evs. reflexivity.
Qed.

(* [pre] = the frames of the first message (with the control frames before and inside it) *)
Lemma first_msgZ_pre srv ng fs ty cz d p a :
  seq_okZ srv ng false fs = true -> first_msgZ fs = Some (ty, cz, d, p, a) ->
  exists pre, fs = pre ++ a /\ pre <> [] /\ p = pings_of pre /\
    forall rest, msgs (pre ++ rest) = (ty, cz, d) :: msgs rest.
Proof.
  intros Hs Hf. unfold first_msgZ in Hf.
  destruct (find_data fs) as [[[p1 f] r]|] eqn:Efd; [|discriminate Hf].
  destruct (find_data_specZ srv ng fs p1 f r Hs Efd) as (cs & Hfs & Hcs & Hp & Hctl & Hop & _ & Hsr).
  unfold msg_tail in Hf. destruct (fin f) eqn:Ef.
  - inversion Hf; subst ty cz d p a. clear Hf.
    exists (cs ++ [f]). split; [rewrite <- app_assoc; exact Hfs|].
    split; [intros Hx; apply app_eq_nil in Hx; destruct Hx as [_ Hx]; discriminate Hx|].
    split; [rewrite pings_of_app, pings_of_cons, ping1_nonctl, Hp by exact Hctl; reflexivity|].
    intros rest. rewrite <- app_assoc, msgs_ctl_app by exact Hcs. cbn [app].
    unfold msgs, events_of. rewrite events_from_final by assumption.
    cbn [fst acc_step emsg_of]. rewrite data_msgs_msg, app_nil_r. reflexivity.
  - cbn [negb] in Hsr. destruct (cont_msg r) as [[more p2] a2] eqn:Ec.
    inversion Hf; subst ty cz d p a2. clear Hf.
    destruct (cont_msg_pre srv ng r more p2 a Hsr Ec) as (pre & H1 & H2 & H3 & H4).
    exists (cs ++ f :: pre). split; [rewrite Hfs, H1, <- app_assoc; reflexivity|].
    split; [intros Hx; apply app_eq_nil in Hx; destruct Hx as [_ Hx]; discriminate Hx|].
    split; [rewrite pings_of_app, pings_of_cons, ping1_nonctl, Hp, H3 by exact Hctl; reflexivity|].
    intros rest. rewrite <- app_assoc, msgs_ctl_app by exact Hcs. cbn [app].
    unfold msgs, events_of. rewrite events_from_more by assumption. cbn [acc_step].
    apply H4.
Qed.

(* ---------- pure: where a message over the limit crosses it ---------- *)
Lemma cont_over srv ng L : 0 < L -> forall r used d p a,
  seq_okZ srv ng true r = true -> cont_msg r = (d, p, a) -> used <= L -> L < used + blen d ->
  exists pre fj rj y,
    r = pre ++ fj :: rj /\ is_control (opcode fj) = false /\ opcode fj = 0 /\
    cont_cross L used r = Some (fj, rj) /\
    cont_lim L used r = (dpay pre, pings_of pre, None) /\
    used + blen (dpay pre) <= L /\ L < used + blen (dpay pre) + plen fj /\
    d = dpay pre ++ payload fj ++ y /\
    forall acc, data_msgs (fst (events_from (Some acc) pre)) = [].
Proof.
  intros HL. induction r as [|f r IH]; intros used d p a Hs Hc Hu Hbig; [cbn in Hs; discriminate Hs|].
  cbn [seq_okZ] in Hs. apply andb_true_iff in Hs. destruct Hs as [Hacc Hs].
  unfold next_open in Hs. cbn [cont_msg] in Hc. cbn [cont_cross cont_lim].
  destruct (acc_casesZ _ _ _ _ Hacc) as [(Hctl & _)|(Hctl & [(_ & Hx)|(Hop & _)])]; [| discriminate Hx |].
  - rewrite Hctl in Hc, Hs. rewrite Hctl. destruct (cont_msg r) as [[d1 p1] a1] eqn:Ec.
    inversion Hc; subst d1 p a1. clear Hc.
    destruct (IH used d p1 a Hs eq_refl Hu Hbig) as (pre & fj & rj & y & H1 & H2 & H3 & H4 & H5 & H6 & H7 & H8 & H9).
    exists (f :: pre), fj, rj, y. rewrite H5, dpay_cons, Hctl, pings_of_cons. cbn [app].
    split; [rewrite H1; reflexivity|]. split; [exact H2|]. split; [exact H3|]. split; [exact H4|].
    split; [reflexivity|]. split; [exact H6|]. split; [exact H7|]. split; [exact H8|].
    intros acc. rewrite events_from_ctl by exact Hctl. cbn [fst]. rewrite data_msgs_ctl. apply H9.
  - rewrite Hctl in Hc, Hs. rewrite Hctl.
    destruct (crosses L (used + plen f)) eqn:Ecr.
    + apply crosses_true in Ecr. destruct Ecr as [_ Hlt].
      exists [], f, r, (if fin f then [] else fst (fst (cont_msg r))).
      cbn [dpay flat_map app pings_of]. change (blen []) with 0.
      split; [reflexivity|]. split; [exact Hctl|]. split; [exact Hop|]. split; [reflexivity|].
      split; [reflexivity|]. split; [lia|]. split; [lia|].
      split; [|intros acc; reflexivity].
      destruct (fin f).
      * inversion Hc. rewrite app_nil_r. reflexivity.
      * destruct (cont_msg r) as [[d1 p1] a1]. inversion Hc. reflexivity.
    + apply crosses_false in Ecr. destruct Ecr as [Ecr|Ecr]; [lia|].
      destruct (fin f) eqn:Ef.
      * inversion Hc; subst d p a. unfold plen in Ecr. lia.
      * cbn [negb] in Hs. destruct (cont_msg r) as [[d1 p1] a1] eqn:Ec.
        inversion Hc; subst d p1 a1. clear Hc. rewrite blen_app in Hbig. fold (plen f) in Hbig.
        destruct (IH (used + plen f) d1 p a Hs eq_refl Ecr ltac:(lia))
          as (pre & fj & rj & y & H1 & H2 & H3 & H4 & H5 & H6 & H7 & H8 & H9).
        exists (f :: pre), fj, rj, y.
        rewrite H5, dpay_cons, Hctl, pings_of_cons, (ping1_nonctl f Hctl), blen_app. fold (plen f).
        cbn [app].
        split; [rewrite H1; reflexivity|]. split; [exact H2|]. split; [exact H3|]. split; [exact H4|].
        split; [reflexivity|]. split; [lia|]. split; [lia|].
        split; [rewrite H8, <- app_assoc; reflexivity|].
        intros acc. rewrite events_from_more by assumption. apply H9.
Qed.

(* The first message has wire payload total over L: [fj] is the frame whose declared length takes
   the running total over L, [pre] the frames before it; [dpay pre] is what has been collected of
   the message when the reader stops.  When [fj] is the FIRST frame of the message (a text /
   binary frame) NextReader itself fails: no message type, nothing collected. *)
Lemma first_over srv ng L fs ty cz d p a :
  0 < L -> seq_okZ srv ng false fs = true -> first_msgZ fs = Some (ty, cz, d, p, a) -> L < blen d ->
  exists pre fj rj y,
    fs = pre ++ fj :: rj /\ is_control (opcode fj) = false /\
    first_cross L fs = Some (fj, rj) /\
    first_limZ L fs = Some (if is_data_op (opcode fj) then 0 else ty,
                            if is_data_op (opcode fj) then false else cz,
                            dpay pre, pings_of pre, None) /\
    blen (dpay pre) <= L /\ L < blen (dpay pre) + plen fj /\
    d = dpay pre ++ payload fj ++ y /\
    (is_data_op (opcode fj) = true -> dpay pre = []) /\
    msgs pre = [].
Proof.
  intros HL Hs Hf Hbig. unfold first_msgZ in Hf. unfold first_cross, first_limZ.
  destruct (find_data fs) as [[[p1 f] r]|] eqn:Efd; [|discriminate Hf].
  destruct (find_data_specZ srv ng fs p1 f r Hs Efd) as (cs & Hfs & Hcs & Hp & Hctl & Hop & _ & Hsr).
  destruct (msg_tail (fin f) r) as [[more p2] a2] eqn:Emt. inversion Hf; subst ty cz d p a2. clear Hf.
  assert (Hdo : is_data_op (opcode f) = true) by (unfold is_data_op; destruct Hop as [-> | ->]; reflexivity).
  destruct (crosses L (plen f)) eqn:Ecr.
  - apply crosses_true in Ecr. destruct Ecr as [_ Hlt].
    exists cs, f, r, more. rewrite Hdo, (dpay_all_ctl cs Hcs), Hp. change (blen []) with 0.
    split; [exact Hfs|]. split; [exact Hctl|]. split; [reflexivity|]. split; [reflexivity|].
    split; [lia|]. split; [lia|]. split; [reflexivity|]. split; [reflexivity|].
    apply events_from_all_ctl. exact Hcs.
  - apply crosses_false in Ecr. destruct Ecr as [Ecr|Ecr]; [lia|].
    rewrite blen_app in Hbig. fold (plen f) in Hbig.
    unfold msg_tail in Emt. unfold tail_cross, tail_lim. destruct (fin f) eqn:Ef.
    + inversion Emt; subst more. change (blen []) with 0 in Hbig. lia.
    + cbn [negb] in Hsr.
      destruct (cont_over srv ng L HL r (plen f) more p2 a Hsr Emt Ecr Hbig)
        as (pre & fj & rj & y & H1 & H2 & H3 & H4 & H5 & H6 & H7 & H8 & H9).
      assert (Hdj : is_data_op (opcode fj) = false) by (rewrite H3; reflexivity).
      exists (cs ++ f :: pre), fj, rj, y.
      rewrite Hdj, H4, H5, dpay_app, (dpay_all_ctl cs Hcs), dpay_cons, Hctl. cbn [app].
      rewrite blen_app. fold (plen f).
      split; [rewrite Hfs, H1, <- app_assoc; reflexivity|]. split; [exact H2|]. split; [reflexivity|].
      split.
      { rewrite pings_of_app, pings_of_cons, (ping1_nonctl f Hctl), Hp. reflexivity. }
      split; [lia|]. split; [lia|]. split; [rewrite H8, <- app_assoc; reflexivity|].
      split; [intros Hx; discriminate Hx|].
      rewrite msgs_ctl_app by exact Hcs. unfold msgs, events_of.
      rewrite events_from_more by assumption. apply H9.
Qed.

Lemma encode_frames_app_ne a extra : a <> [] -> encode_frames a ++ extra <> [].
Proof.
  intros Ha H. apply app_eq_nil in H. destruct H as [H _]. apply encode_frames_nil_inv in H. contradiction.
Qed.

(* ============================== part C ============================== *)
(* ---------- one ReadMessage at a message boundary, no side condition on the transport -------- *)
Section StepsR.
Variables (L:N) (k:errk) (c:rcfg) (extra:bytes).
Hypothesis Hch : custom_handlers c = false.

(* the first message is within the limit and is not the last thing of the stream *)
Lemma within_stepR fs s ty cz d p a :
  rinvL L k s -> rem s = 0 -> rfin s = true -> pending (br s) = encode_frames fs ++ extra ->
  conformant_framesZ c fs -> first_msgZ fs = Some (ty, cz, d, p, a) -> within L (blen d) ->
  a <> [] ->
  exists s', (forall inflate, read_message inflate c s = (out_ofZ inflate (ty, cz, d), s')) /\
    rinvL L k s' /\ rem s' = 0 /\ rfin s' = true /\
    pending (br s') = encode_frames a ++ extra /\ wlog s' = wlog s ++ map WPong p.
Proof.
  intros Hrinv Hrem Hfin Hp (Hwf & Hseq & Hlen) Hfm Hw Ha.
  destruct (read_message_limitR L k c extra Hch fs s [] [] [] fs ty cz d p (Some a) Hrinv)
    as (s' & Hrm & Hwl & (E1 & E2 & E3 & E4));
    [exact Hrem|exact Hp|exact Hwf|rewrite Hfin; exact Hseq|exact Hlen
    |rewrite Hfin; reflexivity|apply first_limZ_within; assumption
    |intros Hx; inversion Hx; contradiction|].
  exists s'. cbn [lim_err lim_close lim_outZ app] in *. rewrite app_nil_r in Hwl.
  split; [exact Hrm|].
  split; [apply rinvL_end_rinvL; [exact E1|rewrite E4; apply encode_frames_app_ne; exact Ha]|].
  auto.
Qed.

(* the first message is over the limit *)
Lemma over_stepR fs s ty cz d p a :
  0 < L ->
  rinvL L k s -> rem s = 0 -> rfin s = true -> pending (br s) = encode_frames fs ++ extra ->
  conformant_framesZ c fs -> first_msgZ fs = Some (ty, cz, d, p, a) -> L < blen d ->
  exists pre fj rj y s',
    fs = pre ++ fj :: rj /\ is_control (opcode fj) = false /\ msgs pre = [] /\
    d = dpay pre ++ payload fj ++ y /\ blen (dpay pre) <= L /\ L < blen (dpay pre) + plen fj /\
    (is_data_op (opcode fj) = true -> dpay pre = []) /\
    (forall inflate, read_message inflate c s =
       (RMsg (if is_data_op (opcode fj) then 0 else ty) (if cz then [] else dpay pre)
             (Some RReadLimit), s')) /\
    wlog s' = wlog s ++ map WPong (pings_of pre) ++ [WCloseTooBig] /\
    rerror s' = Some RReadLimit /\ closesent s' = true /\ outoffuel s' = false /\
    binv (br s') /\ (errcount s' <= 1)%nat /\
    rem s' = plen fj /\ pending (br s') = wire_payload fj ++ encode_frames rj ++ extra.
Proof.
  intros HL Hrinv Hrem Hfin Hp (Hwf & Hseq & Hlen) Hfm Hbig.
  destruct (first_over (server c) (negotiated c) L fs ty cz d p a HL Hseq Hfm Hbig)
    as (pre & fj & rj & y & H1 & H2 & H3 & H4 & H5 & H6 & H7 & H8 & H9).
  destruct (read_message_limitR L k c extra Hch fs s [] [] [] fs
              (if is_data_op (opcode fj) then 0 else ty) (if is_data_op (opcode fj) then false else cz)
              (dpay pre) (pings_of pre) None Hrinv)
    as (s' & Hrm & Hwl & (E1 & E2 & E3 & E4 & E5 & E6 & (f0 & r0 & E7 & E8 & E9)));
    [exact Hrem|exact Hp|exact Hwf|rewrite Hfin; exact Hseq|exact Hlen
    |rewrite Hfin; reflexivity|exact H4|intros Hx; discriminate Hx|].
  rewrite H3 in E7. inversion E7; subst f0 r0. clear E7.
  exists pre, fj, rj, y, s'. cbn [lim_outZ lim_close app] in *.
  split; [exact H1|]. split; [exact H2|]. split; [exact H9|]. split; [exact H7|].
  split; [exact H5|]. split; [exact H6|]. split; [exact H8|].
  split.
  { intros inflate. rewrite (Hrm inflate). f_equal. f_equal.
    destruct (is_data_op (opcode fj)); [rewrite (H8 eq_refl); destruct cz; reflexivity|reflexivity]. }
  auto 12.
Qed.
End StepsR.

(* ---------- the first message of a stream whose message list is known ---------- *)
Lemma msgs_cons_first srv ng fs m ms :
  seq_okZ srv ng false fs = true -> msgs fs = m :: ms ->
  exists p a, first_msgZ fs = Some (fst (fst m), snd (fst m), snd m, p, a) /\ msgs a = ms.
Proof.
  intros Hs Hms. destruct (first_msgZ fs) as [[[[[ty cz] d] p] a]|] eqn:Efm.
  - destruct (first_msg_someZ srv ng fs ty cz d p a Hs Efm) as (_ & _ & Hm & _).
    rewrite Hms in Hm. inversion Hm; subst m ms. exists p, a. auto.
  - destruct (first_msg_noneZ srv ng fs Hs Efm) as (_ & Hm). rewrite Hms in Hm. discriminate Hm.
Qed.

Lemma out_ofZ_case inflate m (X:Type) (u v:X) :
  match out_ofZ inflate m with RPanic => u | _ => v end = v.
Proof.
  destruct m as [[ty cz] d]. unfold out_ofZ. destruct cz; [destruct (inflate (d ++ ws_tail))|]; reflexivity.
Qed.

Lemma run_ops_cons inflate c s o r :
  run_ops inflate c s (o :: r) =
  let '(x, s1) := rstep inflate c s o in
  match x with
  | RPanic => ([x], s1)
  | _ => let '(xs, s2) := run_ops inflate c s1 r in (x :: xs, s2)
  end.
Proof. reflexivity. Qed.

(* ============================== part D ============================== *)
(* ---------- the run: the messages of [ms1], then the failing call ---------- *)
Section RunR.
Variables (L:N) (k:errk) (c:rcfg) (extra:bytes).
Hypothesis Hch : custom_handlers c = false.
Hypothesis HL : 0 < L.

Lemma run_over_limitZ : forall ms1 fs s m ms2,
  rinvL L k s -> rem s = 0 -> rfin s = true -> pending (br s) = encode_frames fs ++ extra ->
  conformant_framesZ c fs -> msgs fs = ms1 ++ m :: ms2 ->
  Forall (fun x => blen (snd x) <= L) ms1 -> L < blen (snd m) ->
  exists seen fj rj d' y s',
    fs = seen ++ fj :: rj /\ is_control (opcode fj) = false /\ msgs seen = ms1 /\
    snd m = d' ++ payload fj ++ y /\ blen d' <= L /\ L < blen d' + plen fj /\
    (is_data_op (opcode fj) = true -> d' = []) /\
    (forall inflate, run_ops inflate c s (repeat OReadMessage (S (length ms1))) =
       (map (out_ofZ inflate) ms1 ++
        [RMsg (if is_data_op (opcode fj) then 0 else fst (fst m)) (if snd (fst m) then [] else d')
              (Some RReadLimit)], s')) /\
    wlog s' = wlog s ++ map WPong (pings_of seen) ++ [WCloseTooBig] /\
    rerror s' = Some RReadLimit /\ closesent s' = true /\ outoffuel s' = false /\
    binv (br s') /\ (errcount s' <= 1)%nat /\
    rem s' = plen fj /\ pending (br s') = wire_payload fj ++ encode_frames rj ++ extra.
Proof.
  induction ms1 as [|m0 ms1 IH]; intros fs s m ms2 Hrinv Hrem Hfin Hp Hconf Hms Hall Hbig.
  - (* the first message is the one over the limit *)
    cbn [app] in Hms. pose proof Hconf as (Hwf & Hseq & Hlen).
    destruct (msgs_cons_first _ _ fs m ms2 Hseq Hms) as (p & a & Hfm & _).
    destruct (over_stepR L k c extra Hch fs s _ _ _ p a HL Hrinv Hrem Hfin Hp Hconf Hfm Hbig)
      as (pre & fj & rj & y & s' & H1 & H2 & H3 & H4 & H5 & H6 & H7 & Hrm & H8 & H9 & H10 & H11 & H12 & H13 & H14 & H15).
    exists pre, fj, rj, (dpay pre), y, (s' <| opidx := S (opidx s') |>).
    split; [exact H1|]. split; [exact H2|]. split; [exact H3|]. split; [exact H4|].
    split; [exact H5|]. split; [exact H6|]. split; [exact H7|].
    split.
    { intros inflate. cbn [length repeat run_ops map app]. unfold rstep. rewrite (Hrm inflate). reflexivity. }
    rsimpl. auto 12.
  - (* a message within the limit, then the rest *)
    cbn [app] in Hms. pose proof Hconf as (Hwf & Hseq & Hlen).
    inversion Hall as [|m0' ms1' Hm0 Hall']; subst m0' ms1'.
    destruct (msgs_cons_first _ _ fs m0 (ms1 ++ m :: ms2) Hseq Hms) as (p & a & Hfm & Hmsa).
    destruct (first_msgZ_pre _ _ fs _ _ _ p a Hseq Hfm) as (pre0 & Hfs & Hpre0 & Hp0 & Hmspre).
    destruct (first_msg_someZ _ _ fs _ _ _ p a Hseq Hfm) as (_ & _ & _ & Hseqa & _).
    assert (Hconfa : conformant_framesZ c a)
      by (apply (conformantZ_suffix c pre0); [rewrite <- Hfs; exact Hconf|exact Hseqa]).
    assert (Hane : a <> []).
    { intros Hx. subst a. destruct ms1; discriminate Hmsa. }
    destruct (within_stepR L k c extra Hch fs s _ _ _ p a Hrinv Hrem Hfin Hp Hconf Hfm (or_intror Hm0) Hane)
      as (s1 & Hrm & Hrinv1 & Hrem1 & Hfin1 & Hp1 & Hwl1).
    set (s2 := s1 <| opidx := S (opidx s1) |>).
    assert (Hrinv2 : rinvL L k s2) by (apply (rinvL_same L k s1); [exact Hrinv1|reflexivity ..]).
    destruct (IH a s2 m ms2 Hrinv2 Hrem1 Hfin1 Hp1 Hconfa Hmsa Hall' Hbig)
      as (seen & fj & rj & d' & y & s' & H1 & H2 & H3 & H4 & H5 & H6 & H7 & Hrun & H8 & H9).
    exists (pre0 ++ seen), fj, rj, d', y, s'.
    split; [rewrite Hfs, H1, <- app_assoc; reflexivity|]. split; [exact H2|].
    split; [rewrite Hmspre, H3; destruct m0 as [[ty0 cz0] d0]; reflexivity|].
    split; [exact H4|]. split; [exact H5|]. split; [exact H6|]. split; [exact H7|].
    split.
    { intros inflate. change (S (length (m0 :: ms1))) with (S (S (length ms1))).
      change (repeat OReadMessage (S (S (length ms1))))
        with (OReadMessage :: repeat OReadMessage (S (length ms1))).
      rewrite run_ops_cons. unfold rstep. rewrite (Hrm inflate).
      replace (fst (fst m0), snd (fst m0), snd m0) with m0 by (destruct m0 as [[ty0 cz0] d0]; reflexivity).
      cbv beta iota. rewrite out_ofZ_case. fold s2.
      rewrite (Hrun inflate). reflexivity. }
    split; [|exact H9].
    rewrite H8. subst s2. rsimpl. rewrite Hwl1, Hp0, pings_of_app, map_app, <- !app_assoc. reflexivity.
Qed.
End RunR.

(* ============================== part E ============================== *)
(* ---------- the failing call, then [n] more calls; from any idle state ---------- *)
Definition over_out (m : N * bool * bytes) (fj:frame) (d':bytes) : rout :=
  RMsg (if is_data_op (opcode fj) then 0 else fst (fst m)) (if snd (fst m) then [] else d')
       (Some RReadLimit).

Lemma over_limit_run_from inflate L k c extra s fs ms1 m ms2 n :
  custom_handlers c = false -> 0 < L ->
  rinvL L k s -> rem s = 0 -> rfin s = true -> pending (br s) = encode_frames fs ++ extra ->
  conformant_framesZ c fs -> msgs fs = ms1 ++ m :: ms2 ->
  Forall (fun x => blen (snd x) <= L) ms1 -> L < blen (snd m) -> (n < 999)%nat ->
  exists seen fj rj d' y s',
    fs = seen ++ fj :: rj /\ is_control (opcode fj) = false /\ msgs seen = ms1 /\
    snd m = d' ++ payload fj ++ y /\ blen d' <= L /\ L < blen d' + plen fj /\
    (is_data_op (opcode fj) = true -> d' = []) /\
    run_ops inflate c s (repeat OReadMessage (length ms1 + 1 + n)) =
      (map (out_ofZ inflate) ms1 ++ [over_out m fj d'] ++ repeat (RMsg 0 [] (Some RReadLimit)) n, s') /\
    wlog s' = wlog s ++ map WPong (pings_of seen) ++ [WCloseTooBig] /\
    pending (br s') = wire_payload fj ++ encode_frames rj ++ extra /\
    rerror s' = Some RReadLimit /\ closesent s' = true /\ outoffuel s' = false /\
    (forall ops, exists rs s'', run_ops inflate c s' ops = (rs, s'') /\
                                frozen s' s'' /\ Forall is_failure rs).
Proof.
  intros Hch HL Hrinv Hrem Hfin Hp Hconf Hms Hall Hbig Hn.
  destruct (run_over_limitZ L k c extra Hch HL ms1 fs s m ms2 Hrinv Hrem Hfin Hp Hconf Hms Hall Hbig)
    as (seen & fj & rj & d' & y & s1 & H1 & H2 & H3 & H4 & H5 & H6 & H7 & Hrun & H8 & H9 & H10 & H11 & H12 & H13 & H14 & H15).
  destruct (CutZ.read_messages_same_error inflate c RReadLimit n s1 H9 ltac:(lia)) as (s2 & Hrun2 & Hfr & _).
  exists seen, fj, rj, d', y, s2.
  split; [exact H1|]. split; [exact H2|]. split; [exact H3|]. split; [exact H4|].
  split; [exact H5|]. split; [exact H6|]. split; [exact H7|].
  destruct Hfr as (F1 & F2 & F3 & F4 & F5 & F6).
  split.
  { replace (length ms1 + 1 + n)%nat with (S (length ms1) + n)%nat by lia. rewrite repeat_app.
    assert (Hnp : ~ In RPanic (map (out_ofZ inflate) ms1 ++ [over_out m fj d'])).
    { intros Hin. apply in_app_or in Hin. destruct Hin as [Hin|[Hin|[]]];
        [exact (out_ofZ_not_panic inflate ms1 Hin)|discriminate Hin]. }
    rewrite (run_ops_app inflate c _ _ _ _ _ (Hrun inflate) Hnp), Hrun2. cbn [fst snd].
    rewrite <- app_assoc. reflexivity. }
  split; [rewrite F3; exact H8|]. split; [rewrite F1; exact H15|].
  split; [rewrite F4; exact H9|]. split; [rewrite F5; exact H10|]. split; [rewrite F6; exact H11|].
  intros ops. apply (errors_are_permanent inflate c ops s2 RReadLimit). rewrite F4. exact H9.
Qed.

Lemma rinvL_init b L : binv b -> (125 <= bsize b)%nat ->
  rinvL L (fault (src b)) (init_rst b <| rlimit := L |>).
Proof. intros H1 H2. unfold rinvL, init_rst. rsimpl. auto 12. Qed.

(* ============================================================================================ *)
(* Whole run, streams that may carry permessage-deflate messages.  The limit L > 0 is in force  *)
(* from the start.  [seen] = the frames before the frame [fj] at which message [m] crosses L:   *)
(* the complete messages among them are exactly [ms1], [d'] is what they carry of [m].          *)
(* ============================================================================================ *)
Theorem read_messages_over_limitZ :
  forall inflate c b fs extra L ms1 m ms2 n,
    custom_handlers c = false -> binv b -> (125 <= bsize b)%nat ->
    conformant_framesZ c fs -> pending b = encode_frames fs ++ extra ->
    0 < L -> data_msgs (events_of fs) = ms1 ++ m :: ms2 ->
    Forall (fun x => blen (snd x) <= L) ms1 -> L < blen (snd m) -> (n < 999)%nat ->
    exists seen fj rj d' y s',
      fs = seen ++ fj :: rj /\ is_control (opcode fj) = false /\
      data_msgs (events_of seen) = ms1 /\
      snd m = d' ++ payload fj ++ y /\ blen d' <= L /\ L < blen d' + plen fj /\
      (is_data_op (opcode fj) = true -> d' = []) /\
      run_ops inflate c (init_rst b <| rlimit := L |>) (repeat OReadMessage (length ms1 + 1 + n)) =
        (map (out_ofZ inflate) ms1 ++
         [RMsg (if is_data_op (opcode fj) then 0 else fst (fst m)) (if snd (fst m) then [] else d')
               (Some RReadLimit)] ++
         repeat (RMsg 0 [] (Some RReadLimit)) n, s') /\
      wlog s' = map WPong (pings_of seen) ++ [WCloseTooBig] /\
      pending (br s') = wire_payload fj ++ encode_frames rj ++ extra /\
      rerror s' = Some RReadLimit /\ closesent s' = true /\ outoffuel s' = false /\
      (forall ops, exists rs s'', run_ops inflate c s' ops = (rs, s'') /\
                                  frozen s' s'' /\ Forall is_failure rs).
Proof.
  intros inflate c b fs extra L ms1 m ms2 n Hch Hinv Hbs Hconf Hp HL Hms Hall Hbig Hn.
  exact (over_limit_run_from inflate L (fault (src b)) c extra (init_rst b <| rlimit := L |>) fs ms1 m ms2 n
           Hch HL (rinvL_init b L Hinv Hbs) eq_refl eq_refl Hp Hconf Hms Hall Hbig Hn).
Qed.

(* the same, the limit being set by SetReadLimit before the first read *)
Theorem read_messages_over_limitZ_set :
  forall inflate c b fs extra L ms1 m ms2 n,
    custom_handlers c = false -> binv b -> (125 <= bsize b)%nat ->
    conformant_framesZ c fs -> pending b = encode_frames fs ++ extra ->
    0 < L -> data_msgs (events_of fs) = ms1 ++ m :: ms2 ->
    Forall (fun x => blen (snd x) <= L) ms1 -> L < blen (snd m) -> (n < 999)%nat ->
    exists seen fj rj d' y s',
      fs = seen ++ fj :: rj /\ is_control (opcode fj) = false /\
      data_msgs (events_of seen) = ms1 /\
      snd m = d' ++ payload fj ++ y /\ blen d' <= L /\ L < blen d' + plen fj /\
      (is_data_op (opcode fj) = true -> d' = []) /\
      run_ops inflate c (init_rst b) (OSetLimit L :: repeat OReadMessage (length ms1 + 1 + n)) =
        (RUnit :: map (out_ofZ inflate) ms1 ++
         [RMsg (if is_data_op (opcode fj) then 0 else fst (fst m)) (if snd (fst m) then [] else d')
               (Some RReadLimit)] ++
         repeat (RMsg 0 [] (Some RReadLimit)) n, s') /\
      wlog s' = map WPong (pings_of seen) ++ [WCloseTooBig] /\
      pending (br s') = wire_payload fj ++ encode_frames rj ++ extra /\
      rerror s' = Some RReadLimit /\ closesent s' = true /\ outoffuel s' = false /\
      (forall ops, exists rs s'', run_ops inflate c s' ops = (rs, s'') /\
                                  frozen s' s'' /\ Forall is_failure rs).
Proof.
  intros inflate c b fs extra L ms1 m ms2 n Hch Hinv Hbs Hconf Hp HL Hms Hall Hbig Hn.
  set (s0 := init_rst b <| rlimit := L |> <| opidx := S (opidx (init_rst b <| rlimit := L |>)) |>).
  assert (Hrinv0 : rinvL L (fault (src b)) s0)
    by (apply (rinvL_same L _ (init_rst b <| rlimit := L |>)); [apply rinvL_init; assumption|reflexivity ..]).
  destruct (over_limit_run_from inflate L (fault (src b)) c extra s0 fs ms1 m ms2 n
              Hch HL Hrinv0 eq_refl eq_refl Hp Hconf Hms Hall Hbig Hn)
    as (seen & fj & rj & d' & y & s' & H1 & H2 & H3 & H4 & H5 & H6 & H7 & Hrun & H8 & H9).
  exists seen, fj, rj, d', y, s'.
  split; [exact H1|]. split; [exact H2|]. split; [exact H3|]. split; [exact H4|].
  split; [exact H5|]. split; [exact H6|]. split; [exact H7|].
  split; [|split; [exact H8|exact H9]].
  rewrite run_ops_cons. unfold rstep. fold s0. cbv beta iota. rewrite Hrun. reflexivity.
Qed.

(* ============================================================================================ *)
(* Whole run, uncompressed streams ([conformant_frames], whatever [negotiated c]).              *)
(* ============================================================================================ *)
Lemma uncompressed_split c fs ms1 m ms2 inflate :
  conformant_frames c fs -> data_msgs (events_of fs) = ms1 ++ m :: ms2 ->
  map (out_ofZ inflate) ms1 = map out_of ms1 /\ snd (fst m) = false.
Proof.
  intros Hconf Hms. pose proof (conformant_frames_uncompressed c fs Hconf) as Hu.
  rewrite Hms in Hu. apply Forall_app in Hu. destruct Hu as [Hu1 Hu2].
  split; [apply map_out_ofZ_uncompressed; exact Hu1|]. inversion Hu2; assumption.
Qed.

Theorem read_messages_over_limit :
  forall inflate c b fs extra L ms1 m ms2 n,
    custom_handlers c = false -> binv b -> (125 <= bsize b)%nat ->
    conformant_frames c fs -> pending b = encode_frames fs ++ extra ->
    0 < L -> data_msgs (events_of fs) = ms1 ++ m :: ms2 ->
    Forall (fun x => blen (snd x) <= L) ms1 -> L < blen (snd m) -> (n < 999)%nat ->
    exists seen fj rj d' y s',
      fs = seen ++ fj :: rj /\ is_control (opcode fj) = false /\
      data_msgs (events_of seen) = ms1 /\
      snd m = d' ++ payload fj ++ y /\ blen d' <= L /\ L < blen d' + plen fj /\
      (is_data_op (opcode fj) = true -> d' = []) /\
      run_ops inflate c (init_rst b <| rlimit := L |>) (repeat OReadMessage (length ms1 + 1 + n)) =
        (map out_of ms1 ++
         [RMsg (if is_data_op (opcode fj) then 0 else fst (fst m)) d' (Some RReadLimit)] ++
         repeat (RMsg 0 [] (Some RReadLimit)) n, s') /\
      wlog s' = map WPong (pings_of seen) ++ [WCloseTooBig] /\
      pending (br s') = wire_payload fj ++ encode_frames rj ++ extra /\
      rerror s' = Some RReadLimit /\ closesent s' = true /\ outoffuel s' = false /\
      (forall ops, exists rs s'', run_ops inflate c s' ops = (rs, s'') /\
                                  frozen s' s'' /\ Forall is_failure rs).
Proof.
  intros inflate c b fs extra L ms1 m ms2 n Hch Hinv Hbs Hconf Hp HL Hms Hall Hbig Hn.
  destruct (uncompressed_split c fs ms1 m ms2 inflate Hconf Hms) as (Hmap & Hm).
  destruct (read_messages_over_limitZ inflate c b fs extra L ms1 m ms2 n Hch Hinv Hbs
              (conformant_frames_Z c fs Hconf) Hp HL Hms Hall Hbig Hn)
    as (seen & fj & rj & d' & y & s' & H1 & H2 & H3 & H4 & H5 & H6 & H7 & Hrun & H8).
  exists seen, fj, rj, d', y, s'. rewrite Hmap, Hm in Hrun. auto 12.
Qed.

Theorem read_messages_over_limit_set :
  forall inflate c b fs extra L ms1 m ms2 n,
    custom_handlers c = false -> binv b -> (125 <= bsize b)%nat ->
    conformant_frames c fs -> pending b = encode_frames fs ++ extra ->
    0 < L -> data_msgs (events_of fs) = ms1 ++ m :: ms2 ->
    Forall (fun x => blen (snd x) <= L) ms1 -> L < blen (snd m) -> (n < 999)%nat ->
    exists seen fj rj d' y s',
      fs = seen ++ fj :: rj /\ is_control (opcode fj) = false /\
      data_msgs (events_of seen) = ms1 /\
      snd m = d' ++ payload fj ++ y /\ blen d' <= L /\ L < blen d' + plen fj /\
      (is_data_op (opcode fj) = true -> d' = []) /\
      run_ops inflate c (init_rst b) (OSetLimit L :: repeat OReadMessage (length ms1 + 1 + n)) =
        (RUnit :: map out_of ms1 ++
         [RMsg (if is_data_op (opcode fj) then 0 else fst (fst m)) d' (Some RReadLimit)] ++
         repeat (RMsg 0 [] (Some RReadLimit)) n, s') /\
      wlog s' = map WPong (pings_of seen) ++ [WCloseTooBig] /\
      pending (br s') = wire_payload fj ++ encode_frames rj ++ extra /\
      rerror s' = Some RReadLimit /\ closesent s' = true /\ outoffuel s' = false /\
      (forall ops, exists rs s'', run_ops inflate c s' ops = (rs, s'') /\
                                  frozen s' s'' /\ Forall is_failure rs).
Proof.
  intros inflate c b fs extra L ms1 m ms2 n Hch Hinv Hbs Hconf Hp HL Hms Hall Hbig Hn.
  destruct (uncompressed_split c fs ms1 m ms2 inflate Hconf Hms) as (Hmap & Hm).
  destruct (read_messages_over_limitZ_set inflate c b fs extra L ms1 m ms2 n Hch Hinv Hbs
              (conformant_frames_Z c fs Hconf) Hp HL Hms Hall Hbig Hn)
    as (seen & fj & rj & d' & y & s' & H1 & H2 & H3 & H4 & H5 & H6 & H7 & Hrun & H8).
  exists seen, fj, rj, d', y, s'. rewrite Hmap, Hm in Hrun. auto 12.
Qed.

(* ============================== part F ============================== *)
(* ---------- every message within the limit: the limit changes nothing ---------- *)
Section RunW.
Variables (inflate : bytes -> option bytes) (L:N) (k:errk) (c:rcfg) (extra:bytes).
Hypothesis Hch : custom_handlers c = false.
Hypothesis Hx : extra <> [] \/ k = EEOF.

Lemma run_msgsLZ : forall n fs, (length fs <= n)%nat -> forall s,
  rinvL L k s -> rem s = 0 -> rfin s = true ->
  pending (br s) = encode_frames fs ++ extra -> conformant_framesZ c fs ->
  Forall (fun x => within L (blen (snd x))) (msgs fs) ->
  exists s', run_ops inflate c s (repeat OReadMessage (length (msgs fs)))
             = (map (out_ofZ inflate) (msgs fs), s') /\
    rinvL_end L k s' /\ rem s' = 0 /\ rfin s' = true /\
    pending (br s') = encode_frames (trailer fs) ++ extra /\
    wlog s' = wlog s ++ map WPong (pings_of (body fs)).
Proof.
  induction n as [|n IH]; intros fs Hn s Hrinv Hrem Hfin Hp Hconf Hall.
  - destruct fs; [|cbn [length] in Hn; lia].
    exists s. cbn. rewrite app_nil_r. split; [reflexivity|].
    split; [apply rinvL_rinvL_end; exact Hrinv|]. auto.
  - pose proof Hconf as (Hwf & Hseq & Hlen).
    destruct (first_msgZ fs) as [[[[[ty cz] d] p] a]|] eqn:Efm.
    + destruct (first_msg_someZ (server c) (negotiated c) fs ty cz d p a Hseq Efm)
        as (Htr & Hpg & Hms & Hseqa & (pre & Hfs & Hpre)).
      rewrite Hms in Hall. inversion Hall as [|m0 ms0 Hw Hall']; subst m0 ms0. cbn [snd] in Hw.
      destruct (within_limit_message_readZ L k c extra Hch Hx fs s ty cz d p a Hrinv Hrem Hfin Hp Hwf Hseq Hlen Efm Hw)
        as (s1 & Hrm & Hend1 & Hrem1 & Hfin1 & Hp1 & Hwl1).
      rewrite Hms. cbn [length repeat map]. rewrite run_ops_cons. unfold rstep. rewrite (Hrm inflate).
      cbv beta iota. rewrite out_ofZ_case.
      set (s2 := s1 <| opidx := S (opidx s1) |>).
      assert (Hconfa : conformant_framesZ c a)
        by (apply (conformantZ_suffix c pre); [rewrite <- Hfs; exact Hconf|exact Hseqa]).
      assert (Hla : (length a <= n)%nat).
      { pose proof (suffix_shorter pre a Hpre). rewrite <- Hfs in H. lia. }
      pose proof Hend1 as (E1 & E2 & E3 & [E4|(E4 & E5 & E6)] & E7 & E8 & E9 & E10).
      * (* no remembered error: go on with the next message *)
        assert (Hrinv2 : rinvL L k s2) by (unfold rinvL; subst s2; rsimpl; auto 12).
        destruct (IH a Hla s2 Hrinv2 Hrem1 Hfin1 Hp1 Hconfa Hall')
          as (s' & Hrun & Hend' & Hrem' & Hfin' & Hp' & Hwl').
        rewrite Hrun. exists s'. split; [reflexivity|].
        split; [exact Hend'|]. split; [exact Hrem'|]. split; [exact Hfin'|].
        split; [rewrite Htr; exact Hp'|].
        rewrite Hwl'. subst s2. rsimpl. rewrite Hwl1, Hpg, map_app, app_assoc. reflexivity.
      * (* the whole stream has been consumed, its last bytes came with EOF *)
        rewrite Hp1 in E5. apply app_eq_nil in E5. destruct E5 as [Ea Eextra].
        apply encode_frames_nil_inv in Ea. subst a.
        cbn [msgs events_of events_from fst data_msgs flat_map length repeat run_ops map].
        exists s2. split; [reflexivity|]. subst s2. rsimpl.
        split; [unfold rinvL_end; rsimpl; rewrite Hp1; auto 12|].
        split; [exact Hrem1|]. split; [exact Hfin1|].
        split; [rewrite Htr; exact Hp1|].
        rewrite Hwl1, Hpg. cbn [body pings_of flat_map]. rewrite app_nil_r. reflexivity.
    + destruct (first_msg_noneZ (server c) (negotiated c) fs Hseq Efm) as (Hctl & Hms).
      rewrite Hms. cbn [length repeat run_ops map].
      exists s. split; [reflexivity|]. split; [apply rinvL_rinvL_end; exact Hrinv|].
      rewrite (all_ctl_trailer fs Hctl), (all_ctl_body fs Hctl). cbn [pings_of flat_map map].
      rewrite app_nil_r. auto.
Qed.
End RunW.

(* Same shape, same side condition and same conclusions as ReaderFlateP.read_messages_generalZ
   (which is the instance L = 0): a limit that no message exceeds is invisible. *)
Theorem read_messages_within_limitZ :
  forall inflate c b fs extra L,
    custom_handlers c = false -> binv b -> (125 <= bsize b)%nat ->
    conformant_framesZ c fs -> pending b = encode_frames fs ++ extra ->
    (trailer fs = [] -> extra = [] -> fault (src b) = EEOF) ->
    let ms := data_msgs (events_of fs) in
    Forall (fun x => L = 0 \/ blen (snd x) <= L) ms ->
    exists s',
      run_ops inflate c (init_rst b <| rlimit := L |>) (repeat OReadMessage (length ms))
        = (map (out_ofZ inflate) ms, s') /\
      outoffuel s' = false /\ closesent s' = false /\ rem s' = 0 /\ rfin s' = true /\
      wlog s' = map WPong (pings_of (body fs)) /\
      pending (br s') = encode_frames (trailer fs) ++ extra /\
      binv (br s') /\
      (rerror s' = None \/ (rerror s' = Some RIoEOF /\ trailer fs = [] /\ extra = [])).
Proof.
  intros inflate c b fs extra L Hch Hinv Hbs Hconf Hp Hside ms Hall.
  set (extra' := encode_frames (trailer fs) ++ extra).
  assert (Hx : extra' <> [] \/ fault (src b) = EEOF).
  { destruct (trailer fs) as [|t tr] eqn:Et.
    - destruct extra as [|x extra0] eqn:Ee; [right; apply Hside; reflexivity|].
      left. subst extra'. cbn [encode_frames flat_map app]. discriminate.
    - left. subst extra'. rewrite encode_frames_cons, encode_frame_decomp. cbn [app]. discriminate. }
  assert (Hp' : pending (br (init_rst b <| rlimit := L |>)) = encode_frames (body fs) ++ extra').
  { subst extra'. rewrite app_assoc, <- encode_frames_app, body_trailer. exact Hp. }
  destruct (run_msgsLZ inflate L (fault (src b)) c extra' Hch Hx (length (body fs)) (body fs) (le_n _)
              (init_rst b <| rlimit := L |>) (rinvL_init b L Hinv Hbs) eq_refl eq_refl Hp'
              (conformantZ_body c fs Hconf))
    as (s' & Hrun & Hend & Hrem & Hfin & Hpend & Hwl).
  { rewrite msgs_body. exact Hall. }
  rewrite msgs_body in Hrun. rewrite trailer_body in Hpend. rewrite body_body in Hwl.
  cbn [encode_frames flat_map app] in Hpend.
  exists s'. split; [exact Hrun|].
  destruct Hend as (E1 & E2 & E3 & E4 & E5 & E6 & E7 & E8).
  split; [exact E5|]. split; [exact E6|]. split; [exact Hrem|]. split; [exact Hfin|].
  split; [exact Hwl|]. split; [exact Hpend|]. split; [exact E1|].
  destruct E4 as [E4|(E4 & E4' & _)]; [left; exact E4|right].
  rewrite Hpend in E4'. subst extra'. apply app_eq_nil in E4'. destruct E4' as [Et Ee].
  apply encode_frames_nil_inv in Et. auto.
Qed.

(* ... in the form of the flagship theorem read_messages_conformantZ *)
Theorem read_messages_within_limitZ_conformant :
  forall inflate c b fs extra L,
    custom_handlers c = false -> binv b -> (125 <= bsize b)%nat ->
    conformant_framesZ c fs -> pending b = encode_frames fs ++ extra -> extra <> [] ->
    let ms := data_msgs (events_of fs) in
    Forall (fun x => L = 0 \/ blen (snd x) <= L) ms ->
    exists s',
      run_ops inflate c (init_rst b <| rlimit := L |>) (repeat OReadMessage (length ms))
        = (map (out_ofZ inflate) ms, s') /\
      outoffuel s' = false /\ rerror s' = None /\ closesent s' = false /\
      rem s' = 0 /\ rfin s' = true /\
      wlog s' = map WPong (pings_of (body fs)) /\
      pending (br s') = encode_frames (trailer fs) ++ extra.
Proof.
  intros inflate c b fs extra L Hch Hinv Hbs Hconf Hp Hne ms Hall.
  destruct (read_messages_within_limitZ inflate c b fs extra L Hch Hinv Hbs Hconf Hp)
    as (s' & Hrun & H1 & H2 & H3 & H4 & H5 & H6 & H7 & H8); [intros _ E; contradiction|exact Hall|].
  exists s'. split; [exact Hrun|].
  destruct H8 as [H8|(_ & _ & H8)]; [|contradiction]. auto 10.
Qed.

(* uncompressed streams: exactly the conclusions of ReaderP.read_messages_conformant *)
Theorem read_messages_within_limit :
  forall inflate c b fs extra L,
    custom_handlers c = false -> binv b -> (125 <= bsize b)%nat ->
    conformant_frames c fs -> pending b = encode_frames fs ++ extra -> extra <> [] ->
    let ms := data_msgs (events_of fs) in
    Forall (fun x => L = 0 \/ blen (snd x) <= L) ms ->
    exists s',
      run_ops inflate c (init_rst b <| rlimit := L |>) (repeat OReadMessage (length ms))
        = (map out_of ms, s') /\
      outoffuel s' = false /\ rerror s' = None /\ closesent s' = false /\
      rem s' = 0 /\ rfin s' = true /\
      wlog s' = map WPong (pings_of (body fs)) /\
      pending (br s') = encode_frames (trailer fs) ++ extra.
Proof.
  intros inflate c b fs extra L Hch Hinv Hbs Hconf Hp Hne ms Hall.
  destruct (read_messages_within_limitZ_conformant inflate c b fs extra L Hch Hinv Hbs
              (conformant_frames_Z c fs Hconf) Hp Hne Hall) as (s' & Hrun & H).
  exists s'. split; [|exact H].
  rewrite (map_out_ofZ_uncompressed inflate _ (conformant_frames_uncompressed c fs Hconf)) in Hrun.
  exact Hrun.
Qed.

(* the run with the limit and the run without it agree on everything observable *)
Corollary limit_invisible_within :
  forall inflate c b fs extra L,
    custom_handlers c = false -> binv b -> (125 <= bsize b)%nat ->
    conformant_framesZ c fs -> pending b = encode_frames fs ++ extra ->
    (trailer fs = [] -> extra = [] -> fault (src b) = EEOF) ->
    Forall (fun x => L = 0 \/ blen (snd x) <= L) (data_msgs (events_of fs)) ->
    let ops := repeat OReadMessage (length (data_msgs (events_of fs))) in
    let r0 := run_ops inflate c (init_rst b) ops in
    let rL := run_ops inflate c (init_rst b <| rlimit := L |>) ops in
    fst rL = fst r0 /\ wlog (snd rL) = wlog (snd r0) /\
    pending (br (snd rL)) = pending (br (snd r0)) /\ closesent (snd rL) = closesent (snd r0).
Proof.
  intros inflate c b fs extra L Hch Hinv Hbs Hconf Hp Hside Hall ops r0 rL.
  destruct (read_messages_within_limitZ inflate c b fs extra L Hch Hinv Hbs Hconf Hp Hside Hall)
    as (sL & HrL & _ & A2 & _ & _ & A5 & A6 & _).
  destruct (read_messages_generalZ inflate c b fs extra Hch Hinv Hbs Hconf Hp Hside)
    as (s0 & Hr0 & _ & B2 & _ & _ & B5 & B6 & _).
  subst r0 rL ops. cbv beta. rewrite HrL, Hr0. cbn [fst snd]. rewrite A2, A5, A6, B2, B5, B6. auto.
Qed.

(* ============================== part G ============================== *)
(* ---------- any history: the messages of [ms1] read or abandoned in any way ---------- *)
(* The operations allowed before the failing ReadMessage: NextReader, Read (any positive size,
   on the current reader or on a stale one), ReadMessage.  A NextReader / ReadMessage call
   "starts" the next message, whatever was or was not read of the previous one. *)
Definition hist_op (o:rop) : Prop :=
  match o with ORead m => (0 < m)%nat | OSetLimit _ => False | _ => True end.
Definition starts (o:rop) : nat := match o with ONext | OReadMessage => 1%nat | _ => 0%nat end.

Lemma mafter_nil fl : mafter fl [] = [].
Proof. destruct fl; reflexivity. Qed.

Lemma mafter_enc_ne fl fs extra : mafter fl fs <> [] -> encode_frames fs ++ extra <> [].
Proof.
  intros H. apply encode_frames_app_ne. intros Hx. subst fs. apply H. apply mafter_nil.
Qed.

Lemma msg_tail_seqZ srv ng fl fs d p a :
  seq_okZ srv ng (negb fl) fs = true -> msg_tail fl fs = (d, p, a) -> seq_okZ srv ng false a = true.
Proof.
  unfold msg_tail. destruct fl; cbn [negb]; intros Hs H.
  - inversion H; subst. exact Hs.
  - destruct (cont_msg_specZ srv ng fs 0 false [] d p a Hs H) as (_ & _ & _ & _ & H5 & _). exact H5.
Qed.

Lemma msg_tail_parts fl fs :
  msg_tail fl fs = (mdata fl fs, snd (fst (msg_tail fl fs)), mafter fl fs).
Proof. unfold mdata, mafter. destruct (msg_tail fl fs) as [[d p] a]. reflexivity. Qed.

Lemma within_zero L : within L 0.
Proof. unfold within. right. lia. Qed.

Section HistR.
Variables (L:N) (k:errk) (c:rcfg) (extra:bytes) (all:list frame) (wl0:list wback).
Hypothesis Hch : custom_handlers c = false.

(* the reader is inside (or at the end of) a data frame: [w] = the wire bytes of that frame
   still unread, [fs] = the frames that follow, [pre] = the frames consumed so far (their pings
   are answered); the message being read stays within the limit *)
Definition mstate (s:rst) (pre:list frame) (w:bytes) (fs:list frame) : Prop :=
  rinvL L k s /\ rem s = blen w /\ pending (br s) = w ++ encode_frames fs ++ extra /\
  Forall wf_frame fs /\ seq_okZ (server c) (negotiated c) (negb (rfin s)) fs = true /\
  blen (encode_frames fs) < 2^63 /\
  (rfin s = false -> rlen s + blen (encode_frames fs) < 2^63) /\
  (rfin s = false -> within L (rlen s + blen (mdata false fs))) /\
  all = pre ++ fs /\ wlog s = wl0 ++ map WPong (pings_of pre).

(* between two calls: [aft] = the frames after the message the reader is in *)
Definition midL (s:rst) (aft:list frame) : Prop :=
  exists pre w fs, mstate s pre w fs /\ mafter (rfin s) fs = aft.

Lemma midL_opidx s aft n : midL s aft -> midL (s <| opidx := n |>) aft.
Proof.
  intros (pre & w & fs & (H1 & H2) & H3). exists pre, w, fs. split; [|exact H3].
  split; [apply (rinvL_same L k s); [exact H1|reflexivity ..]|exact H2].
Qed.

(* ---------- messageReader.Read, from any point of a message within the limit ---------- *)
Lemma read_step_genL m : (0 < m)%nat -> forall fs w s fl pre,
  mstate s pre w fs -> mafter (rfin s) fs <> [] -> (length (pending (br s)) < fl)%nat ->
  exists d e s', read_loop fl c m s = (d, e, s') /\ midL s' (mafter (rfin s) fs).
Proof.
  intros Hm. induction fs as [|f fs IH]; intros w s fl pre Hst Haft Hfl.
  { exfalso. apply Haft. apply mafter_nil. }
  destruct fl as [|fl]; [lia|].
  destruct Hst as (Hrinv & Hrem & Hp & Hwf & Hseq & Hlen & Hrl & Hwin & Hall & Hwl).
  pose proof Hrinv as (Hinv & Hbs & Hflt & Herr & Hoof & Hcs & Hrlim & Hecnt).
  destruct w as [|x w'] eqn:Ew.
  2:{ (* inside a frame: one chunk *)
      rewrite <- Ew in *. assert (Hw : w <> []) by (rewrite Ew; discriminate).
      destruct (read_loop_chunkL L k c m fl s w (encode_frames (f :: fs) ++ extra) Hrinv Hm Hw Hrem Hp)
        as (w1 & w2 & e & s1 & Hw12 & Hw1 & Hb1 & Hrl1 & Hp1 & Hrem1 & Hfin1 & Hrlen1 & Hwl1 & Hun &
            Hinv1 & Hbs1 & Hfl1 & Hoof1 & Hcs1 & Hrlim1 & Herr1 & Hec1 & He).
      exists (unmask c s w1), e, s1. split; [exact Hrl1|].
      destruct He as [-> | [Hnil _]].
      - exists pre, w2, (f :: fs). rewrite Hfin1. split; [|reflexivity].
        assert (Hrinv1 : rinvL L k s1) by (unfold rinvL; rewrite Hbs1, Hec1; auto 12).
        unfold mstate. rewrite Hfin1, Hrlen1, Hwl1. auto 12.
      - exfalso. apply app_eq_nil in Hnil. destruct Hnil as [_ Hnil].
        exact (mafter_enc_ne _ _ _ Haft Hnil). }
  destruct (rfin s) eqn:Efin.
  { (* the message is complete: io.EOF *)
    rewrite (read_loop_eof fl c m s Herr Hrem Efin).
    exists [], (Some RIoEOF), (s <| cur := None |>). split; [reflexivity|].
    exists pre, [], (f :: fs). rsimpl. rewrite Efin. split; [|reflexivity].
    unfold mstate. rsimpl. rewrite Efin.
    split; [apply (rinvL_same L k s); [exact Hrinv|reflexivity ..]|]. auto 12. }
  (* a frame boundary inside the message *)
  specialize (Hrl eq_refl). specialize (Hwin eq_refl). cbn [negb] in Hseq.
  inversion Hwf as [|f' fs' Hwff Hwfs]; subst f' fs'.
  cbn [seq_okZ] in Hseq. apply andb_true_iff in Hseq. destruct Hseq as [Hacc Hseq].
  cbn [app] in Hp. rewrite encode_frames_cons, <- app_assoc in Hp.
  change (blen []) with 0 in Hrem.
  assert (Hlenp : (length (pending (br s)) =
                   length (encode_frame f) + length (encode_frames fs ++ extra))%nat)
    by (rewrite Hp, app_length; reflexivity).
  pose proof (encode_frame_length_ge2 f) as Hge2.
  pose proof (encode_frame_ge_plen f) as Hgep.
  rewrite encode_frames_cons, blen_app in Hlen, Hrl.
  assert (Haccs : frame_accZ (server c) (negotiated c) (negb (rfin s)) f = true) by (rewrite Efin; exact Hacc).
  assert (Hall' : all = (pre ++ [f]) ++ fs) by (rewrite <- app_assoc; exact Hall).
  unfold next_open in Hseq.
  destruct (acc_casesZ _ _ _ _ Hacc) as [(Hctl & Hop & _)|(Hctl & [(_ & Hxx)|(Hop & _)])];
    [| discriminate Hxx |].
  - (* ping / pong between the fragments: answered, the Read goes on *)
    rewrite Hctl in Hseq.
    destruct (advance_ctlLZ L k c s f (encode_frames fs ++ extra) Hrinv Hch Hwff Haccs Hctl Hp)
      as (s1 & Hadv & Hrinv1 & Hrem1 & Hfin1 & Hrlen1 & Hp1 & Hwl1).
    rewrite (read_loop_adv fl c m s (opcode f) s1 Herr Hrem Efin Hadv) by lia.
    rewrite mafter_ctl in Haft |- * by exact Hctl. rewrite mdata_ctl in Hwin by exact Hctl.
    rewrite Efin in Hfin1. rewrite <- Hfin1 in Haft |- *.
    apply (IH [] s1 fl (pre ++ [f])); [|exact Haft|rewrite Hp1; lia].
    unfold mstate. rewrite Hfin1, Hrlen1. cbn [negb app]. change (blen []) with 0.
    split; [exact Hrinv1|]. split; [exact Hrem1|]. split; [exact Hp1|]. split; [exact Hwfs|].
    split; [exact Hseq|]. split; [lia|]. split; [intros _; lia|]. split; [intros _; exact Hwin|].
    split; [exact Hall'|].
    rewrite Hwl1, Hwl, pings_of_app, map_app, <- app_assoc.
    cbn [pings_of flat_map]. rewrite app_nil_r. reflexivity.
  - (* continuation frame: within the limit *)
    rewrite Hctl in Hseq.
    assert (Hop0 : (opcode f =? 0) = true) by lia.
    rewrite mdata_data, blen_app in Hwin by exact Hctl. fold (plen f) in Hwin.
    destruct (advance_data_withinZ L k c s f (encode_frames fs ++ extra) Hrinv Hwff Haccs Hctl Hp)
      as (s1 & Hadv & Hrinv1 & Hrem1 & Hfin1 & Hrlen1 & Hp1 & Hun1 & _ & Hwl1);
      [rewrite Hop0; lia|rewrite Hop0; apply (within_mono L _ _ Hwin); lia|].
    rewrite Hop0 in Hrlen1.
    rewrite (read_loop_adv fl c m s (opcode f) s1 Herr Hrem Efin Hadv) by lia.
    rewrite mafter_data in Haft |- * by exact Hctl.
    rewrite <- Hfin1 in Haft |- *.
    assert (Hwpl : (length (wire_payload f) <= length (encode_frame f) - 2)%nat).
    { rewrite encode_frame_decomp. cbn [length]. rewrite !app_length. lia. }
    apply (IH (wire_payload f) s1 fl (pre ++ [f])); [|exact Haft|rewrite Hp1, app_length; lia].
    unfold mstate. rewrite Hfin1, Hrlen1.
    split; [exact Hrinv1|]. split; [rewrite Hrem1; symmetry; apply wire_payload_blen|].
    split; [exact Hp1|]. split; [exact Hwfs|]. split; [exact Hseq|]. split; [lia|].
    split; [intros _; lia|].
    split; [intros Hf; rewrite Hf in Hwin; replace (rlen s + plen f + blen (mdata false fs))
              with (rlen s + (plen f + blen (mdata false fs))) by lia; exact Hwin|].
    split; [exact Hall'|].
    rewrite Hwl1, Hwl, pings_of_app. cbn [pings_of flat_map].
    rewrite ping1_nonctl by exact Hctl. rewrite !app_nil_r. reflexivity.
Qed.

Lemma read_stepL m s aft : (0 < m)%nat -> midL s aft -> aft <> [] ->
  exists d e s', reader_read c m s = (d, e, s') /\ midL s' aft.
Proof.
  intros Hm (pre & w & fs & Hst & Haft) Hne. unfold reader_read. rewrite <- Haft in Hne |- *.
  apply (read_step_genL m Hm fs w s (fuel_of s) pre Hst Hne). unfold fuel_of. lia.
Qed.

(* what [midL] says about the frames that follow the current message *)
Lemma midL_parts s aft : midL s aft ->
  exists pre w fs pre1 more0,
    mstate s pre w fs /\ msg_tail (rfin s) fs = (more0, pings_of pre1, aft) /\ fs = pre1 ++ aft /\
    within L (0 + blen more0) /\
    Forall wf_frame aft /\ seq_okZ (server c) (negotiated c) false aft = true /\
    blen (encode_frames aft) < 2^63.
Proof.
  intros (pre & w & fs & Hst & Haft).
  pose proof Hst as (Hrinv & Hrem & Hp & Hwf & Hseq & Hlen & Hrl & Hwin & Hall & Hwl).
  destruct (msg_tail (rfin s) fs) as [[more0 pings0] fs1] eqn:Emt0.
  assert (fs1 = aft) by (unfold mafter in Haft; rewrite Emt0 in Haft; exact Haft). subst fs1.
  destruct (msg_tail_split _ _ _ _ _ Emt0) as (pre1 & Hfs & Hpg0). subst pings0.
  exists pre, w, fs, pre1, more0. split; [exact Hst|]. split; [exact Emt0|]. split; [exact Hfs|].
  split.
  { destruct (rfin s) eqn:Efin.
    - cbn [msg_tail] in Emt0. inversion Emt0. apply within_zero.
    - specialize (Hwin eq_refl). unfold mdata in Hwin. rewrite Emt0 in Hwin. cbn [fst] in Hwin.
      apply (within_mono L _ _ Hwin). lia. }
  split; [rewrite Hfs in Hwf; exact (Forall_app_r _ _ _ Hwf)|].
  split; [exact (msg_tail_seqZ _ _ _ _ _ _ _ Hseq Emt0)|].
  rewrite Hfs, encode_frames_app, blen_app in Hlen. lia.
Qed.

(* ---------- NextReader, whatever was or was not read of the previous message ---------- *)
Lemma next_stepL s aft ty cz d p aft' :
  midL s aft -> first_msgZ aft = Some (ty, cz, d, p, aft') -> within L (blen d) ->
  exists s', next_reader c s = (RNext ty None, s') /\ midL s' aft'.
Proof.
  intros Hmid Hfm Hw.
  destruct (midL_parts s aft Hmid) as (pre & w & fs & pre1 & more0 & Hst & Emt0 & Hfs & Hw0 & Hwfa & Hseqa & Hlena).
  destruct Hst as (Hrinv & Hrem & Hp & Hwf & Hseq & Hlen & Hrl & Hwin & Hall & Hwl).
  unfold first_msgZ in Hfm.
  destruct (find_data aft) as [[[p1 f] r]|] eqn:Efd; [|discriminate Hfm].
  destruct (msg_tail (fin f) r) as [[more p2] a2] eqn:Emt. inversion Hfm; subst ty cz d p a2. clear Hfm.
  destruct (find_data_specZ _ _ aft p1 f r Hseqa Efd) as (cs & Haft2 & _ & Hp1 & Hctl & _ & _).
  set (s0 := s <| cur := None |> <| rlen := 0 |>).
  assert (Hrinv0 : rinvL L k s0) by (apply (rinvL_same L k s); [exact Hrinv|reflexivity ..]).
  destruct (next_loopLZ L k c extra Hch fs s0 w (fuel_of s0) more0 (pings_of pre1) aft p1 f r Hrinv0 Hrem Hp Hwf Hseq)
    as [Hok _];
    [change (rlen s0) with 0; lia|unfold fuel_of; lia
    |apply tail_lim_within; [exact Emt0|exact Hw0]|exact Efd|].
  rewrite blen_app in Hw. fold (plen f) in Hw.
  assert (Hwf0 : within L (plen f)) by (apply (within_mono L _ _ Hw); lia).
  destruct (Hok Hwf0)
    as (s' & Hnl & Hrinv' & Hrem' & Hfin' & Hrlen' & Hp' & Hun' & _ & Hwl' & Hwfr & Hseqr & Hlenr & Hop).
  exists s'. unfold next_reader. fold s0. rewrite Hnl. split; [reflexivity|].
  exists (pre ++ pre1 ++ cs ++ [f]), (wire_payload f), r.
  split; [|unfold mafter; rewrite Hfin', Emt; reflexivity].
  unfold mstate. rewrite Hfin', Hrlen'.
  split; [exact Hrinv'|]. split; [rewrite Hrem'; symmetry; apply wire_payload_blen|].
  split; [exact Hp'|]. split; [exact Hwfr|]. split; [exact Hseqr|]. split; [lia|].
  split; [intros _; exact Hlenr|].
  split.
  { intros Hf. unfold mdata. rewrite <- Hf, Emt. cbn [fst]. exact Hw. }
  split; [rewrite Hall, Hfs, Haft2, <- !app_assoc; reflexivity|].
  change (wlog s0) with (wlog s) in Hwl'. rewrite Hwl', Hwl, <- Hp1.
  rewrite !pings_of_app, !map_app, <- !app_assoc. cbn [pings_of flat_map].
  rewrite ping1_nonctl by exact Hctl. cbn [app map]. rewrite app_nil_r. reflexivity.
Qed.

(* ---------- ReadMessage, whatever was or was not read of the previous message ---------- *)
Lemma read_message_stepL s aft ty cz d p aft' :
  midL s aft -> first_msgZ aft = Some (ty, cz, d, p, aft') -> within L (blen d) -> aft' <> [] ->
  exists s', (forall inflate, read_message inflate c s = (out_ofZ inflate (ty, cz, d), s')) /\
    midL s' aft'.
Proof.
  intros Hmid Hfm Hw Hne.
  destruct (midL_parts s aft Hmid) as (pre & w & fs & pre1 & more0 & Hst & Emt0 & Hfs & Hw0 & Hwfa & Hseqa & Hlena).
  destruct Hst as (Hrinv & Hrem & Hp & Hwf & Hseq & Hlen & Hrl & Hwin & Hall & Hwl).
  destruct (first_msgZ_pre _ _ aft ty cz d p aft' Hseqa Hfm) as (pre0 & Haft2 & _ & Hpp & _).
  destruct (first_msg_someZ _ _ aft ty cz d p aft' Hseqa Hfm) as (_ & _ & _ & Hseqa' & _).
  destruct (read_message_limitR L k c extra Hch fs s w more0 (pings_of pre1) aft ty cz d p (Some aft') Hrinv)
    as (s' & Hrm & Hwl' & (E1 & E2 & E3 & E4));
    [exact Hrem|exact Hp|exact Hwf|exact Hseq|exact Hlen
    |apply tail_lim_within; [exact Emt0|exact Hw0]|apply first_limZ_within; assumption
    |intros Hx; inversion Hx; contradiction|].
  exists s'. cbn [lim_err lim_close lim_outZ app] in *. rewrite app_nil_r in Hwl'.
  split; [exact Hrm|].
  exists (pre ++ pre1 ++ pre0), [], aft'. split; [|rewrite E3; reflexivity].
  unfold mstate. rewrite E3. cbn [negb app].
  split; [apply rinvL_end_rinvL; [exact E1|rewrite E4; apply encode_frames_app_ne; exact Hne]|].
  split; [exact E2|]. split; [exact E4|].
  split; [rewrite Haft2 in Hwfa; exact (Forall_app_r _ _ _ Hwfa)|]. split; [exact Hseqa'|].
  split; [rewrite Haft2, encode_frames_app, blen_app in Hlena; lia|].
  split; [intros Hx; discriminate Hx|]. split; [intros Hx; discriminate Hx|].
  split; [rewrite Hall, Hfs, Haft2, <- !app_assoc; reflexivity|].
  rewrite Hwl', Hwl, Hpp, !pings_of_app, !map_app, <- !app_assoc. reflexivity.
Qed.

(* ---------- ReadMessage reaches a message over the limit ---------- *)
Lemma read_message_overL s aft ty cz d p aft' :
  0 < L -> midL s aft -> first_msgZ aft = Some (ty, cz, d, p, aft') -> L < blen d ->
  exists done prem fj rj y s',
    all = done ++ aft /\ aft = prem ++ fj :: rj /\ is_control (opcode fj) = false /\ msgs prem = [] /\
    d = dpay prem ++ payload fj ++ y /\ blen (dpay prem) <= L /\ L < blen (dpay prem) + plen fj /\
    (is_data_op (opcode fj) = true -> dpay prem = []) /\
    (forall inflate, read_message inflate c s =
       (RMsg (if is_data_op (opcode fj) then 0 else ty) (if cz then [] else dpay prem)
             (Some RReadLimit), s')) /\
    wlog s' = wl0 ++ map WPong (pings_of (done ++ prem)) ++ [WCloseTooBig] /\
    rerror s' = Some RReadLimit /\ closesent s' = true /\ outoffuel s' = false /\
    rem s' = plen fj /\ pending (br s') = wire_payload fj ++ encode_frames rj ++ extra.
Proof.
  intros HL Hmid Hfm Hbig.
  destruct (midL_parts s aft Hmid) as (pre & w & fs & pre1 & more0 & Hst & Emt0 & Hfs & Hw0 & Hwfa & Hseqa & Hlena).
  destruct Hst as (Hrinv & Hrem & Hp & Hwf & Hseq & Hlen & Hrl & Hwin & Hall & Hwl).
  destruct (first_over (server c) (negotiated c) L aft ty cz d p aft' HL Hseqa Hfm Hbig)
    as (prem & fj & rj & y & H1 & H2 & H3 & H4 & H5 & H6 & H7 & H8 & H9).
  destruct (read_message_limitR L k c extra Hch fs s w more0 (pings_of pre1) aft
              (if is_data_op (opcode fj) then 0 else ty) (if is_data_op (opcode fj) then false else cz)
              (dpay prem) (pings_of prem) None Hrinv)
    as (s' & Hrm & Hwl' & (E1 & E2 & E3 & E4 & E5 & E6 & (f0 & r0 & E7 & E8 & E9)));
    [exact Hrem|exact Hp|exact Hwf|exact Hseq|exact Hlen
    |apply tail_lim_within; [exact Emt0|exact Hw0]|exact H4|intros Hx; discriminate Hx|].
  rewrite H3 in E7. inversion E7; subst f0 r0. clear E7.
  exists (pre ++ pre1), prem, fj, rj, y, s'. cbn [lim_outZ lim_close app] in *.
  split; [rewrite Hall, Hfs, <- app_assoc; reflexivity|].
  split; [exact H1|]. split; [exact H2|]. split; [exact H9|]. split; [exact H7|].
  split; [exact H5|]. split; [exact H6|]. split; [exact H8|].
  split.
  { intros inflate. rewrite (Hrm inflate). f_equal. f_equal.
    destruct (is_data_op (opcode fj)); [rewrite (H8 eq_refl); destruct cz; reflexivity|reflexivity]. }
  split; [rewrite Hwl', Hwl, !pings_of_app, !map_app, <- !app_assoc; reflexivity|].
  auto 10.
Qed.
End HistR.

(* ---------- whole histories ---------- *)
Section HistRun.
Variables (inflate : bytes -> option bytes) (L:N) (k:errk) (c:rcfg) (extra:bytes)
  (all:list frame) (wl0:list wback).
Hypothesis Hch : custom_handlers c = false.
Variables (m : N * bool * bytes) (ms2 : list (N * bool * bytes)).

Lemma msgs_nonnil_frames fs : msgs fs <> [] -> fs <> [].
Proof. intros H Hx. subst fs. apply H. reflexivity. Qed.

(* [done] = the frames up to the end of the message the reader is in; the complete messages in
   them are [msd].  After a history with as many NextReader / ReadMessage calls as [ms1] has
   messages the reader is in the last message of [ms1]: [m] is the next one. *)
Lemma run_histL : forall ops s aft done msd ms1,
  Forall hist_op ops -> midL L k c extra all wl0 s aft -> all = done ++ aft ->
  (forall rest, msgs (done ++ rest) = msd ++ msgs rest) ->
  msgs aft = ms1 ++ m :: ms2 -> list_sum (map starts ops) = length ms1 ->
  Forall (fun x => within L (blen (snd x))) ms1 ->
  exists outs s' aft' done',
    run_ops inflate c s ops = (outs, s') /\ ~ In RPanic outs /\ length outs = length ops /\
    midL L k c extra all wl0 s' aft' /\ all = done' ++ aft' /\
    (forall rest, msgs (done' ++ rest) = (msd ++ ms1) ++ msgs rest) /\ msgs aft' = m :: ms2.
Proof.
  induction ops as [|o ops IH]; intros s aft done msd ms1 Hops Hmid Hall Hdone Hms Hcnt Hwin.
  - destruct ms1; [|discriminate Hcnt].
    exists [], s, aft, done. rewrite app_nil_r. cbn [run_ops In length]. auto 10.
  - inversion Hops as [|o' ops' Ho Hops']; subst o' ops'.
    assert (Hane : aft <> []) by (apply msgs_nonnil_frames; rewrite Hms; destruct ms1; discriminate).
    destruct (midL_parts L k c extra all wl0 s aft Hmid)
      as (_ & _ & _ & _ & _ & _ & _ & _ & _ & _ & Hseqa & _).
    unfold list_sum in Hcnt. cbn [map fold_right] in Hcnt. fold (list_sum (map starts ops)) in Hcnt.
    (* a call that does not start a message leaves [aft] as it is *)
    assert (Hsame : forall r s1, rstep inflate c s o = (r, s1) -> starts o = 0%nat ->
              (forall (X:Type) (u v:X), match r with RPanic => u | _ => v end = v) ->
              midL L k c extra all wl0 s1 aft ->
              exists outs s' aft' done',
                run_ops inflate c s (o :: ops) = (outs, s') /\ ~ In RPanic outs /\
                length outs = length (o :: ops) /\
                midL L k c extra all wl0 s' aft' /\ all = done' ++ aft' /\
                (forall rest, msgs (done' ++ rest) = (msd ++ ms1) ++ msgs rest) /\ msgs aft' = m :: ms2).
    { intros r s1 Hstep Hst0 Hnp Hmid1. rewrite Hst0 in Hcnt. cbn [plus] in Hcnt.
      destruct (IH s1 aft done msd ms1 Hops' Hmid1 Hall Hdone Hms Hcnt Hwin)
        as (outs & s' & aft' & done' & Hrun & Hnpo & Hlo & Hmid' & Hall' & Hdone' & Hms').
      exists (r :: outs), s', aft', done'. rewrite run_ops_cons, Hstep, Hnp, Hrun.
      split; [reflexivity|].
      split; [intros [Hx|Hx]; [subst r; discriminate (Hnp nat 0%nat 1%nat)|exact (Hnpo Hx)]|].
      cbn [length]. auto 10. }
    (* a call that starts the next message *)
    assert (Hnext : forall m0 ms1' p a r s1, ms1 = m0 :: ms1' ->
              first_msgZ aft = Some (fst (fst m0), snd (fst m0), snd m0, p, a) -> msgs a = ms1' ++ m :: ms2 ->
              rstep inflate c s o = (r, s1) -> starts o = 1%nat ->
              (forall (X:Type) (u v:X), match r with RPanic => u | _ => v end = v) ->
              midL L k c extra all wl0 s1 a ->
              exists outs s' aft' done',
                run_ops inflate c s (o :: ops) = (outs, s') /\ ~ In RPanic outs /\
                length outs = length (o :: ops) /\
                midL L k c extra all wl0 s' aft' /\ all = done' ++ aft' /\
                (forall rest, msgs (done' ++ rest) = (msd ++ ms1) ++ msgs rest) /\ msgs aft' = m :: ms2).
    { intros m0 ms1' p a r s1 -> Hfm Hmsa Hstep Hst1 Hnp Hmid1.
      rewrite Hst1 in Hcnt. cbn [length] in Hcnt.
      inversion Hwin as [|m0' l' Hw0 Hwin']; subst m0' l'.
      destruct (first_msgZ_pre _ _ aft _ _ _ p a Hseqa Hfm) as (pre0 & Haft2 & _ & _ & Hmspre).
      destruct (IH s1 a (done ++ pre0) (msd ++ [m0]) ms1' Hops' Hmid1)
        as (outs & s' & aft' & done' & Hrun & Hnpo & Hlo & Hmid' & Hall' & Hdone' & Hms');
        [rewrite Hall, Haft2, <- app_assoc; reflexivity
        |intros rest; rewrite <- !app_assoc, Hdone, Hmspre; destruct m0 as [[t0 c0] d0]; reflexivity
        |exact Hmsa|lia|exact Hwin'|].
      exists (r :: outs), s', aft', done'. rewrite run_ops_cons, Hstep, Hnp, Hrun.
      split; [reflexivity|].
      split; [intros [Hx|Hx]; [subst r; discriminate (Hnp nat 0%nat 1%nat)|exact (Hnpo Hx)]|].
      cbn [length]. split; [lia|]. split; [exact Hmid'|]. split; [exact Hall'|].
      split; [|exact Hms'].
      intros rest. rewrite Hdone'. rewrite <- !app_assoc. reflexivity. }
    destruct o as [|mm|mm| |l]; cbn [hist_op] in Ho.
    + (* NextReader *)
      destruct ms1 as [|m0 ms1']; [discriminate Hcnt|].
      destruct (msgs_cons_first _ _ aft m0 (ms1' ++ m :: ms2) Hseqa Hms) as (p & a & Hfm & Hmsa).
      inversion Hwin as [|m0' l' Hw0 Hwin']; subst m0' l'.
      destruct (next_stepL L k c extra all wl0 Hch s aft _ _ _ p a Hmid Hfm Hw0) as (s1 & Hnr & Hmid1).
      apply (Hnext m0 ms1' p a (RNext (fst (fst m0)) None) (s1 <| opidx := S (opidx s1) |>) eq_refl Hfm Hmsa);
        [unfold rstep; rewrite Hnr; reflexivity|reflexivity|reflexivity|apply midL_opidx; exact Hmid1].
    + (* Read on the current reader *)
      unfold rstep in Hsame. destruct (cur s) eqn:Ec.
      * destruct (read_stepL L k c extra all wl0 Hch mm s aft Ho Hmid Hane) as (d & e & s1 & Hrd & Hmid1).
        apply (Hsame (RData d e) (s1 <| opidx := S (opidx s1) |>));
          [rewrite Hrd; reflexivity|reflexivity|reflexivity|apply midL_opidx; exact Hmid1].
      * apply (Hsame (RData [] (Some RIoEOF)) (s <| opidx := S (opidx s) |>));
          [reflexivity|reflexivity|reflexivity|apply midL_opidx; exact Hmid].
    + (* Read on a stale reader *)
      apply (Hsame (RData [] (Some RIoEOF)) (s <| opidx := S (opidx s) |>));
        [reflexivity|reflexivity|reflexivity|apply midL_opidx; exact Hmid].
    + (* ReadMessage *)
      destruct ms1 as [|m0 ms1']; [discriminate Hcnt|].
      destruct (msgs_cons_first _ _ aft m0 (ms1' ++ m :: ms2) Hseqa Hms) as (p & a & Hfm & Hmsa).
      inversion Hwin as [|m0' l' Hw0 Hwin']; subst m0' l'.
      assert (Hne : a <> []) by (apply msgs_nonnil_frames; rewrite Hmsa; destruct ms1'; discriminate).
      destruct (read_message_stepL L k c extra all wl0 Hch s aft _ _ _ p a Hmid Hfm Hw0 Hne) as (s1 & Hrm & Hmid1).
      apply (Hnext m0 ms1' p a (out_ofZ inflate m0) (s1 <| opidx := S (opidx s1) |>) eq_refl Hfm Hmsa);
        [unfold rstep; rewrite (Hrm inflate); destruct m0 as [[t0 c0] d0]; reflexivity|reflexivity
        |intros X u v; apply out_ofZ_case|apply midL_opidx; exact Hmid1].
    + contradiction.
Qed.
End HistRun.

Lemma midL_init c extra fs b L :
  binv b -> (125 <= bsize b)%nat -> conformant_framesZ c fs -> pending b = encode_frames fs ++ extra ->
  midL L (fault (src b)) c extra fs [] (init_rst b <| rlimit := L |>) fs.
Proof.
  intros Hinv Hbs (Hwf & Hseq & Hlen) Hp. exists [], [], fs. split; [|reflexivity].
  unfold mstate. split; [apply rinvL_init; assumption|]. split; [reflexivity|]. split; [exact Hp|].
  split; [exact Hwf|]. split; [exact Hseq|]. split; [exact Hlen|].
  split; [intros Hx; discriminate Hx|]. split; [intros Hx; discriminate Hx|]. split; reflexivity.
Qed.

(* ============================================================================================ *)
(* Any history.  [hist]: any sequence of NextReader / Read(m > 0) / Read on a stale reader /    *)
(* ReadMessage calls with exactly [length ms1] NextReader + ReadMessage calls: each message of  *)
(* [ms1] is read by ReadMessage, or opened by NextReader and then read in part, in full, beyond *)
(* its end, or not at all.  The ReadMessage that follows reaches [m] and fails with             *)
(* ErrReadLimit exactly as in read_messages_over_limitZ: same frame, same bytes, same log.      *)
(* ============================================================================================ *)
Theorem read_messages_over_limitZ_any_history :
  forall inflate c b fs extra L ms1 m ms2 hist,
    custom_handlers c = false -> binv b -> (125 <= bsize b)%nat ->
    conformant_framesZ c fs -> pending b = encode_frames fs ++ extra ->
    0 < L -> data_msgs (events_of fs) = ms1 ++ m :: ms2 ->
    Forall (fun x => blen (snd x) <= L) ms1 -> L < blen (snd m) ->
    Forall hist_op hist -> list_sum (map starts hist) = length ms1 ->
    exists outs seen fj rj d' y s',
      fs = seen ++ fj :: rj /\ is_control (opcode fj) = false /\
      data_msgs (events_of seen) = ms1 /\
      snd m = d' ++ payload fj ++ y /\ blen d' <= L /\ L < blen d' + plen fj /\
      (is_data_op (opcode fj) = true -> d' = []) /\
      run_ops inflate c (init_rst b <| rlimit := L |>) (hist ++ [OReadMessage]) =
        (outs ++ [RMsg (if is_data_op (opcode fj) then 0 else fst (fst m))
                       (if snd (fst m) then [] else d') (Some RReadLimit)], s') /\
      length outs = length hist /\ ~ In RPanic outs /\
      wlog s' = map WPong (pings_of seen) ++ [WCloseTooBig] /\
      pending (br s') = wire_payload fj ++ encode_frames rj ++ extra /\
      rerror s' = Some RReadLimit /\ closesent s' = true /\ outoffuel s' = false /\
      (forall ops, exists rs s'', run_ops inflate c s' ops = (rs, s'') /\
                                  frozen s' s'' /\ Forall is_failure rs).
Proof.
  intros inflate c b fs extra L ms1 m ms2 hist Hch Hinv Hbs Hconf Hp HL Hms Hall Hbig Hhist Hcnt.
  pose proof (midL_init c extra fs b L Hinv Hbs Hconf Hp) as Hmid0.
  destruct (run_histL inflate L (fault (src b)) c extra fs [] Hch m ms2 hist
              (init_rst b <| rlimit := L |>) fs [] [] ms1 Hhist Hmid0 eq_refl (fun rest => eq_refl) Hms Hcnt)
    as (outs & s1 & aft & done & Hrun & Hnp & Hlo & Hmid1 & Hfs & Hdone & Hmsa).
  { eapply Forall_impl; [|exact Hall]. cbv beta. intros x Hx. right. exact Hx. }
  destruct (midL_parts L (fault (src b)) c extra fs [] s1 aft Hmid1)
    as (_ & _ & _ & _ & _ & _ & _ & _ & _ & _ & Hseqa & _).
  destruct (msgs_cons_first _ _ aft m ms2 Hseqa Hmsa) as (p & a & Hfm & _).
  destruct (read_message_overL L (fault (src b)) c extra fs [] Hch s1 aft _ _ _ p a HL Hmid1 Hfm Hbig)
    as (done2 & prem & fj & rj & y & s' & H0 & H1 & H2 & H3 & H4 & H5 & H6 & H7 & Hrm & H8 & H9 & H10 & H11 & H12 & H13).
  assert (done2 = done) by (rewrite Hfs in H0; exact (eq_sym (app_inv_tail _ _ _ H0))). subst done2.
  exists outs, (done ++ prem), fj, rj, (dpay prem), y, (s' <| opidx := S (opidx s') |>).
  split; [rewrite Hfs, H1, <- app_assoc; reflexivity|]. split; [exact H2|].
  split; [change (data_msgs (events_of (done ++ prem))) with (msgs (done ++ prem));
          rewrite Hdone, H3, app_nil_r; reflexivity|].
  split; [exact H4|]. split; [exact H5|]. split; [exact H6|]. split; [exact H7|].
  split.
  { rewrite (run_ops_app inflate c _ _ _ _ [OReadMessage] Hrun Hnp).
    cbn [run_ops]. unfold rstep. rewrite (Hrm inflate). reflexivity. }
  split; [exact Hlo|]. split; [exact Hnp|]. rsimpl.
  split; [exact H8|]. split; [exact H13|]. split; [exact H9|]. split; [exact H10|]. split; [exact H11|].
  intros ops. apply (errors_are_permanent inflate c ops _ RReadLimit). exact H9.
Qed.

Theorem read_messages_over_limit_any_history :
  forall inflate c b fs extra L ms1 m ms2 hist,
    custom_handlers c = false -> binv b -> (125 <= bsize b)%nat ->
    conformant_frames c fs -> pending b = encode_frames fs ++ extra ->
    0 < L -> data_msgs (events_of fs) = ms1 ++ m :: ms2 ->
    Forall (fun x => blen (snd x) <= L) ms1 -> L < blen (snd m) ->
    Forall hist_op hist -> list_sum (map starts hist) = length ms1 ->
    exists outs seen fj rj d' y s',
      fs = seen ++ fj :: rj /\ is_control (opcode fj) = false /\
      data_msgs (events_of seen) = ms1 /\
      snd m = d' ++ payload fj ++ y /\ blen d' <= L /\ L < blen d' + plen fj /\
      (is_data_op (opcode fj) = true -> d' = []) /\
      run_ops inflate c (init_rst b <| rlimit := L |>) (hist ++ [OReadMessage]) =
        (outs ++ [RMsg (if is_data_op (opcode fj) then 0 else fst (fst m)) d' (Some RReadLimit)], s') /\
      length outs = length hist /\ ~ In RPanic outs /\
      wlog s' = map WPong (pings_of seen) ++ [WCloseTooBig] /\
      pending (br s') = wire_payload fj ++ encode_frames rj ++ extra /\
      rerror s' = Some RReadLimit /\ closesent s' = true /\ outoffuel s' = false /\
      (forall ops, exists rs s'', run_ops inflate c s' ops = (rs, s'') /\
                                  frozen s' s'' /\ Forall is_failure rs).
Proof.
  intros inflate c b fs extra L ms1 m ms2 hist Hch Hinv Hbs Hconf Hp HL Hms Hall Hbig Hhist Hcnt.
  destruct (uncompressed_split c fs ms1 m ms2 inflate Hconf Hms) as (_ & Hm).
  destruct (read_messages_over_limitZ_any_history inflate c b fs extra L ms1 m ms2 hist Hch Hinv Hbs
              (conformant_frames_Z c fs Hconf) Hp HL Hms Hall Hbig Hhist Hcnt)
    as (outs & seen & fj & rj & d' & y & s' & H1 & H2 & H3 & H4 & H5 & H6 & H7 & Hrun & H8).
  exists outs, seen, fj, rj, d', y, s'. rewrite Hm in Hrun. auto 12.
Qed.

(* ============================== part I ============================== *)
(* ============================================================================================ *)
(* Sanity checks by computation (non-vacuity).  A server reads three messages under limit 10:   *)
(* a 5-byte text, a binary message in fragments 4 + 4 + 3 (over the limit by ONE byte, in its   *)
(* third fragment), a 2-byte text; a ping between the messages and one inside the second.       *)
(* Nothing follows the frames and the transport fault is not EOF.                               *)
(* ============================================================================================ *)
Module LimitRunDemo.
Definition k1 := [1;2;3;4]. Definition k2 := [9;8;7;6].
Definition cfg : rcfg :=
  {| server := true; negotiated := false; custom_handlers := false; handler_fail := []; caps := [3;7] |}.
Definition f3 : frame := mkf true 0 0 (Some k1) [9;10;11].
Definition fs_seen : list frame :=
 [ mkf true 1 0 (Some k1) [1;2;3;4;5];
   mkf true 9 0 (Some k2) [104];
   mkf false 2 0 (Some k2) [1;2;3;4];
   mkf true 9 0 (Some k1) [105];
   mkf false 0 0 (Some k1) [5;6;7;8] ].
Definition fs_rest : list frame :=
 [ mkf true 9 0 (Some k2) [106];
   mkf true 1 0 (Some k2) [7;7] ].
Definition fs_all : list frame := fs_seen ++ f3 :: fs_rest.
Definition stream : bytes := encode_frames fs_all.
Definition b0 : bufio :=
  mk_bufio 125 [] {| chunks := [firstn 5 stream; firstn 30 (skipn 5 stream); skipn 35 stream];
                     fault := EOther; glued := false |}.
Definition ms1 : list (N * bool * bytes) := [(1, false, [1;2;3;4;5])].
Definition m : N * bool * bytes := (2, false, [1;2;3;4;5;6;7;8;9;10;11]).
Definition ms2 : list (N * bool * bytes) := [(1, false, [7;7])].

Example run_computed :
  let r := run_ops (fun _ => None) cfg (init_rst b0 <| rlimit := 10 |>) (repeat OReadMessage 4) in
  fst r = [RMsg 1 [1;2;3;4;5] None;
           RMsg 2 [1;2;3;4;5;6;7;8] (Some RReadLimit);
           RMsg 0 [] (Some RReadLimit); RMsg 0 [] (Some RReadLimit)] /\
  wlog (snd r) = [WPong [104]; WPong [105]; WCloseTooBig] /\
  pending (br (snd r)) = wire_payload f3 ++ encode_frames fs_rest.
Proof. vm_compute. repeat split; reflexivity. Qed.

Lemma b0_binv : binv b0.
Proof.
  unfold binv. vm_compute. split; [lia|]. split; [lia|]. split.
  - repeat constructor; discriminate.
  - intros k H. discriminate H.
Qed.

Lemma fs_all_conformant : conformant_frames cfg fs_all.
Proof.
  split; [|split; vm_compute; reflexivity].
  repeat (apply Forall_cons; [vm_compute; repeat split; reflexivity|]); apply Forall_nil.
Qed.

(* the hypotheses of [read_messages_over_limit] hold ... *)
Example hyps :
  custom_handlers cfg = false /\ binv b0 /\ (125 <= bsize b0)%nat /\ conformant_frames cfg fs_all /\
  pending b0 = encode_frames fs_all ++ [] /\ data_msgs (events_of fs_all) = ms1 ++ m :: ms2 /\
  Forall (fun x => blen (snd x) <= 10) ms1 /\ 10 < blen (snd m).
Proof.
  split; [reflexivity|]. split; [exact b0_binv|]. split; [vm_compute; lia|].
  split; [exact fs_all_conformant|]. split; [vm_compute; reflexivity|]. split; [vm_compute; reflexivity|].
  split; [repeat constructor; vm_compute; discriminate|vm_compute; reflexivity].
Qed.

(* ... and its conclusion, instantiated, is what the computation gives: the frame at which the
   reader stops is [f3], the frames seen before it are [fs_seen] *)
Example via_theorem :
  exists seen fj rj d' y s',
    fs_all = seen ++ fj :: rj /\ data_msgs (events_of seen) = ms1 /\
    snd m = d' ++ payload fj ++ y /\
    run_ops (fun _ => None) cfg (init_rst b0 <| rlimit := 10 |>) (repeat OReadMessage (1 + 1 + 2)) =
      (map out_of ms1 ++ [RMsg (if is_data_op (opcode fj) then 0 else 2) d' (Some RReadLimit)] ++
       repeat (RMsg 0 [] (Some RReadLimit)) 2, s') /\
    wlog s' = map WPong (pings_of seen) ++ [WCloseTooBig] /\
    pending (br s') = wire_payload fj ++ encode_frames rj ++ [].
Proof.
  destruct hyps as (H1 & H2 & H3 & H4 & H5 & H6 & H7 & H8).
  destruct (read_messages_over_limit (fun _ => None) cfg b0 fs_all [] 10 ms1 m ms2 2
              H1 H2 H3 H4 H5 eq_refl H6 H7 H8 ltac:(lia))
    as (seen & fj & rj & d' & y & s' & A1 & A2 & A3 & A4 & A5 & A6 & A7 & A8 & A9 & A10 & _).
  exists seen, fj, rj, d', y, s'. auto 10.
Qed.

(* any history: the first message is opened, two of its bytes are read, one Read goes to a stale
   reader, and the message is abandoned; the ReadMessage that follows fails at the same frame
   with the same bytes and the same log *)
Example history_computed :
  let r := run_ops (fun _ => None) cfg (init_rst b0 <| rlimit := 10 |>)
             ([ONext; ORead 2; OReadStale 7] ++ [OReadMessage]) in
  fst r = [RNext 1 None; RData [1;2] None; RData [] (Some RIoEOF);
           RMsg 2 [1;2;3;4;5;6;7;8] (Some RReadLimit)] /\
  wlog (snd r) = [WPong [104]; WPong [105]; WCloseTooBig] /\
  pending (br (snd r)) = wire_payload f3 ++ encode_frames fs_rest.
Proof. vm_compute. repeat split; reflexivity. Qed.

Example history_via_theorem :
  exists outs seen fj rj d' s',
    fs_all = seen ++ fj :: rj /\ data_msgs (events_of seen) = ms1 /\
    run_ops (fun _ => None) cfg (init_rst b0 <| rlimit := 10 |>)
      ([ONext; ORead 2; OReadStale 7] ++ [OReadMessage]) =
      (outs ++ [RMsg (if is_data_op (opcode fj) then 0 else 2) d' (Some RReadLimit)], s') /\
    length outs = 3%nat /\
    wlog s' = map WPong (pings_of seen) ++ [WCloseTooBig] /\
    pending (br s') = wire_payload fj ++ encode_frames rj ++ [].
Proof.
  destruct hyps as (H1 & H2 & H3 & H4 & H5 & H6 & H7 & H8).
  destruct (read_messages_over_limit_any_history (fun _ => None) cfg b0 fs_all [] 10 ms1 m ms2
              [ONext; ORead 2; OReadStale 7] H1 H2 H3 H4 H5 eq_refl H6 H7 H8)
    as (outs & seen & fj & rj & d' & y & s' & A1 & A2 & A3 & A4 & A5 & A6 & A7 & A8 & A9 & A10 & A11 & A12 & _).
  { repeat constructor. }
  { reflexivity. }
  exists outs, seen, fj, rj, d', s'. auto 10.
Qed.

(* the same stream, the second message compressed (RSV1 on its first frame), compression
   negotiated: ErrReadLimit at the same frame, NOTHING of the message is delivered *)
Definition cfgZ : rcfg :=
  {| server := true; negotiated := true; custom_handlers := false; handler_fail := []; caps := [3;7] |}.
Definition fs_seenZ : list frame :=
 [ mkf true 1 0 (Some k1) [1;2;3;4;5];
   mkf true 9 0 (Some k2) [104];
   mkf false 2 4 (Some k2) [1;2;3;4];
   mkf true 9 0 (Some k1) [105];
   mkf false 0 0 (Some k1) [5;6;7;8] ].
Definition fs_allZ : list frame := fs_seenZ ++ f3 :: fs_rest.
Definition streamZ : bytes := encode_frames fs_allZ.
Definition b0Z : bufio :=
  mk_bufio 125 [] {| chunks := [firstn 7 streamZ; skipn 7 streamZ]; fault := ETimeout; glued := false |}.

Example run_computedZ :
  let r := run_ops (fun _ => Some [42]) cfgZ (init_rst b0Z) (OSetLimit 10 :: repeat OReadMessage 3) in
  fst r = [RUnit; RMsg 1 [1;2;3;4;5] None;
           RMsg 2 [] (Some RReadLimit); RMsg 0 [] (Some RReadLimit)] /\
  wlog (snd r) = [WPong [104]; WPong [105]; WCloseTooBig] /\
  pending (br (snd r)) = wire_payload f3 ++ encode_frames fs_rest.
Proof. vm_compute. repeat split; reflexivity. Qed.

Lemma fs_allZ_conformant : conformant_framesZ cfgZ fs_allZ.
Proof.
  split; [|split; vm_compute; reflexivity].
  repeat (apply Forall_cons; [vm_compute; repeat split; reflexivity|]); apply Forall_nil.
Qed.

Example hypsZ :
  data_msgs (events_of fs_allZ) = ms1 ++ (2, true, snd m) :: ms2 /\ binv b0Z /\
  pending b0Z = encode_frames fs_allZ ++ [].
Proof.
  split; [vm_compute; reflexivity|]. split; [|vm_compute; reflexivity].
  unfold binv. vm_compute. split; [lia|]. split; [lia|]. split.
  - repeat constructor; discriminate.
  - intros k H. discriminate H.
Qed.

(* the first frame of a message alone over the limit: NextReader fails, type 0 *)
Example first_frame_over :
  let fs := [mkf true 9 0 (Some k2) [104]; mkf false 1 0 (Some k1) [1;2;3;4;5;6;7;8;9;10;11];
             mkf true 0 0 (Some k1) [12]] in
  let b := mk_bufio 125 [] {| chunks := [encode_frames fs]; fault := EEOF; glued := true |} in
  let r := run_ops (fun _ => None) cfg (init_rst b <| rlimit := 10 |>) (repeat OReadMessage 2) in
  fst r = [RMsg 0 [] (Some RReadLimit); RMsg 0 [] (Some RReadLimit)] /\
  wlog (snd r) = [WPong [104]; WCloseTooBig] /\
  pending (br (snd r)) = wire_payload (mkf false 1 0 (Some k1) [1;2;3;4;5;6;7;8;9;10;11]) ++
                         encode_frame (mkf true 0 0 (Some k1) [12]).
Proof. vm_compute. repeat split; reflexivity. Qed.

(* the bound n < 999 of the theorems is the documented panic: when the frame over the limit is the
   FIRST frame of its message every failing call, the first one included, is a failed NextReader,
   and the 1000th of them panics (n = 999 would be that call) *)
Example panic_at_1000th_failure :
  let fs := [mkf true 2 0 (Some k1) [1;2;3;4;5;6;7;8;9;10;11]] in
  let b := mk_bufio 125 [] {| chunks := [encode_frames fs]; fault := EEOF; glued := false |} in
  let r := run_ops (fun _ => None) cfg (init_rst b <| rlimit := 10 |>) (repeat OReadMessage (0 + 1 + 999)) in
  firstn 999 (fst r) = repeat (RMsg 0 [] (Some RReadLimit)) 999 /\ skipn 999 (fst r) = [RPanic].
Proof. vm_compute. split; reflexivity. Qed.
End LimitRunDemo.

Print Assumptions read_message_limitR.
Print Assumptions first_msgZ_pre.
Print Assumptions first_over.
Print Assumptions run_over_limitZ.
Print Assumptions read_messages_over_limitZ.
Print Assumptions read_messages_over_limitZ_set.
Print Assumptions read_messages_over_limit.
Print Assumptions read_messages_over_limit_set.
Print Assumptions read_messages_within_limitZ.
Print Assumptions read_messages_within_limitZ_conformant.
Print Assumptions read_messages_within_limit.
Print Assumptions limit_invisible_within.
Print Assumptions read_messages_over_limitZ_any_history.
Print Assumptions read_messages_over_limit_any_history.
Print Assumptions LimitRunDemo.run_computed.
Print Assumptions LimitRunDemo.hyps.
Print Assumptions LimitRunDemo.via_theorem.
Print Assumptions LimitRunDemo.history_computed.
Print Assumptions LimitRunDemo.history_via_theorem.
Print Assumptions LimitRunDemo.run_computedZ.
Print Assumptions LimitRunDemo.hypsZ.
Print Assumptions LimitRunDemo.first_frame_over.
Print Assumptions LimitRunDemo.panic_at_1000th_failure.
