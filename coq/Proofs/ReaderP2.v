(* Part 2: advanceFrame on one well-formed, acceptable frame (all three length forms, both
   roles): header step, extended length, mask key, data frames and control frames. *)
Require Import WS.Base.Bytes WS.gen.Consts WS.Spec.Frame WS.Spec.Conformance WS.Model.Bufio
  WS.Model.Reader WS.Proofs.BufioP WS.Proofs.FrameP.
From RecordUpdate Require Import RecordSet.
Import RecordSetNotations.
Require Import WS.Proofs.ReaderP1.
Ltac Zify.zify_post_hook ::= Z.div_mod_to_equations.

(* compute the projections of (nested) record updates; never touches arithmetic *)
Ltac rsimpl :=
  cbn [set br rem rfin rlen rlimit rkey mpos rerror errcount rdecomp cur nextid opidx
       hcount hlog wlog closesent outoffuel].
Ltac rsimpl_in H :=
  cbn [set br rem rfin rlen rlimit rkey mpos rerror errcount rdecomp cur nextid opidx
       hcount hlog wlog closesent outoffuel] in H.

Lemma set_br_id (s:rst) : s <| br := br s |> = s.
Proof. destruct s; reflexivity. Qed.

(* ---------- the invariant carried through everything ---------- *)
Definition rinv (k:errk) (s:rst) : Prop :=
  binv (br s) /\ (125 <= bsize (br s))%nat /\ fault (src (br s)) = k /\
  rerror s = None /\ outoffuel s = false /\ closesent s = false /\ rlimit s = 0 /\
  errcount s = 0%nat.

Lemma rinv_upd k s s' : rinv k s ->
  binv (br s') -> bsize (br s') = bsize (br s) -> fault (src (br s')) = fault (src (br s)) ->
  rerror s' = rerror s -> outoffuel s' = outoffuel s -> closesent s' = closesent s ->
  rlimit s' = rlimit s -> errcount s' = errcount s -> rinv k s'.
Proof.
  intros (H1 & H2 & H3 & H4 & H5 & H6 & H7 & H8) A B C D E F G H. unfold rinv.
  rewrite B, C, D, E, F, G, H. auto 12.
Qed.

(* the payload bytes as the application sees them *)
Definition unmask (c:rcfg) (s:rst) (l:bytes) : bytes :=
  if server c then maskl (rkey s) (mpos s) l else l.

(* ---------- c.read(n) with enough bytes ---------- *)
Lemma firstn_app_exact (p rest:bytes) n : length p = n -> firstn n (p ++ rest) = p.
Proof. intros <-. rewrite firstn_app, Nat.sub_diag, firstn_all. cbn [firstn]. apply app_nil_r. Qed.
Lemma skipn_app_exact (p rest:bytes) n : length p = n -> skipn n (p ++ rest) = rest.
Proof. intros <-. rewrite skipn_app, Nat.sub_diag, skipn_all. reflexivity. Qed.

Lemma rd_app n s p rest :
  binv (br s) -> (n <= bsize (br s))%nat -> pending (br s) = p ++ rest -> length p = n ->
  exists b', rd n s = (p, None, s <| br := b' |>) /\ pending b' = rest /\ binv b' /\
    bsize b' = bsize (br s) /\ fault (src b') = fault (src (br s)).
Proof.
  intros Hinv Hn Hp Hl.
  assert (Hlen : (n <= length (pending (br s)))%nat) by (rewrite Hp, app_length; lia).
  destruct (peek_discard_enough n (br s) Hinv Hn Hlen) as (b' & Hpd & Hp' & Hinv' & Hbs & Hfl).
  exists b'. unfold rd. rewrite Hpd. rewrite Hp in *.
  rewrite firstn_app_exact by exact Hl. rewrite skipn_app_exact in Hp' by exact Hl.
  auto.
Qed.

(* ---------- advanceFrame steps 2-7 cut into stages (definitional copies of the model) -------- *)
Definition aas5 (c:rcfg) (op len:N) (s:rst) : adv * rst :=
  let isdata := (op =? c_TextMessage) || (op =? c_BinaryMessage) in
  let iscont := op =? c_continuationFrame in
  if iscont || isdata then
    let rl := rlen s + len in
    let s := s <| rlen := rl |> in
    if 2^63 <=? rl then (AErr RReadLimit, send WCloseTooBig s)
    else if (0 <? rlimit s) && (rlimit s <? rl) then (AErr RReadLimit, send WCloseTooBig s)
    else (AFrame op, s)
  else
  let '(pl, e, s) := if 0 <? len then rd (N.to_nat len) s else ([], None, s) in
  let s := s <| rem := 0 |> in
  match e with Some e => (AErr e, s) | None =>
  let pl := if server c then maskl (rkey s) 0 pl else pl in
  if op =? c_PongMessage then
    if custom_handlers c then
      let s := s <| hlog := hlog s ++ [HPong (opidx s) pl] |> in
      let '(r, s) := handler_result c s in
      match r with Some e => (AErr e, s) | None => (AFrame op, s) end
    else (AFrame op, s)
  else if op =? c_PingMessage then
    if custom_handlers c then
      let s := s <| hlog := hlog s ++ [HPing (opidx s) pl] |> in
      let '(r, s) := handler_result c s in
      match r with Some e => (AErr e, s) | None => (AFrame op, s) end
    else (AFrame op, send (WPong pl) s)
  else
    let has_body := 2 <=? blen pl in
    let code := if has_body then be_dec (firstn 2 pl) else c_CloseNoStatusReceived in
    let text := if has_body then skipn 2 pl else [] in
    if has_body && negb (is_valid_received_close_code code) then protocol_error s
    else if has_body && negb (WS.Spec.Utf8.utf8_valid text) then protocol_error s
    else if custom_handlers c then
      let s := s <| hlog := hlog s ++ [HClose (opidx s) code text] |> in
      let '(r, s) := handler_result c s in
      match r with Some e => (AErr e, s) | None => (AErr (RClose code text), s) end
    else (AErr (RClose code text), send (WCloseEcho (format_close code)) s)
  end.

Definition aas4 (c:rcfg) (op:N) (mask:bool) (len:N) (s:rst) : adv * rst :=
  let s := s <| rem := len |> in
  let '(kr, s) :=
     if mask then
       let s := s <| mpos := 0 |> in
       let '(p, e, s) := rd 4 s in
       match e with Some e => (Some e, s) | None => (None, s <| rkey := p |>) end
     else (None, s) in
  match kr with Some e => (AErr e, s) | None => aas5 c op len s end.

Definition aas3 (c:rcfg) (op:N) (mask:bool) (len7:N) (s:rst) : adv * rst :=
  let '(lenr, s) :=
     if len7 =? 126 then
       let '(p, e, s) := rd 2 s in
       (match e with Some e => inr e | None => inl (be_dec p) end, s)
     else if len7 =? 127 then
       let '(p, e, s) := rd 8 s in
       match e with
       | Some e => (inr e, s)
       | None => if 2^63 <=? be_dec p then (inr RReadLimit, send WCloseTooBig s) else (inl (be_dec p), s)
       end
     else (inl len7, s) in
  match lenr with inr e => (AErr e, s) | inl len => aas4 c op mask len s end.

Definition aas2 (c:rcfg) (b0 b1:N) (s:rst) : adv * rst :=
  let op := N.land b0 15 in
  let final := bit b0 c_finalBit in
  let rsv1 := bit b0 c_rsv1Bit in
  let mask := bit b1 c_maskBit in
  let len7 := N.land b1 127 in
  let s := s <| rem := len7 |> <| rdecomp := rsv1 && negotiated c |> in
  let isdata := (op =? c_TextMessage) || (op =? c_BinaryMessage) in
  let iscont := op =? c_continuationFrame in
  let reject := hdr_reject c (rfin s) b0 b1 in
  let s := if isdata then s <| rfin := final |> <| rlen := 0 |>
           else if iscont then s <| rfin := final |> else s in
  if reject then protocol_error s else aas3 c op mask len7 s.

Lemma aas_unfold c s :
  advance_after_skip c s =
  match rd 2 s with
  | (p, Some e, s1) => (AErr e, s1)
  | (p, None, s1) => aas2 c (nth 0 p 0) (nth 1 p 0) s1
  end.
Proof. unfold advance_after_skip. destruct (rd 2 s) as [[p [e|]] s1]; reflexivity. Qed.

(* ---------- bit-level facts in the model's vocabulary ---------- *)
Lemma bit_fin f : wf_frame f -> bit (hdr_b0 f) c_finalBit = fin f.
Proof. intros H. unfold bit, c_finalBit. rewrite (hdr_b0_fin f H). apply negb_involutive. Qed.

Lemma bit_rsv f : wf_frame f -> rsv f = 0 ->
  bit (hdr_b0 f) c_rsv1Bit = false /\ bit (hdr_b0 f) c_rsv2Bit = false /\ bit (hdr_b0 f) c_rsv3Bit = false.
Proof.
  intros H E. destruct (hdr_b0_rsv_zero f H E) as (H1 & H2 & H3).
  unfold bit, c_rsv1Bit, c_rsv2Bit, c_rsv3Bit. rewrite H1, H2, H3. auto.
Qed.

Lemma bit_mask f : bit (hdr_b1 f) c_maskBit = is_some (mkey f).
Proof. unfold bit, c_maskBit. rewrite hdr_b1_mask. destruct (mkey f); reflexivity. Qed.

Lemma hdr_reject_ok c fs f : wf_frame f -> frame_acc (server c) (negb fs) f = true ->
  hdr_reject c fs (hdr_b0 f) (hdr_b1 f) = false.
Proof.
  intros Hwf Hacc. destruct (frame_acc_facts _ _ _ Hacc) as (Hr & Hm & Hcases).
  destruct (bit_rsv f Hwf Hr) as (R1 & R2 & R3).
  unfold hdr_reject. cbv zeta.
  rewrite R1, R2, R3, (bit_fin f Hwf), bit_mask, (hdr_b0_opcode f Hwf), hdr_b1_len7, Hm.
  rewrite eqb_reflx. cbn [andb orb negb].
  unfold c_CloseMessage, c_PingMessage, c_PongMessage, c_TextMessage, c_BinaryMessage,
    c_continuationFrame, c_maxControlFramePayloadSize.
  destruct Hcases as [(Ho & Hf & Hl)|[(Ho & Hop)|(Ho & Hop)]].
  - replace ((opcode f =? 8) || (opcode f =? 9) || (opcode f =? 10)) with true by lia.
    destruct (len7_small f) as [Hl7 _]; [lia|]. rewrite Hl7, Hf.
    replace (125 <? plen f) with false by lia. reflexivity.
  - replace ((opcode f =? 8) || (opcode f =? 9) || (opcode f =? 10)) with false by lia.
    replace ((opcode f =? 1) || (opcode f =? 2)) with true by lia.
    destruct fs; [reflexivity|discriminate Hop].
  - replace ((opcode f =? 8) || (opcode f =? 9) || (opcode f =? 10)) with false by lia.
    replace ((opcode f =? 1) || (opcode f =? 2)) with false by lia.
    replace (opcode f =? 0) with true by lia.
    destruct fs; [discriminate Hop|reflexivity].
Qed.

(* ---------- stage 2: the two fixed header bytes ---------- *)
Definition hdr_state (f:frame) (s:rst) : rst :=
  let s2 := s <| rem := len7 f |> <| rdecomp := false |> in
  if (opcode f =? 1) || (opcode f =? 2) then s2 <| rfin := fin f |> <| rlen := 0 |>
  else if opcode f =? 0 then s2 <| rfin := fin f |> else s2.

Lemma aas2_ok c f s : wf_frame f -> frame_acc (server c) (negb (rfin s)) f = true ->
  aas2 c (hdr_b0 f) (hdr_b1 f) s = aas3 c (opcode f) (is_some (mkey f)) (len7 f) (hdr_state f s).
Proof.
  intros Hwf Hacc. destruct (frame_acc_facts _ _ _ Hacc) as (Hr & _ & _).
  destruct (bit_rsv f Hwf Hr) as (R1 & _ & _).
  unfold aas2. cbv zeta.
  rewrite R1, (bit_fin f Hwf), bit_mask, (hdr_b0_opcode f Hwf), hdr_b1_len7.
  cbn [andb].
  replace (rfin (s <| rem := len7 f |> <| rdecomp := false |>)) with (rfin s) by reflexivity.
  rewrite (hdr_reject_ok c (rfin s) f Hwf Hacc).
  reflexivity.
Qed.

(* ---------- stage 3: extended length ---------- *)
Lemma aas3_ok c op mask f s rest :
  binv (br s) -> (125 <= bsize (br s))%nat -> plen f < 2^63 ->
  pending (br s) = ext_bytes f ++ rest ->
  exists b', aas3 c op mask (len7 f) s = aas4 c op mask (plen f) (s <| br := b' |>) /\
    pending b' = rest /\ binv b' /\ bsize b' = bsize (br s) /\ fault (src b') = fault (src (br s)).
Proof.
  intros Hinv Hbs Hlt Hp. unfold aas3.
  destruct (N.ltb_spec (plen f) 126) as [Hs|Hs]; [|destruct (N.ltb_spec (plen f) 65536) as [Hm|Hm]].
  - destruct (len7_small f Hs) as [H7 He]. rewrite H7.
    replace (plen f =? 126) with false by lia. replace (plen f =? 127) with false by lia.
    exists (br s). rewrite set_br_id. rewrite He in Hp. cbn [app] in Hp. auto.
  - destruct (len7_126 f Hs Hm) as [H7 He]. rewrite H7.
    change (126 =? 126) with true. cbv iota.
    assert (Hl : length (ext_bytes f) = 2%nat) by (rewrite He; apply be_enc_length).
    destruct (rd_app 2 s (ext_bytes f) rest Hinv ltac:(lia) Hp Hl) as (b' & Hrd & H').
    rewrite Hrd. cbv beta iota. rewrite ext_bytes_dec by lia.
    exists b'. split; [reflexivity|exact H'].
  - destruct (len7_127 f Hm) as [H7 He]. rewrite H7.
    change (127 =? 126) with false. change (127 =? 127) with true. cbv iota.
    assert (Hl : length (ext_bytes f) = 8%nat) by (rewrite He; apply be_enc_length).
    destruct (rd_app 8 s (ext_bytes f) rest Hinv ltac:(lia) Hp Hl) as (b' & Hrd & H').
    rewrite Hrd. cbv beta iota. rewrite ext_bytes_dec by lia.
    replace (2^63 <=? plen f) with false by lia.
    exists b'. split; [reflexivity|exact H'].
Qed.

(* ---------- stage 4: mask key ---------- *)
Lemma aas4_masked c op len s k rest :
  binv (br s) -> (125 <= bsize (br s))%nat -> length k = 4%nat ->
  pending (br s) = k ++ rest ->
  exists b', aas4 c op true len s =
             aas5 c op len (s <| rem := len |> <| mpos := 0 |> <| br := b' |> <| rkey := k |>) /\
    pending b' = rest /\ binv b' /\ bsize b' = bsize (br s) /\ fault (src b') = fault (src (br s)).
Proof.
  intros Hinv Hbs Hk Hp. unfold aas4. cbv zeta. cbv iota.
  destruct (rd_app 4 (s <| rem := len |> <| mpos := 0 |>) k rest) as (b' & Hrd & H');
    [exact Hinv|change (4 <= bsize (br s))%nat; lia|exact Hp|exact Hk|].
  rewrite Hrd. cbv beta iota. exists b'. split; [reflexivity|exact H'].
Qed.

Lemma aas4_unmasked c op len s :
  aas4 c op false len s = aas5 c op len (s <| rem := len |>).
Proof. reflexivity. Qed.

(* ---------- stage 5: data frames ---------- *)
Lemma aas5_data c op len s :
  op = 0 \/ op = 1 \/ op = 2 -> rlimit s = 0 -> rlen s + len < 2^63 ->
  aas5 c op len s = (AFrame op, s <| rlen := rlen s + len |>).
Proof.
  intros Hop Hrl Hlen. unfold aas5. cbv zeta.
  unfold c_TextMessage, c_BinaryMessage, c_continuationFrame.
  replace ((op =? 0) || ((op =? 1) || (op =? 2))) with true by lia. cbv iota.
  replace (2^63 <=? rlen s + len) with false by lia.
  replace (rlimit (s <| rlen := rlen s + len |>)) with (rlimit s) by reflexivity.
  rewrite Hrl. change (0 <? 0) with false. reflexivity.
Qed.

(* ---------- stage 5: ping / pong with the default handlers ---------- *)
Lemma aas5_ctl c op len s wp rest :
  op = 9 \/ op = 10 -> custom_handlers c = false -> closesent s = false ->
  binv (br s) -> (125 <= bsize (br s))%nat -> len <= 125 -> blen wp = len ->
  pending (br s) = wp ++ rest ->
  exists b', pending b' = rest /\ binv b' /\ bsize b' = bsize (br s) /\
    fault (src b') = fault (src (br s)) /\
    aas5 c op len s =
      (AFrame op,
       let s1 := s <| br := b' |> <| rem := 0 |> in
       let pl := if server c then maskl (rkey s) 0 wp else wp in
       if op =? 9 then s1 <| wlog := wlog s ++ [WPong pl] |> <| closesent := false |> else s1).
Proof.
  intros Hop Hch Hcs Hinv Hbs Hlen Hwp Hp. unfold aas5. cbv zeta.
  unfold c_TextMessage, c_BinaryMessage, c_continuationFrame, c_PongMessage, c_PingMessage.
  replace ((op =? 0) || ((op =? 1) || (op =? 2))) with false by lia. cbv iota.
  rewrite Hch.
  assert (Hrd : exists b', (if 0 <? len then rd (N.to_nat len) s else ([], None, s))
                           = (wp, None, s <| br := b' |>) /\
            pending b' = rest /\ binv b' /\ bsize b' = bsize (br s) /\
            fault (src b') = fault (src (br s))).
  { destruct (N.ltb_spec 0 len) as [Hpos|Hz].
    - apply rd_app; [exact Hinv|lia|exact Hp|unfold blen in Hwp; lia].
    - exists (br s). rewrite set_br_id.
      assert (wp = []) by (destruct wp; [reflexivity|unfold blen in Hwp; cbn [length] in Hwp; lia]).
      subst wp. cbn [app] in Hp. auto. }
  destruct Hrd as (b' & Hrd & Hp' & Hinv' & Hbs' & Hfl').
  exists b'. split; [exact Hp'|]. split; [exact Hinv'|]. split; [exact Hbs'|]. split; [exact Hfl'|].
  rewrite Hrd. cbv beta iota.
  replace (rkey (s <| br := b' |> <| rem := 0 |>)) with (rkey s) by reflexivity.
  destruct Hop as [-> | ->].
  - change (9 =? 10) with false. change (9 =? 9) with true. cbv iota.
    unfold send.
    replace (closesent (s <| br := b' |> <| rem := 0 |>)) with (closesent s) by reflexivity.
    rewrite Hcs.
    replace (wlog (s <| br := b' |> <| rem := 0 |>)) with (wlog s) by reflexivity.
    reflexivity.
  - change (10 =? 10) with true. change (10 =? 9) with false. cbv iota. reflexivity.
Qed.

Opaque aas2 aas3 aas4 aas5.

(* ---------- advanceFrame on a data / continuation frame ---------- *)
Lemma encode_frame_split f rest :
  encode_frame f ++ rest =
  [hdr_b0 f; hdr_b1 f] ++ (ext_bytes f ++ (key_bytes f ++ (wire_payload f ++ rest))).
Proof. rewrite encode_frame_decomp. cbn [app]. rewrite <- !app_assoc. reflexivity. Qed.

Lemma advance_data k c s f rest :
  rinv k s -> wf_frame f -> frame_acc (server c) (negb (rfin s)) f = true ->
  is_control (opcode f) = false ->
  pending (br s) = encode_frame f ++ rest ->
  (if opcode f =? 0 then rlen s else 0) + plen f < 2^63 ->
  exists s', advance_after_skip c s = (AFrame (opcode f), s') /\
    rinv k s' /\ rem s' = plen f /\ rfin s' = fin f /\
    rlen s' = (if opcode f =? 0 then rlen s else 0) + plen f /\
    pending (br s') = wire_payload f ++ rest /\
    unmask c s' (wire_payload f) = payload f /\
    rdecomp s' = false /\ wlog s' = wlog s.
Proof.
  intros Hrinv Hwf Hacc Hctl Hp Hlen.
  pose proof Hrinv as (Hinv & Hbs & Hfl & Herr & Hoof & Hcs & Hrl & Hec).
  destruct (frame_acc_facts _ _ _ Hacc) as (Hr & Hm & Hcases).
  assert (Hop : opcode f = 0 \/ opcode f = 1 \/ opcode f = 2).
  { unfold is_control in Hctl. destruct Hcases as [(Ho & _)|[(Ho & _)|(Ho & _)]]; lia. }
  pose proof Hwf as (_ & _ & Hpl & Hkey).
  rewrite encode_frame_split in Hp.
  rewrite aas_unfold.
  destruct (rd_app 2 s _ _ Hinv ltac:(lia) Hp eq_refl) as (b1 & Hrd & Hp1 & Hinv1 & Hbs1 & Hfl1).
  rewrite Hrd. cbv iota. cbn [nth].
  rewrite aas2_ok; [|exact Hwf|exact Hacc].
  set (s1 := hdr_state f (s <| br := b1 |>)).
  assert (Es1 : br s1 = b1 /\ rfin s1 = fin f /\ rlen s1 = (if opcode f =? 0 then rlen s else 0) /\
                rlimit s1 = 0 /\ rerror s1 = None /\ outoffuel s1 = false /\ closesent s1 = false /\
                wlog s1 = wlog s /\ rdecomp s1 = false /\ errcount s1 = errcount s).
  { subst s1. unfold hdr_state. cbv zeta.
    destruct Hop as [Ho|[Ho|Ho]]; rewrite Ho;
      [change ((0 =? 1) || (0 =? 2)) with false; change (0 =? 0) with true
      |change ((1 =? 1) || (1 =? 2)) with true; change (1 =? 0) with false
      |change ((2 =? 1) || (2 =? 2)) with true; change (2 =? 0) with false];
      cbv iota; rsimpl; auto 12. }
  destruct Es1 as (E1 & E2 & E3 & E4 & E5 & E6 & E7 & E8 & E9 & E10).
  destruct (aas3_ok c (opcode f) (is_some (mkey f)) f s1 (key_bytes f ++ (wire_payload f ++ rest)))
    as (b2 & H3 & Hp2 & Hinv2 & Hbs2 & Hfl2);
    [rewrite E1; exact Hinv1|rewrite E1; lia|exact Hpl|rewrite E1; exact Hp1|].
  rewrite H3. rewrite E1 in Hbs2, Hfl2.
  destruct (mkey f) as [key|] eqn:Ek.
  - (* masked *)
    cbn [is_some]. unfold key_bytes in Hp2. rewrite Ek in Hp2.
    destruct (aas4_masked c (opcode f) (plen f) (s1 <| br := b2 |>) key (wire_payload f ++ rest))
      as (b3 & H4 & Hp3 & Hinv3 & Hbs3 & Hfl3);
      [exact Hinv2|change (125 <= bsize b2)%nat; lia|exact Hkey|exact Hp2|].
    rewrite H4. change (bsize (br (s1 <| br := b2 |>))) with (bsize b2) in Hbs3.
    change (fault (src (br (s1 <| br := b2 |>)))) with (fault (src b2)) in Hfl3.
    rewrite aas5_data; [|exact Hop|rsimpl; exact E4|rsimpl; rewrite E3; exact Hlen].
    eexists. split; [reflexivity|].
    split.
    { apply (rinv_upd k s); [exact Hrinv| | | |rsimpl; congruence ..]; rsimpl;
        [exact Hinv3|congruence|congruence]. }
    rsimpl. rewrite E2, E3, E8, E9.
    repeat split; try reflexivity; try assumption.
    unfold unmask. rsimpl. cbn [is_some] in Hm. rewrite <- Hm. apply unmask_wire. exact Ek.
  - (* unmasked *)
    cbn [is_some]. unfold key_bytes in Hp2. rewrite Ek in Hp2. cbn [app] in Hp2.
    rewrite aas4_unmasked.
    rewrite aas5_data; [|exact Hop|rsimpl; exact E4|rsimpl; rewrite E3; exact Hlen].
    eexists. split; [reflexivity|].
    split.
    { apply (rinv_upd k s); [exact Hrinv| | | |rsimpl; congruence ..]; rsimpl;
        [exact Hinv2|congruence|congruence]. }
    rsimpl. rewrite E2, E3, E8, E9.
    repeat split; try reflexivity; try assumption.
    unfold unmask. cbn [is_some] in Hm. rewrite <- Hm. apply wire_payload_unmasked. exact Ek.
Qed.

(* ---------- advanceFrame on a ping / pong ---------- *)
Lemma advance_ctl k c s f rest :
  rinv k s -> custom_handlers c = false -> wf_frame f ->
  frame_acc (server c) (negb (rfin s)) f = true ->
  is_control (opcode f) = true ->
  pending (br s) = encode_frame f ++ rest ->
  exists s', advance_after_skip c s = (AFrame (opcode f), s') /\
    rinv k s' /\ rem s' = 0 /\ rfin s' = rfin s /\ rlen s' = rlen s /\
    pending (br s') = rest /\ wlog s' = wlog s ++ map WPong (ping1 f).
Proof.
  intros Hrinv Hch Hwf Hacc Hctl Hp.
  pose proof Hrinv as (Hinv & Hbs & Hfl & Herr & Hoof & Hcs & Hrl & Hec).
  destruct (frame_acc_facts _ _ _ Hacc) as (Hr & Hm & Hcases).
  assert (Hop : (opcode f = 9 \/ opcode f = 10) /\ fin f = true /\ plen f <= 125).
  { unfold is_control in Hctl. destruct Hcases as [H|[(Ho & _)|(Ho & _)]]; [exact H|lia|lia]. }
  destruct Hop as (Hop & Hfin & Hl125).
  pose proof Hwf as (_ & _ & Hpl & Hkey).
  rewrite encode_frame_split in Hp.
  rewrite aas_unfold.
  destruct (rd_app 2 s _ _ Hinv ltac:(lia) Hp eq_refl) as (b1 & Hrd & Hp1 & Hinv1 & Hbs1 & Hfl1).
  rewrite Hrd. cbv iota. cbn [nth].
  rewrite aas2_ok; [|exact Hwf|exact Hacc].
  set (s1 := hdr_state f (s <| br := b1 |>)).
  assert (Es1 : br s1 = b1 /\ rfin s1 = rfin s /\ rlen s1 = rlen s /\
                rlimit s1 = 0 /\ rerror s1 = None /\ outoffuel s1 = false /\ closesent s1 = false /\
                wlog s1 = wlog s /\ errcount s1 = errcount s).
  { subst s1. unfold hdr_state. cbv zeta.
    destruct Hop as [Ho|Ho]; rewrite Ho;
      [change ((9 =? 1) || (9 =? 2)) with false; change (9 =? 0) with false
      |change ((10 =? 1) || (10 =? 2)) with false; change (10 =? 0) with false];
      cbv iota; rsimpl; auto 12. }
  destruct Es1 as (E1 & E2 & E3 & E4 & E5 & E6 & E7 & E8 & E10).
  destruct (aas3_ok c (opcode f) (is_some (mkey f)) f s1 (key_bytes f ++ (wire_payload f ++ rest)))
    as (b2 & H3 & Hp2 & Hinv2 & Hbs2 & Hfl2);
    [rewrite E1; exact Hinv1|rewrite E1; lia|exact Hpl|rewrite E1; exact Hp1|].
  rewrite H3. rewrite E1 in Hbs2, Hfl2.
  assert (Hwl : blen (wire_payload f) = plen f) by apply wire_payload_blen.
  assert (Hpong : forall pl, (if opcode f =? 9 then [WPong pl] else []) = map WPong (if opcode f =? 9 then [pl] else [])).
  { intros pl. destruct (opcode f =? 9); reflexivity. }
  destruct (mkey f) as [key|] eqn:Ek.
  - (* masked: the reader is a server *)
    cbn [is_some] in *. unfold key_bytes in Hp2. rewrite Ek in Hp2.
    destruct (aas4_masked c (opcode f) (plen f) (s1 <| br := b2 |>) key (wire_payload f ++ rest))
      as (b3 & H4 & Hp3 & Hinv3 & Hbs3 & Hfl3);
      [exact Hinv2|change (125 <= bsize b2)%nat; lia|exact Hkey|exact Hp2|].
    rewrite H4. change (bsize (br (s1 <| br := b2 |>))) with (bsize b2) in Hbs3.
    change (fault (src (br (s1 <| br := b2 |>)))) with (fault (src b2)) in Hfl3.
    set (s3 := s1 <| br := b2 |> <| rem := plen f |> <| mpos := 0 |> <| br := b3 |> <| rkey := key |>).
    destruct (aas5_ctl c (opcode f) (plen f) s3 (wire_payload f) rest Hop Hch)
      as (b4 & Hp4 & Hinv4 & Hbs4 & Hfl4 & H5);
      [subst s3; rsimpl; exact E7|subst s3; rsimpl; exact Hinv3|subst s3; rsimpl; lia
      |exact Hl125|exact Hwl|subst s3; rsimpl; exact Hp3|].
    rewrite H5. cbv zeta.
    eexists. split; [reflexivity|].
    replace (bsize (br s3)) with (bsize b3) in Hbs4 by reflexivity.
    replace (fault (src (br s3))) with (fault (src b3)) in Hfl4 by reflexivity.
    replace (rkey s3) with key by reflexivity.
    replace (wlog s3) with (wlog s1) by reflexivity.
    rewrite <- Hm. rewrite (unmask_wire f key Ek).
    unfold ping1.
    destruct (opcode f =? 9); subst s3; rsimpl.
    + split.
      { apply (rinv_upd k s); [exact Hrinv| | | |rsimpl; congruence ..]; rsimpl;
          [exact Hinv4|congruence|congruence]. }
      rewrite E8. repeat split; try reflexivity; try assumption.
    + split.
      { apply (rinv_upd k s); [exact Hrinv| | | |rsimpl; congruence ..]; rsimpl;
          [exact Hinv4|congruence|congruence]. }
      rewrite E8, app_nil_r. repeat split; try reflexivity; try assumption.
  - (* unmasked: the reader is a client *)
    cbn [is_some] in *. unfold key_bytes in Hp2. rewrite Ek in Hp2. cbn [app] in Hp2.
    rewrite aas4_unmasked.
    set (s3 := s1 <| br := b2 |> <| rem := plen f |>).
    destruct (aas5_ctl c (opcode f) (plen f) s3 (wire_payload f) rest Hop Hch)
      as (b4 & Hp4 & Hinv4 & Hbs4 & Hfl4 & H5);
      [subst s3; rsimpl; exact E7|subst s3; rsimpl; exact Hinv2|subst s3; rsimpl; lia
      |exact Hl125|exact Hwl|subst s3; rsimpl; exact Hp2|].
    rewrite H5. cbv zeta.
    eexists. split; [reflexivity|].
    replace (bsize (br s3)) with (bsize b2) in Hbs4 by reflexivity.
    replace (fault (src (br s3))) with (fault (src b2)) in Hfl4 by reflexivity.
    replace (wlog s3) with (wlog s1) by reflexivity.
    rewrite <- Hm. rewrite (wire_payload_unmasked f Ek).
    unfold ping1.
    destruct (opcode f =? 9); subst s3; rsimpl.
    + split.
      { apply (rinv_upd k s); [exact Hrinv| | | |rsimpl; congruence ..]; rsimpl;
          [exact Hinv4|congruence|congruence]. }
      rewrite E8. repeat split; try reflexivity; try assumption.
    + split.
      { apply (rinv_upd k s); [exact Hrinv| | | |rsimpl; congruence ..]; rsimpl;
          [exact Hinv4|congruence|congruence]. }
      rewrite E8, app_nil_r. repeat split; try reflexivity; try assumption.
Qed.

(* advanceFrame proper: with nothing left of the previous frame, step 1 does nothing *)
Lemma advance_frame_rem0 c s : rem s = 0 -> advance_frame c s = advance_after_skip c s.
Proof. intros H. unfold advance_frame. rewrite H. change (0 <? 0) with false. reflexivity. Qed.

(* ---------- advanceFrame at the very end of the stream ---------- *)
Lemma rd_short n s :
  binv (br s) -> (n <= bsize (br s))%nat -> (length (pending (br s)) < n)%nat ->
  exists p b', rd n s = (p, Some (of_berror (BErr (fault (src (br s))))), s <| br := b' |>) /\
    pending b' = [] /\ binv b' /\ bsize b' = bsize (br s) /\ fault (src b') = fault (src (br s)).
Proof.
  intros Hinv Hn Hl.
  destruct (peek_discard_short n (br s) Hinv Hn Hl) as (p & b' & Hpd & H').
  exists p, b'. unfold rd. rewrite Hpd. auto.
Qed.

Lemma advance_end k c s :
  rinv k s -> pending (br s) = [] ->
  exists s', advance_after_skip c s = (AErr (of_berror (BErr k)), s') /\
    rinv k s' /\ rem s' = rem s /\ rfin s' = rfin s /\ wlog s' = wlog s /\ pending (br s') = [].
Proof.
  intros Hrinv Hp. pose proof Hrinv as (Hinv & Hbs & Hfl & Herr & Hoof & Hcs & Hrl & Hec).
  destruct (rd_short 2 s Hinv ltac:(lia) ltac:(rewrite Hp; cbn [length]; lia))
    as (p & b' & Hrd & Hp' & Hinv' & Hbs' & Hfl').
  rewrite aas_unfold, Hrd, Hfl. eexists. split; [reflexivity|].
  split; [apply (rinv_upd k s); [exact Hrinv|rsimpl; assumption ..|reflexivity|reflexivity|reflexivity|reflexivity|reflexivity]|].
  rsimpl. auto.
Qed.

Print Assumptions hdr_reject_ok.
Print Assumptions advance_data.
Print Assumptions advance_ctl.
Print Assumptions advance_end.
