(* Proofs about Model/Dial.v: handshake trace automata (C16) and the dial plan (C18). *)
From Coq Require Import String Ascii.
Require Import WS.Base.Bytes WS.Model.Util WS.Spec.Base64 WS.Model.Dial.

(* ================================================================== Part A: C16 traces *)

(* ---------------------------------------------------------------- generic list facts *)
Lemma last_cons_nonempty {A} (e:A) (r:list A) (d:A) : r <> [] -> last (e :: r) d = last r d.
Proof. destruct r; [congruence|reflexivity]. Qed.

Lemma ends_with_close_cons e r : r <> [] -> ends_with_close (e :: r) = ends_with_close r.
Proof. intros H. unfold ends_with_close. rewrite last_cons_nonempty by exact H. reflexivity. Qed.

Lemma app_cons_not_nil {A} (a:list A) (x:A) (b:list A) : a ++ x :: b <> [].
Proof. destruct a; discriminate. Qed.

(* ---------------------------------------------------------------- client automaton *)
Lemma crun_app dl eio p a b :
  crun dl eio p (a ++ b) = match crun dl eio p a with Some p' => crun dl eio p' b | None => None end.
Proof.
  revert p; induction a as [|e a IH]; intros p; simpl; [reflexivity|].
  destruct (cstep dl eio p e); [apply IH|reflexivity].
Qed.

(* the only event entering CClosed is HClose *)
Lemma cstep_closed_is_close dl eio p e : cstep dl eio p e = Some CClosed -> e = HClose.
Proof.
  destruct p, e as [ | |[|]|z|z| | ]; simpl; intros H; try discriminate; try reflexivity;
    destruct dl, eio; simpl in H; discriminate.
Qed.

(* HClose leads to CClosed (or is refused) *)
Lemma cstep_close_to_closed dl eio p q : cstep dl eio p HClose = Some q -> q = CClosed.
Proof. destruct p; simpl; intros H; inversion H; reflexivity. Qed.

(* the closed phases are absorbing *)
Definition closedp (p:cphase) : Prop := p = CClosed \/ p = CClosedW.
Lemma closed_stays dl eio tr : forall p q, closedp p -> crun dl eio p tr = Some q -> closedp q.
Proof.
  induction tr as [|e r IH]; simpl; intros p q Hp H; [inversion H; subst; exact Hp|].
  destruct Hp as [-> | ->]; destruct e as [ | |z|z|z| | ]; simpl in H; try discriminate;
    (eapply IH; [|exact H]); unfold closedp; auto.
Qed.

(* from CFaulted only CFaulted and the closed phases are reachable *)
Lemma faulted_end dl eio tr q : crun dl eio CFaulted tr = Some q -> q = CFaulted \/ closedp q.
Proof.
  induction tr as [|e r IH]; simpl; intros H; [inversion H; left; reflexivity|].
  destruct e as [ | |z|z|z| | ]; simpl in H; try discriminate; try (apply IH, H).
  right. eapply closed_stays; [|exact H]. left; reflexivity.
Qed.

(* a non-empty run that ends in CClosed ends with HClose *)
Lemma crun_closed_ends_with_close dl eio tr : forall p,
  crun dl eio p tr = Some CClosed -> tr <> [] -> ends_with_close tr = true.
Proof.
  induction tr as [|e r IH]; intros p H Hne; [congruence|].
  simpl in H. destruct (cstep dl eio p e) as [p'|] eqn:Hs; [|discriminate].
  destruct r as [|e' r'].
  - simpl in H. inversion H; subst p'. apply cstep_closed_is_close in Hs. subst e. reflexivity.
  - rewrite ends_with_close_cons by discriminate. apply (IH p'); [exact H|discriminate].
Qed.

(* a run that ends in CDoneOk never closed the connection *)
Lemma crun_ok_no_close dl eio tr : forall p,
  crun dl eio p tr = Some CDoneOk -> has_close tr = false.
Proof.
  induction tr as [|e r IH]; intros p H; [reflexivity|].
  simpl in H. destruct (cstep dl eio p e) as [p'|] eqn:Hs; [|discriminate].
  unfold has_close in *. simpl. rewrite (IH p' H).
  destruct e; try reflexivity.
  apply cstep_close_to_closed in Hs. subst p'. apply closed_stays in H; [|left; reflexivity]. destruct H; discriminate.
Qed.

(* CDoneOk is entered only by SetDeadline(zero) *)
Lemma cstep_doneok_is_setdl_zero dl eio p e : cstep dl eio p e = Some CDoneOk -> e = HSetDL true.
Proof.
  destruct p, e as [ | |[|]|z|z| | ]; simpl; intros H; try discriminate; try reflexivity;
    destruct dl, eio; simpl in H; discriminate.
Qed.

(* a run that ends in CDoneOk leaves the deadline cleared *)
Lemma crun_ok_last_deadline_zero dl eio tr : forall p cur,
  crun dl eio p tr = Some CDoneOk ->
  (p = CDoneOk -> cur = Some true) ->
  last_deadline_zero tr cur = Some true.
Proof.
  induction tr as [|e r IH]; intros p cur H Hc.
  - simpl in *. inversion H. auto.
  - simpl in H. destruct (cstep dl eio p e) as [p'|] eqn:Hs; [|discriminate].
    assert (Hd : p' = CDoneOk -> e = HSetDL true).
    { intros ->. eapply cstep_doneok_is_setdl_zero, Hs. }
    destruct e as [ | |z|z|z| | ]; simpl;
      try (apply (IH p' cur H); intros Hp; specialize (Hd Hp); discriminate).
    apply (IH p' (Some z) H). intros Hp. specialize (Hd Hp). inversion Hd. reflexivity.
Qed.

(* 1 *)
Theorem client_accepted_is_clean : forall deadline early_io ok tr,
  client_trace_accepted deadline early_io ok tr = true ->
  client_cleanup_ok deadline early_io ok tr = true.
Proof.
  intros dl eio ok tr H. unfold client_trace_accepted in H. unfold client_cleanup_ok.
  destruct (crun dl eio CStart tr) as [q|] eqn:Hr; [|discriminate].
  destruct q; try discriminate.
  - (* CDoneOk *) subst ok.
    rewrite (crun_ok_no_close _ _ _ _ Hr). simpl.
    rewrite (crun_ok_last_deadline_zero _ _ _ CStart None Hr); [reflexivity|discriminate].
  - (* CClosed *) destruct ok; [discriminate|].
    apply (crun_closed_ends_with_close _ _ _ _ Hr).
    intros ->. simpl in Hr. discriminate.
Qed.

(* readable form of 1 *)
Corollary client_accepted_is_clean_spelled : forall deadline early_io ok tr,
  client_trace_accepted deadline early_io ok tr = true ->
  if ok then has_close tr = false /\ last_deadline_zero tr None = Some true
  else ends_with_close tr = true.
Proof.
  intros dl eio ok tr H. apply client_accepted_is_clean in H. unfold client_cleanup_ok in H.
  destruct ok; [|exact H].
  apply andb_true_iff in H as [H1 H2]. apply negb_true_iff in H1. split; [exact H1|].
  destruct (last_deadline_zero tr None) as [[|]|]; try discriminate. reflexivity.
Qed.

(* phases in which the deadline has not been armed *)
Definition pre_armed (p:cphase) : bool :=
  match p with CStart | CDoneOk => true | _ => false end.

Lemma crun_no_io_before_deadline tr : forall p q,
  pre_armed p = true -> crun true false p tr = Some q -> io_before_deadline tr = false.
Proof.
  induction tr as [|e r IH]; intros p q Hp H; [reflexivity|].
  simpl in H. destruct (cstep true false p e) as [p'|] eqn:Hs; [|discriminate].
  destruct p; try discriminate;
    destruct e as [ | |[|]|z|z| | ]; simpl in Hs; try discriminate; try reflexivity;
    inversion Hs; subst p'; simpl; (eapply IH; [|exact H]; reflexivity).
Qed.

(* 2 *)
Theorem client_accepted_deadline_first : forall deadline early_io ok tr,
  client_trace_accepted deadline early_io ok tr = true ->
  client_deadline_ok deadline early_io tr = true.
Proof.
  intros dl eio ok tr H. unfold client_deadline_ok.
  destruct dl; [|reflexivity]. destruct eio; [reflexivity|]. simpl.
  unfold client_trace_accepted in H.
  destruct (crun true false CStart tr) as [q|] eqn:Hr; [|discriminate].
  rewrite (crun_no_io_before_deadline tr CStart q eq_refl Hr). reflexivity.
Qed.

Lemma cphase_eq_DoneOk (p:cphase) : p = CDoneOk \/ p <> CDoneOk.
Proof. destruct p; (left; reflexivity) || (right; discriminate). Qed.

(* 3 *)
Theorem client_fault_then_close : forall deadline early_io tr1 tr2 ok,
  client_trace_accepted deadline early_io ok (tr1 ++ HFail :: tr2) = true ->
  (ok = false /\ ends_with_close (tr1 ++ HFail :: tr2) = true) \/
  (* the one exception: the operation that failed was a SetDeadline(zero) issued by a proxy
     dialer, which ignores the error; the deadline is armed again at once *)
  (crun deadline early_io CStart tr1 = Some CDoneOk /\ exists tr3, tr2 = HSetDL false :: tr3).
Proof.
  intros dl eio tr1 tr2 ok H. unfold client_trace_accepted in H.
  destruct (crun dl eio CStart (tr1 ++ HFail :: tr2)) as [q|] eqn:Hr; [|discriminate].
  assert (Hleft : q = CClosed -> ok = false /\ ends_with_close (tr1 ++ HFail :: tr2) = true).
  { intros ->. split; [destruct ok; [discriminate|reflexivity]|].
    apply (crun_closed_ends_with_close _ _ _ _ Hr). apply app_cons_not_nil. }
  rewrite crun_app in Hr. destruct (crun dl eio CStart tr1) as [p1|] eqn:H1; [|discriminate].
  simpl in Hr. destruct (cstep dl eio p1 HFail) as [p2|] eqn:Hs; [|discriminate].
  destruct (cphase_eq_DoneOk p1) as [-> | Hne].
  - (* the zeroing SetDeadline failed *)
    simpl in Hs. inversion Hs; subst p2.
    destruct tr2 as [|e r]; [simpl in Hr; inversion Hr; subst q; discriminate|].
    simpl in Hr. destruct e as [ | |[|]|z|z| | ]; simpl in Hr; try discriminate.
    + (* HWrite *) left. apply Hleft. apply faulted_end in Hr as [-> | [-> | ->]]; [discriminate|reflexivity|discriminate].
    + (* HSetDL true *) left. apply Hleft. apply faulted_end in Hr as [-> | [-> | ->]]; [discriminate|reflexivity|discriminate].
    + (* HSetDL false: ignored and re-armed *) right. split; [reflexivity|]. eexists; reflexivity.
    + (* HSetWDL *) left. apply Hleft. apply faulted_end in Hr as [-> | [-> | ->]]; [discriminate|reflexivity|discriminate].
    + (* HClose *) left. apply Hleft. apply closed_stays in Hr; [|left; reflexivity]. destruct Hr as [-> | ->]; [reflexivity|discriminate].
    + (* HFail *) left. apply Hleft. apply faulted_end in Hr as [-> | [-> | ->]]; [discriminate|reflexivity|discriminate].
  - assert (p2 = CFaulted) by (destruct p1; simpl in Hs; inversion Hs; try reflexivity; contradiction Hne; reflexivity).
    subst p2. left. apply Hleft. apply faulted_end in Hr as [-> | [-> | ->]]; [discriminate|reflexivity|discriminate].
Qed.

(* ---------------------------------------------------------------- server automaton *)
Lemma srun_app t p a b :
  srun t p (a ++ b) = match srun t p a with Some p' => srun t p' b | None => None end.
Proof.
  revert p; induction a as [|e a IH]; intros p; simpl; [reflexivity|].
  destruct (sstep t p e); [apply IH|reflexivity].
Qed.

Lemma sstep_closed_is_close t p e : sstep t p e = Some SClosedS -> e = HClose.
Proof.
  destruct p, e as [ | |[|]|[|]|z| | ]; simpl; intros H; try discriminate; try reflexivity;
    destruct t; discriminate.
Qed.

Lemma sstep_close_to_closed t p q : sstep t p HClose = Some q -> q = SClosedS.
Proof. destruct p; simpl; intros H; inversion H; reflexivity. Qed.

(* SClosedS has no successor *)
Lemma sclosed_stays t tr q : srun t SClosedS tr = Some q -> q = SClosedS.
Proof. destruct tr as [|e r]; simpl; intros H; [inversion H; reflexivity|destruct e; discriminate]. Qed.

Lemma sfaulted_end t tr q : srun t SFaulted tr = Some q -> q = SFaulted \/ q = SClosedS.
Proof.
  destruct tr as [|e r]; simpl; intros H; [inversion H; left; reflexivity|].
  destruct e; simpl in H; try discriminate. right. eapply sclosed_stays, H.
Qed.

Lemma srun_closed_ends_with_close t tr : forall p,
  srun t p tr = Some SClosedS -> tr <> [] -> ends_with_close tr = true.
Proof.
  induction tr as [|e r IH]; intros p H Hne; [congruence|].
  simpl in H. destruct (sstep t p e) as [p'|] eqn:Hs; [|discriminate].
  destruct r as [|e' r'].
  - simpl in H. inversion H; subst p'. apply sstep_closed_is_close in Hs. subst e. reflexivity.
  - rewrite ends_with_close_cons by discriminate. apply (IH p'); [exact H|discriminate].
Qed.

Lemma srun_ok_no_close t tr : forall p, srun t p tr = Some SDone -> has_close tr = false.
Proof.
  induction tr as [|e r IH]; intros p H; [reflexivity|].
  simpl in H. destruct (sstep t p e) as [p'|] eqn:Hs; [|discriminate].
  unfold has_close in *. simpl. rewrite (IH p' H).
  destruct e; try reflexivity.
  apply sstep_close_to_closed in Hs. subst p'. apply sclosed_stays in H. discriminate.
Qed.

(* phases from which reaching SDone requires passing the deadline-clearing event *)
Definition s_before_clear (timeout:bool) (p:sphase) : bool :=
  match p with
  | SDone => false
  | SZeroed => false
  | SArmedW | SWritten => timeout
  | _ => true
  end.

Definition clear_ev (timeout:bool) : hev := if timeout then HSetWDL true else HSetDL true.

Lemma srun_ok_cleared t tr : forall p,
  s_before_clear t p = true -> srun t p tr = Some SDone -> In (clear_ev t) tr.
Proof.
  induction tr as [|e r IH]; intros p Hp H.
  - simpl in H. inversion H; subst p. discriminate.
  - simpl in H. destruct (sstep t p e) as [p'|] eqn:Hs; [|discriminate].
    destruct t, p; try discriminate;
      destruct e as [ | |[|]|[|]|z| | ]; simpl in Hs; try discriminate;
      inversion Hs; subst p';
      first [ left; reflexivity | right; (eapply IH; [|exact H]; reflexivity) ].
Qed.

(* 4a *)
Theorem server_accepted_is_clean : forall timeout ok tr,
  server_trace_accepted timeout ok tr = true ->
  if ok
  then has_close tr = false /\ (if timeout then In (HSetWDL true) tr else In (HSetDL true) tr)
  else ends_with_close tr = true.
Proof.
  intros t ok tr H. unfold server_trace_accepted in H.
  destruct (srun t SStart tr) as [q|] eqn:Hr; [|discriminate].
  destruct q; try discriminate.
  - (* SDone *) subst ok. split; [eapply srun_ok_no_close, Hr|].
    pose proof (srun_ok_cleared t tr SStart eq_refl Hr) as Hin. destruct t; exact Hin.
  - (* SClosedS *) destruct ok; [discriminate|].
    apply (srun_closed_ends_with_close _ _ _ Hr). intros ->. simpl in Hr. discriminate.
Qed.

(* 4b *)
Theorem server_fault_then_close : forall timeout tr1 tr2 ok,
  server_trace_accepted timeout ok (tr1 ++ HFail :: tr2) = true ->
  ok = false /\ ends_with_close (tr1 ++ HFail :: tr2) = true.
Proof.
  intros t tr1 tr2 ok H. unfold server_trace_accepted in H.
  destruct (srun t SStart (tr1 ++ HFail :: tr2)) as [q|] eqn:Hr; [|discriminate].
  assert (Hq : q = SClosedS).
  { rewrite srun_app in Hr. destruct (srun t SStart tr1) as [p1|]; [|discriminate].
    simpl in Hr. destruct (sstep t p1 HFail) as [p2|] eqn:Hs; [|discriminate].
    assert (p2 = SFaulted) by (destruct p1; simpl in Hs; inversion Hs; reflexivity). subst p2.
    apply sfaulted_end in Hr as [->| ->]; [discriminate|reflexivity]. }
  subst q. split.
  - destruct ok; [discriminate|reflexivity].
  - apply (srun_closed_ends_with_close _ _ _ Hr). apply app_cons_not_nil.
Qed.

(* ---------------------------------------------------------------- 5: non-vacuity *)
Example ex_client_success :
  client_trace_accepted true false true [HSetDL false; HWrite; HRead; HRead; HSetDL true] = true.
Proof. reflexivity. Qed.
Example ex_client_success_clean :
  client_cleanup_ok true false true [HSetDL false; HWrite; HRead; HRead; HSetDL true] = true
  /\ client_deadline_ok true false [HSetDL false; HWrite; HRead; HRead; HSetDL true] = true.
Proof. split; reflexivity. Qed.
Example ex_client_failure :
  client_trace_accepted true false false [HSetDL false; HWrite; HRead; HFail; HClose] = true.
Proof. reflexivity. Qed.
Example ex_client_failure_not_ok :
  client_trace_accepted true false true [HSetDL false; HWrite; HRead; HFail; HClose] = false.
Proof. reflexivity. Qed.
Example ex_client_early_io :
  client_trace_accepted true true true [HWrite; HRead; HSetDL false; HWrite; HRead; HSetDL true] = true.
Proof. reflexivity. Qed.
(* I/O before the deadline without early_io: rejected, whatever the outcome *)
Example ex_client_rejected_io_before_deadline : forall ok,
  client_trace_accepted true false ok [HWrite; HRead; HSetDL false; HWrite; HRead; HSetDL true] = false.
Proof. intros [|]; reflexivity. Qed.
(* ... and it is indeed a trace the Spec predicate flags *)
Example ex_client_rejected_violates :
  client_deadline_ok true false [HWrite; HRead; HSetDL false; HWrite; HRead; HSetDL true] = false.
Proof. reflexivity. Qed.
(* a leak (failure without Close) and activity after Close are rejected *)
Example ex_client_rejected_leak :
  client_trace_accepted true false false [HSetDL false; HWrite; HFail] = false.
Proof. reflexivity. Qed.
Example ex_client_rejected_use_after_close :
  client_trace_accepted true false false [HSetDL false; HWrite; HFail; HClose; HWrite] = false.
Proof. reflexivity. Qed.
(* the failing final SetDeadline(zero) *)
Example ex_client_final_setdl_fails :
  client_trace_accepted true false false [HSetDL false; HWrite; HRead; HSetDL true; HFail; HClose] = true.
Proof. reflexivity. Qed.
(* close-notify attempt (CClosing) on a failure without an injected fault *)
Example ex_client_closing :
  client_trace_accepted true false false [HSetDL false; HWrite; HRead; HSetWDL false; HWrite; HClose] = true.
Proof. reflexivity. Qed.
Example ex_client_closing_fault :
  client_trace_accepted true false false [HSetDL false; HWrite; HSetWDL false; HWrite; HFail; HClose] = true.
Proof. reflexivity. Qed.
(* shutdown before the deadline was armed: accepted, and its Write is not counted as handshake
   I/O because io_before_deadline stops at the first HSetWDL *)
Example ex_client_closing_before_deadline :
  client_trace_accepted true false false [HSetWDL false; HWrite; HClose] = true
  /\ io_before_deadline [HSetWDL false; HWrite; HClose] = false
  /\ client_deadline_ok true false [HSetWDL false; HWrite; HClose] = true.
Proof. repeat split; reflexivity. Qed.
Example ex_client_closing_no_read :
  client_trace_accepted true false false [HSetDL false; HSetWDL false; HRead; HClose] = false.
Proof. reflexivity. Qed.
(* SOCKS5-style path: the proxy dialer clears the deadline after its own exchange, DialContext re-arms it *)
Example ex_client_rearm_success :
  client_trace_accepted true false true
    [HSetDL false; HSetDL false; HWrite; HRead; HSetDL true; HSetDL false; HWrite; HRead; HSetDL true] = true.
Proof. reflexivity. Qed.
Example ex_client_rearm_success_clean :
  client_cleanup_ok true false true
    [HSetDL false; HSetDL false; HWrite; HRead; HSetDL true; HSetDL false; HWrite; HRead; HSetDL true] = true
  /\ client_deadline_ok true false
    [HSetDL false; HSetDL false; HWrite; HRead; HSetDL true; HSetDL false; HWrite; HRead; HSetDL true] = true.
Proof. split; reflexivity. Qed.
(* I/O after the deadline was cleared and not re-armed (the repaired defect): rejected, whatever the outcome *)
Example ex_client_rejected_io_after_clear : forall ok,
  client_trace_accepted true false ok
    [HSetDL false; HWrite; HRead; HSetDL true; HWrite; HRead; HSetDL true] = false.
Proof. intros [|]; reflexivity. Qed.
(* a re-arm that is left in place is not a success *)
Example ex_client_rejected_rearm_left_armed :
  client_trace_accepted true false true [HSetDL false; HWrite; HRead; HSetDL true; HSetDL false] = false.
Proof. reflexivity. Qed.
Example ex_client_no_deadline :
  client_trace_accepted false false true [HWrite; HRead; HSetDL true] = true.
Proof. reflexivity. Qed.
Example ex_server_success_timeout :
  server_trace_accepted true true [HSetWDL false; HWrite; HSetWDL true] = true.
Proof. reflexivity. Qed.
Example ex_server_success_no_timeout :
  server_trace_accepted false true [HSetDL true; HWrite] = true.
Proof. reflexivity. Qed.
Example ex_server_failure :
  server_trace_accepted true false [HSetWDL false; HWrite; HFail; HClose] = true.
Proof. reflexivity. Qed.
Example ex_server_rejected_leak :
  server_trace_accepted true false [HSetWDL false; HWrite; HFail] = false.
Proof. reflexivity. Qed.

(* ================================================================== Part B: C18 dial plan *)

Definition proxy_tls (p:proxy) : bool := match px_scheme p with PHttps => true | _ => false end.

(* 6 *)
Theorem proxy_first_hop_is_proxy : forall d wss host p,
  (px_scheme p = PHttp \/ px_scheme p = PHttps) ->
  first_addr (dial_plan d wss host (Some p))
    = fst (host_port_no_port (px_host p) (match px_scheme p with PHttps => true | _ => false end))
  /\ connect_target (dial_plan d wss host (Some p)) = Some (fst (host_port_no_port host wss)).
Proof.
  intros d wss host p Hs. unfold dial_plan.
  destruct (host_port_no_port host wss) as [bhp bh].
  destruct Hs as [Hs|Hs]; rewrite Hs.
  - destruct (host_port_no_port (px_host p) false) as [php ph]. simpl. split; reflexivity.
  - destruct (host_port_no_port (px_host p) true) as [php ph]. simpl.
    destruct (has_netdialtls d); simpl; split; reflexivity.
Qed.

(* with an HTTP(S) proxy the plan never involves SOCKS *)
Theorem http_proxy_not_socks : forall d wss host p,
  (px_scheme p = PHttp \/ px_scheme p = PHttps) ->
  via_socks (dial_plan d wss host (Some p)) = false.
Proof.
  intros d wss host p Hs. unfold dial_plan.
  destruct (host_port_no_port host wss) as [bhp bh].
  destruct Hs as [Hs|Hs]; rewrite Hs.
  - destruct (host_port_no_port (px_host p) false) as [php ph]. reflexivity.
  - destruct (host_port_no_port (px_host p) true) as [php ph]. simpl.
    destruct (has_netdialtls d); reflexivity.
Qed.

(* without a proxy, or with a non-HTTP(S) one, there is no CONNECT *)
Theorem no_connect_without_http_proxy : forall d wss host px,
  (px = None \/ exists p, px = Some p /\ px_scheme p <> PHttp /\ px_scheme p <> PHttps) ->
  connect_target (dial_plan d wss host px) = None.
Proof.
  intros d wss host px H. unfold dial_plan.
  destruct (host_port_no_port host wss) as [bhp bh].
  destruct H as [->|[p [-> [H1 H2]]]].
  - destruct wss, (has_netdialtls d); reflexivity.
  - destruct (px_scheme p); try congruence;
      destruct (host_port_no_port (px_host p) false) as [php ph]; reflexivity.
Qed.

(* 7 *)
Theorem connect_auth_iff_password : forall d wss host p,
  (px_scheme p = PHttp \/ px_scheme p = PHttps) ->
  connect_auth (dial_plan d wss host (Some p))
    = match px_user p, px_pass p with Some u, Some pw => Some (basic_auth u pw) | _, _ => None end.
Proof.
  intros d wss host p Hs. unfold dial_plan.
  destruct (host_port_no_port host wss) as [bhp bh].
  destruct Hs as [Hs|Hs]; rewrite Hs.
  - destruct (host_port_no_port (px_host p) false) as [php ph]. reflexivity.
  - destruct (host_port_no_port (px_host p) true) as [php ph]. simpl.
    destruct (has_netdialtls d); reflexivity.
Qed.

Theorem connect_auth_none_otherwise : forall d wss host px,
  (px = None \/ exists p, px = Some p /\ px_scheme p <> PHttp /\ px_scheme p <> PHttps) ->
  connect_auth (dial_plan d wss host px) = None.
Proof.
  intros d wss host px H. unfold dial_plan.
  destruct (host_port_no_port host wss) as [bhp bh].
  destruct H as [->|[p [-> [H1 H2]]]].
  - destruct wss, (has_netdialtls d); reflexivity.
  - destruct (px_scheme p); try congruence;
      destruct (host_port_no_port (px_host p) false) as [php ph]; reflexivity.
Qed.

(* "exactly when the proxy URL carries a password" *)
Corollary connect_auth_present_iff : forall d wss host p,
  (px_scheme p = PHttp \/ px_scheme p = PHttps) ->
  (connect_auth (dial_plan d wss host (Some p)) <> None <->
   (px_user p <> None /\ px_pass p <> None)).
Proof.
  intros d wss host p Hs. rewrite (connect_auth_iff_password d wss host p Hs).
  destruct (px_user p), (px_pass p); split; intros H; try congruence;
    try (split; congruence); destruct H; congruence.
Qed.

(* 8 *)
Theorem wss_always_has_tls : forall d host px,
  let pl := dial_plan d true host px in
  (tunnel_tls pl = Some (name_or d (snd (host_port_no_port host true))))
  \/ (px = None /\
      ((first_tls pl = Some (name_or d (snd (host_port_no_port host true))))
       \/ (first_fn pl = FnTLSContext /\ has_netdialtls d = true))).
Proof.
  intros d host px. unfold dial_plan.
  destruct (host_port_no_port host true) as [bhp bh]. simpl.
  destruct px as [p|].
  - left. destruct (px_scheme p) eqn:Hs.
    + destruct (host_port_no_port (px_host p) false) as [php ph]. reflexivity.
    + destruct (host_port_no_port (px_host p) true) as [php ph]. simpl.
      destruct (has_netdialtls d); reflexivity.
    + destruct (host_port_no_port (px_host p) false) as [php ph]. reflexivity.
    + destruct (host_port_no_port (px_host p) false) as [php ph]. reflexivity.
  - right. split; [reflexivity|].
    destruct (has_netdialtls d) eqn:Ht; simpl; [right; split; reflexivity|left; reflexivity].
Qed.

Theorem ws_never_tunnel_tls : forall d host px,
  tunnel_tls (dial_plan d false host px) = None.
Proof.
  intros d host px. unfold dial_plan.
  destruct (host_port_no_port host false) as [bhp bh].
  destruct px as [p|]; [|reflexivity].
  destruct (px_scheme p) eqn:Hs.
  - destruct (host_port_no_port (px_host p) false) as [php ph]. reflexivity.
  - destruct (host_port_no_port (px_host p) true) as [php ph]. simpl.
    destruct (has_netdialtls d); reflexivity.
  - destruct (host_port_no_port (px_host p) false) as [php ph]. reflexivity.
  - destruct (host_port_no_port (px_host p) false) as [php ph]. reflexivity.
Qed.

Theorem ws_direct_no_tls : forall d host,
  first_tls (dial_plan d false host None) = None.
Proof.
  intros d host. unfold dial_plan.
  destruct (host_port_no_port host false) as [bhp bh]. reflexivity.
Qed.

(* the library's own TLS on the first hop happens exactly for an https first hop without
   NetDialTLSContext, and then verifies the first hop's host (or the configured ServerName) *)
Definition first_hop_https (wss:bool) (px:option proxy) : bool :=
  match px with
  | None => wss
  | Some p => match px_scheme p with PHttps => true | _ => false end
  end.

Definition first_hop_host (host:bytes) (px:option proxy) : bytes :=
  match px with None => host | Some p => px_host p end.

Theorem first_hop_tls : forall d wss host px,
  first_tls (dial_plan d wss host px)
  = if first_hop_https wss px && negb (has_netdialtls d)
    then Some (name_or d (snd (host_port_no_port (first_hop_host host px) true)))
    else None.
Proof.
  intros d wss host px. unfold dial_plan, first_hop_https, first_hop_host.
  destruct px as [p|].
  - destruct (host_port_no_port host wss) as [bhp bh]. destruct (px_scheme p) eqn:Hs.
    + destruct (host_port_no_port (px_host p) false) as [php ph]. reflexivity.
    + destruct (host_port_no_port (px_host p) true) as [php ph]. simpl.
      destruct (has_netdialtls d); reflexivity.
    + destruct (host_port_no_port (px_host p) false) as [php ph]. reflexivity.
    + destruct (host_port_no_port (px_host p) false) as [php ph]. reflexivity.
  - destruct wss.
    + destruct (host_port_no_port host true) as [bhp bh]. simpl.
      destruct (has_netdialtls d); reflexivity.
    + destruct (host_port_no_port host false) as [bhp bh]. reflexivity.
Qed.

(* 9 *)
Theorem first_hop_function : forall d wss host px,
  first_fn (dial_plan d wss host px)
  = if first_hop_https wss px && has_netdialtls d then FnTLSContext
    else if has_netdialctx d then FnContext
    else if has_netdial d then FnNetDial
    else FnDefault.
Proof.
  intros d wss host px. unfold dial_plan, first_hop_https.
  destruct (host_port_no_port host wss) as [bhp bh].
  destruct px as [p|].
  - destruct (px_scheme p) eqn:Hs.
    + destruct (host_port_no_port (px_host p) false) as [php ph]. reflexivity.
    + destruct (host_port_no_port (px_host p) true) as [php ph]. simpl.
      destruct (has_netdialtls d); reflexivity.
    + destruct (host_port_no_port (px_host p) false) as [php ph]. reflexivity.
    + destruct (host_port_no_port (px_host p) false) as [php ph]. reflexivity.
  - destruct wss; simpl; [destruct (has_netdialtls d)|]; reflexivity.
Qed.

(* ---------------------------------------------------------------- 10: host_port_no_port *)
Definition has_port (host:bytes) : bool :=
  match last_index 58 host 0 None, last_index 93 host 0 None with
  | Some i, Some j => Nat.ltb j i
  | Some _, None => true
  | None, _ => false
  end.
Definition no_port (host:bytes) : Prop := has_port host = false.

Definition default_port (tls:bool) : bytes := if tls then [58;52;52;51] else [58;56;48].

Theorem host_port_no_port_no_port : forall host tls,
  no_port host ->
  host_port_no_port host tls = (host ++ (if tls then [58;52;52;51] else [58;56;48]), host).
Proof.
  intros host tls H. unfold no_port, has_port in H. unfold host_port_no_port.
  destruct (last_index 58 host 0 None) as [i|]; [|reflexivity].
  destruct (last_index 93 host 0 None) as [j|]; [|discriminate].
  rewrite H. reflexivity.
Qed.

Theorem host_port_no_port_has_port : forall host tls,
  has_port host = true ->
  exists i, last_index 58 host 0 None = Some i /\ host_port_no_port host tls = (host, firstn i host).
Proof.
  intros host tls H. unfold has_port in H. unfold host_port_no_port.
  destruct (last_index 58 host 0 None) as [i|]; [|discriminate].
  exists i. split; [reflexivity|].
  destruct (last_index 93 host 0 None) as [j|]; [rewrite H|]; reflexivity.
Qed.

(* what last_index computes *)
Lemma last_index_spec c s : forall k best i,
  last_index c s k best = Some i ->
  (best = Some i /\ ~ In c s)
  \/ (exists a b, s = a ++ c :: b /\ i = (k + List.length a)%nat /\ ~ In c b).
Proof.
  induction s as [|x r IH]; intros k best i H.
  - simpl in H. left. split; [exact H|intros []].
  - simpl in H. apply IH in H. destruct H as [[Hb Hn]|[a [b [Hr [Hi Hn]]]]].
    + destruct (x =? c) eqn:Hx.
      * apply N.eqb_eq in Hx. subst x. inversion Hb; subst i. right.
        exists [], r. simpl. repeat split; [lia|exact Hn].
      * apply N.eqb_neq in Hx. left. split; [exact Hb|].
        intros [Hin|Hin]; [congruence|exact (Hn Hin)].
    + right. exists (x :: a), b. subst r. simpl. repeat split; [lia|exact Hn].
Qed.

Lemma last_index_some_mono c s : forall k best, best <> None -> last_index c s k best <> None.
Proof.
  induction s as [|x r IH]; intros k best H; simpl; [exact H|].
  apply IH. destruct (x =? c); [discriminate|exact H].
Qed.

Lemma last_index_none c s : forall k, last_index c s k None = None -> ~ In c s.
Proof.
  induction s as [|x r IH]; intros k H; [intros []|].
  simpl in H. destruct (x =? c) eqn:Hx.
  - exfalso. revert H. apply last_index_some_mono. discriminate.
  - apply N.eqb_neq in Hx. intros [Hin|Hin]; [congruence|]. exact (IH _ H Hin).
Qed.

(* with a port: the second component is the host up to its last colon *)
Theorem host_port_no_port_splits_at_last_colon : forall host tls,
  has_port host = true ->
  exists h p, host = h ++ 58 :: p /\ ~ In 58 p /\ host_port_no_port host tls = (host, h).
Proof.
  intros host tls H. destruct (host_port_no_port_has_port host tls H) as [i [Hi He]].
  apply last_index_spec in Hi. destruct Hi as [[Hb _]|[a [b [Hs [Hia Hn]]]]]; [discriminate|].
  exists a, b. repeat split; [exact Hs|exact Hn|].
  rewrite He. f_equal. subst host i. simpl.
  rewrite firstn_app, firstn_all, Nat.sub_diag. simpl. apply app_nil_r.
Qed.

(* without a port there is no colon after the last ']' *)
Theorem no_port_no_colon_without_bracket : forall host,
  no_port host -> ~ In 93 host -> ~ In 58 host.
Proof.
  intros host H Hb. unfold no_port, has_port in H.
  destruct (last_index 58 host 0 None) as [i|] eqn:Hc; [|eapply last_index_none, Hc].
  destruct (last_index 93 host 0 None) as [j|] eqn:Hj; [|discriminate].
  apply last_index_spec in Hj. destruct Hj as [[Hx _]|[a [b [Hs _]]]]; [discriminate|].
  exfalso. apply Hb. subst host. apply in_or_app. right. left. reflexivity.
Qed.

(* (a) the dialed address always carries a port *)
Theorem host_port_always_has_port : forall host tls,
  exists h p, fst (host_port_no_port host tls) = h ++ 58 :: p.
Proof.
  intros host tls. destruct (has_port host) eqn:Hp.
  - destruct (host_port_no_port_splits_at_last_colon host tls Hp) as [h [p [Hs [_ He]]]].
    exists h, p. rewrite He. exact Hs.
  - rewrite (host_port_no_port_no_port host tls Hp). simpl.
    exists host. destruct tls; eexists; reflexivity.
Qed.

Example hp_plain_ws : host_port_no_port (str "example.com") false = (str "example.com:80", str "example.com").
Proof. reflexivity. Qed.
Example hp_plain_wss : host_port_no_port (str "example.com") true = (str "example.com:443", str "example.com").
Proof. reflexivity. Qed.
Example hp_port : host_port_no_port (str "example.com:8080") true = (str "example.com:8080", str "example.com").
Proof. reflexivity. Qed.
Example hp_v6 : host_port_no_port (str "[::1]") false = (str "[::1]:80", str "[::1]").
Proof. reflexivity. Qed.
Example hp_v6_port : host_port_no_port (str "[::1]:9000") true = (str "[::1]:9000", str "[::1]").
Proof. reflexivity. Qed.
Example hp_v6_long : host_port_no_port (str "[2001:db8::1]") true = (str "[2001:db8::1]:443", str "[2001:db8::1]").
Proof. reflexivity. Qed.
Example hp_no_port_examples :
  no_port (str "example.com") /\ no_port (str "[::1]") /\ no_port (str "[2001:db8::1]")
  /\ has_port (str "example.com:8080") = true /\ has_port (str "[::1]:9000") = true.
Proof. repeat split; reflexivity. Qed.

(* a full plan: wss through an authenticated http proxy with the default dialer *)
Example plan_wss_via_http_proxy :
  let d := {| has_netdial := false; has_netdialctx := false; has_netdialtls := false; server_name := [] |} in
  let p := {| px_scheme := PHttp; px_host := str "proxy.local:3128"; px_user := Some (str "u"); px_pass := Some (str "pw") |} in
  dial_plan d true (str "example.com") (Some p)
  = {| first_fn := FnDefault; first_addr := str "proxy.local:3128"; first_tls := None;
       connect_target := Some (str "example.com:443");
       connect_auth := Some (str "Basic dTpwdw==");
       tunnel_tls := Some (str "example.com"); via_socks := false |}.
Proof. reflexivity. Qed.

(* ---------------------------------------------------------------- 11: CONNECT reply *)
Theorem connect_reply_total : forall code line, connect_reply code line = CROk <-> code = 200.
Proof.
  intros code line. unfold connect_reply. destruct (code =? 200) eqn:H.
  - apply N.eqb_eq in H. split; auto.
  - apply N.eqb_neq in H. split; [discriminate|congruence].
Qed.

Lemma after_first_space_some s : forall r,
  after_first_space s = Some r <-> exists a, s = a ++ 32 :: r /\ ~ In 32 a.
Proof.
  induction s as [|b t IH]; intros r; simpl.
  - split; [discriminate|]. intros [a [H _]]. destruct a; discriminate.
  - destruct (b =? 32) eqn:Hb.
    + apply N.eqb_eq in Hb. subst b. split.
      * intros H. inversion H; subst. exists []. split; [reflexivity|intros []].
      * intros [a [H Hn]]. destruct a as [|x a]; simpl in H; inversion H; [reflexivity|].
        subst x. exfalso. apply Hn. left. reflexivity.
    + apply N.eqb_neq in Hb. rewrite IH. split.
      * intros [a [H Hn]]. exists (b :: a). subst t. split; [reflexivity|].
        intros [Hin|Hin]; [congruence|exact (Hn Hin)].
      * intros [a [H Hn]]. destruct a as [|x a]; simpl in H; inversion H; [congruence|].
        subst. exists a. split; [reflexivity|]. intros Hin. apply Hn. right. exact Hin.
Qed.

Lemma after_first_space_none s : after_first_space s = None <-> ~ In 32 s.
Proof.
  induction s as [|b t IH]; simpl.
  - split; [intros _ []|reflexivity].
  - destruct (b =? 32) eqn:Hb.
    + apply N.eqb_eq in Hb. subst b. split; [discriminate|]. intros H. exfalso. apply H. left. reflexivity.
    + apply N.eqb_neq in Hb. rewrite IH. split.
      * intros Hn [Hin|Hin]; [congruence|exact (Hn Hin)].
      * intros Hn Hin. apply Hn. right. exact Hin.
Qed.

(* any non-200 reply is a refusal whose message is the text after the first space ... *)
Theorem connect_reply_refusal_after_space : forall code a r,
  code <> 200 -> ~ In 32 a -> connect_reply code (a ++ 32 :: r) = CRRefused r.
Proof.
  intros code a r Hc Ha. unfold connect_reply.
  apply N.eqb_neq in Hc. rewrite Hc.
  assert (H : after_first_space (a ++ 32 :: r) = Some r).
  { apply after_first_space_some. exists a. split; [reflexivity|exact Ha]. }
  rewrite H. reflexivity.
Qed.

(* ... or the whole status line when it contains no space (no out-of-range access) *)
Theorem connect_reply_refusal_no_space : forall code line,
  code <> 200 -> ~ In 32 line -> connect_reply code line = CRRefused line.
Proof.
  intros code line Hc Hl. unfold connect_reply.
  apply N.eqb_neq in Hc. rewrite Hc.
  apply after_first_space_none in Hl. rewrite Hl. reflexivity.
Qed.

(* the reply is always defined: OK or a refusal *)
Theorem connect_reply_refused_otherwise : forall code line,
  code <> 200 -> exists msg, connect_reply code line = CRRefused msg.
Proof.
  intros code line Hc. unfold connect_reply. apply N.eqb_neq in Hc. rewrite Hc. eexists. reflexivity.
Qed.

Example cr_ok : connect_reply 200 (str "200 Connection established") = CROk.
Proof. reflexivity. Qed.
Example cr_407 : connect_reply 407 (str "407 Proxy Authentication Required") = CRRefused (str "Proxy Authentication Required").
Proof. reflexivity. Qed.
Example cr_403_short : connect_reply 403 (str "403 Forbidden") = CRRefused (str "Forbidden").
Proof. reflexivity. Qed.
(* a status line without any space: the whole line, not a panic *)
Example cr_no_space : connect_reply 407 (str "407") = CRRefused (str "407").
Proof. reflexivity. Qed.
Example cr_no_space_proto : connect_reply 407 (str "HTTP/1.1") = CRRefused (str "HTTP/1.1").
Proof. reflexivity. Qed.
Example cr_empty : connect_reply 500 [] = CRRefused [].
Proof. reflexivity. Qed.
Example cr_trailing_space : connect_reply 502 (str "502 ") = CRRefused [].
Proof. reflexivity. Qed.

(* ================================================================== assumptions *)
Print Assumptions client_accepted_is_clean.
Print Assumptions client_accepted_deadline_first.
Print Assumptions client_fault_then_close.
Print Assumptions server_accepted_is_clean.
Print Assumptions server_fault_then_close.
Print Assumptions proxy_first_hop_is_proxy.
Print Assumptions connect_auth_iff_password.
Print Assumptions connect_auth_none_otherwise.
Print Assumptions wss_always_has_tls.
Print Assumptions ws_never_tunnel_tls.
Print Assumptions ws_direct_no_tls.
Print Assumptions first_hop_tls.
Print Assumptions first_hop_function.
Print Assumptions host_port_no_port_no_port.
Print Assumptions host_port_no_port_splits_at_last_colon.
Print Assumptions host_port_always_has_port.
Print Assumptions connect_reply_total.
Print Assumptions connect_reply_refusal_after_space.
Print Assumptions connect_reply_refusal_no_space.
