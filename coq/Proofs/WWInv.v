(* Write path: the wire invariant and its preservation by flushFrame, WriteControl, the copy
   loops, messageWriter.Write / WriteString / ReadFrom / Close. *)
Require Import WS.Base.Bytes WS.gen.Consts WS.Spec.Frame WS.Proofs.FrameP WS.Model.Writer.
From RecordUpdate Require Import RecordSet.
Import RecordSetNotations.
Require Import WS.Proofs.WWBase.
Ltac Zify.zify_post_hook ::= Z.div_mod_to_equations.

(* ------------------------------------------------------------------------------------------ *)
(* Spec-side list lemmas                                                                      *)
(* ------------------------------------------------------------------------------------------ *)
Definition tag (fs:list frame) : list (frame * bool) := map (fun f : frame => (f, true)) fs.
Definition wopen (fs:list frame) : bool := open_after false (tag fs).
Definition isclient (c:wcfg) : bool := negb (w_server c).

Lemma tag_app a b : tag (a ++ b) = tag a ++ tag b.
Proof. apply map_app. Qed.

Lemma open_after_app l1 : forall o l2, open_after o (l1 ++ l2) = open_after (open_after o l1) l2.
Proof. induction l1 as [|[f b] r IH]; intros o l2; cbn [List.app open_after]; [reflexivity|apply IH]. Qed.

Lemma wf_wire_from_app cl ng l1 : forall o l2,
  wf_wire_from cl ng o (l1 ++ l2) = wf_wire_from cl ng o l1 && wf_wire_from cl ng (open_after o l1) l2.
Proof.
  induction l1 as [|[f b] r IH]; intros o l2; cbn [List.app wf_wire_from open_after]; [reflexivity|].
  rewrite IH, andb_assoc. reflexivity.
Qed.

Lemma wopen_snoc fs f : wopen (fs ++ [f]) = next_open (wopen fs) f.
Proof. unfold wopen. rewrite tag_app, open_after_app. reflexivity. Qed.

Lemma wf_wire_snoc cl ng fs f :
  wf_wire_from cl ng false (tag fs) = true -> frame_ok cl ng (wopen fs) f true = true ->
  wf_wire_from cl ng false (tag (fs ++ [f])) = true.
Proof.
  intros H1 H2. rewrite tag_app, wf_wire_from_app, H1. cbn [tag map wf_wire_from andb].
  fold (wopen fs). rewrite H2. reflexivity.
Qed.

(* ------------------------------------------------------------------------------------------ *)
(* the invariant                                                                              *)
(* ------------------------------------------------------------------------------------------ *)
Definition valid_ty (t:N) : Prop := t = 0 \/ t = 1 \/ t = 2 \/ t = 8 \/ t = 9 \/ t = 10.

Record mok (c:wcfg) (m:mwr) : Prop := {
  mo_err : m_err m = None;
  mo_ty : valid_ty (m_ftype m);
  mo_buf : blen (m_buf m) <= N.max 1 (cap c);   (* cap c = 0 (never built by newConn): ReadFrom still stores its lookahead byte *)
  mo_comp : m_compress m = true -> is_data_ty (m_ftype m) = true /\ w_negotiated c = true
}.

(* a fragmented message is open on the wire exactly when the current message writer has
   already flushed a non-final frame (its frame type has become continuation) *)
Definition link (cm:option mwr) (open:bool) : Prop :=
  match cm with None => open = false | Some m => open = (m_ftype m =? 0) end.

Definition partial_ok (c:wcfg) (open:bool) (p:bytes) : Prop :=
  p = [] \/ exists f rest, wf_frame f /\ frame_ok (isclient c) (w_negotiated c) open f true = true /\
                           rest <> [] /\ encode_frame f = p ++ rest.

Section Fa.
Variable fa : option (nat * fkind).   (* the fault plan: never changes *)

Record Inv (c:wcfg) (s:wst) (cm:option mwr) (fs:list frame) (p:bytes) : Prop := {
  i_wire : wire s = encode_frames fs ++ p;
  i_wf : Forall wf_frame fs;
  i_ok : wf_wire_from (isclient c) (w_negotiated c) false (tag fs) = true;
  i_keys : Forall len4 (keys s);
  i_cm : forall m, cm = Some m -> mok c m;
  i_live : werr s = None -> p = [] /\ link cm (wopen fs);
  i_part : partial_ok c (wopen fs) p;
  i_nofault : fail_at s = None -> p = [];
  i_fa : fail_at s = fa
}.

Lemma Inv_transfer c s s' cm cm' fs p :
  Inv c s cm fs p -> wire s' = wire s -> Forall len4 (keys s') -> fail_at s' = fail_at s ->
  (werr s' = None -> werr s = None) -> (forall m, cm' = Some m -> mok c m) ->
  (werr s' = None -> link cm (wopen fs) -> link cm' (wopen fs)) -> Inv c s' cm' fs p.
Proof.
  intros [I1 I2 I3 I4 I5 I6 I7 I8 I9] HW HK HF HE HM HL. constructor; try assumption.
  - rewrite HW. exact I1.
  - intros X. destruct (I6 (HE X)) as [A B]. split; [exact A|apply HL; assumption].
  - rewrite HF. exact I8.
  - rewrite HF. exact I9.
Qed.

Lemma Inv_emit_ok c s s' cm cm' fs p f :
  Inv c s cm fs p -> werr s = None -> wire s' = wire s ++ encode_frame f ->
  Forall len4 (keys s') -> fail_at s' = fail_at s -> wf_frame f ->
  frame_ok (isclient c) (w_negotiated c) (wopen fs) f true = true ->
  (forall m, cm' = Some m -> mok c m) ->
  (werr s' = None -> link cm' (next_open (wopen fs) f)) ->
  Inv c s' cm' (fs ++ [f]) [].
Proof.
  intros [I1 I2 I3 I4 I5 I6 I7 I8 I9] HE HW HK HF Hwf Hok HM HL.
  destruct (I6 HE) as [-> _]. constructor.
  - rewrite HW, I1, !app_nil_r, encode_frames_app. unfold encode_frames at 3. cbn [flat_map].
    rewrite app_nil_r. reflexivity.
  - apply Forall_app. split; [exact I2|]. constructor; [exact Hwf|constructor].
  - apply wf_wire_snoc; assumption.
  - exact HK.
  - exact HM.
  - intros X. split; [reflexivity|]. rewrite wopen_snoc. apply HL. exact X.
  - left. reflexivity.
  - reflexivity.
  - rewrite HF. exact I9.
Qed.

Lemma Inv_emit_fail c s s' cm cm' fs p f W :
  Inv c s cm fs p -> werr s = None -> wire s' = wire s ++ W ->
  Forall len4 (keys s') -> fail_at s' = fail_at s -> fail_at s <> None -> werr s' <> None ->
  sprefix W (encode_frame f) -> wf_frame f ->
  frame_ok (isclient c) (w_negotiated c) (wopen fs) f true = true ->
  (forall m, cm' = Some m -> mok c m) ->
  Inv c s' cm' fs W.
Proof.
  intros [I1 I2 I3 I4 I5 I6 I7 I8 I9] HE HW HK HF HFa HE' HP Hwf Hok HM.
  destruct (I6 HE) as [-> _]. constructor; try assumption.
  - rewrite HW, I1, !app_nil_r. reflexivity.
  - intros X. contradiction.
  - destruct HP as [->|(rest & Hr & Hf)]; [left; reflexivity|].
    right. exists f, rest. auto.
  - rewrite HF. intros X. contradiction.
  - rewrite HF. exact I9.
Qed.

(* ------------------------------------------------------------------------------------------ *)
(* the frame flushFrame writes is acceptable                                                  *)
(* ------------------------------------------------------------------------------------------ *)
Definition role_key (c:wcfg) (k:option bytes) : Prop :=
  if w_server c then k = None else exists key, k = Some key /\ len4 key.

Lemma valid_ty_lt t : valid_ty t -> t < 16.
Proof. unfold valid_ty. lia. Qed.

Lemma flush_frame_ok c m final mk pl :
  mok c m ->
  is_control_ty (m_ftype m) && (negb final || (c_maxControlFramePayloadSize <? blen pl)) = false ->
  role_key c mk -> blen pl < 2^63 ->
  let f := mkf final (m_ftype m) (if m_compress m then 4 else 0) mk pl in
  wf_frame f /\ frame_ok (isclient c) (w_negotiated c) (m_ftype m =? 0) f true = true /\
  next_open (m_ftype m =? 0) f = negb final.
Proof.
  intros [M1 M2 M3 M4] HC HR HL f. subst f. split; [|].
  { apply wf_mkf.
    - destruct (m_compress m); lia.
    - apply valid_ty_lt; exact M2.
    - exact HL.
    - unfold role_key in HR. unfold key_ok. destruct (w_server c).
      + subst mk. exact I.
      + destruct HR as (key & -> & HK). exact HK. }
  unfold frame_ok, next_open, is_control, is_data_op, mkf, plen, isclient, c_maxControlFramePayloadSize in *.
  cbn [fin rsv opcode mkey payload].
  set (L := blen pl) in *. clearbody L.
  set (t := m_ftype m) in *. clearbody t.
  assert (HKey : (if negb (w_server c) then match mk with Some _ => true | None => false end
                  else match mk with Some _ => false | None => true end) = true).
  { unfold role_key in HR. destruct (w_server c); cbn [negb].
    - subst mk. reflexivity.
    - destruct HR as (key & -> & _). reflexivity. }
  rewrite HKey. cbn [andb].
  destruct (L <=? 125) eqn:EL; destruct (125 <? L) eqn:EL2; try lia;
  destruct (m_compress m) eqn:ECm;
    try (destruct (M4 eq_refl) as [HD HN]; rewrite HN);
    destruct M2 as [E|[E|[E|[E|[E|E]]]]]; subst t; destruct final;
    cbn in HC |- *; try discriminate; try (split; reflexivity);
    try (cbn in HD; discriminate).
Qed.

(* ------------------------------------------------------------------------------------------ *)
(* endMessage, state updates                                                                  *)
(* ------------------------------------------------------------------------------------------ *)
Lemma end_message_eff c e m s : m_err m = None ->
  let s' := end_message c e m s in
  cur s' = None /\ cur_flate s' = false /\ fl s' = fl s /\ fail_at s' = fail_at s /\
  werr s' = werr s /\ keys s' = keys s /\ wire s' = wire s.
Proof.
  intros H. unfold end_message. rewrite H. cbv zeta. destruct (w_pooled c).
  - rewrite wire_log. unfold log, wire, evs. wsimpl. rewrite app_nil_r. auto 10.
  - unfold wire, evs. wsimpl. auto 10.
Qed.

Lemma blen_app' a b : blen (a ++ b) = blen a + blen b.
Proof. apply blen_app. Qed.

(* ------------------------------------------------------------------------------------------ *)
(* flushFrame                                                                                 *)
(* ------------------------------------------------------------------------------------------ *)
Lemma b0_arith (t:N) (final comp:bool) :
  t + (if final then c_finalBit else 0) + (if comp then c_rsv1Bit else 0)
  = 128 * b2n final + 16 * (if comp then 4 else 0) + t.
Proof. unfold c_finalBit, c_rsv1Bit. destruct final, comp; cbn [b2n]; lia. Qed.

Definition CInv (c:wcfg) (s:wst) : Prop := exists fs p, Inv c s (cur s) fs p.

Lemma flush_frame_inv c final extra m s fs p :
  Inv c s (Some m) fs p -> blen (m_buf m) + blen extra < 2^63 ->
  forall e s', flush_frame c final extra m s = (e, s') ->
  CInv c s' /\ fl s' = fl s /\ (cur_flate s' = true -> cur_flate s = true) /\
  (forall m', cur s' = Some m' -> m_id m' = m_id m /\ final = false /\ e = None /\
                                  m_buf m' = [] /\ m_ftype m' = 0 /\ cur_flate s' = cur_flate s) /\
  (e <> None -> cur s' = None).
Proof.
  intros HI HL e s' H.
  assert (HM : mok c m) by (apply (i_cm _ _ _ _ _ HI); reflexivity).
  assert (Merr : m_err m = None) by apply HM.
  unfold flush_frame in H. cbv zeta in H.
  set (m1 := m <| m_compress := false |>) in *.
  set (s1 := s <| cur := Some m1 |>) in *.
  assert (Merr1 : m_err m1 = None) by exact Merr.
  assert (HM1 : mok c m1).
  { destruct HM as [A B C D]. constructor; try assumption. intros X. discriminate X. }
  rewrite <- blen_app in H, HL.
  set (pl := m_buf m ++ extra) in *.
  destruct (is_control_ty (m_ftype m) && (negb final || (c_maxControlFramePayloadSize <? blen pl))) eqn:EC.
  { (* refused: nothing written, the writer ends; a control writer never has a message open *)
    inversion H; subst e s'. clear H.
    destruct (end_message_eff c WInvalidControl m s Merr) as (E1&E2&E3&E4&E5&E6&E7).
    split; [|split; [exact E3|split; [rewrite E2; discriminate|split; [rewrite E1; discriminate|intros _; exact E1]]]].
    exists fs, p. rewrite E1.
    apply (Inv_transfer c s _ (Some m) None fs p HI E7); try assumption.
    - rewrite E6. apply HI.
    - rewrite E5. auto.
    - discriminate.
    - intros _. cbn [link]. intros ->.
      apply andb_true_iff in EC. destruct EC as [EC _]. destruct HM as [_ B _ _].
      destruct B as [E|[E|[E|[E|[E|E]]]]]; rewrite E in *; cbn in EC; try discriminate; reflexivity. }
  (* the frame about to be written *)
  assert (Hb0 : m_ftype m + (if final then c_finalBit else 0) + (if m_compress m then c_rsv1Bit else 0)
                = 128 * b2n final + 16 * (if m_compress m then 4 else 0) + m_ftype m) by apply b0_arith.
  rewrite Hb0 in H.
  assert (S1 : wire s1 = wire s /\ werr s1 = werr s /\ keys s1 = keys s /\ fail_at s1 = fail_at s /\
               fl s1 = fl s /\ cur_flate s1 = cur_flate s) by (repeat split; reflexivity).
  destruct S1 as (S1w & S1e & S1k & S1f & S1fl & S1cf).
  (* what happens after conn_write, common to both roles *)
  assert (Common : forall masked (mk:bytes->bytes) buf1 e0 s2,
    conn_write (m_ftype m1) (deadline s1) masked mk buf1 s1 = (e0, s2) ->
    (forall key, (if masked then len4 key else key = []) ->
       role_key c (if masked then Some key else None) /\
       mk key ++ buf1 = encode_frame (mkf final (m_ftype m) (if m_compress m then 4 else 0)
                                          (if masked then Some key else None) pl)) ->
    match e0 with
    | Some e0 => (Some e0, end_message c e0 m1 s2)
    | None => if final then (None, end_message c WWriteClosed m1 s2)
              else (None, s2 <| cur := Some (m1 <| m_buf := [] |> <| m_ftype := c_continuationFrame |>) |>)
    end = (e, s') ->
    CInv c s' /\ fl s' = fl s /\ (cur_flate s' = true -> cur_flate s = true) /\
    (forall m', cur s' = Some m' -> m_id m' = m_id m /\ final = false /\ e = None /\
                                    m_buf m' = [] /\ m_ftype m' = 0 /\ cur_flate s' = cur_flate s) /\
    (e <> None -> cur s' = None)).
  { intros masked mk buf1 e0 s2 HCW Henc Hres.
    apply conn_write_spec in HCW; [|rewrite S1k; apply HI].
    destruct HCW as (HK2 & key & W & Hkey & (C1&C2&C3&C4&C5) & HCase).
    destruct (Henc key Hkey) as [Hrole Hfr].
    destruct (flush_frame_ok c m final _ pl HM EC Hrole HL) as (Fwf & Fok & Fnext).
    set (f := mkf final (m_ftype m) (if m_compress m then 4 else 0) (if masked then Some key else None) pl) in *.
    rewrite S1e in HCase. rewrite S1w in C5. rewrite S1f in C4. rewrite S1fl in C3. rewrite S1cf in C2.
    destruct (werr s) as [ew|] eqn:EW.
    - (* the connection is already dead: nothing written *)
      destruct HCase as (-> & HW2 & Hne). destruct e0 as [e0|]; [|contradiction].
      inversion Hres; subst e s'. clear Hres.
      destruct (end_message_eff c e0 m1 s2 Merr1) as (E1&E2&E3&E4&E5&E6&E7).
      split; [|split; [congruence|split; [rewrite E2; discriminate|split; [rewrite E1; discriminate|intros _; exact E1]]]].
      exists fs, p. rewrite E1.
      apply (Inv_transfer c s _ (Some m) None fs p HI); try assumption.
      + rewrite E7, C5, app_nil_r. reflexivity.
      + rewrite E6. exact HK2.
      + congruence.
      + rewrite E5, HW2. discriminate.
      + discriminate.
      + rewrite E5, HW2. discriminate.
    - destruct HCase as [(-> & ->)|(Hne & HW2 & HFa & HPre & _)].
      + (* the whole frame went out *)
        rewrite Hfr in C5.
        assert (Hlink : wopen fs = (m_ftype m =? 0)).
        { destruct (i_live _ _ _ _ _ HI EW) as [_ X]. exact X. }
        rewrite <- Hlink in Fok, Fnext.
        destruct final.
        * inversion Hres; subst e s'. clear Hres.
          destruct (end_message_eff c WWriteClosed m1 s2 Merr1) as (E1&E2&E3&E4&E5&E6&E7).
          split; [|split; [congruence|split; [rewrite E2; discriminate|split; [rewrite E1; discriminate|intros X; contradiction]]]].
          exists (fs ++ [f]), []. rewrite E1.
          apply (Inv_emit_ok c s _ (Some m) None fs p f HI EW); try assumption.
          -- rewrite E7. exact C5.
          -- rewrite E6. exact HK2.
          -- congruence.
          -- discriminate.
          -- intros _. cbn [link]. rewrite Fnext. reflexivity.
        * inversion Hres; subst e s'. clear Hres.
          set (m2 := m1 <| m_buf := [] |> <| m_ftype := c_continuationFrame |>).
          set (s3 := s2 <| cur := Some m2 |>).
          assert (S3 : wire s3 = wire s2 /\ werr s3 = werr s2 /\ keys s3 = keys s2 /\ fail_at s3 = fail_at s2 /\
                       fl s3 = fl s2 /\ cur_flate s3 = cur_flate s2 /\ cur s3 = Some m2) by (repeat split; reflexivity).
          destruct S3 as (S3w & S3e & S3k & S3f & S3fl & S3cf & S3c).
          split; [|split; [congruence|split; [rewrite S3cf, C2; auto|split; [|intros X; contradiction]]]].
          -- exists (fs ++ [f]), []. rewrite S3c.
             apply (Inv_emit_ok c s _ (Some m) (Some m2) fs p f HI EW); try assumption.
             ++ intros m' Hm'. inversion Hm'; subst m'. destruct HM as [A B C D].
                constructor.
                ** exact A.
                ** left. reflexivity.
                ** cbn. lia.
                ** intros X. discriminate X.
             ++ intros _. cbn [link]. rewrite Fnext. reflexivity.
          -- rewrite S3c. intros m' Hm'. inversion Hm'; subst m'. repeat split; try reflexivity. exact C2.
      + (* the transport failed part-way *)
        destruct e0 as [e0|]; [|contradiction].
        inversion Hres; subst e s'. clear Hres.
        destruct (end_message_eff c e0 m1 s2 Merr1) as (E1&E2&E3&E4&E5&E6&E7).
        split; [|split; [congruence|split; [rewrite E2; discriminate|split; [rewrite E1; discriminate|intros _; exact E1]]]].
        exists fs, W. rewrite E1.
        assert (Hlink : wopen fs = (m_ftype m =? 0)).
        { destruct (i_live _ _ _ _ _ HI EW) as [_ X]. exact X. }
        rewrite <- Hlink in Fok.
        apply (Inv_emit_fail c s _ (Some m) None fs p f W HI EW); try assumption.
        * rewrite E7. exact C5.
        * rewrite E6. exact HK2.
        * congruence.
        * rewrite E5. exact HW2.
        * rewrite <- Hfr. exact HPre.
        * discriminate. }
  destruct (w_server c) eqn:ES.
  - (* server: header + buffer, then extra *)
    destruct (conn_write (m_ftype m1) (deadline s1) false
               (fun _ : bytes => frame_header (128 * b2n final + 16 * (if m_compress m then 4 else 0) + m_ftype m) 0
                                              (blen pl) ++ m_buf m1) extra s1) as [e0 s2] eqn:HCW.
    eapply (Common false _ extra e0 s2 HCW); [|exact H].
    intros key Hkey. split; [unfold role_key; rewrite ES; reflexivity|].
    rewrite <- (frame_header_enc final _ (m_ftype m) None pl _ eq_refl).
    cbn [mbit wpay]. subst pl. rewrite <- app_assoc. reflexivity.
  - destruct extra as [|x extra'].
    + destruct (conn_write (m_ftype m1) (deadline s1) true
                 (fun key : bytes => frame_header (128 * b2n final + 16 * (if m_compress m then 4 else 0) + m_ftype m)
                                                  c_maskBit (blen pl) ++ key ++ maskl key 0 (m_buf m1)) [] s1)
        as [e0 s2] eqn:HCW.
      eapply (Common true _ [] e0 s2 HCW); [|exact H].
      intros key Hkey. split; [unfold role_key; rewrite ES; exists key; auto|].
      rewrite <- (frame_header_enc final _ (m_ftype m) (Some key) pl _ eq_refl).
      cbn [mbit wpay]. subst pl. rewrite !app_nil_r. reflexivity.
    + (* a client never passes extra: internal error, connection poisoned *)
      inversion H; subst e s'. clear H.
      destruct (write_fatal_eff WInternal s1) as (B1&B2&B3&B4&B5&B6&B7).
      destruct (end_message_eff c WInternal m1 (write_fatal WInternal s1) Merr1) as (E1&E2&E3&E4&E5&E6&E7).
      split; [|split; [congruence|split; [rewrite E2; discriminate|split; [rewrite E1; discriminate|intros _; exact E1]]]].
      exists fs, p. rewrite E1.
      apply (Inv_transfer c s _ (Some m) None fs p HI); try assumption.
      * congruence.
      * rewrite E6, B5, S1k. apply HI.
      * congruence.
      * rewrite E5. intros X. contradiction.
      * discriminate.
      * rewrite E5. intros X. contradiction.
Qed.

End Fa.
